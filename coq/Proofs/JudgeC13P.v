(* Soundness of the executable judgement Check/C13c.v (app level) on the model's own run. *)
From Coq Require Import ZArith QArith List Bool Lia Permutation.
From BEI Require Import Model.Frame Spec.Events Spec.ReadSpec Proofs.StateP Proofs.ActionP Proofs.InstanceP Proofs.ReaderP
  Proofs.MergeP Proofs.FrameLiftP Proofs.RegistryP Proofs.TrackDefs Proofs.TrackOpP Proofs.TrackFrameP Proofs.ValueP Check.C13c.
From BEI Require Proofs.JudgeC03P Proofs.JudgeC12P Proofs.JudgeC18P.
From BEI Require Import Proofs.JudgeC07P.
Import ListNotations.
Open Scope Z_scope.

(* ================================================================================================ *)
(* 0. helpers                                                                                       *)
(* ================================================================================================ *)
Definition all_true (l : list (Z * bool)) : Prop := forall k b, In (k, b) l -> b = true.
Lemma all_true_first_fail l : all_true l -> first_fail l = 0.
Proof. apply first_fail_all_true. Qed.
Lemma all_true_app a b : all_true a -> all_true b -> all_true (a ++ b).
Proof. intros Ha Hb k x Hin. apply in_app_or in Hin. destruct Hin; [eapply Ha | eapply Hb]; eassumption. Qed.
Lemma all_true_cons k b l : b = true -> all_true l -> all_true ((k, b) :: l).
Proof. intros Hb Hl k' b' [[= <- <-]|Hin]; [exact Hb | eapply Hl; exact Hin]. Qed.
Lemma all_true_nil : all_true [].
Proof. intros k b []. Qed.
Lemma all_true_flat_map {A} (f : A -> list (Z * bool)) l : (forall x, In x l -> all_true (f x)) -> all_true (flat_map f l).
Proof. intros H k b Hin. apply in_flat_map in Hin. destruct Hin as (x & Hx & Hin). eapply H; eassumption. Qed.
Lemma all_true_concat_map {A} (f : A -> list (Z * bool)) l : (forall x, In x l -> all_true (f x)) -> all_true (concat (map f l)).
Proof. rewrite <- flat_map_concat_map. apply all_true_flat_map. Qed.

Lemma state_eqb_eq a b : state_eqb a b = true <-> a = b.
Proof. destruct a, b; cbn; split; intros; congruence. Qed.

(* ---- what a wrapper is shown: the table, sorted ---- *)
Lemma insert_sorted_keys p l x : In x (map fst (insert_sorted p l)) <-> x = fst p \/ In x (map fst l).
Proof.
  induction l as [|q l IH]; cbn [insert_sorted map In]; [intuition|].
  destruct (Z.leb (fst p) (fst q)); cbn [map In]; [intuition|]. rewrite IH. intuition.
Qed.
Lemma insert_sorted_length p l : length (insert_sorted p l) = S (length l).
Proof. induction l as [|q l IH]; cbn [insert_sorted length]; [reflexivity|]. destruct (Z.leb (fst p) (fst q)); cbn [length]; [reflexivity | rewrite IH; reflexivity]. Qed.
Lemma find_insert_sorted a k s l : ~ In k (map fst l) ->
  find (fun p : Z * state => Z.eqb (fst p) a) (insert_sorted (k, s) l) =
  if Z.eqb k a then Some (k, s) else find (fun p => Z.eqb (fst p) a) l.
Proof.
  induction l as [|q l IH]; intros Hn; cbn [insert_sorted find fst]; [destruct (Z.eqb k a); reflexivity|].
  cbn [map In] in Hn. destruct (Z.leb k (fst q)); cbn [find fst]; [reflexivity|].
  rewrite IH by tauto. destruct (Z.eqb k a) eqn:Ek; [|reflexivity].
  apply Z.eqb_eq in Ek. subst a. destruct (Z.eqb (fst q) k) eqn:Eq; [|reflexivity]. apply Z.eqb_eq in Eq. exfalso. apply Hn. left. exact Eq.
Qed.
Lemma seen_of_keys m x : In x (map fst (seen_of m)) <-> In x (map fst m).
Proof.
  induction m as [|[k d] m IH]; cbn [seen_of fold_right map In fst]; [tauto|].
  fold (seen_of m). rewrite insert_sorted_keys. cbn [fst]. rewrite IH. intuition.
Qed.
Lemma seen_of_length m : length (seen_of m) = length m.
Proof. induction m as [|[k d] m IH]; cbn [seen_of fold_right length]; [reflexivity|]. fold (seen_of m). rewrite insert_sorted_length, IH. reflexivity. Qed.
Lemma seen_state_of m a : NoDup (map fst m) -> seen_state a (seen_of m) = look_of m a.
Proof.
  unfold seen_state, look_of. induction m as [|[k d] m IH]; intros Hd; cbn [seen_of fold_right lookup map fst snd]; [reflexivity|].
  fold (seen_of m). cbn [map fst] in Hd. inversion Hd as [|? ? Hn Hd']; subst.
  rewrite find_insert_sorted by (rewrite seen_of_keys; exact Hn).
  destruct (Z.eqb k a); [reflexivity|]. apply IH. exact Hd'.
Qed.
Lemma find_seen_of m a : NoDup (map fst m) ->
  find (fun p : Z * state => Z.eqb (fst p) a) (seen_of m) = option_map (fun s => (a, s)) (look_of m a).
Proof.
  unfold look_of. induction m as [|[k d] m IH]; intros Hd; cbn [seen_of fold_right lookup map fst snd]; [reflexivity|].
  fold (seen_of m). cbn [map fst] in Hd. inversion Hd as [|? ? Hn Hd']; subst.
  rewrite find_insert_sorted by (rewrite seen_of_keys; exact Hn).
  destruct (Z.eqb k a) eqn:E; [apply Z.eqb_eq in E; subst; reflexivity|]. apply IH. exact Hd'.
Qed.

(* ================================================================================================ *)
(* 1. the skeleton of a binding: what never changes while it is evaluated                           *)
(* ================================================================================================ *)
Definition enc_kind (k : ckind) : Z := match k with KExplicit => 0 | KImplicit => 1 | KBlocker false => 2 | KBlocker true => 3 end.
Definition cond_ref (c : cond) : list Z :=
  match c with CChord a => [1; a] | CBlockBy a eo => [2; a; if eo then 1 else 0] | _ => [0] end.
Definition mod_ref (m : modif) : list Z := match m with MAccumulate a _ => [1; a] | _ => [0] end.
Definition enc_input (i : input) : list Z :=
  match i with IKey k m => [0; k; m] | IMouseButton b m => [1; b; m] | IMotion m => [2; m] | IWheel m => [3; m]
             | IPadButton b => [4; b] | IPadAxis a => [5; a] end.
Definition enc_dev (d : device) : list Z := match d with None => [] | Some z => [z] end.
Definition mskel (x : Z * modif) : list Z := fst x :: mod_ref (snd x).
Definition cskel (x : Z * cond) : list Z := fst x :: enc_kind (cond_kind (snd x)) :: cond_ref (snd x).
Definition ibskel (ib : ibind) : list Z * (list (list Z) * list (list Z)) :=
  (enc_input (ib_input ib), (map mskel (ib_mods ib), map cskel (ib_conds ib))).
Definition abskel (b : abind) : Z * (list (list Z) * (list (list Z) * list (list Z * (list (list Z) * list (list Z))))) :=
  (ab_id b, (map mskel (ab_mods b), (map cskel (ab_conds b), map ibskel (ab_inputs b)))).
Definition iskel (i : inst) := (enc_dev (in_pad i), map abskel (in_binds i)).

Lemma enc_input_inj a b : enc_input a = enc_input b -> a = b.
Proof. destruct a, b; cbn; intros H; inversion H; subst; reflexivity. Qed.
Lemma enc_dev_inj a b : enc_dev a = enc_dev b -> a = b.
Proof. destruct a, b; cbn; intros H; inversion H; subst; reflexivity. Qed.
Lemma enc_kind_inj a b : enc_kind a = enc_kind b -> a = b.
Proof. destruct a as [| |[|]], b as [| |[|]]; cbn; intros H; try discriminate; reflexivity. Qed.

Lemma cond_eval_skel look tm v c id : cskel (id, fst (cond_eval look tm v c)) = cskel (id, c).
Proof.
  unfold cskel. cbn [fst snd]. rewrite TrackFrameP.cond_eval_kind. f_equal. f_equal.
  destruct c; cbn [cond_eval]; cbv zeta; try reflexivity;
    repeat match goal with |- context [if ?b then _ else _] => destruct b end; reflexivity.
Qed.
Lemma modif_apply_skel look tm v x id : mskel (id, fst (modif_apply look tm v x)) = mskel (id, x).
Proof.
  unfold mskel. cbn [fst snd]. f_equal. destruct x; cbn [modif_apply]; try reflexivity.
  - destruct (delta_lerp_apply spd prev (vdelta tm) v). reflexivity.
  - destruct (accumulate_apply look a acc v). reflexivity.
Qed.
Lemma apply_mods_skel m tm ms : forall v, map mskel (fst (fst (apply_mods m tm v ms))) = map mskel ms.
Proof.
  induction ms as [|[id x] r IH]; intros v; cbn [apply_mods]; [reflexivity|].
  pose proof (modif_apply_skel (look_of m) tm v x id) as Hk.
  destruct (modif_apply (look_of m) tm v x) as [x' v']. cbn [fst] in Hk.
  specialize (IH v'). destruct (apply_mods m tm v' r) as [[r' v''] lg]. cbn [fst map] in *. rewrite Hk, IH. reflexivity.
Qed.
Lemma apply_conds_skel m tm cs : forall t, map cskel (fst (fst (apply_conds m tm t cs))) = map cskel cs.
Proof.
  induction cs as [|[id c] r IH]; intros t; cbn [apply_conds]; [reflexivity|].
  pose proof (cond_eval_skel (look_of m) tm (t_value t) c id) as Hk.
  destruct (cond_eval (look_of m) tm (t_value t) c) as [c' s]. cbn [fst] in Hk.
  specialize (IH (apply_result t (cond_kind c) s)).
  destruct (apply_conds m tm (apply_result t (cond_kind c) s) r) as [[r' t'] lg]. cbn [fst map] in *. rewrite Hk, IH. reflexivity.
Qed.
Lemma input_step_skel m tm r c dev a st b : ibskel (snd (input_step m tm r c dev a st b)) = ibskel b.
Proof.
  unfold input_step.
  destruct (ib_ignored b && as_bool (reader_value r consumed_reset dev (ib_input b))); [reflexivity|].
  pose proof (apply_mods_skel m tm (ib_mods b) (reader_value r c dev (ib_input b))) as Hm.
  destruct (apply_mods m tm (reader_value r c dev (ib_input b)) (ib_mods b)) as [[ms' v'] lg1]. cbn [fst] in Hm.
  pose proof (apply_conds_skel m tm (ib_conds b) (tracker_new v')) as Hc.
  destruct (apply_conds m tm (tracker_new v') (ib_conds b)) as [[cs' cur] lg2]. cbn [fst] in Hc.
  assert (E : ibskel (mkIbind (ib_input b) ms' cs' false) = ibskel b) by (unfold ibskel; cbn [ib_input ib_mods ib_conds]; rewrite Hm, Hc; reflexivity).
  destruct (state_eqb (tracker_state cur) SNone); [exact E|].
  destruct (state_cmp (tracker_state cur) (tracker_state (l_tracker st))); exact E.
Qed.
Lemma input_loop_skel m tm r c dev a bs : forall st, map ibskel (snd (input_loop m tm r c dev a st bs)) = map ibskel bs.
Proof.
  induction bs as [|b rest IH]; intros st; cbn [input_loop]; [reflexivity|].
  pose proof (input_step_skel m tm r c dev a st b) as Hs.
  destruct (input_step m tm r c dev a st b) as [st1 b']. cbn [snd] in Hs.
  specialize (IH st1). destruct (input_loop m tm r c dev a st1 rest) as [st2 rest']. cbn [snd map] in *. rewrite Hs, IH. reflexivity.
Qed.
Lemma action_update_skel m tm r c dev recips ab : abskel (o_bind (action_update m tm r c dev recips ab)) = abskel ab.
Proof.
  unfold action_update.
  pose proof (input_loop_skel m tm r c dev (ab_id ab) (ab_inputs ab) (mkLoop (tracker_new (vzero (aid_dim (ab_id ab)))) [] [])) as Hl.
  destruct (input_loop m tm r c dev (ab_id ab) _ (ab_inputs ab)) as [st inputs']. cbn [snd] in Hl.
  pose proof (apply_mods_skel m tm (ab_mods ab) (t_value (l_tracker st))) as Hm.
  destruct (apply_mods m tm (t_value (l_tracker st)) (ab_mods ab)) as [[ms' v1] lg1]. cbn [fst] in Hm.
  pose proof (apply_conds_skel m tm (ab_conds ab) (with_value (l_tracker st) v1)) as Hc.
  destruct (apply_conds m tm (with_value (l_tracker st) v1) (ab_conds ab)) as [[cs' tr] lg2]. cbn [fst] in Hc.
  cbn [o_bind]. unfold abskel. cbn [ab_id ab_mods ab_conds ab_inputs]. rewrite Hm, Hc, Hl. reflexivity.
Qed.

(* all the modifiers / conditions of a binding, in evaluation order *)
Definition mods_all (b : abind) : list (Z * modif) := flat_map ib_mods (ab_inputs b) ++ ab_mods b.
Definition conds_all (b : abind) : list (Z * cond) := flat_map ib_conds (ab_inputs b) ++ ab_conds b.
Definition skel_ids (b : abind) : list Z := JudgeC03P.ab_ids b.

(* ================================================================================================ *)
(* 2. what the log of one action evaluation contains                                                *)
(* ================================================================================================ *)
Definition item_ok (look : aid -> option state) (tm : time) (seen : list (Z * state))
           (ms : list (Z * modif)) (cs : list (Z * cond)) (x : logitem) : Prop :=
  match x with
  | LMod id vin vout sx => sx = seen /\ exists x0, In (id, x0) ms /\ vout = snd (modif_apply look tm vin x0)
  | LCond id v res sx => sx = seen /\ exists c0, In (id, c0) cs /\ res = snd (cond_eval look tm v c0)
  end.
Lemma item_ok_incl look tm seen ms cs ms' cs' x : incl ms ms' -> incl cs cs' -> item_ok look tm seen ms cs x -> item_ok look tm seen ms' cs' x.
Proof.
  intros Hm Hc. destruct x as [id v res sx|id vin vout sx]; cbn [item_ok]; intros (Hs & y & Hy & E); (split; [exact Hs|]); exists y; split; auto.
Qed.
Lemma apply_mods_items m tm ms : forall v, Forall (item_ok (look_of m) tm (seen_of m) ms []) (snd (apply_mods m tm v ms)).
Proof.
  induction ms as [|[id x] r IH]; intros v; cbn [apply_mods]; [constructor|].
  destruct (modif_apply (look_of m) tm v x) as [x' v'] eqn:E.
  specialize (IH v'). destruct (apply_mods m tm v' r) as [[r' v''] lg]. cbn [snd] in *. constructor.
  - cbn [item_ok]. split; [reflexivity|]. exists x. split; [left; reflexivity | rewrite E; reflexivity].
  - eapply Forall_impl; [|exact IH]. intros y. apply item_ok_incl; [intros z Hz; right; exact Hz | apply incl_refl].
Qed.
Lemma apply_conds_items m tm cs : forall t, Forall (item_ok (look_of m) tm (seen_of m) [] cs) (snd (apply_conds m tm t cs)).
Proof.
  induction cs as [|[id c] r IH]; intros t; cbn [apply_conds]; [constructor|].
  destruct (cond_eval (look_of m) tm (t_value t) c) as [c' s] eqn:E.
  specialize (IH (apply_result t (cond_kind c) s)).
  destruct (apply_conds m tm (apply_result t (cond_kind c) s) r) as [[r' t'] lg]. cbn [snd] in *. constructor.
  - cbn [item_ok]. split; [reflexivity|]. exists c. split; [left; reflexivity | rewrite E; reflexivity].
  - eapply Forall_impl; [|exact IH]. intros y. apply item_ok_incl; [apply incl_refl | intros z Hz; right; exact Hz].
Qed.
Lemma input_step_items m tm r c dev a st b MS CS :
  Forall (item_ok (look_of m) tm (seen_of m) MS CS) (l_log st) -> incl (ib_mods b) MS -> incl (ib_conds b) CS ->
  Forall (item_ok (look_of m) tm (seen_of m) MS CS) (l_log (fst (input_step m tm r c dev a st b))).
Proof.
  intros Hst Hm Hc. unfold input_step.
  destruct (ib_ignored b && as_bool (reader_value r consumed_reset dev (ib_input b))); [exact Hst|].
  pose proof (apply_mods_items m tm (ib_mods b) (reader_value r c dev (ib_input b))) as H1.
  destruct (apply_mods m tm (reader_value r c dev (ib_input b)) (ib_mods b)) as [[ms' v'] lg1]. cbn [snd] in H1.
  pose proof (apply_conds_items m tm (ib_conds b) (tracker_new v')) as H2.
  destruct (apply_conds m tm (tracker_new v') (ib_conds b)) as [[cs' cur] lg2]. cbn [snd] in H2.
  assert (E : Forall (item_ok (look_of m) tm (seen_of m) MS CS) (l_log st ++ lg1 ++ lg2)).
  { apply Forall_app. split; [exact Hst|]. apply Forall_app. split.
    - eapply Forall_impl; [|exact H1]. intros y. apply item_ok_incl; [exact Hm | intros z []].
    - eapply Forall_impl; [|exact H2]. intros y. apply item_ok_incl; [intros z [] | exact Hc]. }
  destruct (state_eqb (tracker_state cur) SNone); [exact E|].
  destruct (state_cmp (tracker_state cur) (tracker_state (l_tracker st))); exact E.
Qed.
Lemma input_loop_items m tm r c dev a MS CS bs : forall st,
  Forall (item_ok (look_of m) tm (seen_of m) MS CS) (l_log st) -> incl (flat_map ib_mods bs) MS -> incl (flat_map ib_conds bs) CS ->
  Forall (item_ok (look_of m) tm (seen_of m) MS CS) (l_log (fst (input_loop m tm r c dev a st bs))).
Proof.
  induction bs as [|b rest IH]; intros st Hst Hm Hc; cbn [input_loop]; [exact Hst|].
  cbn [flat_map] in Hm, Hc.
  pose proof (input_step_items m tm r c dev a st b MS CS Hst) as Hs.
  destruct (input_step m tm r c dev a st b) as [st1 b']. cbn [fst] in Hs.
  specialize (IH st1). destruct (input_loop m tm r c dev a st1 rest) as [st2 rest']. cbn [fst] in *.
  apply IH.
  - apply Hs; intros z Hz; [apply Hm | apply Hc]; apply in_or_app; left; exact Hz.
  - intros z Hz. apply Hm. apply in_or_app. right. exact Hz.
  - intros z Hz. apply Hc. apply in_or_app. right. exact Hz.
Qed.
Lemma action_update_items m tm r c dev recips ab :
  Forall (item_ok (look_of m) tm (seen_of m) (mods_all ab) (conds_all ab)) (o_log (action_update m tm r c dev recips ab)).
Proof.
  unfold action_update.
  pose proof (input_loop_items m tm r c dev (ab_id ab) (mods_all ab) (conds_all ab) (ab_inputs ab)
                (mkLoop (tracker_new (vzero (aid_dim (ab_id ab)))) [] [])) as Hl.
  destruct (input_loop m tm r c dev (ab_id ab) _ (ab_inputs ab)) as [st inputs']. cbn [fst l_log] in Hl.
  pose proof (apply_mods_items m tm (ab_mods ab) (t_value (l_tracker st))) as Hm.
  destruct (apply_mods m tm (t_value (l_tracker st)) (ab_mods ab)) as [[ms' v1] lg1]. cbn [snd] in Hm.
  pose proof (apply_conds_items m tm (ab_conds ab) (with_value (l_tracker st) v1)) as Hc.
  destruct (apply_conds m tm (with_value (l_tracker st) v1) (ab_conds ab)) as [[cs' tr] lg2]. cbn [snd] in Hc.
  cbn [o_log]. apply Forall_app. split; [|apply Forall_app; split].
  - apply Hl; [constructor | |]; intros z Hz; apply in_or_app; left; exact Hz.
  - eapply Forall_impl; [|exact Hm]. intros y. apply item_ok_incl; [intros z Hz; apply in_or_app; right; exact Hz | intros z []].
  - eapply Forall_impl; [|exact Hc]. intros y. apply item_ok_incl; [intros z [] | intros z Hz; apply in_or_app; right; exact Hz].
Qed.

(* ---- the action-level conditions: all logged with one value; what the blockers among them do ---- *)
Definition cres (look : aid -> option state) (tm : time) (v : value) (x : Z * cond) : state := snd (cond_eval look tm v (snd x)).
Definition hit (eo : bool) (look : aid -> option state) (tm : time) (v : value) (x : Z * cond) : bool :=
  match cond_kind (snd x) with KBlocker b => Bool.eqb b eo && state_eqb (cres look tm v x) SNone | _ => false end.

Lemma apply_conds_flags m tm cs : forall t,
  blocked (snd (fst (apply_conds m tm t cs))) = blocked t || existsb (hit false (look_of m) tm (t_value t)) cs /\
  events_blocked (snd (fst (apply_conds m tm t cs))) = events_blocked t || existsb (hit true (look_of m) tm (t_value t)) cs.
Proof.
  induction cs as [|[id c] r IH]; intros t; cbn [apply_conds existsb]; [rewrite !orb_false_r; split; reflexivity|].
  unfold hit at 1 3. unfold cres. cbn [snd].
  destruct (cond_eval (look_of m) tm (t_value t) c) as [c' s] eqn:E. cbn [snd].
  specialize (IH (apply_result t (cond_kind c) s)). rewrite apply_result_value in IH.
  destruct (apply_conds m tm (apply_result t (cond_kind c) s) r) as [[r' t'] lg]. cbn [fst snd] in *.
  destruct IH as [I1 I2]. rewrite I1, I2.
  destruct (cond_kind c) as [| |[|]]; cbn [apply_result blocked events_blocked Bool.eqb andb orb is_s];
    unfold is_s; rewrite ?orb_assoc, ?orb_false_r; split; reflexivity.
Qed.

Lemma action_update_tail m tm r c dev recips ab :
  let o := action_update m tm r c dev recips ab in
  let a := ab_id ab in
  exists v LIM d',
    o_log o = LIM ++ map (fun x => LCond (fst x) v (cres (look_of m) tm v x) (seen_of m)) (ab_conds ab) /\
    o_actions o = store a d' m /\
    (existsb (hit false (look_of m) tm v) (ab_conds ab) = true -> d_state d' = SNone) /\
    (existsb (hit true (look_of m) tm v) (ab_conds ab) = true -> o_events o = Some []) /\
    (existsb (hit true (look_of m) tm v) (ab_conds ab) = false ->
     Forall (fun ib => ~ In (KBlocker true) (conds_kinds (ib_conds ib))) (ab_inputs ab) ->
     o_events o = Some (flat_map (fun k => map (mk_event a d' k) recips) (table (d_state (old_data m a)) (d_state d')))).
Proof.
  cbv zeta. unfold action_update, old_data.
  pose proof (input_loop_track m tm r c dev (ab_id ab) (ab_inputs ab)
                (mkLoop (tracker_new (vzero (aid_dim (ab_id ab)))) [] [])) as [_ Hl].
  destruct (input_loop m tm r c dev (ab_id ab) _ (ab_inputs ab)) as [st inputs']. cbn [fst] in Hl.
  destruct (apply_mods m tm (t_value (l_tracker st)) (ab_mods ab)) as [[ms' v1] lg1].
  pose proof (JudgeC03P.apply_conds_log m tm (ab_conds ab) (with_value (l_tracker st) v1)) as Hlog.
  pose proof (apply_conds_flags m tm (ab_conds ab) (with_value (l_tracker st) v1)) as [Hb He].
  destruct (apply_conds m tm (with_value (l_tracker st) v1) (ab_conds ab)) as [[cs' tr] lg2]. cbn [fst snd] in *.
  set (a := ab_id ab) in *.
  set (d := match lookup a m with Some d => d | None => data_new (aid_dim a) end).
  replace (t_value (with_value (l_tracker st) v1)) with v1 in * by reflexivity.
  exists v1, (l_log st ++ lg1), (data_update (vdelta tm) d (tracker_state tr) (convert (aid_dim a) (t_value tr))).
  cbn [o_log o_actions o_events].
  destruct (data_update_fields (vdelta tm) d (tracker_state tr) (convert (aid_dim a) (t_value tr))) as (Hs & Hv & Ht).
  split; [rewrite Hlog, <- app_assoc; reflexivity|]. split; [reflexivity|]. split; [|split].
  - intros Hx. rewrite Hs. unfold tracker_state. rewrite Hb, Hx, orb_true_r. reflexivity.
  - intros Hx. rewrite He, Hx, orb_true_r. reflexivity.
  - intros Hx Hin. rewrite He, Hx, orb_false_r. unfold with_value. cbn [events_blocked]. rewrite (Hl Hin eq_refl).
    rewrite emit_some by (rewrite Hv; apply convert_dim). rewrite Ht, Hs. reflexivity.
Qed.

(* ================================================================================================ *)
(* 3. one instance: the tables its actions are shown                                                *)
(* ================================================================================================ *)
Lemma lookup_in a (m : actions) : lookup a m <> None <-> In a (map fst m).
Proof.
  induction m as [|[k d] m IH]; cbn [lookup map fst In]; [tauto|].
  destruct (Z.eqb k a) eqn:E; [apply Z.eqb_eq in E; split; [intros _; left; exact E | discriminate]|].
  apply Z.eqb_neq in E. rewrite IH. tauto.
Qed.
Lemma store_keys a d m : In a (map fst m) -> map fst (store a d m) = map fst m.
Proof.
  induction m as [|[k x] m IH]; cbn [store map fst In]; [tauto|]. intros H.
  destruct (Z.eqb k a) eqn:E; cbn [map fst]; [reflexivity|]. apply Z.eqb_neq in E. rewrite IH; [reflexivity|]. tauto.
Qed.
Lemma store_keys_new a d m : ~ In a (map fst m) -> map fst (store a d m) = map fst m ++ [a].
Proof.
  induction m as [|[k x] m IH]; cbn [store map fst In app]; [reflexivity|]. intros H.
  destruct (Z.eqb k a) eqn:E; [apply Z.eqb_eq in E; tauto|]. cbn [map fst]. rewrite IH; [reflexivity|]. tauto.
Qed.

Lemma end_table_cons m e l : end_table m (e :: l) = end_table (o_actions (er_out e)) l.
Proof. reflexivity. Qed.

Lemma action_update_other m tm r c dev recips b a : a <> ab_id b ->
  lookup a (o_actions (action_update m tm r c dev recips b)) = lookup a m.
Proof. intros H. destruct (action_update_result m tm r c dev recips b) as (s & v & bl & _ & _ & Ho & _). apply Ho. exact H. Qed.
Lemma action_update_keys m tm r c dev recips b : In (ab_id b) (map fst m) ->
  map fst (o_actions (action_update m tm r c dev recips b)) = map fst m.
Proof.
  intros H. destruct (action_update_tail m tm r c dev recips b) as (v & LIM & d' & _ & E & _). cbv zeta in E. rewrite E. apply store_keys. exact H.
Qed.

Lemma bind_evals_keep cx recips dev tm r a bs : forall m c, ~ In a (map ab_id bs) ->
  (forall e, In e (bind_evals cx recips dev tm r m c bs) -> lookup a (er_table e) = lookup a m) /\
  lookup a (end_table m (bind_evals cx recips dev tm r m c bs)) = lookup a m.
Proof.
  induction bs as [|b rest IH]; intros m c Hn; cbn [bind_evals]; [split; [intros e [] | reflexivity]|].
  cbn [map In] in Hn. cbv zeta. set (o := action_update m tm r c dev recips b).
  destruct (IH (o_actions o) (o_consumed o)) as [I1 I2]; [tauto|].
  assert (Ho : lookup a (o_actions o) = lookup a m) by (apply action_update_other; intros E; apply Hn; left; symmetry; exact E).
  split.
  - intros e [<-|He]; [reflexivity|]. rewrite (I1 e He). exact Ho.
  - rewrite end_table_cons. cbn [er_out]. rewrite I2. exact Ho.
Qed.

Lemma bind_evals_keys cx recips dev tm r bs : forall m c, (forall b, In b bs -> In (ab_id b) (map fst m)) ->
  (forall e, In e (bind_evals cx recips dev tm r m c bs) -> map fst (er_table e) = map fst m) /\
  map fst (end_table m (bind_evals cx recips dev tm r m c bs)) = map fst m.
Proof.
  induction bs as [|b rest IH]; intros m c Hk; cbn [bind_evals]; [split; [intros e [] | reflexivity]|].
  cbv zeta. set (o := action_update m tm r c dev recips b).
  assert (Ho : map fst (o_actions o) = map fst m) by (apply action_update_keys; apply Hk; left; reflexivity).
  destruct (IH (o_actions o) (o_consumed o)) as [I1 I2]; [intros b' Hb'; rewrite Ho; apply Hk; right; exact Hb'|].
  split.
  - intros e [<-|He]; [reflexivity|]. rewrite (I1 e He). exact Ho.
  - rewrite end_table_cons. cbn [er_out]. rewrite I2. exact Ho.
Qed.

Lemma bind_evals_tables cx recips dev tm r bs : NoDup (map ab_id bs) -> forall m c j e,
  nth_error (bind_evals cx recips dev tm r m c bs) j = Some e ->
  nth_error bs j = Some (er_bind e) /\ rec_ok tm r e /\ er_recipients e = recips /\ er_dev e = dev /\
  (forall a, In a (map ab_id (firstn j bs)) -> lookup a (er_table e) = lookup a (end_table m (bind_evals cx recips dev tm r m c bs))) /\
  (forall a, ~ In a (map ab_id (firstn j bs)) -> lookup a (er_table e) = lookup a m).
Proof.
  induction bs as [|b rest IH]; intros Hd m c j e Hj; cbn [bind_evals] in Hj; [destruct j; discriminate|].
  cbn [map] in Hd. inversion Hd as [|? ? Hn Hd']; subst. cbv zeta in Hj.
  destruct j as [|k]; cbn [nth_error] in Hj.
  - injection Hj as <-. cbn [er_bind er_table firstn map nth_error er_recipients er_dev]. repeat split; try reflexivity. intros a [].
  - cbn [bind_evals]. cbv zeta. set (o := action_update m tm r c dev recips b) in *.
    destruct (IH Hd' (o_actions o) (o_consumed o) k e Hj) as (I1 & I2 & I3 & I4 & I5 & I6).
    cbn [nth_error firstn map]. rewrite end_table_cons. cbn [er_out].
    destruct (bind_evals_keep cx recips dev tm r (ab_id b) rest (o_actions o) (o_consumed o) Hn) as [K1 K2].
    assert (He : In e (bind_evals cx recips dev tm r (o_actions o) (o_consumed o) rest)) by (eapply nth_error_In; exact Hj).
    repeat split; try assumption.
    + intros a [<-|Ha]; [rewrite (K1 e He), K2; reflexivity | apply I5; exact Ha].
    + intros a Ha. cbn [In] in Ha. rewrite I6 by tauto. apply action_update_other. intros E. apply Ha. left. symmetry. exact E.
Qed.

(* the instance-level invariant: one table entry per binding, in binding order *)
Definition inst_ok (i : inst) : Prop := map fst (in_actions i) = map ab_id (in_binds i) /\ NoDup (map ab_id (in_binds i)).

Lemma extend_none s bs : extend s bs = None -> ~ In (a_id s) (map ab_id bs).
Proof.
  induction bs as [|b r IH]; cbn [extend map In]; [tauto|].
  destruct (Z.eqb (ab_id b) (a_id s)) eqn:E; [discriminate|]. apply Z.eqb_neq in E.
  destruct (extend s r); cbn [option_map]; [discriminate|]. intros _ [H|H]; [congruence | exact (IH eq_refl H)].
Qed.
Lemma bind_action_ok i s : inst_ok i -> inst_ok (bind_action i s).
Proof.
  intros [Hk Hd]. unfold bind_action. destruct (extend s (in_binds i)) as [bs|] eqn:E.
  - pose proof (extend_ids s (in_binds i) bs E) as Hi. split; cbn [in_binds in_actions]; rewrite Hi; assumption.
  - apply extend_none in E. split; cbn [in_binds in_actions].
    + rewrite store_keys_new by (rewrite Hk; exact E). rewrite map_app, Hk. reflexivity.
    + rewrite map_app. cbn [map ab_id]. apply JudgeC03P.nodup_app. split; [exact Hd|]. split; [constructor; [intros [] | constructor]|].
      intros x Hx [<-|[]]. exact (E Hx).
Qed.
Lemma instantiate_ok s : inst_ok (instantiate s).
Proof.
  unfold instantiate. assert (H0 : inst_ok (mkInst (i_pad s) [] [])) by (split; [reflexivity | constructor]).
  revert H0. generalize (mkInst (i_pad s) [] []). induction (i_actions s) as [|a l IH]; intros i Hi; cbn [fold_left]; [exact Hi|].
  apply IH. apply bind_action_ok. exact Hi.
Qed.

(* one update of an instance, as a sequence of records *)
Definition ievals (tm : time) (r : raw) (c : consumed) (ents : list entity) (i : inst) : list eval_rec := inst_evals 0 ents tm r c i.
Lemma inst_update_view tm r c ents i :
  let ev := ievals tm r c ents i in
  inst_update tm r c ents i =
  mkInstOut (mkInst (in_pad i) (map (fun e => o_bind (er_out e)) ev) (end_table (in_actions i) ev))
            (end_consumed c ev) (Some (flat_map rec_events ev)) (flat_map rec_log ev).
Proof. apply inst_update_records. Qed.

Lemma ievals_binds tm r c ents i : map er_bind (ievals tm r c ents i) = in_binds i.
Proof. apply inst_evals_binds. Qed.
Lemma ievals_ok tm r c ents i : Forall (rec_ok tm r) (ievals tm r c ents i).
Proof. apply inst_evals_ok. Qed.

Lemma ievals_map_bind {B} (f : abind -> B) tm r c ents i :
  (forall m c' dev recips b, f (o_bind (action_update m tm r c' dev recips b)) = f b) ->
  map (fun e => f (o_bind (er_out e))) (ievals tm r c ents i) = map f (in_binds i).
Proof.
  intros Hf. transitivity (map f (map er_bind (ievals tm r c ents i))); [|rewrite ievals_binds; reflexivity].
  rewrite map_map. apply map_ext_in. intros e He. pose proof (ievals_ok tm r c ents i) as Hok. rewrite Forall_forall in Hok.
  rewrite (Hok e He). apply Hf.
Qed.
Lemma inst_update_skel tm r c ents i : iskel (io_inst (inst_update tm r c ents i)) = iskel i.
Proof.
  unfold iskel. f_equal; [rewrite inst_update_view; reflexivity|].
  rewrite inst_update_view. cbn [io_inst in_binds]. rewrite map_map. apply ievals_map_bind. intros. apply action_update_skel.
Qed.
Lemma inst_update_ok tm r c ents i : inst_ok i -> inst_ok (io_inst (inst_update tm r c ents i)).
Proof.
  intros [Hk Hd].
  assert (Hids : map ab_id (in_binds (io_inst (inst_update tm r c ents i))) = map ab_id (in_binds i)).
  { rewrite inst_update_view. cbn [io_inst in_binds]. rewrite map_map. apply ievals_map_bind. intros. apply action_update_id. }
  split; [|rewrite Hids; exact Hd]. rewrite Hids. rewrite inst_update_view. cbn [io_inst in_actions].
  destruct (bind_evals_keys 0 ents (in_pad i) tm r (in_binds i) (in_actions i) c) as [_ K]; [|exact (eq_trans K Hk)].
  intros b Hb. rewrite Hk. apply in_map. exact Hb.
Qed.

(* ================================================================================================ *)
(* 4. the registry as a sequence of instance updates                                                *)
(* ================================================================================================ *)
Definition unit_t := (ctx * list entity * inst)%type.
Definition uctx (u : unit_t) : ctx := fst (fst u).
Definition uents (u : unit_t) : list entity := snd (fst u).
Definition uinst (u : unit_t) : inst := snd u.
Definition g_units (g : group) : list unit_t :=
  match g with GExcl c _ insts => map (fun ei => (c, [fst ei], snd ei)) insts | GShared c _ ents i => [(c, ents, i)] end.
Definition reg_units (gs : registry) : list unit_t := flat_map g_units gs.

Fixpoint uruns (tm : time) (r : raw) (c : consumed) (us : list unit_t) : list inst_out :=
  match us with
  | [] => []
  | u :: rest => let io := inst_update tm r c (uents u) (uinst u) in io :: uruns tm r (io_consumed io) rest
  end.
Fixpoint ufinal (tm : time) (r : raw) (c : consumed) (us : list unit_t) : consumed :=
  match us with
  | [] => c
  | u :: rest => ufinal tm r (io_consumed (inst_update tm r c (uents u) (uinst u))) rest
  end.
Definition io_evs (io : inst_out) : list event := match io_events io with Some l => l | None => [] end.
Definition newu (p : unit_t * inst_out) : unit_t := (uctx (fst p), uents (fst p), io_inst (snd p)).

Lemma uruns_app tm r a : forall c b, uruns tm r c (a ++ b) = uruns tm r c a ++ uruns tm r (ufinal tm r c a) b.
Proof. induction a as [|u a IH]; intros c b; cbn [app uruns ufinal]; [reflexivity|]. cbv zeta. rewrite IH. reflexivity. Qed.
Lemma ufinal_app tm r a : forall c b, ufinal tm r c (a ++ b) = ufinal tm r (ufinal tm r c a) b.
Proof. induction a as [|u a IH]; intros c b; cbn [app ufinal]; [reflexivity|]. apply IH. Qed.
Lemma uruns_length tm r us : forall c, length (uruns tm r c us) = length us.
Proof. induction us as [|u us IH]; intros c; cbn [uruns length]; [reflexivity|]. cbv zeta. cbn [length]. rewrite IH. reflexivity. Qed.
Lemma uruns_in tm r us : forall c io, In io (uruns tm r c us) -> exists u cu, In u us /\ io = inst_update tm r cu (uents u) (uinst u).
Proof.
  induction us as [|u us IH]; intros c io Hin; cbn [uruns] in Hin; [destruct Hin|]. cbv zeta in Hin.
  destruct Hin as [<-|Hin]; [exists u, c; split; [left; reflexivity | reflexivity]|].
  destruct (IH _ io Hin) as (u' & cu & Hu & E). exists u', cu. split; [right; exact Hu | exact E].
Qed.
Lemma inst_update_events_some tm r c ents i : io_events (inst_update tm r c ents i) = Some (io_evs (inst_update tm r c ents i)).
Proof. unfold io_evs. rewrite inst_update_view. reflexivity. Qed.

Lemma combine_app_eq {A B} (a1 a2 : list A) (b1 b2 : list B) : length a1 = length b1 ->
  combine (a1 ++ a2) (b1 ++ b2) = combine a1 b1 ++ combine a2 b2.
Proof.
  revert b1. induction a1 as [|x a1 IH]; intros [|y b1] H; cbn in *; try discriminate; [reflexivity|]. rewrite IH; [reflexivity | lia].
Qed.

Lemma excl_update_units tm r cx insts : forall c,
  let us := map (fun ei : entity * inst => (cx, [fst ei], snd ei)) insts in
  let '(insts', c', ev, lg) := excl_update tm r c insts in
  map (fun ei : entity * inst => (cx, [fst ei], snd ei)) insts' = map newu (combine us (uruns tm r c us)) /\
  c' = ufinal tm r c us /\ ev = Some (flat_map io_evs (uruns tm r c us)) /\ lg = flat_map io_log (uruns tm r c us).
Proof.
  induction insts as [|[e i] rest IH]; intros c; cbn [excl_update map]; [repeat split|].
  cbv zeta. specialize (IH (io_consumed (inst_update tm r c [e] i))).
  destruct (excl_update tm r (io_consumed (inst_update tm r c [e] i)) rest) as [[[rest' c'] ev] lg].
  cbv zeta in IH. destruct IH as (I1 & I2 & I3 & I4).
  cbn [uruns ufinal combine map flat_map uents uinst fst snd]. cbv zeta. cbn [combine map flat_map].
  split; [|split; [|split]].
  - rewrite I1. reflexivity.
  - exact I2.
  - rewrite inst_update_events_some, I3. reflexivity.
  - rewrite I4. reflexivity.
Qed.

Lemma reg_update_units tm r gs : forall c,
  let us := reg_units gs in
  let o := reg_update tm r c gs in
  reg_units (ro_reg o) = map newu (combine us (uruns tm r c us)) /\
  ro_consumed o = ufinal tm r c us /\ ro_events o = Some (flat_map io_evs (uruns tm r c us)) /\ ro_log o = flat_map io_log (uruns tm r c us).
Proof.
  induction gs as [|[cx p insts|cx p ents i] gs IH]; intros c; cbn [reg_update reg_units flat_map g_units]; [repeat split| |].
  - pose proof (excl_update_units tm r cx insts c) as He.
    destruct (excl_update tm r c insts) as [[[insts' c'] ev] lg]. cbv zeta in He. destruct He as (E1 & E2 & E3 & E4).
    cbv zeta. destruct (IH c') as (I1 & I2 & I3 & I4). cbn [ro_reg ro_consumed ro_events ro_log reg_units flat_map g_units].
    fold (reg_units gs) in *. fold (reg_units (ro_reg (reg_update tm r c' gs))).
    rewrite uruns_app, ufinal_app, <- E2. rewrite combine_app_eq by (rewrite uruns_length; reflexivity).
    rewrite map_app, !flat_map_app, E1, I1, I2, I3, I4, E3, E4. repeat split.
  - cbv zeta. destruct (IH (io_consumed (inst_update tm r c ents i))) as (I1 & I2 & I3 & I4).
    cbn [ro_reg ro_consumed ro_events ro_log reg_units flat_map g_units app uruns ufinal combine map uents uinst fst snd]. cbv zeta.
    fold (reg_units gs) in *. fold (reg_units (ro_reg (reg_update tm r (io_consumed (inst_update tm r c ents i)) gs))).
    cbn [combine map flat_map]. rewrite I1, I2, I3, I4, inst_update_events_some. repeat split.
Qed.

(* ---- looking an instance up through the units ---- *)
Lemma g_units_ctx g u : In u (g_units g) -> uctx u = g_ctx g.
Proof.
  destruct g as [c p insts|c p ents i]; cbn [g_units g_ctx].
  - intros H. apply in_map_iff in H. destruct H as (ei & <- & _). reflexivity.
  - intros [<-|[]]. reflexivity.
Qed.
Lemma reg_get_unit c e gs i : reg_get c e gs = Some i -> exists ents, In (c, ents, i) (reg_units gs) /\ In e ents.
Proof.
  intros H. destruct (reg_get_group c e gs i H) as (l1 & g & l2 & -> & _ & Hc & Hg).
  assert (Hu : exists ents, In (c, ents, i) (g_units g) /\ In e ents).
  { destruct g as [c0 p insts|c0 p ents i0]; cbn [group_get g_units g_ctx] in *; subst c0.
    - destruct (find (fun ei => Z.eqb (fst ei) e) insts) as [[x j]|] eqn:E; cbn [option_map snd] in Hg; [|discriminate].
      injection Hg as ->. apply find_some in E. destruct E as [E1 E2]. cbn [fst] in E2. apply Z.eqb_eq in E2. subst x.
      exists [e]. split; [|left; reflexivity]. apply in_map_iff. exists (e, i). split; [reflexivity | exact E1].
    - destruct (existsb (Z.eqb e) ents) eqn:E; [|discriminate]. injection Hg as ->. exists ents. split; [left; reflexivity|].
      apply existsb_exists in E. destruct E as (x & Hx & E). apply Z.eqb_eq in E. subst x. exact Hx. }
  destruct Hu as (ents & Hu & He). exists ents. split; [|exact He].
  unfold reg_units. apply in_flat_map. exists g. split; [apply in_or_app; right; left; reflexivity | exact Hu].
Qed.
Lemma unit_reg_get c e gs ents i : NoDup (map g_ctx gs) -> Forall group_ok gs ->
  In (c, ents, i) (reg_units gs) -> In e ents -> reg_get c e gs = Some i.
Proof.
  intros Hd Hok Hu He. unfold reg_units in Hu. apply in_flat_map in Hu. destruct Hu as (g & Hg & Hu).
  pose proof (g_units_ctx g _ Hu) as Hc. cbn in Hc.
  destruct (reg_split gs g Hd Hg) as (l1 & l2 & -> & Hn1 & _). rewrite <- Hc in Hn1.
  rewrite (reg_get_found c e l1 g l2 Hn1 (eq_sym Hc)).
  rewrite Forall_forall in Hok. destruct (Hok g Hg) as (_ & _ & _ & Hnd & _).
  destruct g as [c0 p insts|c0 p ents0 i0]; cbn [g_units group_get g_ents] in *.
  - apply in_map_iff in Hu. destruct Hu as ([e' i'] & [= -> <- <-] & Hin). destruct He as [<-|[]]. cbn [fst snd] in *.
    apply (find_fst_nodup e' i' insts Hnd). exact Hin.
  - destruct Hu as [[= -> -> ->]|[]]. replace (existsb (Z.eqb e) ents) with true; [reflexivity|].
    symmetry. apply existsb_exists. exists e. split; [exact He | apply Z.eqb_refl].
Qed.
Lemma unit_excl_single gs c ents i : Forall group_ok gs -> In (c, ents, i) (reg_units gs) -> ctx_shared c = false -> exists e, ents = [e].
Proof.
  intros Hok Hu Hs. unfold reg_units in Hu. apply in_flat_map in Hu. destruct Hu as (g & Hg & Hu).
  pose proof (g_units_ctx g _ Hu) as Hc. cbn in Hc. rewrite Forall_forall in Hok. destruct (Hok g Hg) as (_ & Hsh & _).
  destruct g as [c0 p insts|c0 p ents0 i0]; cbn [g_units g_shared g_ctx] in *.
  - apply in_map_iff in Hu. destruct Hu as (ei & [= _ <- _] & _). eexists; reflexivity.
  - subst c0. congruence.
Qed.
Lemma unit_ents_nodup gs c ents i : Forall group_ok gs -> In (c, ents, i) (reg_units gs) -> NoDup ents.
Proof.
  intros Hok Hu. unfold reg_units in Hu. apply in_flat_map in Hu. destruct Hu as (g & Hg & Hu).
  rewrite Forall_forall in Hok. destruct (Hok g Hg) as (_ & _ & _ & Hnd & _).
  destruct g as [c0 p insts|c0 p ents0 i0]; cbn [g_units g_ents] in *.
  - apply in_map_iff in Hu. destruct Hu as (ei & [= _ <- _] & _). constructor; [intros [] | constructor].
  - destruct Hu as [[= _ <- _]|[]]. exact Hnd.
Qed.

(* every (context, entity) pair is served by one unit only *)
Definition ukeys (us : list unit_t) : list (Z * Z) := flat_map (fun u => map (fun e => (uctx u, e)) (uents u)) us.
Lemma g_units_keys g : ukeys (g_units g) = map (fun e => (g_ctx g, e)) (g_ents g).
Proof.
  destruct g as [c p insts|c p ents i]; cbn [g_units g_ctx g_ents ukeys].
  - induction insts as [|ei l IH]; [reflexivity|]. cbn [map]. unfold ukeys in *. cbn [flat_map map app uctx uents fst snd]. f_equal. exact IH.
  - cbn [flat_map uctx uents fst snd]. apply app_nil_r.
Qed.
Lemma ukeys_app a b : ukeys (a ++ b) = ukeys a ++ ukeys b.
Proof. apply flat_map_app. Qed.
Lemma ukeys_ctx gs k : In k (ukeys (reg_units gs)) -> In (fst k) (map g_ctx gs).
Proof.
  unfold ukeys, reg_units. intros H. apply in_flat_map in H. destruct H as (u & Hu & Hk). apply in_flat_map in Hu. destruct Hu as (g & Hg & Hu).
  apply in_map_iff in Hk. destruct Hk as (e & <- & _). cbn [fst]. rewrite (g_units_ctx g u Hu). apply in_map. exact Hg.
Qed.
Lemma ukeys_nodup gs : NoDup (map g_ctx gs) -> Forall group_ok gs -> NoDup (ukeys (reg_units gs)).
Proof.
  induction gs as [|g gs IH]; intros Hd Hok; cbn [reg_units flat_map]; [constructor|].
  fold (reg_units gs). rewrite ukeys_app, g_units_keys. cbn [map] in Hd. inversion Hd as [|? ? Hn Hd']; subst. inversion Hok as [|? ? Hg Hok']; subst.
  apply JudgeC03P.nodup_app. split; [|split; [apply IH; assumption|]].
  - destruct Hg as (_ & _ & _ & Hnd & _). apply FinFun.Injective_map_NoDup; [intros x y [= E]; exact E | exact Hnd].
  - intros k Hk Hk'. apply ukeys_ctx in Hk'. apply in_map_iff in Hk. destruct Hk as (e & <- & _). cbn [fst] in Hk'. exact (Hn Hk').
Qed.

(* ================================================================================================ *)
(* 5. what an operation does (arrivals / departures / rebuild), after JudgeC07P                     *)
(* ================================================================================================ *)
Lemma apply_op_cases sc w o oo : reg_inv sc w -> apply_op sc w o = Some oo ->
  grow sc w (oo_world oo) (oo_built oo) \/ (shrink w (oo_world oo) /\ oo_built oo = []) \/
  rebuilt sc (s_menu sc) w (oo_world oo) (oo_built oo).
Proof.
  intros Hinv Hop. destruct o as [e cs|e c|e c|e|]; cbn [apply_op] in *.
  - left. destruct (holds_of e (w_holds w)) as [old|] eqn:He.
    + injection Hop as <-. apply grow_refl.
    + injection Hop as <-. pose proof (spawn_world_inv sc w e Hinv He) as Hinv0.
      set (w0 := mkWorld (w_holds w ++ [(e, [])]) (w_reg w) (w_time w)) in *.
      destruct (spawn_fold_grow sc e cs (mkOpOut w0 [] []) Hinv0) as (bl & Hb & _ & G). cbn [oo_built oo_world app] in Hb, G.
      unfold spawn_f in Hb, G. rewrite Hb. apply (grow_from sc w0 w); [|reflexivity|exact G].
      intros c' e'. unfold holds, w0. cbn [w_holds]. rewrite holds_of_snoc. destruct (holds_of e' (w_holds w)) as [x|] eqn:E'; [tauto|].
      split; [|intros (x & H & _); discriminate]. destruct (Z.eqb e e'); intros (x & [= <-] & Hx); discriminate.
  - left. injection Hop as <-. apply insert_grow. exact Hinv.
  - right. left. destruct (remove_shrink sc w e c oo Hinv Hop) as [S E]. split; assumption.
  - destruct (holds_of e (w_holds w)) as [cs0|] eqn:He.
    2:{ left. injection Hop as <-. apply grow_refl. }
    right. left.
    change (match fold_left (despawn_f e) (filter (fun c => memz c cs0) (s_menu sc)) (Some (mkOpOut w [] [])) with
            | Some a => Some (mkOpOut (mkWorld (del_ent e (w_holds (oo_world a))) (w_reg (oo_world a)) (w_time w)) (oo_events a) [])
            | None => None end = Some oo) in Hop.
    destruct (fold_left (despawn_f e) _ _) as [a|] eqn:Ef; [|discriminate]. injection Hop as <-. cbn [oo_world oo_built].
    destruct (despawn_fold_shrink sc e _ (mkOpOut w [] []) a Hinv Ef) as [S Hinv1]. cbn [oo_world] in S.
    split; [|reflexivity]. eapply shrink_trans; [exact S|]. constructor; cbn [w_holds w_reg].
    + intros c0 e0 (x & H1 & H2). rewrite holds_of_del in H1. destruct (Z.eqb e0 e); [discriminate|]. exists x. split; assumption.
    + reflexivity.
  - right. right. change (fold_left (rebuild_f sc) (s_menu sc) (Some (mkOpOut w [] [])) = Some oo) in Hop.
    destruct (rebuild_fold_rebuilt sc (s_menu sc) (mkOpOut w [] []) oo Hinv Hop) as (bl & Hb & _ & R). cbn [oo_built oo_world app] in Hb, R.
    rewrite Hb. exact R.
Qed.

(* ---- the keyed invariant: every stored instance still has the skeleton of a fresh one of its context ---- *)
Definition KI (sc : scenario) (c : ctx) (e : entity) (i : inst) : Prop :=
  inst_ok i /\ exists e0, In e0 (s_ents sc) /\ iskel i = iskel (mk_inst sc c e0) /\ (ctx_shared c = false -> e0 = e).
Definition KInv (sc : scenario) (w : world) : Prop := forall c e i, reg_get c e (w_reg w) = Some i -> KI sc c e i.

Lemma KI_fresh sc c e e0 : In e0 (s_ents sc) -> (ctx_shared c = false -> e0 = e) -> KI sc c e (mk_inst sc c e0).
Proof. intros H1 H2. split; [apply instantiate_ok|]. exists e0. repeat split; assumption. Qed.

Lemma holds_ents sc w c e : ents_inv sc w -> holds (w_holds w) c e -> In e (s_ents sc).
Proof. intros He Hh. apply He. eapply holds_live. exact Hh. Qed.

Lemma KInv_op sc w o oo : reg_inv sc w -> ents_inv sc (oo_world oo) -> apply_op sc w o = Some oo -> KInv sc w -> KInv sc (oo_world oo).
Proof.
  intros Hinv Hents Hop HK. destruct (apply_op_inv sc w o Hinv) as (r0 & Hr0 & Hinv'). rewrite Hop in Hr0. injection Hr0 as <-.
  intros c e i' Hg.
  pose proof (mirror_some sc (oo_world oo) c e i' Hinv' Hg) as Hh'.
  destruct (apply_op_cases sc w o oo Hinv Hop) as [G|[[S _]|R]].
  - destruct G as [G1 G2 G3 G4 G5 G6]. destruct (holds_dec w c e) as [Hh|Hh].
    + rewrite (G2 c e Hh) in Hg. exact (HK c e i' Hg).
    + destruct (ctx_shared c) eqn:Hs.
      * destruct (someone_dec sc w c Hinv) as [(e1 & H1)|Hno].
        -- destruct (inv_shared_common sc (oo_world oo) c Hinv' Hs e e1 Hh' (G1 c e1 H1)) as (j & Hj1 & Hj2).
           rewrite Hg in Hj1. injection Hj1 as <-. rewrite (G2 c e1 H1) in Hj2. destruct (HK c e1 i' Hj2) as (Hok & e0 & H0 & Hsk & _).
           split; [exact Hok|]. exists e0. repeat split; try assumption. congruence.
        -- assert (Hb : exists e0, In (c, e0) (oo_built oo)) by (apply (G4 c Hs); split; [exists e; exact Hh' | exact Hno]).
           destruct (G6 c Hs Hb) as (e0 & Hh0 & Hall). rewrite (Hall e Hh') in Hg. injection Hg as <-.
           apply KI_fresh; [eapply holds_ents; eassumption | congruence].
      * assert (Hb : In (c, e) (oo_built oo)) by (apply (G3 c e Hs); split; assumption).
        rewrite (G5 c e Hs Hb) in Hg. injection Hg as <-. apply KI_fresh; [eapply holds_ents; eassumption | reflexivity].
  - destruct S as [S1 S2]. rewrite (S2 c e Hh') in Hg. exact (HK c e i' Hg).
  - destruct R as [R1 R2 R3 R4 R5 R6 R7]. destruct (in_dec Z.eq_dec c (s_menu sc)) as [Hin|Hnin].
    + apply R1 in Hh'. destruct (ctx_shared c) eqn:Hs.
      * destruct (R7 c Hs (R4 c Hs Hin (ex_intro _ e Hh'))) as (e0 & Hh0 & Hall). rewrite (Hall e (proj2 (R1 c e) Hh')) in Hg. injection Hg as <-.
        apply KI_fresh; [eapply holds_ents; eassumption | congruence].
      * rewrite (R6 c e Hs (R3 c e Hs Hin Hh')) in Hg. injection Hg as <-.
        apply KI_fresh; [eapply holds_ents; [exact Hents | apply R1; exact Hh'] | reflexivity].
    + rewrite (R5 c e Hnin) in Hg. exact (HK c e i' Hg).
Qed.

(* ---- a frame, seen through the units ---- *)
Lemma combine_uruns_in tm r us : forall c u io, In (u, io) (combine us (uruns tm r c us)) ->
  In u us /\ exists cu, io = inst_update tm r cu (uents u) (uinst u).
Proof.
  induction us as [|u0 us IH]; intros c u io Hin; cbn [uruns combine] in Hin; [destruct Hin|]. cbv zeta in Hin. cbn [combine] in Hin.
  destruct Hin as [[= <- <-]|Hin]; [split; [left; reflexivity | exists c; reflexivity]|].
  destruct (IH _ u io Hin) as (Hu & cu & E). split; [right; exact Hu | exists cu; exact E].
Qed.

Definition frame_reg (w : world) (f : frame_in) : reg_out := reg_update (frame_time f) (f_raw f) (update_state (f_raw f)) (w_reg w).
Lemma frame_noops sc w f fo : f_ops f = [] -> frame sc w f = Some fo ->
  fo_world fo = mkWorld (w_holds w) (ro_reg (frame_reg w f)) (frame_time f) /\
  ro_events (frame_reg w f) = Some (fo_main fo) /\ fo_post fo = [] /\ fo_log fo = ro_log (frame_reg w f) /\ fo_built fo = [].
Proof.
  intros Hops H. unfold frame in H. fold (frame_reg w f) in H. destruct (ro_events (frame_reg w f)) as [main|]; [|discriminate].
  rewrite Hops, run_ops_nil in H. injection H as <-. cbn. repeat split.
Qed.

Lemma KInv_frame sc w f fo : reg_inv sc w -> f_ops f = [] -> frame sc w f = Some fo -> KInv sc w -> KInv sc (fo_world fo).
Proof.
  intros Hinv Hops Hf HK. destruct (frame_noops sc w f fo Hops Hf) as (Hw & _). rewrite Hw. intros c e i' Hg. cbn [w_reg] in Hg.
  destruct (reg_get_unit c e _ i' Hg) as (ents & Hu & He).
  destruct (reg_update_units (frame_time f) (f_raw f) (w_reg w) (update_state (f_raw f))) as (Hun & _). cbv zeta in Hun.
  unfold frame_reg in Hu. rewrite Hun in Hu. apply in_map_iff in Hu. destruct Hu as ([u io] & Enew & Hin).
  destruct (combine_uruns_in _ _ _ _ u io Hin) as (Hu & cu & ->). unfold newu in Enew. cbn [fst snd] in Enew. injection Enew as Ec Ee Ei.
  destruct Hinv as (_ & Hnd & Hok & _).
  assert (Hold : reg_get c e (w_reg w) = Some (uinst u)).
  { apply (unit_reg_get c e (w_reg w) ents (uinst u) Hnd Hok); [|exact He]. rewrite <- Ec, <- Ee. destruct u as [[? ?] ?]. exact Hu. }
  destruct (HK c e _ Hold) as (Hiok & e0 & H0 & Hsk & Hx). subst i'. split; [apply inst_update_ok; exact Hiok|].
  exists e0. repeat split; try assumption. rewrite inst_update_skel. exact Hsk.
Qed.

(* ================================================================================================ *)
(* 6. consequences of equal skeletons; what the scenario must guarantee                             *)
(* ================================================================================================ *)
Definition idsb (b : abind) : list Z := JudgeC03P.ab_ids b.
Definition spec_ids (s : inst_spec) : list Z := concat (map idsb (merged_actions s)).

Lemma ids_of_mskel (l : list (Z * modif)) : ids_of l = map (hd 0) (map mskel l).
Proof. unfold ids_of. rewrite map_map. reflexivity. Qed.
Lemma ids_of_cskel (l : list (Z * cond)) : ids_of l = map (hd 0) (map cskel l).
Proof. unfold ids_of. rewrite map_map. reflexivity. Qed.
Lemma ib_ids_skel ib ib' : ibskel ib = ibskel ib' -> JudgeC03P.ib_ids ib = JudgeC03P.ib_ids ib'.
Proof. unfold ibskel. intros [= _ H1 H2]. unfold JudgeC03P.ib_ids. rewrite !ids_of_mskel, !ids_of_cskel, H1, H2. reflexivity. Qed.
Lemma skel_inv b b0 : abskel b = abskel b0 ->
  ab_id b = ab_id b0 /\ map mskel (ab_mods b) = map mskel (ab_mods b0) /\ map cskel (ab_conds b) = map cskel (ab_conds b0) /\
  map ibskel (ab_inputs b) = map ibskel (ab_inputs b0).
Proof. unfold abskel. intros [= H1 H2 H3 H4]. repeat split; assumption. Qed.
Lemma idsb_skel b b0 : abskel b = abskel b0 -> idsb b = idsb b0.
Proof.
  intros H. destruct (skel_inv b b0 H) as (_ & H2 & H3 & H4). unfold idsb, JudgeC03P.ab_ids.
  rewrite (JudgeC03P.map_via ibskel JudgeC03P.ib_ids ib_ids_skel _ _ H4), !ids_of_mskel, !ids_of_cskel, H2, H3. reflexivity.
Qed.
Lemma flat_conds_skel l : map cskel (flat_map ib_conds l) = flat_map (fun k : list Z * (list (list Z) * list (list Z)) => snd (snd k)) (map ibskel l).
Proof. induction l as [|ib l IH]; cbn [flat_map map]; [reflexivity|]. rewrite map_app, IH. reflexivity. Qed.
Lemma flat_mods_skel l : map mskel (flat_map ib_mods l) = flat_map (fun k : list Z * (list (list Z) * list (list Z)) => fst (snd k)) (map ibskel l).
Proof. induction l as [|ib l IH]; cbn [flat_map map]; [reflexivity|]. rewrite map_app, IH. reflexivity. Qed.
Lemma conds_all_skel b b0 : abskel b = abskel b0 -> map cskel (conds_all b) = map cskel (conds_all b0).
Proof. intros H. destruct (skel_inv b b0 H) as (_ & _ & H3 & H4). unfold conds_all. rewrite !map_app, !flat_conds_skel, H3, H4. reflexivity. Qed.
Lemma mods_all_skel b b0 : abskel b = abskel b0 -> map mskel (mods_all b) = map mskel (mods_all b0).
Proof. intros H. destruct (skel_inv b b0 H) as (_ & H2 & _ & H4). unfold mods_all. rewrite !map_app, !flat_mods_skel, H2, H4. reflexivity. Qed.

Lemma conds_all_thin b : JudgeC03P.thin (map fst (conds_all b)) (idsb b).
Proof.
  unfold conds_all, idsb, JudgeC03P.ab_ids. rewrite map_app. apply JudgeC03P.thin_app.
  - rewrite flat_map_concat_map, concat_map, map_map.
    apply (JudgeC03P.thin_concat JudgeC03P.ib_ids (fun ib => map fst (ib_conds ib))). intros ib. unfold JudgeC03P.ib_ids.
    change (map fst (ib_conds ib)) with ([] ++ ids_of (ib_conds ib)). apply JudgeC03P.thin_app; [apply JudgeC03P.thin_nil | apply JudgeC03P.thin_refl].
  - change (map fst (ab_conds b)) with ([] ++ ids_of (ab_conds b)). apply JudgeC03P.thin_app; [apply JudgeC03P.thin_nil | apply JudgeC03P.thin_refl].
Qed.
Lemma mods_all_thin b : JudgeC03P.thin (map fst (mods_all b)) (idsb b).
Proof.
  unfold mods_all, idsb, JudgeC03P.ab_ids. rewrite map_app. apply JudgeC03P.thin_app.
  - rewrite flat_map_concat_map, concat_map, map_map.
    apply (JudgeC03P.thin_concat JudgeC03P.ib_ids (fun ib => map fst (ib_mods ib))). intros ib. unfold JudgeC03P.ib_ids.
    rewrite <- (app_nil_r (map fst (ib_mods ib))). apply JudgeC03P.thin_app; [apply JudgeC03P.thin_refl | apply JudgeC03P.thin_nil].
  - rewrite <- (app_nil_r (map fst (ab_mods b))). apply JudgeC03P.thin_app; [apply JudgeC03P.thin_refl | apply JudgeC03P.thin_nil].
Qed.

Lemma cskel_inv id c0 id' c1 : cskel (id, c0) = cskel (id', c1) -> id = id' /\ cond_kind c0 = cond_kind c1 /\ cond_ref c0 = cond_ref c1.
Proof. unfold cskel. cbn [fst snd]. intros [= H1 H2 H3]. repeat split; [exact H1 | apply enc_kind_inj; exact H2 | exact H3]. Qed.

Lemma skel_find {X} (sk : Z * X -> list Z) (Hsk : forall id x id' x', sk (id, x) = sk (id', x') -> id = id')
      (l l0 : list (Z * X)) id x x0 :
  map sk l = map sk l0 -> NoDup (map fst l0) -> In (id, x) l -> In (id, x0) l0 -> sk (id, x) = sk (id, x0).
Proof.
  intros Hm Hd Hin Hin0. apply (in_map sk) in Hin. rewrite Hm in Hin. apply in_map_iff in Hin. destruct Hin as ([id' x'] & E & Hin').
  pose proof (Hsk _ _ _ _ E) as ->. rewrite <- E. f_equal. f_equal. exact (nodup_fst_functional l0 id x' x0 Hd Hin' Hin0).
Qed.
Lemma skel_find_ex {X} (sk : Z * X -> list Z) (Hsk : forall id x id' x', sk (id, x) = sk (id', x') -> id = id')
      (l l0 : list (Z * X)) id x0 : map sk l = map sk l0 -> In (id, x0) l0 -> exists x, In (id, x) l /\ sk (id, x) = sk (id, x0).
Proof.
  intros Hm Hin0. apply (in_map sk) in Hin0. rewrite <- Hm in Hin0. apply in_map_iff in Hin0. destruct Hin0 as ([id' x'] & E & Hin').
  pose proof (Hsk _ _ _ _ E) as ->. exists x'. split; [exact Hin' | exact E].
Qed.
Lemma cskel_id id x id' x' : cskel (id, x) = cskel (id', x') -> id = id'.
Proof. intros H. apply cskel_inv in H. tauto. Qed.
Lemma mskel_id id x id' x' : mskel (id, x) = mskel (id', x') -> id = id'.
Proof. unfold mskel. cbn [fst snd]. intros [= H _]. exact H. Qed.

Lemma cond_same_skel b b0 id c0 c1 : abskel b = abskel b0 -> NoDup (idsb b0) -> In (id, c0) (conds_all b) -> In (id, c1) (conds_all b0) ->
  cond_kind c0 = cond_kind c1 /\ cond_ref c0 = cond_ref c1.
Proof.
  intros Hs Hd H0 H1. destruct (conds_all_thin b0) as [_ Hn].
  pose proof (skel_find cskel cskel_id _ _ id c0 c1 (conds_all_skel b b0 Hs) (Hn Hd) H0 H1) as E. apply cskel_inv in E. tauto.
Qed.

(* a position in a concatenation without repetition is determined by any of its elements *)
Lemma concat_pos {A} (f : A -> list Z) l : NoDup (concat (map f l)) -> forall j k a b x,
  nth_error l j = Some a -> nth_error l k = Some b -> In x (f a) -> In x (f b) -> j = k.
Proof.
  induction l as [|y l IH]; intros Hd j k a b x Hj Hk Ha Hb; [destruct j; discriminate|].
  cbn [map concat] in Hd. apply JudgeC03P.nodup_app in Hd. destruct Hd as (_ & Hd & Hx).
  destruct j as [|j], k as [|k]; cbn [nth_error] in *.
  - reflexivity.
  - injection Hj as <-. exfalso. apply (Hx x Ha). apply (JudgeC03P.in_concat_map f l b x); [eapply nth_error_In; exact Hk | exact Hb].
  - injection Hk as <-. exfalso. apply (Hx x Hb). apply (JudgeC03P.in_concat_map f l a x); [eapply nth_error_In; exact Hj | exact Ha].
  - f_equal. eapply IH; eassumption.
Qed.

Record facts (sc : scenario) : Prop := mkFacts {
  F_lookup : forall c e s, In (c, e, s) (s_cfg sc) -> cfg_lookup sc c e = s;
  F_nodup : forall c e s, In (c, e, s) (s_cfg sc) -> NoDup (spec_ids s);
  F_disj : forall c e s c' e' s' id, In (c, e, s) (s_cfg sc) -> In (c', e', s') (s_cfg sc) ->
           In id (spec_ids s) -> In id (spec_ids s') -> c' = c /\ (ctx_shared c = true \/ e' = e);
  F_shared : forall c e s e0, In (c, e, s) (s_cfg sc) -> ctx_shared c = true -> In e0 (s_ents sc) ->
             iskel (mk_inst sc c e0) = iskel (instantiate s);
  F_aids : forall c e s c' e' s' a, In (c, e, s) (s_cfg sc) -> In (c', e', s') (s_cfg sc) -> c' <> c ->
           In a (map ab_id (merged_actions s)) -> ~ In a (map ab_id (merged_actions s')) }.

Lemma cfg_lookup_entry sc c e : cfg_lookup sc c e = mkSpec None [] \/ In (c, e, cfg_lookup sc c e) (s_cfg sc).
Proof.
  unfold cfg_lookup. destruct (find (fun x => Z.eqb (fst (fst x)) c && Z.eqb (snd (fst x)) e) (s_cfg sc)) as [[[c1 e1] s1]|] eqn:Ef; [|left; reflexivity].
  right. apply find_some in Ef. destruct Ef as [Hin Hp]. cbn [fst snd] in *. apply andb_true_iff in Hp. destruct Hp as [H1 H2].
  apply Z.eqb_eq in H1. apply Z.eqb_eq in H2. subst. exact Hin.
Qed.

(* ---- units and the keyed invariant ---- *)
Lemma unit_ents_nonempty gs u : Forall group_ok gs -> In u (reg_units gs) -> uents u <> [].
Proof.
  intros Hok Hu. unfold reg_units in Hu. apply in_flat_map in Hu. destruct Hu as (g & Hg & Hu).
  rewrite Forall_forall in Hok. destruct (Hok g Hg) as (_ & _ & Hne & _).
  destruct g as [c0 p insts|c0 p ents0 i0]; cbn [g_units g_ents] in *.
  - apply in_map_iff in Hu. destruct Hu as (ei & <- & _). discriminate.
  - destruct Hu as [<-|[]]. exact Hne.
Qed.
Lemma unit_K sc w u : reg_inv sc w -> KInv sc w -> In u (reg_units (w_reg w)) ->
  inst_ok (uinst u) /\ exists e0, In e0 (s_ents sc) /\ iskel (uinst u) = iskel (mk_inst sc (uctx u) e0) /\ (ctx_shared (uctx u) = false -> uents u = [e0]).
Proof.
  intros (_ & Hnd & Hok & _) HK Hu. destruct u as [[c ents] i]. cbn [uinst uctx uents fst snd].
  pose proof (unit_ents_nonempty _ _ Hok Hu) as Hne. cbn [uents fst snd] in Hne. destruct ents as [|e ents]; [congruence|].
  pose proof (unit_reg_get c e _ _ i Hnd Hok Hu (or_introl eq_refl)) as Hg.
  destruct (HK c e i Hg) as (Hiok & e0 & H0 & Hsk & Hx). split; [exact Hiok|]. exists e0. repeat split; try assumption.
  intros Hs. destruct (unit_excl_single _ c _ i Hok Hu Hs) as (e' & [= -> ->]). rewrite (Hx Hs). reflexivity.
Qed.
Lemma shared_unit_unique gs c u1 u2 : NoDup (map g_ctx gs) -> Forall group_ok gs -> ctx_shared c = true ->
  In u1 (reg_units gs) -> In u2 (reg_units gs) -> uctx u1 = c -> uctx u2 = c -> u1 = u2.
Proof.
  intros Hnd Hok Hs H1 H2 E1 E2. unfold reg_units in *. apply in_flat_map in H1. apply in_flat_map in H2.
  destruct H1 as (g1 & Hg1 & H1). destruct H2 as (g2 & Hg2 & H2).
  pose proof (g_units_ctx g1 u1 H1) as C1. pose proof (g_units_ctx g2 u2 H2) as C2.
  assert (g1 = g2) by (apply (JudgeC12P.NoDup_map_inj g_ctx gs g1 g2 Hnd Hg1 Hg2); congruence). subst g2.
  rewrite Forall_forall in Hok. destruct (Hok g1 Hg1) as (_ & Hsh & _).
  destruct g1 as [c0 p insts|c0 p ents0 i0]; cbn [g_units g_shared g_ctx] in *; [congruence|].
  destruct H1 as [<-|[]]. destruct H2 as [<-|[]]. reflexivity.
Qed.

Lemma item_ok_id look tm seen b x : item_ok look tm seen (mods_all b) (conds_all b) x -> In (log_id x) (idsb b).
Proof.
  destruct x as [id v res sx|id vin vout sx]; cbn [item_ok log_id]; intros (_ & y & Hy & _).
  - destruct (conds_all_thin b) as [Hi _]. apply Hi. apply in_map_iff. exists (id, y). split; [reflexivity | exact Hy].
  - destruct (mods_all_thin b) as [Hi _]. apply Hi. apply in_map_iff. exists (id, y). split; [reflexivity | exact Hy].
Qed.
Lemma rec_item_ok tm r e x : rec_ok tm r e -> In x (rec_log e) ->
  item_ok (look_of (er_table e)) tm (seen_of (er_table e)) (mods_all (er_bind e)) (conds_all (er_bind e)) x.
Proof.
  intros Hok Hx. unfold rec_log in Hx. rewrite Hok in Hx.
  pose proof (action_update_items (er_table e) tm r (er_consumed e) (er_dev e) (er_recipients e) (er_bind e)) as H. rewrite Forall_forall in H. apply H. exact Hx.
Qed.
Lemma rec_events_shape tm r e x : rec_ok tm r e -> In x (rec_events e) -> e_action x = ab_id (er_bind e) /\ In (e_target x) (er_recipients e).
Proof.
  intros Hok Hx. unfold rec_events in Hx. rewrite Hok in Hx.
  destruct (action_update_result (er_table e) tm r (er_consumed e) (er_dev e) (er_recipients e) (er_bind e)) as (s & v & bl & _ & _ & _ & He).
  rewrite He in Hx. destruct bl; [destruct Hx|]. apply in_flat_map in Hx. destruct Hx as (k & _ & Hx). apply in_map_iff in Hx.
  destruct Hx as (t & <- & Ht). rewrite TrackFrameP.mk_event_action. split; [reflexivity|]. destruct k; exact Ht.
Qed.

Lemma ievals_where tm r c ents i e : In e (ievals tm r c ents i) -> er_recipients e = ents /\ er_dev e = in_pad i /\ In (er_bind e) (in_binds i).
Proof.
  intros He. pose proof (inst_evals_where 0 ents tm r c i) as Hw. rewrite Forall_forall in Hw. destruct (Hw e He) as (_ & H2 & H3).
  repeat split; try assumption. rewrite <- (ievals_binds tm r c ents i). apply in_map. exact He.
Qed.

(* ================================================================================================ *)
(* 7. one frame, focused on one configured (context, entity) pair                                   *)
(* ================================================================================================ *)
Definition gotf (c e : Z) (o : out) : bool := C13c.got_of c e o.
Definition BR (sc : scenario) (w : world) (before : out) : Prop :=
  (forall c e, C13c.got_of c e before = memz c (s_menu sc) && memz e (s_ents sc) && gotb w c e) /\
  (forall c e a, In c (s_menu sc) -> In e (s_ents sc) -> has_cfg sc c e = true -> In a (spec_aids (cfg_lookup sc c e)) ->
     gotb w c e = true -> snap_of_entry c e a (x_snaps before) = snapv w c e a) /\
  before_ok sc w before.
Lemma shows_BR sc w o : shows sc w o -> BR sc w o.
Proof.
  intros Hs. split; [intros c e; exact (got_of_shows sc w o c e Hs)|]. split; [|apply shows_before_ok; exact Hs].
  intros c e a Hc He Ec Ha _. destruct Hs as (_ & -> & _). apply snap_of_entry_model; assumption.
Qed.
Definition out0 : out := mkOut [] [] [] [] [] [] [] true true false.
Lemma BR_init sc : BR sc world_init out0.
Proof.
  split; [|split].
  - intros c e. replace (gotb world_init c e) with false by reflexivity. rewrite andb_false_r. reflexivity.
  - intros c e a _ _ _ _ H. discriminate H.
  - split; [|split].
    + intros c e. replace (holdsb world_init c e) with false by reflexivity. rewrite andb_false_r. reflexivity.
    + intros c e. replace (gotb world_init c e) with false by reflexivity. rewrite andb_false_r. reflexivity.
    + intros c e a d [].
Qed.

Section FrameS.
Variables (sc : scenario) (w : world) (f : frame_in) (fo : frame_out).
Hypotheses (HF : facts sc) (Hinv : reg_inv sc w) (HK : KInv sc w) (Hops : f_ops f = []) (Hf : frame sc w f = Some fo).
Let tm := frame_time f.
Let r := f_raw f.

Lemma unit_spec_ids u id : In u (reg_units (w_reg w)) -> In id (concat (map idsb (in_binds (uinst u)))) ->
  exists e0 s, In (uctx u, e0, s) (s_cfg sc) /\ In id (spec_ids s) /\ (ctx_shared (uctx u) = false -> uents u = [e0]).
Proof.
  intros Hu Hid. destruct (unit_K sc w u Hinv HK Hu) as (_ & e0 & _ & Hsk & Hx).
  unfold iskel in Hsk. injection Hsk as _ Hsk.
  assert (E : concat (map idsb (in_binds (uinst u))) = spec_ids (cfg_lookup sc (uctx u) e0)).
  { unfold spec_ids, merged_actions. fold (mk_inst sc (uctx u) e0). f_equal. apply (JudgeC03P.map_via abskel idsb idsb_skel). exact Hsk. }
  rewrite E in Hid. destruct (cfg_lookup_entry sc (uctx u) e0) as [Hn|Hin].
  - rewrite Hn in Hid. destruct Hid.
  - exists e0, (cfg_lookup sc (uctx u) e0). repeat split; assumption.
Qed.
Lemma unit_spec_aids u a : In u (reg_units (w_reg w)) -> In a (map ab_id (in_binds (uinst u))) ->
  exists e0 s, In (uctx u, e0, s) (s_cfg sc) /\ In a (map ab_id (merged_actions s)).
Proof.
  intros Hu Ha. destruct (unit_K sc w u Hinv HK Hu) as (_ & e0 & _ & Hsk & Hx).
  unfold iskel in Hsk. injection Hsk as _ Hsk.
  assert (E : map ab_id (in_binds (uinst u)) = map ab_id (merged_actions (cfg_lookup sc (uctx u) e0))).
  { unfold merged_actions. fold (mk_inst sc (uctx u) e0). apply (JudgeC03P.map_via abskel ab_id); [|exact Hsk].
    intros x y H. apply skel_inv in H. tauto. }
  rewrite E in Ha. destruct (cfg_lookup_entry sc (uctx u) e0) as [Hn|Hin].
  - rewrite Hn in Ha. destruct Ha.
  - exists e0, (cfg_lookup sc (uctx u) e0). split; assumption.
Qed.

Lemma other_ids c e spec ents i u' cu' x : In (c, e, spec) (s_cfg sc) -> In (c, ents, i) (reg_units (w_reg w)) -> In e ents ->
  In u' (reg_units (w_reg w)) -> ~ (uctx u' = c /\ In e (uents u')) ->
  In x (io_log (inst_update tm r cu' (uents u') (uinst u'))) -> ~ In (log_id x) (spec_ids spec).
Proof.
  intros Hcfg Hu He Hu' Hother Hx Hid. rewrite inst_update_view in Hx. cbn [io_log] in Hx. apply in_flat_map in Hx. destruct Hx as (er & Her & Hx).
  pose proof (ievals_ok tm r cu' (uents u') (uinst u')) as Hok. rewrite Forall_forall in Hok.
  pose proof (item_ok_id _ _ _ _ _ (rec_item_ok tm r er x (Hok er Her) Hx)) as Hidb.
  destruct (ievals_where _ _ _ _ _ _ Her) as (_ & _ & Hb).
  destruct (unit_spec_ids u' (log_id x) Hu') as (e0 & s' & Hin' & Hid' & Hx').
  { apply (JudgeC03P.in_concat_map idsb _ (er_bind er)); assumption. }
  destruct (F_disj sc HF c e spec (uctx u') e0 s' (log_id x) Hcfg Hin' Hid Hid') as (Ec & Hor).
  destruct Hinv as (_ & Hnd & Hgok & _).
  destruct (ctx_shared c) eqn:Hs.
  - assert (u' = (c, ents, i)) by (apply (shared_unit_unique (w_reg w) c); try assumption; reflexivity). subst u'.
    apply Hother. split; [reflexivity | exact He].
  - destruct Hor as [Hor|Hor]; [discriminate|]. apply Hother. split; [exact Ec|]. rewrite Ec in Hx'. rewrite (Hx' Hs), Hor. left. reflexivity.
Qed.
Lemma other_events c e spec u' cu' x : In (c, e, spec) (s_cfg sc) ->
  In u' (reg_units (w_reg w)) -> ~ (uctx u' = c /\ In e (uents u')) ->
  In x (io_evs (inst_update tm r cu' (uents u') (uinst u'))) -> ~ (e_target x = e /\ In (e_action x) (map ab_id (merged_actions spec))).
Proof.
  intros Hcfg Hu' Hother Hx [Ht Ha]. unfold io_evs in Hx. rewrite inst_update_view in Hx. cbn [io_events] in Hx.
  apply in_flat_map in Hx. destruct Hx as (er & Her & Hx).
  pose proof (ievals_ok tm r cu' (uents u') (uinst u')) as Hok. rewrite Forall_forall in Hok.
  destruct (rec_events_shape tm r er x (Hok er Her) Hx) as (Hact & Htgt).
  destruct (ievals_where _ _ _ _ _ _ Her) as (Hrec & _ & Hb). rewrite Hrec, Ht in Htgt.
  destruct (unit_spec_aids u' (e_action x) Hu') as (e0 & s' & Hin' & Ha').
  { rewrite Hact. apply in_map. exact Hb. }
  destruct (Z.eq_dec (uctx u') c) as [Ec|Ec]; [apply Hother; split; assumption|].
  exact (F_aids sc HF c e spec (uctx u') e0 s' (e_action x) Hcfg Hin' Ec Ha Ha').
Qed.

Lemma focus c e spec i : In (c, e, spec) (s_cfg sc) -> reg_get c e (w_reg w) = Some i ->
  exists ents cu P Q EP EQ,
    In e ents /\ NoDup ents /\ inst_ok i /\ map abskel (in_binds i) = map abskel (merged_actions spec) /\ in_pad i = i_pad spec /\
    fo_log fo = P ++ flat_map rec_log (ievals tm r cu ents i) ++ Q /\
    fo_main fo = EP ++ flat_map rec_events (ievals tm r cu ents i) ++ EQ /\
    (forall x, In x (P ++ Q) -> ~ In (log_id x) (spec_ids spec)) /\
    (forall x, In x (EP ++ EQ) -> ~ (e_target x = e /\ In (e_action x) (map ab_id (merged_actions spec)))) /\
    reg_get c e (w_reg (fo_world fo)) = Some (io_inst (inst_update tm r cu ents i)).
Proof.
  intros Hcfg Hg. destruct (HK c e i Hg) as (Hiok & e0 & H0 & Hsk & Hx).
  assert (Hsk' : iskel i = iskel (instantiate spec)).
  { rewrite Hsk. destruct (ctx_shared c) eqn:Hs; [exact (F_shared sc HF c e spec e0 Hcfg Hs H0)|].
    rewrite (Hx eq_refl). unfold mk_inst. rewrite (F_lookup sc HF c e spec Hcfg). reflexivity. }
  destruct (reg_get_unit c e _ i Hg) as (ents & Hu & He).
  destruct (in_split _ _ Hu) as (U1 & U2 & Hus).
  pose proof Hinv as (_ & Hnd & Hgok & _).
  pose proof (ukeys_nodup _ Hnd Hgok) as Hkeys. rewrite Hus, ukeys_app in Hkeys. change ((c, ents, i) :: U2) with ([(c, ents, i)] ++ U2) in Hkeys.
  rewrite ukeys_app in Hkeys. apply JudgeC03P.nodup_app in Hkeys. destruct Hkeys as (_ & Hk2 & Hk1). apply JudgeC03P.nodup_app in Hk2. destruct Hk2 as (_ & _ & Hk2).
  assert (Hme : In (c, e) (ukeys [(c, ents, i)])).
  { unfold ukeys. cbn [flat_map uctx uents fst snd]. rewrite app_nil_r. apply in_map. exact He. }
  assert (Hoth : forall u', In u' (U1 ++ U2) -> In u' (reg_units (w_reg w)) /\ ~ (uctx u' = c /\ In e (uents u'))).
  { intros u' Hu'. split; [rewrite Hus; apply in_app_or in Hu'; apply in_or_app; destruct Hu'; [left | right; right]; assumption|].
    intros [Ec Hin]. assert (Hkin : forall U, In u' U -> In (c, e) (ukeys U)).
    { intros U HU. unfold ukeys. apply in_flat_map. exists u'. split; [exact HU|]. rewrite Ec. apply in_map. exact Hin. }
    apply in_app_or in Hu'. destruct Hu' as [Hu'|Hu'].
    - apply (Hk1 (c, e) (Hkin U1 Hu')). apply in_or_app. left. exact Hme.
    - exact (Hk2 (c, e) Hme (Hkin U2 Hu')). }
  destruct (frame_noops sc w f fo Hops Hf) as (Hw & Hev & _ & Hlog & _). unfold frame_reg in Hw, Hev, Hlog. fold tm r in Hw, Hev, Hlog.
  destruct (reg_update_units tm r (w_reg w) (update_state r)) as (Hun & _ & Hevs & Hlg). cbv zeta in Hun, Hevs, Hlg.
  rewrite Hevs in Hev. injection Hev as Hev. rewrite Hlg in Hlog.
  rewrite Hus in Hun, Hev, Hlog. rewrite uruns_app in Hun, Hev, Hlog. cbn [uruns uents uinst fst snd] in Hun, Hev, Hlog. cbv zeta in Hun, Hev, Hlog.
  set (cu := ufinal tm r (update_state r) U1) in *. set (io := inst_update tm r cu ents i) in *.
  rewrite flat_map_app in Hev, Hlog. cbn [flat_map] in Hev, Hlog.
  exists ents, cu, (flat_map io_log (uruns tm r (update_state r) U1)), (flat_map io_log (uruns tm r (io_consumed io) U2)),
         (flat_map io_evs (uruns tm r (update_state r) U1)), (flat_map io_evs (uruns tm r (io_consumed io) U2)).
  split; [exact He|]. split; [exact (unit_ents_nodup _ c ents i Hgok Hu)|]. split; [exact Hiok|].
  unfold iskel in Hsk'. injection Hsk' as Hpad Hbinds.
  split; [exact Hbinds|]. split; [apply enc_dev_inj in Hpad; rewrite Hpad; apply in_pad_instantiate|].
  split; [rewrite Hlog; unfold io; rewrite inst_update_view; reflexivity|].
  split; [rewrite <- Hev; unfold io, io_evs at 2; rewrite inst_update_view; reflexivity|].
  split; [|split].
  - intros x Hx'. assert (Hsrc : exists u' cu', In u' (U1 ++ U2) /\ In x (io_log (inst_update tm r cu' (uents u') (uinst u')))).
    { apply in_app_or in Hx'. destruct Hx' as [Hx'|Hx']; apply in_flat_map in Hx'; destruct Hx' as (io' & Hio & Hx');
        destruct (uruns_in _ _ _ _ _ Hio) as (u' & cu' & Hu' & ->); exists u', cu'; (split; [apply in_or_app; tauto | exact Hx']). }
    destruct Hsrc as (u' & cu' & Hu' & Hx''). destruct (Hoth u' Hu') as (Hin' & Hot).
    exact (other_ids c e spec ents i u' cu' x Hcfg Hu He Hin' Hot Hx'').
  - intros x Hx'. assert (Hsrc : exists u' cu', In u' (U1 ++ U2) /\ In x (io_evs (inst_update tm r cu' (uents u') (uinst u')))).
    { apply in_app_or in Hx'. destruct Hx' as [Hx'|Hx']; apply in_flat_map in Hx'; destruct Hx' as (io' & Hio & Hx');
        destruct (uruns_in _ _ _ _ _ Hio) as (u' & cu' & Hu' & ->); exists u', cu'; (split; [apply in_or_app; tauto | exact Hx']). }
    destruct Hsrc as (u' & cu' & Hu' & Hx''). destruct (Hoth u' Hu') as (Hin' & Hot).
    exact (other_events c e spec u' cu' x Hcfg Hin' Hot Hx'').
  - rewrite Hw. cbn [w_reg].
    pose proof (reg_update_inv sc w tm r (update_state r) Hinv) as (_ & Hnd' & Hgok' & _). cbn [w_reg] in Hnd', Hgok'.
    apply (unit_reg_get c e _ ents _ Hnd' Hgok'); [|exact He]. rewrite Hun.
    rewrite combine_app_eq by (rewrite uruns_length; reflexivity). cbn [combine]. rewrite map_app. apply in_or_app. right. left. reflexivity.
Qed.
End FrameS.

(* ================================================================================================ *)
(* 8. the clauses of one evaluated instance                                                         *)
(* ================================================================================================ *)
Lemma map_nth_eq {A B C} (f : A -> C) (g : B -> C) l l0 k a : map f l = map g l0 -> nth_error l k = Some a ->
  exists b, nth_error l0 k = Some b /\ f a = g b.
Proof.
  intros Hm Hk. apply (map_nth_error f) in Hk. rewrite Hm in Hk. rewrite nth_error_map in Hk.
  destruct (nth_error l0 k) as [b|]; [|discriminate]. exists b. split; [reflexivity|]. cbn in Hk. congruence.
Qed.
Lemma in_combine_seq {A} (l : list A) : forall s z x, In (z, x) (combine (map Z.of_nat (seq s (length l))) l) ->
  exists k, z = Z.of_nat (s + k) /\ nth_error l k = Some x.
Proof.
  induction l as [|y l IH]; intros s z x Hin; cbn [length seq map combine] in Hin; [destruct Hin|].
  destruct Hin as [[= <- <-]|Hin]; [exists O; split; [f_equal; lia | reflexivity]|].
  destruct (IH (S s) z x Hin) as (k & -> & Hk). exists (S k). split; [f_equal; lia | exact Hk].
Qed.
Lemma firstn_in_nodup {A} (g : A -> Z) (l : list A) : NoDup (map g l) -> forall k j x, nth_error l k = Some x ->
  (In (g x) (map g (firstn j l)) <-> (k < j)%nat).
Proof.
  induction l as [|y l IH]; intros Hd k j x Hk; [destruct k; discriminate|]. cbn [map] in Hd. inversion Hd as [|? ? Hn Hd']; subst.
  destruct j as [|j]; cbn [firstn map In]; [split; [intros [] | lia]|].
  destruct k as [|k]; cbn [nth_error] in Hk.
  - injection Hk as <-. split; [lia | intros _; left; reflexivity].
  - rewrite (IH Hd' k j x Hk). split; [|intros H; right; lia].
    intros [E|H]; [|lia]. exfalso. apply Hn. rewrite E. apply in_map. eapply nth_error_In. exact Hk.
Qed.
Lemma find_cond_some_in id l v res sx : find_cond id l = Some (v, res, sx) -> In (LCond id v res sx) l.
Proof.
  induction l as [|x l IH]; cbn [find_cond]; [discriminate|]. destruct x as [j v0 s0 s1|j v0 v2 s1].
  - destruct (Z.eqb j id) eqn:E.
    + apply Z.eqb_eq in E. subst j. intros [= <- <- <-]. left. reflexivity.
    + intros H. right. exact (IH H).
  - intros H. right. exact (IH H).
Qed.
Lemma find_cond_in_some id l v res sx : In (LCond id v res sx) l -> find_cond id l <> None.
Proof.
  induction l as [|x l IH]; cbn [find_cond]; [intros []|]. intros [->|Hin].
  - rewrite Z.eqb_refl. discriminate.
  - destruct x as [j v0 s0 s1|j v0 v2 s1]; [destruct (Z.eqb j id); [discriminate|]|]; apply IH; exact Hin.
Qed.
Lemma all_ids_fst b : map fst (C13c.all_ids b) = idsb b.
Proof.
  unfold C13c.all_ids, idsb, JudgeC03P.ab_ids. rewrite !map_app, !map_map. cbn [fst]. f_equal.
  rewrite flat_map_concat_map, concat_map, map_map. f_equal. apply map_ext. intros ib. unfold JudgeC03P.ib_ids. rewrite map_app, !map_map. reflexivity.
Qed.
Lemma all_ids_cond b id c0 : In (id, Some c0) (C13c.all_ids b) -> In (id, c0) (conds_all b).
Proof.
  unfold C13c.all_ids, conds_all. intros H. apply in_app_or in H. destruct H as [H|H].
  - apply in_or_app. left. apply in_flat_map in H. destruct H as (ib & Hib & H). apply in_flat_map. exists ib. split; [exact Hib|].
    apply in_app_or in H. destruct H as [H|H]; apply in_map_iff in H; destruct H as (y & E & Hy); [discriminate|].
    injection E as <- <-. destruct y. exact Hy.
  - apply in_or_app. right. apply in_app_or in H. destruct H as [H|H]; apply in_map_iff in H; destruct H as (y & E & Hy); [discriminate|].
    injection E as <- <-. destruct y. exact Hy.
Qed.
Definition item_seen (x : logitem) : list (Z * state) := match x with LCond _ _ _ s | LMod _ _ _ s => s end.

Section InstS.
Variables (tm : time) (r : raw) (cu : consumed) (ents : list entity) (i : inst) (bs0 : list abind) (LOG P Q : list logitem).
Hypotheses (Hiok : inst_ok i) (Hsk : map abskel (in_binds i) = map abskel bs0) (Hnd0 : NoDup (concat (map idsb bs0)))
           (Hlog : LOG = P ++ flat_map rec_log (ievals tm r cu ents i) ++ Q)
           (HPQ : forall x, In x (P ++ Q) -> ~ In (log_id x) (concat (map idsb bs0))).
Let ev := ievals tm r cu ents i.
Let m0 := in_actions i.
Let mF := end_table m0 ev.

Lemma ev_tables j er : nth_error ev j = Some er ->
  nth_error (in_binds i) j = Some (er_bind er) /\ rec_ok tm r er /\ er_recipients er = ents /\ er_dev er = in_pad i /\
  (forall a, In a (map ab_id (firstn j (in_binds i))) -> lookup a (er_table er) = lookup a mF) /\
  (forall a, ~ In a (map ab_id (firstn j (in_binds i))) -> lookup a (er_table er) = lookup a m0) /\
  map fst (er_table er) = map ab_id (in_binds i).
Proof.
  intros Hj. destruct Hiok as [Hk Hd].
  destruct (bind_evals_tables 0 ents (in_pad i) tm r (in_binds i) Hd m0 cu j er Hj) as (H1 & H2 & H3 & H4 & H5 & H6).
  repeat split; try assumption.
  destruct (bind_evals_keys 0 ents (in_pad i) tm r (in_binds i) m0 cu) as [K _]; [intros b Hb; unfold m0; rewrite Hk; apply in_map; exact Hb|].
  rewrite (K er (nth_error_In _ _ Hj)). exact Hk.
Qed.
Lemma mF_keys : map fst mF = map ab_id (in_binds i).
Proof.
  destruct Hiok as [Hk Hd].
  destruct (bind_evals_keys 0 ents (in_pad i) tm r (in_binds i) m0 cu) as [_ K]; [intros b Hb; unfold m0; rewrite Hk; apply in_map; exact Hb|].
  unfold mF, ev, ievals, inst_evals. fold m0. rewrite K. exact Hk.
Qed.

(* a logged item with an id of the j-th configured action was written by the j-th evaluation of this instance *)
Lemma log_item x j b0 : In x LOG -> nth_error bs0 j = Some b0 -> In (log_id x) (idsb b0) ->
  exists er, nth_error ev j = Some er /\ In x (rec_log er) /\ abskel (er_bind er) = abskel b0.
Proof.
  intros Hx Hj Hid. rewrite Hlog in Hx.
  assert (Hspec : In (log_id x) (concat (map idsb bs0))) by (apply (JudgeC03P.in_concat_map idsb bs0 b0); [eapply nth_error_In; exact Hj | exact Hid]).
  apply in_app_or in Hx. destruct Hx as [Hx|Hx]; [exfalso; apply (HPQ x); [apply in_or_app; left; exact Hx | exact Hspec]|].
  apply in_app_or in Hx. destruct Hx as [Hx|Hx]; [|exfalso; apply (HPQ x); [apply in_or_app; right; exact Hx | exact Hspec]].
  apply in_flat_map in Hx. destruct Hx as (er & Her & Hx). destruct (In_nth_error _ _ Her) as (k & Hk).
  destruct (ev_tables k er Hk) as (Hb & Hok & _).
  destruct (map_nth_eq abskel abskel _ _ k _ Hsk Hb) as (b0' & Hk0 & Esk).
  pose proof (item_ok_id _ _ _ _ _ (rec_item_ok tm r er x Hok Hx)) as Hidk. rewrite (idsb_skel _ _ Esk) in Hidk.
  assert (j = k) by (eapply (concat_pos idsb bs0 Hnd0); eassumption). subst k.
  exists er. rewrite Hj in Hk0. injection Hk0 as <-. repeat split; assumption.
Qed.

Variables (c e : Z) (before o : out).
Hypotheses (Hxlog : x_log o = LOG)
  (Hnow : forall a, In a (map ab_id bs0) -> snap_of_entry c e a (x_snaps o) = option_map snap_of (lookup a mF))
  (Hprev : forall a, In a (map ab_id bs0) -> snap_of_entry c e a (x_snaps before) = option_map snap_of (lookup a m0)).

Lemma ab_ids_eq : map ab_id (in_binds i) = map ab_id bs0.
Proof. apply (JudgeC03P.map_via abskel ab_id); [|exact Hsk]. intros x y H. apply skel_inv in H. tauto. Qed.

Lemma clause12 x jn b0 : In x LOG -> nth_error bs0 jn = Some b0 -> In (log_id x) (idsb b0) ->
  forallb (fun ib' : Z * abind => let '(i0, b') := ib' in
     match seen_state (ab_id b') (item_seen x) with
     | Some s => match (if Z.ltb i0 (Z.of_nat jn) then option_map sn_state (snap_of_entry c e (ab_id b') (x_snaps o))
                        else match snap_of_entry c e (ab_id b') (x_snaps before) with Some s0 => Some (sn_state s0) | None => Some SNone end) with
                 | Some s' => state_eqb s s' | None => false end
     | None => false
     end) (combine (map Z.of_nat (seq 0 (length bs0))) bs0) = true /\
  Nat.eqb (length (item_seen x)) (length bs0) = true.
Proof.
  intros Hx Hj Hid. destruct (log_item x jn b0 Hx Hj Hid) as (er & Hjr & Hxr & Esk).
  destruct (ev_tables jn er Hjr) as (Hb & Hok & _ & _ & Hbefore & Hafter & Hkeys).
  pose proof (rec_item_ok tm r er x Hok Hxr) as Hit.
  assert (Hseen : item_seen x = seen_of (er_table er)) by (destruct x; cbn [item_ok item_seen] in *; tauto).
  destruct Hiok as [Hk Hd]. assert (HdT : NoDup (map fst (er_table er))) by (rewrite Hkeys; exact Hd).
  split.
  - apply forallb_forall. intros [z b'] Hin. destruct (in_combine_seq bs0 0 z b' Hin) as (k & -> & Hk'). cbn [plus].
    rewrite Hseen, (seen_state_of _ _ HdT). unfold look_of.
    assert (Ha0 : In (ab_id b') (map ab_id bs0)) by (apply in_map; eapply nth_error_In; exact Hk').
    rewrite (Hnow _ Ha0), (Hprev _ Ha0).
    assert (Hk'' : exists bk, nth_error (in_binds i) k = Some bk /\ ab_id bk = ab_id b').
    { pose proof ab_ids_eq as E. assert (H : nth_error (map ab_id bs0) k = Some (ab_id b')) by (apply map_nth_error; exact Hk').
      rewrite <- E, nth_error_map in H. destruct (nth_error (in_binds i) k) as [bk|]; [|discriminate]. exists bk. split; [reflexivity|]. cbn in H. congruence. }
    destruct Hk'' as (bk & Hbk & Eid).
    pose proof (firstn_in_nodup ab_id (in_binds i) Hd k jn bk Hbk) as Hfn. rewrite Eid in Hfn.
    assert (HinF : In (ab_id b') (map fst mF)) by (rewrite mF_keys, ab_ids_eq; exact Ha0).
    assert (Hin0 : In (ab_id b') (map fst m0)) by (unfold m0; rewrite Hk, ab_ids_eq; exact Ha0).
    apply lookup_in in HinF. apply lookup_in in Hin0.
    destruct (Z.ltb (Z.of_nat k) (Z.of_nat jn)) eqn:El.
    + apply Z.ltb_lt in El. rewrite (Hbefore _ (proj2 Hfn ltac:(lia))).
      destruct (lookup (ab_id b') mF) as [d|]; [|congruence]. cbn [option_map snap_of sn_state]. apply state_eqb_eq. reflexivity.
    + apply Z.ltb_ge in El. rewrite (Hafter (ab_id b')) by (intros H; apply Hfn in H; lia).
      destruct (lookup (ab_id b') m0) as [d|]; [|congruence]. cbn [option_map snap_of sn_state]. apply state_eqb_eq. reflexivity.
  - rewrite Hseen, seen_of_length. apply Nat.eqb_eq. rewrite <- (map_length fst), Hkeys, ab_ids_eq, map_length. reflexivity.
Qed.

Lemma clause34 id v res sx jn b0 c1 : In (LCond id v res sx) LOG -> nth_error bs0 jn = Some b0 -> In (id, c1) (conds_all b0) ->
  (forall a, c1 = CChord a -> res = match seen_state a sx with Some s => s | None => SNone end) /\
  (forall a eo, c1 = CBlockBy a eo -> res = match seen_state a sx with Some SFired => SNone | _ => SFired end).
Proof.
  intros Hx Hj Hc1.
  assert (Hid : In (log_id (LCond id v res sx)) (idsb b0)).
  { cbn [log_id]. destruct (conds_all_thin b0) as [Hi _]. apply Hi. apply in_map_iff. exists (id, c1). split; [reflexivity | exact Hc1]. }
  destruct (log_item _ jn b0 Hx Hj Hid) as (er & Hjr & Hxr & Esk).
  destruct (ev_tables jn er Hjr) as (Hb & Hok & _ & _ & _ & _ & Hkeys).
  pose proof (rec_item_ok tm r er _ Hok Hxr) as Hit. cbn [item_ok] in Hit. destruct Hit as (-> & c0 & Hc0 & ->).
  destruct Hiok as [Hk Hd]. assert (HdT : NoDup (map fst (er_table er))) by (rewrite Hkeys; exact Hd).
  assert (Hnb : NoDup (idsb b0)) by (apply (JudgeC03P.nodup_concat_in idsb bs0 b0 Hnd0); eapply nth_error_In; exact Hj).
  destruct (cond_same_skel _ _ id c0 c1 Esk Hnb Hc0 Hc1) as (_ & Href).
  split.
  - intros a ->. destruct c0; cbn [cond_ref] in Href; try discriminate. injection Href as ->. cbn [cond_eval snd]. rewrite (seen_state_of _ _ HdT). reflexivity.
  - intros a eo ->. destruct c0; cbn [cond_ref] in Href; try discriminate. injection Href as -> _. cbn [cond_eval snd]. rewrite (seen_state_of _ _ HdT). reflexivity.
Qed.
Lemma judge_instance_ok : all_true (judge_instance c e bs0 before o).
Proof.
  unfold judge_instance. apply all_true_concat_map. intros [z b0] Hin. destruct (in_combine_seq bs0 0 z b0 Hin) as (jn & -> & Hj). cbn [plus].
  apply all_true_concat_map. intros [id oc] Hic.
  assert (Hid : In id (idsb b0)) by (rewrite <- all_ids_fst; apply in_map_iff; exists (id, oc); split; [reflexivity | exact Hic]).
  rewrite Hxlog. destruct (find_cond id LOG) as [[[v res] sx]|] eqn:Ec.
  - apply find_cond_some_in in Ec. destruct (clause12 (LCond id v res sx) jn b0 Ec Hj Hid) as [C1 C2]. cbn [item_seen] in C1, C2.
    apply all_true_cons; [exact C1|]. apply all_true_cons; [exact C2|].
    destruct oc as [[]|]; try apply all_true_nil.
    + destruct (clause34 id v res sx jn b0 _ Ec Hj (all_ids_cond _ _ _ Hic)) as [H3 _]. apply all_true_cons; [|apply all_true_nil].
      apply state_eqb_eq. apply H3. reflexivity.
    + destruct (clause34 id v res sx jn b0 _ Ec Hj (all_ids_cond _ _ _ Hic)) as [_ H4]. apply all_true_cons; [|apply all_true_nil].
      apply state_eqb_eq. eapply H4. reflexivity.
  - destruct (find_mod id LOG) as [[[vin vout] sx]|] eqn:Em; [|apply all_true_nil].
    apply find_mod_in in Em. destruct (clause12 (LMod id vin vout sx) jn b0 Em Hj Hid) as [C1 C2]. cbn [item_seen] in C1, C2.
    apply all_true_cons; [exact C1|]. apply all_true_cons; [exact C2|]. destruct oc as [[]|]; apply all_true_nil.
Qed.
End InstS.

(* ================================================================================================ *)
(* 9. the profile (a computable condition on the scenario alone) and what it gives                  *)
(* ================================================================================================ *)
Lemma list_eqb_sound {A} (f : A -> A -> bool) : (forall x y, f x y = true -> x = y) -> forall a b, list_eqb f a b = true -> a = b.
Proof.
  intros Hf. induction a as [|x a IH]; intros [|y b] H; cbn [list_eqb] in H; try discriminate; [reflexivity|].
  apply andb_true_iff in H. destruct H as [H1 H2]. rewrite (Hf x y H1), (IH b H2). reflexivity.
Qed.
Definition lz_eqb : list Z -> list Z -> bool := list_eqb Z.eqb.
Definition llz_eqb : list (list Z) -> list (list Z) -> bool := list_eqb lz_eqb.
Definition ibsk_eqb (a b : list Z * (list (list Z) * list (list Z))) : bool :=
  lz_eqb (fst a) (fst b) && llz_eqb (fst (snd a)) (fst (snd b)) && llz_eqb (snd (snd a)) (snd (snd b)).
Definition absk_eqb (a b : Z * (list (list Z) * (list (list Z) * list (list Z * (list (list Z) * list (list Z)))))) : bool :=
  Z.eqb (fst a) (fst b) && llz_eqb (fst (snd a)) (fst (snd b)) && llz_eqb (fst (snd (snd a))) (fst (snd (snd b))) &&
  list_eqb ibsk_eqb (snd (snd (snd a))) (snd (snd (snd b))).
Definition iskel_eqb (i j : inst) : bool := lz_eqb (fst (iskel i)) (fst (iskel j)) && list_eqb absk_eqb (snd (iskel i)) (snd (iskel j)).
Lemma lz_eqb_sound a b : lz_eqb a b = true -> a = b.
Proof. apply list_eqb_sound. intros x y H. apply Z.eqb_eq. exact H. Qed.
Lemma llz_eqb_sound a b : llz_eqb a b = true -> a = b.
Proof. apply list_eqb_sound. exact lz_eqb_sound. Qed.
Lemma ibsk_eqb_sound a b : ibsk_eqb a b = true -> a = b.
Proof.
  unfold ibsk_eqb. destruct a as [a1 [a2 a3]], b as [b1 [b2 b3]]. cbn [fst snd]. intros H.
  apply andb_true_iff in H. destruct H as [H H3]. apply andb_true_iff in H. destruct H as [H1 H2].
  rewrite (lz_eqb_sound _ _ H1), (llz_eqb_sound _ _ H2), (llz_eqb_sound _ _ H3). reflexivity.
Qed.
Lemma absk_eqb_sound a b : absk_eqb a b = true -> a = b.
Proof.
  unfold absk_eqb. destruct a as [a1 [a2 [a3 a4]]], b as [b1 [b2 [b3 b4]]]. cbn [fst snd]. intros H.
  apply andb_true_iff in H. destruct H as [H H4]. apply andb_true_iff in H. destruct H as [H H3]. apply andb_true_iff in H. destruct H as [H1 H2].
  apply Z.eqb_eq in H1. rewrite H1, (llz_eqb_sound _ _ H2), (llz_eqb_sound _ _ H3), (list_eqb_sound _ ibsk_eqb_sound _ _ H4). reflexivity.
Qed.
Lemma iskel_eqb_sound i j : iskel_eqb i j = true -> iskel i = iskel j.
Proof.
  unfold iskel_eqb. destruct (iskel i) as [a1 a2], (iskel j) as [b1 b2]. cbn [fst snd]. intros H. apply andb_true_iff in H. destruct H as [H1 H2].
  rewrite (lz_eqb_sound _ _ H1), (list_eqb_sound _ absk_eqb_sound _ _ H2). reflexivity.
Qed.

Definition xc (x : Z * Z * inst_spec) : Z := fst (fst x).
Definition xe (x : Z * Z * inst_spec) : Z := snd (fst x).
Fixpoint nodup_keys (l : list (Z * Z * inst_spec)) : bool :=
  match l with [] => true | x :: rest => negb (existsb (fun y => Z.eqb (xc x) (xc y) && Z.eqb (xe x) (xe y)) rest) && nodup_keys rest end.
Lemma nodup_keys_spec l : nodup_keys l = true -> NoDup (map fst l).
Proof.
  induction l as [|x l IH]; cbn [nodup_keys map]; intros H; [constructor|]. apply andb_true_iff in H. destruct H as [H1 H2].
  constructor; [|apply IH; exact H2]. intros Hin. apply in_map_iff in Hin. destruct Hin as (y & E & Hy).
  apply negb_true_iff in H1. assert (X : existsb (fun y => Z.eqb (xc x) (xc y) && Z.eqb (xe x) (xe y)) l = true); [|congruence].
  apply existsb_exists. exists y. split; [exact Hy|]. unfold xc, xe. rewrite E, !Z.eqb_refl. reflexivity.
Qed.

(* one configuration per (context, entity) *)
Definition p_keys (sc : scenario) : bool := nodup_keys (s_cfg sc).
(* the log ids of one configuration are pairwise distinct ... *)
Definition p_ids_nodup (sc : scenario) : bool := forallb (fun x => JudgeC12P.nodupz (spec_ids (snd x))) (s_cfg sc).
(* ... and disjoint from those of every configuration that is instantiated separately *)
Definition p_ids_disj (sc : scenario) : bool :=
  forallb (fun x => forallb (fun y => (Z.eqb (xc y) (xc x) && (ctx_shared (xc x) || Z.eqb (xe y) (xe x))) ||
                                       JudgeC12P.disjz (spec_ids (snd x)) (spec_ids (snd y))) (s_cfg sc)) (s_cfg sc).
(* the holders of a shared context are configured alike (as far as the judgement can see) *)
Definition p_shared (sc : scenario) : bool :=
  forallb (fun x => negb (ctx_shared (xc x)) || forallb (fun e0 => iskel_eqb (mk_inst sc (xc x) e0) (instantiate (snd x))) (s_ents sc)) (s_cfg sc).
(* different context types bind different actions *)
Definition p_aids (sc : scenario) : bool :=
  forallb (fun x => forallb (fun y => Z.eqb (xc y) (xc x) ||
     JudgeC12P.disjz (map ab_id (merged_actions (snd x))) (map ab_id (merged_actions (snd y)))) (s_cfg sc)) (s_cfg sc).
(* spawned entities are declared slots; frames issue no operation of their own *)
Definition step_fine (sc : scenario) (st : step) : bool :=
  step_okb sc st && match st with SFrame f => match f_ops f with [] => true | _ => false end | SOp _ => true end.
Definition p_steps (sc : scenario) : bool := forallb (step_fine sc) (s_steps sc).

Definition profile_main (sc : scenario) : bool := p_keys sc && p_ids_nodup sc && p_ids_disj sc && p_shared sc && p_aids sc && p_steps sc.

Lemma profile_facts sc : profile_main sc = true -> facts sc /\ forallb (step_fine sc) (s_steps sc) = true.
Proof.
  unfold profile_main. intros H. apply andb_true_iff in H. destruct H as [H H6]. apply andb_true_iff in H. destruct H as [H H5].
  apply andb_true_iff in H. destruct H as [H H4]. apply andb_true_iff in H. destruct H as [H H3]. apply andb_true_iff in H. destruct H as [H1 H2].
  split; [|exact H6]. pose proof (nodup_keys_spec _ H1) as Hk. constructor.
  - intros c e s Hin. unfold cfg_lookup.
    rewrite (find_unique (fun x => Z.eqb (fst (fst x)) c && Z.eqb (snd (fst x)) e) (s_cfg sc) (c, e, s) Hin); [reflexivity | cbn; rewrite !Z.eqb_refl; reflexivity|].
    intros [[c1 e1] s1] Hx Hp. cbn [fst snd] in Hp. apply andb_true_iff in Hp. destruct Hp as [P1 P2]. apply Z.eqb_eq in P1. apply Z.eqb_eq in P2. subst.
    apply (JudgeC12P.NoDup_map_inj fst (s_cfg sc) _ _ Hk Hx Hin). reflexivity.
  - intros c e s Hin. unfold p_ids_nodup in H2. rewrite forallb_forall in H2. apply JudgeC12P.nodupz_spec. exact (H2 _ Hin).
  - intros c e s c' e' s' id Hin Hin' Hid Hid'. unfold p_ids_disj in H3. rewrite forallb_forall in H3. specialize (H3 _ Hin).
    rewrite forallb_forall in H3. specialize (H3 _ Hin'). unfold xc, xe in H3. cbn [fst snd] in H3. apply orb_true_iff in H3. destruct H3 as [H3|H3].
    + apply andb_true_iff in H3. destruct H3 as [A B]. apply Z.eqb_eq in A. split; [exact A|]. apply orb_true_iff in B. destruct B as [B|B]; [left; exact B | right; apply Z.eqb_eq; exact B].
    + exfalso. exact (JudgeC12P.disjz_spec _ _ id H3 Hid Hid').
  - intros c e s e0 Hin Hs He0. unfold p_shared in H4. rewrite forallb_forall in H4. specialize (H4 _ Hin). unfold xc in H4. cbn [fst snd] in H4.
    rewrite Hs in H4. cbn [negb orb] in H4. rewrite forallb_forall in H4. apply iskel_eqb_sound. exact (H4 e0 He0).
  - intros c e s c' e' s' a Hin Hin' Hne Ha. unfold p_aids in H5. rewrite forallb_forall in H5. specialize (H5 _ Hin).
    rewrite forallb_forall in H5. specialize (H5 _ Hin'). unfold xc in H5. cbn [fst snd] in H5. apply orb_true_iff in H5. destruct H5 as [H5|H5].
    + apply Z.eqb_eq in H5. contradiction.
    + exact (JudgeC12P.disjz_spec _ _ a H5 Ha).
Qed.

Lemma has_cfg_in sc c e s : In (c, e, s) (s_cfg sc) -> has_cfg sc c e = true.
Proof. intros H. unfold has_cfg. apply existsb_exists. exists (c, e, s). split; [exact H|]. cbn. rewrite !Z.eqb_refl. reflexivity. Qed.

(* ================================================================================================ *)
(* 11. evaluation order (clause 5)                                                                  *)
(* ================================================================================================ *)
Lemma first_index_app id a : forall b i0,
  first_index id (a ++ b) i0 = match first_index id a i0 with Some k => Some k | None => first_index id b (i0 + Z.of_nat (length a)) end.
Proof.
  induction a as [|x a IH]; intros b i0; cbn [app first_index length]; [f_equal; lia|].
  destruct (Z.eqb x id); [reflexivity|]. rewrite IH. destruct (first_index id a (i0 + 1)); [reflexivity|]. f_equal. lia.
Qed.
Lemma first_index_notin id l : forall i0, ~ In id l -> first_index id l i0 = None.
Proof.
  induction l as [|x l IH]; intros i0 Hn; cbn [first_index]; [reflexivity|]. cbn [In] in Hn.
  destruct (Z.eqb x id) eqn:E; [apply Z.eqb_eq in E; tauto|]. apply IH. tauto.
Qed.
Lemma first_index_bound id l : forall i0 k, first_index id l i0 = Some k -> i0 <= k < i0 + Z.of_nat (length l).
Proof.
  induction l as [|x l IH]; intros i0 k H; cbn [first_index length] in *; [discriminate|].
  destruct (Z.eqb x id); [injection H as <-; lia|]. apply IH in H. lia.
Qed.

Definition kk (ids : list Z) (b : abind) : list Z :=
  match C13c.all_ids b with
  | [] => []
  | _ => match flat_map (fun ic : Z * option cond => match first_index (fst ic) ids 0 with Some k => [k] | None => [] end) (C13c.all_ids b) with
         | [] => [] | k :: _ => [k] end
  end.
Lemma order_ok_kk bs o : order_ok bs o = increasing (flat_map (kk (log_ids (x_log o))) bs).
Proof. reflexivity. Qed.
Lemma kk_shape ids b : kk ids b = [] \/ exists k id, kk ids b = [k] /\ In id (idsb b) /\ first_index id ids 0 = Some k.
Proof.
  unfold kk. destruct (C13c.all_ids b) as [|ic0 l0] eqn:Ea; [left; reflexivity|]. rewrite <- Ea.
  destruct (flat_map _ (C13c.all_ids b)) as [|k l] eqn:Ef; [left; reflexivity|]. right.
  assert (Hin : In k (flat_map (fun ic : Z * option cond => match first_index (fst ic) ids 0 with Some k => [k] | None => [] end) (C13c.all_ids b)))
    by (rewrite Ef; left; reflexivity).
  apply in_flat_map in Hin. destruct Hin as (ic & Hic & Hk). destruct (first_index (fst ic) ids 0) as [k'|] eqn:E; [|destruct Hk].
  destruct Hk as [<-|[]]. exists k', (fst ic). repeat split; [|exact E]. rewrite <- all_ids_fst. apply in_map. exact Hic.
Qed.
Lemma increasing_cons k L : increasing L = true -> (forall x, In x L -> k < x) -> increasing (k :: L) = true.
Proof.
  intros HL Hk. destruct L as [|y L]; [reflexivity|]. cbn [increasing]. rewrite andb_true_iff. split; [apply Z.ltb_lt, Hk; left; reflexivity | exact HL].
Qed.
Lemma order_gen : forall bs0 segs, Forall2 (fun b0 S => incl S (idsb b0)) bs0 segs -> forall Pz Qz,
  NoDup (concat (map idsb bs0)) -> (forall x, In x (Pz ++ Qz) -> ~ In x (concat (map idsb bs0))) ->
  increasing (flat_map (kk (Pz ++ concat segs ++ Qz)) bs0) = true /\
  forall k, In k (flat_map (kk (Pz ++ concat segs ++ Qz)) bs0) -> Z.of_nat (length Pz) <= k.
Proof.
  induction 1 as [|b S rest segs' HS HF IH]; intros Pz Qz Hnd Hdis; [split; [reflexivity | intros k []]|].
  cbn [map concat] in Hnd, Hdis. apply JudgeC03P.nodup_app in Hnd. destruct Hnd as (Hnb & Hnr & Hbr).
  cbn [concat flat_map].
  assert (Eids : Pz ++ (S ++ concat segs') ++ Qz = (Pz ++ S) ++ concat segs' ++ Qz) by (rewrite <- !app_assoc; reflexivity). rewrite Eids.
  destruct (IH (Pz ++ S) Qz Hnr) as [I1 I2].
  { intros x Hx Hin. apply in_app_or in Hx. destruct Hx as [Hx|Hx]; [apply in_app_or in Hx; destruct Hx as [Hx|Hx]|].
    - apply (Hdis x); [apply in_or_app; left; exact Hx | apply in_or_app; right; exact Hin].
    - exact (Hbr x (HS x Hx) Hin).
    - apply (Hdis x); [apply in_or_app; right; exact Hx | apply in_or_app; right; exact Hin]. }
  rewrite app_length, Nat2Z.inj_add in I2.
  assert (Hkb : forall k id, In id (idsb b) -> first_index id ((Pz ++ S) ++ concat segs' ++ Qz) 0 = Some k ->
                Z.of_nat (length Pz) <= k < Z.of_nat (length Pz) + Z.of_nat (length S)).
  { intros k id Hid Hfi. rewrite <- app_assoc, first_index_app in Hfi.
    rewrite first_index_notin in Hfi by (intros Hx; apply (Hdis id); [apply in_or_app; left; exact Hx | apply in_or_app; left; exact Hid]).
    rewrite first_index_app in Hfi. destruct (first_index id S (0 + Z.of_nat (length Pz))) as [k'|] eqn:E.
    - injection Hfi as <-. apply first_index_bound in E. lia.
    - rewrite first_index_notin in Hfi; [discriminate|]. intros Hx. apply in_app_or in Hx. destruct Hx as [Hx|Hx].
      + apply (Hbr id Hid). apply in_concat in Hx. destruct Hx as (S' & HS' & Hx).
        destruct (Forall2_in_r _ _ _ S' HF HS') as (b' & Hb' & Hinc). apply (JudgeC03P.in_concat_map idsb rest b' id Hb'). apply Hinc. exact Hx.
      + apply (Hdis id); [apply in_or_app; right; exact Hx | apply in_or_app; left; exact Hid]. }
  destruct (kk_shape ((Pz ++ S) ++ concat segs' ++ Qz) b) as [->|(k & id & -> & Hid & Hfi)]; cbn [app].
  - split; [exact I1|]. intros k Hk. specialize (I2 k Hk). lia.
  - pose proof (Hkb k id Hid Hfi) as Hb. split.
    + apply increasing_cons; [exact I1|]. intros x Hx. specialize (I2 x Hx). lia.
    + intros x [<-|Hx]; [lia|]. specialize (I2 x Hx). lia.
Qed.

Lemma segs_incl tm r : forall ev bs0, Forall (rec_ok tm r) ev -> map (fun er => abskel (er_bind er)) ev = map abskel bs0 ->
  Forall2 (fun b0 S => incl S (idsb b0)) bs0 (map (fun er => map log_id (rec_log er)) ev).
Proof.
  induction ev as [|er ev IH]; intros [|b0 bs0] Hok Hm; cbn [map] in *; try discriminate; [constructor|].
  inversion Hok as [|? ? Hok1 Hok2]; subst.
  assert (E1 : abskel (er_bind er) = abskel b0) by exact (f_equal (hd (abskel b0)) Hm).
  assert (E2 : map (fun er => abskel (er_bind er)) ev = map abskel bs0) by exact (f_equal (@tl _) Hm).
  constructor; [|apply IH; assumption].
  intros x Hx. apply in_map_iff in Hx. destruct Hx as (y & <- & Hy). rewrite <- (idsb_skel _ _ E1).
  eapply item_ok_id. apply (rec_item_ok tm r er y Hok1 Hy).
Qed.

Lemma order_ok_inst tm r cu ents i bs0 P Q o : inst_ok i -> map abskel (in_binds i) = map abskel bs0 -> NoDup (concat (map idsb bs0)) ->
  x_log o = P ++ flat_map rec_log (ievals tm r cu ents i) ++ Q ->
  (forall x, In x (P ++ Q) -> ~ In (log_id x) (concat (map idsb bs0))) -> order_ok bs0 o = true.
Proof.
  intros Hiok Hsk Hnd Hlog HPQ. rewrite order_ok_kk, Hlog, JudgeC12P.log_ids_map, !map_app.
  replace (map log_id (flat_map rec_log (ievals tm r cu ents i))) with (concat (map (fun er => map log_id (rec_log er)) (ievals tm r cu ents i)))
    by (rewrite flat_map_concat_map, concat_map, map_map; reflexivity).
  apply order_gen; [|exact Hnd|].
  - apply (segs_incl tm r); [apply ievals_ok|]. rewrite <- Hsk, <- (ievals_binds tm r cu ents i), map_map. reflexivity.
  - intros x Hx. rewrite <- map_app in Hx. apply in_map_iff in Hx. destruct Hx as (y & <- & Hy). apply HPQ. exact Hy.
Qed.

(* ================================================================================================ *)
(* 11b. the blockers, judged by their effect (clauses 11 and 7)                                     *)
(* ================================================================================================ *)
Lemma existsb_false_in {A} (f : A -> bool) l : existsb f l = false -> forall x, In x l -> f x = false.
Proof. intros H x Hx. apply not_true_is_false. intros Hf. assert (existsb f l = true) by (apply existsb_exists; exists x; split; assumption). congruence. Qed.
Lemma bind_evals_final cx recips dev tm r bs : NoDup (map ab_id bs) -> forall m c j e,
  nth_error (bind_evals cx recips dev tm r m c bs) j = Some e ->
  lookup (ab_id (er_bind e)) (end_table m (bind_evals cx recips dev tm r m c bs)) = lookup (ab_id (er_bind e)) (o_actions (er_out e)).
Proof.
  induction bs as [|b rest IH]; intros Hd m c j e Hj; cbn [bind_evals] in *; [destruct j; discriminate|].
  cbn [map] in Hd. inversion Hd as [|? ? Hn Hd']; subst. cbv zeta in *. rewrite end_table_cons. cbn [er_out].
  destruct j as [|k]; cbn [nth_error] in Hj.
  - injection Hj as <-. cbn [er_bind er_out].
    destruct (bind_evals_keep cx recips dev tm r (ab_id b) rest (o_actions (action_update m tm r c dev recips b)) (o_consumed (action_update m tm r c dev recips b)) Hn) as [_ K].
    exact K.
  - apply (IH Hd' _ _ k e Hj).
Qed.
Lemma evkinds_eqb_refl l : list_eqb evkind_eqb l l = true.
Proof. induction l as [|k l IH]; [reflexivity|]. cbn [list_eqb]. rewrite IH. destruct k; reflexivity. Qed.
Lemma events_for_app e a l1 l2 : events_for e a (l1 ++ l2) = events_for e a l1 ++ events_for e a l2.
Proof. apply filter_app. Qed.
Lemma events_for_none e a l : (forall x, In x l -> ~ (e_target x = e /\ e_action x = a)) -> events_for e a l = [].
Proof.
  intros H. apply JudgeC12P.filter_none. intros x Hx. apply not_true_is_false. intros Hb. apply andb_true_iff in Hb. destruct Hb as [H1 H2].
  apply Z.eqb_eq in H1. apply Z.eqb_eq in H2. exact (H x Hx (conj H1 H2)).
Qed.

Section BlockS.
Variables (tm : time) (r : raw) (cu : consumed) (ents : list entity) (i : inst) (bs0 : list abind) (LOG P Q : list logitem) (EP EQ : list event).
Hypotheses (Hiok : inst_ok i) (Hsk : map abskel (in_binds i) = map abskel bs0) (Hnd0 : NoDup (concat (map idsb bs0)))
           (Hlog : LOG = P ++ flat_map rec_log (ievals tm r cu ents i) ++ Q)
           (HPQ : forall x, In x (P ++ Q) -> ~ In (log_id x) (concat (map idsb bs0))).
Variables (c e : Z) (before o : out).
Hypotheses (Hxlog : x_log o = LOG)
  (Hnow : forall a, In a (map ab_id bs0) -> snap_of_entry c e a (x_snaps o) = option_map snap_of (lookup a (end_table (in_actions i) (ievals tm r cu ents i))))
  (Hprev : forall a, In a (map ab_id bs0) -> snap_of_entry c e a (x_snaps before) = option_map snap_of (lookup a (in_actions i)))
  (Hmain : x_main o = EP ++ flat_map rec_events (ievals tm r cu ents i) ++ EQ)
  (HEPQ : forall x, In x (EP ++ EQ) -> ~ (e_target x = e /\ In (e_action x) (map ab_id bs0)))
  (He : In e ents) (Hents : NoDup ents).
Let ev := ievals tm r cu ents i.

Lemma rec_at jn b0 : nth_error bs0 jn = Some b0 -> exists er, nth_error ev jn = Some er /\ abskel (er_bind er) = abskel b0.
Proof.
  intros Hj. destruct (map_nth_eq abskel abskel bs0 (in_binds i) jn b0 (eq_sym Hsk) Hj) as (bj & Hbj & E).
  assert (Hm : map (fun b : abind => b) (in_binds i) = map er_bind ev) by (rewrite map_id; symmetry; apply ievals_binds).
  destruct (map_nth_eq (fun b : abind => b) er_bind (in_binds i) ev jn bj Hm Hbj) as (er & Her & E2). exists er. split; [exact Her | congruence].
Qed.

Lemma rec_log_nodup jn b0 er : nth_error bs0 jn = Some b0 -> nth_error ev jn = Some er -> abskel (er_bind er) = abskel b0 -> NoDup (map log_id (rec_log er)).
Proof.
  intros Hj Her E. destruct (ev_tables tm r cu ents i Hiok jn er Her) as (_ & Hok & _). unfold rec_log. rewrite Hok, action_update_ids.
  destruct (JudgeC03P.action_ids_thin r (er_consumed er) (er_dev er) (er_bind er)) as [_ Hn]. apply Hn. fold (idsb (er_bind er)). rewrite (idsb_skel _ _ E).
  apply (JudgeC03P.nodup_concat_in idsb bs0 b0 Hnd0). eapply nth_error_In. exact Hj.
Qed.

Lemma events_focus jn b0 er : nth_error bs0 jn = Some b0 -> nth_error ev jn = Some er -> abskel (er_bind er) = abskel b0 ->
  events_for e (ab_id b0) (x_main o) = events_for e (ab_id b0) (rec_events er).
Proof.
  intros Hj Her E. rewrite Hmain, !events_for_app.
  assert (Ha0 : In (ab_id b0) (map ab_id bs0)) by (apply in_map; eapply nth_error_In; exact Hj).
  rewrite (events_for_none e (ab_id b0) EP), (events_for_none e (ab_id b0) EQ).
  2:{ intros x Hx [H1 H2]. apply (HEPQ x); [apply in_or_app; right; exact Hx | split; [exact H1 | rewrite H2; exact Ha0]]. }
  2:{ intros x Hx [H1 H2]. apply (HEPQ x); [apply in_or_app; left; exact Hx | split; [exact H1 | rewrite H2; exact Ha0]]. }
  rewrite app_nil_r. cbn [app]. destruct (nth_error_split _ _ Her) as (ev1 & ev2 & Hev & Hlen). fold ev. rewrite Hev.
  rewrite flat_map_app. cbn [flat_map]. rewrite !events_for_app.
  destruct Hiok as [_ Hd]. rewrite <- (ievals_binds tm r cu ents i) in Hd. fold ev in Hd. rewrite Hev, map_map, map_app in Hd. cbn [map] in Hd.
  apply JudgeC03P.nodup_app in Hd. destruct Hd as (_ & Hd2 & Hd12). inversion Hd2 as [|? ? Hn2 _]; subst.
  assert (Eid : ab_id (er_bind er) = ab_id b0) by (apply skel_inv in E; tauto).
  pose proof (ievals_ok tm r cu ents i) as Hok. fold ev in Hok. rewrite Hev, Forall_forall in Hok.
  rewrite (events_for_none e (ab_id b0) (flat_map rec_events ev1)), (events_for_none e (ab_id b0) (flat_map rec_events ev2)); [rewrite app_nil_r; reflexivity| |].
  - intros x Hx [_ H2]. apply in_flat_map in Hx. destruct Hx as (er' & Her' & Hx).
    destruct (rec_events_shape tm r er' x (Hok er' ltac:(apply in_or_app; right; right; exact Her')) Hx) as (Hact & _).
    apply Hn2. rewrite Eid, <- H2, Hact. apply (in_map (fun x0 => ab_id (er_bind x0))). exact Her'.
  - intros x Hx [_ H2]. apply in_flat_map in Hx. destruct Hx as (er' & Her' & Hx).
    destruct (rec_events_shape tm r er' x (Hok er' ltac:(apply in_or_app; left; exact Her')) Hx) as (Hact & _).
    apply (Hd12 (ab_id (er_bind er'))); [apply (in_map (fun x0 => ab_id (er_bind x0))); exact Her' | left; congruence].
Qed.

Lemma judge_blockers_ok : all_true (judge_blockers c e bs0 before o).
Proof.
  unfold judge_blockers. apply all_true_flat_map. intros b0 Hb0. destruct (In_nth_error _ _ Hb0) as (jn & Hj).
  assert (Ha0 : In (ab_id b0) (map ab_id bs0)) by (apply in_map; exact Hb0).
  rewrite (Hnow _ Ha0), (Hprev _ Ha0), Hxlog.
  destruct (rec_at jn b0 Hj) as (er & Her & E).
  destruct (ev_tables tm r cu ents i Hiok jn er Her) as (Hbj & Hok & Hrec & Hdev & _ & Hafter & Hkeys).
  pose proof (skel_inv _ _ E) as (Eid & _ & Econds & Einputs).
  pose proof Hiok as [Hk Hd].
  pose proof (bind_evals_final 0 ents (in_pad i) tm r (in_binds i) Hd (in_actions i) cu jn er Her) as Hfin.
  fold (inst_evals 0 ents tm r cu i) in Hfin. fold (ievals tm r cu ents i) in Hfin.
  destruct (action_update_tail (er_table er) tm r (er_consumed er) (er_dev er) (er_recipients er) (er_bind er)) as (v & LIM & d' & Elog & Eact & Hbl & Hevb & Hevs).
  cbv zeta in Elog, Eact, Hevb, Hevs. rewrite <- Hok in Elog, Eact, Hevb, Hevs.
  rewrite Eid in Hfin. rewrite Eact in Hfin. rewrite <- Eid in Hfin at 2. rewrite lookup_store_same in Hfin. rewrite Hfin. cbn [option_map].
  assert (HT0 : lookup (ab_id b0) (er_table er) = lookup (ab_id b0) (in_actions i)).
  { apply Hafter. rewrite <- Eid. intros H. apply (firstn_in_nodup ab_id (in_binds i) Hd jn jn _ Hbj) in H. lia. }
  assert (Hex0 : lookup (ab_id b0) (in_actions i) <> None) by (apply lookup_in; rewrite Hk, (ab_ids_eq i bs0 Hsk); exact Ha0).
  destruct (lookup (ab_id b0) (in_actions i)) as [d0|] eqn:El0; [|congruence]. cbn [option_map].
  pose proof (rec_log_nodup jn b0 er Hj Her E) as Hnl.
  (* what the log says about an action-level condition of the stored binding *)
  assert (Hfound : forall id c0, In (id, c0) (ab_conds (er_bind er)) ->
            exists v' sx, find_cond id LOG = Some (v', cres (look_of (er_table er)) tm v (id, c0), sx)).
  { intros id c0 Hc0.
    assert (Hy : In (LCond id v (cres (look_of (er_table er)) tm v (id, c0)) (seen_of (er_table er))) (rec_log er)).
    { unfold rec_log. rewrite Elog. apply in_or_app. right. apply in_map_iff. exists (id, c0). split; [reflexivity | exact Hc0]. }
    assert (HyL : In (LCond id v (cres (look_of (er_table er)) tm v (id, c0)) (seen_of (er_table er))) LOG).
    { rewrite Hlog. apply in_or_app. right. apply in_or_app. left. apply in_flat_map. exists er. split; [eapply nth_error_In; exact Her | exact Hy]. }
    destruct (find_cond id LOG) as [[[v' res] sx]|] eqn:Ef; [|exfalso; exact (find_cond_in_some _ _ _ _ _ HyL Ef)].
    pose proof (find_cond_some_in _ _ _ _ _ Ef) as Hx.
    assert (Hidb : In (log_id (LCond id v' res sx)) (idsb b0)).
    { cbn [log_id]. rewrite <- (idsb_skel _ _ E). destruct (conds_all_thin (er_bind er)) as [Hi _]. apply Hi. apply in_map_iff.
      exists (id, c0). split; [reflexivity|]. unfold conds_all. apply in_or_app. right. exact Hc0. }
    destruct (log_item tm r cu ents i bs0 LOG P Q Hiok Hsk Hnd0 Hlog HPQ _ jn b0 Hx Hj Hidb) as (er2 & Her2 & Hx2 & _).
    fold ev in Her2. rewrite Her in Her2. injection Her2 as <-.
    pose proof (JudgeC12P.NoDup_map_inj log_id (rec_log er) _ _ Hnl Hx2 Hy eq_refl) as Exy. injection Exy as -> -> ->. exists v, (seen_of (er_table er)). reflexivity. }
  (* a BlockBy of the configuration whose logged result is None is a hit of the stored binding *)
  assert (Hhit : forall eo, existsb (fun r0 => state_eqb r0 SNone) (blockby_results eo b0 LOG) = true ->
            existsb (hit eo (look_of (er_table er)) tm v) (ab_conds (er_bind er)) = true).
  { intros eo Hx. apply existsb_exists in Hx. destruct Hx as (r0 & Hr0 & Hn). apply state_eqb_eq in Hn. subst r0.
    unfold blockby_results in Hr0. apply in_flat_map in Hr0. destruct Hr0 as ([id c1] & Hc1 & Hr0). cbn [fst snd] in Hr0.
    destruct c1; try (destruct Hr0). destruct (Bool.eqb events_only eo) eqn:Eeo; [|destruct Hr0]. apply eqb_prop in Eeo. subst events_only.
    destruct (skel_find_ex cskel cskel_id _ _ id _ Econds Hc1) as (c0 & Hc0 & Ecs). apply cskel_inv in Ecs. destruct Ecs as (_ & Ekind & _).
    destruct (Hfound id c0 Hc0) as (v' & sx & Ef). rewrite Ef in Hr0. destruct Hr0 as [Hr0|[]].
    apply existsb_exists. exists (id, c0). split; [exact Hc0|]. unfold hit. cbn [snd]. rewrite Ekind. cbn [cond_kind]. rewrite eqb_reflx, Hr0. reflexivity. }
  apply all_true_cons.
  - destruct (existsb (fun r0 => state_eqb r0 SNone) (blockby_results false b0 LOG)) eqn:Hb; [|reflexivity]. cbn [implb sn_state snap_of].
    rewrite (Hbl (Hhit false Hb)). reflexivity.
  - rewrite (events_focus jn b0 er Hj Her E).
    destruct (existsb (fun r0 => state_eqb r0 SNone) (blockby_results true b0 LOG)) eqn:Hb.
    + apply all_true_cons; [|apply all_true_nil]. unfold rec_events. rewrite (Hevb (Hhit true Hb)). reflexivity.
    + destruct (other_ev_blockers b0) eqn:Hob; [apply all_true_nil|]. apply all_true_cons; [|apply all_true_nil].
      unfold other_ev_blockers in Hob. apply orb_false_iff in Hob. destruct Hob as [Hob1 Hob2].
      assert (Hnohit : existsb (hit true (look_of (er_table er)) tm v) (ab_conds (er_bind er)) = false).
      { apply not_true_is_false. intros Hx. apply existsb_exists in Hx. destruct Hx as ([id c0] & Hc0 & Hh). unfold hit in Hh. cbn [snd] in Hh.
        destruct (cond_kind c0) as [| |eo] eqn:Ek; try discriminate. apply andb_true_iff in Hh. destruct Hh as [Heo Hres]. apply eqb_prop in Heo. subst eo.
        destruct (skel_find_ex cskel cskel_id _ _ id _ (eq_sym Econds) Hc0) as (c1 & Hc1 & Ecs). apply cskel_inv in Ecs. destruct Ecs as (_ & Ekind & _).
        rewrite Ek in Ekind.
        assert (Hc1b : exists a1, c1 = CBlockBy a1 true).
        { pose proof (existsb_false_in _ _ Hob1 (id, c1) Hc1) as Hf. cbn [snd] in Hf.
          destruct c1; cbn [cond_kind] in Ekind, Hf; try discriminate Ekind; try (rewrite Ekind in Hf; discriminate Hf). injection Ekind as ->. eexists; reflexivity. }
        destruct Hc1b as (a1 & ->). destruct (Hfound id c0 Hc0) as (v' & sx & Ef).
        assert (X : existsb (fun r0 => state_eqb r0 SNone) (blockby_results true b0 LOG) = true); [|congruence].
        apply existsb_exists. exists (cres (look_of (er_table er)) tm v (id, c0)). split; [|exact Hres].
        unfold blockby_results. apply in_flat_map. exists (id, CBlockBy a1 true). split; [exact Hc1|]. cbn [snd fst Bool.eqb]. rewrite Ef. left. reflexivity. }
      assert (Hinputs : Forall (fun ib => ~ In (KBlocker true) (conds_kinds (ib_conds ib))) (ab_inputs (er_bind er))).
      { apply Forall_forall. intros ib Hib Hin. unfold conds_kinds in Hin. apply in_map_iff in Hin. destruct Hin as ([id c0] & Ek & Hc0). cbn [snd] in Ek.
        apply (in_map ibskel) in Hib. rewrite Einputs in Hib. apply in_map_iff in Hib. destruct Hib as (ib0 & Eib & Hib0).
        unfold ibskel in Eib. injection Eib as _ _ Ecs.
        destruct (skel_find_ex cskel cskel_id _ _ id c0 Ecs Hc0) as (c1 & Hc1 & Ecs1). apply cskel_inv in Ecs1. destruct Ecs1 as (_ & Ekind & _).
        pose proof (existsb_false_in _ _ Hob2 ib0 Hib0) as Hf. pose proof (existsb_false_in _ _ Hf (id, c1) Hc1) as Hf2. cbn [snd] in Hf2.
        rewrite Ekind, Ek in Hf2. discriminate Hf2. }
      specialize (Hevs Hnohit Hinputs). unfold rec_events. rewrite Hevs, Hrec, Eid.
      change (events_for e (ab_id b0)) with (ev_of e (ab_id b0)). rewrite (ev_of_flat_in e (ab_id b0) d' _ ents Hents He), map_map.
      unfold old_data. rewrite HT0. cbn [sn_state snap_of].
      rewrite (map_ext _ (fun k => k)) by (intros k; apply TrackFrameP.mk_event_kind). rewrite map_id. apply evkinds_eqb_refl.
Qed.
End BlockS.

(* ================================================================================================ *)
(* 10. all steps                                                                                    *)
(* ================================================================================================ *)
Lemma judge_blockers_keys c e bs before o k b : In (k, b) (judge_blockers c e bs before o) -> k = 11 \/ k = 7.
Proof.
  unfold judge_blockers. intros H. apply in_flat_map in H. destruct H as (ab & _ & H).
  destruct (snap_of_entry c e (ab_id ab) (x_snaps o)); [|destruct H]. destruct H as [[= <- _]|H]; [left; reflexivity|]. right.
  destruct (existsb _ (blockby_results true ab (x_log o))); [destruct H as [[= <- _]|[]]; reflexivity|].
  destruct (other_ev_blockers ab); [destruct H|]. destruct H as [[= <- _]|[]]. reflexivity.
Qed.

Definition WI (sc : scenario) (w : world) : Prop := reg_inv sc w /\ ents_inv sc w /\ KInv sc w.
Lemma WI_init sc : WI sc world_init.
Proof. split; [apply reg_inv_init|]. split; [apply ents_inv_init|]. intros c e i H. discriminate H. Qed.

Definition frame_out_of (sc : scenario) (fo : frame_out) : out :=
  mkOut [] (fo_main fo) (fo_post fo) (fo_log fo) (model_snaps sc (fo_world fo)) (model_mirror sc (fo_world fo)) (fo_built fo) true true false.

(* everything the judgement needs about one configured pair in one frame *)
Lemma frame_pair sc w f fo before c e spec : facts sc -> WI sc w -> BR sc w before -> f_ops f = [] -> frame sc w f = Some fo ->
  In (c, e, spec) (s_cfg sc) -> C13c.got_of c e before = true ->
  exists i ents cu P Q EP EQ,
    reg_get c e (w_reg w) = Some i /\
    In e ents /\ NoDup ents /\ inst_ok i /\ map abskel (in_binds i) = map abskel (merged_actions spec) /\ in_pad i = i_pad spec /\
    fo_log fo = P ++ flat_map rec_log (ievals (frame_time f) (f_raw f) cu ents i) ++ Q /\
    fo_main fo = EP ++ flat_map rec_events (ievals (frame_time f) (f_raw f) cu ents i) ++ EQ /\
    (forall x, In x (P ++ Q) -> ~ In (log_id x) (concat (map idsb (merged_actions spec)))) /\
    (forall x, In x (EP ++ EQ) -> ~ (e_target x = e /\ In (e_action x) (map ab_id (merged_actions spec)))) /\
    (forall a, In a (map ab_id (merged_actions spec)) ->
       snap_of_entry c e a (x_snaps (frame_out_of sc fo)) =
       option_map snap_of (lookup a (end_table (in_actions i) (ievals (frame_time f) (f_raw f) cu ents i)))) /\
    (forall a, In a (map ab_id (merged_actions spec)) -> snap_of_entry c e a (x_snaps before) = option_map snap_of (lookup a (in_actions i))).
Proof.
  intros HF (Hinv & Hents & HK) (B1 & B2 & _) Hops Hf Hcfg Hgot. rewrite B1 in Hgot.
  apply andb_true_iff in Hgot. destruct Hgot as [Hgot Hg]. apply andb_true_iff in Hgot. destruct Hgot as [Hc He].
  apply memz_in in Hc. apply memz_in in He. unfold gotb in Hg. destruct (reg_get c e (w_reg w)) as [i|] eqn:Eg; [|discriminate].
  destruct (focus sc w f fo HF Hinv HK Hops Hf c e spec i Hcfg Eg) as (ents & cu & P & Q & EP & EQ & H1 & H2 & H3 & H4 & H5 & H6 & H7 & H8 & H9 & H10).
  exists i, ents, cu, P, Q, EP, EQ. split; [reflexivity|]. split; [exact H1|]. split; [exact H2|]. split; [exact H3|]. split; [exact H4|]. split; [exact H5|].
  split; [exact H6|]. split; [exact H7|]. split; [exact H8|]. split; [exact H9|].
  pose proof (has_cfg_in sc c e spec Hcfg) as Ec. pose proof (F_lookup sc HF c e spec Hcfg) as El.
  split.
  - intros a Ha. cbn [frame_out_of x_snaps]. rewrite (snap_of_entry_model sc _ c e a Hc He Ec) by (rewrite El; apply JudgeC03P.merged_ids_spec; exact Ha).
    unfold snapv. rewrite H10, inst_update_view. reflexivity.
  - intros a Ha. rewrite (B2 c e a Hc He Ec) by (try (rewrite El; apply JudgeC03P.merged_ids_spec; exact Ha); unfold gotb; rewrite Eg; reflexivity).
    unfold snapv. rewrite Eg. reflexivity.
Qed.

Definition covered : list Z := [8; 9; 12; 1; 2; 3; 4; 5; 11; 7].

Lemma frame_clauses sc w f fo before : facts sc -> WI sc w -> BR sc w before -> f_ops f = [] -> frame sc w f = Some fo ->
  forall k b,
  In (k, b) (flat_map (fun x : Z * Z * inst_spec => let '(c, e, spec) := x in
               if C13c.got_of c e before
               then (5, order_ok (merged_actions spec) (frame_out_of sc fo)) ::
                    judge_instance c e (merged_actions spec) before (frame_out_of sc fo) ++
                    judge_blockers c e (merged_actions spec) before (frame_out_of sc fo)
               else []) (s_cfg sc)) -> b = true.
Proof.
  intros HF HW HB Hops Hf k b Hin. apply in_flat_map in Hin. destruct Hin as ([[c e] spec] & Hcfg & Hin).
  destruct (C13c.got_of c e before) eqn:Hgot; [|destruct Hin].
  destruct (frame_pair sc w f fo before c e spec HF HW HB Hops Hf Hcfg Hgot)
    as (i & ents & cu & P & Q & EP & EQ & Eg & H1 & H2 & H3 & H4 & H5 & H6 & H7 & H8 & H9 & Hnow & Hprev).
  destruct Hin as [[= <- <-]|Hin].
  { exact (order_ok_inst (frame_time f) (f_raw f) cu ents i (merged_actions spec) P Q (frame_out_of sc fo) H3 H4 (F_nodup sc HF c e spec Hcfg) H6 H8). }
  apply in_app_or in Hin. destruct Hin as [Hin|Hin].
  - eapply (judge_instance_ok (frame_time f) (f_raw f) cu ents i (merged_actions spec) (fo_log fo) P Q H3 H4 (F_nodup sc HF c e spec Hcfg) H6 H8
              c e before (frame_out_of sc fo) eq_refl Hnow Hprev). exact Hin.
  - eapply (judge_blockers_ok (frame_time f) (f_raw f) cu ents i (merged_actions spec) (fo_log fo) P Q EP EQ H3 H4 (F_nodup sc HF c e spec Hcfg) H6 H8
              c e before (frame_out_of sc fo) eq_refl Hnow Hprev H7 H9 H1 H2). exact Hin.
Qed.

Lemma judge_steps_sound sc : facts sc -> forall steps w before, WI sc w -> BR sc w before -> forallb (step_fine sc) steps = true ->
  all_true (judge_steps sc before steps (run_steps sc w steps)).
Proof.
  intros HF. induction steps as [|st steps IH]; intros w before HW HB Hfine k b Hin; [destruct Hin|].
  cbn [forallb] in Hfine. apply andb_true_iff in Hfine. destruct Hfine as [Hst Hfine]. unfold step_fine in Hst. apply andb_true_iff in Hst. destruct Hst as [Hokb Hst].
  destruct HW as (Hinv & Hents & HK). rewrite run_steps_cons in Hin.
  destruct (step_res_inv sc w st Hinv) as (w' & o & Hs & Hinv' & Hshow). rewrite Hs in Hin.
  pose proof (step_res_ents sc w st w' o Hokb Hs Hents) as Hents'.
  destruct st as [op|f]; cbn [judge_steps] in Hin.
  - cbn [step_res] in Hs. destruct (apply_op sc w op) as [oo|] eqn:Eo; [|discriminate]. injection Hs as <- <-.
    destruct Hin as [[= <- <-]|[[= <- <-]|Hin]].
    + reflexivity.
    + destruct HB as (_ & _ & HB3). apply (clause4_ok sc before _ w (oo_world oo) (is_rebuild op) HB3 Hshow Hinv).
      cbn [x_built]. apply apply_op_effect; assumption.
    + apply (IH (oo_world oo) _ (conj Hinv' (conj Hents' (KInv_op sc w op oo Hinv Hents' Eo HK))) (shows_BR sc _ _ Hshow) Hfine k b Hin).
  - cbn [step_res] in Hs. destruct (frame sc w f) as [fo|] eqn:Ef; [|discriminate]. injection Hs as <- <-.
    assert (Hops : f_ops f = []) by (destruct (f_ops f); [reflexivity | discriminate]).
    destruct Hin as [[= <- <-]|Hin]; [reflexivity|]. apply in_app_or in Hin. destruct Hin as [Hin|Hin].
    + exact (frame_clauses sc w f fo before HF (conj Hinv (conj Hents HK)) HB Hops Ef k b Hin).
    + apply (IH (fo_world fo) _ (conj Hinv' (conj Hents' (KInv_frame sc w f fo Hinv Hops Ef HK))) (shows_BR sc _ _ Hshow) Hfine k b Hin).
Qed.


(* ================================================================================================ *)
(* 12. the theorems                                                                                 *)
(* ================================================================================================ *)
Definition profile_C13b (sc : scenario) : bool := profile_main sc.
Definition profile_C13 (sc : scenario) : Prop := profile_C13b sc = true.

(* the clause list of the main judgement (everything but clause 6, the AccumulateBy law) on the model's own run *)
Definition clause_list (sc : scenario) : list (Z * bool) := judge_steps sc out0 (s_steps sc) (run sc).

(* every clause of the main judgement holds on the model's own run *)
Theorem C13_app_clauses_sound : forall sc k b, profile_C13 sc -> In (k, b) (clause_list sc) -> In k covered -> b = true.
Proof.
  intros sc k b Hp Hin _. destruct (profile_facts sc Hp) as [HF Hst].
  exact (judge_steps_sound sc HF (s_steps sc) world_init out0 (WI_init sc) (BR_init sc) Hst k b Hin).
Qed.
Lemma clause_list_covered sc k b : In (k, b) (clause_list sc) -> In k covered.
Proof.
  unfold clause_list. generalize (run sc) out0. induction (s_steps sc) as [|st steps IH]; intros outs before Hin.
  - destruct outs; cbn [judge_steps] in Hin; [destruct Hin | destruct Hin as [[= <- _]|[]]; cbn; tauto].
  - destruct outs as [|o outs]; [destruct st; cbn [judge_steps] in Hin; destruct Hin as [[= <- _]|[]]; cbn; tauto|].
    destruct st as [op|f]; cbn [judge_steps] in Hin.
    + destruct Hin as [[= <- _]|[[= <- _]|Hin]]; [cbn; tauto | cbn; tauto | exact (IH _ _ Hin)].
    + destruct Hin as [[= <- _]|Hin]; [cbn; tauto|]. apply in_app_or in Hin. destruct Hin as [Hin|Hin]; [|exact (IH _ _ Hin)].
      apply in_flat_map in Hin. destruct Hin as ([[c e] spec] & _ & Hin). destruct (C13c.got_of c e before); [|destruct Hin].
      destruct Hin as [[= <- _]|Hin]; [cbn; tauto|]. apply in_app_or in Hin. destruct Hin as [Hin|Hin].
      * unfold judge_instance in Hin. apply in_concat in Hin. destruct Hin as (l & Hl & Hin). apply in_map_iff in Hl. destruct Hl as ([z b0] & <- & _).
        apply in_concat in Hin. destruct Hin as (l & Hl & Hin). apply in_map_iff in Hl. destruct Hl as ([id oc] & <- & _).
        destruct (find_cond id (x_log o)) as [[[v res] sx]|].
        -- destruct Hin as [[= <- _]|[[= <- _]|Hin]]; [cbn; tauto | cbn; tauto|]. destruct oc as [[]|]; first [destruct Hin as [[= <- _]|[]]; cbn; tauto | destruct Hin].
        -- destruct (find_mod id (x_log o)) as [[[vin vout] sx]|]; [|destruct Hin].
           destruct Hin as [[= <- _]|[[= <- _]|Hin]]; [cbn; tauto | cbn; tauto|]. destruct oc as [[]|]; destruct Hin.
      * apply judge_blockers_keys in Hin. destruct Hin as [->| ->]; cbn; tauto.
Qed.
Theorem C13_app_main_sound : forall sc, profile_C13 sc -> first_fail (clause_list sc) = 0.
Proof.
  intros sc Hp. apply all_true_first_fail. intros k b Hin. exact (C13_app_clauses_sound sc k b Hp Hin (clause_list_covered sc k b Hin)).
Qed.
(* hence the verdict on the model's own run is 0 or 6: only clause 6 (the AccumulateBy law and the missed-frame test of Check.C18a) is left *)
Theorem C13_app_judgement_sound_upto6 : forall sc, profile_C13 sc ->
  C13c.ok (sc, trace (run sc)) =
  if accumulate_ok sc (run sc) && Z.eqb (first_fail (judge_missed (mod_sites sc) empty_out (s_steps sc) (run sc))) 0 then 0 else 6.
Proof.
  intros sc Hp. unfold C13c.ok. pose proof (C13_app_main_sound sc Hp) as H. unfold clause_list, out0 in H. rewrite H. reflexivity.
Qed.

(* ---- the profile is satisfiable on a non-trivial scenario, which the whole judgement (clause 6 included) accepts ---- *)
Definition ex_fr (keys : list Z) (ops : list op) : step :=
  SFrame (mkFrame (1#64) 1 false 0 (mkRaw keys [] (0%Q, 0%Q) (0%Q, 0%Q) [] []) ops).
Definition ex_spec : inst_spec := mkSpec None
  [ mkAction 4 [(2, m_script [])] [(1, c_script KExplicit [SFired; SFired; SNone; SFired; SOngoing; SFired])] [mkBind (IKey 0 0) [(3, m_script [])] []];
    mkAction 20 [(5, m_accumulate 4); (6, m_script [])]
                [(4, c_script KExplicit [SFired; SOngoing; SFired; SFired; SNone; SFired]); (7, c_chord 36); (8, c_block_by 4 false)]
                [mkBind (IKey 1 0) [(9, m_script [])] []];
    mkAction 36 [(11, m_script [])] [(10, c_script KExplicit [SOngoing; SFired; SFired; SNone; SFired; SFired]); (12, c_block_by 20 true)]
                [mkBind (IKey 2 0) [(13, m_script [])] []] ].
Definition ex_sc (ops : list op) : scenario := mkScenario [0] [0] [((0, 0), ex_spec)]
  [SOp (OSpawn 0 [0]); ex_fr [] []; ex_fr [0; 1; 2] []; ex_fr [1; 2] ops; ex_fr [0; 2] []; ex_fr [0; 1] []; ex_fr [] []].

Example C13_app_clauses_sound_satisfiable :
  profile_C13b (ex_sc []) = true /\ C13c.ok (ex_sc [], trace (run (ex_sc []))) = 0 /\
  existsb (fun o => existsb (fun s => match s with sn _ _ _ (Some d) => state_eqb (sn_state d) SFired | _ => false end) (x_snaps o)) (run (ex_sc [])) = true.
Proof. vm_compute. repeat split. Qed.

(* frames must not issue operations of their own: what a condition was shown as "this frame's state" is polled after them *)
Example C13_app_clauses_sound_needs_p_steps :
  profile_C13b (ex_sc [ORebuild]) = false /\ p_steps (ex_sc [ORebuild]) = false /\
  C13c.ok (ex_sc [ORebuild], trace (run (ex_sc [ORebuild]))) = 1.
Proof. vm_compute. repeat split. Qed.

(* every other component of the profile is needed too: with exactly that one violated, the judgement rejects the model's own run *)
Definition ex_sp (idc idk : Z) (first : bool) : inst_spec := mkSpec None
  (let a := mkAction 4 [(2, m_script [])] [(1, c_script KExplicit [SFired; SFired; SNone; SFired; SOngoing; SFired])] [mkBind (IKey 0 0) [(3, m_script [])] []] in
   let b := mkAction 20 [(6, m_script [])]
                [(4, c_script KExplicit [SFired; SOngoing; SFired; SFired; SNone; SFired]); (idc, c_chord 4); (idk, c_block_by 4 true)]
                [mkBind (IKey 1 0) [(9, m_script [])] []] in
   if first then [a; b] else [b; a]).
Definition ex_frames : list step := [ex_fr [] []; ex_fr [0; 1; 2] []; ex_fr [1; 2] []; ex_fr [0; 2] []; ex_fr [0; 1] []; ex_fr [] []].
Definition ex_parts (sc : scenario) := (p_keys sc, p_ids_nodup sc, p_ids_disj sc, p_shared sc, p_aids sc, p_steps sc).
Definition ex_verdict (sc : scenario) : Z := C13c.ok (sc, trace (run sc)).

Definition sc_dupid : scenario := mkScenario [0] [0] [((0, 0), ex_sp 1 8 true)] (SOp (OSpawn 0 [0]) :: ex_frames).
Example C13_app_clauses_sound_needs_p_ids_nodup : ex_parts sc_dupid = (true, false, true, true, true, true) /\ ex_verdict sc_dupid = 1.
Proof. vm_compute. split; reflexivity. Qed.
Definition sc_dupkey : scenario := mkScenario [0] [0] [((0, 0), ex_sp 7 8 true); ((0, 0), ex_sp 7 8 false)] (SOp (OSpawn 0 [0]) :: ex_frames).
Example C13_app_clauses_sound_needs_p_keys : ex_parts sc_dupkey = (false, true, true, true, true, true) /\ ex_verdict sc_dupkey = 5.
Proof. vm_compute. split; reflexivity. Qed.
Definition sc_shared_differ : scenario := mkScenario [1] [0; 1] [((1, 0), ex_sp 7 8 true); ((1, 1), ex_sp 7 8 false)]
  (SOp (OSpawn 0 [1]) :: SOp (OSpawn 1 [1]) :: ex_frames).
Example C13_app_clauses_sound_needs_p_shared : ex_parts sc_shared_differ = (true, true, true, false, true, true) /\ ex_verdict sc_shared_differ = 5.
Proof. vm_compute. split; reflexivity. Qed.
Definition sc_same_action : scenario := mkScenario [0; 2] [0]
  [((0, 0), ex_sp 7 8 true);
   ((2, 0), mkSpec None [mkAction 4 [] [(21, c_script KExplicit [SFired; SNone; SFired; SNone; SFired; SFired])] [mkBind (IKey 0 0) [(22, m_script [])] []]])]
  (SOp (OSpawn 0 [0; 2]) :: ex_frames).
Example C13_app_clauses_sound_needs_p_aids : ex_parts sc_same_action = (true, true, true, true, false, true) /\ ex_verdict sc_same_action = 7.
Proof. vm_compute. split; reflexivity. Qed.
Definition sc_same_id : scenario := mkScenario [0; 2] [0]
  [((0, 0), ex_sp 7 8 true);
   ((2, 0), mkSpec None [mkAction 36 [] [(1, c_script KExplicit [SFired; SNone; SFired; SNone; SFired; SFired])] [mkBind (IKey 0 0) [(23, m_script [])] []]])]
  (SOp (OSpawn 0 [0; 2]) :: ex_frames).
Example C13_app_clauses_sound_needs_p_ids_disj : ex_parts sc_same_id = (true, true, false, true, true, true) /\ ex_verdict sc_same_id = 1.
Proof. vm_compute. split; reflexivity. Qed.

Print Assumptions C13_app_clauses_sound.
Print Assumptions C13_app_main_sound.
Print Assumptions C13_app_judgement_sound_upto6.
