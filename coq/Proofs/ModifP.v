(* Lemmas about the built-in input modifiers of Model/Modif.v (property C18). *)
From Coq Require Import Qpower.
From BEI Require Import Model.Modif Proofs.ValueP Proofs.CondP.

(* ---- the axis permutation a swizzle kind stands for ---- *)
Definition perm (k : swz) (a : vec3) : vec3 :=
  let '(x, y, z) := a in
  match k with
  | YXZ => (y, x, z)
  | ZYX => (z, y, x)
  | XZY => (x, z, y)
  | YZX => (y, z, x)
  | ZXY => (z, x, y)
  end.

(* ---- comparisons ---- *)
Ltac case_le a b :=
  let E := fresh "E" in
  destruct (Qle_bool a b) eqn:E;
  [apply Qle_bool_iff in E | apply (proj1 (qleb_false a b)) in E].

Lemma qltb_true a b : qltb a b = true <-> a < b.
Proof.
  unfold qltb. rewrite negb_true_iff. exact (qleb_false b a).
Qed.
Lemma qltb_false a b : qltb a b = false <-> b <= a.
Proof.
  unfold qltb. rewrite negb_false_iff. apply Qle_bool_iff.
Qed.

Lemma qabs_of_nonneg x : 0 <= x -> qabs x = x.
Proof. intros H. unfold qabs. case_le 0 x; [reflexivity | lra]. Qed.
Lemma qabs_of_neg x : x < 0 -> qabs x = - x.
Proof. intros H. unfold qabs. case_le 0 x; [lra | reflexivity]. Qed.
Lemma qabs_proper a b : a == b -> qabs a == qabs b.
Proof. intros H. unfold qabs. case_le 0 a; case_le 0 b; lra. Qed.
Lemma qabs_zero x : x == 0 -> qabs x == 0.
Proof. intros H. unfold qabs. case_le 0 x; lra. Qed.
Lemma qabs_le_iff x b : qabs x <= b <-> - b <= x /\ x <= b.
Proof. unfold qabs. case_le 0 x; split; intros; lra. Qed.
Lemma qabs_opp x : qabs (- x) == qabs x.
Proof. unfold qabs. case_le 0 x; case_le 0 (- x); lra. Qed.

Lemma signum_cases x : (0 <= x /\ signum x = 1) \/ (x < 0 /\ signum x = -1).
Proof.
  unfold signum. destruct (qltb x 0) eqn:E.
  - right. apply qltb_true in E. split; [exact E | reflexivity].
  - left. apply qltb_false in E. split; [exact E | reflexivity].
Qed.
Lemma signum_proper a b : a == b -> signum a = signum b.
Proof.
  intros H. destruct (signum_cases a) as [[Ha ->]|[Ha ->]], (signum_cases b) as [[Hb ->]|[Hb ->]];
    try reflexivity; lra.
Qed.
Lemma signum_mul_self x : signum x * x == qabs x.
Proof.
  destruct (signum_cases x) as [[H ->]|[H ->]].
  - rewrite (qabs_of_nonneg x H). ring.
  - rewrite (qabs_of_neg x H). ring.
Qed.

Lemma qmin_le_l a b : qmin a b <= a.
Proof. unfold qmin. case_le a b; lra. Qed.
Lemma qmin_le_r a b : qmin a b <= b.
Proof. unfold qmin. case_le a b; lra. Qed.
Lemma qmax_ge_l a b : a <= qmax a b.
Proof. unfold qmax. case_le a b; lra. Qed.
Lemma qmax_ge_r a b : b <= qmax a b.
Proof. unfold qmax. case_le a b; lra. Qed.

(* ---- numeric ---- *)
Lemma numeric_dim v : vdim (numeric v) = match vdim v with DBool => D1 | d => d end.
Proof. destruct v; reflexivity. Qed.
Lemma numeric_not_bool v : vdim (numeric v) <> DBool.
Proof. destruct v; discriminate. Qed.
Lemma numeric_idem v : numeric (numeric v) = numeric v.
Proof. destruct v; reflexivity. Qed.
Lemma numeric_id v : vdim v <> DBool -> numeric v = v.
Proof. destruct v; simpl; congruence. Qed.

(* zero-padding to 3D and truncating back is the identity *)
Lemma roundtrip3 v : convert (vdim v) (of3 (as3 v)) = v.
Proof. destruct v as [[|]| | |]; reflexivity. Qed.

(* a false (all-zero) input has an all-zero numeric form *)
Lemma numeric_zero v :
  as_bool v = false ->
  let '(x, y, z) := as3 (numeric v) in x == 0 /\ y == 0 /\ z == 0.
Proof.
  destruct v as [b|x|x y|x y z]; cbn [numeric as3 as_bool]; intros H.
  - subst b. split; [|split]; reflexivity.
  - apply qnz_false_iff in H. split; [exact H | split; reflexivity].
  - apply orb_false_iff in H. destruct H as [Hx Hy].
    apply qnz_false_iff in Hx. apply qnz_false_iff in Hy. split; [exact Hx | split; [exact Hy | reflexivity]].
  - apply orb_false_iff in H. destruct H as [H Hz]. apply orb_false_iff in H. destruct H as [Hx Hy].
    apply qnz_false_iff in Hx. apply qnz_false_iff in Hy. apply qnz_false_iff in Hz.
    split; [exact Hx | split; [exact Hy | exact Hz]].
Qed.

Lemma as_bool_convert_zero d x y z :
  x == 0 -> y == 0 -> z == 0 -> as_bool (convert d (V3 x y z)) = false.
Proof.
  intros Hx Hy Hz.
  apply qnz_false_iff in Hx. apply qnz_false_iff in Hy. apply qnz_false_iff in Hz.
  destruct d; cbn [convert as_bool as1 as2 as3]; rewrite ?Hx, ?Hy, ?Hz; reflexivity.
Qed.

(* Every stateless numeric modifier has the shape "apply f, g, h to the axes X, Y, Z". *)
Definition axiswise (f g h : Q -> Q) (v : value) : value :=
  let '(x, y, z) := as3 (numeric v) in convert (vdim (numeric v)) (V3 (f x) (g y) (h z)).

Lemma axiswise_dim f g h v : vdim (axiswise f g h v) = vdim (numeric v).
Proof. unfold axiswise. destruct (as3 (numeric v)) as [[x y] z]. apply convert_dim. Qed.

Lemma axiswise_zero f g h v :
  (forall x, x == 0 -> f x == 0) -> (forall x, x == 0 -> g x == 0) -> (forall x, x == 0 -> h x == 0) ->
  as_bool v = false -> as_bool (axiswise f g h v) = false.
Proof.
  intros Hf Hg Hh Hv. apply numeric_zero in Hv. unfold axiswise.
  destruct (as3 (numeric v)) as [[x y] z]. destruct Hv as (Hx & Hy & Hz).
  apply as_bool_convert_zero; auto.
Qed.

(* ---- Negate ---- *)
Lemma negate_axes fx fy fz v : negate_apply fx fy fz v = axiswise (neg fx) (neg fy) (neg fz) v.
Proof. destruct v; reflexivity. Qed.

Lemma negate_spec fx fy fz v x y z :
  as3 (numeric v) = (x, y, z) ->
  negate_apply fx fy fz v =
  convert (vdim (numeric v))
    (V3 (if fx then - x else x) (if fy then - y else y) (if fz then - z else z)).
Proof. intros H. rewrite negate_axes. unfold axiswise. rewrite H. reflexivity. Qed.

Lemma negate_dim fx fy fz v : vdim (negate_apply fx fy fz v) = vdim (numeric v).
Proof. rewrite negate_axes. apply axiswise_dim. Qed.

Lemma neg_neg f x : neg f (neg f x) == x.
Proof. destruct f; cbn [neg]; ring. Qed.

Lemma negate_involutive fx fy fz v :
  veq (negate_apply fx fy fz (negate_apply fx fy fz v)) (numeric v).
Proof.
  destruct v as [b|x|x y|x y z]; cbn [negate_apply numeric veq]; repeat split; apply neg_neg.
Qed.

Lemma negate_none v : negate_apply false false false v = numeric v.
Proof. destruct v; reflexivity. Qed.

Lemma negate_zero fx fy fz v : as_bool v = false -> as_bool (negate_apply fx fy fz v) = false.
Proof.
  rewrite negate_axes. apply axiswise_zero; intros x Hx; destruct fx, fy, fz; cbn [neg]; lra.
Qed.

(* ---- Scale ---- *)
Lemma scale_axes fx fy fz v :
  scale_apply fx fy fz v = axiswise (fun x => x * fx) (fun y => y * fy) (fun z => z * fz) v.
Proof. destruct v; reflexivity. Qed.

Lemma scale_spec fx fy fz v x y z :
  as3 (numeric v) = (x, y, z) ->
  scale_apply fx fy fz v = convert (vdim (numeric v)) (V3 (x * fx) (y * fy) (z * fz)).
Proof. intros H. rewrite scale_axes. unfold axiswise. rewrite H. reflexivity. Qed.

Lemma scale_dim fx fy fz v : vdim (scale_apply fx fy fz v) = vdim (numeric v).
Proof. rewrite scale_axes. apply axiswise_dim. Qed.

Lemma scale_zero fx fy fz v : as_bool v = false -> as_bool (scale_apply fx fy fz v) = false.
Proof. rewrite scale_axes. apply axiswise_zero; intros x Hx; rewrite Hx; ring. Qed.

(* ---- DeltaScale ---- *)
Lemma delta_scale_axes dt v :
  delta_scale_apply dt v = axiswise (fun x => x * dt) (fun y => y * dt) (fun z => z * dt) v.
Proof. destruct v; reflexivity. Qed.

Lemma delta_scale_spec dt v x y z :
  as3 (numeric v) = (x, y, z) ->
  delta_scale_apply dt v = convert (vdim (numeric v)) (V3 (x * dt) (y * dt) (z * dt)).
Proof. intros H. rewrite delta_scale_axes. unfold axiswise. rewrite H. reflexivity. Qed.

Lemma delta_scale_dim dt v : vdim (delta_scale_apply dt v) = vdim (numeric v).
Proof. rewrite delta_scale_axes. apply axiswise_dim. Qed.

Lemma delta_scale_zero dt v : as_bool v = false -> as_bool (delta_scale_apply dt v) = false.
Proof. rewrite delta_scale_axes. apply axiswise_zero; intros x Hx; rewrite Hx; ring. Qed.

(* ---- SwizzleAxis ---- *)
Lemma swizzle_spec k v :
  convert (vdim (swizzle_apply k v)) (of3 (perm k (as3 (numeric v)))) = swizzle_apply k v.
Proof. destruct v, k; reflexivity. Qed.

Lemma swizzle_out_dim k v :
  vdim (swizzle_apply k v) =
  match vdim v with
  | D3 => D3
  | D2 => D2
  | DBool | D1 => match k with YXZ | ZXY => D2 | ZYX | YZX => D3 | XZY => D1 end
  end.
Proof. destruct v, k; reflexivity. Qed.

Lemma swizzle_lossless k v :
  vdim (numeric v) = D1 \/ vdim (numeric v) = D3 ->
  as3 (swizzle_apply k v) = perm k (as3 (numeric v)).
Proof. destruct v, k; cbn [numeric vdim]; intros [H|H]; try discriminate; reflexivity. Qed.

(* every swizzle is a bijection on 3D vectors *)
Definition swz_inv (k : swz) : swz :=
  match k with YXZ => YXZ | ZYX => ZYX | XZY => XZY | YZX => ZXY | ZXY => YZX end.
Lemma perm_inv k a : perm (swz_inv k) (perm k a) = a /\ perm k (perm (swz_inv k) a) = a.
Proof. destruct a as [[x y] z], k; split; reflexivity. Qed.

(* on 3D inputs the modifier is exactly the permutation; on 2D inputs the third (zero) axis may
   displace a real one *)
Lemma swizzle_3d k x y z : swizzle_apply k (V3 x y z) = of3 (perm k (x, y, z)).
Proof. destruct k; reflexivity. Qed.

Lemma swizzle_zero k v : as_bool v = false -> as_bool (swizzle_apply k v) = false.
Proof.
  intros Hv. apply numeric_zero in Hv. rewrite <- swizzle_spec.
  destruct (as3 (numeric v)) as [[x y] z]. destruct Hv as (Hx & Hy & Hz).
  destruct k; cbn [perm of3]; apply as_bool_convert_zero; assumption.
Qed.

(* ---- DeadZone ---- *)
(* magnitude of the dead-zone response to an input of magnitude a *)
Definition dzm (lo hi a : Q) : Q := qmin (qmax (a - lo) 0 / (hi - lo)) 1.

Lemma dz_eq lo hi x : dz lo hi x = dzm lo hi (qabs x) * signum x.
Proof. reflexivity. Qed.

Lemma dzm_zero lo hi a : a <= lo -> dzm lo hi a == 0.
Proof.
  intros H. unfold dzm.
  assert (Hq : qmax (a - lo) 0 == 0) by (unfold qmax; case_le (a - lo) 0; lra).
  assert (Hd : qmax (a - lo) 0 / (hi - lo) == 0) by (rewrite Hq; unfold Qdiv; ring).
  remember (qmax (a - lo) 0 / (hi - lo)) as u eqn:Eu. clear Eu.
  unfold qmin. case_le u 1; lra.
Qed.

Lemma dzm_range lo hi a : lo < hi -> 0 <= dzm lo hi a /\ dzm lo hi a <= 1.
Proof.
  intros H. unfold dzm.
  assert (Hq : 0 <= qmax (a - lo) 0) by apply qmax_ge_r.
  assert (Hd : 0 <= qmax (a - lo) 0 / (hi - lo)) by (apply Qle_shift_div_l; lra).
  remember (qmax (a - lo) 0 / (hi - lo)) as u eqn:Eu. clear Eu.
  unfold qmin. case_le u 1; lra.
Qed.

Lemma dzm_mono lo hi a b : lo < hi -> a <= b -> dzm lo hi a <= dzm lo hi b.
Proof.
  intros H Hab. unfold dzm.
  assert (Hq : qmax (a - lo) 0 <= qmax (b - lo) 0)
    by (unfold qmax; case_le (a - lo) 0; case_le (b - lo) 0; lra).
  assert (Hd : qmax (a - lo) 0 / (hi - lo) <= qmax (b - lo) 0 / (hi - lo)).
  { unfold Qdiv. apply Qmult_le_compat_r; [exact Hq|]. apply Qinv_le_0_compat. lra. }
  remember (qmax (a - lo) 0 / (hi - lo)) as u eqn:Eu. clear Eu.
  remember (qmax (b - lo) 0 / (hi - lo)) as w eqn:Ew. clear Ew.
  unfold qmin. case_le u 1; case_le w 1; lra.
Qed.

(* linear between the thresholds, saturated above the upper one *)
Lemma dzm_between lo hi a : lo < hi -> lo <= a -> a <= hi -> dzm lo hi a == (a - lo) / (hi - lo).
Proof.
  intros H Hl Hh. unfold dzm.
  assert (Hq : qmax (a - lo) 0 == a - lo) by (unfold qmax; case_le (a - lo) 0; lra).
  assert (Hd : qmax (a - lo) 0 / (hi - lo) == (a - lo) / (hi - lo)) by (rewrite Hq; reflexivity).
  assert (H1 : (a - lo) / (hi - lo) <= 1) by (apply Qle_shift_div_r; lra).
  remember (qmax (a - lo) 0 / (hi - lo)) as u eqn:Eu. clear Eu.
  remember ((a - lo) / (hi - lo)) as w eqn:Ew. clear Ew.
  unfold qmin. case_le u 1; lra.
Qed.
Lemma dzm_saturated lo hi a : lo < hi -> hi <= a -> dzm lo hi a == 1.
Proof.
  intros H Hh. unfold dzm.
  assert (Hq : qmax (a - lo) 0 == a - lo) by (unfold qmax; case_le (a - lo) 0; lra).
  assert (H1 : 1 <= qmax (a - lo) 0 / (hi - lo)) by (apply Qle_shift_div_l; lra).
  remember (qmax (a - lo) 0 / (hi - lo)) as u eqn:Eu. clear Eu.
  unfold qmin. case_le u 1; lra.
Qed.

Lemma dzm_proper lo hi a b : a == b -> dzm lo hi a == dzm lo hi b.
Proof.
  intros H. unfold dzm.
  assert (Hq : qmax (a - lo) 0 == qmax (b - lo) 0)
    by (unfold qmax; case_le (a - lo) 0; case_le (b - lo) 0; lra).
  assert (Hd : qmax (a - lo) 0 / (hi - lo) == qmax (b - lo) 0 / (hi - lo)) by (rewrite Hq; reflexivity).
  remember (qmax (a - lo) 0 / (hi - lo)) as u eqn:Eu. clear Eu.
  remember (qmax (b - lo) 0 / (hi - lo)) as w eqn:Ew. clear Ew.
  unfold qmin. case_le u 1; case_le w 1; lra.
Qed.

Lemma dz_proper lo hi a b : a == b -> dz lo hi a == dz lo hi b.
Proof.
  intros H. rewrite !dz_eq. rewrite (signum_proper a b H).
  rewrite (dzm_proper lo hi (qabs a) (qabs b) (qabs_proper a b H)). reflexivity.
Qed.

Lemma dz_inside lo hi x : qabs x <= lo -> dz lo hi x == 0.
Proof. intros H. rewrite dz_eq. rewrite (dzm_zero lo hi (qabs x) H). ring. Qed.

Lemma dz_abs lo hi x : lo < hi -> qabs (dz lo hi x) == dzm lo hi (qabs x).
Proof.
  intros H. rewrite dz_eq. destruct (dzm_range lo hi (qabs x) H) as [H0 _].
  remember (dzm lo hi (qabs x)) as m eqn:Em. clear Em.
  destruct (signum_cases x) as [[_ ->]|[_ ->]].
  - rewrite qabs_of_nonneg; lra.
  - assert (Hn : m * -1 <= 0) by lra.
    unfold qabs. case_le 0 (m * -1); lra.
Qed.

Lemma dz_bounded lo hi x : lo < hi -> qabs (dz lo hi x) <= 1.
Proof. intros H. rewrite (dz_abs lo hi x H). apply dzm_range. exact H. Qed.

Lemma dz_sign lo hi x : lo < hi -> 0 <= dz lo hi x * x.
Proof.
  intros H. rewrite dz_eq. destruct (dzm_range lo hi (qabs x) H) as [H0 _].
  assert (E : dzm lo hi (qabs x) * signum x * x == dzm lo hi (qabs x) * qabs x)
    by (rewrite <- Qmult_assoc, (signum_mul_self x); reflexivity).
  rewrite E. apply Qmult_le_0_compat; [exact H0 | apply qabs_nonneg].
Qed.

(* the output never points the other way, and is non-zero only together with the input *)
Lemma dz_sign_pos lo hi x : lo < hi -> 0 <= x -> 0 <= dz lo hi x.
Proof.
  intros H Hx. rewrite dz_eq. destruct (dzm_range lo hi (qabs x) H) as [H0 _].
  destruct (signum_cases x) as [[_ ->]|[Hn _]]; lra.
Qed.
Lemma dz_sign_neg lo hi x : lo < hi -> x <= 0 -> dz lo hi x <= 0 \/ x == 0.
Proof.
  intros H Hx. rewrite dz_eq. destruct (dzm_range lo hi (qabs x) H) as [H0 _].
  destruct (signum_cases x) as [[Hp ->]|[_ ->]]; [right; lra | left; lra].
Qed.

Lemma dz_mono lo hi x1 x2 :
  lo < hi -> qabs x1 <= qabs x2 -> qabs (dz lo hi x1) <= qabs (dz lo hi x2).
Proof.
  intros H Hx. rewrite (dz_abs lo hi x1 H), (dz_abs lo hi x2 H). apply dzm_mono; assumption.
Qed.

Lemma dz_between lo hi x :
  lo < hi -> lo <= qabs x -> qabs x <= hi -> dz lo hi x == (qabs x - lo) / (hi - lo) * signum x.
Proof. intros H Hl Hh. rewrite dz_eq. rewrite (dzm_between lo hi (qabs x) H Hl Hh). reflexivity. Qed.

Lemma dz_saturated lo hi x : lo < hi -> hi <= qabs x -> dz lo hi x == signum x.
Proof. intros H Hh. rewrite dz_eq. rewrite (dzm_saturated lo hi (qabs x) H Hh). ring. Qed.

Lemma dz_zero_in lo hi x : 0 <= lo -> x == 0 -> dz lo hi x == 0.
Proof. intros Hlo Hx. apply dz_inside. rewrite (qabs_zero x Hx). exact Hlo. Qed.

(* Axial *)
Lemma deadzone_axial_axes lo hi v :
  deadzone_apply Axial lo hi v = axiswise (dz lo hi) (dz lo hi) (dz lo hi) v.
Proof. destruct v; reflexivity. Qed.

Lemma deadzone_axial_spec lo hi v x y z :
  as3 (numeric v) = (x, y, z) ->
  deadzone_apply Axial lo hi v = convert (vdim (numeric v)) (V3 (dz lo hi x) (dz lo hi y) (dz lo hi z)).
Proof. intros H. rewrite deadzone_axial_axes. unfold axiswise. rewrite H. reflexivity. Qed.

(* Radial *)
Lemma deadzone_radial_spec lo hi v :
  deadzone_apply Radial lo hi v =
  match vdim (numeric v) with
  | D2 | D3 => convert (vdim (numeric v)) (of3 (radial lo hi (as3 (numeric v))))
  | _ => V1 (dz lo hi (as1 (numeric v)))
  end.
Proof.
  destruct v as [b|x|x y|x y z]; cbn [numeric vdim as1 as3 deadzone_apply]; try reflexivity.
  - destruct (radial lo hi (x, y, 0)) as [[a b] c]. reflexivity.
  - destruct (radial lo hi (x, y, z)) as [[a b] c]. reflexivity.
Qed.

Lemma deadzone_dim kind lo hi v : vdim (deadzone_apply kind lo hi v) = vdim (numeric v).
Proof.
  destruct kind.
  - rewrite deadzone_radial_spec. pose proof (numeric_not_bool v) as Hn.
    destruct (vdim (numeric v)) eqn:E; [congruence | reflexivity | apply convert_dim | apply convert_dim].
  - rewrite deadzone_axial_axes. apply axiswise_dim.
Qed.

(* The radial dead zone rescales the vector by a non-negative factor: direction is preserved.
   This needs only a non-negative length, not an exact one. *)
Lemma radial_direction lo hi x y z len :
  len = qsqrt (v3len2 (x, y, z)) -> lo < hi -> 0 <= len ->
  let c := dz lo hi len / len in
  0 <= c /\
  let '(rx, ry, rz) := radial lo hi (x, y, z) in rx == c * x /\ ry == c * y /\ rz == c * z.
Proof.
  intros Elen H Hlen c.
  assert (Hk : 0 <= dz lo hi len) by (apply dz_sign_pos; assumption).
  split.
  { unfold c, Qdiv. apply Qmult_le_0_compat; [exact Hk | apply Qinv_le_0_compat; exact Hlen]. }
  unfold radial. cbv beta iota zeta. rewrite <- Elen.
  destruct (qeqb len 0) eqn:E.
  - apply Qeq_bool_iff in E.
    assert (Hi : / len == 0) by (rewrite E; reflexivity).
    assert (Hc : c == 0) by (unfold c, Qdiv; rewrite Hi; ring).
    unfold v3zero. rewrite Hc. split; [ring | split; ring].
  - assert (Hne : ~ len == 0) by (intro Hz; apply Qeq_bool_iff in Hz; unfold qeqb in E; congruence).
    unfold c. split; [field; exact Hne | split; field; exact Hne].
Qed.

Lemma radial_length lo hi x y z len :
  len = qsqrt (v3len2 (x, y, z)) -> 0 <= lo -> lo < hi -> 0 <= len -> len * len == v3len2 (x, y, z) ->
  v3len2 (radial lo hi (x, y, z)) == dz lo hi len * dz lo hi len.
Proof.
  intros Elen Hlo H Hlen Hsq.
  unfold radial. cbv beta iota zeta. rewrite <- Elen.
  destruct (qeqb len 0) eqn:E.
  - apply Qeq_bool_iff in E. rewrite (dz_zero_in lo hi len Hlo E). unfold v3zero. cbn [v3len2]. ring.
  - assert (Hne : ~ len == 0) by (intro Hz; apply Qeq_bool_iff in Hz; unfold qeqb in E; congruence).
    cbn [v3len2] in Hsq |- *.
    remember (dz lo hi len) as k eqn:Ek. clear Ek.
    transitivity ((x * x + y * y + z * z) * (/ len * / len) * (k * k)); [field; exact Hne|].
    rewrite <- Hsq. field. exact Hne.
Qed.

Lemma radial_bounded lo hi x y z len :
  len = qsqrt (v3len2 (x, y, z)) -> 0 <= lo -> lo < hi -> 0 <= len -> len * len == v3len2 (x, y, z) ->
  v3len2 (radial lo hi (x, y, z)) <= 1.
Proof.
  intros Elen Hlo H Hlen Hsq. rewrite (radial_length lo hi x y z len Elen Hlo H Hlen Hsq).
  pose proof (dz_bounded lo hi len H) as Hb. apply qabs_le_iff in Hb. destruct Hb as [Hb1 Hb2].
  remember (dz lo hi len) as k eqn:Ek. clear Ek. nra.
Qed.

Lemma radial_inside lo hi x y z len :
  len = qsqrt (v3len2 (x, y, z)) -> 0 <= len -> len <= lo ->
  let '(rx, ry, rz) := radial lo hi (x, y, z) in rx == 0 /\ ry == 0 /\ rz == 0.
Proof.
  intros Elen Hlen Hin.
  unfold radial. cbv beta iota zeta. rewrite <- Elen.
  destruct (qeqb len 0) eqn:E.
  - unfold v3zero. split; [reflexivity | split; reflexivity].
  - assert (Hk : dz lo hi len == 0) by (apply dz_inside; rewrite (qabs_of_nonneg len Hlen); exact Hin).
    rewrite Hk. split; [ring | split; ring].
Qed.

Lemma radial_zero_in lo hi x y z :
  x == 0 -> y == 0 -> z == 0 ->
  let '(rx, ry, rz) := radial lo hi (x, y, z) in rx == 0 /\ ry == 0 /\ rz == 0.
Proof.
  intros Hx Hy Hz. unfold radial. cbv beta iota zeta.
  destruct (qeqb (qsqrt (v3len2 (x, y, z))) 0).
  - unfold v3zero. split; [reflexivity | split; reflexivity].
  - remember (qsqrt (v3len2 (x, y, z))) as len eqn:El. clear El.
    unfold Qdiv. rewrite Hx, Hy, Hz. split; [ring | split; ring].
Qed.

Lemma deadzone_zero kind lo hi v :
  0 <= lo -> as_bool v = false -> as_bool (deadzone_apply kind lo hi v) = false.
Proof.
  intros Hlo Hv. destruct kind.
  - rewrite deadzone_radial_spec. apply numeric_zero in Hv.
    pose proof (numeric_not_bool v) as Hn.
    destruct (numeric v) as [b|x|x y|x y z]; cbn [vdim as1 as3] in *; [congruence| | |].
    + destruct Hv as (Hx & _). cbn [as_bool]. apply qnz_false_iff. apply dz_zero_in; assumption.
    + destruct Hv as (Hx & Hy & Hz). pose proof (radial_zero_in lo hi x y 0 Hx Hy Hz) as Hr.
      destruct (radial lo hi (x, y, 0)) as [[a b] c]. destruct Hr as (Ha & Hb & Hc).
      cbn [of3]. apply as_bool_convert_zero; assumption.
    + destruct Hv as (Hx & Hy & Hz). pose proof (radial_zero_in lo hi x y z Hx Hy Hz) as Hr.
      destruct (radial lo hi (x, y, z)) as [[a b] c]. destruct Hr as (Ha & Hb & Hc).
      cbn [of3]. apply as_bool_convert_zero; assumption.
  - rewrite deadzone_axial_axes. apply axiswise_zero; [| | |exact Hv]; intros x Hx; apply dz_zero_in; assumption.
Qed.

(* ---- ExponentialCurve ---- *)
Lemma qabs_mul_signum m x : 0 <= m -> qabs (m * signum x) == m.
Proof.
  intros Hm. destruct (signum_cases x) as [[_ ->]|[_ ->]].
  - rewrite qabs_of_nonneg; lra.
  - unfold qabs. case_le 0 (m * -1); lra.
Qed.

Lemma exp_sign x e : 0 <= apply_exp x e * x.
Proof.
  unfold apply_exp.
  assert (Hp : 0 <= Qpower_positive (qabs x) e) by (apply Qpower_pos_positive, qabs_nonneg).
  assert (E : Qpower_positive (qabs x) e * signum x * x == Qpower_positive (qabs x) e * qabs x)
    by (rewrite <- Qmult_assoc, (signum_mul_self x); reflexivity).
  rewrite E. apply Qmult_le_0_compat; [exact Hp | apply qabs_nonneg].
Qed.

Lemma exp_abs x e : qabs (apply_exp x e) == Qpower_positive (qabs x) e.
Proof. unfold apply_exp. apply qabs_mul_signum. apply Qpower_pos_positive, qabs_nonneg. Qed.

Lemma exp_fix_0 e : apply_exp 0 e == 0.
Proof. unfold apply_exp. change (qabs 0) with 0. rewrite Qpower_positive_0. ring. Qed.
Lemma exp_fix_1 e : apply_exp 1 e == 1.
Proof.
  unfold apply_exp. change (qabs 1) with 1. change (signum 1) with 1. rewrite Qpower_positive_1. ring.
Qed.
Lemma exp_fix_m1 e : apply_exp (-1) e == -1.
Proof.
  unfold apply_exp. change (qabs (-1)) with 1. change (signum (-1)) with (-1).
  rewrite Qpower_positive_1. ring.
Qed.

Lemma exp_zero_in x e : x == 0 -> apply_exp x e == 0.
Proof.
  intros Hx. unfold apply_exp.
  assert (Hp : Qpower_positive (qabs x) e == 0) by (rewrite (qabs_zero x Hx); apply Qpower_positive_0).
  rewrite Hp. ring.
Qed.

(* exponent 1 is the identity *)
Lemma exp_linear x : apply_exp x 1 == x.
Proof.
  unfold apply_exp. cbn [Qpower_positive pow_pos Pos.iter_op].
  destruct (signum_cases x) as [[H ->]|[H ->]].
  - rewrite (qabs_of_nonneg x H). ring.
  - rewrite (qabs_of_neg x H). ring.
Qed.

Lemma exp_axes ex ey ez v :
  exp_apply ex ey ez v = axiswise (fun x => apply_exp x ex) (fun y => apply_exp y ey) (fun z => apply_exp z ez) v.
Proof. destruct v; reflexivity. Qed.

Lemma exp_spec ex ey ez v x y z :
  as3 (numeric v) = (x, y, z) ->
  exp_apply ex ey ez v =
  convert (vdim (numeric v)) (V3 (apply_exp x ex) (apply_exp y ey) (apply_exp z ez)).
Proof. intros H. rewrite exp_axes. unfold axiswise. rewrite H. reflexivity. Qed.

Lemma exp_dim ex ey ez v : vdim (exp_apply ex ey ez v) = vdim (numeric v).
Proof. rewrite exp_axes. apply axiswise_dim. Qed.

Lemma exp_zero ex ey ez v : as_bool v = false -> as_bool (exp_apply ex ey ez v) = false.
Proof. rewrite exp_axes. apply axiswise_zero; intros x Hx; apply exp_zero_in; exact Hx. Qed.

(* ---- all stateless modifiers at once ---- *)
Lemma modif_zero look tm v m :
  match m with
  | MNegate _ _ _ | MScale _ _ _ | MSwizzle _ | MExp _ _ _ | MDeltaScale => True
  | MDeadZone _ lo _ => 0 <= lo
  | MDeltaLerp _ _ | MAccumulate _ _ | MScript _ => False
  end ->
  as_bool v = false -> as_bool (snd (modif_apply look tm v m)) = false.
Proof.
  destruct m; cbn [modif_apply snd]; intros Hm Hv; try contradiction.
  - apply negate_zero; exact Hv.
  - apply scale_zero; exact Hv.
  - apply swizzle_zero; exact Hv.
  - apply deadzone_zero; assumption.
  - apply exp_zero; exact Hv.
  - apply delta_scale_zero; exact Hv.
Qed.

Lemma modif_dim look tm v m :
  match m with
  | MNegate _ _ _ | MScale _ _ _ | MDeadZone _ _ _ | MExp _ _ _ | MDeltaScale => True
  | _ => False
  end ->
  vdim (snd (modif_apply look tm v m)) = match vdim v with DBool => D1 | d => d end.
Proof.
  rewrite <- numeric_dim.
  destruct m; cbn [modif_apply snd]; intros Hm; try contradiction.
  - apply negate_dim.
  - apply scale_dim.
  - apply deadzone_dim.
  - apply exp_dim.
  - apply delta_scale_dim.
Qed.

(* ---- DeltaLerp ---- *)
Lemma lerp1_between p t s :
  0 <= s -> s <= 1 -> qmin p t <= lerp1 p t s /\ lerp1 p t s <= qmax p t.
Proof.
  intros H0 H1. unfold lerp1. rewrite Qred_correct. unfold qmin, qmax.
  case_le p t.
  - assert (Ha : 0 <= s * (t - p)) by (apply Qmult_le_0_compat; lra).
    assert (Hb : 0 <= (1 - s) * (t - p)) by (apply Qmult_le_0_compat; lra).
    split; lra.
  - assert (Ha : 0 <= s * (p - t)) by (apply Qmult_le_0_compat; lra).
    assert (Hb : 0 <= (1 - s) * (p - t)) by (apply Qmult_le_0_compat; lra).
    split; lra.
Qed.

Lemma lerp1_full p t s : s == 1 -> lerp1 p t s == t.
Proof. intros H. unfold lerp1. rewrite Qred_correct, H. ring. Qed.

Lemma alpha_range a : 0 <= a -> 0 <= qmin a 1 /\ qmin a 1 <= 1.
Proof. intros H. unfold qmin. case_le a 1; lra. Qed.
Lemma alpha_full a : 1 <= a -> qmin a 1 == 1.
Proof. intros H. unfold qmin. case_le a 1; lra. Qed.

Lemma delta_lerp_out spd prev dt v :
  snd (delta_lerp_apply spd prev dt v) =
  convert (vdim (numeric v)) (of3 (fst (delta_lerp_apply spd prev dt v))).
Proof.
  unfold delta_lerp_apply. cbv zeta.
  destruct (qltb (v3dist2 prev (as3 (numeric v))) snap_threshold).
  - cbn [fst snd]. symmetry. apply roundtrip3.
  - destruct prev as [[px py] pz]. destruct (as3 (numeric v)) as [[tx ty] tz]. reflexivity.
Qed.

Lemma delta_lerp_snap spd prev dt v :
  v3dist2 prev (as3 (numeric v)) < snap_threshold ->
  delta_lerp_apply spd prev dt v = (as3 (numeric v), numeric v).
Proof.
  intros H. apply qltb_true in H. unfold delta_lerp_apply. cbv zeta. rewrite H. reflexivity.
Qed.

Lemma delta_lerp_far spd px py pz dt v tx ty tz :
  as3 (numeric v) = (tx, ty, tz) ->
  snap_threshold <= v3dist2 (px, py, pz) (tx, ty, tz) ->
  fst (delta_lerp_apply spd (px, py, pz) dt v) =
  (lerp1 px tx (qmin (dt * spd) 1), lerp1 py ty (qmin (dt * spd) 1), lerp1 pz tz (qmin (dt * spd) 1)).
Proof.
  intros Et H. apply qltb_false in H. unfold delta_lerp_apply. cbv zeta. rewrite Et, H. reflexivity.
Qed.

Lemma delta_lerp_between spd prev dt v :
  0 <= dt * spd ->
  let '(px, py, pz) := prev in
  let '(tx, ty, tz) := as3 (numeric v) in
  let '(qx, qy, qz) := fst (delta_lerp_apply spd prev dt v) in
  (qmin px tx <= qx /\ qx <= qmax px tx) /\
  (qmin py ty <= qy /\ qy <= qmax py ty) /\
  (qmin pz tz <= qz /\ qz <= qmax pz tz).
Proof.
  intros H. destruct prev as [[px py] pz]. unfold delta_lerp_apply. cbv zeta.
  destruct (as3 (numeric v)) as [[tx ty] tz].
  destruct (qltb (v3dist2 (px, py, pz) (tx, ty, tz)) snap_threshold); cbn [fst].
  - split; [|split]; (split; [apply qmin_le_r | apply qmax_ge_r]).
  - destruct (alpha_range (dt * spd) H) as [A0 A1].
    split; [|split]; apply lerp1_between; assumption.
Qed.

Lemma delta_lerp_reach spd prev dt v :
  1 <= dt * spd ->
  let '(tx, ty, tz) := as3 (numeric v) in
  let '(qx, qy, qz) := fst (delta_lerp_apply spd prev dt v) in
  qx == tx /\ qy == ty /\ qz == tz.
Proof.
  intros H. destruct prev as [[px py] pz]. unfold delta_lerp_apply. cbv zeta.
  destruct (as3 (numeric v)) as [[tx ty] tz].
  destruct (qltb (v3dist2 (px, py, pz) (tx, ty, tz)) snap_threshold); cbn [fst].
  - split; [|split]; reflexivity.
  - pose proof (alpha_full (dt * spd) H) as A.
    split; [|split]; apply lerp1_full; exact A.
Qed.

(* ---- AccumulateBy ---- *)
Lemma state_eqb_fired s : state_eqb s SFired = true <-> s = SFired.
Proof. destruct s; cbn; split; congruence. Qed.

Lemma accumulate_absent look a acc v : look a = None -> accumulate_apply look a acc v = (acc, v).
Proof. intros H. unfold accumulate_apply. rewrite H. reflexivity. Qed.

Lemma accumulate_idle look a acc v s :
  look a = Some s -> s <> SFired -> accumulate_apply look a acc v = (as3 v, v).
Proof.
  intros H Hs. unfold accumulate_apply. rewrite H.
  destruct (state_eqb s SFired) eqn:E; [apply state_eqb_fired in E; contradiction|].
  cbv zeta. rewrite roundtrip3. reflexivity.
Qed.

Lemma accumulate_fired look a ax ay az v x y z :
  look a = Some SFired -> as3 v = (x, y, z) ->
  exists sx sy sz,
    accumulate_apply look a (ax, ay, az) v = ((sx, sy, sz), convert (vdim v) (V3 sx sy sz)) /\
    sx == ax + x /\ sy == ay + y /\ sz == az + z.
Proof.
  intros H Ev. unfold accumulate_apply. rewrite H. cbn [state_eqb state_rank Nat.eqb]. cbv zeta.
  rewrite Ev. cbn [v3add of3].
  exists (Qred (ax + x)), (Qred (ay + y)), (Qred (az + z)).
  split; [reflexivity|]. rewrite !Qred_correct. split; [|split]; reflexivity.
Qed.

(* a run of consecutive Fired frames *)
Definition v3eq (a b : vec3) : Prop :=
  let '(ax, ay, az) := a in let '(bx, by_, bz) := b in ax == bx /\ ay == by_ /\ az == bz.
Definition v3plus (a b : vec3) : vec3 :=
  let '(ax, ay, az) := a in let '(bx, by_, bz) := b in (ax + bx, ay + by_, az + bz).
Definition v3sum (l : list vec3) : vec3 := fold_right v3plus v3zero l.
Definition accumulate_run (look : aid -> option state) (a : aid) (acc : vec3) (vs : list value) : vec3 :=
  fold_left (fun c v => fst (accumulate_apply look a c v)) vs acc.

Lemma accumulate_running_sum look a vs : forall acc,
  look a = Some SFired ->
  v3eq (accumulate_run look a acc vs) (v3plus acc (v3sum (map as3 vs))).
Proof.
  induction vs as [|v r IH]; intros acc H.
  - destruct acc as [[ax ay] az]. cbn. split; [|split]; ring.
  - change (accumulate_run look a acc (v :: r))
      with (accumulate_run look a (fst (accumulate_apply look a acc v)) r).
    cbn [map].
    specialize (IH (fst (accumulate_apply look a acc v)) H).
    destruct acc as [[ax ay] az]. destruct (as3 v) as [[x y] z] eqn:Ev.
    destruct (accumulate_fired look a ax ay az v x y z H Ev) as (sx & sy & sz & Eq & Hx & Hy & Hz).
    rewrite Eq in IH |- *. cbn [fst] in IH |- *.
    cbn [v3sum fold_right]. fold (v3sum (map as3 r)).
    destruct (accumulate_run look a (sx, sy, sz) r) as [[rx ry] rz].
    destruct (v3sum (map as3 r)) as [[ux uy] uz].
    cbn [v3eq v3plus] in IH |- *. destruct IH as (Ix & Iy & Iz).
    split; [|split]; lra.
Qed.

(* ---- packaged statements used by Props/C18.v ---- *)
Lemma perm_table x y z :
  perm YXZ (x, y, z) = (y, x, z) /\ perm ZYX (x, y, z) = (z, y, x) /\ perm XZY (x, y, z) = (x, z, y) /\
  perm YZX (x, y, z) = (y, z, x) /\ perm ZXY (x, y, z) = (z, x, y).
Proof. repeat split. Qed.

Lemma exp_fixed e : apply_exp 0 e == 0 /\ apply_exp 1 e == 1 /\ apply_exp (-1) e == -1.
Proof. split; [apply exp_fix_0 | split; [apply exp_fix_1 | apply exp_fix_m1]]. Qed.

Lemma swizzle_2d_lossy : swizzle_apply ZYX (V2 1 2) = V2 0 2 /\ swizzle_apply XZY (V2 1 2) = V2 1 0.
Proof. split; reflexivity. Qed.
