(* Computable well-formedness predicates for the unit-level cases.

   Proofs/JudgeDataP.v, JudgeC11P.v and JudgeC18P.v prove soundness / transfer of the executable
   judgements under Prop-valued hypotheses on the CASE.  The correspondence check wants to
   EVALUATE (vm_compute) on every generated case whether the case lies inside these hypotheses.
   This file gives, per case type, a Boolean predicate on whole cases

       c10_caseb, c01u_caseb (, data_caseb) : Datac.ucase -> bool
       c11_caseb (, c11_valid_caseb)        : C11c.ucase  -> bool
       c18_caseb (, c18_weak_caseb)         : C18c.ucase  -> bool

   proves that `caseb c = true` is EQUIVALENT to the Prop hypotheses (so nothing is lost and
   nothing is added), and restates the main theorems with the Boolean premise.

   Freshness of a condition / modifier is Leibniz equality with the result of the constructor
   function (c_hold T os a rel ..., MDeltaLerp spd v3zero, MAccumulate a v3zero); it is tested
   with Leibniz-equality tests on Q (numerator and denominator), bool and Z. *)
From Coq Require Import QArith ZArith List Bool Lia Lqa.
From BEI Require Import Model.Modif Check.Lib Proofs.ValueP Proofs.CondP Proofs.ModifP.
From BEI Require Check.Datac Check.C11c Check.C18c.
From BEI Require Proofs.JudgeDataP Proofs.JudgeC11P Proofs.JudgeC18P.
Import ListNotations.
Open Scope Q_scope.

(* ------------------------------------------------------------------------------------------ *)
(* Boolean tests and their specifications                                                      *)
(* ------------------------------------------------------------------------------------------ *)
(* Leibniz equality on Q: same numerator, same denominator (1#2 and 2#4 differ) *)
Definition q_leibb (a b : Q) : bool := Z.eqb (Qnum a) (Qnum b) && Pos.eqb (Qden a) (Qden b).
Lemma q_leibb_eq a b : q_leibb a b = true <-> a = b.
Proof.
  destruct a as [n d], b as [n' d']. unfold q_leibb. cbn [Qnum Qden].
  rewrite andb_true_iff, Z.eqb_eq, Pos.eqb_eq. split.
  - intros [E1 E2]. rewrite E1, E2. reflexivity.
  - intros E. injection E as E1 E2. split; assumption.
Qed.
Example q_leibb_not_qeq : qeqb (1 # 2) (2 # 4) = true /\ q_leibb (1 # 2) (2 # 4) = false.
Proof. split; reflexivity. Qed.

Definition v3_leibb (a b : vec3) : bool :=
  let '(x, y, z) := a in let '(x', y', z') := b in q_leibb x x' && q_leibb y y' && q_leibb z z'.
Lemma v3_leibb_eq a b : v3_leibb a b = true <-> a = b.
Proof.
  destruct a as [[x y] z], b as [[x' y'] z']. unfold v3_leibb.
  rewrite !andb_true_iff, !q_leibb_eq. split.
  - intros [[E1 E2] E3]. rewrite E1, E2, E3. reflexivity.
  - intros E. injection E as E1 E2 E3. repeat split; assumption.
Qed.

Lemma negb_true_false b : negb b = true <-> b = false.
Proof. destruct b; split; intros H; try reflexivity; discriminate H. Qed.

Lemma forallb_Forall {A} (f : A -> bool) (P : A -> Prop) l :
  (forall x, f x = true <-> P x) -> (forallb f l = true <-> Forall P l).
Proof.
  intros Hf. induction l as [|x r IH]; cbn [forallb].
  - split; [constructor|reflexivity].
  - rewrite andb_true_iff, IH, Hf. split.
    + intros [H1 H2]. constructor; assumption.
    + intros H. inversion H as [|y l H1 H2]; subst. split; assumption.
Qed.

(* ------------------------------------------------------------------------------------------ *)
(* udata: C10 and the unit part of C01                                                         *)
(* ------------------------------------------------------------------------------------------ *)
Module DataB.
Import Datac JudgeDataP.

Fixpoint wf10b_from (a : Z) (prev : state) (steps : list dstep_t) : bool :=
  match steps with
  | [] => true
  | dstep s dt v :: r =>
      (state_eqb prev SNone || qleb 0 dt) &&
      ((state_eqb prev SNone && state_eqb s SNone) || dim_eqb (vdim v) (aid_dim a)) &&
      wf10b_from a s r
  end.
Definition wf10b (a : Z) (steps : list dstep_t) : bool := wf10b_from a SNone steps.
Definition wf01b (a : Z) (steps : list dstep_t) : bool :=
  forallb (fun st => match st with dstep s dt v => dim_eqb (vdim v) (aid_dim a) end) steps.
Definition wfb (a : Z) (steps : list dstep_t) : bool :=
  forallb (fun st => match st with dstep s dt v => qleb 0 dt && dim_eqb (vdim v) (aid_dim a) end) steps.

Lemma wf10b_from_iff a : forall steps prev, wf10b_from a prev steps = true <-> steps_wf10_from a prev steps.
Proof.
  induction steps as [|[s dt v] r IH]; intros prev; cbn [wf10b_from steps_wf10_from].
  - split; [intros _; exact I|reflexivity].
  - rewrite !andb_true_iff, !orb_true_iff, !andb_true_iff, !state_eqb_iff, dim_eqb_iff, qleb_iff, IH.
    tauto.
Qed.
Lemma wf10b_iff a steps : wf10b a steps = true <-> steps_wf10 a steps.
Proof. apply wf10b_from_iff. Qed.
Lemma wf01b_iff a steps : wf01b a steps = true <-> steps_wf01 a steps.
Proof. apply forallb_Forall. intros [s dt v]. apply dim_eqb_iff. Qed.
Lemma wfb_iff a steps : wfb a steps = true <-> steps_wf a steps.
Proof.
  apply forallb_Forall. intros [s dt v]. rewrite andb_true_iff, qleb_iff, dim_eqb_iff. tauto.
Qed.
End DataB.

Definition c10_caseb (c : Datac.ucase) : bool :=
  match c with Datac.udata a steps => DataB.wf10b a steps end.
Definition c01u_caseb (c : Datac.ucase) : bool :=
  match c with Datac.udata a steps => DataB.wf01b a steps end.
(* the hypothesis as first proposed (all deltas >= 0, all values of the action's type): implies both *)
Definition data_caseb (c : Datac.ucase) : bool :=
  match c with Datac.udata a steps => DataB.wfb a steps end.

Lemma c10_caseb_iff a steps : c10_caseb (Datac.udata a steps) = true <-> JudgeDataP.steps_wf10 a steps.
Proof. apply DataB.wf10b_iff. Qed.
Lemma c01u_caseb_iff a steps : c01u_caseb (Datac.udata a steps) = true <-> JudgeDataP.steps_wf01 a steps.
Proof. apply DataB.wf01b_iff. Qed.
Lemma data_caseb_iff a steps : data_caseb (Datac.udata a steps) = true <-> JudgeDataP.steps_wf a steps.
Proof. apply DataB.wfb_iff. Qed.
Lemma data_caseb_both c : data_caseb c = true -> c10_caseb c = true /\ c01u_caseb c = true.
Proof.
  destruct c as [a steps]. intros H. apply data_caseb_iff in H. split.
  - apply c10_caseb_iff, JudgeDataP.steps_wf_wf10, H.
  - apply c01u_caseb_iff, JudgeDataP.steps_wf_wf01, H.
Qed.

Theorem C10_judgement_transfer_b : forall c o,
  c10_caseb c = true -> Datac.agree (c, o) = true -> Datac.ok_C10 (c, o) = 0%Z.
Proof.
  intros [a steps] o Hc Ha. apply JudgeDataP.C10_judgement_transfer; [apply c10_caseb_iff; exact Hc|exact Ha].
Qed.
Theorem C10_judgement_sound_b : forall c,
  c10_caseb c = true -> Datac.ok_C10 (c, Datac.model c) = 0%Z.
Proof. intros [a steps] Hc. apply JudgeDataP.C10_judgement_sound. apply c10_caseb_iff; exact Hc. Qed.

Theorem C01u_judgement_transfer_b : forall c o,
  c01u_caseb c = true -> Datac.agree (c, o) = true -> Datac.ok_C01u (c, o) = 0%Z.
Proof.
  intros [a steps] o Hc Ha. apply JudgeDataP.C01u_judgement_transfer; [apply c01u_caseb_iff; exact Hc|exact Ha].
Qed.
Theorem C01u_judgement_sound_b : forall c,
  c01u_caseb c = true -> Datac.ok_C01u (c, Datac.model c) = 0%Z.
Proof. intros [a steps] Hc. apply JudgeDataP.C01u_judgement_sound. apply c01u_caseb_iff; exact Hc. Qed.

(* ------------------------------------------------------------------------------------------ *)
(* ucond: C11                                                                                  *)
(* ------------------------------------------------------------------------------------------ *)
(* the timer is the one timer_new builds: no time accumulated (Leibniz 0 = 0#1), any relative_speed flag *)
Definition fresh_timerb (t : timer) : bool := q_leibb (t_dur t) 0.
Lemma fresh_timerb_iff t : fresh_timerb t = true <-> t = timer_new (t_rel t).
Proof.
  destruct t as [rel d]. unfold fresh_timerb, timer_new. cbn [t_rel t_dur]. rewrite q_leibb_eq. split.
  - intros E. rewrite E. reflexivity.
  - intros E. injection E as E. exact E.
Qed.

(* c is one of the seven built-in conditions as its constructor function returns it; Hold has hold_time > 0 *)
Definition c11_condb (c : cond) : bool :=
  match c with
  | CPress _ => true
  | CJustPress _ p => negb p
  | CRelease _ p => negb p
  | CHold T _ _ t f => qltb 0 T && fresh_timerb t && negb f
  | CHoldAndRelease _ _ t p => fresh_timerb t && negb p
  | CTap _ _ t p => fresh_timerb t && negb p
  | CPulse _ _ _ _ t n => fresh_timerb t && Z.eqb n 0
  | CChord _ | CBlockBy _ _ | CScript _ _ => false
  end.
(* the same with every time parameter positive, as the crate documents them *)
Definition c11_valid_condb (c : cond) : bool :=
  c11_condb c &&
  match c with
  | CHoldAndRelease T _ _ _ | CTap T _ _ _ => qltb 0 T
  | CPulse iv _ _ _ _ _ => qltb 0 iv
  | _ => true
  end.
Definition cstepsb (steps : list C11c.cstep_t) : bool :=
  forallb (fun st => match st with C11c.cstep v real spd p => qleb 0 real && qleb 0 spd end) steps.

Lemma c11_condb_iff c : c11_condb c = true <-> JudgeC11P.fresh_builtin c.
Proof.
  split.
  - destruct c as [a|a p|a p|T os a t f|T a t p|T a t p|iv lim os a t n|a|a eo|k rs]; cbn [c11_condb]; intros H;
      try discriminate H; rewrite ?andb_true_iff, ?negb_true_false in H.
    + apply (JudgeC11P.fb_press a).
    + rewrite H. apply (JudgeC11P.fb_just_press a).
    + rewrite H. apply (JudgeC11P.fb_release a).
    + destruct H as [[HT Ht] Hf]. apply fresh_timerb_iff in Ht. rewrite Ht, Hf.
      apply (JudgeC11P.fb_hold T os a (t_rel t)). apply qltb_true. exact HT.
    + destruct H as [Ht Hp]. apply fresh_timerb_iff in Ht. rewrite Ht, Hp.
      apply (JudgeC11P.fb_hold_and_release T a (t_rel t)).
    + destruct H as [Ht Hp]. apply fresh_timerb_iff in Ht. rewrite Ht, Hp.
      apply (JudgeC11P.fb_tap T a (t_rel t)).
    + destruct H as [Ht Hn]. apply fresh_timerb_iff in Ht. apply Z.eqb_eq in Hn. rewrite Ht, Hn.
      apply (JudgeC11P.fb_pulse iv lim os a (t_rel t)).
  - intros H. destruct H as [a|a|a|T os a rel HT|T a rel|T a rel|iv lim os a rel]; try reflexivity.
    cbn [c_hold c11_condb]. apply qltb_true in HT. rewrite HT. reflexivity.
Qed.

Lemma c11_valid_condb_iff c : c11_valid_condb c = true <-> JudgeC11P.fresh_builtin_valid c.
Proof.
  unfold c11_valid_condb. rewrite andb_true_iff, c11_condb_iff. split.
  - intros [Hf Hv]. destruct Hf as [a|a|a|T os a rel HT|T a rel|T a rel|iv lim os a rel];
      cbn [c_hold_and_release c_tap c_pulse] in Hv; try (apply qltb_true in Hv).
    + apply JudgeC11P.fv_press.
    + apply JudgeC11P.fv_just_press.
    + apply JudgeC11P.fv_release.
    + apply JudgeC11P.fv_hold. exact HT.
    + apply JudgeC11P.fv_hold_and_release. exact Hv.
    + apply JudgeC11P.fv_tap. exact Hv.
    + apply JudgeC11P.fv_pulse. exact Hv.
  - intros H. split; [apply JudgeC11P.fresh_builtin_valid_fresh; exact H|].
    destruct H as [a|a|a|T os a rel HT|T a rel HT|T a rel HT|iv lim os a rel HT]; try reflexivity;
      cbn [c_hold_and_release c_tap c_pulse]; apply qltb_true; exact HT.
Qed.

Lemma cstepsb_iff steps : cstepsb steps = true <-> JudgeC11P.csteps_wf steps.
Proof.
  apply forallb_Forall. intros [v real spd p]. rewrite andb_true_iff, !qleb_true. tauto.
Qed.

(* what the theorems need: freshness (and hold_time > 0) only; no condition on the steps *)
Definition c11_caseb (c : C11c.ucase) : bool :=
  match c with C11c.ucond cd steps => c11_condb cd end.
(* the documented parameter ranges, and non-negative real deltas and speeds *)
Definition c11_valid_caseb (c : C11c.ucase) : bool :=
  match c with C11c.ucond cd steps => c11_valid_condb cd && cstepsb steps end.

Lemma c11_caseb_iff cd steps : c11_caseb (C11c.ucond cd steps) = true <-> JudgeC11P.fresh_builtin cd.
Proof. apply c11_condb_iff. Qed.
Lemma c11_valid_caseb_iff cd steps :
  c11_valid_caseb (C11c.ucond cd steps) = true <-> JudgeC11P.fresh_builtin_valid cd /\ JudgeC11P.csteps_wf steps.
Proof. unfold c11_valid_caseb. rewrite andb_true_iff, c11_valid_condb_iff, cstepsb_iff. tauto. Qed.
Lemma c11_valid_caseb_caseb c : c11_valid_caseb c = true -> c11_caseb c = true.
Proof.
  destruct c as [cd steps]. intros H. apply c11_valid_caseb_iff in H. destruct H as [H _].
  apply c11_caseb_iff, JudgeC11P.fresh_builtin_valid_fresh, H.
Qed.

Theorem C11_judgement_transfer_b : forall c o,
  c11_caseb c = true -> C11c.agree (c, o) = true -> C11c.ok (c, o) = 0%Z.
Proof.
  intros [cd steps] o Hc Ha. apply JudgeC11P.C11_transfer_strong; [apply c11_caseb_iff in Hc; exact Hc|exact Ha].
Qed.
Theorem C11_judgement_sound_b : forall cd steps,
  c11_caseb (C11c.ucond cd steps) = true ->
  C11c.ok (C11c.ucond cd steps, C11c.rcond (C11c.model_steps cd steps)) = 0%Z.
Proof. intros cd steps Hc. apply JudgeC11P.C11_sound_strong. apply c11_caseb_iff in Hc. exact Hc. Qed.

(* ------------------------------------------------------------------------------------------ *)
(* umod / uexp: C18                                                                            *)
(* ------------------------------------------------------------------------------------------ *)
Definition v3_zerob (p : vec3) : bool := v3_leibb p v3zero.

(* m is a built-in modifier as its constructor function returns it, with valid parameters *)
Definition c18_modb (m : modif) : bool :=
  match m with
  | MNegate _ _ _ | MScale _ _ _ | MSwizzle _ | MExp _ _ _ | MDeltaScale => true
  | MDeadZone _ lo hi => qleb 0 lo && qltb lo hi
  | MDeltaLerp spd p => qleb 0 spd && v3_zerob p
  | MAccumulate _ acc => v3_zerob acc
  | MScript _ => false
  end.
Definition mstepsb (steps : list C18c.mstep_t) : bool :=
  forallb (fun st => match st with C18c.mstep v dt rs => qleb 0 dt end) steps.
Definition radialb (m : modif) (steps : list C18c.mstep_t) : bool :=
  match m with
  | MDeadZone Radial _ _ => forallb (fun st => JudgeC18P.exact_len (JudgeC18P.step_in st)) steps
  | _ => true
  end.
Fixpoint dims_monob (n : nat) (steps : list C18c.mstep_t) : bool :=
  match steps with
  | [] => true
  | C18c.mstep v _ _ :: r => Nat.leb n (ndim (vdim (numeric v))) && dims_monob (ndim (vdim (numeric v))) r
  end.
Definition lerpb (m : modif) (steps : list C18c.mstep_t) : bool :=
  match m with MDeltaLerp _ _ => dims_monob 0 steps | _ => true end.
Definition deltab (m : modif) (steps : list C18c.mstep_t) : bool :=
  match m with MDeltaLerp _ _ => mstepsb steps | _ => true end.

Lemma c18_modb_iff m : c18_modb m = true <-> JudgeC18P.fresh_mod m.
Proof.
  split.
  - destruct m as [x y z|a b c|k|k lo hi|ex ey ez| |spd p|a acc|outs]; cbn [c18_modb]; intros H;
      try discriminate H; rewrite ?andb_true_iff in H.
    + apply JudgeC18P.fm_negate.
    + apply JudgeC18P.fm_scale.
    + apply JudgeC18P.fm_swizzle.
    + destruct H as [H1 H2]. apply JudgeC18P.fm_deadzone; [apply qleb_true; exact H1|apply qltb_true; exact H2].
    + apply JudgeC18P.fm_exp.
    + apply JudgeC18P.fm_delta_scale.
    + destruct H as [H1 H2]. apply v3_leibb_eq in H2. rewrite H2.
      apply JudgeC18P.fm_delta_lerp. apply qleb_true. exact H1.
    + apply v3_leibb_eq in H. rewrite H. apply JudgeC18P.fm_accumulate.
  - intros H. destruct H as [x y z|a b c|k|k lo hi Hlo Hlh|ex ey ez| |spd Hs|a]; try reflexivity; cbn [c18_modb].
    + apply qleb_true in Hlo. apply qltb_true in Hlh. rewrite Hlo, Hlh. reflexivity.
    + apply qleb_true in Hs. rewrite Hs. reflexivity.
Qed.

Lemma mstepsb_iff steps : mstepsb steps = true <-> JudgeC18P.msteps_wf steps.
Proof. apply forallb_Forall. intros [v dt rs]. apply qleb_true. Qed.

Lemma radialb_iff m steps : radialb m steps = true <-> JudgeC18P.radial_wf m steps.
Proof.
  unfold radialb, JudgeC18P.radial_wf.
  destruct m as [x y z|a b c|k|k lo hi|ex ey ez| |spd p|a acc|outs]; try (split; intros _; [exact I|reflexivity]).
  destruct k; [|split; intros _; [exact I|reflexivity]].
  apply forallb_Forall. intros st. tauto.
Qed.

Lemma dims_monob_iff : forall steps n, dims_monob n steps = true <-> JudgeC18P.dims_mono n steps.
Proof.
  induction steps as [|[v dt rs] r IH]; intros n; cbn [dims_monob JudgeC18P.dims_mono].
  - split; [intros _; exact I|reflexivity].
  - rewrite andb_true_iff, Nat.leb_le, IH. tauto.
Qed.
Lemma lerpb_iff m steps : lerpb m steps = true <-> JudgeC18P.lerp_wf m steps.
Proof.
  unfold lerpb, JudgeC18P.lerp_wf.
  destruct m as [x y z|a b c|k|k lo hi|ex ey ez| |spd p|a acc|outs]; try (split; intros _; [exact I|reflexivity]).
  apply dims_monob_iff.
Qed.
Lemma deltab_iff m steps : deltab m steps = true <-> JudgeC18P.delta_wf m steps.
Proof.
  unfold deltab, JudgeC18P.delta_wf.
  destruct m as [x y z|a b c|k|k lo hi|ex ey ez| |spd p|a acc|outs]; try (split; intros _; [exact I|reflexivity]).
  apply mstepsb_iff.
Qed.

(* all hypotheses of C18_judgement_sound; the uexp cases need none *)
Definition c18_caseb (c : C18c.ucase) : bool :=
  match c with
  | C18c.umod m ra eps steps => c18_modb m && qleb 0 eps && mstepsb steps && radialb m steps && lerpb m steps
  | C18c.uexp _ _ _ _ => true
  end.
(* the hypotheses of C18_judgement_general: the deltas matter to DeltaLerp only *)
Definition c18_weak_caseb (c : C18c.ucase) : bool :=
  match c with
  | C18c.umod m ra eps steps => c18_modb m && qleb 0 eps && deltab m steps && radialb m steps && lerpb m steps
  | C18c.uexp _ _ _ _ => true
  end.
(* exact mode: the tolerance of a umod case is 0 (any representation of 0) *)
Definition c18_exactb (c : C18c.ucase) : bool :=
  match c with
  | C18c.umod _ _ eps _ => qeqb eps 0
  | C18c.uexp _ _ _ _ => true
  end.

Lemma c18_caseb_iff m ra eps steps :
  c18_caseb (C18c.umod m ra eps steps) = true <->
  JudgeC18P.fresh_mod m /\ 0 <= eps /\ JudgeC18P.msteps_wf steps /\ JudgeC18P.radial_wf m steps /\ JudgeC18P.lerp_wf m steps.
Proof.
  unfold c18_caseb. rewrite !andb_true_iff, c18_modb_iff, qleb_true, mstepsb_iff, radialb_iff, lerpb_iff. tauto.
Qed.
Lemma c18_weak_caseb_iff m ra eps steps :
  c18_weak_caseb (C18c.umod m ra eps steps) = true <->
  JudgeC18P.fresh_mod m /\ 0 <= eps /\ JudgeC18P.delta_wf m steps /\ JudgeC18P.radial_wf m steps /\ JudgeC18P.lerp_wf m steps.
Proof.
  unfold c18_weak_caseb. rewrite !andb_true_iff, c18_modb_iff, qleb_true, deltab_iff, radialb_iff, lerpb_iff. tauto.
Qed.
Lemma c18_caseb_weak c : c18_caseb c = true -> c18_weak_caseb c = true.
Proof.
  destruct c as [m ra eps steps|ex ey ez steps]; [|intros _; reflexivity].
  intros H. apply c18_caseb_iff in H. destruct H as (H1 & H2 & H3 & H4 & H5).
  apply c18_weak_caseb_iff. repeat split; try assumption. apply JudgeC18P.msteps_delta_wf. exact H3.
Qed.

(* (S) *)
Theorem C18_judgement_sound_weak_b : forall m ra eps steps,
  c18_weak_caseb (C18c.umod m ra eps steps) = true ->
  C18c.ok (C18c.umod m ra eps steps, C18c.rmod (C18c.model_steps ra m steps)) = 0%Z.
Proof.
  intros m ra eps steps H. apply c18_weak_caseb_iff in H. destruct H as (H1 & H2 & H3 & H4 & H5).
  apply JudgeC18P.C18_judgement_general; try assumption. apply JudgeC18P.Forall2_veq_refl.
Qed.
Theorem C18_judgement_sound_b : forall m ra eps steps,
  c18_caseb (C18c.umod m ra eps steps) = true ->
  C18c.ok (C18c.umod m ra eps steps, C18c.rmod (C18c.model_steps ra m steps)) = 0%Z.
Proof. intros m ra eps steps H. apply C18_judgement_sound_weak_b, c18_caseb_weak, H. Qed.

(* (T), exact mode.  The tolerance may be any representation of 0 (0#1, 0#7, ...) *)
Lemma qclose_eq0 eps a b : eps == 0 -> C18c.qclose eps a b = true -> a == b.
Proof.
  unfold C18c.qclose. intros He H. apply qleb_true in H.
  assert (H0 : qabs (a - b) <= 0) by (rewrite He in H; lra).
  apply qabs_le_iff in H0. lra.
Qed.
Lemma vclose_eq0 eps a b : eps == 0 -> C18c.vclose eps a b = true -> veq a b.
Proof.
  intros He. destruct a, b; cbn [C18c.vclose veq]; try discriminate; rewrite ?andb_true_iff.
  - apply Bool.eqb_prop.
  - apply qclose_eq0, He.
  - intros [H1 H2]. split; apply (qclose_eq0 eps); assumption.
  - intros [[H1 H2] H3]. split; [|split]; apply (qclose_eq0 eps); assumption.
Qed.

Theorem C18_judgement_transfer_exact_weak_b : forall c o,
  c18_weak_caseb c = true -> c18_exactb c = true -> C18c.agree (c, o) = true -> C18c.ok (c, o) = 0%Z.
Proof.
  intros [m ra eps steps|ex ey ez steps] o Hc He Ha.
  - apply c18_weak_caseb_iff in Hc. destruct Hc as (H1 & H2 & H3 & H4 & H5).
    cbn [c18_exactb] in He. apply JudgeC18P.qeqb_iff in He.
    destruct o as [outs|]; [|discriminate Ha]. cbn [C18c.agree] in Ha.
    apply JudgeC18P.C18_judgement_general; try assumption.
    apply (JudgeC18P.list_eqb_Forall2 (C18c.vclose eps) veq (fun a b => vclose_eq0 eps a b He)). exact Ha.
  - apply JudgeC18P.C18_uexp_transfer. exact Ha.
Qed.
Theorem C18_judgement_transfer_exact_b : forall c o,
  c18_caseb c = true -> c18_exactb c = true -> C18c.agree (c, o) = true -> C18c.ok (c, o) = 0%Z.
Proof. intros c o Hc. apply C18_judgement_transfer_exact_weak_b, c18_caseb_weak, Hc. Qed.

(* the uexp cases: soundness on the output the statement fixes *)
Theorem C18_uexp_sound_b : forall ex ey ez steps,
  c18_caseb (C18c.uexp ex ey ez steps) = true /\
  C18c.ok (C18c.uexp ex ey ez steps, C18c.rmod (JudgeC18P.uexp_expected steps)) = 0%Z.
Proof. intros ex ey ez steps. split; [reflexivity|apply JudgeC18P.C18_uexp_sound]. Qed.

(* ------------------------------------------------------------------------------------------ *)
(* Examples: true on realistic cases, false on ill-formed ones                                 *)
(* ------------------------------------------------------------------------------------------ *)
(* --- udata --- *)
Example c10_caseb_tour : c10_caseb (Datac.udata 32 JudgeDataP.tour) = true.
Proof. vm_compute. reflexivity. Qed.
Example c01u_caseb_tour : c01u_caseb (Datac.udata 32 JudgeDataP.tour) = true.
Proof. vm_compute. reflexivity. Qed.
Example data_caseb_tour : data_caseb (Datac.udata 32 JudgeDataP.tour) = true.
Proof. vm_compute. reflexivity. Qed.
Example C10_transfer_b_example :
  c10_caseb (Datac.udata 32 JudgeDataP.short) = true /\
  Datac.agree (Datac.udata 32 JudgeDataP.short, JudgeDataP.other_out) = true /\
  Datac.ok_C10 (Datac.udata 32 JudgeDataP.short, JudgeDataP.other_out) = 0%Z.
Proof.
  assert (H1 : c10_caseb (Datac.udata 32 JudgeDataP.short) = true) by (vm_compute; reflexivity).
  assert (H2 : Datac.agree (Datac.udata 32 JudgeDataP.short, JudgeDataP.other_out) = true) by (vm_compute; reflexivity).
  refine (conj H1 (conj H2 _)). apply C10_judgement_transfer_b; assumption.
Qed.
(* the cases on which the judgements reject the model (the _needs_ examples of JudgeDataP) are outside *)
Example c10_caseb_false_neg_dt : c10_caseb JudgeDataP.neg_dt_case = false.      (* delta -1 while Ongoing *)
Proof. vm_compute. reflexivity. Qed.
Example c10_caseb_false_bad_dim : c10_caseb JudgeDataP.bad_dim_case = false.    (* Axis1D value for a bool action *)
Proof. vm_compute. reflexivity. Qed.
Example c10_caseb_false_bad_dim_leave : c10_caseb JudgeDataP.bad_dim_leave_case = false.
Proof. vm_compute. reflexivity. Qed.
Example c01u_caseb_false_bad_dim_quiet : c01u_caseb JudgeDataP.bad_dim_quiet_case = false.
Proof. vm_compute. reflexivity. Qed.
(* the two predicates really differ, as the Prop hypotheses do *)
Example c10_c01u_caseb_differ :
  c10_caseb JudgeDataP.bad_dim_quiet_case = true /\ c01u_caseb JudgeDataP.bad_dim_quiet_case = false /\
  c01u_caseb JudgeDataP.neg_dt_case = true /\ c10_caseb JudgeDataP.neg_dt_case = false /\
  data_caseb JudgeDataP.bad_dim_quiet_case = false /\ data_caseb JudgeDataP.neg_dt_case = false.
Proof. vm_compute. repeat split. Qed.

(* --- ucond --- *)
Example c11_caseb_hold :
  c11_caseb (C11c.ucond (c_hold (1 # 2) true (1 # 2) false) JudgeC11P.demo_steps) = true /\
  c11_valid_caseb (C11c.ucond (c_hold (1 # 2) true (1 # 2) false) JudgeC11P.demo_steps) = true.
Proof. vm_compute. split; reflexivity. Qed.
Example c11_caseb_all_builtins :
  forallb (fun cd => c11_valid_caseb (C11c.ucond cd JudgeC11P.demo_steps))
    [c_press (1 # 2); c_just_press (1 # 2); c_release (1 # 2); c_hold 1 false (1 # 2) true;
     c_hold_and_release (1 # 2) (1 # 2) false; c_tap (1 # 5) (1 # 2) true; c_pulse (3 # 10) 3 false (- 1 # 2) true] = true.
Proof. vm_compute. reflexivity. Qed.
Example C11_transfer_b_example :
  let c := C11c.ucond (c_pulse (3 # 10) 3 false (- 1 # 2) true) JudgeC11P.demo_steps in
  let o := C11c.rcond [SFired; SOngoing; SFired; SFired; SNone; SOngoing] in
  c11_caseb c = true /\ C11c.agree (c, o) = true /\ C11c.ok (c, o) = 0%Z.
Proof.
  intros c o.
  assert (H1 : c11_caseb c = true) by (vm_compute; reflexivity).
  assert (H2 : C11c.agree (c, o) = true) by (vm_compute; reflexivity).
  refine (conj H1 (conj H2 _)). apply C11_judgement_transfer_b; assumption.
Qed.
Example c11_caseb_false :
  (* hold_time 0 (JudgeC11P.C11_judgement_sound_needs_hold_pos) *)
  c11_caseb (C11c.ucond (c_hold 0 false (1 # 2) false) [C11c.cstep (V1 0) (1 # 60) 1 false]) = false /\
  (* not fresh: remembered actuation (C11_judgement_sound_needs_fresh) *)
  c11_caseb (C11c.ucond (CJustPress (1 # 2) true) [C11c.cstep (V1 1) (1 # 60) 1 false]) = false /\
  (* not fresh: time on the timer, the fired flag, a pulse count *)
  c11_caseb (C11c.ucond (CHold (1 # 2) true (1 # 2) (mkTimer false (1 # 4)) false) []) = false /\
  c11_caseb (C11c.ucond (CHold (1 # 2) true (1 # 2) (mkTimer false 0) true) []) = false /\
  c11_caseb (C11c.ucond (CPulse (1 # 2) 0 true (1 # 2) (mkTimer false 0) 2) []) = false /\
  (* freshness is Leibniz: a zero duration that is not the constructor's 0#1 *)
  c11_caseb (C11c.ucond (CTap (1 # 2) (1 # 2) (mkTimer false (0 # 2)) false) []) = false /\
  (* not one of the seven built-ins (C11_judgement_sound_needs_builtin) *)
  c11_caseb (C11c.ucond (c_chord 0%Z) []) = false /\
  c11_caseb (C11c.ucond (c_block_by 0%Z true) []) = false /\
  c11_caseb (C11c.ucond (c_script KExplicit [SFired]) []) = false.
Proof. vm_compute. repeat split. Qed.
Example c11_valid_caseb_false :
  (* accepted by c11_caseb, outside the documented ranges: Tap with release_time 0; a negative real delta *)
  c11_caseb (C11c.ucond (c_tap 0 (1 # 2) false) JudgeC11P.demo_steps) = true /\
  c11_valid_caseb (C11c.ucond (c_tap 0 (1 # 2) false) JudgeC11P.demo_steps) = false /\
  c11_caseb (C11c.ucond (c_press (1 # 2)) [C11c.cstep (V1 1) (- 1 # 60) 1 false]) = true /\
  c11_valid_caseb (C11c.ucond (c_press (1 # 2)) [C11c.cstep (V1 1) (- 1 # 60) 1 false]) = false.
Proof. vm_compute. repeat split. Qed.

(* --- umod / uexp --- *)
Definition radial_case : C18c.ucase :=
  C18c.umod (m_deadzone Radial (1 # 5) (9 # 10)) 7 (1 # 1000)
    [C18c.mstep (V2 (3 # 10) (4 # 10)) (1 # 60) SNone; C18c.mstep (V3 (2 # 3) (1 # 3) (2 # 3)) (1 # 60) SFired;
     C18c.mstep (V2 0 0) 0 SNone; C18c.mstep (VB true) (1 # 60) SNone].
Definition lerp_case : C18c.ucase :=
  C18c.umod (m_delta_lerp 8) 0 0
    [C18c.mstep (VB true) (1 # 64) SNone; C18c.mstep (V2 1 (-1)) (1 # 64) SNone; C18c.mstep (V2 1 (1 # 2)) (1 # 4) SNone;
     C18c.mstep (V3 0 0 1) (1 # 16) SNone].
Definition acc_case : C18c.ucase :=
  C18c.umod (m_accumulate 3%Z) 3 0
    [C18c.mstep (V2 1 2) 0 SFired; C18c.mstep (V2 (1 # 2) 0) 0 SFired; C18c.mstep (VB true) 0 SOngoing;
     C18c.mstep (V1 5) 0 SFired].
Example c18_caseb_true :
  c18_caseb radial_case = true /\ c18_caseb lerp_case = true /\ c18_caseb acc_case = true /\
  c18_caseb (C18c.uexp (1 # 2) (5 # 2) 3 [C18c.mstep (V3 0 1 (-1)) 0 SNone]) = true /\
  c18_exactb radial_case = false /\ c18_exactb lerp_case = true /\ c18_exactb acc_case = true.
Proof. vm_compute. repeat split. Qed.
Example c18_caseb_all_builtins :
  forallb (fun m => c18_caseb (C18c.umod m 0 (1 # 1000)
                       [C18c.mstep (VB true) (1 # 60) SNone; C18c.mstep (V2 (3 # 5) (4 # 5)) (1 # 60) SFired]))
    [m_negate true false true; m_scale 2 (1 # 2) (-1); m_swizzle YZX; m_deadzone Axial (1 # 5) 1;
     m_deadzone Radial (1 # 5) 1; m_exp 2 3 1; m_delta_scale; m_delta_lerp 8; m_accumulate 0%Z] = true.
Proof. vm_compute. reflexivity. Qed.
Example C18_transfer_exact_b_example :
  let o := C18c.rmod [V1 (2 # 16); V2 (15 # 64) (- (2 # 16)); V2 (2 # 2) (1 # 2); V3 (1 # 2) (2 # 8) (1 # 2)] in
  c18_caseb lerp_case = true /\ c18_exactb lerp_case = true /\ C18c.agree (lerp_case, o) = true /\
  C18c.ok (lerp_case, o) = 0%Z.
Proof.
  intros o.
  assert (H1 : c18_caseb lerp_case = true) by (vm_compute; reflexivity).
  assert (H2 : c18_exactb lerp_case = true) by (vm_compute; reflexivity).
  assert (H3 : C18c.agree (lerp_case, o) = true) by (vm_compute; reflexivity).
  refine (conj H1 (conj H2 (conj H3 _))). apply C18_judgement_transfer_exact_b; assumption.
Qed.
(* exact mode with another representation of 0 as tolerance *)
Example C18_transfer_exact_b_zero_repr :
  let c := C18c.umod (m_scale 2 2 2) 0 (0 # 7) [C18c.mstep (V1 (1 # 2)) 0 SNone] in
  c18_caseb c = true /\ c18_exactb c = true /\ C18c.agree (c, C18c.rmod [V1 (4 # 4)]) = true /\
  C18c.ok (c, C18c.rmod [V1 (4 # 4)]) = 0%Z.
Proof.
  intros c.
  assert (H1 : c18_caseb c = true) by (vm_compute; reflexivity).
  assert (H2 : c18_exactb c = true) by (vm_compute; reflexivity).
  assert (H3 : C18c.agree (c, C18c.rmod [V1 (4 # 4)]) = true) by (vm_compute; reflexivity).
  refine (conj H1 (conj H2 (conj H3 _))). apply C18_judgement_transfer_exact_b; assumption.
Qed.
(* the cases on which the judgement rejects the model (the _needs_ examples of JudgeC18P) are outside *)
Example c18_caseb_false :
  (* radial dead zone on a vector of irrational length *)
  c18_caseb (C18c.umod (MDeadZone Radial 0 1) 0 0 [C18c.mstep (V2 1 1) 0 SNone]) = false /\
  c18_caseb (C18c.umod (MDeadZone Radial (1 # 5) (9 # 10)) 0 0 [C18c.mstep (V3 1 1 1) 0 SNone]) = false /\
  (* DeltaLerp with inputs of decreasing dimension *)
  c18_caseb (C18c.umod (MDeltaLerp 1 v3zero) 0 0
     [C18c.mstep (V2 1 1) (1 # 4) SNone; C18c.mstep (V1 1) (1 # 4) SNone; C18c.mstep (V2 1 (-1)) (1 # 16) SNone]) = false /\
  (* a negative delta *)
  c18_caseb (C18c.umod (MDeltaLerp 1 v3zero) 0 0 [C18c.mstep (V1 1) (-1) SNone]) = false /\
  (* a negative tolerance *)
  c18_caseb (C18c.umod (MScale 2 2 2) 0 (-1) [C18c.mstep (V1 1) 0 SNone]) = false /\
  (* parameters *)
  c18_caseb (C18c.umod (MDeadZone Axial (-1) 1) 0 0 [C18c.mstep (V1 0) 0 SNone]) = false /\
  c18_caseb (C18c.umod (MDeadZone Axial (1 # 2) (1 # 4)) 0 0 [C18c.mstep (V1 1) 0 SNone]) = false /\
  c18_caseb (C18c.umod (MDeadZone Radial (1 # 2) (1 # 2)) 0 0 [C18c.mstep (V2 1 0) 0 SNone]) = false /\
  c18_caseb (C18c.umod (MDeltaLerp (-1) v3zero) 0 0 [C18c.mstep (V1 1) 1 SNone]) = false /\
  (* memory *)
  c18_caseb (C18c.umod (MDeltaLerp 1 (5, 0, 0)) 0 0 [C18c.mstep (V1 1) (1 # 4) SNone]) = false /\
  c18_caseb (C18c.umod (MAccumulate 3%Z (1, 0, 0)) 3 0 [C18c.mstep (V1 1) (1 # 4) SFired]) = false /\
  c18_caseb (C18c.umod (MAccumulate 3%Z (0, 0 # 2, 0)) 3 0 []) = false /\
  (* scripted modifiers have no law here *)
  c18_caseb (C18c.umod (m_script [MPass]) 0 0 []) = false.
Proof. vm_compute. repeat split. Qed.
(* c18_weak_caseb: a negative delta is harmless for every modifier but DeltaLerp *)
Example c18_weak_caseb_differs :
  let c := C18c.umod m_delta_scale 0 0 [C18c.mstep (V2 1 (1 # 2)) (- 1 # 60) SNone] in
  c18_caseb c = false /\ c18_weak_caseb c = true /\
  C18c.ok (c, C18c.rmod (C18c.model_steps 0 m_delta_scale [C18c.mstep (V2 1 (1 # 2)) (- 1 # 60) SNone])) = 0%Z.
Proof.
  intros c.
  assert (H1 : c18_caseb c = false) by (vm_compute; reflexivity).
  assert (H2 : c18_weak_caseb c = true) by (vm_compute; reflexivity).
  refine (conj H1 (conj H2 _)). apply C18_judgement_sound_weak_b. exact H2.
Qed.

Print Assumptions C10_judgement_transfer_b.
Print Assumptions C10_judgement_sound_b.
Print Assumptions C01u_judgement_transfer_b.
Print Assumptions C01u_judgement_sound_b.
Print Assumptions C11_judgement_transfer_b.
Print Assumptions C11_judgement_sound_b.
Print Assumptions C18_judgement_sound_b.
Print Assumptions C18_judgement_sound_weak_b.
Print Assumptions C18_judgement_transfer_exact_b.
Print Assumptions C18_judgement_transfer_exact_weak_b.
Print Assumptions C18_uexp_sound_b.
