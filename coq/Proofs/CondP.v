From BEI Require Import Model.Cond Spec.CondSpec.

Lemma qleb_proper a b c d : a == b -> c == d -> qleb a c = qleb b d.
Proof. intros H1 H2. unfold qleb. rewrite H1, H2. reflexivity. Qed.
Lemma qleb_true a b : qleb a b = true <-> a <= b.
Proof. apply Qle_bool_iff. Qed.
Lemma qleb_false a b : qleb a b = false <-> b < a.
Proof.
  unfold qleb. split; intros H.
  - destruct (Qlt_le_dec b a); [assumption|]. apply Qle_bool_iff in q. congruence.
  - destruct (Qle_bool a b) eqn:E; [|reflexivity]. apply Qle_bool_iff in E. lra.
Qed.

Lemma timer_update_dur tm t :
  t_rel (timer_update tm t) = t_rel t /\ t_dur (timer_update tm t) == t_dur t + tick tm (t_rel t).
Proof.
  unfold timer_update, tick. destruct (t_rel t) eqn:R.
  - change (qeqb 1 0) with false. cbn [t_rel t_dur]. rewrite Qred_correct. split; [reflexivity|]. field.
  - destruct (qeqb (speed tm) 0) eqn:E.
    + rewrite R. split; [reflexivity|]. ring.
    + cbn [t_rel t_dur]. rewrite Qred_correct. split; reflexivity.
Qed.

Lemma conforms_by_inv (Inv : cond -> hist -> Prop) spec ob look :
  (forall c rh v tm, Inv c rh ->
     snd (cond_eval look tm v c) = spec (ob v tm :: rh) /\ Inv (fst (cond_eval look tm v c)) (ob v tm :: rh)) ->
  forall h c rh, Inv c rh -> conforms spec ob look c rh h.
Proof.
  intros Hstep. induction h as [|[v tm] r IH]; intros c rh Hi; simpl; [exact I|].
  destruct (Hstep c rh v tm Hi) as [H1 H2]. split; [exact H1|]. apply IH. exact H2.
Qed.

Ltac fin := split; [reflexivity | split].

(* ---- Press / JustPress / Release ---- *)
Theorem press_spec look a rel h : conforms spec_press (obs a rel) look (c_press a) [] h.
Proof.
  apply conforms_by_inv with (Inv := fun c _ => c = CPress a); [|reflexivity].
  intros c rh v tm ->. simpl. split; reflexivity.
Qed.

Theorem just_press_spec look a rel h : conforms spec_just_press (obs a rel) look (c_just_press a) [] h.
Proof.
  apply conforms_by_inv with (Inv := fun c rh => c = CJustPress a (act_now rh)); [|reflexivity].
  intros c rh v tm ->. simpl. split; reflexivity.
Qed.

Theorem release_spec look a rel h : conforms spec_release (obs a rel) look (c_release a) [] h.
Proof.
  apply conforms_by_inv with (Inv := fun c rh => c = CRelease a (act_now rh)); [|reflexivity].
  intros c rh v tm ->. simpl. split; reflexivity.
Qed.

(* ---- Hold ---- *)
Definition hold_inv T os a rel (c : cond) (rh : hist) : Prop :=
  exists t, c = CHold T os a t (ready T rh) /\ t_rel t = rel /\ t_dur t == held rh.

Theorem hold_spec look T os a rel h : 0 < T -> conforms (spec_hold T os) (obs a rel) look (c_hold T os a rel) [] h.
Proof.
  intros HT. apply conforms_by_inv with (Inv := hold_inv T os a rel).
  - intros c rh v tm (t & -> & Hr & Hd). unfold obs. cbn [cond_eval].
    destruct (is_actuated v a) eqn:A.
    + destruct (timer_update_dur tm t) as [R D]. rewrite Hr in D.
      assert (HD : t_dur (timer_update tm t) == held ((true, tick tm rel) :: rh)) by (simpl; rewrite D, Hd; ring).
      cbn [fst snd]. split.
      * unfold spec_hold, ready. rewrite (qleb_proper T T _ _ (Qeq_refl T) HD).
        cbn [tl act_now]. destruct (qleb T (held ((true, tick tm rel) :: rh))); [|reflexivity].
        unfold ready. destruct os, (qleb T (held rh)); reflexivity.
      * exists (timer_update tm t). unfold ready. rewrite (qleb_proper T T _ _ (Qeq_refl T) HD).
        split; [reflexivity | split; [congruence | exact HD]].
    + cbn [fst snd timer_reset t_dur]. assert (Z0 : qleb T 0 = false) by (apply qleb_false; exact HT).
      rewrite Z0. split.
      * unfold spec_hold, ready. cbn [held act_now]. rewrite Z0. reflexivity.
      * exists (mkTimer (t_rel t) 0). unfold ready. cbn [held]. rewrite Z0. split; [reflexivity | split; [exact Hr|reflexivity]].
  - exists (timer_new rel). unfold ready. cbn [held].
    assert (Z0 : qleb T 0 = false) by (apply qleb_false; exact HT). rewrite Z0. split; [reflexivity | split; reflexivity].
Qed.

(* ---- HoldAndRelease ---- *)
Definition har_inv T a rel (c : cond) (rh : hist) : Prop :=
  exists t, c = CHoldAndRelease T a t (act_now rh) /\ t_rel t = rel /\ t_dur t == held rh.

Theorem hold_and_release_spec look T a rel h :
  conforms (spec_hold_and_release T) (obs a rel) look (c_hold_and_release T a rel) [] h.
Proof.
  apply conforms_by_inv with (Inv := har_inv T a rel).
  - intros c rh v tm (t & -> & Hr & Hd). unfold obs. cbn [cond_eval].
    destruct (timer_update_dur tm t) as [R D]. rewrite Hr in D.
    destruct (is_actuated v a) eqn:A; cbn [fst snd].
    + split; [reflexivity|]. exists (timer_update tm t). fin; [congruence|].
      simpl. rewrite D, Hd. ring.
    + split.
      * unfold spec_hold_and_release. cbn [act_now act_prev tl tick_now].
        rewrite (qleb_proper T T (t_dur (timer_update tm t)) (held rh + tick tm rel) (Qeq_refl T)); [reflexivity|].
        rewrite D, Hd. reflexivity.
      * exists (timer_reset (timer_update tm t)). fin; [simpl; congruence | reflexivity].
  - exists (timer_new rel). fin; reflexivity.
Qed.

(* ---- Tap ---- *)
Definition tap_inv T a rel (c : cond) (rh : hist) : Prop :=
  exists t, c = CTap T a t (act_now rh) /\ t_rel t = rel /\ t_dur t == held rh.

Theorem tap_spec look T a rel h : 0 < T -> conforms (spec_tap T) (obs a rel) look (c_tap T a rel) [] h.
Proof.
  intros HT. apply conforms_by_inv with (Inv := tap_inv T a rel).
  - intros c rh v tm (t & -> & Hr & Hd). unfold obs. cbn [cond_eval].
    destruct (timer_update_dur tm t) as [R D]. rewrite Hr in D.
    destruct (is_actuated v a) eqn:A; cbn [fst snd].
    + assert (HD : t_dur (timer_update tm t) == held ((true, tick tm rel) :: rh)) by (simpl; rewrite D, Hd; ring).
      split.
      * unfold spec_tap. cbn [act_now act_prev tl negb]. rewrite !andb_false_r. cbn [andb].
        unfold qltb. fold (qleb T (held ((true, tick tm rel) :: rh))).
        rewrite (qleb_proper T T _ _ (Qeq_refl T) HD).
        destruct (qleb T (held ((true, tick tm rel) :: rh))); reflexivity.
      * exists (timer_update tm t). fin; [congruence | exact HD].
    + split.
      * unfold spec_tap, act_prev. cbn [act_now tl negb timer_reset t_dur held andb]. rewrite andb_true_r.
        rewrite (qleb_proper (t_dur t) (held rh) T T Hd (Qeq_refl T)).
        assert (Z0 : qleb T 0 = false) by (apply qleb_false; exact HT). rewrite Z0.
        destruct (act_now rh && qleb (held rh) T); reflexivity.
      * exists (timer_reset t). fin; [simpl; exact Hr | reflexivity].
  - exists (timer_new rel). fin; reflexivity.
Qed.

(* ---- Pulse ---- *)
Definition pulse_inv iv lim os a rel (c : cond) (rh : hist) : Prop :=
  exists t, c = CPulse iv lim os a t (pulse_count iv lim os rh) /\ t_rel t = rel /\ t_dur t == held rh.

Theorem pulse_spec look iv lim os a rel h :
  conforms (spec_pulse iv lim os) (obs a rel) look (c_pulse iv lim os a rel) [] h.
Proof.
  apply conforms_by_inv with (Inv := pulse_inv iv lim os a rel).
  - intros c rh v tm (t & -> & Hr & Hd). unfold obs. cbn [cond_eval].
    destruct (timer_update_dur tm t) as [R D]. rewrite Hr in D.
    destruct (is_actuated v a) eqn:A.
    + assert (HD : t_dur (timer_update tm t) == held ((true, tick tm rel) :: rh)) by (simpl; rewrite D, Hd; ring).
      assert (Hpc : pulse_count iv lim os ((true, tick tm rel) :: rh) =
                    if pulse_due iv lim os (pulse_count iv lim os rh) (held ((true, tick tm rel) :: rh))
                    then (pulse_count iv lim os rh + 1)%Z else pulse_count iv lim os rh) by reflexivity.
      unfold pulse_inv. rewrite Hpc. clear Hpc.
      unfold spec_pulse. cbn [act_now tl]. unfold pulse_due.
      set (n := pulse_count iv lim os rh).
      rewrite (qleb_proper _ _ _ _ (Qeq_refl (iv * inject_Z (if os then n else (n + 1)%Z))) HD).
      destruct (Z.eqb lim 0 || Z.ltb n lim); cbn [andb].
      * destruct (qleb _ (held ((true, tick tm rel) :: rh))); cbn [fst snd]; (split; [reflexivity|]);
          exists (timer_update tm t); (fin; [congruence | exact HD]).
      * cbn [fst snd]. split; [reflexivity|]. exists (timer_update tm t). fin; [congruence | exact HD].
    + cbn [fst snd]. split; [reflexivity|]. exists (timer_reset t). fin; [simpl; exact Hr|reflexivity].
  - exists (timer_new rel). fin; reflexivity.
Qed.

(* Pulse fires at most once per elapsed interval, up to its limit *)
Lemma pulse_bound iv lim os rh :
  0 < iv -> Forall (fun x => 0 <= snd x) rh ->
  let c := pulse_count iv lim os rh in
  (0 <= c)%Z /\ ((0 < lim)%Z -> (c <= lim)%Z) /\
  ((0 < c)%Z -> iv * inject_Z (c - (if os then 1 else 0)) <= held rh).
Proof.
  intros Hiv. induction rh as [|[a t] r IH]; intros HF.
  - simpl. repeat split; try lia; try (intros; lia).
  - inversion HF as [|x l Ht HF']; subst. cbn [snd] in Ht. specialize (IH HF'). cbn zeta in IH.
    destruct IH as (I1 & I2 & I3). cbn [pulse_count]. destruct a; [|simpl; repeat split; try lia; try (intros; lia)].
    set (c := pulse_count iv lim os r) in *. unfold pulse_due.
    destruct (Z.eqb lim 0 || Z.ltb c lim) eqn:L; cbn [andb].
    + destruct (qleb (iv * inject_Z (if os then c else (c + 1)%Z)) (held ((true, t) :: r))) eqn:Q.
      * split; [lia|]. split.
        -- intros Hl. apply orb_true_iff in L. destruct L as [L|L]; [apply Z.eqb_eq in L; lia | apply Z.ltb_lt in L; lia].
        -- intros _. apply qleb_true in Q. destruct os.
           ++ replace (c + 1 - 1)%Z with c by lia. exact Q.
           ++ replace (c + 1 - 0)%Z with (c + 1)%Z by lia. exact Q.
      * repeat split; try lia; try assumption. intros Hc. specialize (I3 Hc). simpl. lra.
    + repeat split; try lia; try assumption. intros Hc. specialize (I3 Hc). simpl. lra.
Qed.

(* ---- none of them leaves None without actuation now or on the previous evaluation ---- *)
Lemma no_spurious_hold T os rh : 0 < T -> spec_hold T os rh <> SNone -> act_now rh = true.
Proof.
  intros HT. unfold spec_hold, ready. destruct rh as [|[a t] r]; simpl.
  - assert (Z0 : qleb T 0 = false) by (apply qleb_false; exact HT). rewrite Z0. congruence.
  - destruct a; [reflexivity|]. assert (Z0 : qleb T 0 = false) by (apply qleb_false; exact HT). rewrite Z0. congruence.
Qed.
Lemma no_spurious_har T rh : spec_hold_and_release T rh <> SNone -> act_now rh = true \/ act_prev rh = true.
Proof. unfold spec_hold_and_release. destruct (act_now rh); [tauto|]. destruct (act_prev rh); simpl; [tauto|congruence]. Qed.
Lemma no_spurious_tap T rh : spec_tap T rh <> SNone -> act_now rh = true \/ act_prev rh = true.
Proof. unfold spec_tap. destruct (act_now rh); [tauto|]. destruct (act_prev rh); simpl; [tauto|congruence]. Qed.
Lemma no_spurious_pulse iv lim os rh : spec_pulse iv lim os rh <> SNone -> act_now rh = true.
Proof. unfold spec_pulse. destruct (act_now rh); congruence. Qed.
Lemma no_spurious_edge rh :
  (spec_press rh <> SNone -> act_now rh = true) /\ (spec_just_press rh <> SNone -> act_now rh = true) /\
  (spec_release rh <> SNone -> act_now rh = true \/ act_prev rh = true).
Proof.
  unfold spec_press, spec_just_press, spec_release.
  destruct (act_now rh), (act_prev rh); simpl; repeat split; intros; try tauto; congruence.
Qed.

(* ---- time base ---- *)
Lemma tick_real tm real : 0 < speed tm -> vdelta tm == real * speed tm -> tick tm false == real.
Proof.
  intros Hs Hv. unfold tick. destruct (qeqb (speed tm) 0) eqn:E.
  - apply Qeq_bool_iff in E. lra.
  - rewrite Hv. field. lra.
Qed.
Lemma tick_virtual tm : tick tm true = vdelta tm.
Proof. reflexivity. Qed.
Lemma tick_zero_speed tm : speed tm == 0 -> vdelta tm == 0 -> tick tm false == 0 /\ tick tm true == 0.
Proof.
  intros Hs Hv. unfold tick. split; [|exact Hv]. destruct (qeqb (speed tm) 0) eqn:E; [reflexivity|].
  assert (~ speed tm == 0) by (intro H; apply Qeq_bool_iff in H; unfold qeqb in E; congruence). tauto.
Qed.
Lemma tick_nonneg tm rel : 0 <= vdelta tm -> 0 <= speed tm -> 0 <= tick tm rel.
Proof.
  intros Hv Hs. unfold tick. destruct rel; [exact Hv|]. destruct (qeqb (speed tm) 0) eqn:E; [lra|].
  assert (~ speed tm == 0) by (intro H; apply Qeq_bool_iff in H; unfold qeqb in E; congruence).
  apply Qle_shift_div_l; lra.
Qed.
