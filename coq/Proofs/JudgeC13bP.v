(* Clause 6 of Check/C13c.v (the AccumulateBy law and the missed-frame test of Check/C18a.v) on the model's own run,
   the full soundness theorem and the transfer theorem. *)
From Coq Require Import ZArith QArith List Bool Lia Permutation.
From BEI Require Import Model.Frame Spec.Events Spec.ReadSpec Proofs.StateP Proofs.ActionP Proofs.InstanceP Proofs.ReaderP
  Proofs.MergeP Proofs.ModifP Proofs.FrameLiftP Proofs.RegistryP Proofs.TrackDefs Proofs.TrackOpP Proofs.TrackFrameP Proofs.ValueP Check.C13c.
From BEI Require Proofs.JudgeC03P Proofs.JudgeC12P Proofs.JudgeC18P Proofs.JudgeC18AppP.
From BEI Require Import Proofs.JudgeC07P Proofs.JudgeC13P.
Import ListNotations.
Open Scope Z_scope.

Module A := JudgeC18AppP.

(* ================================================================================================ *)
(* 1. how the stored modifiers evolve in one evaluation                                             *)
(* ================================================================================================ *)
Definition evolved (look : aid -> option state) (tm : time) (seen : list (Z * state)) (ms : list (Z * modif)) (lg : list logitem)
           (id : Z) (x' : modif) : Prop :=
  exists vin x0, In (id, x0) ms /\ x' = fst (modif_apply look tm vin x0) /\ In (LMod id vin (snd (modif_apply look tm vin x0)) seen) lg.
Lemma evolved_incl look tm seen ms ms' lg lg' id x' : incl ms ms' -> incl lg lg' -> evolved look tm seen ms lg id x' -> evolved look tm seen ms' lg' id x'.
Proof. intros H1 H2 (vin & x0 & A1 & A2 & A3). exists vin, x0. repeat split; auto. Qed.

Lemma apply_mods_evol m tm ms : forall v id x', In (id, x') (fst (fst (apply_mods m tm v ms))) ->
  evolved (look_of m) tm (seen_of m) ms (snd (apply_mods m tm v ms)) id x'.
Proof.
  induction ms as [|[i0 x] rr IH]; intros v id x' Hin; cbn [apply_mods] in *; [destruct Hin|].
  destruct (modif_apply (look_of m) tm v x) as [x1 v1] eqn:E. specialize (IH v1 id x').
  destruct (apply_mods m tm v1 rr) as [[r' v''] lg]. cbn [fst snd] in *. destruct Hin as [[= <- <-]|Hin].
  - exists v, x. split; [left; reflexivity|]. rewrite E. split; [reflexivity | left; reflexivity].
  - eapply evolved_incl; [| |exact (IH Hin)]; intros z Hz; right; exact Hz.
Qed.

Lemma input_loop_evol m tm r c dev a : forall ibs st ib' id x',
  In ib' (snd (input_loop m tm r c dev a st ibs)) -> In (id, x') (ib_mods ib') ->
  (exists ib, In ib ibs /\ skipped r c dev ib = true /\ In (id, x') (ib_mods ib)) \/
  evolved (look_of m) tm (seen_of m) (flat_map ib_mods ibs) (l_log (fst (input_loop m tm r c dev a st ibs))) id x'.
Proof.
  induction ibs as [|ib rr IH]; intros st ib' id x' Hin Hx; cbn [input_loop] in *; [destruct Hin|].
  pose proof (A.input_step_facts m tm r c dev a st ib) as Hf.
  destruct (input_step m tm r c dev a st ib) as [st1 ib1] eqn:Es.
  specialize (IH st1 ib' id x'). destruct (A.input_loop_log_prefix m tm r c dev a rr st1) as (more & Hmore).
  destruct (input_loop m tm r c dev a st1 rr) as [st2 rest']. cbn [fst snd] in *.
  destruct Hin as [<-|Hin].
  - destruct (skipped r c dev ib) eqn:Hsk.
    + injection Hf as _ ->. left. exists ib. split; [left; reflexivity|]. split; [exact Hsk | exact Hx].
    + destruct Hf as (cs' & lg2 & st' & E & Hl & _). injection E as -> ->. cbn [ib_mods] in Hx. right.
      eapply evolved_incl; [| |exact (apply_mods_evol m tm (ib_mods ib) _ id x' Hx)].
      * intros z Hz. cbn [flat_map]. apply in_or_app. left. exact Hz.
      * intros z Hz. rewrite Hmore, Hl. apply in_or_app. left. apply in_or_app. right. apply in_or_app. left. exact Hz.
  - destruct (IH Hin Hx) as [(ib0 & H1 & H2 & H3)|Hev].
    + left. exists ib0. split; [right; exact H1|]. split; assumption.
    + right. eapply evolved_incl; [|apply incl_refl|exact Hev]. intros z Hz. cbn [flat_map]. apply in_or_app. right. exact Hz.
Qed.

Lemma action_mods_evol m tm r c dev recips ab id x' :
  In (id, x') (mods_all (o_bind (action_update m tm r c dev recips ab))) ->
  (exists ib, In ib (ab_inputs ab) /\ skipped r c dev ib = true /\ In (id, x') (ib_mods ib)) \/
  evolved (look_of m) tm (seen_of m) (mods_all ab) (o_log (action_update m tm r c dev recips ab)) id x'.
Proof.
  destruct (A.action_update_facts m tm r c dev recips ab) as (cs' & lg2 & Eb & El & _). cbv zeta in Eb, El.
  rewrite Eb, El. unfold mods_all at 1. cbn [ab_inputs ab_mods]. intros Hin. apply in_app_or in Hin. destruct Hin as [Hin|Hin].
  - apply in_flat_map in Hin. destruct Hin as (ib' & Hib' & Hx).
    destruct (input_loop_evol m tm r c dev (ab_id ab) (ab_inputs ab) _ ib' id x' Hib' Hx) as [H|H]; [left; exact H|].
    right. eapply evolved_incl; [| |exact H]; intros z Hz; [unfold mods_all; apply in_or_app; left; exact Hz | apply in_or_app; left; exact Hz].
  - right. eapply evolved_incl; [| |exact (apply_mods_evol m tm (ab_mods ab) _ id x' Hin)]; intros z Hz.
    + unfold mods_all. apply in_or_app. right. exact Hz.
    + apply in_or_app. right. apply in_or_app. left. exact Hz.
Qed.

(* the ids an instance logs in a frame *)
Lemma bind_evals_log_ids cx recips dev tm r c0 bs : forall m c,
  map log_id (flat_map rec_log (bind_evals cx recips dev tm r m c bs)) = concat (map (action_ids r c0 dev) bs).
Proof.
  induction bs as [|b rr IH]; intros m c; cbn [bind_evals flat_map map concat]; [reflexivity|]. cbv zeta.
  rewrite map_app, IH. f_equal. unfold rec_log. cbn [er_out]. rewrite action_update_ids. reflexivity.
Qed.
Lemma inst_log_ids tm r cu ents i : map log_id (io_log (inst_update tm r cu ents i)) = concat (map (action_ids r cu (in_pad i)) (in_binds i)).
Proof. rewrite inst_update_view. cbn [io_log]. apply bind_evals_log_ids. Qed.
Lemma inst_log_thin tm r cu ents i : JudgeC03P.thin (map log_id (io_log (inst_update tm r cu ents i))) (concat (map idsb (in_binds i))).
Proof. rewrite inst_log_ids. apply JudgeC03P.frame_ids_thin. Qed.

Definition inst_mods (i : inst) : list (Z * modif) := flat_map mods_all (in_binds i).
Lemma inst_mods_ids i id x : In (id, x) (inst_mods i) -> In id (concat (map idsb (in_binds i))).
Proof.
  intros H. apply in_flat_map in H. destruct H as (b & Hb & H). apply (JudgeC03P.in_concat_map idsb _ b id Hb).
  destruct (mods_all_thin b) as [Hi _]. apply Hi. apply in_map_iff. exists (id, x). split; [reflexivity | exact H].
Qed.

Lemma inst_mods_evol tm r cu ents i id x' : inst_ok i -> NoDup (concat (map idsb (in_binds i))) ->
  In (id, x') (inst_mods (io_inst (inst_update tm r cu ents i))) ->
  (In (id, x') (inst_mods i) /\ ~ In id (map log_id (io_log (inst_update tm r cu ents i)))) \/
  exists T, map fst T = map ab_id (in_binds i) /\ evolved (look_of T) tm (seen_of T) (inst_mods i) (io_log (inst_update tm r cu ents i)) id x'.
Proof.
  intros Hiok Hnd Hin. unfold inst_mods in Hin at 1. rewrite inst_update_view in Hin. cbn [io_inst in_binds] in Hin.
  apply in_flat_map in Hin. destruct Hin as (b' & Hb' & Hin). apply in_map_iff in Hb'. destruct Hb' as (er & <- & Her).
  destruct (In_nth_error _ _ Her) as (j & Hj). destruct (ev_tables tm r cu ents i Hiok j er Hj) as (Hbj & Hok & _ & Hdev & _ & _ & Hkeys).
  rewrite Hok in Hin. destruct (action_mods_evol _ _ _ _ _ _ _ _ _ Hin) as [(ib & Hib & Hsk & Hx)|Hev].
  - left. pose proof (nth_error_In _ _ Hbj) as Hb. split.
    + apply in_flat_map. exists (er_bind er). split; [exact Hb|]. unfold mods_all. apply in_or_app. left. apply in_flat_map. exists ib. split; assumption.
    + rewrite inst_log_ids. rewrite Hdev in Hsk.
      apply (JudgeC03P.skipped_ids_absent r cu (in_pad i) (in_binds i) (er_bind er) ib id Hnd Hb Hib Hsk).
      unfold JudgeC03P.ib_ids. apply in_or_app. left. apply in_map_iff. exists (id, x'). split; [reflexivity | exact Hx].
  - right. exists (er_table er). split; [exact Hkeys|]. eapply evolved_incl; [| |exact Hev].
    + intros z Hz. apply in_flat_map. exists (er_bind er). split; [eapply nth_error_In; exact Hbj | exact Hz].
    + intros z Hz. rewrite inst_update_view. cbn [io_log]. apply in_flat_map. exists er. split; [exact Her|]. unfold rec_log. rewrite Hok. exact Hz.
Qed.

(* ================================================================================================ *)
(* 2. the judgement's memory of one AccumulateBy site against the stored accumulator                *)
(* ================================================================================================ *)
Notation site_t := (Z * Z * Z * modif)%type (only parsing).
Definition slot_ok (sc : scenario) (w : world) (xm : site_t * list Q) : Prop :=
  let '((c, e, id, m), prev) := xm in
  exists a acc0 p1 p2 p3, m = MAccumulate a acc0 /\ prev = [p1; p2; p3] /\
    forall e' i x, (e' = e \/ ctx_shared c = true) -> reg_get c e' (w_reg w) = Some i -> In (id, x) (inst_mods i) ->
      exists acc, x = MAccumulate a acc /\ v3eq acc (p1, p2, p3).

Lemma find_mod_app id a b : find_mod id (a ++ b) = match find_mod id a with Some x => Some x | None => find_mod id b end.
Proof.
  induction a as [|x a IH]; cbn [app find_mod]; [reflexivity|]. destruct x as [j ? ? ?|j ? ? ?]; [exact IH|]. destruct (Z.eqb j id); [reflexivity | exact IH].
Qed.
Lemma in_mod_ids id vin vout sx l : In (LMod id vin vout sx) l -> In id (A.mod_ids l).
Proof. intros H. unfold A.mod_ids. apply in_flat_map. exists (LMod id vin vout sx). split; [exact H | left; reflexivity]. Qed.

Lemma spec_mods_ids spec id m : In (id, m) (A.spec_mods spec) -> In (id, m) (inst_mods (instantiate spec)) /\ In id (spec_ids spec).
Proof.
  intros H. assert (H' : In (id, m) (inst_mods (instantiate spec))).
  { apply (Permutation_in _ (Permutation_sym (A.instantiate_perm spec))). exact H. }
  split; [exact H'|]. exact (inst_mods_ids _ _ _ H').
Qed.
Lemma iskel_ids i j : iskel i = iskel j -> concat (map idsb (in_binds i)) = concat (map idsb (in_binds j)).
Proof. unfold iskel. intros [= _ H]. f_equal. apply (JudgeC03P.map_via abskel idsb idsb_skel). exact H. Qed.
Lemma flat_mods_all_skel l l0 : map abskel l = map abskel l0 -> map mskel (flat_map mods_all l) = map mskel (flat_map mods_all l0).
Proof.
  revert l0. induction l as [|b l IH]; intros [|b0 l0] H; cbn [map] in H; try discriminate; [reflexivity|].
  assert (E1 : abskel b = abskel b0) by exact (f_equal (hd (abskel b0)) H).
  assert (E2 : map abskel l = map abskel l0) by exact (f_equal (@tl _) H).
  cbn [flat_map]. rewrite !map_app, (mods_all_skel _ _ E1), (IH _ E2). reflexivity.
Qed.
Lemma inst_mods_nodup i : NoDup (concat (map idsb (in_binds i))) -> NoDup (map fst (inst_mods i)).
Proof.
  unfold inst_mods. induction (in_binds i) as [|b l IH]; intros H; [constructor|]. cbn [map concat flat_map] in *. rewrite map_app.
  apply JudgeC03P.nodup_app in H. destruct H as (H1 & H2 & H3). destruct (mods_all_thin b) as [Hi Hn]. apply JudgeC03P.nodup_app. split; [exact (Hn H1)|].
  split; [exact (IH H2)|]. intros x Hx Hx'. apply (H3 x (Hi x Hx)). apply in_map_iff in Hx'. destruct Hx' as ([id m] & <- & Hm). exact (inst_mods_ids (mkInst None l []) id m Hm).
Qed.
(* a stored modifier has the reference of the configured modifier with the same id *)
Lemma mod_same_ref i spec id x m : iskel i = iskel (instantiate spec) -> NoDup (spec_ids spec) -> In (id, x) (inst_mods i) -> In (id, m) (A.spec_mods spec) ->
  mod_ref x = mod_ref m.
Proof.
  intros Hsk Hnd Hx Hm. destruct (spec_mods_ids spec id m Hm) as [Hm' _]. unfold iskel in Hsk. injection Hsk as _ Hsk.
  pose proof (skel_find mskel mskel_id _ _ id x m (flat_mods_all_skel _ _ Hsk) (inst_mods_nodup (instantiate spec) Hnd) Hx Hm') as E.
  unfold mskel in E. cbn [fst snd] in E. injection E as E. exact E.
Qed.
Lemma mod_ref_acc x a acc0 : mod_ref x = mod_ref (MAccumulate a acc0) -> exists acc, x = MAccumulate a acc.
Proof. destruct x; cbn [mod_ref]; intros H; try discriminate. injection H as ->. eexists; reflexivity. Qed.

(* ---- one frame, at the level of the instance that owns the id ---- *)
Section SlotFrame.
Variables (tm : time) (r : raw) (cu : consumed) (ents : list entity) (i : inst) (LOG PL QL : list logitem) (id a : Z) (acc0 : vec3) (p1 p2 p3 : Q).
Hypotheses (Hiok : inst_ok i) (Hnd : NoDup (concat (map idsb (in_binds i))))
  (Hlog : LOG = PL ++ io_log (inst_update tm r cu ents i) ++ QL)
  (HPQ : forall x, In x (PL ++ QL) -> log_id x <> id)
  (Hold : forall x, In (id, x) (inst_mods i) -> exists acc, x = MAccumulate a acc /\ v3eq acc (p1, p2, p3)).
Let M := io_log (inst_update tm r cu ents i).

Lemma find_mod_LOG : find_mod id LOG = find_mod id M.
Proof.
  rewrite Hlog, find_mod_app, JudgeC03P.find_mod_notin.
  2:{ intros H. apply in_map_iff in H. destruct H as (x & E & Hx). apply (HPQ x); [apply in_or_app; left; exact Hx | exact E]. }
  rewrite find_mod_app. fold M. destruct (find_mod id M); [reflexivity|]. apply JudgeC03P.find_mod_notin.
  intros H. apply in_map_iff in H. destruct H as (x & E & Hx). apply (HPQ x); [apply in_or_app; right; exact Hx | exact E].
Qed.

Lemma slot_frame_none x' : find_mod id LOG = None -> In (id, x') (inst_mods (io_inst (inst_update tm r cu ents i))) ->
  exists acc, x' = MAccumulate a acc /\ v3eq acc (p1, p2, p3).
Proof.
  rewrite find_mod_LOG. intros Hn Hx'. destruct (inst_mods_evol tm r cu ents i id x' Hiok Hnd Hx') as [[Hu _]|(T & _ & vin & x0 & _ & _ & Hin)].
  - exact (Hold x' Hu).
  - exfalso. apply A.find_mod_none in Hn. apply Hn. eapply in_mod_ids. exact Hin.
Qed.

Lemma slot_frame_some vin vout seen dt : find_mod id LOG = Some (vin, vout, seen) ->
  all_true (fst (A.jmod (MAccumulate a acc0) dt [p1; p2; p3] (vin, vout, seen))) /\
  exists q1 q2 q3, snd (A.jmod (MAccumulate a acc0) dt [p1; p2; p3] (vin, vout, seen)) = [q1; q2; q3] /\
    forall x', In (id, x') (inst_mods (io_inst (inst_update tm r cu ents i))) -> exists acc, x' = MAccumulate a acc /\ v3eq acc (q1, q2, q3).
Proof.
  rewrite find_mod_LOG. intros Hf. pose proof (find_mod_in _ _ _ _ _ Hf) as Hitem. fold M in Hitem.
  destruct (inst_log_thin tm r cu ents i) as [_ Hth]. pose proof (Hth Hnd) as HndM. fold M in HndM.
  (* the entry was written by the stored modifier *)
  assert (Hsrc : exists T acc, NoDup (map fst T) /\ v3eq acc (p1, p2, p3) /\ seen = seen_of T /\ vout = snd (accumulate_apply (look_of T) a acc vin)).
  { unfold M in Hitem. rewrite inst_update_view in Hitem. cbn [io_log] in Hitem. apply in_flat_map in Hitem. destruct Hitem as (er & Her & Hx).
    destruct (In_nth_error _ _ Her) as (j & Hj). destruct (ev_tables tm r cu ents i Hiok j er Hj) as (Hbj & Hok & _ & _ & _ & _ & Hkeys).
    pose proof (rec_item_ok tm r er _ Hok Hx) as Hit. cbn [item_ok] in Hit. destruct Hit as (-> & x0 & Hx0 & ->).
    destruct (Hold x0) as (acc & -> & Hacc). { apply in_flat_map. exists (er_bind er). split; [eapply nth_error_In; exact Hbj | exact Hx0]. }
    exists (er_table er), acc. destruct Hiok as [_ Hd]. split; [rewrite Hkeys; exact Hd|]. split; [exact Hacc|]. split; [reflexivity|].
    rewrite JudgeC18P.modif_apply_acc. reflexivity. }
  destruct Hsrc as (T & acc & HdT & Hacc & -> & ->).
  (* what the stored modifiers are afterwards *)
  assert (Hnew : forall x', In (id, x') (inst_mods (io_inst (inst_update tm r cu ents i))) ->
            exists acc', v3eq acc' (p1, p2, p3) /\ x' = MAccumulate a (fst (accumulate_apply (look_of T) a acc' vin))).
  { intros x' Hx'. destruct (inst_mods_evol tm r cu ents i id x' Hiok Hnd Hx') as [[_ Hn]|(T' & HT' & vin' & x0 & Hx0 & -> & Hin)].
    - exfalso. apply Hn. apply in_map_iff. exists (LMod id vin (snd (accumulate_apply (look_of T) a acc vin)) (seen_of T)). split; [reflexivity | exact Hitem].
    - fold M in Hin. pose proof (JudgeC12P.NoDup_map_inj log_id M _ _ HndM Hin Hitem eq_refl) as E. injection E as -> _ Eseen.
      destruct (Hold x0 Hx0) as (acc' & -> & Hacc'). exists acc'. split; [exact Hacc'|]. rewrite JudgeC18P.modif_apply_acc. cbn [fst].
      assert (Elook : look_of T' a = look_of T a).
      { destruct Hiok as [_ Hd]. assert (HdT' : NoDup (map fst T')) by (rewrite HT'; exact Hd).
        pose proof (find_seen_of T' a HdT') as F1. pose proof (find_seen_of T a HdT) as F2. rewrite Eseen, F2 in F1.
        destruct (look_of T a), (look_of T' a); cbn in F1; congruence. }
      unfold accumulate_apply. rewrite Elook. reflexivity. }
  unfold A.jmod. rewrite (find_seen_of T a HdT). destruct (look_of T a) as [rs|] eqn:El; cbn [option_map].
  - destruct (JudgeC18P.acc_step (look_of T) a acc vin rs p1 p2 p3 El Hacc) as (b1 & b2 & b3 & En & _ & Hv).
    rewrite JudgeC18P.ok_acc_present. unfold JudgeC18P.acc_next in En. cbn [fst snd]. split.
    + cbn [ok_acc]. apply all_true_cons; [|apply all_true_nil]. apply veqb_veq. fold (JudgeC18P.acc_next [p1; p2; p3] vin rs). unfold JudgeC18P.acc_next. rewrite En. apply Hv.
    + exists b1, b2, b3. split; [exact En|]. intros x' Hx'. destruct (Hnew x' Hx') as (acc' & Hacc' & ->).
      destruct (JudgeC18P.acc_step (look_of T) a acc' vin rs p1 p2 p3 El Hacc') as (c1 & c2 & c3 & En' & Hn' & _).
      unfold JudgeC18P.acc_next in En'. rewrite En in En'. injection En' as <- <- <-. eexists. split; [reflexivity | exact Hn'].
  - cbn [fst snd]. split.
    + apply all_true_cons; [|apply all_true_nil]. apply veqb_veq. rewrite (accumulate_absent _ _ _ _ El). cbn [snd]. apply veq_refl.
    + exists p1, p2, p3. split; [reflexivity|]. intros x' Hx'. destruct (Hnew x' Hx') as (acc' & Hacc' & ->).
      rewrite (accumulate_absent _ _ _ _ El). cbn [fst]. eexists. split; [reflexivity | exact Hacc'].
Qed.
End SlotFrame.

(* ================================================================================================ *)
(* 3. one frame of the world                                                                        *)
(* ================================================================================================ *)
Lemma shared_entry sc c e spec e' : facts sc -> In (c, e, spec) (s_cfg sc) -> ctx_shared c = true -> In e' (s_ents sc) ->
  in_binds (instantiate spec) <> [] -> exists spec', In (c, e', spec') (s_cfg sc) /\ iskel (instantiate spec') = iskel (instantiate spec).
Proof.
  intros HF Hcfg Hs He' Hne. pose proof (F_shared sc HF c e spec e' Hcfg Hs He') as Hsk. unfold mk_inst in Hsk.
  destruct (cfg_lookup_entry sc c e') as [Hn|Hin]; [|exists (cfg_lookup sc c e'); split; assumption].
  exfalso. rewrite Hn in Hsk. unfold iskel in Hsk. injection Hsk as _ Hsk. cbn in Hsk. destruct (in_binds (instantiate spec)); [congruence | discriminate].
Qed.

Section FrameW.
Variables (sc : scenario) (w : world) (f : frame_in) (fo : frame_out).
Hypotheses (HF : facts sc) (HW : WI sc w) (Hops : f_ops f = []) (Hf : frame sc w f = Some fo).
Variables (c e id : Z) (m : modif) (spec : inst_spec).
Hypotheses (Hcfg : In (c, e, spec) (s_cfg sc)) (Hm : In (id, m) (A.spec_mods spec)).

Lemma reg_inv_after : reg_inv sc (fo_world fo).
Proof. destruct HW as (Hinv & _). destruct (frame_inv sc w f Hinv) as (fo' & E & H). rewrite Hf in E. injection E as <-. exact H. Qed.

Lemma holder_entry e' i' : (e' = e \/ ctx_shared c = true) -> reg_get c e' (w_reg w) = Some i' ->
  exists spec', In (c, e', spec') (s_cfg sc) /\ spec_ids spec' = spec_ids spec.
Proof.
  intros Hok Hg. destruct HW as (Hinv & Hents & _). destruct (ctx_shared c) eqn:Hs.
  - destruct (shared_entry sc c e spec e' HF Hcfg Hs) as (spec' & Hin & Hsk).
    + eapply holds_ents; [exact Hents | eapply mirror_some; eassumption].
    + destruct (spec_mods_ids spec id m Hm) as [H _]. intros E. unfold inst_mods in H. rewrite E in H. destruct H.
    + exists spec'. split; [exact Hin|]. exact (iskel_ids _ _ Hsk).
  - destruct Hok as [->|Hok]; [|discriminate]. exists spec. split; [exact Hcfg | reflexivity].
Qed.

Lemma log_holder x : In x (fo_log fo) -> log_id x = id -> exists e' i', (e' = e \/ ctx_shared c = true) /\ reg_get c e' (w_reg w) = Some i'.
Proof.
  intros Hx Hid. destruct HW as (Hinv & Hents & HK). destruct (frame_noops sc w f fo Hops Hf) as (_ & _ & _ & Hlog & _).
  destruct (reg_update_units (frame_time f) (f_raw f) (w_reg w) (update_state (f_raw f))) as (_ & _ & _ & Hlg). cbv zeta in Hlg.
  unfold frame_reg in Hlog. rewrite Hlg in Hlog. rewrite Hlog in Hx. apply in_flat_map in Hx. destruct Hx as (io & Hio & Hx).
  destruct (uruns_in _ _ _ _ _ Hio) as (u & cu & Hu & ->).
  destruct (inst_log_thin (frame_time f) (f_raw f) cu (uents u) (uinst u)) as [Hincl _].
  assert (Hidu : In id (concat (map idsb (in_binds (uinst u))))) by (apply Hincl; rewrite <- Hid; apply in_map; exact Hx).
  destruct (unit_spec_ids sc w Hinv HK u id Hu Hidu) as (e0 & s' & Hin' & Hid' & Hx').
  destruct (spec_mods_ids spec id m Hm) as [_ Hids].
  destruct (F_disj sc HF c e spec (uctx u) e0 s' id Hcfg Hin' Hids Hid') as (Ec & Hor).
  pose proof Hinv as (_ & Hnd & Hgok & _). pose proof (unit_ents_nonempty _ _ Hgok Hu) as Hne.
  destruct u as [[cu' entsu] iu]. cbn [uctx uents uinst fst snd] in Hu, Hidu, Hin', Hx', Hne, Ec |- *. subst cu'. destruct entsu as [|e' rest]; [congruence|].
  exists e', iu. split; [|exact (unit_reg_get c e' _ _ iu Hnd Hgok Hu (or_introl eq_refl))].
  destruct (ctx_shared c) eqn:Hs; [right; reflexivity|]. destruct Hor as [Hor|Hor]; [discriminate|]. specialize (Hx' eq_refl). injection Hx' as -> _. left. exact Hor.
Qed.

Lemma get_back e'' i'' : reg_get c e'' (w_reg (fo_world fo)) = Some i'' -> exists i0, reg_get c e'' (w_reg w) = Some i0.
Proof.
  intros Hg. pose proof (mirror_some sc _ c e'' i'' reg_inv_after Hg) as Hh.
  destruct (frame_noops sc w f fo Hops Hf) as (Hw & _). rewrite Hw in Hh. cbn [w_holds] in Hh.
  destruct HW as (Hinv & _). destruct (reg_get c e'' (w_reg w)) as [i0|] eqn:E; [exists i0; reflexivity|].
  exfalso. pose proof Hinv as (_ & _ & _ & Hmir & _). apply (proj2 (Hmir c e'')); [exact Hh | exact E].
Qed.

(* the data of one holder of the context *)
Lemma holder_focus e' i' : (e' = e \/ ctx_shared c = true) -> reg_get c e' (w_reg w) = Some i' ->
  exists ents cu PL QL,
    inst_ok i' /\ NoDup (concat (map idsb (in_binds i'))) /\
    fo_log fo = PL ++ io_log (inst_update (frame_time f) (f_raw f) cu ents i') ++ QL /\
    (forall x, In x (PL ++ QL) -> log_id x <> id) /\
    reg_get c e' (w_reg (fo_world fo)) = Some (io_inst (inst_update (frame_time f) (f_raw f) cu ents i')).
Proof.
  intros Hok Hg. destruct (holder_entry e' i' Hok Hg) as (spec' & Hin' & Eids). destruct HW as (Hinv & Hents & HK).
  destruct (focus sc w f fo HF Hinv HK Hops Hf c e' spec' i' Hin' Hg) as (ents & cu & PL & QL & EP & EQ & _ & _ & H3 & H4 & _ & H6 & _ & H8 & _ & H10).
  exists ents, cu, PL, QL. split; [exact H3|]. split; [|split; [|split; [|exact H10]]].
  - replace (concat (map idsb (in_binds i'))) with (spec_ids spec'); [exact (F_nodup sc HF c e' spec' Hin')|].
    unfold spec_ids. f_equal. symmetry. apply (JudgeC03P.map_via abskel idsb idsb_skel). exact H4.
  - rewrite H6, inst_update_view. reflexivity.
  - intros x Hx E. apply (H8 x Hx). rewrite Eids, E. exact (proj2 (spec_mods_ids spec id m Hm)).
Qed.

Lemma slot_frame prev : slot_ok sc w ((c, e, id, m), prev) ->
  all_true (fst (A.jstep_one (frame_out_of sc fo) (SFrame f) ((c, e, id, m), prev))) /\
  slot_ok sc (fo_world fo) ((c, e, id, m), snd (A.jstep_one (frame_out_of sc fo) (SFrame f) ((c, e, id, m), prev))).
Proof.
  intros (a & acc0 & p1 & p2 & p3 & Em & -> & Hall). rewrite Em.
  rewrite A.jstep_frame by (cbn [frame_out_of x_built]; destruct (frame_noops sc w f fo Hops Hf) as (_ & _ & _ & _ & Hb); exact Hb).
  cbn [frame_out_of x_log].
  destruct (find_mod id (fo_log fo)) as [[[vin vout] seen]|] eqn:Ef.
  - pose proof (find_mod_in _ _ _ _ _ Ef) as Hitem.
    destruct (log_holder _ Hitem eq_refl) as (e' & i' & Hok & Hg).
    destruct (holder_focus e' i' Hok Hg) as (ents & cu & PL & QL & Hiok & Hnd & Hlog & HPQ & Hnew).
    destruct (slot_frame_some (frame_time f) (f_raw f) cu ents i' (fo_log fo) PL QL id a acc0 p1 p2 p3 Hiok Hnd Hlog HPQ
                (fun x Hx => Hall e' i' x Hok Hg Hx) vin vout seen (vdelta (frame_time f)) Ef) as (Hchk & q1 & q2 & q3 & Eq & Hq).
    split; [exact Hchk|]. exists a, acc0, q1, q2, q3. split; [reflexivity|]. split; [exact Eq|].
    intros e'' i'' x Hok'' Hg'' Hx. apply Hq.
    assert (Esame : reg_get c e'' (w_reg (fo_world fo)) = reg_get c e' (w_reg (fo_world fo))).
    { destruct (ctx_shared c) eqn:Hs.
      - destruct (inv_shared_common sc _ c reg_inv_after Hs e'' e' (mirror_some sc _ c e'' i'' reg_inv_after Hg'') (mirror_some sc _ c e' _ reg_inv_after Hnew)) as (j & J1 & J2). congruence.
      - destruct Hok as [->|Hok]; [|discriminate]. destruct Hok'' as [->|Hok'']; [reflexivity | discriminate]. }
    rewrite Esame, Hnew in Hg''. injection Hg'' as <-. exact Hx.
  - cbn [fst snd]. split; [apply all_true_nil|]. exists a, acc0, p1, p2, p3. split; [reflexivity|]. split; [reflexivity|].
    intros e'' i'' x Hok'' Hg'' Hx. destruct (get_back e'' i'' Hg'') as (i0 & Hg0).
    destruct (holder_focus e'' i0 Hok'' Hg0) as (ents & cu & PL & QL & Hiok & Hnd & Hlog & HPQ & Hnew).
    rewrite Hnew in Hg''. injection Hg'' as <-.
    exact (slot_frame_none (frame_time f) (f_raw f) cu ents i0 (fo_log fo) PL QL id a p1 p2 p3 Hiok Hnd Hlog HPQ
             (fun x0 Hx0 => Hall e'' i0 x0 Hok'' Hg0 Hx0) x Ef Hx).
Qed.
End FrameW.

(* ================================================================================================ *)
(* 4. one operation between frames                                                                  *)
(* ================================================================================================ *)
Lemma built_in_iff c e o : A.built_in c e o = true <-> touched (x_built o) c e.
Proof.
  unfold A.built_in, touched. rewrite existsb_exists. destruct (ctx_shared c); split.
  - intros ([c' e'] & Hin & Hb). cbn [fst snd] in Hb. apply andb_true_iff in Hb. destruct Hb as [Hb _]. apply Z.eqb_eq in Hb. subst c'. exists e'. exact Hin.
  - intros (e0 & Hin). exists (c, e0). split; [exact Hin|]. cbn [fst snd]. rewrite Z.eqb_refl, orb_true_r. reflexivity.
  - intros ([c' e'] & Hin & Hb). cbn [fst snd] in Hb. apply andb_true_iff in Hb. destruct Hb as [Hb1 Hb2]. rewrite orb_false_r in Hb2.
    apply Z.eqb_eq in Hb1. apply Z.eqb_eq in Hb2. subst. exact Hin.
  - intros Hin. exists (c, e). split; [exact Hin|]. cbn [fst snd]. rewrite !Z.eqb_refl. reflexivity.
Qed.

Lemma op_get sc w o oo c e' i' : reg_inv sc w -> apply_op sc w o = Some oo -> reg_get c e' (w_reg (oo_world oo)) = Some i' ->
  (touched (oo_built oo) c e' /\ exists e0, RegistryP.holds (w_holds (oo_world oo)) c e0 /\ i' = mk_inst sc c e0 /\ (ctx_shared c = false -> e0 = e')) \/
  (~ touched (oo_built oo) c e' /\ exists e'', (e'' = e' \/ ctx_shared c = true) /\ reg_get c e'' (w_reg w) = Some i').
Proof.
  intros Hinv Hop Hg. destruct (apply_op_inv sc w o Hinv) as (r0 & Hr0 & Hinv'). rewrite Hop in Hr0. injection Hr0 as <-.
  pose proof (mirror_some sc (oo_world oo) c e' i' Hinv' Hg) as Hh'.
  destruct (apply_op_cases sc w o oo Hinv Hop) as [G|[[S Eb]|R]].
  - destruct G as [G1 G2 G3 G4 G5 G6]. destruct (holds_dec w c e') as [Hh|Hh].
    + right. split; [|exists e'; split; [left; reflexivity | rewrite <- (G2 c e' Hh); exact Hg]].
      unfold touched. destruct (ctx_shared c) eqn:Hs.
      * intros Hb. apply (G4 c Hs) in Hb. destruct Hb as [_ Hb]. apply Hb. exists e'. exact Hh.
      * intros Hb. apply (G3 c e' Hs) in Hb. tauto.
    + destruct (ctx_shared c) eqn:Hs.
      * destruct (someone_dec sc w c Hinv) as [(e1 & H1)|Hno].
        -- right. split; [unfold touched; rewrite Hs; intros Hb; apply (G4 c Hs) in Hb; destruct Hb as [_ Hb]; apply Hb; exists e1; exact H1|].
           destruct (inv_shared_common sc (oo_world oo) c Hinv' Hs e' e1 Hh' (G1 c e1 H1)) as (j & Hj1 & Hj2).
           rewrite Hg in Hj1. injection Hj1 as <-. rewrite (G2 c e1 H1) in Hj2. exists e1. split; [right; reflexivity | exact Hj2].
        -- assert (Hb : exists e0, In (c, e0) (oo_built oo)) by (apply (G4 c Hs); split; [exists e'; exact Hh' | exact Hno]).
           left. split; [unfold touched; rewrite Hs; exact Hb|]. destruct (G6 c Hs Hb) as (e0 & Hh0 & Hall). rewrite (Hall e' Hh') in Hg. injection Hg as <-.
           exists e0. repeat split; [exact Hh0 | discriminate].
      * assert (Hb : In (c, e') (oo_built oo)) by (apply (G3 c e' Hs); split; assumption).
        left. split; [unfold touched; rewrite Hs; exact Hb|]. rewrite (G5 c e' Hs Hb) in Hg. injection Hg as <-. exists e'. repeat split. exact Hh'.
  - destruct S as [S1 S2]. right. split; [rewrite Eb; unfold touched; destruct (ctx_shared c); [intros (e0 & []) | intros []]|].
    exists e'. split; [left; reflexivity | rewrite <- (S2 c e' Hh'); exact Hg].
  - destruct R as [R1 R2 R3 R4 R5 R6 R7]. destruct (in_dec Z.eq_dec c (s_menu sc)) as [Hin|Hnin].
    + pose proof (proj1 (R1 c e') Hh') as Hh. left. destruct (ctx_shared c) eqn:Hs.
      * pose proof (R4 c Hs Hin (ex_intro _ e' Hh)) as Hb. split; [unfold touched; rewrite Hs; exact Hb|].
        destruct (R7 c Hs Hb) as (e0 & Hh0 & Hall). rewrite (Hall e' Hh') in Hg. injection Hg as <-. exists e0. repeat split; [exact Hh0 | discriminate].
      * pose proof (R3 c e' Hs Hin Hh) as Hb. split; [unfold touched; rewrite Hs; exact Hb|].
        rewrite (R6 c e' Hs Hb) in Hg. injection Hg as <-. exists e'. repeat split. exact Hh'.
    + right. split; [|exists e'; split; [left; reflexivity | rewrite <- (R5 c e' Hnin); exact Hg]].
      unfold touched. destruct (ctx_shared c); [intros (e0 & Hb) | intros Hb]; apply R2 in Hb; tauto.
Qed.

Definition acc_zero (sc : scenario) : Prop := forall c e id a acc, In (c, e, id, MAccumulate a acc) (all_mods sc) -> v3eq acc v3zero.

Lemma slot_op sc w op oo o c e id m prev : facts sc -> acc_zero sc -> reg_inv sc w -> ents_inv sc (oo_world oo) -> apply_op sc w op = Some oo ->
  x_built o = oo_built oo -> In (c, e, id, m) (all_mods sc) -> slot_ok sc w ((c, e, id, m), prev) ->
  slot_ok sc (oo_world oo) ((c, e, id, m), if A.built_in c e o then [0; 0; 0]%Q else prev).
Proof.
  intros HF Hz Hinv Hents Hop Hb Hsite (a & acc0 & p1 & p2 & p3 & -> & -> & Hall).
  apply A.in_all_mods in Hsite. destruct Hsite as (spec & Hcfg & Hm).
  assert (Htouch : forall e', (e' = e \/ ctx_shared c = true) -> (touched (oo_built oo) c e' <-> touched (oo_built oo) c e)).
  { intros e' [->|Hs]; [tauto|]. unfold touched. rewrite Hs. tauto. }
  destruct (A.built_in c e o) eqn:Eb.
  - apply built_in_iff in Eb. rewrite Hb in Eb. exists a, acc0, 0%Q, 0%Q, 0%Q. split; [reflexivity|]. split; [reflexivity|].
    intros e' i' x Hok Hg Hx. destruct (op_get sc w op oo c e' i' Hinv Hop Hg) as [(_ & e0 & Hh0 & -> & He0)|(Hnt & _)]; [|exfalso; apply Hnt, (Htouch e' Hok), Eb].
    assert (Hsk : iskel (mk_inst sc c e0) = iskel (instantiate spec)).
    { destruct (ctx_shared c) eqn:Hs; [apply (F_shared sc HF c e spec e0 Hcfg Hs); eapply holds_ents; eassumption|].
      destruct Hok as [->|Hok]; [|discriminate]. rewrite (He0 eq_refl). unfold mk_inst. rewrite (F_lookup sc HF c e spec Hcfg). reflexivity. }
    pose proof (mod_same_ref _ spec id x _ Hsk (F_nodup sc HF c e spec Hcfg) Hx Hm) as Href. destruct (mod_ref_acc _ _ _ Href) as (acc & ->).
    exists acc. split; [reflexivity|]. unfold mk_inst in Hx.
    assert (Hx' : In (id, MAccumulate a acc) (A.spec_mods (cfg_lookup sc c e0))) by (apply (Permutation_in _ (A.instantiate_perm _)); exact Hx).
    destruct (cfg_lookup_entry sc c e0) as [Hn|Hin]; [rewrite Hn in Hx'; destruct Hx'|].
    apply (Hz c e0 id a acc). apply A.in_all_mods. exists (cfg_lookup sc c e0). split; assumption.
  - exists a, acc0, p1, p2, p3. split; [reflexivity|]. split; [reflexivity|]. intros e' i' x Hok Hg Hx.
    destruct (op_get sc w op oo c e' i' Hinv Hop Hg) as [(Ht & _)|(_ & e'' & Hok'' & Hg'')].
    + exfalso. apply (Htouch e' Hok) in Ht. rewrite <- Hb in Ht. apply built_in_iff in Ht. congruence.
    + apply (Hall e'' i' x); [|exact Hg'' | exact Hx]. destruct Hok'' as [->|Hs]; [exact Hok | right; exact Hs].
Qed.

(* ================================================================================================ *)
(* 5. all steps: the AccumulateBy law                                                               *)
(* ================================================================================================ *)
Definition is_acc (x : site_t) : bool := match snd x with MAccumulate _ _ => true | _ => false end.
Definition acc_sites (sc : scenario) : list site_t := filter is_acc (all_mods sc).

Lemma Forall_combine_next {A B} (R R' : A * B -> Prop) (g : A * B -> B) (l : list A) (m : list B) :
  (forall xm, In xm (combine l m) -> R xm -> R' (fst xm, g xm)) -> Forall R (combine l m) -> Forall R' (combine l (map g (combine l m))).
Proof.
  intros H HF. rewrite A.combine_next. apply Forall_forall. intros y Hy. apply in_map_iff in Hy. destruct Hy as (xm & <- & Hxm).
  rewrite Forall_forall in HF. apply H; [exact Hxm | apply HF; exact Hxm].
Qed.

Lemma acc_steps_sound sc : facts sc -> acc_zero sc -> forall steps w mem, WI sc w ->
  Forall (slot_ok sc w) (combine (acc_sites sc) mem) -> length mem = length (acc_sites sc) -> forallb (step_fine sc) steps = true ->
  all_true (judge_steps_a (acc_sites sc) mem steps (run_steps sc w steps)).
Proof.
  intros HF Hz. induction steps as [|st steps IH]; intros w mem HW Hslots Hlen Hfine; [intros k b []|].
  cbn [forallb] in Hfine. apply andb_true_iff in Hfine. destruct Hfine as [Hst Hfine]. unfold step_fine in Hst. apply andb_true_iff in Hst. destruct Hst as [Hokb Hst].
  pose proof HW as (Hinv & Hents & HK). rewrite run_steps_cons.
  destruct (step_res_inv sc w st Hinv) as (w' & o & Hs & Hinv' & Hshow). rewrite Hs.
  pose proof (step_res_ents sc w st w' o Hokb Hs Hents) as Hents'.
  rewrite A.judge_steps_a_cons.
  assert (Hsite : forall xm, In xm (combine (acc_sites sc) mem) -> In (fst xm) (all_mods sc)).
  { intros [x prev] Hin. apply in_combine_l in Hin. unfold acc_sites in Hin. apply filter_In in Hin. exact (proj1 Hin). }
  assert (Hstep : all_true (concat (map fst (map (A.jstep_one o st) (combine (acc_sites sc) mem)))) /\
                  WI sc w' /\ Forall (slot_ok sc w') (combine (acc_sites sc) (map snd (map (A.jstep_one o st) (combine (acc_sites sc) mem))))).
  { destruct st as [op|f]; cbn [step_res] in Hs.
    - destruct (apply_op sc w op) as [oo|] eqn:Eo; [|discriminate]. injection Hs as <- <-. split; [|split].
      + rewrite map_map. apply all_true_concat_map. intros [[[[c e] id] m] prev] _. rewrite A.jstep_op. apply all_true_nil.
      + exact (conj Hinv' (conj Hents' (KInv_op sc w op oo Hinv Hents' Eo HK))).
      + rewrite map_map. apply (Forall_combine_next (slot_ok sc w)); [|exact Hslots].
        intros [[[[c e] id] m] prev] Hin Hok. rewrite A.jstep_op. cbn [fst snd].
        eapply (slot_op sc w op oo _ c e id m prev HF Hz Hinv Hents' Eo); [reflexivity | exact (Hsite _ Hin) | exact Hok].
    - destruct (frame sc w f) as [fo|] eqn:Ef; [|discriminate]. injection Hs as <- <-.
      assert (Hops : f_ops f = []) by (destruct (f_ops f); [reflexivity | discriminate]).
      assert (Hone : forall xm, In xm (combine (acc_sites sc) mem) -> slot_ok sc w xm ->
                all_true (fst (A.jstep_one (frame_out_of sc fo) (SFrame f) xm)) /\ slot_ok sc (fo_world fo) (fst xm, snd (A.jstep_one (frame_out_of sc fo) (SFrame f) xm))).
      { intros [[[[c e] id] m] prev] Hin Hok. pose proof (Hsite _ Hin) as Hs. cbn [fst] in Hs. apply A.in_all_mods in Hs. destruct Hs as (spec & Hcfg & Hm).
        exact (slot_frame sc w f fo HF HW Hops Ef c e id m spec Hcfg Hm prev Hok). }
      split; [|split].
      + rewrite map_map. apply all_true_concat_map. intros xm Hin. rewrite Forall_forall in Hslots. exact (proj1 (Hone xm Hin (Hslots xm Hin))).
      + exact (conj Hinv' (conj Hents' (KInv_frame sc w f fo Hinv Hops Ef HK))).
      + rewrite map_map. apply (Forall_combine_next (slot_ok sc w)); [|exact Hslots]. intros xm Hin Hok. exact (proj2 (Hone xm Hin Hok)). }
  destruct Hstep as (H1 & HW' & H3). apply all_true_cons.
  - destruct Hshow as (_ & _ & ->). reflexivity.
  - apply all_true_app; [exact H1|]. apply (IH w' _ HW' H3); [|exact Hfine]. rewrite map_map. apply A.next_length. exact Hlen.
Qed.

(* ================================================================================================ *)
(* 6. all steps: no stateful modifier misses a frame                                                *)
(* ================================================================================================ *)
Lemma missed_frame sc w f fo before c e id m site dev : facts sc -> WI sc w -> BR sc w before -> f_ops f = [] -> frame sc w f = Some fo ->
  In (c, e, id, m, site, dev) (mod_sites sc) -> present_in c e before = true ->
  match site with None => true | Some i => negb (phys_on (f_raw f) dev i) end = true -> find_mod id (fo_log fo) <> None.
Proof.
  intros HF HW HB Hops Hf Hsite Hpres Hphys.
  destruct (A.in_mod_sites sc c e id m site dev Hsite) as (spec & a & Hcfg & Ha & -> & Hcase).
  destruct (frame_pair sc w f fo before c e spec HF HW HB Hops Hf Hcfg Hpres) as (i & ents & cu & PL & QL & EP & EQ & _ & _ & _ & _ & Hsk & Hpad & Hlog & _).
  destruct (A.instantiate_covers spec a Ha) as (ab & Hab & Hmods & Hinputs).
  destruct (In_nth_error _ _ Hab) as (j & Hj).
  destruct (map_nth_eq abskel abskel (merged_actions spec) (in_binds i) j ab (eq_sym Hsk) Hj) as (bj & Hbj & Esk).
  pose proof (nth_error_In _ _ Hbj) as Hbin. destruct (skel_inv _ _ Esk) as (_ & Emods & _ & Einputs).
  assert (Hgoal : In id (A.mod_ids (io_log (inst_update (frame_time f) (f_raw f) cu ents i)))).
  { rewrite A.inst_update_mod_ids. destruct Hcase as [(-> & Hin)|(b & Hb & -> & Hin)].
    - apply (A.units_logged _ (ids_of (ab_mods bj), true) id (A.ab_unit_in (f_raw f) i bj Hbin) eq_refl). cbn [fst].
      rewrite ids_of_mskel, <- Emods, <- ids_of_mskel. apply in_map_iff. exists (id, m). split; [reflexivity | apply Hmods; exact Hin].
    - assert (Hib0 : In (ibind_of b) (ab_inputs ab)) by (apply Hinputs; apply in_map; exact Hb).
      apply (in_map ibskel) in Hib0. rewrite Einputs in Hib0. apply in_map_iff in Hib0. destruct Hib0 as (ib & Eib & Hib).
      unfold ibskel in Eib. injection Eib as Einp Emd _. apply enc_input_inj in Einp. cbn [ibind_of ib_input ib_mods] in Einp, Emd.
      apply (A.units_logged _ (A.ib_unit (f_raw f) (in_pad i) ib) id (A.ib_unit_in (f_raw f) i bj ib Hbin Hib)).
      + unfold A.ib_unit. cbn [snd]. unfold skipped. rewrite Einp, Hpad. rewrite A.phys_on_eq in Hphys. apply negb_true_iff in Hphys. rewrite Hphys, andb_false_r. reflexivity.
      + unfold A.ib_unit. cbn [fst]. rewrite ids_of_mskel, Emd, <- ids_of_mskel. apply in_map_iff. exists (id, m). split; [reflexivity | exact Hin]. }
  intros Hn. apply A.find_mod_none in Hn. apply Hn. rewrite Hlog, !A.mod_ids_app. apply in_or_app. right. apply in_or_app. left.
  rewrite inst_update_view in Hgoal. exact Hgoal.
Qed.

Lemma missed_steps_sound sc : facts sc -> forall steps w before, WI sc w -> BR sc w before -> forallb (step_fine sc) steps = true ->
  all_true (judge_missed (mod_sites sc) before steps (run_steps sc w steps)).
Proof.
  intros HF. induction steps as [|st steps IH]; intros w before HW HB Hfine; [intros k b []|].
  cbn [forallb] in Hfine. apply andb_true_iff in Hfine. destruct Hfine as [Hst Hfine]. unfold step_fine in Hst. apply andb_true_iff in Hst. destruct Hst as [Hokb Hst].
  pose proof HW as (Hinv & Hents & HK). rewrite run_steps_cons.
  destruct (step_res_inv sc w st Hinv) as (w' & o & Hs & Hinv' & Hshow). rewrite Hs.
  pose proof (step_res_ents sc w st w' o Hokb Hs Hents) as Hents'.
  destruct st as [op|f]; cbn [step_res] in Hs.
  - destruct (apply_op sc w op) as [oo|] eqn:Eo; [|discriminate]. injection Hs as <- <-. rewrite A.judge_missed_op.
    apply (IH _ _ (conj Hinv' (conj Hents' (KInv_op sc w op oo Hinv Hents' Eo HK))) (shows_BR sc _ _ Hshow) Hfine).
  - destruct (frame sc w f) as [fo|] eqn:Ef; [|discriminate]. injection Hs as <- <-.
    assert (Hops : f_ops f = []) by (destruct (f_ops f); [reflexivity | discriminate]).
    rewrite A.judge_missed_frame. apply all_true_app.
    + intros k b Hin. apply in_map_iff in Hin. destruct Hin as ([[[[[c e] id] m] site] dev] & [= <- <-] & Hsite).
      apply negb_true_iff. apply not_true_is_false. intros Hall.
      apply andb_true_iff in Hall. destruct Hall as [Hall H5]. apply andb_true_iff in Hall. destruct Hall as [Hall H4].
      apply andb_true_iff in Hall. destruct Hall as [Hall _]. apply andb_true_iff in Hall. destruct Hall as [_ H2].
      pose proof (missed_frame sc w f fo before c e id m site dev HF HW HB Hops Ef Hsite H2 H4) as Hne. cbn [x_log] in H5.
      destruct (find_mod id (fo_log fo)); [discriminate | congruence].
    + apply (IH _ _ (conj Hinv' (conj Hents' (KInv_frame sc w f fo Hinv Hops Ef HK))) (shows_BR sc _ _ Hshow) Hfine).
Qed.

(* ================================================================================================ *)
(* 7. the full profile and the soundness theorem                                                    *)
(* ================================================================================================ *)
(* configured AccumulateBy modifiers start from a zero sum *)
Definition p_acc0 (sc : scenario) : bool :=
  forallb (fun x : site_t => match snd x with MAccumulate _ acc => A.v3zerob acc | _ => true end) (all_mods sc).
Definition profile_C13b (sc : scenario) : bool := JudgeC13P.profile_C13b sc && p_acc0 sc.
Definition profile_C13 (sc : scenario) : Prop := profile_C13b sc = true.

Lemma p_acc0_spec sc : p_acc0 sc = true -> acc_zero sc.
Proof.
  unfold p_acc0. intros H c e id a acc Hin. rewrite forallb_forall in H. specialize (H _ Hin). cbn [snd] in H. apply A.v3zerob_spec. exact H.
Qed.

Theorem C13_app_clause6_sound : forall sc, profile_C13 sc ->
  accumulate_ok sc (run sc) = true /\ first_fail (judge_missed (mod_sites sc) empty_out (s_steps sc) (run sc)) = 0.
Proof.
  intros sc Hp. unfold profile_C13, profile_C13b in Hp. apply andb_true_iff in Hp. destruct Hp as [Hp Hz].
  destruct (profile_facts sc Hp) as [HF Hst]. apply p_acc0_spec in Hz. split.
  - unfold accumulate_ok. apply Z.eqb_eq. apply all_true_first_fail.
    apply (acc_steps_sound sc HF Hz (s_steps sc) world_init _ (WI_init sc)); [|apply map_length|exact Hst].
    fold (acc_sites sc). change (filter _ (all_mods sc)) with (acc_sites sc).
    rewrite JudgeC03P.combine_map. apply Forall_forall. intros xm Hin. apply in_map_iff in Hin. destruct Hin as ([[[c e] id] m] & <- & Hx).
    unfold acc_sites in Hx. apply filter_In in Hx. destruct Hx as [_ Hacc]. unfold is_acc in Hacc. cbn [snd] in Hacc. destruct m; try discriminate.
    exists a, acc, 0%Q, 0%Q, 0%Q. split; [reflexivity|]. split; [reflexivity|]. intros e' i x _ Hg. discriminate Hg.
  - apply all_true_first_fail. exact (missed_steps_sound sc HF (s_steps sc) world_init out0 (WI_init sc) (BR_init sc) Hst).
Qed.

Theorem C13_app_judgement_sound : forall sc, profile_C13 sc -> C13c.ok (sc, trace (run sc)) = 0.
Proof.
  intros sc Hp. destruct (C13_app_clause6_sound sc Hp) as [H1 H2].
  unfold profile_C13, profile_C13b in Hp. apply andb_true_iff in Hp. destruct Hp as [Hp _].
  rewrite (C13_app_judgement_sound_upto6 sc Hp), H1, H2. reflexivity.
Qed.

Example C13_app_judgement_sound_satisfiable : profile_C13b (ex_sc []) = true /\ C13c.ok (ex_sc [], trace (run (ex_sc []))) = 0.
Proof. vm_compute. split; reflexivity. Qed.

(* a configured AccumulateBy that does not start from zero is rejected on the model's own run *)
Definition sc_acc1 : scenario := mkScenario [0] [0]
  [((0, 0), mkSpec None [mkAction 4 [] [(1, c_script KExplicit [SFired; SFired; SFired; SFired])] [mkBind (IKey 0 0) [] []];
                         mkAction 20 [(5, MAccumulate 4 (1, 0, 0)%Q)] [(4, c_script KExplicit [SFired; SFired; SFired; SFired])] [mkBind (IKey 1 0) [] []]])]
  [SOp (OSpawn 0 [0]); ex_fr [] []; ex_fr [0; 1] []; ex_fr [0; 1] []].
Example C13_app_judgement_sound_needs_p_acc0 :
  JudgeC13P.profile_C13b sc_acc1 = true /\ p_acc0 sc_acc1 = false /\ C13c.ok (sc_acc1, trace (run sc_acc1)) = 6.
Proof. vm_compute. repeat split. Qed.

Print Assumptions C13_app_clause6_sound.
Print Assumptions C13_app_judgement_sound.
