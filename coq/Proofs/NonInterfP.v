(* C17: non-interference.  What the evaluation of a list of groups computes depends on the raw input and on
   the consumed set only through the reads of the bindings in those groups; what it adds to the consumed
   set is a list of its own reads. *)
From BEI Require Import Model.Frame Spec.ReadSpec Proofs.ReaderP Proofs.ActionP Proofs.ConsumeP Proofs.RegistryP.
Open Scope Z_scope.

(* a read: the gamepad setting of the reading instance and the bound input *)
Definition read : Type := (device * input)%type.

(* ================================================================================================ *)
(* 1. (raw input, consumed set) pairs that the reads of J cannot tell apart                          *)
(* ================================================================================================ *)
Definition sees (r1 r2 : raw) (J : list read) (c1 c2 : consumed) : Prop :=
  forall d j, In (d, j) J -> reader_value r1 c1 d j = reader_value r2 c2 d j.
(* same raw input: equivalence of consumed sets on J *)
Definition cequiv (r : raw) (J : list read) (c1 c2 : consumed) : Prop := sees r r J c1 c2.

Lemma sees_refl r J c : sees r r J c c.
Proof. intros d j _. reflexivity. Qed.
Lemma sees_sym r1 r2 J c1 c2 : sees r1 r2 J c1 c2 -> sees r2 r1 J c2 c1.
Proof. intros H d j Hj. symmetry. apply H. exact Hj. Qed.
Lemma sees_trans r1 r2 r3 J c1 c2 c3 : sees r1 r2 J c1 c2 -> sees r2 r3 J c2 c3 -> sees r1 r3 J c1 c3.
Proof. intros H1 H2 d j Hj. rewrite (H1 d j Hj). apply H2. exact Hj. Qed.
Lemma sees_incl r1 r2 J J' c1 c2 : incl J' J -> sees r1 r2 J c1 c2 -> sees r1 r2 J' c1 c2.
Proof. intros Hi H d j Hj. apply H, Hi, Hj. Qed.
Lemma sees_app r1 r2 J1 J2 c1 c2 : sees r1 r2 (J1 ++ J2) c1 c2 <-> sees r1 r2 J1 c1 c2 /\ sees r1 r2 J2 c1 c2.
Proof.
  split.
  - intros H. split; intros d j Hj; apply H, in_or_app; [left|right]; exact Hj.
  - intros [H1 H2] d j Hj. apply in_app_or in Hj. destruct Hj as [Hj|Hj]; [apply H1|apply H2]; exact Hj.
Qed.

Lemma cequiv_refl r J c : cequiv r J c c.
Proof. apply sees_refl. Qed.
Lemma cequiv_sym r J c1 c2 : cequiv r J c1 c2 -> cequiv r J c2 c1.
Proof. apply sees_sym. Qed.
Lemma cequiv_trans r J c1 c2 c3 : cequiv r J c1 c2 -> cequiv r J c2 c3 -> cequiv r J c1 c3.
Proof. apply sees_trans. Qed.

(* consuming the same input on both sides keeps every read of J indistinguishable: a related read is
   zero on both sides (consume_hides), an unrelated one is untouched on both sides (consume_frame) *)
Lemma sees_consume r1 r2 J c1 c2 d i : sees r1 r2 J c1 c2 -> sees r1 r2 J (consume c1 d i) (consume c2 d i).
Proof.
  intros H dj j Hj. destruct (related d dj i j) eqn:E.
  - rewrite !consume_hides by exact E. reflexivity.
  - rewrite !consume_frame by exact E. apply H. exact Hj.
Qed.
Lemma cequiv_consume r J c1 c2 d i : cequiv r J c1 c2 -> cequiv r J (consume c1 d i) (consume c2 d i).
Proof. apply sees_consume. Qed.

(* consuming a list of reads *)
Definition consume_list (l : list read) (c : consumed) : consumed :=
  fold_left (fun acc p => consume acc (fst p) (snd p)) l c.
Lemma consume_list_app l1 l2 c : consume_list (l1 ++ l2) c = consume_list l2 (consume_list l1 c).
Proof. unfold consume_list. apply fold_left_app. Qed.
Lemma consume_list_map dev buf : forall c,
  fold_left (fun acc i => consume acc dev i) buf c = consume_list (map (pair dev) buf) c.
Proof. induction buf as [|i buf IH]; intros c; [reflexivity|]. cbn [map fold_left consume_list fst snd]. apply IH. Qed.
Lemma sees_consume_list r1 r2 J l : forall c1 c2,
  sees r1 r2 J c1 c2 -> sees r1 r2 J (consume_list l c1) (consume_list l c2).
Proof.
  induction l as [|[d i] l IH]; intros c1 c2 H; [exact H|].
  cbn [consume_list fold_left fst snd]. apply IH. apply sees_consume. exact H.
Qed.

(* [related] is symmetric, so "disjoint" needs one direction only *)
Lemma device_eqb_sym a b : device_eqb a b = device_eqb b a.
Proof. destruct a, b; cbn [device_eqb]; try reflexivity. apply Z.eqb_sym. Qed.
Lemma related_sym di dj i j : related di dj i j = related dj di j i.
Proof.
  unfold related. f_equal.
  - rewrite (Z.land_comm (mods_of j) (mods_of i)).
    destruct i, j; cbn [takes_mods mods_of andb]; try reflexivity; rewrite ?Z.land_0_r, ?Z.land_0_l; reflexivity.
  - destruct i, j; try reflexivity; try apply Z.eqb_sym; rewrite (Z.eqb_sym b0 b) || rewrite (Z.eqb_sym a0 a);
      rewrite (device_eqb_sym di dj); reflexivity.
Qed.

(* no read of D, once consumed, can change a read of R *)
Definition disjoint_reads (D R : list read) : Prop :=
  forall di i dj j, In (di, i) D -> In (dj, j) R -> related di dj i j = false.
Lemma disjoint_reads_sym D R : disjoint_reads D R -> disjoint_reads R D.
Proof. intros H di i dj j Hi Hj. rewrite related_sym. apply H; assumption. Qed.
Lemma disjoint_reads_incl D D' R R' : incl D' D -> incl R' R -> disjoint_reads D R -> disjoint_reads D' R'.
Proof. intros HD HR H di i dj j Hi Hj. apply H; [apply HD|apply HR]; assumption. Qed.
Lemma disjoint_reads_app_r D R1 R2 : disjoint_reads D (R1 ++ R2) <-> disjoint_reads D R1 /\ disjoint_reads D R2.
Proof.
  split.
  - intros H. split; intros di i dj j Hi Hj; apply H; try assumption; apply in_or_app; [left|right]; exact Hj.
  - intros [H1 H2] di i dj j Hi Hj. apply in_app_or in Hj. destruct Hj as [Hj|Hj]; [apply H1|apply H2]; assumption.
Qed.

(* consuming reads disjoint from J is invisible to J *)
Lemma consume_list_frame r J l : forall c, disjoint_reads l J -> cequiv r J (consume_list l c) c.
Proof.
  induction l as [|[d i] l IH]; intros c H; [apply sees_refl|].
  cbn [consume_list fold_left fst snd].
  apply sees_trans with (r2 := r) (c2 := consume c d i).
  - apply IH. intros di i' dj j Hi Hj. apply H; [right; exact Hi | exact Hj].
  - intros dj j Hj. apply consume_frame. apply H; [left; reflexivity | exact Hj].
Qed.

(* ================================================================================================ *)
(* 2. the reads of a binding, an instance, a group, a registry                                      *)
(* ================================================================================================ *)
Definition reads_of_abind (dev : device) (ab : abind) : list read := map (pair dev) (map ib_input (ab_inputs ab)).
Definition reads_of_binds (dev : device) (bs : list abind) : list read := flat_map (reads_of_abind dev) bs.
Definition reads_of_inst (i : inst) : list read := reads_of_binds (in_pad i) (in_binds i).
Definition reads_of_group (g : group) : list read :=
  match g with
  | GExcl _ _ insts => flat_map (fun ei => reads_of_inst (snd ei)) insts
  | GShared _ _ _ i => reads_of_inst i
  end.
Definition reads_of_reg (gs : registry) : list read := flat_map reads_of_group gs.

Lemma reads_of_abind_alt dev ab : reads_of_abind dev ab = map (fun ib => (dev, ib_input ib)) (ab_inputs ab).
Proof. unfold reads_of_abind. apply map_map. Qed.
Lemma reads_of_reg_app gs1 gs2 : reads_of_reg (gs1 ++ gs2) = reads_of_reg gs1 ++ reads_of_reg gs2.
Proof. unfold reads_of_reg. apply flat_map_app. Qed.

Lemma incl_app_left {A} (l1 l2 J : list A) : incl (l1 ++ l2) J -> incl l1 J.
Proof. intros H x Hx. apply H, in_or_app. left. exact Hx. Qed.
Lemma incl_app_right {A} (l1 l2 J : list A) : incl (l1 ++ l2) J -> incl l2 J.
Proof. intros H x Hx. apply H, in_or_app. right. exact Hx. Qed.
Lemma incl_app_both {A} (l1 l2 J1 J2 : list A) : incl l1 J1 -> incl l2 J2 -> incl (l1 ++ l2) (J1 ++ J2).
Proof.
  intros H1 H2 x Hx. apply in_app_or in Hx. apply in_or_app. destruct Hx as [Hx|Hx]; [left; apply H1|right; apply H2]; exact Hx.
Qed.

(* ================================================================================================ *)
(* 3. one evaluation cannot tell apart what its reads cannot tell apart                             *)
(* ================================================================================================ *)
Lemma input_step_sees m tm r1 r2 c1 c2 dev a st b :
  reader_value r1 c1 dev (ib_input b) = reader_value r2 c2 dev (ib_input b) ->
  reader_value r1 consumed_reset dev (ib_input b) = reader_value r2 consumed_reset dev (ib_input b) ->
  input_step m tm r1 c1 dev a st b = input_step m tm r2 c2 dev a st b.
Proof. intros H1 H2. unfold input_step. rewrite H1, H2. reflexivity. Qed.

Lemma input_loop_sees m tm r1 r2 c1 c2 dev a bs : forall st,
  (forall b, In b bs -> reader_value r1 c1 dev (ib_input b) = reader_value r2 c2 dev (ib_input b)) ->
  (forall b, In b bs -> reader_value r1 consumed_reset dev (ib_input b) = reader_value r2 consumed_reset dev (ib_input b)) ->
  input_loop m tm r1 c1 dev a st bs = input_loop m tm r2 c2 dev a st bs.
Proof.
  induction bs as [|b rest IH]; intros st H1 H2; [reflexivity|]. cbn [input_loop].
  rewrite (input_step_sees m tm r1 r2 c1 c2 dev a st b) by (apply H1 || apply H2; left; reflexivity).
  destruct (input_step m tm r2 c2 dev a st b) as [st1 b'].
  rewrite (IH st1) by (intros b0 Hb0; apply H1 || apply H2; right; exact Hb0). reflexivity.
Qed.

Lemma in_reads_of_abind dev ab b : In b (ab_inputs ab) -> In (dev, ib_input b) (reads_of_abind dev ab).
Proof. intros H. unfold reads_of_abind. apply (in_map (pair dev)), (in_map ib_input). exact H. Qed.

(* ActionBind::update: same binding, action data, events and log; the same reads consumed on both sides *)
Lemma action_update_sees m tm r1 r2 J c1 c2 dev recips ab :
  incl (reads_of_abind dev ab) J -> sees r1 r2 J c1 c2 -> sees r1 r2 J consumed_reset consumed_reset ->
  exists l b' m' ev lg,
    incl l (reads_of_abind dev ab) /\
    action_update m tm r1 c1 dev recips ab = mkActionOut b' m' (consume_list l c1) ev lg /\
    action_update m tm r2 c2 dev recips ab = mkActionOut b' m' (consume_list l c2) ev lg.
Proof.
  intros Hi Hs Hr. unfold action_update.
  pose proof (input_loop_buffer m tm r2 c2 dev (ab_id ab) (ab_inputs ab) (mkLoop (tracker_new (vzero (aid_dim (ab_id ab)))) [] [])) as [Hb _].
  rewrite (input_loop_sees m tm r1 r2 c1 c2 dev (ab_id ab) (ab_inputs ab))
    by (intros b Hb0; apply Hs || apply Hr; apply Hi, in_reads_of_abind, Hb0).
  destruct (input_loop m tm r2 c2 dev (ab_id ab) _ (ab_inputs ab)) as [st inputs']. cbn [fst l_buffer app] in Hb.
  destruct (apply_mods m tm (t_value (l_tracker st)) (ab_mods ab)) as [[ms' v1] lg1].
  destruct (apply_conds m tm (with_value (l_tracker st) v1) (ab_conds ab)) as [[cs' tr] lg2].
  set (go := aid_consume (ab_id ab) && negb (state_eqb (tracker_state tr) SNone)).
  exists (if go then map (pair dev) (l_buffer st) else []).
  assert (E : forall c, (if go then fold_left (fun acc i => consume acc dev i) (l_buffer st) c else c) =
                        consume_list (if go then map (pair dev) (l_buffer st) else []) c).
  { intros c. destruct go; [apply consume_list_map | reflexivity]. }
  rewrite !E. do 4 eexists. split; [|split; reflexivity].
  destruct go; [|intros x []]. unfold reads_of_abind. intros x Hx. apply in_map_iff in Hx. destruct Hx as (i & <- & Hx).
  apply in_map. apply Hb. exact Hx.
Qed.

(* ContextInstance::update *)
Lemma binds_update_sees tm r1 r2 J dev recips bs : forall m c1 c2,
  incl (reads_of_binds dev bs) J -> sees r1 r2 J c1 c2 -> sees r1 r2 J consumed_reset consumed_reset ->
  exists l bs' m' ev lg,
    incl l (reads_of_binds dev bs) /\
    binds_update m tm r1 c1 dev recips bs = (bs', m', consume_list l c1, ev, lg) /\
    binds_update m tm r2 c2 dev recips bs = (bs', m', consume_list l c2, ev, lg).
Proof.
  induction bs as [|b bs IH]; intros m c1 c2 Hi Hs Hr.
  - exists [], [], m, (Some []), []. split; [intros x []|]. split; reflexivity.
  - cbn [reads_of_binds flat_map] in Hi. cbn [binds_update]. cbv zeta.
    destruct (action_update_sees m tm r1 r2 J c1 c2 dev recips b (incl_app_left _ _ _ Hi) Hs Hr)
      as (l & b' & m' & ev & lg & Hl & E1 & E2).
    rewrite E1, E2. cbn [o_actions o_consumed o_bind o_events o_log].
    destruct (IH m' (consume_list l c1) (consume_list l c2) (incl_app_right _ _ _ Hi) (sees_consume_list _ _ _ l _ _ Hs) Hr)
      as (l' & bs' & m'' & ev' & lg' & Hl' & F1 & F2).
    rewrite F1, F2. exists (l ++ l'). do 4 eexists. rewrite !consume_list_app.
    split; [|split; reflexivity]. cbn [reads_of_binds flat_map]. apply incl_app_both; assumption.
Qed.

Lemma inst_update_sees tm r1 r2 J c1 c2 recips i :
  incl (reads_of_inst i) J -> sees r1 r2 J c1 c2 -> sees r1 r2 J consumed_reset consumed_reset ->
  exists l i' ev lg,
    incl l (reads_of_inst i) /\
    inst_update tm r1 c1 recips i = mkInstOut i' (consume_list l c1) ev lg /\
    inst_update tm r2 c2 recips i = mkInstOut i' (consume_list l c2) ev lg.
Proof.
  intros Hi Hs Hr. unfold inst_update.
  destruct (binds_update_sees tm r1 r2 J (in_pad i) recips (in_binds i) (in_actions i) c1 c2 Hi Hs Hr)
    as (l & bs' & m' & ev & lg & Hl & E1 & E2).
  rewrite E1, E2. exists l. do 3 eexists. split; [exact Hl|]. split; reflexivity.
Qed.

Lemma excl_update_sees tm r1 r2 J insts : forall c1 c2,
  incl (flat_map (fun ei => reads_of_inst (snd ei)) insts) J -> sees r1 r2 J c1 c2 -> sees r1 r2 J consumed_reset consumed_reset ->
  exists l insts' ev lg,
    incl l (flat_map (fun ei => reads_of_inst (snd ei)) insts) /\
    excl_update tm r1 c1 insts = (insts', consume_list l c1, ev, lg) /\
    excl_update tm r2 c2 insts = (insts', consume_list l c2, ev, lg).
Proof.
  induction insts as [|[e i] insts IH]; intros c1 c2 Hi Hs Hr.
  - exists [], [], (Some []), []. split; [intros x []|]. split; reflexivity.
  - cbn [flat_map snd] in Hi. cbn [excl_update]. cbv zeta.
    destruct (inst_update_sees tm r1 r2 J c1 c2 [e] i (incl_app_left _ _ _ Hi) Hs Hr) as (l & i' & ev & lg & Hl & E1 & E2).
    rewrite E1, E2. cbn [io_inst io_consumed io_events io_log].
    destruct (IH (consume_list l c1) (consume_list l c2) (incl_app_right _ _ _ Hi) (sees_consume_list _ _ _ l _ _ Hs) Hr)
      as (l' & insts' & ev' & lg' & Hl' & F1 & F2).
    rewrite F1, F2. exists (l ++ l'). do 3 eexists. rewrite !consume_list_app.
    split; [|split; reflexivity]. cbn [flat_map snd]. apply incl_app_both; assumption.
Qed.

(* ContextInstances::update *)
Lemma reg_update_sees tm r1 r2 J gs : forall c1 c2,
  incl (reads_of_reg gs) J -> sees r1 r2 J c1 c2 -> sees r1 r2 J consumed_reset consumed_reset ->
  exists l reg ev lg,
    incl l (reads_of_reg gs) /\
    reg_update tm r1 c1 gs = mkRegOut reg (consume_list l c1) ev lg /\
    reg_update tm r2 c2 gs = mkRegOut reg (consume_list l c2) ev lg.
Proof.
  induction gs as [|[cx p insts|cx p ents i] gs IH]; intros c1 c2 Hi Hs Hr.
  - exists [], [], (Some []), []. split; [intros x []|]. split; reflexivity.
  - cbn [reads_of_reg flat_map reads_of_group] in Hi. cbn [reg_update].
    destruct (excl_update_sees tm r1 r2 J insts c1 c2 (incl_app_left _ _ _ Hi) Hs Hr) as (l & insts' & ev & lg & Hl & E1 & E2).
    rewrite E1, E2. cbv zeta.
    destruct (IH (consume_list l c1) (consume_list l c2) (incl_app_right _ _ _ Hi) (sees_consume_list _ _ _ l _ _ Hs) Hr)
      as (l' & reg & ev' & lg' & Hl' & F1 & F2).
    rewrite F1, F2. cbn [ro_reg ro_consumed ro_events ro_log]. exists (l ++ l'). do 3 eexists. rewrite !consume_list_app.
    split; [|split; reflexivity]. cbn [reads_of_reg flat_map reads_of_group]. apply incl_app_both; assumption.
  - cbn [reads_of_reg flat_map reads_of_group] in Hi. cbn [reg_update]. cbv zeta.
    destruct (inst_update_sees tm r1 r2 J c1 c2 ents i (incl_app_left _ _ _ Hi) Hs Hr) as (l & i' & ev & lg & Hl & E1 & E2).
    rewrite E1, E2. cbn [io_inst io_consumed io_events io_log].
    destruct (IH (consume_list l c1) (consume_list l c2) (incl_app_right _ _ _ Hi) (sees_consume_list _ _ _ l _ _ Hs) Hr)
      as (l' & reg & ev' & lg' & Hl' & F1 & F2).
    rewrite F1, F2. cbn [ro_reg ro_consumed ro_events ro_log]. exists (l ++ l'). do 3 eexists. rewrite !consume_list_app.
    split; [|split; reflexivity]. cbn [reads_of_reg flat_map reads_of_group]. apply incl_app_both; assumption.
Qed.

(* the statements in terms of the outputs *)
Lemma action_update_noninterf m tm r J c1 c2 dev recips ab :
  cequiv r (reads_of_abind dev ab ++ J) c1 c2 ->
  let o1 := action_update m tm r c1 dev recips ab in
  let o2 := action_update m tm r c2 dev recips ab in
  o_bind o1 = o_bind o2 /\ o_actions o1 = o_actions o2 /\ o_events o1 = o_events o2 /\ o_log o1 = o_log o2 /\
  cequiv r (reads_of_abind dev ab ++ J) (o_consumed o1) (o_consumed o2).
Proof.
  intros Hs.
  destruct (action_update_sees m tm r r (reads_of_abind dev ab ++ J) c1 c2 dev recips ab) as (l & b' & m' & ev & lg & _ & E1 & E2).
  - apply incl_appl, incl_refl.
  - exact Hs.
  - apply sees_refl.
  - cbv zeta. rewrite E1, E2. cbn [o_bind o_actions o_events o_log o_consumed]. repeat (split; [reflexivity|]).
    apply sees_consume_list. exact Hs.
Qed.

Lemma reg_update_noninterf tm r1 r2 J gs c1 c2 :
  incl (reads_of_reg gs) J -> sees r1 r2 J c1 c2 -> sees r1 r2 J consumed_reset consumed_reset ->
  let o1 := reg_update tm r1 c1 gs in
  let o2 := reg_update tm r2 c2 gs in
  ro_reg o1 = ro_reg o2 /\ ro_events o1 = ro_events o2 /\ ro_log o1 = ro_log o2 /\
  sees r1 r2 J (ro_consumed o1) (ro_consumed o2).
Proof.
  intros Hi Hs Hr. destruct (reg_update_sees tm r1 r2 J gs c1 c2 Hi Hs Hr) as (l & reg & ev & lg & _ & E1 & E2).
  cbv zeta. rewrite E1, E2. cbn [ro_reg ro_events ro_log ro_consumed]. repeat (split; [reflexivity|]).
  apply sees_consume_list. exact Hs.
Qed.

(* same raw input, consumed sets equivalent on the reads of the groups (and on any further reads J) *)
Lemma reg_update_cequiv tm r J gs c1 c2 :
  cequiv r (reads_of_reg gs ++ J) c1 c2 ->
  let o1 := reg_update tm r c1 gs in
  let o2 := reg_update tm r c2 gs in
  ro_reg o1 = ro_reg o2 /\ ro_events o1 = ro_events o2 /\ ro_log o1 = ro_log o2 /\
  cequiv r (reads_of_reg gs ++ J) (ro_consumed o1) (ro_consumed o2).
Proof.
  intros Hs. apply reg_update_noninterf; [apply incl_appl, incl_refl | exact Hs | apply sees_refl].
Qed.

(* what a list of groups adds to the consumed set is a list of its own reads (C05 (c), lifted) *)
Lemma reg_update_consumes tm r c gs :
  exists l, incl l (reads_of_reg gs) /\ ro_consumed (reg_update tm r c gs) = consume_list l c.
Proof.
  destruct (reg_update_sees tm r r (reads_of_reg gs) gs c c (incl_refl _) (sees_refl _ _ _) (sees_refl _ _ _))
    as (l & reg & ev & lg & Hl & E & _).
  exists l. split; [exact Hl|]. rewrite E. reflexivity.
Qed.
(* ... so it is invisible to every read disjoint from theirs *)
Lemma reg_update_frame tm r c gs J :
  disjoint_reads (reads_of_reg gs) J -> cequiv r J (ro_consumed (reg_update tm r c gs)) c.
Proof.
  intros H. destruct (reg_update_consumes tm r c gs) as (l & Hl & E). rewrite E.
  apply consume_list_frame. apply (disjoint_reads_incl _ _ _ _ Hl (incl_refl J) H).
Qed.

(* ================================================================================================ *)
(* 4. removing groups whose reads are disjoint from those of every group evaluated after them       *)
(* ================================================================================================ *)
Lemma delete_disjoint tm r c gs1 gsD gs2 :
  disjoint_reads (reads_of_reg gsD) (reads_of_reg gs2) ->
  let o1 := reg_update tm r c gs1 in
  let oD := reg_update tm r (ro_consumed o1) gsD in
  let o2 := reg_update tm r (ro_consumed o1) gs2 in       (* gs2 evaluated as if gsD did not exist *)
  let w := reg_update tm r c (gs1 ++ gsD ++ gs2) in
  let wo := reg_update tm r c (gs1 ++ gs2) in
  ro_reg w = ro_reg o1 ++ ro_reg oD ++ ro_reg o2 /\ ro_reg wo = ro_reg o1 ++ ro_reg o2 /\
  ro_events w = cat_ev (ro_events o1) (cat_ev (ro_events oD) (ro_events o2)) /\ ro_events wo = cat_ev (ro_events o1) (ro_events o2) /\
  ro_log w = ro_log o1 ++ ro_log oD ++ ro_log o2 /\ ro_log wo = ro_log o1 ++ ro_log o2 /\
  ro_consumed wo = ro_consumed o2 /\
  (forall J, disjoint_reads (reads_of_reg gsD) J -> cequiv r (reads_of_reg gs2 ++ J) (ro_consumed w) (ro_consumed wo)).
Proof.
  intros Hd. cbv zeta.
  rewrite (reg_update_app tm r gs1 (gsD ++ gs2) c), (reg_update_app tm r gs1 gs2 c). cbv zeta.
  rewrite (reg_update_app tm r gsD gs2 (ro_consumed (reg_update tm r c gs1))). cbv zeta.
  cbn [ro_reg ro_events ro_log ro_consumed].
  set (c1 := ro_consumed (reg_update tm r c gs1)).
  assert (Hall : forall J, disjoint_reads (reads_of_reg gsD) J ->
            cequiv r (reads_of_reg gs2 ++ J) (ro_consumed (reg_update tm r c1 gsD)) c1).
  { intros J HJ. apply reg_update_frame. apply disjoint_reads_app_r. split; assumption. }
  assert (Hnil : disjoint_reads (reads_of_reg gsD) []) by (intros di i dj j _ []).
  destruct (reg_update_cequiv tm r [] gs2 _ _ (Hall [] Hnil)) as (Hreg & Hev & Hlg & _).
  rewrite Hreg, Hev, Hlg. repeat (split; [reflexivity|]).
  intros J HJ. apply (reg_update_cequiv tm r J gs2 _ _ (Hall J HJ)).
Qed.

(* one group *)
Lemma delete_disjoint_group tm r c gs1 gD gs2 :
  disjoint_reads (reads_of_group gD) (reads_of_reg gs2) ->
  let o1 := reg_update tm r c gs1 in
  let oD := reg_update tm r (ro_consumed o1) [gD] in
  let o2 := reg_update tm r (ro_consumed o1) gs2 in
  let w := reg_update tm r c (gs1 ++ gD :: gs2) in
  let wo := reg_update tm r c (gs1 ++ gs2) in
  ro_reg w = ro_reg o1 ++ ro_reg oD ++ ro_reg o2 /\ ro_reg wo = ro_reg o1 ++ ro_reg o2 /\
  ro_events w = cat_ev (ro_events o1) (cat_ev (ro_events oD) (ro_events o2)) /\ ro_events wo = cat_ev (ro_events o1) (ro_events o2) /\
  ro_log w = ro_log o1 ++ ro_log oD ++ ro_log o2 /\ ro_log wo = ro_log o1 ++ ro_log o2 /\
  length (ro_reg oD) = 1%nat.
Proof.
  intros Hd.
  assert (Hd' : disjoint_reads (reads_of_reg [gD]) (reads_of_reg gs2)).
  { unfold reads_of_reg at 1. cbn [flat_map]. rewrite app_nil_r. exact Hd. }
  destruct (delete_disjoint tm r c gs1 [gD] gs2 Hd') as (H1 & H2 & H3 & H4 & H5 & H6 & _).
  cbv zeta. cbn [app] in *. repeat (split; [assumption|]).
  destruct gD as [cx p insts|cx p ents i]; cbn [reg_update]; [|reflexivity].
  destruct (excl_update tm r (ro_consumed (reg_update tm r c gs1)) insts) as [[[insts' c'] ev] lg]. reflexivity.
Qed.

(* ================================================================================================ *)
(* 5. the reads of a registry survive the update, so the hypotheses above are stable frame to frame  *)
(* ================================================================================================ *)
Lemma input_loop_inputs m tm r c dev a bs : forall st,
  map ib_input (snd (input_loop m tm r c dev a st bs)) = map ib_input bs.
Proof.
  induction bs as [|b rest IH]; intros st; [reflexivity|]. cbn [input_loop].
  pose proof (input_step_ids m tm r c dev a st b) as Hs.
  destruct (input_step m tm r c dev a st b) as [st1 b']. destruct Hs as (_ & _ & _ & Hs).
  specialize (IH st1). destruct (input_loop m tm r c dev a st1 rest) as [st2 rest']. cbn [snd map] in *.
  rewrite Hs, IH. reflexivity.
Qed.
Lemma action_update_reads m tm r c dev recips ab d :
  reads_of_abind d (o_bind (action_update m tm r c dev recips ab)) = reads_of_abind d ab.
Proof.
  unfold action_update.
  pose proof (input_loop_inputs m tm r c dev (ab_id ab) (ab_inputs ab) (mkLoop (tracker_new (vzero (aid_dim (ab_id ab)))) [] [])) as H.
  destruct (input_loop m tm r c dev (ab_id ab) _ (ab_inputs ab)) as [st inputs']. cbn [snd] in H.
  destruct (apply_mods m tm (t_value (l_tracker st)) (ab_mods ab)) as [[ms' v1] lg1].
  destruct (apply_conds m tm (with_value (l_tracker st) v1) (ab_conds ab)) as [[cs' tr] lg2].
  cbn [o_bind]. unfold reads_of_abind. cbn [ab_inputs]. rewrite H. reflexivity.
Qed.
Lemma binds_update_reads tm r dev recips d bs : forall m c,
  reads_of_binds d (fst (fst (fst (fst (binds_update m tm r c dev recips bs))))) = reads_of_binds d bs.
Proof.
  induction bs as [|b bs IH]; intros m c; [reflexivity|]. cbn [binds_update]. cbv zeta.
  specialize (IH (o_actions (action_update m tm r c dev recips b)) (o_consumed (action_update m tm r c dev recips b))).
  destruct (binds_update _ tm r _ dev recips bs) as [[[[bs' m'] c'] ev] lg]. cbn [fst] in *.
  cbn [reads_of_binds flat_map]. rewrite action_update_reads. f_equal. exact IH.
Qed.
Lemma inst_update_reads tm r c recips i : reads_of_inst (io_inst (inst_update tm r c recips i)) = reads_of_inst i.
Proof.
  unfold inst_update. pose proof (binds_update_reads tm r (in_pad i) recips (in_pad i) (in_binds i) (in_actions i) c) as H.
  destruct (binds_update (in_actions i) tm r c (in_pad i) recips (in_binds i)) as [[[[bs m] c'] ev] lg]. cbn [fst] in H.
  cbn [io_inst]. unfold reads_of_inst. cbn [in_pad in_binds]. exact H.
Qed.
Lemma excl_update_reads tm r insts : forall c,
  flat_map (fun ei => reads_of_inst (snd ei)) (fst (fst (fst (excl_update tm r c insts)))) =
  flat_map (fun ei => reads_of_inst (snd ei)) insts.
Proof.
  induction insts as [|[e i] insts IH]; intros c; [reflexivity|]. cbn [excl_update]. cbv zeta.
  specialize (IH (io_consumed (inst_update tm r c [e] i))).
  destruct (excl_update tm r _ insts) as [[[rest' c'] ev] lg]. cbn [fst] in *.
  cbn [flat_map snd]. rewrite inst_update_reads. f_equal. exact IH.
Qed.
Lemma reg_update_reads tm r gs : forall c, reads_of_reg (ro_reg (reg_update tm r c gs)) = reads_of_reg gs.
Proof.
  induction gs as [|[cx p insts|cx p ents i] gs IH]; intros c; [reflexivity| |]; cbn [reg_update].
  - pose proof (excl_update_reads tm r insts c) as H.
    destruct (excl_update tm r c insts) as [[[insts' c'] ev] lg]. cbn [fst] in H. cbv zeta. cbn [ro_reg].
    cbn [reads_of_reg flat_map reads_of_group]. rewrite H. f_equal. apply IH.
  - cbv zeta. cbn [ro_reg]. cbn [reads_of_reg flat_map reads_of_group]. rewrite inst_update_reads. f_equal. apply IH.
Qed.

(* ================================================================================================ *)
(* 6. activity on inputs nobody binds                                                               *)
(* ================================================================================================ *)
(* what a read depends on in the raw input: its own key / button / axis pair / gamepads, and, for each
   modifier of its mask, whether one of the two keys of that modifier is down *)
Definition mods_agree (m : Z) (k1 k2 : list Z) : Prop :=
  forall b, In b mod_bits -> Z.testbit m b = true ->
            memz (100 + 2 * b) k1 || memz (101 + 2 * b) k1 = memz (100 + 2 * b) k2 || memz (101 + 2 * b) k2.
Definition raw_same_for (i : input) (r1 r2 : raw) : Prop :=
  match i with
  | IKey k m => memz k (r_keys r1) = memz k (r_keys r2) /\ mods_agree m (r_keys r1) (r_keys r2)
  | IMouseButton b m => memz b (r_mbuttons r1) = memz b (r_mbuttons r2) /\ mods_agree m (r_keys r1) (r_keys r2)
  | IMotion m => r_motion r1 = r_motion r2 /\ mods_agree m (r_keys r1) (r_keys r2)
  | IWheel m => r_wheel r1 = r_wheel r2 /\ mods_agree m (r_keys r1) (r_keys r2)
  | IPadButton _ | IPadAxis _ => r_pads r1 = r_pads r2
  end.

Lemma mod_keys_pressed_agree r1 r2 c m :
  mods_agree m (r_keys r1) (r_keys r2) -> mod_keys_pressed r1 c m = mod_keys_pressed r2 c m.
Proof.
  intros H. unfold mod_keys_pressed. destruct (negb (Z.eqb (Z.land (c_mods c) m) 0)); [reflexivity|].
  unfold mod_bits in *. cbn [forallb].
  assert (G : forall b, In b [0; 1; 2; 3] ->
            (if Z.testbit m b then memz (100 + 2 * b) (r_keys r1) || memz (101 + 2 * b) (r_keys r1) else true) =
            (if Z.testbit m b then memz (100 + 2 * b) (r_keys r2) || memz (101 + 2 * b) (r_keys r2) else true)).
  { intros b Hb. destruct (Z.testbit m b) eqn:E; [apply H; assumption | reflexivity]. }
  rewrite (G 0), (G 1), (G 2), (G 3) by (cbn [In]; tauto). reflexivity.
Qed.

Lemma reader_value_same_for i r1 r2 : raw_same_for i r1 r2 -> forall c dev, reader_value r1 c dev i = reader_value r2 c dev i.
Proof.
  intros H c dev. destruct i as [k m|b m|m|m|b|a]; cbn [raw_same_for] in H; cbn [reader_value].
  - destruct H as [Hk Hm]. rewrite Hk, (mod_keys_pressed_agree r1 r2 c m Hm). reflexivity.
  - destruct H as [Hk Hm]. rewrite Hk, (mod_keys_pressed_agree r1 r2 c m Hm). reflexivity.
  - destruct H as [Hk Hm]. rewrite Hk, (mod_keys_pressed_agree r1 r2 c m Hm). reflexivity.
  - destruct H as [Hk Hm]. rewrite Hk, (mod_keys_pressed_agree r1 r2 c m Hm). reflexivity.
  - rewrite H. reflexivity.
  - rewrite H. reflexivity.
Qed.

(* two raw inputs that agree on everything the bindings of the registry read give the same update, whole *)
Lemma reg_update_unbound tm r1 r2 c gs :
  (forall d j, In (d, j) (reads_of_reg gs) -> raw_same_for j r1 r2) ->
  reg_update tm r1 c gs = reg_update tm r2 c gs.
Proof.
  intros H.
  assert (Hs : forall c0, sees r1 r2 (reads_of_reg gs) c0 c0).
  { intros c0 d j Hj. apply reader_value_same_for. apply (H d j Hj). }
  destruct (reg_update_sees tm r1 r2 (reads_of_reg gs) gs c c (incl_refl _) (Hs c) (Hs consumed_reset)) as (l & reg & ev & lg & _ & E1 & E2).
  rewrite E1, E2. reflexivity.
Qed.

(* --- a keyboard key --- *)
(* [reads_key x i]: binding i names key x, or x is one of the two keys of a modifier in i's mask *)
Definition reads_key (x : Z) (i : input) : bool :=
  match i with IKey k _ => Z.eqb k x | _ => false end || mod_key_of (mods_of i) x.
(* the raw inputs differ at most in whether key x is down *)
Definition same_but_key (x : Z) (r1 r2 : raw) : Prop :=
  (forall k, k <> x -> memz k (r_keys r1) = memz k (r_keys r2)) /\
  r_mbuttons r1 = r_mbuttons r2 /\ r_motion r1 = r_motion r2 /\ r_wheel r1 = r_wheel r2 /\ r_pads r1 = r_pads r2.
Definition add_key (x : Z) (r : raw) : raw := mkRaw (x :: r_keys r) (r_mbuttons r) (r_motion r) (r_wheel r) (r_pads r) (r_ui r).

Lemma mod_key_of_false m x b :
  mod_key_of m x = false -> In b [0; 1; 2; 3] -> Z.testbit m b = true -> 100 + 2 * b <> x /\ 101 + 2 * b <> x.
Proof.
  unfold mod_key_of. intros H Hb Ht.
  assert (G : Z.eqb x (100 + 2 * b) || Z.eqb x (101 + 2 * b) = false).
  { destruct (Z.eqb x (100 + 2 * b) || Z.eqb x (101 + 2 * b)) eqn:E; [|reflexivity].
    rewrite <- H. symmetry. apply existsb_exists. exists b. split; [exact Hb|]. rewrite Ht, E. reflexivity. }
  apply orb_false_iff in G. destruct G as [G1 G2]. apply Z.eqb_neq in G1, G2. split; congruence.
Qed.
Lemma same_but_key_mods x r1 r2 m : same_but_key x r1 r2 -> mod_key_of m x = false -> mods_agree m (r_keys r1) (r_keys r2).
Proof.
  intros (Hk & _) Hm b Hb Ht. destruct (mod_key_of_false m x b Hm Hb Ht) as [N1 N2].
  rewrite (Hk _ N1), (Hk _ N2). reflexivity.
Qed.
Lemma mod_key_of_zero x : mod_key_of 0 x = false.
Proof. reflexivity. Qed.

Lemma same_but_key_for x r1 r2 i : same_but_key x r1 r2 -> reads_key x i = false -> raw_same_for i r1 r2.
Proof.
  intros Hs Hr. unfold reads_key in Hr. apply orb_false_iff in Hr. destruct Hr as [Hn Hm].
  pose proof (same_but_key_mods x r1 r2 (mods_of i) Hs Hm) as Hmods.
  destruct Hs as (Hk & Hb & Hmo & Hw & Hp).
  destruct i as [k m|b m|m|m|b|a]; cbn [raw_same_for mods_of] in *; try (split; assumption); try assumption.
  - split; [|assumption]. apply Hk. apply Z.eqb_neq. exact Hn.
  - split; [|assumption]. rewrite Hb. reflexivity.
Qed.

(* the read-level statement, for an arbitrary consumed set *)
Lemma reader_value_key_irrelevant x r1 r2 c dev i :
  same_but_key x r1 r2 -> reads_key x i = false -> reader_value r1 c dev i = reader_value r2 c dev i.
Proof. intros Hs Hr. apply reader_value_same_for. apply (same_but_key_for x); assumption. Qed.

Lemma add_key_same_but x r : same_but_key x (add_key x r) r.
Proof.
  unfold same_but_key, add_key. cbn [r_keys r_mbuttons r_motion r_wheel r_pads]. repeat split.
  intros k Hk. rewrite memz_cons. apply Z.eqb_neq in Hk. rewrite Hk. reflexivity.
Qed.
Lemma reader_value_add_key x r c dev i :
  reads_key x i = false -> reader_value (add_key x r) c dev i = reader_value r c dev i.
Proof. apply reader_value_key_irrelevant. apply add_key_same_but. Qed.

Lemma reg_update_key_irrelevant tm x r1 r2 c gs :
  same_but_key x r1 r2 -> (forall d j, In (d, j) (reads_of_reg gs) -> reads_key x j = false) ->
  reg_update tm r1 c gs = reg_update tm r2 c gs.
Proof. intros Hs H. apply reg_update_unbound. intros d j Hj. apply (same_but_key_for x); [exact Hs | apply (H d j Hj)]. Qed.
Lemma reg_update_add_key tm x r c gs :
  (forall d j, In (d, j) (reads_of_reg gs) -> reads_key x j = false) ->
  reg_update tm (add_key x r) c gs = reg_update tm r c gs.
Proof. apply reg_update_key_irrelevant. apply add_key_same_but. Qed.

(* --- a mouse button, the mouse motion, the wheel, the gamepads --- *)
Definition same_but_mbutton (x : Z) (r1 r2 : raw) : Prop :=
  r_keys r1 = r_keys r2 /\ (forall b, b <> x -> memz b (r_mbuttons r1) = memz b (r_mbuttons r2)) /\
  r_motion r1 = r_motion r2 /\ r_wheel r1 = r_wheel r2 /\ r_pads r1 = r_pads r2.
Definition reads_mbutton (x : Z) (i : input) : bool := match i with IMouseButton b _ => Z.eqb b x | _ => false end.
Definition is_motion (i : input) : bool := match i with IMotion _ => true | _ => false end.
Definition is_wheel (i : input) : bool := match i with IWheel _ => true | _ => false end.
Definition is_pad (i : input) : bool := match i with IPadButton _ | IPadAxis _ => true | _ => false end.

Lemma mods_agree_refl m k : mods_agree m k k.
Proof. intros b _ _. reflexivity. Qed.
Lemma mods_agree_eq m k1 k2 : k1 = k2 -> mods_agree m k1 k2.
Proof. intros ->. apply mods_agree_refl. Qed.

Lemma same_but_mbutton_for x r1 r2 i : same_but_mbutton x r1 r2 -> reads_mbutton x i = false -> raw_same_for i r1 r2.
Proof.
  intros (Hk & Hb & Hmo & Hw & Hp) Hr.
  destruct i as [k m|b m|m|m|b|a]; cbn [raw_same_for reads_mbutton] in *; try assumption;
    (split; [|apply mods_agree_eq; exact Hk]); try assumption.
  - rewrite Hk. reflexivity.
  - apply Hb. apply Z.eqb_neq. exact Hr.
Qed.
Lemma reg_update_mbutton_irrelevant tm x r1 r2 c gs :
  same_but_mbutton x r1 r2 -> (forall d j, In (d, j) (reads_of_reg gs) -> reads_mbutton x j = false) ->
  reg_update tm r1 c gs = reg_update tm r2 c gs.
Proof. intros Hs H. apply reg_update_unbound. intros d j Hj. apply (same_but_mbutton_for x); [exact Hs | apply (H d j Hj)]. Qed.

Lemma reg_update_motion_irrelevant tm r mo c gs :
  (forall d j, In (d, j) (reads_of_reg gs) -> is_motion j = false) ->
  reg_update tm (mkRaw (r_keys r) (r_mbuttons r) mo (r_wheel r) (r_pads r) (r_ui r)) c gs = reg_update tm r c gs.
Proof.
  intros H. apply reg_update_unbound. intros d j Hj. specialize (H d j Hj).
  destruct j; cbn [raw_same_for r_keys r_mbuttons r_motion r_wheel r_pads is_motion] in *; try discriminate;
    try reflexivity; split; try reflexivity; apply mods_agree_refl.
Qed.
Lemma reg_update_wheel_irrelevant tm r wh c gs :
  (forall d j, In (d, j) (reads_of_reg gs) -> is_wheel j = false) ->
  reg_update tm (mkRaw (r_keys r) (r_mbuttons r) (r_motion r) wh (r_pads r) (r_ui r)) c gs = reg_update tm r c gs.
Proof.
  intros H. apply reg_update_unbound. intros d j Hj. specialize (H d j Hj).
  destruct j; cbn [raw_same_for r_keys r_mbuttons r_motion r_wheel r_pads is_wheel] in *; try discriminate;
    try reflexivity; split; try reflexivity; apply mods_agree_refl.
Qed.
Lemma reg_update_pads_irrelevant tm r pads c gs :
  (forall d j, In (d, j) (reads_of_reg gs) -> is_pad j = false) ->
  reg_update tm (mkRaw (r_keys r) (r_mbuttons r) (r_motion r) (r_wheel r) pads (r_ui r)) c gs = reg_update tm r c gs.
Proof.
  intros H. apply reg_update_unbound. intros d j Hj. specialize (H d j Hj).
  destruct j; cbn [raw_same_for r_keys r_mbuttons r_motion r_wheel r_pads is_pad] in *; try discriminate;
    split; try reflexivity; apply mods_agree_refl.
Qed.

(* --- a whole frame: a key nobody reads --- *)
Definition with_raw (f : frame_in) (r : raw) : frame_in := mkFrame (f_real f) (f_speed f) (f_paused f) (f_how f) r (f_ops f).
Lemma frame_add_key sc w f x :
  (forall d j, In (d, j) (reads_of_reg (w_reg w)) -> reads_key x j = false) ->
  frame sc w (with_raw f (add_key x (f_raw f))) = frame sc w f.
Proof.
  intros H. unfold frame, with_raw, frame_time. cbn [f_raw f_real f_speed f_paused f_ops].
  change (update_state (add_key x (f_raw f))) with (update_state (f_raw f)).
  rewrite (reg_update_add_key _ x (f_raw f) _ (w_reg w) H). reflexivity.
Qed.

(* determinism: the model is a function *)
Lemma frame_deterministic sc w f1 f2 : f1 = f2 -> frame sc w f1 = frame sc w f2.
Proof. intros ->. reflexivity. Qed.

(* ================================================================================================ *)
(* 7. being disjoint from the removed context alone is NOT enough                                   *)
(* ================================================================================================ *)
(* D consumes key 1.  H binds key 1 (action 0) and key 2 (consuming action 6, chorded on action 0).
   G binds key 2 only, so the reads of D and G are disjoint.  With D present, H does not see key 1,
   its chord stays None, key 2 is not consumed and G fires; without D, H consumes key 2 and G reads
   nothing.  Hence the hypothesis of [delete_disjoint] ranges over every group evaluated later. *)
Definition cx_tm : time := mkTime (1 # 60) 1.
Definition cx_raw : raw := mkRaw [1; 2] [] (0%Q, 0%Q) (0%Q, 0%Q) [] [].
Definition cx_key (k : Z) : ibind := mkIbind (IKey k 0) [] [] false.
Definition cx_D : group := GExcl 0 30 [(1, mkInst None [mkAbind 2 [] [] [cx_key 1]] [])].
Definition cx_H : group :=
  GExcl 2 (-10) [(2, mkInst None [mkAbind 0 [] [] [cx_key 1]; mkAbind 6 [] [(0, CChord 0)] [cx_key 2]] [])].
Definition cx_G : group := GExcl 4 (-20) [(3, mkInst None [mkAbind 0 [] [] [cx_key 2]] [])].
Definition g_states (g : group) : list (aid * state) :=
  match g with
  | GExcl _ _ insts => flat_map (fun ei => map (fun kd => (fst kd, d_state (snd kd))) (in_actions (snd ei))) insts
  | GShared _ _ _ i => map (fun kd => (fst kd, d_state (snd kd))) (in_actions i)
  end.

Lemma self_disjoint_insufficient :
  disjoint_reads (reads_of_group cx_D) (reads_of_group cx_G) /\
  disjoint_reads (reads_of_group cx_G) (reads_of_group cx_D) /\
  option_map g_states (nth_error (ro_reg (reg_update cx_tm cx_raw (update_state cx_raw) [cx_D; cx_H; cx_G])) 2) = Some [(0, SFired)] /\
  option_map g_states (nth_error (ro_reg (reg_update cx_tm cx_raw (update_state cx_raw) [cx_H; cx_G])) 1) = Some [(0, SNone)].
Proof.
  assert (Hd : disjoint_reads (reads_of_group cx_D) (reads_of_group cx_G)).
  { intros di i dj j Hi Hj. vm_compute in Hi, Hj. destruct Hi as [Hi|[]]. destruct Hj as [Hj|[]].
    inversion Hi; inversion Hj; subst. reflexivity. }
  split; [exact Hd|]. split; [apply disjoint_reads_sym; exact Hd|]. split; vm_compute; reflexivity.
Qed.

(* ================================================================================================ *)
(* 8. several frames (no registry operations in between): each frame starts from update_state       *)
(* ================================================================================================ *)
Fixpoint reg_run (script : list (time * raw)) (gs : registry) : list reg_out :=
  match script with
  | [] => []
  | (tm, r) :: rest => let o := reg_update tm r (update_state r) gs in o :: reg_run rest (ro_reg o)
  end.

(* frame by frame: the run with the groups D is the run without them plus the contribution of D in its place *)
Definition removed_view (w wo : reg_out) : Prop :=
  exists o1 oD o2 : reg_out,
    ro_reg w = ro_reg o1 ++ ro_reg oD ++ ro_reg o2 /\ ro_reg wo = ro_reg o1 ++ ro_reg o2 /\
    ro_events w = cat_ev (ro_events o1) (cat_ev (ro_events oD) (ro_events o2)) /\ ro_events wo = cat_ev (ro_events o1) (ro_events o2) /\
    ro_log w = ro_log o1 ++ ro_log oD ++ ro_log o2 /\ ro_log wo = ro_log o1 ++ ro_log o2.

Lemma delete_disjoint_run script : forall gs1 gsD gs2,
  disjoint_reads (reads_of_reg gsD) (reads_of_reg gs2) ->
  Forall2 removed_view (reg_run script (gs1 ++ gsD ++ gs2)) (reg_run script (gs1 ++ gs2)).
Proof.
  induction script as [|[tm r] rest IH]; intros gs1 gsD gs2 Hd; cbn [reg_run]; [constructor|]. cbv zeta.
  destruct (delete_disjoint tm r (update_state r) gs1 gsD gs2 Hd) as (H1 & H2 & H3 & H4 & H5 & H6 & _).
  set (o1 := reg_update tm r (update_state r) gs1) in *.
  set (oD := reg_update tm r (ro_consumed o1) gsD) in *.
  set (o2 := reg_update tm r (ro_consumed o1) gs2) in *.
  constructor.
  - exists o1, oD, o2. repeat split; assumption.
  - rewrite H1, H2. apply IH. unfold oD, o2. rewrite !reg_update_reads. exact Hd.
Qed.

(* two input scripts that agree, frame by frame, on the time, on the UI interaction and on everything the
   bindings read give the same run *)
Definition frames_agree (gs : registry) (a b : time * raw) : Prop :=
  fst a = fst b /\ r_ui (snd a) = r_ui (snd b) /\
  (forall d j, In (d, j) (reads_of_reg gs) -> raw_same_for j (snd a) (snd b)).
Lemma reg_run_unbound s1 : forall s2 gs, Forall2 (frames_agree gs) s1 s2 -> reg_run s1 gs = reg_run s2 gs.
Proof.
  induction s1 as [|[tm1 r1] s1 IH]; intros s2 gs H; inversion H as [|a b l l' Hab Hrest]; subst; [reflexivity|].
  destruct b as [tm2 r2]. destruct Hab as (Ht & Hu & Hr). cbn [fst snd] in *. subst tm2. cbn [reg_run]. cbv zeta.
  assert (Eu : update_state r1 = update_state r2) by (unfold update_state; rewrite Hu; reflexivity).
  rewrite Eu, (reg_update_unbound tm1 r1 r2 (update_state r2) gs Hr). f_equal.
  apply IH. clear -Hrest. induction Hrest as [|x y l l' Hxy Hl IHl]; constructor.
  - destruct Hxy as (A & B & C). repeat split; try assumption. intros d j Hj. apply (C d j). rewrite reg_update_reads in Hj. exact Hj.
  - exact IHl.
Qed.
