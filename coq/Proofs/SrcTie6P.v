(* Sixth wave: the rest of ContextInstances (Generated/RegistrySrc.v) against Model/Registry.v. *)
From Coq Require Import String.
From BEI Require Import Model.Num Model.Value Model.State Model.Tracker Model.Cond Model.Modif Model.Reader.
From BEI Require Import Model.Action Model.Registry.
From BEI Require Import Generated.BevyTbl Generated.RegTbl Generated.RegistrySrc.
From BEI Require Import Proofs.SrcTie5P.
Local Open Scope Z_scope.

Lemma find_map_pairs_tie e (insts : list (entity * inst)) :
  Bevy.find_map (fun '(en, cx) => if Z.eqb en e then Some cx else None) insts =
  option_map snd (find (fun ei => Z.eqb (fst ei) e) insts).
Proof.
  induction insts as [|[en cx] rest IH]; simpl; [reflexivity|].
  destruct (en =? e); [reflexivity|exact IH].
Qed.

(* ContextInstances::get; an index out of bounds (a Rust panic, impossible after index()) is None on both sides *)
Theorem ContextInstances_get_tie c e r : ContextInstances_get_src c r e = reg_get c e r.
Proof.
  unfold ContextInstances_get_src, reg_get. rewrite ContextInstances_index_tie.
  destruct (index_of c r) as [n|]; [|reflexivity].
  destruct (nth_error r n) as [[c' p insts|c' p ents i]|]; try reflexivity.
  apply find_map_pairs_tie.
Qed.
Print Assumptions ContextInstances_get_tie.

(* ---- ContextInstances::remove.  The three `expect`s and the swap_remove bounds check are rendered as option
   (None = the Rust panic), like the model's reg_remove.  Opaque parameter: ctx.trigger_removed(commands, time,
   entities), instantiated with the model's trigger_removed (the events it triggers; the queue before is ignored). *)
Lemma set_at_const {A : Type} n (x : A) l : Reg.set_at n x l = update_at n (fun _ => x) l.
Proof. revert l. induction n as [|n IH]; intros [|y l]; simpl; try reflexivity. now rewrite IH. Qed.
Lemma remove_set_at {A : Type} n (x : A) l : Reg.remove_at n (Reg.set_at n x l) = remove_at n l.
Proof. revert l. induction n as [|n IH]; intros [|y l]; simpl; try reflexivity. now rewrite IH. Qed.
Lemma swap_remove_tie {A : Type} k (l : list A) : Reg.swap_remove k l = swap_remove k l.
Proof.
  unfold Reg.swap_remove, swap_remove. destruct (nth_error l k); [|reflexivity].
  destruct (rev l); [reflexivity|]. now rewrite set_at_const.
Qed.
Lemma position_sym e ents : Reg.position (fun x => Z.eqb x e) ents = position (Z.eqb e) ents.
Proof. induction ents as [|x l IH]; simpl; [reflexivity|]. rewrite Z.eqb_sym. destruct (e =? x); [reflexivity|now rewrite IH]. Qed.
Lemma position_fst e (insts : list (entity * inst)) :
  Reg.position (fun '(en, _) => Z.eqb en e) insts = position (fun ei => Z.eqb (fst ei) e) insts.
Proof. induction insts as [|[en cx] l IH]; simpl; [reflexivity|]. destruct (en =? e); [reflexivity|now rewrite IH]. Qed.

Theorem ContextInstances_remove_tie tm c e r (cmds0 : option (list event)) :
  ContextInstances_remove_src (option (list event)) (fun i _ ents => trigger_removed tm ents i) c r cmds0 e =
  reg_remove tm c e r.
Proof.
  unfold ContextInstances_remove_src, reg_remove. rewrite ContextInstances_index_tie.
  destruct (index_of c r) as [n|]; [|reflexivity].
  destruct (nth_error r n) as [[c' p insts|c' p ents i]|]; [| |reflexivity].
  - rewrite position_fst. destruct (position (fun ei => fst ei =? e) insts) as [k|]; [|reflexivity].
    destruct (nth_error insts k) as [[en cx]|]; [|reflexivity].
    rewrite swap_remove_tie. destruct (swap_remove k insts); simpl.
    + now rewrite remove_set_at.
    + now rewrite set_at_const.
  - rewrite position_sym. destruct (position (Z.eqb e) ents) as [k|]; [|reflexivity].
    rewrite swap_remove_tie. destruct (swap_remove k ents); simpl.
    + now rewrite remove_set_at.
    + now rewrite set_at_const.
Qed.
Print Assumptions ContextInstances_remove_tie.
