(* Soundness of the executable judgement Check/C12c.v on the model's own runs:
     forall sc, profile_C12 sc -> C12c.ok (sc, trace (run sc)) = 0.
   Ladder: (1) pure list lemmas about strip_prefix / eat_inputs / eat_actions, (2) the invariant relating the
   model's suppression flags to the judgement's held map, (3) one frame from any world satisfying the invariant,
   (4) preservation by operations and frames, (5) induction over the steps of the scenario. *)
From Coq Require Import List ZArith Bool Lia Sorted Permutation.
From BEI Require Import Model.Frame Spec.ReadSpec Proofs.ReaderP Proofs.ActionP Proofs.InstanceP Proofs.SuppressP
  Proofs.RegistryP Proofs.FrameLiftP Proofs.SuppressLiftP Proofs.TrackOpP Check.App Check.C12c.
Import ListNotations.
Open Scope Z_scope.

(* ================================================================================================ *)
(* 0. lists                                                                                         *)
(* ================================================================================================ *)
Definition all_true (l : list (Z * bool)) : Prop := forall k b, In (k, b) l -> b = true.

Lemma all_true_first_fail l : all_true l -> first_fail l = 0.
Proof.
  induction l as [|[k b] l IH]; intros H; cbn [first_fail]; [reflexivity|].
  rewrite (H k b (or_introl eq_refl)). apply IH. intros k' b' Hin. apply (H k' b'). right. exact Hin.
Qed.

Lemma NoDup_app_inv {A} (a b : list A) : NoDup (a ++ b) -> NoDup a /\ NoDup b /\ (forall x, In x a -> ~ In x b).
Proof.
  induction a as [|x a IH]; cbn [app]; intros H.
  - split; [constructor|]. split; [exact H | intros x []].
  - inversion H as [|? ? Hx Hr]; subst. destruct (IH Hr) as (Ha & Hb & Hd). split; [|split].
    + constructor; [|exact Ha]. intros Hin. apply Hx. apply in_or_app. left. exact Hin.
    + exact Hb.
    + intros y [<-|Hy]; [intros Hin; apply Hx; apply in_or_app; right; exact Hin | apply Hd; exact Hy].
Qed.

Lemma Forall2_compose_l {A B C} (R : A -> B -> Prop) (S : A -> C -> Prop) (T : B -> C -> Prop) :
  (forall a b c, R a b -> S a c -> T b c) ->
  forall l1 l2 l3, Forall2 R l1 l2 -> Forall2 S l1 l3 -> Forall2 T l2 l3.
Proof.
  intros HT l1 l2 l3 H12. revert l3. induction H12 as [|a b l1 l2 Hab _ IH]; intros l3 H13.
  - inversion H13; subst. constructor.
  - inversion H13 as [|a' c l1' l3' Hac H13']; subst. constructor; [exact (HT a b c Hab Hac) | apply IH; exact H13'].
Qed.
Lemma Forall2_refl_in {A} (R : A -> A -> Prop) l : (forall x, In x l -> R x x) -> Forall2 R l l.
Proof.
  induction l as [|x l IH]; intros H; constructor; [apply H; left; reflexivity | apply IH; intros y Hy; apply H; right; exact Hy].
Qed.

Lemma Forall_remove_at {A} (P : A -> Prop) n : forall l, Forall P l -> Forall P (remove_at n l).
Proof.
  induction n as [|n IH]; intros [|x l] H; cbn [remove_at]; try exact H; inversion H; subst; [assumption|].
  constructor; [assumption | apply IH; assumption].
Qed.
Lemma Forall_update_at {A} (P : A -> Prop) (f : A -> A) n : forall l,
  Forall P l -> (forall x, nth_error l n = Some x -> P (f x)) -> Forall P (update_at n f l).
Proof.
  induction n as [|n IH]; intros [|x l] H Hf; cbn [update_at]; try exact H; inversion H; subst.
  - constructor; [apply Hf; reflexivity | assumption].
  - constructor; [assumption | apply IH; [assumption | intros y Hy; apply Hf; exact Hy]].
Qed.
Lemma Forall_insert_at {A} (P : A -> Prop) x n : forall l, Forall P l -> P x -> Forall P (insert_at n x l).
Proof.
  induction n as [|n IH]; intros [|y l] H Hx; cbn [insert_at]; try (constructor; assumption).
  inversion H; subst. constructor; [assumption | apply IH; assumption].
Qed.

Lemma find_filter_imp {A} (f g : A -> bool) l : (forall x, f x = true -> g x = true) -> find f (filter g l) = find f l.
Proof.
  intros H. induction l as [|x l IH]; cbn [filter find]; [reflexivity|].
  destruct (g x) eqn:G; cbn [find].
  - destruct (f x); [reflexivity | exact IH].
  - destruct (f x) eqn:F; [rewrite (H x F) in G; discriminate | exact IH].
Qed.

Lemma filter_none {A} (p : A -> bool) l : (forall x, In x l -> p x = false) -> filter p l = [].
Proof.
  induction l as [|x l IH]; intros H; cbn [filter]; [reflexivity|].
  rewrite (H x (or_introl eq_refl)). apply IH. intros y Hy. apply H. right. exact Hy.
Qed.
Lemma NoDup_filter {A} (p : A -> bool) l : NoDup l -> NoDup (filter p l).
Proof.
  induction 1 as [|x l Hx _ IH]; cbn [filter]; [constructor|].
  destruct (p x); [|exact IH]. constructor; [|exact IH]. intros H. apply filter_In in H. tauto.
Qed.
Lemma nodup_all_eq {A} (a : A) l : NoDup l -> l <> [] -> (forall x, In x l -> x = a) -> l = [a].
Proof.
  intros Hd Hne Hall. destruct l as [|x [|y l]]; [congruence | rewrite (Hall x (or_introl eq_refl)); reflexivity |].
  exfalso. inversion Hd as [|? ? Hx _]; subst. apply Hx. left.
  rewrite (Hall x (or_introl eq_refl)), (Hall y (or_intror (or_introl eq_refl))). reflexivity.
Qed.
Lemma flat_map_filter_map {A B} (F : A -> list B) (p : A -> bool) (f : A -> B) l :
  (forall x, In x l -> F x = if p x then [f x] else []) -> flat_map F l = map f (filter p l).
Proof.
  induction l as [|x l IH]; intros H; cbn [flat_map filter]; [reflexivity|].
  rewrite (H x (or_introl eq_refl)), IH by (intros y Hy; apply H; right; exact Hy).
  destruct (p x); reflexivity.
Qed.

(* ---- strictly sorted lists (by an integer key) are determined by their elements ---- *)
Definition ssorted {A} (key : A -> Z) (l : list A) : Prop := StronglySorted (fun a b => key a < key b) l.

Lemma ssorted_unique {A} (key : A -> Z) : forall l1 l2 : list A,
  ssorted key l1 -> ssorted key l2 -> (forall x, In x l1 <-> In x l2) -> l1 = l2.
Proof.
  induction l1 as [|a l1 IH]; intros l2 H1 H2 Hin.
  - destruct l2 as [|b l2]; [reflexivity|]. exfalso. apply (Hin b). left. reflexivity.
  - destruct l2 as [|b l2]; [exfalso; apply (Hin a); left; reflexivity|].
    apply StronglySorted_inv in H1. destruct H1 as [S1 F1]. apply StronglySorted_inv in H2. destruct H2 as [S2 F2].
    rewrite Forall_forall in F1, F2.
    assert (E : a = b).
    { destruct (proj1 (Hin a) (or_introl eq_refl)) as [E|Ha]; [symmetry; exact E|].
      destruct (proj2 (Hin b) (or_introl eq_refl)) as [E|Hb]; [exact E|].
      specialize (F1 b Hb). specialize (F2 a Ha). lia. }
    subst b. f_equal. apply IH; [exact S1 | exact S2|]. intros x. split; intros Hx.
    + destruct (proj1 (Hin x) (or_intror Hx)) as [E|H]; [|exact H]. subst x. specialize (F1 a Hx). lia.
    + destruct (proj2 (Hin x) (or_intror Hx)) as [E|H]; [|exact H]. subst x. specialize (F2 a Hx). lia.
Qed.
Lemma ssorted_filter {A} (key : A -> Z) (p : A -> bool) l : ssorted key l -> ssorted key (filter p l).
Proof.
  induction 1 as [|x l _ IH F]; cbn [filter]; [constructor|].
  destruct (p x); [|exact IH]. constructor; [exact IH|]. rewrite Forall_forall in *. intros y Hy. apply filter_In in Hy. apply F. tauto.
Qed.

Lemma insert_by_in {A} (key : A -> Z) x l : forall z, In z (insert_by key x l) <-> z = x \/ In z l.
Proof.
  induction l as [|y l IH]; intros z; cbn [insert_by In]; [intuition congruence|].
  destruct (Z.ltb (key x) (key y)); cbn [In]; [intuition congruence|]. rewrite IH. intuition congruence.
Qed.
Lemma insert_by_sorted {A} (key : A -> Z) x l :
  ssorted key l -> (forall y, In y l -> key y <> key x) -> ssorted key (insert_by key x l).
Proof.
  induction 1 as [|y l S IH F]; intros Hne; cbn [insert_by]; [constructor; constructor|].
  rewrite Forall_forall in F.
  destruct (Z.ltb (key x) (key y)) eqn:E.
  - apply Z.ltb_lt in E. constructor; [constructor; [exact S | apply Forall_forall; exact F]|].
    apply Forall_forall. intros z [<-|Hz]; [exact E | specialize (F z Hz); lia].
  - apply Z.ltb_ge in E. constructor.
    + apply IH. intros z Hz. apply Hne. right. exact Hz.
    + apply Forall_forall. intros z Hz. apply insert_by_in in Hz. destruct Hz as [->|Hz]; [|apply F; exact Hz].
      specialize (Hne y (or_introl eq_refl)). lia.
Qed.
Lemma sort_by_spec {A} (key : A -> Z) (l : list A) : NoDup (map key l) ->
  ssorted key (sort_by key l) /\ forall z, In z (sort_by key l) <-> In z l.
Proof.
  unfold sort_by.
  assert (G : forall l acc, NoDup (map key l) -> ssorted key acc -> (forall x y, In x l -> In y acc -> key y <> key x) ->
              ssorted key (fold_left (fun acc x => insert_by key x acc) l acc) /\
              forall z, In z (fold_left (fun acc x => insert_by key x acc) l acc) <-> In z acc \/ In z l).
  { clear l. induction l as [|x l IH]; intros acc Hd Hs Hne; cbn [fold_left].
    - split; [exact Hs | intros z; cbn [In]; tauto].
    - cbn [map] in Hd. inversion Hd as [|? ? Hx Hd']; subst.
      destruct (IH (insert_by key x acc) Hd') as [I1 I2].
      + apply insert_by_sorted; [exact Hs|]. intros y Hy. apply (Hne x y); [left; reflexivity | exact Hy].
      + intros x' y Hx' Hy. apply insert_by_in in Hy. destruct Hy as [->|Hy].
        * intros E. apply Hx. rewrite E. apply in_map. exact Hx'.
        * apply (Hne x' y); [right; exact Hx' | exact Hy].
      + split; [exact I1|]. intros z. rewrite I2, insert_by_in. cbn [In]. intuition congruence. }
  intros Hd. destruct (G l [] Hd) as [G1 G2]; [constructor | intros x y _ []|].
  split; [exact G1|]. intros z. rewrite G2. cbn [In]. tauto.
Qed.

(* ================================================================================================ *)
(* 1. strip_prefix, eat_inputs, eat_actions                                                         *)
(* ================================================================================================ *)
Lemma strip_prefix_app p : forall l, strip_prefix p (p ++ l) = Some l.
Proof. induction p as [|x p IH]; intros l; cbn [app strip_prefix]; [reflexivity|]. rewrite Z.eqb_refl. apply IH. Qed.
Lemma strip_prefix_notin x p l : ~ In x l -> strip_prefix (x :: p) l = None.
Proof.
  intros H. destruct l as [|y l]; cbn [strip_prefix]; [reflexivity|].
  destruct (Z.eqb x y) eqn:E; [|reflexivity]. apply Z.eqb_eq in E. exfalso. apply H. left. symmetry. exact E.
Qed.

Lemma input_eqb_refl i : input_eqb i i = true.
Proof. destruct i; cbn [input_eqb]; rewrite ?Z.eqb_refl; reflexivity. Qed.
Lemma held_in i l : In i l -> existsb (input_eqb i) l = true.
Proof. intros H. apply existsb_exists. exists i. split; [exact H | apply input_eqb_refl]. Qed.

(* all the ids a configuration can log, in the order in which the judgement consumes them *)
Definition input_all_ids (b : ibind) : list Z := ids_of (ib_mods b) ++ ids_of (ib_conds b).
Definition inputs_all_ids (bs : list ibind) : list Z := flat_map input_all_ids bs.
Definition abind_all_ids (ab : abind) : list Z := inputs_all_ids (ab_inputs ab) ++ ids_of (ab_mods ab) ++ ids_of (ab_conds ab).
Definition abinds_all_ids (abs : list abind) : list Z := flat_map abind_all_ids abs.

(* what the model logs, given which input bindings are skipped *)
Definition sk_inputs_ids (sk : ibind -> bool) (bs : list ibind) : list Z := concat (map (fun b => input_ids (sk b) b) bs).
Definition sk_abind_ids (sk : ibind -> bool) (ab : abind) : list Z :=
  sk_inputs_ids sk (ab_inputs ab) ++ ids_of (ab_mods ab) ++ ids_of (ab_conds ab).

(* the stored binding [b] against the configured one [b0]: same input, same ids; if skipped then held *)
Definition ib_sim (sk : ibind -> bool) (l : list input) (b b0 : ibind) : Prop :=
  ib_input b = ib_input b0 /\ ids_of (ib_mods b) = ids_of (ib_mods b0) /\ ids_of (ib_conds b) = ids_of (ib_conds b0) /\
  (sk b = true -> In (ib_input b) l).
Definition ab_sim (sk : ibind -> bool) (l : list input) (ab ab0 : abind) : Prop :=
  ids_of (ab_mods ab) = ids_of (ab_mods ab0) /\ ids_of (ab_conds ab) = ids_of (ab_conds ab0) /\
  Forall2 (ib_sim sk l) (ab_inputs ab) (ab_inputs ab0).

Lemma sk_inputs_sub sk l bs bs0 : Forall2 (ib_sim sk l) bs bs0 -> incl (sk_inputs_ids sk bs) (inputs_all_ids bs0).
Proof.
  induction 1 as [|b b0 bs bs0 (_ & Hm & Hc & _) _ IH]; [intros x []|].
  unfold sk_inputs_ids, inputs_all_ids. cbn [map concat flat_map]. intros x Hx. apply in_app_or in Hx. apply in_or_app.
  destruct Hx as [Hx|Hx]; [left | right; apply IH; exact Hx].
  unfold input_ids in Hx. destruct (sk b); [destruct Hx|]. unfold input_all_ids. rewrite <- Hm, <- Hc. exact Hx.
Qed.
Lemma sk_abind_sub sk l ab ab0 : ab_sim sk l ab ab0 -> incl (sk_abind_ids sk ab) (abind_all_ids ab0).
Proof.
  intros (Hm & Hc & Hi) x Hx. unfold sk_abind_ids in Hx. unfold abind_all_ids. rewrite <- Hm, <- Hc.
  apply in_app_or in Hx. apply in_or_app. destruct Hx as [Hx|Hx]; [left; exact (sk_inputs_sub sk l _ _ Hi x Hx) | right; exact Hx].
Qed.
Lemma sk_abinds_sub sk l abs abs0 : Forall2 (ab_sim sk l) abs abs0 -> incl (flat_map (sk_abind_ids sk) abs) (abinds_all_ids abs0).
Proof.
  induction 1 as [|ab ab0 abs abs0 Hab _ IH]; [intros x []|]. unfold abinds_all_ids. cbn [flat_map].
  intros x Hx. apply in_app_or in Hx. apply in_or_app. destruct Hx as [Hx|Hx]; [left; exact (sk_abind_sub sk l _ _ Hab x Hx) | right; apply IH; exact Hx].
Qed.

Lemma eat_inputs_ok sk l bs bs0 : Forall2 (ib_sim sk l) bs bs0 -> forall rest,
  NoDup (inputs_all_ids bs0) -> (forall x, In x (inputs_all_ids bs0) -> ~ In x rest) ->
  eat_inputs (fun i => existsb (input_eqb i) l) bs0 (sk_inputs_ids sk bs ++ rest) = Some rest.
Proof.
  induction 1 as [|b b0 bs bs0 Hb Hbs IH]; intros rest Hnd Hdis; [reflexivity|].
  destruct Hb as (Hi & Hm & Hc & Hheld).
  cbn [eat_inputs]. change (ids_of' (ib_mods b0) ++ ids_of' (ib_conds b0)) with (input_all_ids b0).
  unfold sk_inputs_ids. cbn [map concat]. fold (sk_inputs_ids sk bs).
  unfold inputs_all_ids in Hnd, Hdis. cbn [flat_map] in Hnd, Hdis. fold (inputs_all_ids bs0) in Hnd, Hdis.
  destruct (NoDup_app_inv _ _ Hnd) as (_ & Hnd' & Hd12).
  assert (Hdis' : forall x, In x (inputs_all_ids bs0) -> ~ In x rest) by (intros x Hx; apply Hdis; apply in_or_app; right; exact Hx).
  assert (Eids : input_ids (sk b) b = if sk b then [] else input_all_ids b0).
  { unfold input_ids, input_all_ids. rewrite Hm, Hc. reflexivity. }
  rewrite Eids. destruct (input_all_ids b0) as [|x p] eqn:E.
  - replace (if sk b then [] else []) with (@nil Z) by (destruct (sk b); reflexivity). cbn [app]. apply IH; assumption.
  - destruct (sk b) eqn:S.
    + cbn [app]. rewrite strip_prefix_notin.
      * rewrite <- Hi, (held_in _ _ (Hheld eq_refl)). apply IH; assumption.
      * intros Hin. apply in_app_or in Hin. destruct Hin as [Hin|Hin].
        -- apply (Hd12 x); [left; reflexivity | exact (sk_inputs_sub sk l _ _ Hbs x Hin)].
        -- apply (Hdis x); [apply in_or_app; left; left; reflexivity | exact Hin].
    + rewrite <- app_assoc, strip_prefix_app. apply IH; assumption.
Qed.

Lemma eat_actions_ok sk l abs abs0 : Forall2 (ab_sim sk l) abs abs0 -> forall rest,
  NoDup (abinds_all_ids abs0) -> (forall x, In x (abinds_all_ids abs0) -> ~ In x rest) ->
  eat_actions (fun i => existsb (input_eqb i) l) abs0 (flat_map (sk_abind_ids sk) abs ++ rest) = Some rest.
Proof.
  induction 1 as [|ab ab0 abs abs0 Hab Habs IH]; intros rest Hnd Hdis; [reflexivity|].
  pose proof Hab as (Hm & Hc & Hi).
  unfold abinds_all_ids in Hnd, Hdis. cbn [flat_map] in Hnd, Hdis. fold (abinds_all_ids abs0) in Hnd, Hdis.
  destruct (NoDup_app_inv _ _ Hnd) as (Hnd1 & Hnd2 & Hd12).
  unfold abind_all_ids in Hnd1. destruct (NoDup_app_inv _ _ Hnd1) as (Hnd11 & _ & Hd11).
  cbn [eat_actions flat_map]. unfold sk_abind_ids at 1. rewrite <- !app_assoc.
  rewrite (eat_inputs_ok sk l _ _ Hi); [|exact Hnd11|].
  - rewrite Hm, Hc. change (ids_of' (ab_mods ab0) ++ ids_of' (ab_conds ab0)) with (ids_of (ab_mods ab0) ++ ids_of (ab_conds ab0)).
    rewrite (app_assoc (ids_of (ab_mods ab0))), strip_prefix_app. apply IH; [exact Hnd2|].
    intros x Hx. apply Hdis. apply in_or_app. right. exact Hx.
  - intros x Hx Hin. rewrite Hm, Hc, (app_assoc (ids_of (ab_mods ab0))) in Hin.
    apply in_app_or in Hin. destruct Hin as [Hin|Hin]; [exact (Hd11 x Hx Hin)|].
    apply in_app_or in Hin. destruct Hin as [Hin|Hin].
    + apply (Hd12 x); [unfold abind_all_ids; apply in_or_app; left; exact Hx | exact (sk_abinds_sub sk l _ _ Habs x Hin)].
    + apply (Hdis x); [apply in_or_app; left; unfold abind_all_ids; apply in_or_app; left; exact Hx | exact Hin].
Qed.

(* ================================================================================================ *)
(* 2. the judgement's held map                                                                      *)
(* ================================================================================================ *)
Definition hkey (c e : Z) (x : Z * Z * list input) : bool := Z.eqb (fst (fst x)) c && Z.eqb (snd (fst x)) e.
Definition hctx (c : Z) (x : Z * Z * list input) : bool := Z.eqb (fst (fst x)) c.
(* the entity the current instance of a context type was last built for *)
Definition h_owner (h : held_map) (c : Z) : option Z := option_map (fun x => snd (fst x)) (find (hctx c) h).

Definition rebuilt (sc : scenario) (h : held_map) (built : list (Z * Z)) : held_map :=
  fold_left (fun acc ce => held_set acc (fst ce) (snd ce) (inputs_of_spec (cfg_lookup sc (fst ce) (snd ce)))) built h.
Definition hfilter (sc : scenario) (r : raw) (h : held_map) : held_map :=
  map (fun x => let '(c, e, l) := x in (c, e, filter (fun i => phys_active r (i_pad (cfg_lookup sc c e)) i) l)) h.

Lemma rebuilt_app sc h b1 b2 : rebuilt sc h (b1 ++ b2) = rebuilt sc (rebuilt sc h b1) b2.
Proof. apply fold_left_app. Qed.

Lemma held_lookup_set h c e l c' e' :
  held_lookup (held_set h c e l) c' e' = if Z.eqb c c' && Z.eqb e e' then l else held_lookup h c' e'.
Proof.
  unfold held_lookup, held_set. cbn [find fst snd].
  destruct (Z.eqb c c' && Z.eqb e e') eqn:E; [reflexivity|].
  rewrite find_filter_imp; [reflexivity|]. intros [[c0 e0] l0]. cbn [fst snd]. intros H.
  apply andb_true_iff in H. destruct H as [H1 H2]. apply Z.eqb_eq in H1, H2. subst c0 e0.
  rewrite (Z.eqb_sym c' c), (Z.eqb_sym e' e), E. reflexivity.
Qed.
Lemma h_owner_set h c e l c' : h_owner (held_set h c e l) c' = if Z.eqb c c' then Some e else h_owner h c'.
Proof.
  unfold h_owner, held_set, hctx. cbn [find fst snd].
  destruct (Z.eqb c c') eqn:E; [reflexivity|].
  rewrite find_filter_imp; [reflexivity|]. intros [[c0 e0] l0]. cbn [fst snd]. intros H.
  apply Z.eqb_eq in H. subst c0. rewrite (Z.eqb_sym c' c), E. reflexivity.
Qed.

Lemma held_lookup_filter sc r h c e :
  held_lookup (hfilter sc r h) c e = filter (fun i => phys_active r (i_pad (cfg_lookup sc c e)) i) (held_lookup h c e).
Proof.
  unfold held_lookup, hfilter. induction h as [|[[c0 e0] l0] h IH]; cbn [map find fst snd]; [reflexivity|].
  destruct (Z.eqb c0 c && Z.eqb e0 e) eqn:E; [|exact IH].
  apply andb_true_iff in E. destruct E as [E1 E2]. apply Z.eqb_eq in E1, E2. subst c0 e0. reflexivity.
Qed.
Lemma h_owner_filter sc r h c : h_owner (hfilter sc r h) c = h_owner h c.
Proof.
  unfold h_owner, hfilter, hctx. induction h as [|[[c0 e0] l0] h IH]; cbn [map find fst snd]; [reflexivity|].
  destruct (Z.eqb c0 c); [reflexivity | exact IH].
Qed.

(* what [rebuilt] does to the entries of a context type none of whose instances is built *)
Lemma rebuilt_other sc built : forall h c, (forall p, In p built -> fst p <> c) ->
  (forall e, held_lookup (rebuilt sc h built) c e = held_lookup h c e) /\ h_owner (rebuilt sc h built) c = h_owner h c.
Proof.
  induction built as [|[c0 e0] built IH]; intros h c Hne; [split; reflexivity|].
  cbn [rebuilt fold_left fst snd]. fold (rebuilt sc (held_set h c0 e0 (inputs_of_spec (cfg_lookup sc c0 e0))) built).
  destruct (IH (held_set h c0 e0 (inputs_of_spec (cfg_lookup sc c0 e0))) c) as [I1 I2]; [intros p Hp; apply Hne; right; exact Hp|].
  assert (E : Z.eqb c0 c = false) by (apply Z.eqb_neq; exact (Hne (c0, e0) (or_introl eq_refl))).
  split.
  - intros e. rewrite I1, held_lookup_set, E. reflexivity.
  - rewrite I2, h_owner_set, E. reflexivity.
Qed.
(* ... and to the entries it builds *)
Lemma rebuilt_built sc built : forall h c e, In (c, e) built ->
  held_lookup (rebuilt sc h built) c e = inputs_of_spec (cfg_lookup sc c e).
Proof.
  induction built as [|[c0 e0] built IH] using rev_ind; intros h c e Hin; [destruct Hin|].
  rewrite rebuilt_app. cbn [rebuilt fold_left fst snd]. rewrite held_lookup_set.
  destruct (Z.eqb c0 c && Z.eqb e0 e) eqn:E.
  - apply andb_true_iff in E. destruct E as [E1 E2]. apply Z.eqb_eq in E1, E2. subst. reflexivity.
  - apply in_app_or in Hin. destruct Hin as [Hin|[Hin|[]]]; [apply IH; exact Hin|].
    inversion Hin; subst. rewrite !Z.eqb_refl in E. discriminate.
Qed.

(* ================================================================================================ *)
(* 3. the invariant: stored instances against the configuration and the held map                    *)
(* ================================================================================================ *)
Definition stored_sk (b : ibind) : bool := ib_ignored b.
Definition inst_sim (l : list input) (i : inst) (s : inst_spec) : Prop :=
  in_pad i = i_pad s /\ Forall2 (ab_sim stored_sk l) (in_binds i) (merged_actions s).

Definition group_rel (sc : scenario) (h : held_map) (g : group) : Prop :=
  match g with
  | GExcl c _ insts => Forall (fun ei => inst_sim (held_lookup h c (fst ei)) (snd ei) (cfg_lookup sc c (fst ei))) insts
  | GShared c _ _ i => exists e0, h_owner h c = Some e0 /\ inst_sim (held_lookup h c e0) i (cfg_lookup sc c e0)
  end.
Definition h_inv (sc : scenario) (r : registry) (h : held_map) : Prop := Forall (group_rel sc h) r.

Lemma group_rel_other sc h h' g :
  (forall e, held_lookup h' (g_ctx g) e = held_lookup h (g_ctx g) e) -> h_owner h' (g_ctx g) = h_owner h (g_ctx g) ->
  group_rel sc h g -> group_rel sc h' g.
Proof.
  destruct g as [c p insts|c p ents i]; cbn [group_rel g_ctx]; intros H1 H2 H.
  - eapply Forall_impl; [|exact H]. intros ei Hei. cbv beta in *. rewrite H1. exact Hei.
  - destruct H as (e0 & Ho & Hs). exists e0. rewrite H2, H1. split; assumption.
Qed.

(* a freshly built instance: every input is in the configuration's input list *)
Lemma extend_inputs (L : list input) s bs bs' :
  extend s bs = Some bs' -> (forall b, In b (a_binds s) -> In (b_input b) L) ->
  Forall (fun ab => Forall (fun ib => In (ib_input ib) L) (ab_inputs ab)) bs ->
  Forall (fun ab => Forall (fun ib => In (ib_input ib) L) (ab_inputs ab)) bs'.
Proof.
  intros He HL. revert bs' He. induction bs as [|b r IH]; intros bs' He Hf; cbn [extend] in He; [discriminate|].
  inversion Hf as [|x l Hb Hr]; subst.
  destruct (Z.eqb (ab_id b) (a_id s)).
  - inversion He; subst. constructor; [|exact Hr]. cbn [ab_inputs]. apply Forall_app. split; [exact Hb|].
    apply Forall_forall. intros ib Hin. apply in_map_iff in Hin. destruct Hin as (x & <- & Hx). apply HL. exact Hx.
  - destruct (extend s r) as [r'|]; [|discriminate]. inversion He; subst. constructor; [exact Hb|]. apply IH; [reflexivity | exact Hr].
Qed.
Lemma instantiate_inputs s :
  Forall (fun ab => Forall (fun ib => In (ib_input ib) (inputs_of_spec s)) (ab_inputs ab)) (in_binds (instantiate s)).
Proof.
  unfold instantiate, inputs_of_spec.
  assert (G : forall l i, incl l (i_actions s) ->
              Forall (fun ab => Forall (fun ib => In (ib_input ib) (flat_map (fun a => map b_input (a_binds a)) (i_actions s))) (ab_inputs ab)) (in_binds i) ->
              Forall (fun ab => Forall (fun ib => In (ib_input ib) (flat_map (fun a => map b_input (a_binds a)) (i_actions s))) (ab_inputs ab))
                     (in_binds (fold_left bind_action l i))).
  { induction l as [|x r IH]; intros i Hl Hi; cbn [fold_left]; [exact Hi|].
    assert (HL : forall b, In b (a_binds x) -> In (b_input b) (flat_map (fun a => map b_input (a_binds a)) (i_actions s))).
    { intros b Hb. apply in_flat_map. exists x. split; [apply Hl; left; reflexivity | apply in_map; exact Hb]. }
    apply IH; [intros y Hy; apply Hl; right; exact Hy|]. unfold bind_action.
    destruct (extend x (in_binds i)) as [bs'|] eqn:E; cbn [in_binds].
    - eapply extend_inputs; eassumption.
    - apply Forall_app. split; [exact Hi|]. constructor; [|constructor]. cbn [ab_inputs].
      apply Forall_forall. intros ib Hin. apply in_map_iff in Hin. destruct Hin as (y & <- & Hy). apply HL. exact Hy. }
  apply G; [apply incl_refl | constructor].
Qed.
Lemma fresh_sim s : inst_sim (inputs_of_spec s) (instantiate s) s.
Proof.
  split; [apply instantiate_pad|]. unfold merged_actions. apply Forall2_refl_in. intros ab Hab.
  pose proof (instantiate_inputs s) as H. rewrite Forall_forall in H. specialize (H ab Hab).
  split; [reflexivity|]. split; [reflexivity|]. apply Forall2_refl_in. intros ib Hib. rewrite Forall_forall in H.
  split; [reflexivity|]. split; [reflexivity|]. split; [reflexivity|]. intros _. apply H. exact Hib.
Qed.

(* ================================================================================================ *)
(* 4. one registry update: the flags against the filtered held map, and the log                     *)
(* ================================================================================================ *)
Lemma phys_active_phys r dev i : phys_active r dev i = phys r dev i.
Proof.
  unfold phys_active, phys. rewrite read_raw. destruct i as [k m|b m|m|m|b|a]; cbn [spec_read r_keys r_mbuttons r_motion r_wheel r_pads]; reflexivity.
Qed.

Definition frame_sk (r : raw) (dev : device) (b : ibind) : bool := ib_ignored b && phys r dev (ib_input b).

Lemma Forall2_Forall {A B} (R : A -> B -> Prop) (P : A -> Prop) (Q : B -> Prop) l1 l2 :
  (forall a b, R a b -> P a -> Q b) -> Forall2 R l1 l2 -> Forall P l1 -> Forall Q l2.
Proof.
  intros H. induction 1 as [|a b l1 l2 Hab _ IH]; intros HP; [constructor|].
  inversion HP; subst. constructor; [eapply H; eassumption | apply IH; assumption].
Qed.

(* after the update: a binding still suppressed was suppressed and active, hence is in the filtered held list *)
Lemma inst_sim_step r l i i' s : inst_sim l i s -> flags_step r i i' ->
  inst_sim (filter (fun x => phys_active r (i_pad s) x) l) i' s.
Proof.
  intros [Hp Hb] [Hp' Hb']. split; [congruence|].
  refine (Forall2_compose_l _ _ _ _ _ _ _ Hb' Hb). intros ab ab' ab0 (_ & Sm & Sc & Si) (Hm & Hc & Hi).
  split; [congruence|]. split; [congruence|].
  refine (Forall2_compose_l _ _ _ _ _ _ _ Si Hi). intros b b' b0 (Ti & Tm & Tc & Tf & _) (Ui & Um & Uc & Uh).
  split; [congruence|]. split; [congruence|]. split; [congruence|].
  unfold stored_sk in *. rewrite Tf, Ti. intros H. apply andb_true_iff in H. destruct H as [H1 H2].
  apply filter_In. split; [exact (Uh H1)|]. rewrite phys_active_phys, <- Hp. exact H2.
Qed.
(* during the update: a binding that is skipped is in the filtered held list *)
Lemma inst_sim_frame r l i s : inst_sim l i s ->
  Forall2 (ab_sim (frame_sk r (in_pad i)) (filter (fun x => phys_active r (i_pad s) x) l)) (in_binds i) (merged_actions s).
Proof.
  intros [Hp Hb]. eapply Forall2_impl; [|exact Hb]. intros ab ab0 (Hm & Hc & Hi).
  split; [exact Hm|]. split; [exact Hc|]. eapply Forall2_impl; [|exact Hi]. intros b b0 (Ui & Um & Uc & Uh).
  split; [exact Ui|]. split; [exact Um|]. split; [exact Uc|]. unfold frame_sk, stored_sk in *. intros H.
  apply andb_true_iff in H. destruct H as [H1 H2]. apply filter_In. split; [exact (Uh H1)|].
  rewrite phys_active_phys, <- Hp. exact H2.
Qed.

Lemma group_rel_step sc r h g g' : group_rel sc h g -> group_flags_step r g g' -> group_rel sc (hfilter sc r h) g'.
Proof.
  destruct g as [c p insts|c p ents i], g' as [c' p' insts'|c' p' ents' i']; cbn [group_rel group_flags_step]; intros H S; try contradiction.
  - destruct S as (-> & _ & S). refine (Forall2_Forall _ _ _ _ _ _ S H). intros [e i] [e' i'] [E F] Hs. cbn [fst snd] in *. subst e'.
    rewrite held_lookup_filter. apply (inst_sim_step r _ i i' _ Hs F).
  - destruct S as (-> & _ & _ & F). destruct H as (e0 & Ho & Hs). exists e0. rewrite h_owner_filter, held_lookup_filter.
    split; [exact Ho | exact (inst_sim_step r _ i i' _ Hs F)].
Qed.
Lemma h_inv_update sc tm r c gs h : h_inv sc gs h -> h_inv sc (ro_reg (reg_update tm r c gs)) (hfilter sc r h).
Proof.
  unfold h_inv. intros H. refine (Forall2_Forall _ _ _ _ _ _ (reg_update_flags tm r gs c) H).
  intros g g' S Hg. exact (group_rel_step sc r h g g' Hg S).
Qed.

(* the ids logged by one registry update, by group and instance *)
Definition inst_ids (r : raw) (i : inst) : list Z := flat_map (sk_abind_ids (frame_sk r (in_pad i))) (in_binds i).
Definition group_ids (r : raw) (g : group) : list Z :=
  match g with
  | GExcl _ _ insts => flat_map (fun ei => inst_ids r (snd ei)) insts
  | GShared _ _ _ i => inst_ids r i
  end.

Lemma log_ids_map l : log_ids l = map log_id l.
Proof. unfold log_ids. apply map_ext. intros [? ? ? ?|? ? ? ?]; reflexivity. Qed.
Lemma log_ids_app l1 l2 : log_ids (l1 ++ l2) = log_ids l1 ++ log_ids l2.
Proof. unfold log_ids. apply map_app. Qed.

Lemma binds_update_log_ids tm r dev recips bs : forall m c,
  log_ids (snd (binds_update m tm r c dev recips bs)) = flat_map (sk_abind_ids (frame_sk r dev)) bs.
Proof.
  induction bs as [|b rest IH]; intros m c; cbn [binds_update]; [reflexivity|]. cbv zeta.
  set (o := action_update m tm r c dev recips b).
  specialize (IH (o_actions o) (o_consumed o)).
  destruct (binds_update (o_actions o) tm r (o_consumed o) dev recips rest) as [[[[rest' m'] c'] ev] lg].
  cbn [snd flat_map] in *. rewrite log_ids_app, IH. f_equal.
  rewrite log_ids_map. unfold o. rewrite action_update_ids, action_ids_live. reflexivity.
Qed.
Lemma inst_update_log_ids tm r c recips i : log_ids (io_log (inst_update tm r c recips i)) = inst_ids r i.
Proof.
  unfold inst_update, inst_ids. pose proof (binds_update_log_ids tm r (in_pad i) recips (in_binds i) (in_actions i) c) as H.
  destruct (binds_update (in_actions i) tm r c (in_pad i) recips (in_binds i)) as [[[[bs m] c'] ev] lg]. exact H.
Qed.
Lemma excl_update_log_ids tm r insts : forall c,
  log_ids (snd (excl_update tm r c insts)) = flat_map (fun ei => inst_ids r (snd ei)) insts.
Proof.
  induction insts as [|[e i] rest IH]; intros c; cbn [excl_update]; [reflexivity|]. cbv zeta.
  specialize (IH (io_consumed (inst_update tm r c [e] i))).
  destruct (excl_update tm r (io_consumed (inst_update tm r c [e] i)) rest) as [[[rest' c'] ev] lg].
  cbn [snd flat_map] in *. rewrite log_ids_app, IH, inst_update_log_ids. reflexivity.
Qed.
Lemma reg_update_log_ids tm r gs : forall c, log_ids (ro_log (reg_update tm r c gs)) = flat_map (group_ids r) gs.
Proof.
  induction gs as [|[cx p insts|cx p ents i] gs IH]; intros c; cbn [reg_update]; [reflexivity| |].
  - pose proof (excl_update_log_ids tm r insts c) as He.
    destruct (excl_update tm r c insts) as [[[insts' c'] ev] lg]. cbn [snd] in He. cbv zeta. cbn [ro_log flat_map group_ids].
    rewrite log_ids_app, He, IH. reflexivity.
  - cbv zeta. cbn [ro_log flat_map group_ids]. rewrite log_ids_app, inst_update_log_ids, IH. reflexivity.
Qed.

(* ================================================================================================ *)
(* 5. the judgement's fold over the evaluated instances accepts the log of a registry update         *)
(* ================================================================================================ *)
Definition jstep (sc : scenario) (h1 : held_map) (acc : option (list Z)) (ce : Z * Z) : option (list Z) :=
  match acc with
  | None => None
  | Some l =>
      let '(c, e) := ce in
      let owner := match find (fun x => Z.eqb (fst (fst x)) c) h1 with Some x => snd (fst x) | None => e end in
      let e' := if ctx_shared c then owner else e in
      eat_actions (fun i => existsb (input_eqb i) (held_lookup h1 c e')) (merged_actions (cfg_lookup sc c e')) l
  end.

Lemma judge_steps_frame sc h before f steps o outs :
  judge_steps sc h before (SFrame f :: steps) (o :: outs) =
  (1, match fold_left (jstep sc (hfilter sc (f_raw f) h)) (evaluated sc before) (Some (log_ids (x_log o))) with
      | Some [] => true | _ => false end)
  :: (8, negb (x_panicked o)) :: judge_steps sc (rebuilt sc (hfilter sc (f_raw f) h) (x_built o)) o steps outs.
Proof. reflexivity. Qed.
Lemma judge_steps_op sc h before op steps o outs :
  judge_steps sc h before (SOp op :: steps) (o :: outs) =
  (8, negb (x_panicked o)) :: judge_steps sc (rebuilt sc h (x_built o)) o steps outs.
Proof. reflexivity. Qed.

Definition cfg_ids (sc : scenario) (c e : Z) : list Z := abinds_all_ids (merged_actions (cfg_lookup sc c e)).
(* ids are unique inside every configuration and disjoint across context types *)
Definition uniq_ids (sc : scenario) : Prop :=
  (forall c e, NoDup (cfg_ids sc c e)) /\
  (forall c1 e1 c2 e2 x, c1 <> c2 -> In x (cfg_ids sc c1 e1) -> ~ In x (cfg_ids sc c2 e2)).

Definition excl_single (rep : Z -> Z) (g : group) : Prop :=
  match g with GExcl c _ insts => exists i, insts = [(rep c, i)] | GShared _ _ _ _ => True end.

Lemma inst_ids_sub r l i s : inst_sim l i s -> incl (inst_ids r i) (abinds_all_ids (merged_actions s)).
Proof. intros H. unfold inst_ids. eapply sk_abinds_sub. apply inst_sim_frame. exact H. Qed.

Lemma group_ids_sub sc r h g x : group_rel sc h g -> In x (group_ids r g) -> exists e, In x (cfg_ids sc (g_ctx g) e).
Proof.
  destruct g as [c p insts|c p ents i]; cbn [group_rel group_ids g_ctx]; intros H Hx.
  - apply in_flat_map in Hx. destruct Hx as ([e i] & Hin & Hx). rewrite Forall_forall in H. specialize (H _ Hin). cbn [fst snd] in *.
    exists e. exact (inst_ids_sub r _ _ _ H x Hx).
  - destruct H as (e0 & _ & H). exists e0. exact (inst_ids_sub r _ _ _ H x Hx).
Qed.

Lemma jstep_group sc r h g rep rest :
  uniq_ids sc -> group_rel sc h g -> g_shared g = ctx_shared (g_ctx g) -> excl_single rep g ->
  (forall x e, In x (cfg_ids sc (g_ctx g) e) -> ~ In x rest) ->
  jstep sc (hfilter sc r h) (Some (group_ids r g ++ rest)) (g_ctx g, rep (g_ctx g)) = Some rest.
Proof.
  intros [U1 _] Hrel Hsh Hsingle Hdis.
  destruct g as [c p insts|c p ents i]; cbn [group_rel group_ids g_ctx g_shared excl_single jstep] in *.
  - rewrite <- Hsh. destruct Hsingle as (i & ->). cbn [flat_map]. rewrite app_nil_r.
    inversion Hrel as [|? ? Hs _]; subst. cbn [fst snd] in Hs.
    rewrite held_lookup_filter. apply (eat_actions_ok _ _ _ _ (inst_sim_frame r _ i _ Hs)); [apply U1 | intros y Hy; exact (Hdis y _ Hy)].
  - rewrite <- Hsh. destruct Hrel as (e0 & Ho & Hs).
    pose proof (h_owner_filter sc r h c) as Ho'. rewrite Ho in Ho'. unfold h_owner, hctx in Ho'.
    destruct (find (fun x : Z * Z * list input => Z.eqb (fst (fst x)) c) (hfilter sc r h)) as [x|]; [|discriminate].
    cbn [option_map] in Ho'. inversion Ho' as [E]. rewrite E.
    rewrite held_lookup_filter. apply (eat_actions_ok _ _ _ _ (inst_sim_frame r _ i _ Hs)); [apply U1 | intros y Hy; exact (Hdis y _ Hy)].
Qed.

Lemma jfold_ok sc r h rep gs : uniq_ids sc -> NoDup (map g_ctx gs) -> Forall (group_rel sc h) gs ->
  Forall (fun g => g_shared g = ctx_shared (g_ctx g)) gs -> Forall (excl_single rep) gs -> forall rest,
  (forall g x e, In g gs -> In x (cfg_ids sc (g_ctx g) e) -> ~ In x rest) ->
  fold_left (jstep sc (hfilter sc r h)) (map (fun g => (g_ctx g, rep (g_ctx g))) gs) (Some (flat_map (group_ids r) gs ++ rest)) = Some rest.
Proof.
  intros U. induction gs as [|g gs IH]; intros Hnd Hrel Hsh Hsi rest Hdis; [reflexivity|].
  cbn [map flat_map fold_left]. inversion Hnd as [|? ? Hg Hnd']; subst. inversion Hrel; subst. inversion Hsh; subst. inversion Hsi; subst.
  rewrite <- app_assoc, jstep_group; try assumption.
  - apply IH; try assumption. intros g' x e Hg'. apply Hdis. right. exact Hg'.
  - intros x e Hx Hin. apply in_app_or in Hin. destruct Hin as [Hin|Hin]; [|exact (Hdis g x e (or_introl eq_refl) Hx Hin)].
    apply in_flat_map in Hin. destruct Hin as (g' & Hg' & Hx').
    assert (Hr' : group_rel sc h g') by (rewrite Forall_forall in *; auto).
    destruct (group_ids_sub sc r h g' x Hr' Hx') as (e' & He').
    destruct U as [_ U2]. apply (U2 (g_ctx g) e (g_ctx g') e' x); [|exact Hx | exact He'].
    intros E. apply Hg. rewrite E. apply in_map. exact Hg'.
Qed.

(* ================================================================================================ *)
(* 6. the judgement's evaluation order is the registry's                                            *)
(* ================================================================================================ *)
Definition got (r : registry) (c e : Z) : bool := match reg_get c e r with Some _ => true | None => false end.
(* [before] shows the mirror of world [w] *)
Definition mirror_ok (sc : scenario) (w : world) (before : out) : Prop :=
  forall c, In c (s_menu sc) -> holders c before = filter (got (w_reg w) c) (s_ents sc).
(* every (entity, context type) pair held in [w] was inserted by an operation listed in T *)
Definition tgt_inv (T : list (Z * Z)) (w : world) : Prop := forall c e, holds (w_holds w) c e -> In (e, c) T.

Record facts (sc : scenario) (T : list (Z * Z)) : Prop := mkFacts {
  f_prio : NoDup (map ctx_prio (s_menu sc));
  f_ents : NoDup (s_ents sc);
  f_in : forall e c, In (e, c) T -> In c (s_menu sc) -> In e (s_ents sc);
  f_single : forall e1 e2 c, In (e1, c) T -> In (e2, c) T -> In c (s_menu sc) -> ctx_shared c = false -> e1 = e2;
  f_uniq : uniq_ids sc }.

Lemma NoDup_map_inj {A B} (f : A -> B) l a b : NoDup (map f l) -> In a l -> In b l -> f a = f b -> a = b.
Proof.
  induction l as [|x l IH]; cbn [map]; intros Hd Ha Hb E; [destruct Ha|]. inversion Hd as [|? ? Hx Hd']; subst.
  destruct Ha as [->|Ha], Hb as [->|Hb]; [reflexivity | | |exact (IH Hd' Ha Hb E)]; exfalso; apply Hx.
  - rewrite E. apply in_map. exact Hb.
  - rewrite <- E. apply in_map. exact Ha.
Qed.
Lemma NoDup_map_opp (f : Z -> Z) l : NoDup (map f l) -> NoDup (map (fun c => - f c) l).
Proof.
  induction l as [|x l IH]; cbn [map]; intros Hd; [constructor|]. inversion Hd as [|? ? Hx Hd']; subst.
  constructor; [|apply IH; exact Hd']. intros H. apply in_map_iff in H. destruct H as (y & E & Hy).
  apply Hx. replace (f x) with (f y) by lia. apply in_map. exact Hy.
Qed.
Lemma NoDup_map_NoDup {A B} (f : A -> B) l : NoDup (map f l) -> NoDup l.
Proof.
  induction l as [|x l IH]; cbn [map]; intros Hd; [constructor|]. inversion Hd as [|? ? Hx Hd']; subst.
  constructor; [|apply IH; exact Hd']. intros H. apply Hx. apply in_map. exact H.
Qed.

Lemma holders_model sc w o c : x_mirror o = model_mirror sc w -> NoDup (s_menu sc) -> In c (s_menu sc) ->
  holders c o = filter (got (w_reg w) c) (s_ents sc).
Proof.
  intros Hx Hd Hc. unfold holders. rewrite Hx. unfold model_mirror.
  set (G := fun m : mirror_entry => match m with mi c' e g _ => if Z.eqb c c' && g then [e] else [] end).
  set (K := fun c' : Z => map (fun e => mi c' e (match reg_get c' e (w_reg w) with Some _ => true | None => false end)
                                      (match holds_of e (w_holds w) with Some cs => memz c' cs | None => false end)) (s_ents sc)).
  assert (HK : forall c', flat_map G (K c') = if Z.eqb c c' then filter (got (w_reg w) c) (s_ents sc) else []).
  { intros c'. unfold K. induction (s_ents sc) as [|e l IH]; cbn [map flat_map filter]; [destruct (Z.eqb c c'); reflexivity|].
    rewrite IH. unfold G at 1. unfold got at 2. destruct (Z.eqb c c') eqn:E; [|reflexivity].
    apply Z.eqb_eq in E. subst c'. cbn [andb]. destruct (reg_get c e (w_reg w)); reflexivity. }
  assert (GEN : forall menu, NoDup menu -> flat_map G (flat_map K menu) = if memz c menu then filter (got (w_reg w) c) (s_ents sc) else []).
  { induction menu as [|x menu IH]; intros Hnd; [reflexivity|]. inversion Hnd as [|? ? Hx' Hnd']; subst.
    cbn [flat_map]. rewrite flat_map_app, HK, (IH Hnd'). unfold memz. cbn [existsb]. fold (memz c menu).
    destruct (Z.eqb c x) eqn:E; [|reflexivity]. apply Z.eqb_eq in E. subst x.
    replace (memz c menu) with false by (symmetry; apply memz_false; exact Hx'). cbn [orb]. apply app_nil_r. }
  rewrite (GEN _ Hd). replace (memz c (s_menu sc)) with true by (symmetry; apply memz_in; exact Hc). reflexivity.
Qed.

Lemma reg_ctx_menu sc w g : reg_inv sc w -> In g (w_reg w) -> In (g_ctx g) (s_menu sc).
Proof.
  intros Hinv Hg. pose proof Hinv as (_ & _ & Hok & _ & _ & Hcs). rewrite Forall_forall in Hok.
  destruct (Hok g Hg) as (_ & _ & Hne & _). destruct (g_ents g) as [|e l] eqn:E; [congruence|].
  assert (He : In e (g_ents g)) by (rewrite E; left; reflexivity).
  apply (inv_holds_group sc w g Hinv Hg) in He. destruct He as (cs & H1 & H2).
  apply (Hcs e cs H1). apply memz_in. exact H2.
Qed.

Lemma desc_ssorted r : StronglySorted Z.ge (map g_prio r) -> (forall g, In g r -> g_prio g = ctx_prio (g_ctx g)) ->
  NoDup (map g_ctx r) ->
  (forall g1 g2, In g1 r -> In g2 r -> ctx_prio (g_ctx g1) = ctx_prio (g_ctx g2) -> g_ctx g1 = g_ctx g2) ->
  ssorted (fun c => - ctx_prio c) (map g_ctx r).
Proof.
  induction r as [|g r IH]; cbn [map]; intros Hs Hp Hd Hinj; [constructor|].
  apply StronglySorted_inv in Hs. destruct Hs as [Hs Hf]. inversion Hd as [|? ? Hg Hd']; subst.
  constructor.
  - apply IH; [exact Hs | intros g' Hg'; apply Hp; right; exact Hg' | exact Hd' |].
    intros g1 g2 H1 H2. apply Hinj; right; assumption.
  - apply Forall_forall. intros c' Hc'. apply in_map_iff in Hc'. destruct Hc' as (g' & <- & Hg').
    rewrite Forall_forall in Hf. specialize (Hf (g_prio g') (in_map g_prio r g' Hg')).
    rewrite (Hp g (or_introl eq_refl)), (Hp g' (or_intror Hg')) in Hf.
    assert (ctx_prio (g_ctx g) <> ctx_prio (g_ctx g')); [|lia].
    intros E. apply Hg. rewrite (Hinj g g' (or_introl eq_refl) (or_intror Hg') E). apply in_map. exact Hg'.
Qed.

Definition rep (before : out) (c : Z) : Z := hd 0 (holders c before).

Section Order.
  Variables (sc : scenario) (T : list (Z * Z)) (w : world) (before : out).
  Hypothesis HF : facts sc T.
  Hypothesis Hinv : reg_inv sc w.
  Hypothesis HT : tgt_inv T w.
  Hypothesis HM : mirror_ok sc w before.

  Lemma got_holds c e : got (w_reg w) c e = true <-> holds (w_holds w) c e.
  Proof.
    destruct Hinv as (_ & _ & _ & Hm & _). unfold holds. rewrite <- (Hm c e). unfold got.
    destruct (reg_get c e (w_reg w)); split; intros H; congruence.
  Qed.

  Lemma holders_cases c : In c (s_menu sc) ->
    (memz c (map g_ctx (w_reg w)) = false /\ holders c before = []) \/
    (memz c (map g_ctx (w_reg w)) = true /\ exists e1 rest, holders c before = e1 :: rest /\ (ctx_shared c = false -> rest = [])).
  Proof.
    intros Hc. rewrite (HM c Hc). destruct (memz c (map g_ctx (w_reg w))) eqn:E.
    - right. split; [reflexivity|]. apply memz_in in E.
      assert (Hi : index_of c (w_reg w) <> None) by (intros H; apply index_of_none in H; contradiction).
      apply (inv_group_exists sc w c Hinv) in Hi. destruct Hi as (e & He).
      assert (Hin : In e (filter (got (w_reg w) c) (s_ents sc))).
      { apply filter_In. split; [exact (f_in sc T HF e c (HT c e He) Hc) | apply got_holds; exact He]. }
      destruct (filter (got (w_reg w) c) (s_ents sc)) as [|e1 rest] eqn:Ef; [destruct Hin|].
      exists e1, rest. split; [reflexivity|]. intros Hx.
      assert (Hall : forall x, In x (e1 :: rest) -> x = e1).
      { assert (H1 : In e1 (filter (got (w_reg w) c) (s_ents sc))) by (rewrite Ef; left; reflexivity).
        apply filter_In in H1. destruct H1 as [_ H1]. apply got_holds in H1.
        intros x Hxin. rewrite <- Ef in Hxin. apply filter_In in Hxin. destruct Hxin as [_ H2]. apply got_holds in H2.
        exact (f_single sc T HF x e1 c (HT c x H2) (HT c e1 H1) Hc Hx). }
      assert (Hnd : NoDup (e1 :: rest)) by (rewrite <- Ef; apply NoDup_filter; exact (f_ents sc T HF)).
      assert (E1 : e1 :: rest = [e1]) by (apply nodup_all_eq; [exact Hnd | discriminate | exact Hall]).
      inversion E1. reflexivity.
    - left. split; [reflexivity|]. apply filter_none. intros e _. unfold got.
      rewrite reg_get_absent; [reflexivity|]. apply memz_false. exact E.
  Qed.

  Lemma registry_single : Forall (excl_single (rep before)) (w_reg w).
  Proof.
    apply Forall_forall. intros g Hg. destruct g as [c p insts|c p ents i]; cbn [excl_single]; [|exact I].
    pose proof Hinv as (_ & _ & Hok & _). rewrite Forall_forall in Hok.
    destruct (Hok _ Hg) as (_ & Hsh & Hne & Hnd & _). cbn [g_shared g_ctx g_ents] in *.
    assert (Hc : In c (s_menu sc)) by exact (reg_ctx_menu sc w _ Hinv Hg).
    destruct (holders_cases c Hc) as [[E _]|(_ & e1 & rest & Eh & Hrest)].
    { exfalso. apply memz_false in E. apply E. change c with (g_ctx (GExcl c p insts)). apply in_map. exact Hg. }
    rewrite (Hrest (eq_sym Hsh)) in Eh.
    assert (Hall : forall x, In x (map fst insts) -> x = e1).
    { intros x Hx. apply (inv_holds_group sc w _ Hinv Hg) in Hx. cbn [g_ctx] in Hx.
      assert (Hin : In x (holders c before)).
      { rewrite (HM c Hc). apply filter_In. split; [exact (f_in sc T HF x c (HT c x Hx) Hc) | apply got_holds; exact Hx]. }
      rewrite Eh in Hin. destruct Hin as [<-|[]]. reflexivity. }
    pose proof (nodup_all_eq e1 (map fst insts) Hnd Hne Hall) as E1.
    unfold rep. rewrite Eh. cbn [hd]. destruct insts as [|[e i] [|? ?]]; try discriminate. cbn in E1. inversion E1. exists i. reflexivity.
  Qed.

  Lemma evaluated_registry : evaluated sc before = map (fun g => (g_ctx g, rep before (g_ctx g))) (w_reg w).
  Proof.
    unfold evaluated.
    pose proof (f_prio sc T HF) as Hp.
    destruct (sort_by_spec (fun c => - ctx_prio c) (s_menu sc) (NoDup_map_opp ctx_prio _ Hp)) as [S1 S2].
    rewrite (flat_map_filter_map _ (fun c => memz c (map g_ctx (w_reg w))) (fun c => (c, rep before c))).
    - rewrite <- (map_map g_ctx (fun c => (c, rep before c))). f_equal.
      apply (ssorted_unique (fun c => - ctx_prio c)); [apply ssorted_filter; exact S1| |].
      + pose proof Hinv as (Hs & Hd & Hok & _). rewrite Forall_forall in Hok. apply desc_ssorted; [exact Hs | | exact Hd |].
        * intros g Hg. apply (Hok g Hg).
        * intros g1 g2 H1 H2. apply (NoDup_map_inj ctx_prio (s_menu sc)); [exact Hp | |]; apply (reg_ctx_menu sc w); assumption.
      + intros c. rewrite filter_In, S2, memz_in. split; [tauto|]. intros H. split; [|exact H].
        apply in_map_iff in H. destruct H as (g & <- & Hg). exact (reg_ctx_menu sc w g Hinv Hg).
    - intros c Hc. apply S2 in Hc. destruct (holders_cases c Hc) as [[-> ->]|(-> & e1 & rest & Eh & Hrest)]; [reflexivity|].
      unfold rep. rewrite Eh. cbn [hd]. destruct (ctx_shared c); [reflexivity|]. rewrite (Hrest eq_refl). reflexivity.
  Qed.
End Order.

(* ================================================================================================ *)
(* 7. R1: one registry update from any world satisfying the invariant                               *)
(* ================================================================================================ *)
Definition OInv (sc : scenario) (T : list (Z * Z)) (w : world) (h : held_map) : Prop :=
  reg_inv sc w /\ h_inv sc (w_reg w) h /\ tgt_inv T w.

Theorem frame_clause sc T w h before tm r c0 :
  facts sc T -> OInv sc T w h -> mirror_ok sc w before ->
  fold_left (jstep sc (hfilter sc r h)) (evaluated sc before) (Some (log_ids (ro_log (reg_update tm r c0 (w_reg w))))) = Some [].
Proof.
  intros HF (Hinv & Hh & HT) HM.
  rewrite (evaluated_registry sc T w before HF Hinv HT HM), reg_update_log_ids.
  rewrite <- (app_nil_r (flat_map (group_ids r) (w_reg w))).
  pose proof Hinv as (_ & Hd & Hok & _).
  apply jfold_ok; [exact (f_uniq sc T HF) | exact Hd | exact Hh | | exact (registry_single sc T w before HF Hinv HT HM) | intros g x e _ _ []].
  eapply Forall_impl; [|exact Hok]. intros g (_ & H & _). exact H.
Qed.

(* ================================================================================================ *)
(* 8. R2: the invariant through operations                                                          *)
(* ================================================================================================ *)
Lemma rebuilt_one sc h c e : rebuilt sc h [(c, e)] = held_set h c e (inputs_of_spec (cfg_lookup sc c e)).
Proof. reflexivity. Qed.

Lemma group_rel_set_other sc h c e l g : g_ctx g <> c -> group_rel sc h g -> group_rel sc (held_set h c e l) g.
Proof.
  intros Hne. apply group_rel_other.
  - intros e'. rewrite held_lookup_set. replace (Z.eqb c (g_ctx g)) with false by (symmetry; apply Z.eqb_neq; congruence). reflexivity.
  - rewrite h_owner_set. replace (Z.eqb c (g_ctx g)) with false by (symmetry; apply Z.eqb_neq; congruence). reflexivity.
Qed.
Lemma Forall_rel_set_other sc h c e l gs : ~ In c (map g_ctx gs) -> Forall (group_rel sc h) gs -> Forall (group_rel sc (held_set h c e l)) gs.
Proof.
  intros Hn H. apply Forall_forall. intros g Hg. rewrite Forall_forall in H. apply group_rel_set_other; [|apply H; exact Hg].
  intros E. apply Hn. rewrite <- E. apply in_map. exact Hg.
Qed.

Definition add_built (c e : Z) (r : registry) : list (Z * Z) :=
  match index_of c r with Some _ => if ctx_shared c then [] else [(c, e)] | None => [(c, e)] end.

Lemma reg_add_hinv sc c e r h : reg_wf r -> h_inv sc r h -> ~ holds_in c e r ->
  h_inv sc (reg_add (mk_inst sc c) c e r) (rebuilt sc h (add_built c e r)).
Proof.
  intros Hwf Hh Hnh. unfold add_built, h_inv in *. destruct (index_of c r) as [n|] eqn:Ei.
  - destruct (index_of_some c r n Ei) as (l1 & g & l2 & -> & _ & Hc & Hn1).
    destruct (reg_wf_absent _ _ _ Hwf) as [_ Hn2]. rewrite Hc in Hn2.
    destruct (reg_wf_group _ _ _ Hwf) as (_ & Hsh & _). rewrite Hc in Hsh.
    rewrite (reg_add_old _ c e l1 g l2 Hn1 Hc).
    apply Forall_app in Hh. destruct Hh as [H1 H2]. inversion H2 as [|? ? Hg H3]; subst.
    assert (Hne : ~ In e (g_ents g)).
    { intros H. apply Hnh. exists g. split; [apply in_or_app; right; left; reflexivity | split; [reflexivity | exact H]]. }
    destruct g as [c0 p insts|c0 p ents i]; cbn [g_ctx g_shared g_ents add_ent group_rel] in *.
    + rewrite <- Hsh, rebuilt_one. apply Forall_app. split; [apply Forall_rel_set_other; assumption|].
      constructor; [|apply Forall_rel_set_other; assumption]. cbn [group_rel]. apply Forall_app. split.
      * apply Forall_forall. intros [e' i'] Hin. rewrite Forall_forall in Hg. specialize (Hg _ Hin). cbn [fst snd] in *.
        rewrite held_lookup_set. replace (Z.eqb e e') with false; [rewrite andb_false_r; exact Hg|].
        symmetry. apply Z.eqb_neq. intros ->. apply Hne. apply in_map_iff. exists (e', i'). split; [reflexivity | exact Hin].
      * constructor; [|constructor]. cbn [fst snd]. rewrite held_lookup_set, !Z.eqb_refl. cbn [andb]. apply fresh_sim.
    + rewrite <- Hsh. cbn [rebuilt fold_left]. apply Forall_app. split; [exact H1|]. constructor; [exact Hg | exact H3].
  - rewrite (reg_add_new _ c e r Ei), rebuilt_one. apply index_of_none in Ei. apply Forall_insert_at.
    + apply Forall_rel_set_other; assumption.
    + unfold new_group. destruct (ctx_shared c); cbn [group_rel].
      * exists e. rewrite h_owner_set, held_lookup_set, !Z.eqb_refl. cbn [andb]. split; [reflexivity | apply fresh_sim].
      * constructor; [|constructor]. cbn [fst snd]. rewrite held_lookup_set, !Z.eqb_refl. cbn [andb]. apply fresh_sim.
Qed.

Lemma insert_ctx_OInv sc T w h e c : OInv sc T w h -> In (e, c) T ->
  OInv sc T (oo_world (insert_ctx sc w e c)) (rebuilt sc h (oo_built (insert_ctx sc w e c))).
Proof.
  intros (Hinv & Hh & HT) Hin. pose proof (insert_ctx_inv sc w e c Hinv) as Hinv'. unfold insert_ctx in *.
  destruct (holds_of e (w_holds w)) as [cs|] eqn:He; [|split; [exact Hinv | split; assumption]].
  destruct (memz c cs || negb (memz c (s_menu sc))) eqn:Em; [split; [exact Hinv | split; assumption]|].
  cbn [oo_world oo_built w_reg w_holds] in *. apply orb_false_iff in Em. destruct Em as [Em _].
  split; [exact Hinv'|]. split.
  - pose proof (proj1 (reg_inv_alt sc w) Hinv) as (Hwf & Hm & _).
    apply (reg_add_hinv sc c e (w_reg w) h Hwf Hh). intros H. apply Hm in H. destruct H as (cs' & H1 & H2). congruence.
  - intros c' e' H. apply (holds_set_add _ _ _ c He) in H. destruct H as [H|[-> ->]]; [apply HT; exact H | exact Hin].
Qed.

Definition AInv (sc : scenario) (T : list (Z * Z)) (h : held_map) (a : op_out) : Prop :=
  OInv sc T (oo_world a) (rebuilt sc h (oo_built a)).

Lemma spawn_fold_OInv sc T h e cs : (forall c, In c cs -> In (e, c) T) -> forall acc, AInv sc T h acc ->
  AInv sc T h (fold_left (fun acc c => let o := insert_ctx sc (oo_world acc) e c in
                                       mkOpOut (oo_world o) (oo_events acc ++ oo_events o) (oo_built acc ++ oo_built o)) cs acc).
Proof.
  induction cs as [|c cs IH]; intros Hin acc Ha; cbn [fold_left]; [exact Ha|].
  apply IH; [intros c' Hc'; apply Hin; right; exact Hc'|]. unfold AInv in *. cbv zeta. cbn [oo_world oo_built].
  rewrite rebuilt_app. apply insert_ctx_OInv; [exact Ha | apply Hin; left; reflexivity].
Qed.

(* --- removal --- *)
Lemma swap_remove_incl {A} k (l : list A) : incl (swap_remove k l) l.
Proof.
  destruct (nth_error l k) as [x|] eqn:E.
  - intros y Hy. apply (Permutation_in _ (swap_remove_perm k l x E)). right. exact Hy.
  - unfold swap_remove. rewrite E. apply incl_refl.
Qed.

Lemma reg_remove_hinv sc tm c e r r' oevs h : reg_remove tm c e r = Some (r', oevs) -> h_inv sc r h -> h_inv sc r' h.
Proof.
  unfold reg_remove, h_inv. intros H Hh.
  destruct (index_of c r) as [n|]; [|discriminate]. destruct (nth_error r n) as [g|] eqn:En; [|discriminate].
  assert (Hg : group_rel sc h g) by (rewrite Forall_forall in Hh; apply Hh; eapply nth_error_In; exact En).
  destruct g as [c' p insts|c' p ents i].
  - destruct (position (fun ei : Z * inst => Z.eqb (fst ei) e) insts) as [k|]; [|discriminate].
    destruct (nth_error insts k) as [[x i]|]; [|discriminate]. injection H as <- _.
    destruct (swap_remove k insts) as [|q rest] eqn:Es; [apply Forall_remove_at; exact Hh|].
    apply Forall_update_at; [exact Hh|]. intros _ _. cbn [group_rel] in *. rewrite Forall_forall in *.
    intros ei Hei. apply Hg. apply (swap_remove_incl k insts). rewrite Es. exact Hei.
  - destruct (position (Z.eqb e) ents) as [k|]; [|discriminate]. injection H as <- _.
    destruct (swap_remove k ents) as [|q rest]; [apply Forall_remove_at; exact Hh|].
    apply Forall_update_at; [exact Hh|]. intros _ _. exact Hg.
Qed.
Lemma remove_ctx_hinv sc w e c o h : remove_ctx w e c = Some o -> h_inv sc (w_reg w) h ->
  h_inv sc (w_reg (oo_world o)) h /\ oo_built o = [].
Proof.
  unfold remove_ctx. intros H Hh. destruct (holds_of e (w_holds w)) as [cs|]; [|injection H as <-; split; [exact Hh | reflexivity]].
  destruct (negb (memz c cs)); [injection H as <-; split; [exact Hh | reflexivity]|].
  destruct (reg_remove (w_time w) c e (w_reg w)) as [[r' [evs|]]|] eqn:Er; try discriminate. injection H as <-.
  cbn [oo_world w_reg oo_built]. split; [exact (reg_remove_hinv sc _ _ _ _ _ _ h Er Hh) | reflexivity].
Qed.
Lemma remove_ctx_OInv sc T w h e c o : OInv sc T w h -> remove_ctx w e c = Some o -> OInv sc T (oo_world o) h /\ oo_built o = [].
Proof.
  intros (Hinv & Hh & HT) H. destruct (remove_ctx_spec sc w e c Hinv) as (o' & Ho' & Hinv' & Hholds).
  rewrite H in Ho'. injection Ho' as <-. destruct (remove_ctx_hinv sc w e c o h H Hh) as [Hh' Hb].
  split; [|exact Hb]. split; [exact Hinv'|]. split; [exact Hh'|]. intros c' e' Hc. apply Hholds in Hc. apply HT. tauto.
Qed.
Lemma despawn_fold_OInv sc T h e cs : forall a a', fold_left (despawn_f e) cs (Some a) = Some a' ->
  OInv sc T (oo_world a) h -> OInv sc T (oo_world a') h.
Proof.
  induction cs as [|c cs IH]; intros a a' H Ha; cbn [fold_left] in H; [injection H as <-; exact Ha|].
  cbn [despawn_f] in H. destruct (remove_ctx (oo_world a) e c) as [o|] eqn:Er; [|rewrite despawn_f_none in H; discriminate].
  apply (IH _ _ H). cbn [oo_world]. exact (proj1 (remove_ctx_OInv sc T _ h e c o Ha Er)).
Qed.

(* --- rebuild --- *)
Definition built_of (c : Z) (r : registry) : list (Z * Z) :=
  match index_of c r, nth_error r (match index_of c r with Some n => n | None => O end) with
  | Some _, Some (GExcl _ _ insts) => map (fun ei => (c, fst ei)) insts
  | Some _, Some (GShared _ _ (e0 :: _) _) => [(c, e0)]
  | _, _ => []
  end.

Lemma reg_rebuild_hinv sc tm c r r' oevs h : reg_wf r -> h_inv sc r h ->
  reg_rebuild (mk_inst sc c) tm c r = Some (r', oevs) -> h_inv sc r' (rebuilt sc h (built_of c r)).
Proof.
  intros Hwf Hh H. unfold built_of, h_inv in *. destruct (index_of c r) as [n|] eqn:Ei.
  - destruct (index_of_some c r n Ei) as (l1 & g & l2 & -> & Hl & Hc & Hn1).
    destruct (reg_wf_absent _ _ _ Hwf) as [_ Hn2]. rewrite Hc in Hn2.
    destruct (reg_wf_group _ _ _ Hwf) as (_ & _ & Hne & _).
    destruct (reg_rebuild_form _ tm c l1 g l2 r' oevs Hn1 Hc Hne H) as [-> _].
    rewrite <- Hl, nth_error_mid.
    apply Forall_app in Hh. destruct Hh as [H1 H2]. inversion H2 as [|? ? Hg H3]; subst.
    assert (Hother : forall built gs, (forall p, In p built -> fst p = g_ctx g) -> ~ In (g_ctx g) (map g_ctx gs) ->
                       Forall (group_rel sc h) gs -> Forall (group_rel sc (rebuilt sc h built)) gs).
    { intros built gs Hb Hn HF. apply Forall_forall. intros g' Hg'. rewrite Forall_forall in HF.
      assert (Hd : forall p, In p built -> fst p <> g_ctx g').
      { intros p Hp E. apply Hn. rewrite <- (Hb p Hp), E. apply in_map. exact Hg'. }
      destruct (rebuilt_other sc built h (g_ctx g') Hd) as [R1 R2]. apply (group_rel_other sc h); [exact R1 | exact R2 | apply HF; exact Hg']. }
    destruct g as [c0 p insts|c0 p ents i]; cbn [g_ctx g_ents regroup] in *.
    + assert (Hb : forall q, In q (map (fun ei : entity * inst => (c0, fst ei)) insts) -> fst q = c0).
      { intros q Hq. apply in_map_iff in Hq. destruct Hq as (ei & <- & _). reflexivity. }
      apply Forall_app. split; [apply Hother; assumption|]. constructor; [|apply Hother; assumption].
      cbn [group_rel]. apply Forall_forall. intros ei Hei. apply in_map_iff in Hei. destruct Hei as ([e' i'] & <- & Hin). cbn [fst snd].
      rewrite rebuilt_built; [apply fresh_sim|]. apply in_map_iff. exists (e', i'). split; [reflexivity | exact Hin].
    + destruct ents as [|e0 ents]; [congruence|]. cbn [hd].
      assert (Hb : forall q, In q [(c0, e0)] -> fst q = c0) by (intros q [<-|[]]; reflexivity).
      apply Forall_app. split; [apply Hother; assumption|]. constructor; [|apply Hother; assumption].
      cbn [group_rel]. exists e0. rewrite rebuilt_one, h_owner_set, held_lookup_set, !Z.eqb_refl. cbn [andb].
      split; [reflexivity | apply fresh_sim].
  - rewrite (reg_rebuild_absent _ tm c r Ei) in H. injection H as <- _.
    destruct (nth_error r 0) as [[? ? ?|? ? [|? ?] ?]|]; exact Hh.
Qed.

Lemma rebuild_one_AInv sc T h c a a' : rebuild_one sc (Some a) c = Some a' -> AInv sc T h a -> AInv sc T h a'.
Proof.
  unfold AInv. intros H (Hinv & Hh & HT). cbn [rebuild_one] in H. cbv zeta in H.
  fold (built_of c (w_reg (oo_world a))) in H.
  pose proof (proj1 (reg_inv_alt sc _) Hinv) as (Hwf & Hm & Hhw).
  destruct (reg_rebuild_spec (mk_inst sc c) (w_time (oo_world a)) c (w_reg (oo_world a)) Hwf (mk_inst_wf sc c))
    as (r' & evs & Er & Hshape & Hins).
  rewrite Er in H. injection H as <-. cbn [oo_world oo_built]. rewrite rebuilt_app. split; [|split].
  - apply reg_inv_alt. cbn [w_reg w_holds]. split; [eapply same_shape_wf; eassumption|]. split; [|exact Hhw].
    intros c' e'. rewrite (same_shape_holds _ _ Hshape). apply Hm.
  - cbn [w_reg]. exact (reg_rebuild_hinv sc _ c _ r' _ _ Hwf Hh Er).
  - exact HT.
Qed.
Lemma rebuild_fold_AInv sc T h cs : forall a a', fold_left (rebuild_one sc) cs (Some a) = Some a' -> AInv sc T h a -> AInv sc T h a'.
Proof.
  induction cs as [|c cs IH]; intros a a' H Ha; cbn [fold_left] in H; [injection H as <-; exact Ha|].
  destruct (rebuild_one sc (Some a) c) as [a1|] eqn:E; [|rewrite rebuild_fold_none in H; discriminate].
  exact (IH a1 a' H (rebuild_one_AInv sc T h c a a1 E Ha)).
Qed.

(* --- every operation --- *)
Definition op_targets (o : op) : list (Z * Z) :=
  match o with OSpawn e cs => map (fun c => (e, c)) cs | OInsert e c => [(e, c)] | _ => [] end.

Lemma AInv_init sc T h w : OInv sc T w h -> AInv sc T h (mkOpOut w [] []).
Proof. intros H. exact H. Qed.

Lemma apply_op_OInv sc T w h o r : OInv sc T w h -> incl (op_targets o) T -> apply_op sc w o = Some r ->
  OInv sc T (oo_world r) (rebuilt sc h (oo_built r)).
Proof.
  intros HO Hin H. pose proof HO as (Hinv & Hh & HT). destruct o as [e cs|e c|e c|e|]; cbn [apply_op op_targets] in *.
  - destruct (holds_of e (w_holds w)) as [old|] eqn:He; injection H as <-; [exact HO|].
    apply (spawn_fold_OInv sc T h e cs); [intros c Hc; apply Hin; apply in_map; exact Hc|].
    unfold AInv. cbn [oo_world oo_built rebuilt fold_left]. split; [apply spawn_world_inv; assumption|]. split; [exact Hh|].
    intros c' e' (x & Hx & Hm). cbn [w_holds] in Hx. rewrite holds_of_snoc in Hx. apply HT. exists x. split; [|exact Hm].
    destruct (holds_of e' (w_holds w)) as [y|]; [exact Hx|].
    destruct (Z.eqb e e'); [|discriminate]. injection Hx as <-. discriminate Hm.
  - injection H as <-. apply insert_ctx_OInv; [exact HO | apply Hin; left; reflexivity].
  - destruct (remove_ctx_OInv sc T w h e c r HO H) as [H1 ->]. exact H1.
  - destruct (holds_of e (w_holds w)) as [cs0|] eqn:He; [|injection H as <-; exact HO].
    change (match fold_left (despawn_f e) (filter (fun c => memz c cs0) (s_menu sc)) (Some (mkOpOut w [] [])) with
            | Some a => Some (mkOpOut (mkWorld (del_ent e (w_holds (oo_world a))) (w_reg (oo_world a)) (w_time w)) (oo_events a) [])
            | None => None end = Some r) in H.
    destruct (fold_left (despawn_f e) (filter (fun c => memz c cs0) (s_menu sc)) (Some (mkOpOut w [] []))) as [a|] eqn:Ef; [|discriminate].
    injection H as <-. cbn [oo_world oo_built rebuilt fold_left].
    pose proof (despawn_fold_OInv sc T h e _ _ _ Ef HO) as (_ & Hh' & HT').
    destruct (apply_op_inv sc w (ODespawn e) Hinv) as (r2 & Hr2 & Hinv2). cbn [apply_op] in Hr2. rewrite He in Hr2.
    change (match fold_left (despawn_f e) (filter (fun c => memz c cs0) (s_menu sc)) (Some (mkOpOut w [] [])) with
            | Some a => Some (mkOpOut (mkWorld (del_ent e (w_holds (oo_world a))) (w_reg (oo_world a)) (w_time w)) (oo_events a) [])
            | None => None end = Some r2) in Hr2.
    rewrite Ef in Hr2. injection Hr2 as <-. cbn [oo_world] in Hinv2.
    split; [exact Hinv2|]. split; [exact Hh'|]. intros c' e' (x & Hx & Hm). cbn [w_holds] in Hx. rewrite holds_of_del in Hx.
    destruct (Z.eqb e' e); [discriminate|]. apply HT'. exists x. split; assumption.
  - change (fold_left (rebuild_one sc) (s_menu sc) (Some (mkOpOut w [] [])) = Some r) in H. exact (rebuild_fold_AInv sc T h _ _ _ H (AInv_init sc T h w HO)).
Qed.

Lemma run_ops_OInv sc T ops : forall w h a, OInv sc T w h -> incl (flat_map op_targets ops) T -> run_ops sc w ops = Some a ->
  OInv sc T (oo_world a) (rebuilt sc h (oo_built a)).
Proof.
  induction ops as [|o ops IH]; intros w h a HO Hin H.
  - rewrite run_ops_nil in H. injection H as <-. exact HO.
  - rewrite run_ops_cons in H. destruct (apply_op sc w o) as [r|] eqn:Eo; [|discriminate].
    destruct (run_ops sc (oo_world r) ops) as [a2|] eqn:Er; [|discriminate]. cbn [option_map] in H. injection H as <-.
    unfold prefix_out. cbn [oo_world oo_built]. rewrite rebuilt_app. cbn [flat_map] in Hin.
    apply (IH (oo_world r)); [|intros x Hx; apply Hin; apply in_or_app; right; exact Hx | exact Er].
    apply (apply_op_OInv sc T w h o r HO); [intros x Hx; apply Hin; apply in_or_app; left; exact Hx | exact Eo].
Qed.

(* ================================================================================================ *)
(* 9. R3: induction over the steps of a scenario                                                    *)
(* ================================================================================================ *)
Definition step_targets (st : step) : list (Z * Z) :=
  match st with SOp o => op_targets o | SFrame f => flat_map op_targets (f_ops f) end.
(* every (entity, context type) pair some operation of the scenario inserts *)
Definition targets (sc : scenario) : list (Z * Z) := flat_map step_targets (s_steps sc).

Lemma mirror_ok_model sc w o : x_mirror o = model_mirror sc w -> NoDup (s_menu sc) -> mirror_ok sc w o.
Proof. intros Hx Hd c Hc. apply holders_model; assumption. Qed.

Lemma frame_parts sc w f fo : frame sc w f = Some fo ->
  let o := reg_update (frame_time f) (f_raw f) (update_state (f_raw f)) (w_reg w) in
  exists a, run_ops sc (mkWorld (w_holds w) (ro_reg o) (frame_time f)) (f_ops f) = Some a /\
            fo_world fo = oo_world a /\ fo_log fo = ro_log o /\ fo_built fo = oo_built a.
Proof.
  unfold frame. cbv zeta.
  destruct (ro_events (reg_update (frame_time f) (f_raw f) (update_state (f_raw f)) (w_reg w))) as [main|]; [|discriminate].
  destruct (run_ops sc _ (f_ops f)) as [a|]; [|discriminate]. intros H. injection H as <-. exists a. repeat split.
Qed.

Theorem steps_sound sc T : facts sc T -> forall steps w h before,
  incl (flat_map step_targets steps) T -> OInv sc T w h -> mirror_ok sc w before ->
  all_true (judge_steps sc h before steps (run_steps sc w steps)).
Proof.
  intros HF. pose proof (NoDup_map_NoDup ctx_prio _ (f_prio sc T HF)) as Hmenu.
  induction steps as [|st steps IH]; intros w h before Hin HO HM; [intros k b []|].
  cbn [flat_map] in Hin.
  assert (Hin1 : incl (step_targets st) T) by (intros x Hx; apply Hin; apply in_or_app; left; exact Hx).
  assert (Hin2 : incl (flat_map step_targets steps) T) by (intros x Hx; apply Hin; apply in_or_app; right; exact Hx).
  pose proof HO as (Hinv & Hh & HT).
  destruct st as [o|f]; cbn [run_steps].
  - destruct (apply_op_inv sc w o Hinv) as (r & Er & _). rewrite Er. rewrite judge_steps_op. cbn [x_panicked x_built negb].
    intros k b [E|Hkb]; [inversion E; reflexivity|]. revert k b Hkb.
    apply IH; [exact Hin2 | exact (apply_op_OInv sc T w h o r HO Hin1 Er) | apply mirror_ok_model; [reflexivity | exact Hmenu]].
  - destruct (frame_inv sc w f Hinv) as (fo & Ef & _). rewrite Ef. rewrite judge_steps_frame. cbn [x_panicked x_built x_log negb].
    destruct (frame_parts sc w f fo Ef) as (a & Ea & Ew & El & Eb). cbv zeta in *.
    intros k b [E|[E|Hkb]].
    + inversion E. rewrite El, (frame_clause sc T w h before _ _ _ HF HO HM). reflexivity.
    + inversion E; reflexivity.
    + revert k b Hkb. rewrite Eb, Ew. apply IH; [exact Hin2 | | apply mirror_ok_model; [reflexivity | exact Hmenu]].
      refine (run_ops_OInv sc T (f_ops f) _ _ a _ Hin1 Ea).
      split; [apply reg_update_inv; exact Hinv|]. split; [cbn [w_reg]; apply h_inv_update; exact Hh | exact HT].
Qed.

(* ---- the profile: a computable condition on the scenario alone ---- *)
Fixpoint nodupz (l : list Z) : bool := match l with [] => true | x :: r => negb (memz x r) && nodupz r end.
Definition disjz (a b : list Z) : bool := forallb (fun x => negb (memz x b)) a.
Definition spec_ids (s : inst_spec) : list Z := abinds_all_ids (merged_actions s).

(* the registered context types have pairwise distinct priorities (the harness' types 0..7 do) *)
Definition p_prio (sc : scenario) : bool := nodupz (map ctx_prio (s_menu sc)).
(* the entity slots are listed once *)
Definition p_ents (sc : scenario) : bool := nodupz (s_ents sc).
(* every entity that is given a registered context type is a listed slot *)
Definition p_slots (sc : scenario) : bool :=
  forallb (fun p => negb (memz (snd p) (s_menu sc)) || memz (fst p) (s_ents sc)) (targets sc).
(* a registered exclusive context type is only ever given to one entity *)
Definition p_single (sc : scenario) : bool :=
  forallb (fun p => forallb (fun q => negb (Z.eqb (snd p) (snd q)) || negb (memz (snd p) (s_menu sc)) || ctx_shared (snd p) ||
                                      Z.eqb (fst p) (fst q)) (targets sc)) (targets sc).
(* the log ids of a configuration are pairwise distinct ... *)
Definition p_ids_nodup (sc : scenario) : bool := forallb (fun x => nodupz (spec_ids (snd x))) (s_cfg sc).
(* ... and disjoint from those of the configurations of other context types *)
Definition p_ids_disj (sc : scenario) : bool :=
  forallb (fun x => forallb (fun y => Z.eqb (fst (fst x)) (fst (fst y)) || disjz (spec_ids (snd x)) (spec_ids (snd y))) (s_cfg sc)) (s_cfg sc).

Definition profile_C12b (sc : scenario) : bool :=
  p_prio sc && p_ents sc && p_slots sc && p_single sc && p_ids_nodup sc && p_ids_disj sc.
Definition profile_C12 (sc : scenario) : Prop := profile_C12b sc = true.

Lemma nodupz_spec l : nodupz l = true -> NoDup l.
Proof.
  induction l as [|x l IH]; cbn [nodupz]; intros H; [constructor|]. apply andb_true_iff in H. destruct H as [H1 H2].
  constructor; [apply memz_false; apply negb_true_iff; exact H1 | apply IH; exact H2].
Qed.
Lemma disjz_spec a b x : disjz a b = true -> In x a -> ~ In x b.
Proof.
  unfold disjz. intros H Hx. rewrite forallb_forall in H. specialize (H x Hx). apply negb_true_iff in H. apply memz_false. exact H.
Qed.

Lemma cfg_lookup_cases sc c e :
  (exists x, In x (s_cfg sc) /\ fst (fst x) = c /\ cfg_lookup sc c e = snd x) \/ cfg_ids sc c e = [].
Proof.
  unfold cfg_ids, cfg_lookup.
  destruct (find (fun x : Z * Z * inst_spec => Z.eqb (fst (fst x)) c && Z.eqb (snd (fst x)) e) (s_cfg sc)) as [x|] eqn:E;
    [left | right; reflexivity].
  apply find_some in E. destruct E as [E1 E2]. apply andb_true_iff in E2. destruct E2 as [E2 _]. apply Z.eqb_eq in E2.
  exists x. repeat split; assumption.
Qed.

Lemma profile_facts sc : profile_C12 sc -> facts sc (targets sc).
Proof.
  unfold profile_C12, profile_C12b, p_prio, p_ents, p_slots, p_single, p_ids_nodup, p_ids_disj. intros H.
  apply andb_true_iff in H. destruct H as [H H6]. apply andb_true_iff in H. destruct H as [H H5].
  apply andb_true_iff in H. destruct H as [H H4]. apply andb_true_iff in H. destruct H as [H H3].
  apply andb_true_iff in H. destruct H as [H1 H2].
  rewrite forallb_forall in H3, H4, H5, H6. constructor.
  - apply nodupz_spec. exact H1.
  - apply nodupz_spec. exact H2.
  - intros e c Hin Hc. specialize (H3 _ Hin). cbn [fst snd] in H3. apply memz_in in Hc. rewrite Hc in H3. apply memz_in. exact H3.
  - intros e1 e2 c Hi1 Hi2 Hc Hsh. specialize (H4 _ Hi1). rewrite forallb_forall in H4. specialize (H4 _ Hi2). cbn [fst snd] in H4.
    apply memz_in in Hc. rewrite Z.eqb_refl, Hc, Hsh in H4. apply Z.eqb_eq. exact H4.
  - split.
    + intros c e. destruct (cfg_lookup_cases sc c e) as [(x & Hx & _ & E)|E]; [|rewrite E; constructor].
      unfold cfg_ids. rewrite E. apply nodupz_spec. exact (H5 x Hx).
    + intros c1 e1 c2 e2 y Hne Hy1 Hy2.
      destruct (cfg_lookup_cases sc c1 e1) as [(x1 & Hx1 & Hc1 & E1)|E1]; [|rewrite E1 in Hy1; destruct Hy1].
      destruct (cfg_lookup_cases sc c2 e2) as [(x2 & Hx2 & Hc2 & E2)|E2]; [|rewrite E2 in Hy2; destruct Hy2].
      unfold cfg_ids in Hy1, Hy2. rewrite E1 in Hy1. rewrite E2 in Hy2.
      specialize (H6 _ Hx1). rewrite forallb_forall in H6. specialize (H6 _ Hx2).
      apply orb_true_iff in H6. destruct H6 as [H6|H6]; [apply Z.eqb_eq in H6; exfalso; apply Hne; rewrite <- Hc1, <- Hc2; exact H6|].
      exact (disjz_spec _ _ y H6 Hy1 Hy2).
Qed.

(* ---- the main theorem ---- *)
Theorem C12_judgement_sound : forall sc, profile_C12 sc -> C12c.ok (sc, trace (run sc)) = 0%Z.
Proof.
  intros sc Hp. unfold ok, run. apply all_true_first_fail.
  apply (steps_sound sc (targets sc) (profile_facts sc Hp)).
  - apply incl_refl.
  - split; [apply reg_inv_init|]. split; [constructor | intros c e (cs & H & _); discriminate].
  - intros c _. cbn. symmetry. apply filter_none. intros e _. reflexivity.
Qed.

(* ================================================================================================ *)
(* 10. the profile is satisfiable on a non-trivial scenario; every conjunct of it is needed          *)
(* ================================================================================================ *)
Definition ex_frame (keys : list Z) (ops : list op) : step :=
  SFrame (mkFrame (1#64) 1 false 0 (mkRaw keys [] (0%Q, 0%Q) (0%Q, 0%Q) [] []) ops).
(* an exclusive type (0) whose action 0 is bound twice (merged), and a shared type (1) with two holders *)
Definition ex_S0 : inst_spec := mkSpec None
  [mkAction 0 [(1, m_script [])] [(2, c_press (1#2))]
     [mkBind (IKey 0 0) [(3, m_script [])] [(4, c_press (1#2))]; mkBind (IKey 1 0) [] [(5, c_press (1#2))]];
   mkAction 16 [] [] [mkBind (IKey 2 0) [(8, m_script [])] []];
   mkAction 0 [(9, m_script [])] [] [mkBind (IKey 2 0) [] [(10, c_press (1#2))]]].
Definition ex_S1 : inst_spec := mkSpec None [mkAction 4 [] [(6, c_press (1#2))] [mkBind (IKey 0 0) [(7, m_script [])] []]].
Definition ex_sc : scenario := mkScenario [0; 1] [0; 1] [((0, 0), ex_S0); ((1, 0), ex_S1); ((1, 1), ex_S1)]
  [SOp (OSpawn 0 [0]); ex_frame [0] []; ex_frame [0; 1] []; SOp (OSpawn 1 [1]); SOp (OInsert 0 1); ex_frame [0] [];
   ex_frame [] [ORemove 1 1]; SOp ORebuild; ex_frame [0; 2] []; ex_frame [0] [ODespawn 0]; ex_frame [0] []].

Example C12_judgement_sound_satisfiable :
  profile_C12 ex_sc /\ C12c.ok (ex_sc, trace (run ex_sc)) = 0 /\
  (* held keys are skipped, then released: the logs differ from frame to frame *)
  map (fun o => log_ids (x_log o)) (run ex_sc) =
    [[]; [5; 10; 1; 9; 2; 8]; [5; 10; 1; 9; 2; 8]; []; []; [5; 10; 1; 9; 2; 8; 6]; [3; 4; 5; 10; 1; 9; 2; 8; 7; 6]; [];
     [5; 1; 9; 2; 6]; [5; 10; 1; 9; 2; 8; 6]; []] /\
  (* some action reaches Fired *)
  existsb (fun o => existsb (fun ev => state_eqb (e_state ev) SFired) (x_main o)) (run ex_sc) = true.
Proof. vm_compute. repeat split. Qed.

Definition ex_one (id k : Z) : inst_spec := mkSpec None [mkAction 0 [] [] [mkBind (IKey k 0) [] [(id, c_press (1#2))]]].
Definition ex_parts (sc : scenario) := (p_prio sc, p_ents sc, p_slots sc, p_single sc, p_ids_nodup sc, p_ids_disj sc).

(* two types of equal priority: the registry's order among them (binary search) is not the menu's *)
Example C12_judgement_sound_needs_p_prio :
  let sc := mkScenario [7; 9] [0] [((7, 0), ex_one 1 0); ((9, 0), ex_one 2 0)] [SOp (OSpawn 0 [7; 9]); ex_frame [] []] in
  ex_parts sc = (false, true, true, true, true, true) /\ C12c.ok (sc, trace (run sc)) <> 0.
Proof. vm_compute. split; [reflexivity | discriminate]. Qed.
(* an entity slot listed twice appears twice in the mirror *)
Example C12_judgement_sound_needs_p_ents :
  let sc := mkScenario [0] [0; 0] [((0, 0), ex_one 1 0)] [SOp (OSpawn 0 [0]); ex_frame [] []] in
  ex_parts sc = (true, false, true, true, true, true) /\ C12c.ok (sc, trace (run sc)) <> 0.
Proof. vm_compute. split; [reflexivity | discriminate]. Qed.
(* a holder that is not a listed slot is not in the mirror *)
Example C12_judgement_sound_needs_p_slots :
  let sc := mkScenario [0] [1] [((0, 0), ex_one 1 0)] [SOp (OSpawn 0 [0]); ex_frame [] []] in
  ex_parts sc = (true, true, false, true, true, true) /\ C12c.ok (sc, trace (run sc)) <> 0.
Proof. vm_compute. split; [reflexivity | discriminate]. Qed.
(* two holders of an exclusive type are evaluated in insertion order, the mirror lists them in slot order *)
Example C12_judgement_sound_needs_p_single :
  let sc := mkScenario [0] [0; 1] [((0, 0), ex_one 1 0); ((0, 1), ex_one 2 0)] [SOp (OSpawn 1 [0]); SOp (OSpawn 0 [0]); ex_frame [] []] in
  ex_parts sc = (true, true, true, false, true, true) /\ C12c.ok (sc, trace (run sc)) <> 0.
Proof. vm_compute. split; [reflexivity | discriminate]. Qed.
(* equal ids in one configuration: the id logged by the second input is taken for the first (suppressed) one *)
Example C12_judgement_sound_needs_p_ids_nodup :
  let sc := mkScenario [0] [0]
              [((0, 0), mkSpec None [mkAction 0 [] [] [mkBind (IKey 0 0) [] [(5, c_press (1#2))]; mkBind (IKey 1 0) [] [(5, c_press (1#2))]]])]
              [SOp (OSpawn 0 [0]); ex_frame [0] []] in
  ex_parts sc = (true, true, true, true, false, true) /\ C12c.ok (sc, trace (run sc)) <> 0.
Proof. vm_compute. split; [reflexivity | discriminate]. Qed.
(* the same across two context types *)
Example C12_judgement_sound_needs_p_ids_disj :
  let sc := mkScenario [0; 2] [0] [((0, 0), ex_one 5 0); ((2, 0), ex_one 5 1)] [SOp (OSpawn 0 [0; 2]); ex_frame [0] []] in
  ex_parts sc = (true, true, true, true, true, false) /\ C12c.ok (sc, trace (run sc)) <> 0.
Proof. vm_compute. split; [reflexivity | discriminate]. Qed.

(* ================================================================================================ *)
(* 11. (T) transfer: any trace that agrees with the model's run is accepted                          *)
(* ================================================================================================ *)
(* what the judgement reads of the held map *)
Definition same_view (h h' : held_map) : Prop :=
  (forall c e, held_lookup h c e = held_lookup h' c e) /\ (forall c, ctx_shared c = true -> h_owner h c = h_owner h' c).
(* at most one entity per shared context type in a list of built instances *)
Definition fun_built (built : list (Z * Z)) : Prop :=
  forall c e1 e2, ctx_shared c = true -> In (c, e1) built -> In (c, e2) built -> e1 = e2.

Lemma same_view_refl h : same_view h h.
Proof. split; intros; reflexivity. Qed.

Lemma owner_or h c e :
  match find (fun x : Z * Z * list input => Z.eqb (fst (fst x)) c) h with Some x => snd (fst x) | None => e end =
  match h_owner h c with Some e0 => e0 | None => e end.
Proof. unfold h_owner, hctx. destruct (find _ h); reflexivity. Qed.

Lemma jstep_view sc h1 h1' acc ce : same_view h1 h1' -> jstep sc h1 acc ce = jstep sc h1' acc ce.
Proof.
  intros [V1 V2]. destruct acc as [l|]; [|reflexivity]. destruct ce as [c e]. cbn [jstep]. rewrite !owner_or.
  destruct (ctx_shared c) eqn:Es; [rewrite (V2 c Es)|]; rewrite V1; reflexivity.
Qed.
Lemma hfilter_view sc r h h' : same_view h h' -> same_view (hfilter sc r h) (hfilter sc r h').
Proof.
  intros [V1 V2]. split.
  - intros c e. rewrite !held_lookup_filter, V1. reflexivity.
  - intros c Hc. rewrite !h_owner_filter. exact (V2 c Hc).
Qed.

Lemma rebuilt_notin sc built : forall h c e, ~ In (c, e) built -> held_lookup (rebuilt sc h built) c e = held_lookup h c e.
Proof.
  induction built as [|[c0 e0] built IH]; intros h c e Hn; [reflexivity|].
  cbn [rebuilt fold_left fst snd]. fold (rebuilt sc (held_set h c0 e0 (inputs_of_spec (cfg_lookup sc c0 e0))) built).
  rewrite IH by (intros H; apply Hn; right; exact H). rewrite held_lookup_set.
  destruct (Z.eqb c0 c && Z.eqb e0 e) eqn:E; [|reflexivity].
  apply andb_true_iff in E. destruct E as [E1 E2]. apply Z.eqb_eq in E1, E2. subst. exfalso. apply Hn. left. reflexivity.
Qed.
Lemma rebuilt_owner_in sc built : forall h c e, (forall e', In (c, e') built -> e' = e) -> In (c, e) built ->
  h_owner (rebuilt sc h built) c = Some e.
Proof.
  induction built as [|[c0 e0] built IH] using rev_ind; intros h c e Hf Hin; [destruct Hin|].
  rewrite rebuilt_app. cbn [rebuilt fold_left fst snd]. rewrite h_owner_set.
  destruct (Z.eqb c0 c) eqn:E.
  - apply Z.eqb_eq in E. subst c0. f_equal. apply Hf. apply in_or_app. right. left. reflexivity.
  - apply IH; [intros e' He'; apply Hf; apply in_or_app; left; exact He'|].
    apply in_app_or in Hin. destruct Hin as [Hin|[Hin|[]]]; [exact Hin|]. inversion Hin; subst. rewrite Z.eqb_refl in E. discriminate.
Qed.

Lemma pair_in_dec (p : Z * Z) l : {In p l} + {~ In p l}.
Proof. apply in_dec. intros [a b] [c d]. destruct (Z.eq_dec a c), (Z.eq_dec b d); [left; congruence | right; congruence ..]. Qed.

Lemma rebuilt_view sc h h' built built' : same_view h h' -> fun_built built -> (forall p, In p built <-> In p built') ->
  same_view (rebuilt sc h built) (rebuilt sc h' built').
Proof.
  intros [V1 V2] Hf Hiff. split.
  - intros c e. destruct (pair_in_dec (c, e) built) as [Hin|Hn].
    + rewrite (rebuilt_built sc built h c e Hin), (rebuilt_built sc built' h' c e (proj1 (Hiff _) Hin)). reflexivity.
    + rewrite (rebuilt_notin sc built h c e Hn), (rebuilt_notin sc built' h' c e (fun H => Hn (proj2 (Hiff _) H))). apply V1.
  - intros c Hc. destruct (find (fun p : Z * Z => Z.eqb (fst p) c) built) as [[c0 e]|] eqn:Ef.
    + apply find_some in Ef. destruct Ef as [Hin E]. cbn [fst] in E. apply Z.eqb_eq in E. subst c0.
      rewrite (rebuilt_owner_in sc built h c e); [|intros e' He'; exact (Hf c e' e Hc He' Hin) | exact Hin].
      rewrite (rebuilt_owner_in sc built' h' c e); [reflexivity| |exact (proj1 (Hiff _) Hin)].
      intros e' He'. exact (Hf c e' e Hc (proj2 (Hiff _) He') Hin).
    + assert (Hn : forall p, In p built -> fst p <> c).
      { intros p Hp E. pose proof (find_none _ _ Ef p Hp) as F. cbn beta in F. apply Z.eqb_neq in F. contradiction. }
      destruct (rebuilt_other sc built h c Hn) as [_ ->].
      destruct (rebuilt_other sc built' h' c (fun p Hp => Hn p (proj2 (Hiff p) Hp))) as [_ ->]. exact (V2 c Hc).
Qed.

(* what agree_full guarantees of each out record, as far as this judgement reads it *)
Definition out_agree (a b : out) : Prop :=
  log_ids (x_log a) = log_ids (x_log b) /\ x_mirror a = x_mirror b /\ x_panicked a = x_panicked b /\
  (forall p, In p (x_built a) <-> In p (x_built b)).

Lemma fold_left_ext_fun {A B} (f g : A -> B -> A) l : (forall a b, f a b = g a b) -> forall a, fold_left f l a = fold_left g l a.
Proof. intros H. induction l as [|x l IH]; intros a; cbn [fold_left]; [reflexivity|]. rewrite H. apply IH. Qed.

Lemma evaluated_mirror sc b b' : x_mirror b = x_mirror b' -> evaluated sc b = evaluated sc b'.
Proof. intros H. unfold evaluated, holders. rewrite H. reflexivity. Qed.

Lemma judge_steps_cong sc : forall steps h h' before before' outs outs',
  same_view h h' -> x_mirror before = x_mirror before' -> Forall2 out_agree outs outs' ->
  Forall (fun o => fun_built (x_built o)) outs ->
  judge_steps sc h before steps outs = judge_steps sc h' before' steps outs'.
Proof.
  induction steps as [|st steps IH]; intros h h' before before' outs outs' V M HA HFb.
  - inversion HA; subst; reflexivity.
  - inversion HA as [|o o' outs1 outs1' (A1 & A2 & A3 & A4) HA']; subst; [destruct st; reflexivity|].
    inversion HFb as [|? ? Hfo HFb']; subst.
    destruct st as [op|f].
    + rewrite !judge_steps_op, A3. f_equal. apply IH; [apply rebuilt_view; assumption | exact A2 | exact HA' | exact HFb'].
    + rewrite !judge_steps_frame, A3, A1, (evaluated_mirror sc before before' M).
      pose proof (hfilter_view sc (f_raw f) h h' V) as V'.
      rewrite (fold_left_ext_fun _ _ _ (fun acc ce => jstep_view sc _ _ acc ce V')).
      f_equal. f_equal. apply IH; [apply rebuilt_view; assumption | exact A2 | exact HA' | exact HFb'].
Qed.

(* ---- from agree_full to out_agree ---- *)
Lemma list_eqb_log_ids a : forall b, list_eqb logitem_eqb a b = true -> log_ids a = log_ids b.
Proof.
  induction a as [|x a IH]; intros [|y b] H; cbn [list_eqb] in H; try discriminate; [reflexivity|].
  apply andb_true_iff in H. destruct H as [H1 H2]. unfold log_ids. cbn [map]. f_equal; [|apply IH; exact H2].
  destruct x, y; cbn [logitem_eqb] in H1; try discriminate;
    repeat (apply andb_true_iff in H1; destruct H1 as [H1 ?]); apply Z.eqb_eq; exact H1.
Qed.
Lemma list_eqb_mirror a : forall b, list_eqb mirror_eqb a b = true -> a = b.
Proof.
  induction a as [|x a IH]; intros [|y b] H; cbn [list_eqb] in H; try discriminate; [reflexivity|].
  apply andb_true_iff in H. destruct H as [H1 H2]. f_equal; [|apply IH; exact H2].
  destruct x as [c1 e1 g1 h1], y as [c2 e2 g2 h2]. cbn [mirror_eqb] in H1.
  repeat (apply andb_true_iff in H1; destruct H1 as [H1 ?]).
  apply Z.eqb_eq in H1. repeat match goal with H : Z.eqb _ _ = true |- _ => apply Z.eqb_eq in H | H : Bool.eqb _ _ = true |- _ => apply eqb_prop in H end.
  congruence.
Qed.
Lemma list_eqb_zz a : forall b, list_eqb zz_eqb a b = true -> a = b.
Proof.
  induction a as [|x a IH]; intros [|y b] H; cbn [list_eqb] in H; try discriminate; [reflexivity|].
  apply andb_true_iff in H. destruct H as [H1 H2]. f_equal; [|apply IH; exact H2].
  destruct x, y. unfold zz_eqb in H1. cbn [fst snd] in H1. apply andb_true_iff in H1. destruct H1 as [H1 H3].
  apply Z.eqb_eq in H1, H3. congruence.
Qed.
Lemma sort_by_in {A} (key : A -> Z) (l : list A) z : In z (sort_by key l) <-> In z l.
Proof.
  unfold sort_by.
  assert (G : forall l acc, In z (fold_left (fun acc x => insert_by key x acc) l acc) <-> In z acc \/ In z l).
  { clear l. induction l as [|x l IH]; intros acc; cbn [fold_left In]; [tauto|]. rewrite IH, insert_by_in. intuition congruence. }
  rewrite G. cbn [In]. tauto.
Qed.

Lemma out_diff_agree key isf a b : out_diff_k key isf a b = 0 -> out_agree a b.
Proof.
  unfold out_diff_k, first_fail. intros H.
  destruct (list_eqb event_eqb (x_pre a) (x_pre b)); [|discriminate].
  match type of H with (if ?c then _ else _) = _ => destruct c; [|discriminate] end.
  match type of H with (if ?c then _ else _) = _ => destruct c; [|discriminate] end.
  destruct (list_eqb logitem_eqb (x_log a) (x_log b)) eqn:E4; [|discriminate].
  destruct (list_eqb snap_entry_eqb (x_snaps a) (x_snaps b)); [|discriminate].
  destruct (list_eqb mirror_eqb (x_mirror a) (x_mirror b)) eqn:E6; [|discriminate].
  destruct (list_eqb zz_eqb (canon_built (x_built a)) (canon_built (x_built b))) eqn:E7; [|discriminate].
  destruct (Bool.eqb (x_probe a) (x_probe b)); [|discriminate].
  destruct (Bool.eqb (x_update a) (x_update b)); [|discriminate].
  destruct (Bool.eqb (x_panicked a) (x_panicked b)) eqn:E10; [|discriminate].
  split; [apply list_eqb_log_ids; exact E4|]. split; [apply list_eqb_mirror; exact E6|]. split; [apply eqb_prop; exact E10|].
  apply list_eqb_zz in E7. unfold canon_built in E7. intros p.
  rewrite <- (sort_by_in (fun p => fst p * 1000 + snd p) (x_built a)), <- (sort_by_in (fun p => fst p * 1000 + snd p) (x_built b)), E7. tauto.
Qed.
Lemma out_diff_range key isf a b : 0 <= out_diff_k key isf a b <= 10.
Proof.
  unfold out_diff_k, first_fail.
  repeat match goal with |- context [if ?c then _ else _] => destruct c end; lia.
Qed.
Lemma outs_diff_agree key : forall a b i steps, outs_diff key i steps a b = 0 -> Forall2 out_agree a b.
Proof.
  induction a as [|x a IH]; intros [|y b] i steps H; cbn [outs_diff] in H; [constructor | lia | lia |].
  pose proof (out_diff_range key (match steps with st :: _ => is_frame st | [] => false end) x y) as R.
  destruct (Z.eqb (out_diff_k key (match steps with st :: _ => is_frame st | [] => false end) x y) 0) eqn:E; [|apply Z.eqb_neq in E; lia].
  apply Z.eqb_eq in E. constructor; [exact (out_diff_agree _ _ _ _ E) | exact (IH _ _ _ H)].
Qed.

(* ---- the model never builds a shared type for two entities in one step (one operation per frame) ---- *)
Lemma fun_built_nil : fun_built [].
Proof. intros c e1 e2 _ []. Qed.
Lemma fun_built_app X Y : fun_built X -> fun_built Y -> (forall p q, In p X -> In q Y -> fst p <> fst q) -> fun_built (X ++ Y).
Proof.
  intros HX HY Hd c e1 e2 Hc H1 H2. apply in_app_or in H1. apply in_app_or in H2.
  destruct H1 as [H1|H1], H2 as [H2|H2]; [exact (HX c e1 e2 Hc H1 H2) | | | exact (HY c e1 e2 Hc H1 H2)]; exfalso.
  - exact (Hd _ _ H1 H2 eq_refl).
  - exact (Hd _ _ H2 H1 eq_refl).
Qed.

Lemma insert_ctx_built sc w e c p : In p (oo_built (insert_ctx sc w e c)) -> p = (c, e).
Proof.
  unfold insert_ctx. destruct (holds_of e (w_holds w)) as [cs|]; [|intros []].
  destruct (memz c cs || negb (memz c (s_menu sc))); [intros []|]. cbn [oo_built].
  destruct (index_of c (w_reg w)); [destruct (ctx_shared c)|]; cbn [In]; intuition congruence.
Qed.
Lemma spawn_fold_built sc e cs : forall acc, (forall p, In p (oo_built acc) -> snd p = e) ->
  forall p, In p (oo_built (fold_left (fun acc c => let o := insert_ctx sc (oo_world acc) e c in
                                       mkOpOut (oo_world o) (oo_events acc ++ oo_events o) (oo_built acc ++ oo_built o)) cs acc)) -> snd p = e.
Proof.
  induction cs as [|c cs IH]; intros acc Ha; cbn [fold_left]; [exact Ha|]. apply IH. cbv zeta. cbn [oo_built].
  intros p Hp. apply in_app_or in Hp. destruct Hp as [Hp|Hp]; [apply Ha; exact Hp|]. apply insert_ctx_built in Hp. subst p. reflexivity.
Qed.

Lemma built_of_fst c r p : In p (built_of c r) -> fst p = c.
Proof.
  unfold built_of. destruct (index_of c r); [|intros []].
  destruct (nth_error r n) as [[c0 q insts|c0 q [|e0 ents] i]|]; cbn [In]; try tauto.
  - intros H. apply in_map_iff in H. destruct H as (ei & <- & _). reflexivity.
  - intros [<-|[]]. reflexivity.
Qed.
Lemma built_of_fun c r : Forall group_ok r -> fun_built (built_of c r).
Proof.
  intros Hok c' e1 e2 Hc H1 H2. pose proof (built_of_fst c r _ H1) as E. cbn [fst] in E. subst c'.
  unfold built_of in *. destruct (index_of c r) as [n|] eqn:Ei; [|destruct H1].
  destruct (index_of_nth c r n Ei) as (g & Hn & Hg & Hin). rewrite Hn in H1, H2.
  rewrite Forall_forall in Hok. destruct (Hok g Hin) as (_ & Hsh & _). rewrite Hg in Hsh.
  destruct g as [c0 q insts|c0 q [|e0 ents] i]; cbn [g_shared] in Hsh; [congruence | destruct H1 |].
  destruct H1 as [H1|[]], H2 as [H2|[]]. congruence.
Qed.

Lemma rebuild_fold_built sc T h cs : forall a a', NoDup cs -> fold_left (rebuild_one sc) cs (Some a) = Some a' -> AInv sc T h a ->
  (forall p, In p (oo_built a) -> ~ In (fst p) cs) -> fun_built (oo_built a) -> fun_built (oo_built a').
Proof.
  induction cs as [|c cs IH]; intros a a' Hnd H Ha Hfst Hf; cbn [fold_left] in H; [injection H as <-; exact Hf|].
  inversion Hnd as [|? ? Hc Hnd']; subst.
  destruct (rebuild_one sc (Some a) c) as [a1|] eqn:E; [|rewrite rebuild_fold_none in H; discriminate].
  pose proof (rebuild_one_AInv sc T h c a a1 E Ha) as Ha1.
  assert (Eb : oo_built a1 = oo_built a ++ built_of c (w_reg (oo_world a))).
  { cbn [rebuild_one] in E. cbv zeta in E. fold (built_of c (w_reg (oo_world a))) in E.
    destruct (reg_rebuild (mk_inst sc c) (w_time (oo_world a)) c (w_reg (oo_world a))) as [[r' [evs|]]|]; try discriminate.
    injection E as <-. reflexivity. }
  apply (IH a1 a' Hnd' H Ha1); rewrite Eb.
  - intros p Hp Hin. apply in_app_or in Hp. destruct Hp as [Hp|Hp]; [apply (Hfst p Hp); right; exact Hin|].
    apply built_of_fst in Hp. apply Hc. rewrite <- Hp. exact Hin.
  - apply fun_built_app; [exact Hf | |].
    + destruct Ha as ((_ & _ & Hok & _) & _). apply built_of_fun. exact Hok.
    + intros p q Hp Hq E'. apply built_of_fst in Hq. apply (Hfst p Hp). left. rewrite <- Hq. symmetry. exact E'.
Qed.

Lemma apply_op_built_fun sc T w h o r : NoDup (s_menu sc) -> OInv sc T w h -> apply_op sc w o = Some r -> fun_built (oo_built r).
Proof.
  intros Hmenu HO H. destruct o as [e cs|e c|e c|e|]; cbn [apply_op] in H.
  - destruct (holds_of e (w_holds w)); injection H as <-; [apply fun_built_nil|].
    intros c e1 e2 _ H1 H2. apply spawn_fold_built in H1; [|intros p []]. apply spawn_fold_built in H2; [|intros p []].
    cbn [snd] in *. congruence.
  - injection H as <-. intros c' e1 e2 _ H1 H2. apply insert_ctx_built in H1. apply insert_ctx_built in H2. congruence.
  - destruct (remove_ctx_OInv sc T w h e c r HO H) as [_ ->]. apply fun_built_nil.
  - destruct (holds_of e (w_holds w)); [|injection H as <-; apply fun_built_nil].
    match type of H with match ?x with _ => _ end = _ => destruct x end; [|discriminate]. injection H as <-. apply fun_built_nil.
  - change (fold_left (rebuild_one sc) (s_menu sc) (Some (mkOpOut w [] [])) = Some r) in H.
    apply (rebuild_fold_built sc T h (s_menu sc) _ r Hmenu H (AInv_init sc T h w HO)); [intros p [] | apply fun_built_nil].
Qed.

Definition one_op_frames (sc : scenario) : bool :=
  forallb (fun st => match st with SFrame f => Nat.leb (length (f_ops f)) 1 | SOp _ => true end) (s_steps sc).

Lemma run_built_fun sc T : facts sc T -> forall steps w h,
  forallb (fun st => match st with SFrame f => Nat.leb (length (f_ops f)) 1 | SOp _ => true end) steps = true ->
  incl (flat_map step_targets steps) T -> OInv sc T w h ->
  Forall (fun o => fun_built (x_built o)) (run_steps sc w steps).
Proof.
  intros HF. pose proof (NoDup_map_NoDup ctx_prio _ (f_prio sc T HF)) as Hmenu.
  induction steps as [|st steps IH]; intros w h H1 Hin HO; [constructor|].
  cbn [forallb] in H1. apply andb_true_iff in H1. destruct H1 as [H1 H1']. cbn [flat_map] in Hin.
  assert (Hin1 : incl (step_targets st) T) by (intros x Hx; apply Hin; apply in_or_app; left; exact Hx).
  assert (Hin2 : incl (flat_map step_targets steps) T) by (intros x Hx; apply Hin; apply in_or_app; right; exact Hx).
  pose proof HO as (Hinv & Hh & HT).
  destruct st as [o|f]; cbn [run_steps].
  - destruct (apply_op_inv sc w o Hinv) as (r & Er & _). rewrite Er. constructor.
    + cbn [x_built]. exact (apply_op_built_fun sc T w h o r Hmenu HO Er).
    + exact (IH _ _ H1' Hin2 (apply_op_OInv sc T w h o r HO Hin1 Er)).
  - destruct (frame_inv sc w f Hinv) as (fo & Ef & _). rewrite Ef.
    destruct (frame_parts sc w f fo Ef) as (a & Ea & Ew & El & Eb). cbv zeta in *.
    assert (HO1 : OInv sc T (mkWorld (w_holds w) (ro_reg (reg_update (frame_time f) (f_raw f) (update_state (f_raw f)) (w_reg w))) (frame_time f))
                       (hfilter sc (f_raw f) h)).
    { split; [apply reg_update_inv; exact Hinv|]. split; [cbn [w_reg]; apply h_inv_update; exact Hh | exact HT]. }
    constructor.
    + cbn [x_built]. rewrite Eb. destruct (f_ops f) as [|o [|o2 ops]]; [| |discriminate].
      * rewrite run_ops_nil in Ea. injection Ea as <-. apply fun_built_nil.
      * rewrite run_ops_cons in Ea. destruct (apply_op sc _ o) as [r|] eqn:Eo; [|discriminate].
        rewrite run_ops_nil in Ea. cbn [option_map] in Ea. injection Ea as <-. unfold prefix_out. cbn [oo_built]. rewrite app_nil_r.
        exact (apply_op_built_fun sc T _ _ o r Hmenu HO1 Eo).
    + rewrite Ew. exact (IH _ _ H1' Hin2 (run_ops_OInv sc T (f_ops f) _ _ a HO1 Hin1 Ea)).
Qed.

(* ---- (T) ---- *)
Theorem C12_judgement_transfer : forall sc t, profile_C12 sc -> one_op_frames sc = true ->
  agree_full (sc, t) = true -> C12c.ok (sc, t) = 0%Z.
Proof.
  intros sc t Hp H1 Ha. unfold agree_full in Ha. cbn [fst snd] in Ha. apply Z.eqb_eq in Ha.
  destruct t as [outs|]; [|discriminate]. cbn [trace_diff] in Ha. apply outs_diff_agree in Ha.
  pose proof (profile_facts sc Hp) as HF.
  assert (HO : OInv sc (targets sc) world_init []).
  { split; [apply reg_inv_init|]. split; [constructor | intros c e (cs & H & _); discriminate]. }
  pose proof (run_built_fun sc (targets sc) HF (s_steps sc) world_init [] H1 (incl_refl _) HO) as Hfb.
  unfold ok. fold (run sc) in Hfb.
  rewrite <- (judge_steps_cong sc (s_steps sc) [] [] _ _ (run sc) outs (same_view_refl []) eq_refl Ha Hfb).
  exact (C12_judgement_sound sc Hp).
Qed.

(* the hypotheses of (T) are satisfiable, on a trace that differs from the model's run (the instances built by
   the Rebuild step are listed in another order, which agree_full allows) *)
Definition rev_built (o : out) : out :=
  mkOut (x_pre o) (x_main o) (x_post o) (x_log o) (x_snaps o) (x_mirror o) (rev (x_built o)) (x_probe o) (x_update o) (x_panicked o).
Example C12_judgement_transfer_satisfiable :
  let t := trace (map rev_built (run ex_sc)) in
  profile_C12 ex_sc /\ one_op_frames ex_sc = true /\ agree_full (ex_sc, t) = true /\ t <> trace (run ex_sc) /\ C12c.ok (ex_sc, t) = 0.
Proof. vm_compute. repeat split. discriminate. Qed.

(* several operations in one frame can build a shared type for two entities; agree_full compares the lists of
   built instances up to order, the judgement takes the last one as the owner of the configuration *)
Example C12_judgement_transfer_needs_one_op_frames :
  let sc := mkScenario [1] [0; 1] [((1, 0), ex_one 1 0); ((1, 1), ex_one 2 0)]
              [SOp (OSpawn 0 []); SOp (OSpawn 1 []); ex_frame [] [OInsert 0 1; ORemove 0 1; OInsert 1 1]; ex_frame [] []] in
  let t := trace (map rev_built (run sc)) in
  profile_C12 sc /\ one_op_frames sc = false /\ agree_full (sc, t) = true /\ C12c.ok (sc, t) <> 0 /\ C12c.ok (sc, trace (run sc)) = 0.
Proof. vm_compute. repeat split. discriminate. Qed.

Print Assumptions frame_clause.
Print Assumptions steps_sound.
Print Assumptions C12_judgement_sound.
Print Assumptions C12_judgement_transfer.
