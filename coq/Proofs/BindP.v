From BEI Require Import Model.Bind Proofs.ActionP Proofs.InstanceP.
Open Scope Z_scope.

(* ---- (a) equivalent constructions denote the same binding sequence ---- *)
Lemma denote_tuple l : denote (RTuple l) = flat_map denote l.
Proof. reflexivity. Qed.
Lemma denote_tuple_app l1 l2 : denote (RTuple (l1 ++ l2)) = denote (RTuple l1) ++ denote (RTuple l2).
Proof. cbn [denote]. apply flat_map_app. Qed.
Lemma denote_tuple_nested_l a rest : denote (RTuple (RTuple a :: rest)) = denote (RTuple (a ++ rest)).
Proof. cbn [denote flat_map]. rewrite flat_map_app. reflexivity. Qed.
Lemma denote_tuple_singleton s : denote (RTuple [s]) = denote s.
Proof. cbn [denote flat_map]. apply app_nil_r. Qed.
(* nesting is irrelevant: a tuple tree denotes the concatenation of its leaves *)
Fixpoint leaves (s : iset) : list iset :=
  match s with
  | RTuple l => flat_map leaves l
  | _ => [s]
  end.
Lemma flat_map_flat_map {A B C} (f : A -> list B) (g : B -> list C) l :
  flat_map g (flat_map f l) = flat_map (fun x => flat_map g (f x)) l.
Proof. induction l as [|x r IH]; simpl; [reflexivity|]. rewrite flat_map_app, IH. reflexivity. Qed.
Lemma denote_leaves : forall s, denote s = flat_map denote (leaves s).
Proof.
  fix IH 1. intros s. destruct s; try (cbn [leaves flat_map]; rewrite app_nil_r; reflexivity).
  cbn [denote leaves]. rewrite flat_map_flat_map.
  induction l as [|x r IHl]; [reflexivity|]. cbn [flat_map]. rewrite <- IH, IHl. reflexivity.
Qed.
Lemma same_leaves_same_denotation s1 s2 : leaves s1 = leaves s2 -> denote s1 = denote s2.
Proof. intros H. rewrite (denote_leaves s1), (denote_leaves s2), H. reflexivity. Qed.

(* slices, arrays and Vecs of raw inputs are tuples of their elements *)
Lemma denote_slice k l : denote (RSlice k l) = denote (RTuple (map RRaw l)).
Proof. cbn [denote]. induction l as [|x r IH]; [reflexivity|]. cbn [map flat_map denote]. rewrite <- IH. reflexivity. Qed.
Lemma denote_slice_kind k1 k2 l : denote (RSlice k1 l) = denote (RSlice k2 l).
Proof. reflexivity. Qed.

(* the *_each helpers attach the set to every element; per-input attachment is the same thing *)
Lemma denote_mods_each_tuple l ms : denote (RModsEach (RTuple l) ms) = denote (RTuple (map (fun s => RModsEach s ms) l)).
Proof.
  cbn [denote]. induction l as [|x r IH]; [reflexivity|]. cbn [flat_map map denote]. rewrite map_app, IH. reflexivity.
Qed.
Lemma denote_conds_each_tuple l cs : denote (RCondsEach (RTuple l) cs) = denote (RTuple (map (fun s => RCondsEach s cs) l)).
Proof.
  cbn [denote]. induction l as [|x r IH]; [reflexivity|]. cbn [flat_map map denote]. rewrite map_app, IH. reflexivity.
Qed.
Lemma denote_mods_each_single b ms : denote (RModsEach (RSingle b) ms) = [mkBind (b_input b) (b_mods b ++ ms) (b_conds b)].
Proof. reflexivity. Qed.
Lemma denote_conds_each_single b cs : denote (RCondsEach (RSingle b) cs) = [mkBind (b_input b) (b_mods b) (b_conds b ++ cs)].
Proof. reflexivity. Qed.
Lemma denote_mods_each_raw i ms : denote (RModsEach (RRaw i) ms) = denote (RSingle (mkBind i ms [])).
Proof. reflexivity. Qed.

(* repeated `to` calls append; one call with the tuple of all is the same *)
Lemma denote_routes_app r1 r2 : denote_routes (r1 ++ r2) = denote_routes r1 ++ denote_routes r2.
Proof. apply flat_map_app. Qed.
Lemma denote_routes_tuple rs : denote_routes rs = denote (RTuple rs).
Proof. reflexivity. Qed.

(* ---- (b) the presets match the compass ---- *)
Definition chain (ms : list (Z * modif)) (v : value) : value :=
  fold_left (fun acc m => snd (modif_apply (fun _ => None) (mkTime 0 1) acc (snd m))) ms v.
Definition added_mods (b : bind_spec) : list (Z * modif) := b_mods b.

Lemma cardinal_compass n e s w :
  let bs := cardinal [raw_bind n] [raw_bind e] [raw_bind s] [raw_bind w] in
  map b_input bs = [n; e; s; w] /\
  map (fun b => as3 (chain (b_mods b) (VB true))) bs = [(0, 1, 0); (1, 0, 0); (0, -1, 0); (-1, 0, 0)]%Q.
Proof. split; reflexivity. Qed.
Lemma cardinal_compass_axis n e s w (x : Q) :
  let bs := cardinal [raw_bind n] [raw_bind e] [raw_bind s] [raw_bind w] in
  map (fun b => as3 (chain (b_mods b) (V1 x))) bs = [(0, x, 0); (x, 0, 0); (0, - x, 0); (- x, 0, 0)]%Q.
Proof. reflexivity. Qed.
Lemma cardinal_keeps_own n e s w :
  denote (RCardinal n e s w) =
  map (add_mods [anon (MSwizzle YXZ)]) (denote n) ++ denote e ++
  map (add_mods [anon negate_all; anon (MSwizzle YXZ)]) (denote s) ++ map (add_mods [anon negate_all]) (denote w).
Proof. reflexivity. Qed.
Lemma bidirectional_compass p n :
  let bs := denote (RBidirectional (RRaw p) (RRaw n)) in
  map b_input bs = [p; n] /\ map (fun b => as3 (chain (b_mods b) (VB true))) bs = [(1, 0, 0); (-1, 0, 0)]%Q.
Proof. split; reflexivity. Qed.
Lemma stick_compass is_left (x y : Q) :
  let bs := denote (RStick is_left) in
  map b_input bs = (if is_left then [IPadAxis 0; IPadAxis 1] else [IPadAxis 2; IPadAxis 3]) /\
  as3 (chain (b_mods (nth 0 bs (raw_bind (IPadAxis 0)))) (V1 x)) = (x, 0, 0)%Q /\
  as3 (chain (b_mods (nth 1 bs (raw_bind (IPadAxis 0)))) (V1 y)) = (0, y, 0)%Q.
Proof. destruct is_left; repeat split. Qed.
Lemma builtin_sets :
  denote RWasd = denote (RCardinal (RRaw (IKey 10 0)) (RRaw (IKey 13 0)) (RRaw (IKey 12 0)) (RRaw (IKey 11 0))) /\
  denote RArrows = denote (RCardinal (RRaw (IKey 14 0)) (RRaw (IKey 17 0)) (RRaw (IKey 16 0)) (RRaw (IKey 15 0))) /\
  denote RDpad = denote (RCardinal (RRaw (IPadButton 4)) (RRaw (IPadButton 7)) (RRaw (IPadButton 6)) (RRaw (IPadButton 5))).
Proof. repeat split. Qed.
