(* Second wave of ties between definitions REGENERATED from the Rust source text (Generated/DataSrc.v,
   CondSrc.v, ModifSrc.v; bin/rs2v.py) and the hand-written model (Model/State.v, Cond.v, Modif.v).
   Conventions as in SrcTieP.v; argument order of the *_src functions follows the Rust source (self first);
   `time.delta_secs()` / `time.relative_speed()` are the parameters dt / sp.
   f32 sums are NOT normalised by the source, the model applies Qred: durations are tied up to == . *)
From Coq Require Import String.
From BEI Require Import Model.Num Model.Value Model.State Model.Tracker Model.Cond Model.Modif.
From BEI Require Import Generated.GlamTbl Generated.ValueSrc Generated.EventsSrc Generated.TrackerSrc.
From BEI Require Import Generated.DataSrc Generated.CondSrc Generated.GlamTbl2 Generated.ModifSrc.
From BEI Require Import Proofs.ValueP Proofs.SrcTieP.
Local Open Scope Q_scope.

(* ================================================================ ActionData::update *)
Definition deq (a b : data) : Prop :=
  d_state a = d_state b /\ d_events a = d_events b /\ d_value a = d_value b /\
  d_elapsed a == d_elapsed b /\ d_fired a == d_fired b.
Definition dred (d : data) : data :=
  mkData (d_state d) (d_events d) (d_value d) (Qred (d_elapsed d)) (Qred (d_fired d)).

Theorem ActionData_fields_tie :
  ActionData_fields_src = ["state"; "events"; "value"; "elapsed_secs"; "fired_secs"]%string.
Proof. reflexivity. Qed.
Print Assumptions ActionData_fields_tie.

Theorem ActionData_state_tie d : ActionData_state_src d = d_state d.
Proof. reflexivity. Qed.
Print Assumptions ActionData_state_tie.

Theorem ActionData_update_tie d dt s v : deq (ActionData_update_src d dt s v) (data_update dt d s v).
Proof.
  destruct d as [s0 e0 v0 el fi]. unfold ActionData_update_src, data_update, deq.
  destruct s0, s; simpl; repeat split; try reflexivity; symmetry; apply Qred_correct.
Qed.
Print Assumptions ActionData_update_tie.
(* syntactically: the model's result is the source's result with both durations normalised *)
Theorem ActionData_update_tie_leibniz d dt s v : data_update dt d s v = dred (ActionData_update_src d dt s v).
Proof.
  destruct d as [s0 e0 v0 el fi]. unfold ActionData_update_src, data_update, dred.
  destruct s0, s; reflexivity.
Qed.
Print Assumptions ActionData_update_tie_leibniz.

(* ================================================================ condition_timer.rs *)
Definition timer_of (t : ConditionTimer_src) : timer :=
  mkTimer (ConditionTimer_relative_speed t) (ConditionTimer_duration t).
Definition tmeq (a b : timer) : Prop := t_rel a = t_rel b /\ t_dur a == t_dur b.

Theorem ConditionTimer_fields_tie : ConditionTimer_fields_src = ["relative_speed"; "duration"]%string.
Proof. reflexivity. Qed.
Print Assumptions ConditionTimer_fields_tie.

Theorem ConditionTimer_update_tie t dt sp :
  tmeq (timer_of (ConditionTimer_update_src t dt sp)) (timer_update (mkTime dt sp) (timer_of t)).
Proof.
  destruct t as [rel dur]. unfold ConditionTimer_update_src, timer_update, tmeq. simpl.
  destruct (qeqb (if rel then 1 else sp) 0); simpl; split; try reflexivity.
  symmetry; apply Qred_correct.
Qed.
Print Assumptions ConditionTimer_update_tie.
(* syntactic equality when the guard skips the update, and up to Qred otherwise *)
Theorem ConditionTimer_update_tie_leibniz t dt sp :
  timer_update (mkTime dt sp) (timer_of t) =
  if qeqb (if ConditionTimer_relative_speed t then 1 else sp) 0 then timer_of t
  else let t' := timer_of (ConditionTimer_update_src t dt sp) in mkTimer (t_rel t') (Qred (t_dur t')).
Proof.
  destruct t as [rel dur]. unfold ConditionTimer_update_src, timer_update. simpl.
  destruct (qeqb (if rel then 1 else sp) 0); reflexivity.
Qed.
Print Assumptions ConditionTimer_update_tie_leibniz.

Theorem ConditionTimer_reset_tie t : timer_of (ConditionTimer_reset_src t) = timer_reset (timer_of t).
Proof. destruct t; reflexivity. Qed.
Print Assumptions ConditionTimer_reset_tie.
Theorem ConditionTimer_duration_tie t : ConditionTimer_duration_src t = t_dur (timer_of t).
Proof. destruct t; reflexivity. Qed.
Print Assumptions ConditionTimer_duration_tie.

(* ================================================================ the built-in conditions *)
(* the model keeps a condition's memory in the constructor's fields: embeddings of the generated records *)
Definition press_of (c : Press_src) : cond := CPress (Press_actuation c).
Definition just_press_of (c : JustPress_src) : cond := CJustPress (JustPress_actuation c) (JustPress_actuated c).
Definition release_of (c : Release_src) : cond := CRelease (Release_actuation c) (Release_actuated c).
Definition hold_of (c : Hold_src) : cond :=
  CHold (Hold_hold_time c) (Hold_one_shot c) (Hold_actuation c) (timer_of (Hold_timer c)) (Hold_fired c).
Definition hold_and_release_of (c : HoldAndRelease_src) : cond :=
  CHoldAndRelease (HoldAndRelease_hold_time c) (HoldAndRelease_actuation c) (timer_of (HoldAndRelease_timer c))
                  (HoldAndRelease_actuated c).
Definition tap_of (c : Tap_src) : cond :=
  CTap (Tap_release_time c) (Tap_actuation c) (timer_of (Tap_timer c)) (Tap_actuated c).
Definition pulse_of (c : Pulse_src) : cond :=
  CPulse (Pulse_interval c) (Pulse_trigger_limit c) (Pulse_trigger_on_start c) (Pulse_actuation c)
         (timer_of (Pulse_timer c)) (Pulse_trigger_count c).
Definition chord_of (a : aid) (c : Chord_src) : cond := CChord a.
Definition block_by_of (a : aid) (c : BlockBy_src) : cond := CBlockBy a (BlockBy_events_only c).

(* equality of conditions up to == on timer durations *)
Definition ceq (a b : cond) : Prop :=
  match a, b with
  | CHold ht os act t f, CHold ht' os' act' t' f' => ht = ht' /\ os = os' /\ act = act' /\ tmeq t t' /\ f = f'
  | CHoldAndRelease ht act t p, CHoldAndRelease ht' act' t' p' => ht = ht' /\ act = act' /\ tmeq t t' /\ p = p'
  | CTap rt act t p, CTap rt' act' t' p' => rt = rt' /\ act = act' /\ tmeq t t' /\ p = p'
  | CPulse iv lim os act t n, CPulse iv' lim' os' act' t' n' =>
      iv = iv' /\ lim = lim' /\ os = os' /\ act = act' /\ tmeq t t' /\ n = n'
  | CHold _ _ _ _ _, _ | CHoldAndRelease _ _ _ _, _ | CTap _ _ _ _, _ | CPulse _ _ _ _ _ _, _ => False
  | _, _ => a = b
  end.
(* the shape of every tie: new memory (up to ceq) and returned state (syntactically) *)
Definition eval_tie (src : cond * state) (model : cond * state) : Prop :=
  ceq (fst src) (fst model) /\ snd src = snd model.

Theorem Press_evaluate_tie look tm c v :
  let r := Press_evaluate_src c v in (press_of (fst r), snd r) = cond_eval look tm v (press_of c).
Proof.
  destruct c as [act]. unfold Press_evaluate_src, press_of. simpl. rewrite is_actuated_tie.
  destruct (is_actuated v act); reflexivity.
Qed.
Print Assumptions Press_evaluate_tie.

Theorem JustPress_evaluate_tie look tm c v :
  let r := JustPress_evaluate_src c v in (just_press_of (fst r), snd r) = cond_eval look tm v (just_press_of c).
Proof.
  destruct c as [act p]. unfold JustPress_evaluate_src, just_press_of. simpl. rewrite is_actuated_tie.
  destruct (is_actuated v act), p; reflexivity.
Qed.
Print Assumptions JustPress_evaluate_tie.

Theorem Release_evaluate_tie look tm c v :
  let r := Release_evaluate_src c v in (release_of (fst r), snd r) = cond_eval look tm v (release_of c).
Proof.
  destruct c as [act p]. unfold Release_evaluate_src, release_of. simpl. rewrite is_actuated_tie.
  destruct (is_actuated v act), p; reflexivity.
Qed.
Print Assumptions Release_evaluate_tie.

(* helper: the two possible next timers, source and model side, related by tmeq *)
Lemma next_timer_tie (b : bool) t dt sp :
  tmeq (timer_of (if b then ConditionTimer_update_src t dt sp else ConditionTimer_reset_src t))
       (if b then timer_update (mkTime dt sp) (timer_of t) else timer_reset (timer_of t)).
Proof.
  destruct b; [apply ConditionTimer_update_tie|]. rewrite ConditionTimer_reset_tie. split; reflexivity.
Qed.
Lemma qleb_dur a x t' : tmeq (timer_of x) t' -> qleb a (ConditionTimer_duration x) = qleb a (t_dur t').
Proof. intros [_ H]. unfold qleb. apply Qle_bool_compat; [reflexivity|exact H]. Qed.
Lemma qleb_dur_l a t t' : tmeq t t' -> qleb (t_dur t) a = qleb (t_dur t') a.
Proof. intros [_ H]. unfold qleb. apply Qle_bool_compat; [exact H|reflexivity]. Qed.

Ltac split_ifs := repeat match goal with |- context [if ?c then _ else _] => destruct c; simpl end.

Theorem Hold_evaluate_tie look c dt sp v :
  let r := Hold_evaluate_src c dt sp v in
  eval_tie (hold_of (fst r), snd r) (cond_eval look (mkTime dt sp) v (hold_of c)).
Proof.
  destruct c as [ht os act t f]. unfold Hold_evaluate_src, hold_of, eval_tie, ConditionTimer_duration_src, set_Hold_fired_src, set_Hold_timer_src. simpl.
  rewrite is_actuated_tie.
  pose proof (next_timer_tie (is_actuated v act) t dt sp) as H.
  destruct (is_actuated v act); simpl in *;
    try rewrite (qleb_dur ht _ _ H);
    match goal with |- context [qleb ht ?d] => destruct (qleb ht d) end; simpl;
    destruct f, os; simpl; repeat split; try reflexivity; try apply H.
Qed.
Print Assumptions Hold_evaluate_tie.

Theorem HoldAndRelease_evaluate_tie look c dt sp v :
  let r := HoldAndRelease_evaluate_src c dt sp v in
  eval_tie (hold_and_release_of (fst r), snd r) (cond_eval look (mkTime dt sp) v (hold_and_release_of c)).
Proof.
  destruct c as [ht act t p]. unfold HoldAndRelease_evaluate_src, hold_and_release_of, eval_tie, ConditionTimer_duration_src, set_HoldAndRelease_timer_src, set_HoldAndRelease_actuated_src. simpl.
  rewrite is_actuated_tie.
  pose proof (ConditionTimer_update_tie t dt sp) as H.
  destruct (is_actuated v act); simpl.
  - repeat split; try reflexivity; apply H.
  - rewrite (qleb_dur ht _ _ H). destruct H as [H1 H2].
    match goal with |- context [if ?c then _ else _] => destruct c end; simpl;
      repeat split; try reflexivity; exact H1.
Qed.
Print Assumptions HoldAndRelease_evaluate_tie.

Theorem Tap_evaluate_tie look c dt sp v :
  let r := Tap_evaluate_src c dt sp v in
  eval_tie (tap_of (fst r), snd r) (cond_eval look (mkTime dt sp) v (tap_of c)).
Proof.
  destruct c as [rt act t p]. unfold Tap_evaluate_src, tap_of, eval_tie, ConditionTimer_duration_src, set_Tap_timer_src, set_Tap_actuated_src. simpl.
  rewrite is_actuated_tie.
  pose proof (next_timer_tie (is_actuated v act) t dt sp) as H.
  destruct (is_actuated v act); simpl in *;
    try rewrite (qleb_dur rt _ _ H); simpl; split_ifs;
    repeat split; try reflexivity; try apply H.
Qed.
Print Assumptions Tap_evaluate_tie.

Theorem Pulse_evaluate_tie look c dt sp v :
  let r := Pulse_evaluate_src c dt sp v in
  eval_tie (pulse_of (fst r), snd r) (cond_eval look (mkTime dt sp) v (pulse_of c)).
Proof.
  destruct c as [iv lim os act t n]. unfold Pulse_evaluate_src, pulse_of, eval_tie, ConditionTimer_duration_src, set_Pulse_timer_src, set_Pulse_trigger_count_src. simpl.
  rewrite is_actuated_tie.
  pose proof (ConditionTimer_update_tie t dt sp) as H.
  destruct (is_actuated v act); simpl.
  - destruct (Z.eqb lim 0 || Z.ltb n lim)%bool; simpl.
    + rewrite (qleb_dur _ _ _ H).
      match goal with |- context [qleb ?a ?d] => destruct (qleb a d) end; simpl;
        repeat split; try reflexivity; apply H.
    + repeat split; try reflexivity; apply H.
  - destruct t as [rel dur]. repeat split; reflexivity.
Qed.
Print Assumptions Pulse_evaluate_tie.

(* chord / block_by: the lookup `actions.action::<A>()` is the parameter o : option data; the model's
   [look a] is the state held for the action, i.e. option_map d_state o *)
Theorem Chord_evaluate_tie look tm a c o v :
  look a = option_map d_state o ->
  let r := Chord_evaluate_src c o v in (chord_of a (fst r), snd r) = cond_eval look tm v (chord_of a c).
Proof. intros H. unfold chord_of. simpl. rewrite H. destruct o; reflexivity. Qed.
Print Assumptions Chord_evaluate_tie.
Theorem Chord_kind_tie a c : Chord_kind_src c = cond_kind (chord_of a c).
Proof. reflexivity. Qed.
Print Assumptions Chord_kind_tie.

Theorem BlockBy_evaluate_tie look tm a c o v :
  look a = option_map d_state o ->
  let r := BlockBy_evaluate_src c o v in (block_by_of a (fst r), snd r) = cond_eval look tm v (block_by_of a c).
Proof.
  intros H. unfold block_by_of. simpl. rewrite H. destruct o as [d|]; [|reflexivity].
  destruct d as [s e v0 el fi]. destruct s; reflexivity.
Qed.
Print Assumptions BlockBy_evaluate_tie.
Theorem BlockBy_kind_tie a c : BlockBy_kind_src c = cond_kind (block_by_of a c).
Proof. destruct c; reflexivity. Qed.
Print Assumptions BlockBy_kind_tie.

(* field lists of the generated records (declaration order) *)
Theorem cond_fields_tie :
  Press_fields_src = ["actuation"]%string /\
  JustPress_fields_src = ["actuation"; "actuated"]%string /\
  Release_fields_src = ["actuation"; "actuated"]%string /\
  Hold_fields_src = ["hold_time"; "one_shot"; "actuation"; "timer"; "fired"]%string /\
  HoldAndRelease_fields_src = ["hold_time"; "actuation"; "timer"; "actuated"]%string /\
  Tap_fields_src = ["release_time"; "actuation"; "timer"; "actuated"]%string /\
  Pulse_fields_src = ["interval"; "trigger_limit"; "trigger_on_start"; "actuation"; "timer"; "trigger_count"]%string /\
  Chord_fields_src = [] /\ BlockBy_fields_src = ["events_only"]%string.
Proof. repeat split; reflexivity. Qed.
Print Assumptions cond_fields_tie.

(* the model respects ceq, so the per-frame ties above chain over any number of frames *)
Lemma tmeq_refl t : tmeq t t.
Proof. split; reflexivity. Qed.
Lemma ceq_refl c : ceq c c.
Proof. destruct c; simpl; repeat split; try reflexivity. Qed.
Lemma timer_update_compat tm a b : tmeq a b -> tmeq (timer_update tm a) (timer_update tm b).
Proof.
  destruct a as [r d], b as [r' d']. intros [H1 H2]. simpl in *. subst r'. unfold timer_update. simpl.
  destruct (qeqb (if r then 1 else speed tm) 0); split; simpl; try reflexivity; try assumption.
  rewrite !Qred_correct. now rewrite H2.
Qed.
Lemma timer_reset_compat a b : tmeq a b -> tmeq (timer_reset a) (timer_reset b).
Proof. intros [H1 H2]. split; simpl; [exact H1|reflexivity]. Qed.
Lemma qleb_tm a t t' : tmeq t t' -> qleb a (t_dur t) = qleb a (t_dur t').
Proof. intros [_ H]. unfold qleb. apply Qle_bool_compat; [reflexivity|exact H]. Qed.
Lemma qleb_tm_l a t t' : tmeq t t' -> qleb (t_dur t) a = qleb (t_dur t') a.
Proof. intros [_ H]. unfold qleb. apply Qle_bool_compat; [exact H|reflexivity]. Qed.

Theorem cond_eval_ceq look tm v c c' :
  ceq c c' -> eval_tie (cond_eval look tm v c) (cond_eval look tm v c').
Proof.
  destruct c, c'; simpl; try contradiction; try discriminate;
    try (intros H; inversion H; subst; split; [apply ceq_refl|reflexivity]).
  - (* hold *)
    intros (-> & -> & -> & H & ->).
    pose proof (timer_update_compat tm _ _ H) as Hu. pose proof (timer_reset_compat _ _ H) as Hr.
    destruct (is_actuated v act0).
    + rewrite (qleb_tm _ _ _ Hu). unfold eval_tie; split_ifs; repeat split; try reflexivity; apply Hu.
    + rewrite (qleb_tm _ _ _ Hr). unfold eval_tie; split_ifs; repeat split; try reflexivity; apply Hr.
  - (* hold and release *)
    intros (-> & -> & H & ->).
    pose proof (timer_update_compat tm _ _ H) as Hu.
    pose proof (timer_reset_compat _ _ Hu) as Hr.
    rewrite (qleb_tm _ _ _ Hu).
    unfold eval_tie; split_ifs; repeat split; try reflexivity; try apply Hu; try apply Hr.
  - (* tap *)
    intros (-> & -> & H & ->).
    pose proof (timer_update_compat tm _ _ H) as Hu. pose proof (timer_reset_compat _ _ H) as Hr.
    rewrite (qleb_tm_l _ _ _ H).
    destruct (is_actuated v act0).
    + rewrite (qleb_tm _ _ _ Hu). unfold eval_tie; split_ifs; repeat split; try reflexivity; apply Hu.
    + rewrite (qleb_tm _ _ _ Hr). unfold eval_tie; split_ifs; repeat split; try reflexivity; apply Hr.
  - (* pulse *)
    intros (-> & -> & -> & -> & H & ->).
    pose proof (timer_update_compat tm _ _ H) as Hu. pose proof (timer_reset_compat _ _ H) as Hr.
    rewrite (qleb_tm _ _ _ Hu).
    unfold eval_tie; split_ifs; repeat split; try reflexivity; try apply Hu; try apply Hr.
Qed.
Print Assumptions cond_eval_ceq.

(* ================================================================ modifiers (input_modifier/*.rs) *)
(* embeddings of the generated records into the model's constructors *)
Definition scale_of (m : Scale_src) : modif := let '(fx, fy, fz) := Scale_factor m in MScale fx fy fz.
Definition delta_scale_of (m : DeltaScale_src) : modif := MDeltaScale.
Definition dead_zone_of (m : DeadZone_src) : modif :=
  MDeadZone (DeadZone_kind m) (DeadZone_lower_threshold m) (DeadZone_upper_threshold m).
Definition accumulate_of (a : aid) (m : AccumulateBy_src) : modif := MAccumulate a (AccumulateBy_value m).

Theorem modif_fields_tie :
  Scale_fields_src = ["factor"]%string /\ DeltaScale_fields_src = [] /\
  AccumulateBy_fields_src = ["value"]%string /\
  DeadZone_fields_src = ["kind"; "lower_threshold"; "upper_threshold"]%string /\
  DeadZoneKind_variants_src = ["Radial"; "Axial"]%string.
Proof. repeat split; reflexivity. Qed.
Print Assumptions modif_fields_tie.

Theorem Scale_apply_tie look tm m v :
  let r := Scale_apply_src m v in (scale_of (fst r), snd r) = modif_apply look tm v (scale_of m).
Proof. destruct m as [[[fx fy] fz]]. destruct v as [[|]|x|x y|x y z]; reflexivity. Qed.
Print Assumptions Scale_apply_tie.

Theorem DeltaScale_apply_tie look dt sp m v :
  let r := DeltaScale_apply_src m dt v in
  (delta_scale_of (fst r), snd r) = modif_apply look (mkTime dt sp) v (delta_scale_of m).
Proof. destruct v as [[|]|x|x y|x y z]; reflexivity. Qed.
Print Assumptions DeltaScale_apply_tie.

(* accumulate_by: the accumulator is tied up to == (the model normalises the sum with Qred), the output up to veq *)
Theorem AccumulateBy_apply_tie look tm a m o v :
  look a = option_map d_state o ->
  let r := AccumulateBy_apply_src m o v in
  match modif_apply look tm v (accumulate_of a m) with
  | (MAccumulate a' acc', out) => a' = a /\ q3eq (AccumulateBy_value (fst r)) acc' /\ veq (snd r) out
  | _ => False
  end.
Proof.
  intros H. destruct m as [acc]. unfold accumulate_of, AccumulateBy_apply_src. simpl.
  unfold accumulate_apply. rewrite H. destruct o as [d|]; simpl.
  - destruct d as [s e v0 el fi]. unfold ActionData_state_src. simpl. rewrite ActionState_eqb_tie.
    pose proof (as_axis3d_tie v) as Hv. rewrite dim_tie.
    destruct (state_eqb s SFired); simpl.
    + destruct acc as [[p q] r], (as_axis3d_src v) as [[x y] z], (as3 v) as [[x' y'] z']. simpl in *.
      destruct Hv as [H1 [H2 H3]].
      assert (Hq : q3eq (p + x, q + y, r + z) (Qred (p + x'), Qred (q + y'), Qred (r + z'))).
      { simpl. rewrite !Qred_correct. now rewrite H1, H2, H3. }
      split; [reflexivity|]. split; [exact Hq|].
      eapply veq_trans; [apply convert_tie|]. apply convert_compat. exact Hq.
    + destruct (as_axis3d_src v) as [[x y] z], (as3 v) as [[x' y'] z']. simpl in *.
      split; [reflexivity|]. split; [exact Hv|].
      eapply veq_trans; [apply convert_tie|]. apply convert_compat. exact Hv.
  - destruct acc as [[p q] r]. repeat split; try reflexivity. apply veq_refl.
Qed.
Print Assumptions AccumulateBy_apply_tie.

(* dead zone *)
Theorem DeadZone_dead_zone_tie m x :
  DeadZone_dead_zone_src m x = dz (DeadZone_lower_threshold m) (DeadZone_upper_threshold m) x.
Proof. reflexivity. Qed.
Print Assumptions DeadZone_dead_zone_tie.

Lemma qsqrt_compat a b : a == b -> qsqrt a = qsqrt b.
Proof. intros H. unfold qsqrt, qsqrt_exact. now rewrite (Qred_complete a b H). Qed.

(* axial dead zones and 1-D / bool inputs: syntactic equality, for ANY square-root function *)
Theorem DeadZone_apply_tie_axial look tm sq m v :
  DeadZone_kind m = Axial \/ (forall x y, v <> V2 x y) /\ (forall x y z, v <> V3 x y z) ->
  let r := DeadZone_apply_src sq m v in (dead_zone_of (fst r), snd r) = modif_apply look tm v (dead_zone_of m).
Proof.
  destruct m as [k lo hi]. unfold dead_zone_of. simpl.
  destruct v as [[|]|x|x y|x y z]; intros H; try reflexivity;
    (destruct H as [H|[H1 H2]]; [simpl in H; subst k; reflexivity|]).
  - now destruct (H1 x y).
  - now destruct (H2 x y z).
Qed.
Print Assumptions DeadZone_apply_tie_axial.

(* radial dead zones, with the square root instantiated by the model's qsqrt: equality up to veq
   (on a zero-length input the source computes ZERO * k = (0 * k, ..), the model the literal zero vector).
   NOT tied: that qsqrt is the real square root (it is exact on squares of rationals and a lower
   approximation to 2^-30 otherwise), and f32 rounding of length / normalize. *)
Theorem DeadZone_apply_tie look tm m v :
  let r := DeadZone_apply_src qsqrt m v in
  dead_zone_of (fst r) = fst (modif_apply look tm v (dead_zone_of m)) /\
  veq (snd r) (snd (modif_apply look tm v (dead_zone_of m))).
Proof.
  destruct m as [k lo hi]. unfold dead_zone_of. simpl.
  destruct k; [|split; [destruct v as [[|]|x|x y|x y z]; reflexivity|]].
  - (* Radial *)
    destruct v as [[|]|x|x y|x y z]; simpl; split; try reflexivity; try (repeat split; reflexivity).
    + unfold deadzone_apply, numeric, radial, v3len2, Glam2.vec2_normalize_or_zero, Glam2.vec2_length, Glam.vec2_length_squared, from_Vec2_src.
      assert (E : qsqrt (x * x + y * y) = qsqrt (x * x + y * y + 0 * 0)) by (apply qsqrt_compat; ring).
      rewrite E. destruct (qeqb (qsqrt (x * x + y * y + 0 * 0)) 0); simpl; repeat split; try reflexivity; try ring.
    + unfold deadzone_apply, numeric, radial, v3len2, Glam2.vec3_normalize_or_zero, Glam2.vec3_length, Glam.vec3_length_squared, from_Vec3_src.
      destruct (qeqb (qsqrt (x * x + y * y + z * z)) 0); simpl; repeat split; try reflexivity; try ring.
  - destruct v as [[|]|x|x y|x y z]; simpl; repeat split; reflexivity.
Qed.
Print Assumptions DeadZone_apply_tie.
