From BEI Require Import Model.Frame Spec.Events Proofs.StateP.
Open Scope Z_scope.

(* (a) what a frame computes does not depend on how the raw input reached Bevy's input resources *)
Definition with_how (f : frame_in) (h : Z) : frame_in := mkFrame (f_real f) (f_speed f) (f_paused f) h (f_raw f) (f_ops f).
Lemma frame_how_irrelevant sc w f h : frame sc w (with_how f h) = frame sc w f.
Proof. reflexivity. Qed.

(* the frame's evaluation reads this frame's raw input and this frame's time *)
Lemma frame_reads_current sc w f fo :
  frame sc w f = Some fo ->
  let o := reg_update (frame_time f) (f_raw f) (update_state (f_raw f)) (w_reg w) in
  ro_events o = Some (fo_main fo) /\ fo_log fo = ro_log o /\
  (f_ops f = [] -> fo_post fo = [] /\ w_reg (fo_world fo) = ro_reg o).
Proof.
  unfold frame. intros H.
  destruct (ro_events (reg_update (frame_time f) (f_raw f) (update_state (f_raw f)) (w_reg w))) as [main|] eqn:E; [|discriminate].
  destruct (run_ops sc _ (f_ops f)) as [a|] eqn:R; [|discriminate]. inversion H; subst. cbn [fo_main fo_log fo_post fo_world].
  split; [reflexivity|]. split; [reflexivity|]. intros Hops. rewrite Hops in R. cbn in R. inversion R; subst. split; reflexivity.
Qed.

(* (c) a frame that leaves an action's state unchanged delivers no Started, Canceled or Completed for it *)
Lemma quiet_transition p : ~ In EStarted (table p p) /\ ~ In ECanceled (table p p) /\ ~ In ECompleted (table p p).
Proof. destruct p; simpl; repeat split; intros H; repeat (destruct H as [H|H]; try discriminate); exact H. Qed.
