(* Soundness and transfer of the executable judgements Check/C08c.v (ok8), Check/C08w.v (ok8w) and Check/C08r.v (ok8r)
   "a new context ignores inputs that were already held when it was created":
     forall sc, profile sc -> ok8  (sc, trace (run sc)) = 0         (C08c_judgement_sound)
     forall sc, profile sc -> ok8w (sc, trace (run sc)) = 0         (C08_app_judgement_sound)
     ... and for every trace that agree_full identifies with the model's run (C08c_judgement_transfer, C08_app_judgement_transfer).
   Built on Proofs/JudgeC12P.v (same held map, same registry/log decomposition); the relation between the stored
   suppression flags and the judgement's held map is strengthened from an implication to an equivalence. *)
From Coq Require Import List ZArith Bool Lia Sorted Permutation.
From BEI Require Import Model.Frame Spec.ReadSpec Proofs.ReaderP Proofs.ActionP Proofs.InstanceP Proofs.SuppressP
  Proofs.RegistryP Proofs.FrameLiftP Proofs.SuppressLiftP Proofs.TrackOpP Check.App Check.C12c Proofs.JudgeC12P Check.C08c Check.C08w.
From BEI Require Proofs.JudgeC07P Check.C08r.
Import ListNotations.
Open Scope Z_scope.

(* ================================================================================================ *)
(* 1. the invariant: a stored binding is still suppressed IFF its input is in the judgement's held list *)
(* ================================================================================================ *)
Definition ib_sim8 (sk : ibind -> bool) (l : list input) (b b0 : ibind) : Prop :=
  ib_input b = ib_input b0 /\ ids_of (ib_mods b) = ids_of (ib_mods b0) /\ ids_of (ib_conds b) = ids_of (ib_conds b0) /\
  (sk b = true <-> In (ib_input b) l).
Definition ab_sim8 (sk : ibind -> bool) (l : list input) (ab ab0 : abind) : Prop :=
  ids_of (ab_mods ab) = ids_of (ab_mods ab0) /\ ids_of (ab_conds ab) = ids_of (ab_conds ab0) /\
  Forall2 (ib_sim8 sk l) (ab_inputs ab) (ab_inputs ab0).
Definition inst_sim8 (l : list input) (i : inst) (s : inst_spec) : Prop :=
  in_pad i = i_pad s /\ Forall2 (ab_sim8 stored_sk l) (in_binds i) (merged_actions s).
Definition group_rel8 (sc : scenario) (h : held_map) (g : group) : Prop :=
  match g with
  | GExcl c _ insts => Forall (fun ei => inst_sim8 (held_lookup h c (fst ei)) (snd ei) (cfg_lookup sc c (fst ei))) insts
  | GShared c _ _ i => exists e0, h_owner h c = Some e0 /\ inst_sim8 (held_lookup h c e0) i (cfg_lookup sc c e0)
  end.
Definition h_inv8 (sc : scenario) (r : registry) (h : held_map) : Prop := Forall (group_rel8 sc h) r.

(* it implies the invariant of JudgeC12P *)
Lemma ab_sim8_weaken sk l ab ab0 : ab_sim8 sk l ab ab0 -> ab_sim sk l ab ab0.
Proof.
  intros (Hm & Hc & Hi). split; [exact Hm|]. split; [exact Hc|]. eapply Forall2_impl; [|exact Hi].
  intros b b0 (H1 & H2 & H3 & H4). split; [exact H1|]. split; [exact H2|]. split; [exact H3|]. apply H4.
Qed.
Lemma inst_sim8_weaken l i s : inst_sim8 l i s -> inst_sim l i s.
Proof. intros [Hp Hb]. split; [exact Hp|]. eapply Forall2_impl; [|exact Hb]. intros ab ab0. apply ab_sim8_weaken. Qed.
Lemma group_rel8_weaken sc h g : group_rel8 sc h g -> group_rel sc h g.
Proof.
  destruct g as [c p insts|c p ents i]; cbn [group_rel8 group_rel].
  - intros H. eapply Forall_impl; [|exact H]. intros ei. apply inst_sim8_weaken.
  - intros (e0 & Ho & Hs). exists e0. split; [exact Ho | apply inst_sim8_weaken; exact Hs].
Qed.
Lemma h_inv8_weaken sc r h : h_inv8 sc r h -> h_inv sc r h.
Proof. intros H. eapply Forall_impl; [|exact H]. intros g. apply group_rel8_weaken. Qed.

Lemma group_rel8_other sc h h' g :
  (forall e, held_lookup h' (g_ctx g) e = held_lookup h (g_ctx g) e) -> h_owner h' (g_ctx g) = h_owner h (g_ctx g) ->
  group_rel8 sc h g -> group_rel8 sc h' g.
Proof.
  destruct g as [c p insts|c p ents i]; cbn [group_rel8 g_ctx]; intros H1 H2 H.
  - eapply Forall_impl; [|exact H]. intros ei Hei. cbv beta in *. rewrite H1. exact Hei.
  - destruct H as (e0 & Ho & Hs). exists e0. rewrite H2, H1. split; assumption.
Qed.

(* a freshly built instance: every binding is suppressed and every input is in the configuration's input list *)
Lemma fresh_sim8 s : inst_sim8 (inputs_of_spec s) (instantiate s) s.
Proof.
  split; [apply instantiate_pad|]. unfold merged_actions. apply Forall2_refl_in. intros ab Hab.
  pose proof (instantiate_inputs s) as H. rewrite Forall_forall in H. specialize (H ab Hab).
  pose proof (instantiate_ignored s) as G. rewrite Forall_forall in G. specialize (G ab Hab).
  split; [reflexivity|]. split; [reflexivity|]. apply Forall2_refl_in. intros ib Hib. rewrite Forall_forall in H, G.
  split; [reflexivity|]. split; [reflexivity|]. split; [reflexivity|]. unfold stored_sk.
  split; [intros _; apply H; exact Hib | intros _; apply G; exact Hib].
Qed.

(* after the update: still suppressed iff it was suppressed and the input is active, iff it stays in the filtered held list *)
Lemma inst_sim8_step r l i i' s : inst_sim8 l i s -> flags_step r i i' ->
  inst_sim8 (filter (fun x => phys_active r (i_pad s) x) l) i' s.
Proof.
  intros [Hp Hb] [Hp' Hb']. split; [congruence|].
  refine (Forall2_compose_l _ _ _ _ _ _ _ Hb' Hb). intros ab ab' ab0 (_ & Sm & Sc & Si) (Hm & Hc & Hi).
  split; [congruence|]. split; [congruence|].
  refine (Forall2_compose_l _ _ _ _ _ _ _ Si Hi). intros b b' b0 (Ti & Tm & Tc & Tf & _) (Ui & Um & Uc & Uh).
  split; [congruence|]. split; [congruence|]. split; [congruence|].
  unfold stored_sk in *. rewrite Tf, Ti, andb_true_iff, filter_In, Uh, phys_active_phys, <- Hp. tauto.
Qed.
(* during the update: a binding is skipped iff it is in the filtered held list *)
Lemma inst_sim8_frame r l i s : inst_sim8 l i s ->
  Forall2 (ab_sim8 (frame_sk r (in_pad i)) (filter (fun x => phys_active r (i_pad s) x) l)) (in_binds i) (merged_actions s).
Proof.
  intros [Hp Hb]. eapply Forall2_impl; [|exact Hb]. intros ab ab0 (Hm & Hc & Hi).
  split; [exact Hm|]. split; [exact Hc|]. eapply Forall2_impl; [|exact Hi]. intros b b0 (Ui & Um & Uc & Uh).
  split; [exact Ui|]. split; [exact Um|]. split; [exact Uc|]. unfold frame_sk, stored_sk in *.
  rewrite andb_true_iff, filter_In, Uh, phys_active_phys, <- Hp. tauto.
Qed.

Lemma group_rel8_step sc r h g g' : group_rel8 sc h g -> group_flags_step r g g' -> group_rel8 sc (hfilter sc r h) g'.
Proof.
  destruct g as [c p insts|c p ents i], g' as [c' p' insts'|c' p' ents' i']; cbn [group_rel8 group_flags_step]; intros H S; try contradiction.
  - destruct S as (-> & _ & S). refine (Forall2_Forall _ _ _ _ _ _ S H). intros [e i] [e' i'] [E F] Hs. cbn [fst snd] in *. subst e'.
    rewrite held_lookup_filter. apply (inst_sim8_step r _ i i' _ Hs F).
  - destruct S as (-> & _ & _ & F). destruct H as (e0 & Ho & Hs). exists e0. rewrite h_owner_filter, held_lookup_filter.
    split; [exact Ho | exact (inst_sim8_step r _ i i' _ Hs F)].
Qed.
Lemma h_inv8_update sc tm r c gs h : h_inv8 sc gs h -> h_inv8 sc (ro_reg (reg_update tm r c gs)) (hfilter sc r h).
Proof.
  unfold h_inv8. intros H. refine (Forall2_Forall _ _ _ _ _ _ (reg_update_flags tm r gs c) H).
  intros g g' S Hg. exact (group_rel8_step sc r h g g' Hg S).
Qed.

(* ================================================================================================ *)
(* 2. R2: the invariant through operations (as in JudgeC12P, for the stronger relation)             *)
(* ================================================================================================ *)

Lemma group_rel8_set_other sc h c e l g : g_ctx g <> c -> group_rel8 sc h g -> group_rel8 sc (held_set h c e l) g.
Proof.
  intros Hne. apply group_rel8_other.
  - intros e'. rewrite held_lookup_set. replace (Z.eqb c (g_ctx g)) with false by (symmetry; apply Z.eqb_neq; congruence). reflexivity.
  - rewrite h_owner_set. replace (Z.eqb c (g_ctx g)) with false by (symmetry; apply Z.eqb_neq; congruence). reflexivity.
Qed.
Lemma Forall_rel8_set_other sc h c e l gs : ~ In c (map g_ctx gs) -> Forall (group_rel8 sc h) gs -> Forall (group_rel8 sc (held_set h c e l)) gs.
Proof.
  intros Hn H. apply Forall_forall. intros g Hg. rewrite Forall_forall in H. apply group_rel8_set_other; [|apply H; exact Hg].
  intros E. apply Hn. rewrite <- E. apply in_map. exact Hg.
Qed.

Definition OInv8 (sc : scenario) (w : world) (h : held_map) : Prop := reg_inv sc w /\ h_inv8 sc (w_reg w) h.

Lemma reg_add_hinv8 sc c e r h : reg_wf r -> h_inv8 sc r h -> ~ holds_in c e r ->
  h_inv8 sc (reg_add (mk_inst sc c) c e r) (rebuilt sc h (add_built c e r)).
Proof.
  intros Hwf Hh Hnh. unfold add_built, h_inv8 in *. destruct (index_of c r) as [n|] eqn:Ei.
  - destruct (index_of_some c r n Ei) as (l1 & g & l2 & -> & _ & Hc & Hn1).
    destruct (reg_wf_absent _ _ _ Hwf) as [_ Hn2]. rewrite Hc in Hn2.
    destruct (reg_wf_group _ _ _ Hwf) as (_ & Hsh & _). rewrite Hc in Hsh.
    rewrite (reg_add_old _ c e l1 g l2 Hn1 Hc).
    apply Forall_app in Hh. destruct Hh as [H1 H2]. inversion H2 as [|? ? Hg H3]; subst.
    assert (Hne : ~ In e (g_ents g)).
    { intros H. apply Hnh. exists g. split; [apply in_or_app; right; left; reflexivity | split; [reflexivity | exact H]]. }
    destruct g as [c0 p insts|c0 p ents i]; cbn [g_ctx g_shared g_ents add_ent group_rel8] in *.
    + rewrite <- Hsh, rebuilt_one. apply Forall_app. split; [apply Forall_rel8_set_other; assumption|].
      constructor; [|apply Forall_rel8_set_other; assumption]. cbn [group_rel8]. apply Forall_app. split.
      * apply Forall_forall. intros [e' i'] Hin. rewrite Forall_forall in Hg. specialize (Hg _ Hin). cbn [fst snd] in *.
        rewrite held_lookup_set. replace (Z.eqb e e') with false; [rewrite andb_false_r; exact Hg|].
        symmetry. apply Z.eqb_neq. intros ->. apply Hne. apply in_map_iff. exists (e', i'). split; [reflexivity | exact Hin].
      * constructor; [|constructor]. cbn [fst snd]. rewrite held_lookup_set, !Z.eqb_refl. cbn [andb]. apply fresh_sim8.
    + rewrite <- Hsh. cbn [rebuilt fold_left]. apply Forall_app. split; [exact H1|]. constructor; [exact Hg | exact H3].
  - rewrite (reg_add_new _ c e r Ei), rebuilt_one. apply index_of_none in Ei. apply Forall_insert_at.
    + apply Forall_rel8_set_other; assumption.
    + unfold new_group. destruct (ctx_shared c); cbn [group_rel8].
      * exists e. rewrite h_owner_set, held_lookup_set, !Z.eqb_refl. cbn [andb]. split; [reflexivity | apply fresh_sim8].
      * constructor; [|constructor]. cbn [fst snd]. rewrite held_lookup_set, !Z.eqb_refl. cbn [andb]. apply fresh_sim8.
Qed.

Lemma insert_ctx_OInv8 sc w h e c : OInv8 sc w h ->
  OInv8 sc (oo_world (insert_ctx sc w e c)) (rebuilt sc h (oo_built (insert_ctx sc w e c))).
Proof.
  intros (Hinv & Hh). pose proof (insert_ctx_inv sc w e c Hinv) as Hinv'. unfold insert_ctx in *.
  destruct (holds_of e (w_holds w)) as [cs|] eqn:He; [|split; assumption].
  destruct (memz c cs || negb (memz c (s_menu sc))) eqn:Em; [split; assumption|].
  cbn [oo_world oo_built w_reg w_holds] in *. apply orb_false_iff in Em. destruct Em as [Em _].
  split; [exact Hinv'|].
  pose proof (proj1 (reg_inv_alt sc w) Hinv) as (Hwf & Hm & _).
  apply (reg_add_hinv8 sc c e (w_reg w) h Hwf Hh). intros H. apply Hm in H. destruct H as (cs' & H1 & H2). congruence.
Qed.

Definition AInv8 (sc : scenario) (h : held_map) (a : op_out) : Prop :=
  OInv8 sc (oo_world a) (rebuilt sc h (oo_built a)).

Lemma spawn_fold_OInv8 sc h e cs : forall acc, AInv8 sc h acc ->
  AInv8 sc h (fold_left (fun acc c => let o := insert_ctx sc (oo_world acc) e c in
                                       mkOpOut (oo_world o) (oo_events acc ++ oo_events o) (oo_built acc ++ oo_built o)) cs acc).
Proof.
  induction cs as [|c cs IH]; intros acc Ha; cbn [fold_left]; [exact Ha|].
  apply IH. unfold AInv8 in *. cbv zeta. cbn [oo_world oo_built].
  rewrite rebuilt_app. apply insert_ctx_OInv8. exact Ha.
Qed.

(* --- removal --- *)

Lemma reg_remove_hinv8 sc tm c e r r' oevs h : reg_remove tm c e r = Some (r', oevs) -> h_inv8 sc r h -> h_inv8 sc r' h.
Proof.
  unfold reg_remove, h_inv8. intros H Hh.
  destruct (index_of c r) as [n|]; [|discriminate]. destruct (nth_error r n) as [g|] eqn:En; [|discriminate].
  assert (Hg : group_rel8 sc h g) by (rewrite Forall_forall in Hh; apply Hh; eapply nth_error_In; exact En).
  destruct g as [c' p insts|c' p ents i].
  - destruct (position (fun ei : Z * inst => Z.eqb (fst ei) e) insts) as [k|]; [|discriminate].
    destruct (nth_error insts k) as [[x i]|]; [|discriminate]. injection H as <- _.
    destruct (swap_remove k insts) as [|q rest] eqn:Es; [apply Forall_remove_at; exact Hh|].
    apply Forall_update_at; [exact Hh|]. intros _ _. cbn [group_rel8] in *. rewrite Forall_forall in *.
    intros ei Hei. apply Hg. apply (swap_remove_incl k insts). rewrite Es. exact Hei.
  - destruct (position (Z.eqb e) ents) as [k|]; [|discriminate]. injection H as <- _.
    destruct (swap_remove k ents) as [|q rest]; [apply Forall_remove_at; exact Hh|].
    apply Forall_update_at; [exact Hh|]. intros _ _. exact Hg.
Qed.
Lemma remove_ctx_hinv8 sc w e c o h : remove_ctx w e c = Some o -> h_inv8 sc (w_reg w) h ->
  h_inv8 sc (w_reg (oo_world o)) h /\ oo_built o = [].
Proof.
  unfold remove_ctx. intros H Hh. destruct (holds_of e (w_holds w)) as [cs|]; [|injection H as <-; split; [exact Hh | reflexivity]].
  destruct (negb (memz c cs)); [injection H as <-; split; [exact Hh | reflexivity]|].
  destruct (reg_remove (w_time w) c e (w_reg w)) as [[r' [evs|]]|] eqn:Er; try discriminate. injection H as <-.
  cbn [oo_world w_reg oo_built]. split; [exact (reg_remove_hinv8 sc _ _ _ _ _ _ h Er Hh) | reflexivity].
Qed.
Lemma remove_ctx_OInv8 sc w h e c o : OInv8 sc w h -> remove_ctx w e c = Some o -> OInv8 sc (oo_world o) h /\ oo_built o = [].
Proof.
  intros (Hinv & Hh) H. destruct (remove_ctx_spec sc w e c Hinv) as (o' & Ho' & Hinv' & Hholds).
  rewrite H in Ho'. injection Ho' as <-. destruct (remove_ctx_hinv8 sc w e c o h H Hh) as [Hh' Hb].
  split; [|exact Hb]. split; [exact Hinv' | exact Hh'].
Qed.
Lemma despawn_fold_OInv8 sc h e cs : forall a a', fold_left (despawn_f e) cs (Some a) = Some a' ->
  OInv8 sc (oo_world a) h -> OInv8 sc (oo_world a') h.
Proof.
  induction cs as [|c cs IH]; intros a a' H Ha; cbn [fold_left] in H; [injection H as <-; exact Ha|].
  cbn [despawn_f] in H. destruct (remove_ctx (oo_world a) e c) as [o|] eqn:Er; [|rewrite despawn_f_none in H; discriminate].
  apply (IH _ _ H). cbn [oo_world]. exact (proj1 (remove_ctx_OInv8 sc _ h e c o Ha Er)).
Qed.

(* --- rebuild --- *)
Lemma reg_rebuild_hinv8 sc tm c r r' oevs h : reg_wf r -> h_inv8 sc r h ->
  reg_rebuild (mk_inst sc c) tm c r = Some (r', oevs) -> h_inv8 sc r' (rebuilt sc h (built_of c r)).
Proof.
  intros Hwf Hh H. unfold built_of, h_inv8 in *. destruct (index_of c r) as [n|] eqn:Ei.
  - destruct (index_of_some c r n Ei) as (l1 & g & l2 & -> & Hl & Hc & Hn1).
    destruct (reg_wf_absent _ _ _ Hwf) as [_ Hn2]. rewrite Hc in Hn2.
    destruct (reg_wf_group _ _ _ Hwf) as (_ & _ & Hne & _).
    destruct (reg_rebuild_form _ tm c l1 g l2 r' oevs Hn1 Hc Hne H) as [-> _].
    rewrite <- Hl, nth_error_mid.
    apply Forall_app in Hh. destruct Hh as [H1 H2]. inversion H2 as [|? ? Hg H3]; subst.
    assert (Hother : forall built gs, (forall p, In p built -> fst p = g_ctx g) -> ~ In (g_ctx g) (map g_ctx gs) ->
                       Forall (group_rel8 sc h) gs -> Forall (group_rel8 sc (rebuilt sc h built)) gs).
    { intros built gs Hb Hn HF. apply Forall_forall. intros g' Hg'. rewrite Forall_forall in HF.
      assert (Hd : forall p, In p built -> fst p <> g_ctx g').
      { intros p Hp E. apply Hn. rewrite <- (Hb p Hp), E. apply in_map. exact Hg'. }
      destruct (rebuilt_other sc built h (g_ctx g') Hd) as [R1 R2]. apply (group_rel8_other sc h); [exact R1 | exact R2 | apply HF; exact Hg']. }
    destruct g as [c0 p insts|c0 p ents i]; cbn [g_ctx g_ents regroup] in *.
    + assert (Hb : forall q, In q (map (fun ei : entity * inst => (c0, fst ei)) insts) -> fst q = c0).
      { intros q Hq. apply in_map_iff in Hq. destruct Hq as (ei & <- & _). reflexivity. }
      apply Forall_app. split; [apply Hother; assumption|]. constructor; [|apply Hother; assumption].
      cbn [group_rel8]. apply Forall_forall. intros ei Hei. apply in_map_iff in Hei. destruct Hei as ([e' i'] & <- & Hin). cbn [fst snd].
      rewrite rebuilt_built; [apply fresh_sim8|]. apply in_map_iff. exists (e', i'). split; [reflexivity | exact Hin].
    + destruct ents as [|e0 ents]; [congruence|]. cbn [hd].
      assert (Hb : forall q, In q [(c0, e0)] -> fst q = c0) by (intros q [<-|[]]; reflexivity).
      apply Forall_app. split; [apply Hother; assumption|]. constructor; [|apply Hother; assumption].
      cbn [group_rel8]. exists e0. rewrite rebuilt_one, h_owner_set, held_lookup_set, !Z.eqb_refl. cbn [andb].
      split; [reflexivity | apply fresh_sim8].
  - rewrite (reg_rebuild_absent _ tm c r Ei) in H. injection H as <- _.
    destruct (nth_error r 0) as [[? ? ?|? ? [|? ?] ?]|]; exact Hh.
Qed.

Lemma rebuild_one_AInv8 sc h c a a' : rebuild_one sc (Some a) c = Some a' -> AInv8 sc h a -> AInv8 sc h a'.
Proof.
  unfold AInv8. intros H (Hinv & Hh). cbn [rebuild_one] in H. cbv zeta in H.
  fold (built_of c (w_reg (oo_world a))) in H.
  pose proof (proj1 (reg_inv_alt sc _) Hinv) as (Hwf & Hm & Hhw).
  destruct (reg_rebuild_spec (mk_inst sc c) (w_time (oo_world a)) c (w_reg (oo_world a)) Hwf (mk_inst_wf sc c))
    as (r' & evs & Er & Hshape & Hins).
  rewrite Er in H. injection H as <-. cbn [oo_world oo_built]. rewrite rebuilt_app. split.
  - apply reg_inv_alt. cbn [w_reg w_holds]. split; [eapply same_shape_wf; eassumption|]. split; [|exact Hhw].
    intros c' e'. rewrite (same_shape_holds _ _ Hshape). apply Hm.
  - cbn [w_reg]. exact (reg_rebuild_hinv8 sc _ c _ r' _ _ Hwf Hh Er).
Qed.
Lemma rebuild_fold_AInv8 sc h cs : forall a a', fold_left (rebuild_one sc) cs (Some a) = Some a' -> AInv8 sc h a -> AInv8 sc h a'.
Proof.
  induction cs as [|c cs IH]; intros a a' H Ha; cbn [fold_left] in H; [injection H as <-; exact Ha|].
  destruct (rebuild_one sc (Some a) c) as [a1|] eqn:E; [|rewrite rebuild_fold_none in H; discriminate].
  exact (IH a1 a' H (rebuild_one_AInv8 sc h c a a1 E Ha)).
Qed.

(* --- every operation --- *)
Lemma AInv8_init sc h w : OInv8 sc w h -> AInv8 sc h (mkOpOut w [] []).
Proof. intros H. exact H. Qed.

Lemma apply_op_OInv8 sc w h o r : OInv8 sc w h -> apply_op sc w o = Some r ->
  OInv8 sc (oo_world r) (rebuilt sc h (oo_built r)).
Proof.
  intros HO H. pose proof HO as (Hinv & Hh). destruct o as [e cs|e c|e c|e|]; cbn [apply_op] in *.
  - destruct (holds_of e (w_holds w)) as [old|] eqn:He; injection H as <-; [exact HO|].
    apply (spawn_fold_OInv8 sc h e cs).
    unfold AInv8. cbn [oo_world oo_built rebuilt fold_left]. split; [apply spawn_world_inv; assumption | exact Hh].
  - injection H as <-. apply insert_ctx_OInv8. exact HO.
  - destruct (remove_ctx_OInv8 sc w h e c r HO H) as [H1 ->]. exact H1.
  - destruct (holds_of e (w_holds w)) as [cs0|] eqn:He; [|injection H as <-; exact HO].
    change (match fold_left (despawn_f e) (filter (fun c => memz c cs0) (s_menu sc)) (Some (mkOpOut w [] [])) with
            | Some a => Some (mkOpOut (mkWorld (del_ent e (w_holds (oo_world a))) (w_reg (oo_world a)) (w_time w)) (oo_events a) [])
            | None => None end = Some r) in H.
    destruct (fold_left (despawn_f e) (filter (fun c => memz c cs0) (s_menu sc)) (Some (mkOpOut w [] []))) as [a|] eqn:Ef; [|discriminate].
    injection H as <-. cbn [oo_world oo_built rebuilt fold_left].
    pose proof (despawn_fold_OInv8 sc h e _ _ _ Ef HO) as (_ & Hh').
    destruct (apply_op_inv sc w (ODespawn e) Hinv) as (r2 & Hr2 & Hinv2). cbn [apply_op] in Hr2. rewrite He in Hr2.
    change (match fold_left (despawn_f e) (filter (fun c => memz c cs0) (s_menu sc)) (Some (mkOpOut w [] [])) with
            | Some a => Some (mkOpOut (mkWorld (del_ent e (w_holds (oo_world a))) (w_reg (oo_world a)) (w_time w)) (oo_events a) [])
            | None => None end = Some r2) in Hr2.
    rewrite Ef in Hr2. injection Hr2 as <-. cbn [oo_world] in Hinv2.
    split; [exact Hinv2 | exact Hh'].
  - change (fold_left (rebuild_one sc) (s_menu sc) (Some (mkOpOut w [] [])) = Some r) in H. exact (rebuild_fold_AInv8 sc h _ _ _ H (AInv8_init sc h w HO)).
Qed.

Lemma run_ops_OInv8 sc ops : forall w h a, OInv8 sc w h -> run_ops sc w ops = Some a ->
  OInv8 sc (oo_world a) (rebuilt sc h (oo_built a)).
Proof.
  induction ops as [|o ops IH]; intros w h a HO H.
  - rewrite run_ops_nil in H. injection H as <-. exact HO.
  - rewrite run_ops_cons in H. destruct (apply_op sc w o) as [r|] eqn:Eo; [|discriminate].
    destruct (run_ops sc (oo_world r) ops) as [a2|] eqn:Er; [|discriminate]. cbn [option_map] in H. injection H as <-.
    unfold prefix_out. cbn [oo_world oo_built]. rewrite rebuilt_app.
    apply (IH (oo_world r)); [|exact Er].
    exact (apply_op_OInv8 sc w h o r HO Eo).
Qed.

(* ================================================================================================ *)
(* 3. counting ids: what the model logs of an instance against all the ids of its configuration     *)
(* ================================================================================================ *)
Fixpoint cntz (x : Z) (l : list Z) : nat :=
  match l with [] => O | y :: r => ((if Z.eqb x y then 1 else 0) + cntz x r)%nat end.
Lemma cntz_app x a b : cntz x (a ++ b) = (cntz x a + cntz x b)%nat.
Proof. induction a as [|y a IH]; cbn [app cntz]; [reflexivity|]. rewrite IH. lia. Qed.
Lemma cntz_pos x l : In x l -> (1 <= cntz x l)%nat.
Proof.
  induction l as [|y l IH]; cbn [In cntz]; [intros []|]. intros [->|H]; [rewrite Z.eqb_refl; lia|]. specialize (IH H). lia.
Qed.
Lemma cntz_zero x l : cntz x l = O -> ~ In x l.
Proof. intros H Hin. apply cntz_pos in Hin. lia. Qed.

Lemma Forall2_in_r {A B} (R : A -> B -> Prop) l1 l2 : Forall2 R l1 l2 -> forall y, In y l2 -> exists x, In (x, y) (combine l1 l2).
Proof.
  induction 1 as [|a b l1 l2 _ _ IH]; intros y Hy; [destruct Hy|]. destruct Hy as [<-|Hy].
  - exists a. left. reflexivity.
  - destruct (IH y Hy) as (x & Hx). exists x. right. exact Hx.
Qed.
Lemma Forall2_combine {A B} (R : A -> B -> Prop) l1 l2 : Forall2 R l1 l2 -> forall x y, In (x, y) (combine l1 l2) -> R x y.
Proof.
  induction 1 as [|a b l1 l2 Hab _ IH]; intros x y Hin; [destruct Hin|]. destruct Hin as [E|Hin]; [inversion E; subst; exact Hab | exact (IH x y Hin)].
Qed.

Lemma input_ids_sim sk l b b0 : ib_sim8 sk l b b0 -> input_ids (sk b) b = if sk b then [] else input_all_ids b0.
Proof. intros (_ & Hm & Hc & _). unfold input_ids, input_all_ids. rewrite Hm, Hc. reflexivity. Qed.

Lemma sk_inputs_cons sk b bs : sk_inputs_ids sk (b :: bs) = input_ids (sk b) b ++ sk_inputs_ids sk bs.
Proof. reflexivity. Qed.
Lemma inputs_all_cons b bs : inputs_all_ids (b :: bs) = input_all_ids b ++ inputs_all_ids bs.
Proof. reflexivity. Qed.

Lemma cnt_inputs_le sk l x bs bs0 : Forall2 (ib_sim8 sk l) bs bs0 -> (cntz x (sk_inputs_ids sk bs) <= cntz x (inputs_all_ids bs0))%nat.
Proof.
  induction 1 as [|b b0 bs bs0 Hb _ IH]; [cbn; lia|].
  rewrite sk_inputs_cons, inputs_all_cons, !cntz_app, (input_ids_sim sk l b b0 Hb). destruct (sk b); cbn [cntz]; lia.
Qed.
Lemma cnt_inputs_skipped sk l x bs bs0 : Forall2 (ib_sim8 sk l) bs bs0 -> forall b b0, In (b, b0) (combine bs bs0) -> sk b = true ->
  (cntz x (sk_inputs_ids sk bs) + cntz x (input_all_ids b0) <= cntz x (inputs_all_ids bs0))%nat.
Proof.
  induction 1 as [|b1 b01 bs bs0 Hb Hbs IH]; intros b b0 Hin Hsk; [destruct Hin|].
  rewrite sk_inputs_cons, inputs_all_cons, !cntz_app, (input_ids_sim sk l b1 b01 Hb). destruct Hin as [E|Hin].
  - inversion E; subst. rewrite Hsk. cbn [cntz]. pose proof (cnt_inputs_le sk l x bs bs0 Hbs). lia.
  - specialize (IH b b0 Hin Hsk). destruct (sk b1); cbn [cntz]; lia.
Qed.
Lemma in_inputs_live sk l bs bs0 : Forall2 (ib_sim8 sk l) bs bs0 -> forall b b0, In (b, b0) (combine bs bs0) -> sk b = false ->
  incl (input_all_ids b0) (sk_inputs_ids sk bs).
Proof.
  induction 1 as [|b1 b01 bs bs0 Hb Hbs IH]; intros b b0 Hin Hsk; [destruct Hin|].
  rewrite sk_inputs_cons, (input_ids_sim sk l b1 b01 Hb). intros x Hx. apply in_or_app. destruct Hin as [E|Hin].
  - inversion E; subst. rewrite Hsk. left. exact Hx.
  - right. exact (IH b b0 Hin Hsk x Hx).
Qed.

Lemma cnt_abind_le sk l x ab ab0 : ab_sim8 sk l ab ab0 -> (cntz x (sk_abind_ids sk ab) <= cntz x (abind_all_ids ab0))%nat.
Proof.
  intros (Hm & Hc & Hi). unfold sk_abind_ids, abind_all_ids. rewrite Hm, Hc, !cntz_app. pose proof (cnt_inputs_le sk l x _ _ Hi). lia.
Qed.
Lemma cnt_abind_skipped sk l x ab ab0 : ab_sim8 sk l ab ab0 -> forall b b0, In (b, b0) (combine (ab_inputs ab) (ab_inputs ab0)) -> sk b = true ->
  (cntz x (sk_abind_ids sk ab) + cntz x (input_all_ids b0) <= cntz x (abind_all_ids ab0))%nat.
Proof.
  intros (Hm & Hc & Hi) b b0 Hb Hsk. pose proof (cnt_inputs_skipped sk l x _ _ Hi b b0 Hb Hsk).
  unfold sk_abind_ids, abind_all_ids. rewrite Hm, Hc, !cntz_app. lia.
Qed.
Lemma abinds_all_cons ab abs : abinds_all_ids (ab :: abs) = abind_all_ids ab ++ abinds_all_ids abs.
Proof. reflexivity. Qed.
Lemma cnt_abinds_le sk l x abs abs0 : Forall2 (ab_sim8 sk l) abs abs0 ->
  (cntz x (flat_map (sk_abind_ids sk) abs) <= cntz x (abinds_all_ids abs0))%nat.
Proof.
  induction 1 as [|ab ab0 abs abs0 Hab _ IH]; [cbn; lia|].
  cbn [flat_map]. rewrite abinds_all_cons, !cntz_app. pose proof (cnt_abind_le sk l x ab ab0 Hab). lia.
Qed.
Lemma cnt_abinds_skipped sk l x abs abs0 : Forall2 (ab_sim8 sk l) abs abs0 -> forall ab ab0 b b0,
  In (ab, ab0) (combine abs abs0) -> In (b, b0) (combine (ab_inputs ab) (ab_inputs ab0)) -> sk b = true ->
  (cntz x (flat_map (sk_abind_ids sk) abs) + cntz x (input_all_ids b0) <= cntz x (abinds_all_ids abs0))%nat.
Proof.
  induction 1 as [|ab1 ab01 abs abs0 Hab Habs IH]; intros ab ab0 b b0 Hin Hb Hsk; [destruct Hin|].
  cbn [flat_map]. rewrite abinds_all_cons, !cntz_app. destruct Hin as [E|Hin].
  - inversion E; subst. pose proof (cnt_abinds_le sk l x abs abs0 Habs). pose proof (cnt_abind_skipped sk l x ab ab0 Hab b b0 Hb Hsk). lia.
  - specialize (IH ab ab0 b b0 Hin Hb Hsk). pose proof (cnt_abind_le sk l x ab1 ab01 Hab). lia.
Qed.
Lemma in_abinds_live sk l abs abs0 : Forall2 (ab_sim8 sk l) abs abs0 -> forall ab ab0 b b0,
  In (ab, ab0) (combine abs abs0) -> In (b, b0) (combine (ab_inputs ab) (ab_inputs ab0)) -> sk b = false ->
  incl (input_all_ids b0) (flat_map (sk_abind_ids sk) abs).
Proof.
  induction 1 as [|ab1 ab01 abs abs0 Hab Habs IH]; intros ab ab0 b b0 Hin Hb Hsk; [destruct Hin|].
  cbn [flat_map]. intros x Hx. apply in_or_app. destruct Hin as [E|Hin].
  - inversion E; subst. left. destruct Hab as (_ & _ & Hi). unfold sk_abind_ids. apply in_or_app. left.
    exact (in_inputs_live sk l _ _ Hi b b0 Hb Hsk x Hx).
  - right. exact (IH ab ab0 b b0 Hin Hb Hsk x Hx).
Qed.

(* ================================================================================================ *)
(* 4. the instances of a registry and the configuration each was built from                         *)
(* ================================================================================================ *)
Definition member (h : held_map) (g : group) (e : Z) (i : inst) : Prop :=
  match g with GExcl _ _ insts => In (e, i) insts | GShared c _ _ i0 => i = i0 /\ h_owner h c = Some e end.

Lemma member_sim sc h g e i : group_rel8 sc h g -> member h g e i ->
  inst_sim8 (held_lookup h (g_ctx g) e) i (cfg_lookup sc (g_ctx g) e).
Proof.
  destruct g as [c p insts|c p ents i0]; cbn [group_rel8 member g_ctx].
  - intros H Hin. rewrite Forall_forall in H. exact (H _ Hin).
  - intros (e0 & Ho & Hs) (-> & Ho'). rewrite Ho in Ho'. injection Ho' as <-. exact Hs.
Qed.
Lemma member_ids r h g e i : member h g e i -> incl (inst_ids r i) (group_ids r g).
Proof.
  destruct g as [c p insts|c p ents i0]; cbn [member group_ids].
  - intros Hin x Hx. apply in_flat_map. exists (e, i). split; [exact Hin | exact Hx].
  - intros (-> & _). apply incl_refl.
Qed.
Lemma group_ids_member sc r h g x : group_rel8 sc h g -> In x (group_ids r g) -> exists e i, member h g e i /\ In x (inst_ids r i).
Proof.
  destruct g as [c p insts|c p ents i0]; cbn [group_rel8 member group_ids].
  - intros _ Hx. apply in_flat_map in Hx. destruct Hx as ([e i] & Hin & Hx). exists e, i. split; [exact Hin | exact Hx].
  - intros (e0 & Ho & _) Hx. exists e0, i0. split; [split; [reflexivity | exact Ho] | exact Hx].
Qed.
Lemma member_unique h g e1 i1 e2 i2 : NoDup (g_ents g) -> member h g e1 i1 -> member h g e2 i2 ->
  g_shared g = true \/ e1 = e2 -> e1 = e2 /\ i1 = i2.
Proof.
  destruct g as [c p insts|c p ents i0]; cbn [member g_ents g_shared]; intros Hd H1 H2 Hor.
  - destruct Hor as [Hor|<-]; [discriminate|]. split; [reflexivity|].
    apply (find_fst_nodup e1 i1 insts Hd) in H1. apply (find_fst_nodup e1 i2 insts Hd) in H2. congruence.
  - destruct H1 as [-> H1], H2 as [-> H2]. split; [congruence | reflexivity].
Qed.

Lemma inst_ids_sub8 r l i s : inst_sim8 l i s -> incl (inst_ids r i) (abinds_all_ids (merged_actions s)).
Proof. intros H. apply (inst_ids_sub r l i s). apply inst_sim8_weaken. exact H. Qed.

(* ---- what the profile says about ids ---- *)
Definition first_id (b : ibind) : list Z := match input_all_ids b with x :: _ => [x] | [] => [] end.
Definition first_ids (s : inst_spec) : list Z := flat_map (fun ab => flat_map first_id (ab_inputs ab)) (merged_actions s).
(* the first id of every binding occurs once among the ids of its configuration, and in no other configuration - except
   in the configurations of the other holders of the same shared context type (one instance serves them all) *)
Definition ids_ok (sc : scenario) : Prop :=
  (forall c e x, In x (first_ids (cfg_lookup sc c e)) -> cntz x (cfg_ids sc c e) = 1%nat) /\
  (forall c1 e1 c2 e2 x, In x (first_ids (cfg_lookup sc c1 e1)) -> In x (cfg_ids sc c2 e2) ->
     c1 = c2 /\ (ctx_shared c1 = true \/ e1 = e2)).

Lemma NoDup_ctx_eq (reg : registry) g g' : NoDup (map g_ctx reg) -> In g reg -> In g' reg -> g_ctx g = g_ctx g' -> g = g'.
Proof. intros Hd H1 H2 E. exact (NoDup_map_inj g_ctx reg g g' Hd H1 H2 E). Qed.

(* the first id of a configured binding is in the frame's log exactly when the stored binding is not skipped *)
Lemma log_first_id sc r h reg : NoDup (map g_ctx reg) -> Forall group_ok reg -> h_inv8 sc reg h -> ids_ok sc ->
  forall g e' i, In g reg -> member h g e' i ->
  forall ab ab0 b b0 x rest,
    In (ab, ab0) (combine (in_binds i) (merged_actions (cfg_lookup sc (g_ctx g) e'))) ->
    In (b, b0) (combine (ab_inputs ab) (ab_inputs ab0)) -> input_all_ids b0 = x :: rest ->
    (In x (flat_map (group_ids r) reg) <-> frame_sk r (in_pad i) b = false).
Proof.
  intros Hd Hok Hh [I1 I2] g e' i Hg Hmem ab ab0 b b0 x rest Hab Hb Hx.
  pose proof Hh as Hh'. unfold h_inv8 in Hh'. rewrite Forall_forall in Hh'. rewrite Forall_forall in Hok.
  pose proof (member_sim sc h g e' i (Hh' g Hg) Hmem) as Hsim.
  pose proof (inst_sim8_frame r _ i _ Hsim) as Hfr.
  assert (Hfirst : In x (first_ids (cfg_lookup sc (g_ctx g) e'))).
  { unfold first_ids. apply in_flat_map. exists ab0. split; [exact (in_combine_r _ _ _ _ Hab)|].
    apply in_flat_map. exists b0. split; [exact (in_combine_r _ _ _ _ Hb)|]. unfold first_id. rewrite Hx. left. reflexivity. }
  assert (Hxb : In x (input_all_ids b0)) by (rewrite Hx; left; reflexivity).
  split.
  - intros Hin. apply in_flat_map in Hin. destruct Hin as (g' & Hg' & Hin).
    destruct (group_ids_member sc r h g' x (Hh' g' Hg') Hin) as (e2 & i2 & Hmem2 & Hin2).
    pose proof (member_sim sc h g' e2 i2 (Hh' g' Hg') Hmem2) as Hsim2.
    pose proof (inst_ids_sub8 r _ _ _ Hsim2 x Hin2) as Hcfg2. fold (cfg_ids sc (g_ctx g') e2) in Hcfg2.
    destruct (I2 _ _ _ _ x Hfirst Hcfg2) as [Ec Hor].
    pose proof (NoDup_ctx_eq reg g g' Hd Hg Hg' Ec) as <-.
    destruct (Hok g Hg) as (_ & Hsh & _ & Hnd & _).
    destruct (member_unique h g e' i e2 i2 Hnd Hmem Hmem2) as [<- <-]; [rewrite Hsh; exact Hor|].
    destruct (frame_sk r (in_pad i) b) eqn:Esk; [exfalso | reflexivity].
    pose proof (cnt_abinds_skipped _ _ x _ _ Hfr ab ab0 b b0 Hab Hb Esk) as Hc.
    pose proof (I1 _ _ x Hfirst) as H1. unfold cfg_ids in H1. rewrite H1 in Hc.
    pose proof (cntz_pos x _ Hxb). apply (cntz_zero x (inst_ids r i)); [unfold inst_ids; lia | exact Hin2].
  - intros Esk. apply in_flat_map. exists g. split; [exact Hg|]. apply (member_ids r h g e' i Hmem). unfold inst_ids.
    exact (in_abinds_live _ _ _ _ Hfr ab ab0 b b0 Hab Hb Esk x Hxb).
Qed.

(* ================================================================================================ *)
(* 5. R1: the clauses of one frame from any world satisfying the invariant                          *)
(* ================================================================================================ *)
Definition bcheck (held : list input) (lg : list Z) (b : ibind) : Z * bool :=
  if has_ids b then
    let still := existsb (input_eqb (ib_input b)) held in
    (if still then 1 else 2, Bool.eqb (bind_logged b lg) (negb still))
  else (2, true).
Definition owner8 (h1 : held_map) (c e : Z) : Z :=
  if ctx_shared c then match find (fun x : Z * Z * list input => Z.eqb (fst (fst x)) c) h1 with Some x => snd (fst x) | None => e end else e.
Definition cecheck (sc : scenario) (h1 : held_map) (lg : list Z) (ce : Z * Z) : list (Z * bool) :=
  let '(c, e) := ce in
  flat_map (fun ab => map (bcheck (held_lookup h1 c (owner8 h1 c e)) lg) (ab_inputs ab)) (merged_actions (cfg_lookup sc c (owner8 h1 c e))).

Lemma judge_steps8_frame sc h before f steps o outs :
  judge_steps8 sc h before (SFrame f :: steps) (o :: outs) =
  (8, negb (x_panicked o)) ::
  flat_map (cecheck sc (hfilter sc (f_raw f) h) (log_ids (x_log o))) (evaluated sc before) ++
  judge_steps8 sc (rebuilt sc (hfilter sc (f_raw f) h) (x_built o)) o steps outs.
Proof. reflexivity. Qed.
Lemma judge_steps8_op sc h before op steps o outs :
  judge_steps8 sc h before (SOp op :: steps) (o :: outs) =
  (8, negb (x_panicked o)) :: judge_steps8 sc (rebuilt sc h (x_built o)) o steps outs.
Proof. reflexivity. Qed.

Lemma input_eqb_eq a b : input_eqb a b = true -> a = b.
Proof.
  destruct a, b; cbn [input_eqb]; try discriminate; intros H;
    repeat (apply andb_true_iff in H; destruct H as [H ?]);
    repeat match goal with H : Z.eqb _ _ = true |- _ => apply Z.eqb_eq in H end; subst; reflexivity.
Qed.
Lemma existsb_input i l : existsb (input_eqb i) l = true <-> In i l.
Proof.
  rewrite existsb_exists. split.
  - intros (y & Hy & E). apply input_eqb_eq in E. subst y. exact Hy.
  - intros H. exists i. split; [exact H | apply input_eqb_refl].
Qed.

(* [before] lists as holders only pairs that have an instance in [w] *)
Definition before_ok8 (w : world) (before : out) : Prop :=
  forall c e, In e (holders c before) -> reg_get c e (w_reg w) <> None.

Lemma evaluated_in sc before c e : In (c, e) (evaluated sc before) -> In e (holders c before).
Proof.
  unfold evaluated. intros H. apply in_flat_map in H. destruct H as (c0 & _ & H).
  destruct (holders c0 before) as [|e1 rest] eqn:Eh; [destruct H|]. destruct (ctx_shared c0).
  - destruct H as [E|[]]. inversion E; subst. rewrite Eh. left. reflexivity.
  - apply in_map_iff in H. destruct H as (x & E & Hx). inversion E; subst. rewrite Eh. exact Hx.
Qed.
Lemma before_ok8_model sc w o : x_mirror o = model_mirror sc w -> before_ok8 w o.
Proof.
  intros Hx c e Hin. unfold holders in Hin. rewrite Hx in Hin. apply in_flat_map in Hin. destruct Hin as (m & Hm & Hin).
  apply BEI.Proofs.JudgeC07P.in_model_mirror in Hm. destruct Hm as (c' & e' & _ & _ & ->).
  destruct (Z.eqb c c') eqn:Ec; cbn [andb] in Hin; [|destruct Hin]. apply Z.eqb_eq in Ec. subst c'.
  unfold BEI.Proofs.JudgeC07P.gotb in Hin. destruct (reg_get c e' (w_reg w)) eqn:Eg; [|destruct Hin].
  destruct Hin as [<-|[]]. rewrite Eg. discriminate.
Qed.

Theorem frame_clause8 sc w h before tm r c0 : ids_ok sc -> OInv8 sc w h -> before_ok8 w before ->
  all_true (flat_map (cecheck sc (hfilter sc r h) (log_ids (ro_log (reg_update tm r c0 (w_reg w))))) (evaluated sc before)).
Proof.
  intros Hids (Hinv & Hh) Hb k bb Hin. apply in_flat_map in Hin. destruct Hin as ([c e] & Hev & Hin).
  pose proof Hinv as (_ & Hd & Hok & _).
  pose proof (Hb c e (evaluated_in sc before c e Hev)) as Hget. apply (reg_get_iff _ Hd) in Hget.
  destruct Hget as (g & Hg & Hc & He). subst c.
  pose proof Hok as Hok'. rewrite Forall_forall in Hok'. destruct (Hok' g Hg) as (_ & Hsh & _).
  pose proof Hh as Hh'. unfold h_inv8 in Hh'. rewrite Forall_forall in Hh'. pose proof (Hh' g Hg) as Hrel.
  set (h1 := hfilter sc r h) in *.
  assert (Hmem : exists i, member h g (owner8 h1 (g_ctx g) e) i).
  { unfold owner8. rewrite <- Hsh. destruct g as [c p insts|c p ents i]; cbn [g_shared g_ctx g_ents member group_rel8] in *.
    - apply in_map_iff in He. destruct He as ([e0 i] & E & Hi). cbn [fst] in E. subst e0. exists i. exact Hi.
    - destruct Hrel as (e0 & Ho & _). exists i. split; [reflexivity|].
      rewrite (owner_or h1 c e). unfold h1. rewrite h_owner_filter, Ho. reflexivity. }
  destruct Hmem as (i & Hmem). cbn [cecheck] in Hin. set (e' := owner8 h1 (g_ctx g) e) in *.
  pose proof (member_sim sc h g e' i Hrel Hmem) as Hsim.
  pose proof (inst_sim8_frame r _ i _ Hsim) as Hfr.
  apply in_flat_map in Hin. destruct Hin as (ab0 & Hab0 & Hin). apply in_map_iff in Hin. destruct Hin as (b0 & E & Hb0).
  destruct (Forall2_in_r _ _ _ Hfr ab0 Hab0) as (ab & Hab).
  pose proof (Forall2_combine _ _ _ Hfr ab ab0 Hab) as (_ & _ & Hi).
  destruct (Forall2_in_r _ _ _ Hi b0 Hb0) as (b & Hbb).
  pose proof (Forall2_combine _ _ _ Hi b b0 Hbb) as (Ei & _ & _ & Hiff).
  unfold bcheck in E. destruct (has_ids b0) eqn:Eh; [|inversion E; reflexivity].
  unfold has_ids in Eh. unfold bind_logged in E. change (ids_of' (ib_mods b0) ++ ids_of' (ib_conds b0)) with (input_all_ids b0) in Eh, E.
  destruct (input_all_ids b0) as [|x rest] eqn:Ex; [discriminate|]. cbv zeta in E.
  pose proof (log_first_id sc r h (w_reg w) Hd Hok Hh Hids g e' i Hg Hmem ab ab0 b b0 x rest Hab Hbb Ex) as Hlog.
  rewrite reg_update_log_ids in E. unfold h1 in E. rewrite held_lookup_filter in E. rewrite Ei in Hiff.
  destruct (frame_sk r (in_pad i) b) eqn:Esk.
  - assert (Es : existsb (input_eqb (ib_input b0)) (filter (fun x0 => phys_active r (i_pad (cfg_lookup sc (g_ctx g) e')) x0) (held_lookup h (g_ctx g) e')) = true).
    { apply existsb_input. apply Hiff. reflexivity. }
    rewrite Es in E.
    assert (Em : memz x (flat_map (group_ids r) (w_reg w)) = false).
    { apply memz_false. intros Hx. apply Hlog in Hx. discriminate. }
    rewrite Em in E. inversion E. reflexivity.
  - assert (Es : existsb (input_eqb (ib_input b0)) (filter (fun x0 => phys_active r (i_pad (cfg_lookup sc (g_ctx g) e')) x0) (held_lookup h (g_ctx g) e')) = false).
    { destruct (existsb _ _) eqn:Es; [|reflexivity]. apply existsb_input in Es. apply Hiff in Es. discriminate. }
    rewrite Es in E.
    assert (Em : memz x (flat_map (group_ids r) (w_reg w)) = true).
    { apply memz_in. apply Hlog. reflexivity. }
    rewrite Em in E. inversion E. reflexivity.
Qed.

(* ================================================================================================ *)
(* 6. R3: induction over the steps                                                                  *)
(* ================================================================================================ *)
Theorem steps8_sound sc : ids_ok sc -> forall steps w h before, OInv8 sc w h -> before_ok8 w before ->
  all_true (judge_steps8 sc h before steps (run_steps sc w steps)).
Proof.
  intros Hids. induction steps as [|st steps IH]; intros w h before HO HM; [intros k b []|].
  pose proof HO as (Hinv & Hh).
  destruct st as [o|f]; cbn [run_steps].
  - destruct (apply_op_inv sc w o Hinv) as (r & Er & _). rewrite Er. rewrite judge_steps8_op. cbn [x_panicked x_built negb].
    intros k b [E|Hkb]; [inversion E; reflexivity|]. revert k b Hkb.
    apply IH; [exact (apply_op_OInv8 sc w h o r HO Er) | apply (before_ok8_model sc); reflexivity].
  - destruct (frame_inv sc w f Hinv) as (fo & Ef & _). rewrite Ef. rewrite judge_steps8_frame. cbn [x_panicked x_built x_log negb].
    destruct (frame_parts sc w f fo Ef) as (a & Ea & Ew & El & Eb). cbv zeta in *.
    intros k b [E|Hkb]; [inversion E; reflexivity|]. apply in_app_or in Hkb. destruct Hkb as [Hkb|Hkb].
    + rewrite El in Hkb. exact (frame_clause8 sc w h before _ _ _ Hids HO HM k b Hkb).
    + revert k b Hkb. rewrite Eb, Ew. apply IH; [|apply (before_ok8_model sc); reflexivity].
      refine (run_ops_OInv8 sc (f_ops f) _ _ a _ Ea).
      split; [apply reg_update_inv; exact Hinv | cbn [w_reg]; apply h_inv8_update; exact Hh].
Qed.

(* ================================================================================================ *)
(* 7. the profile (a computable condition on the scenario alone) and the soundness theorems (S)      *)
(* ================================================================================================ *)
(* the first id of every binding - the one the judgement looks for in the log - occurs once in its configuration ... *)
Definition spec_first_once (s : inst_spec) : bool := forallb (fun x => Nat.eqb (cntz x (spec_ids s)) 1) (first_ids s).
Definition p_first_once (sc : scenario) : bool := forallb (fun x => spec_first_once (snd x)) (s_cfg sc).
(* ... and in no other configuration, except those of the other holders of the same shared context type *)
Definition p_first_disj (sc : scenario) : bool :=
  forallb (fun x => forallb (fun y =>
      (Z.eqb (fst (fst x)) (fst (fst y)) && (ctx_shared (fst (fst x)) || Z.eqb (snd (fst x)) (snd (fst y)))) ||
      forallb (fun id => negb (memz id (spec_ids (snd y)))) (first_ids (snd x))) (s_cfg sc)) (s_cfg sc).

(* profile of the judgement Check/C08c.v (ok8) *)
Definition profile_C08cb (sc : scenario) : bool := p_first_once sc && p_first_disj sc.
Definition profile_C08c (sc : scenario) : Prop := profile_C08cb sc = true.
(* profile of the judgement Check/C08w.v (ok8w = ok8 + the build rule): also, spawned entities are declared slots *)
Definition profile_C08b (sc : scenario) : bool := profile_C08cb sc && BEI.Proofs.JudgeC07P.spawns_declared sc.
Definition profile_C08 (sc : scenario) : Prop := profile_C08b sc = true.

Lemma cfg_lookup_cases8 sc c e :
  (exists x, In x (s_cfg sc) /\ fst (fst x) = c /\ snd (fst x) = e /\ cfg_lookup sc c e = snd x) \/ cfg_lookup sc c e = mkSpec None [].
Proof.
  unfold cfg_lookup.
  destruct (find (fun x : Z * Z * inst_spec => Z.eqb (fst (fst x)) c && Z.eqb (snd (fst x)) e) (s_cfg sc)) as [x|] eqn:E;
    [left | right; reflexivity].
  apply find_some in E. destruct E as [E1 E2]. apply andb_true_iff in E2. destruct E2 as [E2 E3]. apply Z.eqb_eq in E2, E3.
  exists x. repeat split; assumption.
Qed.

Lemma profile_ids sc : profile_C08c sc -> ids_ok sc.
Proof.
  unfold profile_C08c, profile_C08cb, p_first_once, p_first_disj. intros H. apply andb_true_iff in H. destruct H as [H1 H2].
  rewrite forallb_forall in H1, H2. split.
  - intros c e x Hx. unfold cfg_ids. destruct (cfg_lookup_cases8 sc c e) as [(y & Hy & _ & _ & E)|E]; rewrite E in *; [|destruct Hx].
    specialize (H1 y Hy). unfold spec_first_once in H1. rewrite forallb_forall in H1. apply Nat.eqb_eq. exact (H1 x Hx).
  - intros c1 e1 c2 e2 x Hx1 Hx2. unfold cfg_ids in Hx2.
    destruct (cfg_lookup_cases8 sc c1 e1) as [(y1 & Hy1 & Ec1 & Ee1 & E1)|E1]; rewrite E1 in *; [|destruct Hx1].
    destruct (cfg_lookup_cases8 sc c2 e2) as [(y2 & Hy2 & Ec2 & Ee2 & E2)|E2]; rewrite E2 in *; [|destruct Hx2].
    specialize (H2 y1 Hy1). rewrite forallb_forall in H2. specialize (H2 y2 Hy2). destruct y1 as [[c1' e1'] s1], y2 as [[c2' e2'] s2]. cbn [fst snd] in *. subst c1' e1' c2' e2'.
    apply orb_true_iff in H2. destruct H2 as [H2|H2].
    + apply andb_true_iff in H2. destruct H2 as [H2 H3]. apply Z.eqb_eq in H2. split; [exact H2|].
      apply orb_true_iff in H3. destruct H3 as [H3|H3]; [left; exact H3 | right; apply Z.eqb_eq; exact H3].
    + exfalso. rewrite forallb_forall in H2. specialize (H2 x Hx1). apply negb_true_iff in H2. apply memz_false in H2. exact (H2 Hx2).
Qed.

Definition start_out : out := mkOut [] [] [] [] [] [] [] true true false.
Lemma OInv8_init sc : OInv8 sc world_init [].
Proof. split; [apply reg_inv_init | constructor]. Qed.
Lemma before_ok8_init : before_ok8 world_init start_out.
Proof. intros c e []. Qed.

Definition clauses8 (sc : scenario) : list (Z * bool) := judge_steps8 sc [] start_out (s_steps sc) (run sc).

Theorem C08c_clauses_sound : forall sc, profile_C08c sc -> all_true (clauses8 sc).
Proof. intros sc Hp. exact (steps8_sound sc (profile_ids sc Hp) (s_steps sc) world_init [] start_out (OInv8_init sc) before_ok8_init). Qed.

(* (S) for Check/C08c.v *)
Theorem C08c_judgement_sound : forall sc, profile_C08c sc -> ok8 (sc, trace (run sc)) = 0%Z.
Proof. intros sc Hp. unfold ok8. apply all_true_first_fail. exact (C08c_clauses_sound sc Hp). Qed.

(* ---- the build rule of Check/C08w.v is clause 2 of the C07 judgement ---- *)
Lemma build_rule_in sc : forall steps before outs k b, In (k, b) (build_rule sc before steps outs) ->
  k = 12 /\ In (2, b) (BEI.Check.C07c.judge_steps sc before steps outs).
Proof.
  induction steps as [|st steps IH]; intros before outs k b Hin; [destruct outs; destruct Hin|].
  destruct outs as [|o outs]; [destruct Hin|]. cbn [build_rule] in Hin. cbn [BEI.Check.C07c.judge_steps].
  apply in_app_or in Hin. destruct Hin as [Hin|Hin].
  - apply in_map_iff in Hin. destruct Hin as ([k0 b0] & E & Hin). apply filter_In in Hin. destruct Hin as [Hin Hk].
    cbn [fst snd] in *. apply Z.eqb_eq in Hk. subst k0. inversion E; subst. split; [reflexivity|]. apply in_or_app. left. exact Hin.
  - destruct (IH o outs k b Hin) as [-> H]. split; [reflexivity|]. apply in_or_app. right. apply in_or_app. right. exact H.
Qed.

Lemma profile_C08_parts sc : profile_C08 sc -> profile_C08c sc /\ BEI.Proofs.JudgeC07P.spawns_declared sc = true.
Proof. unfold profile_C08, profile_C08b. intros H. apply andb_true_iff in H. exact H. Qed.

Theorem C08w_build_rule_sound : forall sc, BEI.Proofs.JudgeC07P.spawns_declared sc = true ->
  all_true (build_rule sc (BEI.Check.C07c.empty_out sc) (s_steps sc) (run sc)).
Proof.
  intros sc Hs k b Hin. apply build_rule_in in Hin. destruct Hin as [_ Hin].
  exact (BEI.Proofs.JudgeC07P.C07_build_rule_sound sc b Hs Hin).
Qed.

(* (S) for Check/C08w.v *)
Theorem C08_app_judgement_sound : forall sc, profile_C08 sc -> ok8w (sc, trace (run sc)) = 0%Z.
Proof.
  intros sc Hp. destruct (profile_C08_parts sc Hp) as [Hc Hs]. unfold ok8w. rewrite (C08c_judgement_sound sc Hc).
  cbn [Z.eqb negb]. apply all_true_first_fail. exact (C08w_build_rule_sound sc Hs).
Qed.

(* ================================================================================================ *)
(* 8. (T) transfer: any trace that agree_full identifies with the model's run is accepted            *)
(* ================================================================================================ *)
Lemma owner8_view h1 h1' c e : same_view h1 h1' -> owner8 h1 c e = owner8 h1' c e.
Proof.
  intros [_ V2]. unfold owner8. destruct (ctx_shared c) eqn:Es; [|reflexivity]. rewrite !owner_or, (V2 c Es). reflexivity.
Qed.
Lemma cecheck_view sc h1 h1' lg ce : same_view h1 h1' -> cecheck sc h1 lg ce = cecheck sc h1' lg ce.
Proof.
  intros V. destruct ce as [c e]. cbn [cecheck]. rewrite (owner8_view h1 h1' c e V). destruct V as [V1 _]. rewrite V1. reflexivity.
Qed.

Lemma judge_steps8_cong sc : forall steps h h' before before' outs outs',
  same_view h h' -> x_mirror before = x_mirror before' -> Forall2 out_agree outs outs' ->
  Forall (fun o => fun_built (x_built o)) outs ->
  judge_steps8 sc h before steps outs = judge_steps8 sc h' before' steps outs'.
Proof.
  induction steps as [|st steps IH]; intros h h' before before' outs outs' V M HA HFb.
  - inversion HA; subst; reflexivity.
  - inversion HA as [|o o' outs1 outs1' (A1 & A2 & A3 & A4) HA']; subst; [destruct st; reflexivity|].
    inversion HFb as [|? ? Hfo HFb']; subst.
    destruct st as [op|f].
    + rewrite !judge_steps8_op, A3. f_equal. apply IH; [apply rebuilt_view; assumption | exact A2 | exact HA' | exact HFb'].
    + rewrite !judge_steps8_frame, A3, A1, (evaluated_mirror sc before before' M).
      pose proof (hfilter_view sc (f_raw f) h h' V) as V'.
      f_equal. f_equal.
      * apply flat_map_ext. intros ce. apply cecheck_view. exact V'.
      * apply IH; [apply rebuilt_view; assumption | exact A2 | exact HA' | exact HFb'].
Qed.

(* ---- in the model's run a step never builds a shared context type for two different entities (one operation per frame) ---- *)
Definition Jb (r : registry) (built : list (Z * Z)) : Prop :=
  forall c e, ctx_shared c = true -> In (c, e) built -> exists g rest, In g r /\ g_ctx g = c /\ g_ents g = e :: rest.

Lemma Jb_fun r built : NoDup (map g_ctx r) -> Jb r built -> fun_built built.
Proof.
  intros Hd HJ c e1 e2 Hc H1 H2. destruct (HJ c e1 Hc H1) as (g1 & r1 & G1 & C1 & E1). destruct (HJ c e2 Hc H2) as (g2 & r2 & G2 & C2 & E2).
  assert (E : g1 = g2) by (apply (NoDup_ctx_eq r g1 g2 Hd G1 G2); congruence). subst g2. rewrite E1 in E2. inversion E2. reflexivity.
Qed.
Lemma Forall2_in_l {A B} (R : A -> B -> Prop) l1 l2 : Forall2 R l1 l2 -> forall x, In x l1 -> exists y, In y l2 /\ R x y.
Proof.
  induction 1 as [|a b l1 l2 Hab _ IH]; intros x Hx; [destruct Hx|]. destruct Hx as [<-|Hx].
  - exists b. split; [left; reflexivity | exact Hab].
  - destruct (IH x Hx) as (y & Hy & Hr). exists y. split; [right; exact Hy | exact Hr].
Qed.
Lemma Jb_shape r r' built : Forall2 same_shape r r' -> Jb r built -> Jb r' built.
Proof.
  intros Hs HJ c e Hc Hin. destruct (HJ c e Hc Hin) as (g & rest & Hg & Hcg & He).
  destruct (Forall2_in_l _ _ _ Hs g Hg) as (g' & Hg' & (S1 & _ & _ & S4)). exists g', rest. split; [exact Hg'|]. split; congruence.
Qed.
Lemma Jb_app r b1 b2 : Jb r b1 -> Jb r b2 -> Jb r (b1 ++ b2).
Proof. intros H1 H2 c e Hc Hin. apply in_app_or in Hin. destruct Hin as [Hin|Hin]; [exact (H1 c e Hc Hin) | exact (H2 c e Hc Hin)]. Qed.
Lemma Jb_built_of c r : Forall group_ok r -> Jb r (built_of c r).
Proof.
  intros Hok c' e Hc Hin. pose proof (built_of_fst c r _ Hin) as E. cbn [fst] in E. subst c'.
  unfold built_of in Hin. destruct (index_of c r) as [n|] eqn:Ei; [|destruct Hin].
  destruct (index_of_nth c r n Ei) as (g & Hn & Hg & Hing). rewrite Hn in Hin.
  rewrite Forall_forall in Hok. destruct (Hok g Hing) as (_ & Hsh & _). rewrite Hg, Hc in Hsh.
  destruct g as [c0 q insts|c0 q [|e0 ents] i]; cbn [g_shared] in Hsh; [discriminate | destruct Hin |].
  destruct Hin as [Hin|[]]. inversion Hin; subst. exists (GShared c0 q (e :: ents) i), ents. split; [exact Hing|]. split; reflexivity.
Qed.

Lemma rebuild_fold_Jb sc h cs : forall a a', fold_left (rebuild_one sc) cs (Some a) = Some a' -> AInv8 sc h a ->
  Jb (w_reg (oo_world a)) (oo_built a) -> Jb (w_reg (oo_world a')) (oo_built a').
Proof.
  induction cs as [|c cs IH]; intros a a' H Ha HJ; cbn [fold_left] in H; [injection H as <-; exact HJ|].
  destruct (rebuild_one sc (Some a) c) as [a1|] eqn:E; [|rewrite rebuild_fold_none in H; discriminate].
  pose proof (rebuild_one_AInv8 sc h c a a1 E Ha) as Ha1. apply (IH a1 a' H Ha1).
  destruct Ha as (Hinv & _). pose proof (proj1 (reg_inv_alt sc _) Hinv) as (Hwf & _).
  cbn [rebuild_one] in E. cbv zeta in E. fold (built_of c (w_reg (oo_world a))) in E.
  destruct (reg_rebuild_spec (mk_inst sc c) (w_time (oo_world a)) c (w_reg (oo_world a)) Hwf (mk_inst_wf sc c))
    as (r' & evs & Er & Hshape & _).
  rewrite Er in E. injection E as <-. cbn [oo_world oo_built w_reg].
  apply (Jb_shape _ _ _ Hshape). apply Jb_app; [exact HJ|]. apply Jb_built_of. destruct Hwf as (_ & _ & Hok). exact Hok.
Qed.

Lemma apply_op_built_fun8 sc w h o r : OInv8 sc w h -> apply_op sc w o = Some r -> fun_built (oo_built r).
Proof.
  intros HO H. pose proof HO as (Hinv & Hh). destruct o as [e cs|e c|e c|e|]; cbn [apply_op] in H.
  - destruct (holds_of e (w_holds w)); injection H as <-; [apply fun_built_nil|].
    intros c e1 e2 _ H1 H2. apply spawn_fold_built in H1; [|intros p []]. apply spawn_fold_built in H2; [|intros p []].
    cbn [snd] in *. congruence.
  - injection H as <-. intros c' e1 e2 _ H1 H2. apply insert_ctx_built in H1. apply insert_ctx_built in H2. congruence.
  - destruct (remove_ctx_OInv8 sc w h e c r HO H) as [_ ->]. apply fun_built_nil.
  - destruct (holds_of e (w_holds w)); [|injection H as <-; apply fun_built_nil].
    match type of H with match ?x with _ => _ end = _ => destruct x end; [|discriminate]. injection H as <-. apply fun_built_nil.
  - change (fold_left (rebuild_one sc) (s_menu sc) (Some (mkOpOut w [] [])) = Some r) in H.
    pose proof (rebuild_fold_AInv8 sc h _ _ _ H (AInv8_init sc h w HO)) as ((_ & Hd & _) & _).
    apply (Jb_fun (w_reg (oo_world r)) _ Hd).
    apply (rebuild_fold_Jb sc h (s_menu sc) _ r H (AInv8_init sc h w HO)). intros c e _ [].
Qed.

Lemma run_built_fun8 sc : forall steps w h,
  forallb (fun st => match st with SFrame f => Nat.leb (length (f_ops f)) 1 | SOp _ => true end) steps = true ->
  OInv8 sc w h -> Forall (fun o => fun_built (x_built o)) (run_steps sc w steps).
Proof.
  induction steps as [|st steps IH]; intros w h H1 HO; [constructor|].
  cbn [forallb] in H1. apply andb_true_iff in H1. destruct H1 as [H1 H1'].
  pose proof HO as (Hinv & Hh).
  destruct st as [o|f]; cbn [run_steps].
  - destruct (apply_op_inv sc w o Hinv) as (r & Er & _). rewrite Er. constructor.
    + cbn [x_built]. exact (apply_op_built_fun8 sc w h o r HO Er).
    + exact (IH _ _ H1' (apply_op_OInv8 sc w h o r HO Er)).
  - destruct (frame_inv sc w f Hinv) as (fo & Ef & _). rewrite Ef.
    destruct (frame_parts sc w f fo Ef) as (a & Ea & Ew & El & Eb). cbv zeta in *.
    assert (HO1 : OInv8 sc (mkWorld (w_holds w) (ro_reg (reg_update (frame_time f) (f_raw f) (update_state (f_raw f)) (w_reg w))) (frame_time f))
                        (hfilter sc (f_raw f) h)).
    { split; [apply reg_update_inv; exact Hinv | cbn [w_reg]; apply h_inv8_update; exact Hh]. }
    constructor.
    + cbn [x_built]. rewrite Eb. destruct (f_ops f) as [|o [|o2 ops]]; [| |discriminate].
      * rewrite run_ops_nil in Ea. injection Ea as <-. apply fun_built_nil.
      * rewrite run_ops_cons in Ea. destruct (apply_op sc _ o) as [r|] eqn:Eo; [|discriminate].
        rewrite run_ops_nil in Ea. cbn [option_map] in Ea. injection Ea as <-. unfold prefix_out. cbn [oo_built]. rewrite app_nil_r.
        exact (apply_op_built_fun8 sc _ _ o r HO1 Eo).
    + rewrite Ew. exact (IH _ _ H1' (run_ops_OInv8 sc (f_ops f) _ _ a HO1 Ea)).
Qed.

Lemma agree_full_outs sc t : agree_full (sc, t) = true -> exists outs, t = trace outs /\ Forall2 out_agree (run sc) outs.
Proof.
  intros Ha. unfold agree_full in Ha. cbn [fst snd] in Ha. apply Z.eqb_eq in Ha.
  destruct t as [outs|]; [|discriminate]. cbn [trace_diff] in Ha. apply outs_diff_agree in Ha. exists outs. split; [reflexivity | exact Ha].
Qed.

(* (T) for Check/C08c.v *)
Theorem C08c_judgement_transfer : forall sc t, profile_C08c sc -> one_op_frames sc = true ->
  agree_full (sc, t) = true -> ok8 (sc, t) = 0%Z.
Proof.
  intros sc t Hp H1 Ha. destruct (agree_full_outs sc t Ha) as (outs & -> & HA).
  pose proof (run_built_fun8 sc (s_steps sc) world_init [] H1 (OInv8_init sc)) as Hfb. fold (run sc) in Hfb.
  unfold ok8. fold start_out.
  rewrite <- (judge_steps8_cong sc (s_steps sc) [] [] _ _ (run sc) outs (same_view_refl []) eq_refl HA Hfb).
  exact (C08c_judgement_sound sc Hp).
Qed.

(* ---- the build rule reads the mirror and the set of built instances only ---- *)
Lemma existsb_mem {A} (f : A -> bool) (l l' : list A) : (forall x, In x l <-> In x l') -> existsb f l = existsb f l'.
Proof.
  intros H. apply eq_iff_eq_true. rewrite !existsb_exists. split; intros (x & Hx & Hf); exists x; (split; [apply H; exact Hx | exact Hf]).
Qed.
Lemma filter2_pair (a b : bool) : filter (fun x : Z * bool => Z.eqb (fst x) 2) [(2, a); (3, b)] = [(2, a)].
Proof. reflexivity. Qed.
Lemma filter_concat_map_ext {A B} (p : B -> bool) (F G : A -> list B) l :
  (forall x, filter p (F x) = filter p (G x)) -> filter p (concat (map F l)) = filter p (concat (map G l)).
Proof.
  intros H. induction l as [|x l IH]; [reflexivity|]. cbn [map concat]. rewrite !filter_app, H, IH. reflexivity.
Qed.

Lemma judge_step_clause2_cong sc st before before' o o' : x_mirror before = x_mirror before' -> out_agree o o' ->
  filter (fun x : Z * bool => Z.eqb (fst x) 2) (BEI.Check.C07c.judge_step sc st before o) =
  filter (fun x : Z * bool => Z.eqb (fst x) 2) (BEI.Check.C07c.judge_step sc st before' o').
Proof.
  intros M (_ & A2 & _ & A4). unfold BEI.Check.C07c.judge_step.
  assert (Hbc : forall c, BEI.Check.C07c.built_ctx c o = BEI.Check.C07c.built_ctx c o').
  { intros c. unfold BEI.Check.C07c.built_ctx. apply existsb_mem. exact A4. }
  assert (Hbh : forall c e, BEI.Check.C07c.built_has c e o = BEI.Check.C07c.built_has c e o').
  { intros c e. unfold BEI.Check.C07c.built_has. apply existsb_mem. exact A4. }
  assert (Hho : forall c e, BEI.Check.C07c.has_of c e o = BEI.Check.C07c.has_of c e o').
  { intros c e. unfold BEI.Check.C07c.has_of. rewrite A2. reflexivity. }
  assert (Hhb : forall c e, BEI.Check.C07c.has_of c e before = BEI.Check.C07c.has_of c e before').
  { intros c e. unfold BEI.Check.C07c.has_of. rewrite M. reflexivity. }
  assert (Hlo : forall c, BEI.Check.C07c.holders_has c sc o = BEI.Check.C07c.holders_has c sc o').
  { intros c. unfold BEI.Check.C07c.holders_has. apply filter_ext. intros e. apply Hho. }
  assert (Hlb : forall c, BEI.Check.C07c.holders_has c sc before = BEI.Check.C07c.holders_has c sc before').
  { intros c. unfold BEI.Check.C07c.holders_has. apply filter_ext. intros e. apply Hhb. }
  cbn [filter fst Z.eqb Pos.eqb]. destruct (BEI.Check.C07c.single_op st); [|reflexivity].
  apply filter_concat_map_ext. intros c. destruct (ctx_shared c).
  - cbv zeta. rewrite !filter2_pair, Hbc, Hlo, Hlb. reflexivity.
  - apply filter_concat_map_ext. intros e. cbv zeta. rewrite !filter2_pair, Hbh, Hho, Hhb. reflexivity.
Qed.

Lemma build_rule_cong sc : forall steps before before' outs outs', x_mirror before = x_mirror before' ->
  Forall2 out_agree outs outs' -> build_rule sc before steps outs = build_rule sc before' steps outs'.
Proof.
  induction steps as [|st steps IH]; intros before before' outs outs' M HA; [reflexivity|].
  inversion HA as [|o o' outs1 outs1' Ho HA']; subst; [reflexivity|]. cbn [build_rule].
  rewrite (judge_step_clause2_cong sc st before before' o o' M Ho). f_equal.
  apply IH; [destruct Ho as (_ & A2 & _); exact A2 | exact HA'].
Qed.

(* (T) for Check/C08w.v *)
Theorem C08_app_judgement_transfer : forall sc t, profile_C08 sc -> one_op_frames sc = true ->
  agree_full (sc, t) = true -> ok8w (sc, t) = 0%Z.
Proof.
  intros sc t Hp H1 Ha. destruct (profile_C08_parts sc Hp) as [Hc Hs]. unfold ok8w.
  rewrite (C08c_judgement_transfer sc t Hc H1 Ha). cbn [Z.eqb negb].
  destruct (agree_full_outs sc t Ha) as (outs & -> & HA).
  rewrite <- (build_rule_cong sc (s_steps sc) _ _ (run sc) outs eq_refl HA).
  apply all_true_first_fail. exact (C08w_build_rule_sound sc Hs).
Qed.

(* ================================================================================================ *)
(* 9. Check/C08r.v: the same judgement over the routed cases of Check/C19m.v                         *)
(* ================================================================================================ *)
Definition rc_scenario (c : BEI.Check.C19c.rcase) : scenario := match c with BEI.Check.C19c.routed _ sc => sc end.
Definition rm_cases (m : BEI.Check.C19m.rmcase) : list BEI.Check.C19c.rcase := match m with BEI.Check.C19m.rmulti cs => cs end.
(* the model's output for a routed multi-case: the run of every member's scenario *)
Definition run_m (m : BEI.Check.C19m.rmcase) : BEI.Check.C19m.mtrace_t :=
  BEI.Check.C19m.mtrace (map (fun c => trace (run (rc_scenario c))) (rm_cases m)).
Definition profile_C08rb (m : BEI.Check.C19m.rmcase) : bool := forallb (fun c => profile_C08cb (rc_scenario c)) (rm_cases m).
Definition profile_C08r (m : BEI.Check.C19m.rmcase) : Prop := profile_C08rb m = true.

Lemma ok8r_all (cs : list BEI.Check.C19c.rcase) ts :
  (forall c t, In (c, t) (combine cs ts) -> ok8 (rc_scenario c, t) = 0) -> BEI.Check.C08r.ok8r (BEI.Check.C19m.rmulti cs, BEI.Check.C19m.mtrace ts) = 0.
Proof.
  intros H. unfold BEI.Check.C08r.ok8r. apply all_true_first_fail. intros k b Hin. apply in_map_iff in Hin.
  destruct Hin as ([c t] & E & Hin). specialize (H c t Hin). destruct c as [routes sc]. cbn [rc_scenario] in H.
  cbv zeta in E. rewrite H in E. inversion E. reflexivity.
Qed.
Lemma in_combine_map {A B} (f : A -> B) l x y : In (x, y) (combine l (map f l)) -> In x l /\ y = f x.
Proof.
  induction l as [|a l IH]; cbn [map combine In]; [intros []|]. intros [E|H]; [inversion E; subst; split; [left|]; reflexivity|].
  destruct (IH H) as [H1 H2]. split; [right; exact H1 | exact H2].
Qed.

(* (S) for Check/C08r.v *)
Theorem C08r_judgement_sound : forall m, profile_C08r m -> BEI.Check.C08r.ok8r (m, run_m m) = 0%Z.
Proof.
  intros [cs] Hp. unfold run_m. cbn [rm_cases]. apply ok8r_all. intros c t Hin. apply in_combine_map in Hin. destruct Hin as [Hc ->].
  unfold profile_C08r, profile_C08rb in Hp. cbn [rm_cases] in Hp. rewrite forallb_forall in Hp.
  exact (C08c_judgement_sound _ (Hp c Hc)).
Qed.

(* (T) for Check/C08r.v, from agree_full on every member (the case type's own comparison, C19m.agree_m, ignores the invocation
   log - see C08r_transfer_not_from_agree_m below - so it cannot carry a judgement that reads the log) *)
Definition agree_full_m (p : BEI.Check.C19m.rmcase * BEI.Check.C19m.mtrace_t) : bool :=
  match p with
  | (BEI.Check.C19m.rmulti cs, BEI.Check.C19m.mtrace ts) =>
      Nat.eqb (length cs) (length ts) && forallb (fun ct => agree_full (rc_scenario (fst ct), snd ct)) (combine cs ts)
  end.
Theorem C08r_judgement_transfer : forall m t, profile_C08r m -> forallb (fun c => one_op_frames (rc_scenario c)) (rm_cases m) = true ->
  agree_full_m (m, t) = true -> BEI.Check.C08r.ok8r (m, t) = 0%Z.
Proof.
  intros [cs] [ts] Hp H1 Ha. cbn [rm_cases] in H1. unfold profile_C08r, profile_C08rb in Hp. cbn [rm_cases] in Hp.
  rewrite forallb_forall in Hp, H1. cbn [agree_full_m] in Ha. apply andb_true_iff in Ha. destruct Ha as [_ Ha]. rewrite forallb_forall in Ha.
  apply ok8r_all. intros c t Hin. pose proof (in_combine_l _ _ _ _ Hin) as Hc.
  exact (C08c_judgement_transfer _ t (Hp c Hc) (H1 c Hc) (Ha (c, t) Hin)).
Qed.

(* ================================================================================================ *)
(* 10. the profiles are satisfiable on a non-trivial scenario; what each condition is needed for     *)
(* ================================================================================================ *)
(* an exclusive type (2) whose action 0 has two probed bindings and whose action 16 has one; a shared type (3) held by two
   entities configured alike; created by insertion (directly and through Commands) while keys are down; a rebuild *)
Definition ex8_S2 : inst_spec := mkSpec None
  [mkAction 0 [] [] [mkBind (IKey 0 0) [(1, m_script [])] []; mkBind (IKey 1 0) [(2, m_script [])] [(3, c_press (1#2))]];
   mkAction 16 [(4, m_script [])] [] [mkBind (IKey 2 0) [(5, m_script [])] []]].
Definition ex8_S3 : inst_spec := mkSpec None [mkAction 4 [] [] [mkBind (IKey 0 0) [(6, m_script [])] []]].
Definition ex8_sc : scenario := mkScenario [2; 3] [0; 1] [((2, 0), ex8_S2); ((3, 0), ex8_S3); ((3, 1), ex8_S3)]
  [SOp (OSpawn 0 []); SOp (OSpawn 1 []); ex_frame [] []; ex_frame [0; 1] []; SOp (OInsert 0 2); ex_frame [0; 1] []; ex_frame [0] [];
   ex_frame [0; 1] []; ex_frame [0; 1] [OInsert 1 3]; ex_frame [0] []; ex_frame [] []; ex_frame [0] [OInsert 0 3]; SOp ORebuild;
   ex_frame [0] []; ex_frame [] []; ex_frame [0; 2] []].

Example C08_app_judgement_sound_satisfiable :
  profile_C08 ex8_sc /\ ok8w (ex8_sc, trace (run ex8_sc)) = 0 /\ ok8 (ex8_sc, trace (run ex8_sc)) = 0 /\
  (* held keys are not driven, then released: the logs differ from frame to frame *)
  map (fun o => log_ids (x_log o)) (run ex8_sc) =
    [[]; []; []; []; []; [5; 4]; [2; 3; 5; 4]; [2; 3; 5; 4]; [2; 3; 5; 4]; [2; 3; 5; 4]; [6; 1; 2; 3; 5; 4]; [6; 1; 2; 3; 5; 4]; [];
     [2; 3; 5; 4]; [6; 1; 2; 3; 5; 4]; [6; 1; 2; 3; 5; 4]] /\
  (* some action reaches Fired *)
  existsb (fun o => existsb (fun ev => state_eqb (e_state ev) SFired) (x_main o)) (run ex8_sc) = true.
Proof. vm_compute. repeat split. Qed.

(* the hypotheses of (T) are satisfiable, on a trace that differs from the model's run (the instances built by the Rebuild
   step are listed in another order, which agree_full allows) *)
Example C08_app_judgement_transfer_satisfiable :
  let t := trace (map rev_built (run ex8_sc)) in
  profile_C08 ex8_sc /\ one_op_frames ex8_sc = true /\ agree_full (ex8_sc, t) = true /\ t <> trace (run ex8_sc) /\
  ok8w (ex8_sc, t) = 0 /\ ok8 (ex8_sc, t) = 0.
Proof. vm_compute. repeat split. discriminate. Qed.

Definition ex8_parts (sc : scenario) := (p_first_once sc, p_first_disj sc, BEI.Proofs.JudgeC07P.spawns_declared sc).

(* the same first id on two bindings of one configuration: the one logged by the released binding is taken for the held one *)
Example C08c_judgement_sound_needs_p_first_once :
  let sc := mkScenario [0] [0]
              [((0, 0), mkSpec None [mkAction 0 [] [] [mkBind (IKey 0 0) [] [(5, c_press (1#2))]; mkBind (IKey 1 0) [] [(5, c_press (1#2))]]])]
              [SOp (OSpawn 0 [0]); ex_frame [0] []] in
  ex8_parts sc = (false, true, true) /\ ok8 (sc, trace (run sc)) <> 0 /\ ok8w (sc, trace (run sc)) <> 0.
Proof. vm_compute. repeat split; discriminate. Qed.
(* the same across two context types *)
Example C08c_judgement_sound_needs_p_first_disj :
  let sc := mkScenario [0; 2] [0] [((0, 0), ex_one 5 0); ((2, 0), ex_one 5 1)] [SOp (OSpawn 0 [0; 2]); ex_frame [0] []] in
  ex8_parts sc = (true, false, true) /\ ok8 (sc, trace (run sc)) <> 0 /\ ok8w (sc, trace (run sc)) <> 0.
Proof. vm_compute. repeat split; discriminate. Qed.
(* ... and across the instances two entities hold of one exclusive type *)
Example C08c_judgement_sound_needs_p_first_disj_excl :
  let sc := mkScenario [0] [0; 1] [((0, 0), ex_one 5 0); ((0, 1), ex_one 5 1)] [SOp (OSpawn 0 [0]); SOp (OSpawn 1 [0]); ex_frame [0] []] in
  ex8_parts sc = (true, false, true) /\ ok8 (sc, trace (run sc)) <> 0.
Proof. vm_compute. repeat split; discriminate. Qed.
(* whereas the holders of a shared type may (and in the generator do) carry the same configuration *)
Example C08c_profile_allows_shared_copies :
  let sc := mkScenario [1] [0; 1] [((1, 0), ex_one 5 0); ((1, 1), ex_one 5 0)] [SOp (OSpawn 0 [1]); SOp (OSpawn 1 [1]); ex_frame [0] []; ex_frame [] []] in
  ex8_parts sc = (true, true, true) /\ ok8w (sc, trace (run sc)) = 0.
Proof. vm_compute. repeat split. Qed.
(* ids other than the first of a binding may repeat (with_modifiers_each / with_conditions_each routes give every member the same ids) *)
Example C08c_profile_allows_repeated_later_ids :
  let sc := mkScenario [0] [0]
              [((0, 0), mkSpec None [mkAction 0 [] [] [mkBind (IKey 0 0) [(1, m_script []); (9, m_script [])] [(8, c_press (1#2))];
                                                       mkBind (IKey 1 0) [(2, m_script []); (9, m_script [])] [(8, c_press (1#2))]]])]
              [SOp (OSpawn 0 [0]); ex_frame [0] []; ex_frame [1] []; ex_frame [0; 1] []] in
  ex8_parts sc = (true, true, true) /\ ok8w (sc, trace (run sc)) = 0 /\ JudgeC12P.profile_C12b sc = false.
Proof. vm_compute. repeat split. Qed.
(* a spawned entity that is not a declared slot is not in the mirror: the build rule (clause 12) misses its instances *)
Example C08_app_judgement_sound_needs_spawns_declared :
  let sc := mkScenario [1] [0] [] [SOp (OSpawn 5 [1])] in
  ex8_parts sc = (true, true, false) /\ ok8 (sc, trace (run sc)) = 0 /\ ok8w (sc, trace (run sc)) = 12.
Proof. vm_compute. repeat split. Qed.

(* several operations in one frame can build a shared type for two entities; agree_full compares the lists of built instances
   up to order, the judgement takes the last one as the owner of the configuration *)
Example C08c_judgement_transfer_needs_one_op_frames :
  let sc := mkScenario [1] [0; 1] [((1, 0), ex_one 1 0); ((1, 1), ex_one 1 1)]
              [SOp (OSpawn 0 []); SOp (OSpawn 1 []); ex_frame [0] [OInsert 0 1; ORemove 0 1; OInsert 1 1]; ex_frame [0] []] in
  let t := trace (map rev_built (run sc)) in
  profile_C08 sc /\ one_op_frames sc = false /\ agree_full (sc, t) = true /\ ok8 (sc, t) <> 0 /\ ok8 (sc, trace (run sc)) = 0.
Proof. vm_compute. repeat split. discriminate. Qed.

(* C19m.agree_m (the comparison Check/C08r.v is run with) ignores the invocation log: the model's run with every log erased
   still "agrees", but no binding is ever seen driven - there is no transfer theorem from agree_m *)
Definition erase_log (o : out) : out := BEI.Check.C19c.strip_log o.
Example C08r_transfer_not_from_agree_m :
  let m := BEI.Check.C19m.rmulti [BEI.Check.C19c.routed [] ex8_sc] in
  let t := BEI.Check.C19m.mtrace [trace (map erase_log (run ex8_sc))] in
  profile_C08r m /\ BEI.Check.C19m.agree_m (m, t) = true /\ BEI.Check.C08r.ok8r (m, t) <> 0 /\ BEI.Check.C08r.ok8r (m, run_m m) = 0.
Proof. vm_compute. repeat split. discriminate. Qed.

Print Assumptions frame_clause8.
Print Assumptions steps8_sound.
Print Assumptions C08c_judgement_sound.
Print Assumptions C08_app_judgement_sound.
Print Assumptions C08c_judgement_transfer.
Print Assumptions C08_app_judgement_transfer.
Print Assumptions C08r_judgement_sound.
Print Assumptions C08r_judgement_transfer.
