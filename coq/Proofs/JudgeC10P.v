(* Soundness (S) and transfer (T) of the executable app-level judgement Check/C10a.v ("virtual" stage of C10:
   reported elapsed and fired durations follow the action's state history) on the model's own run:

     C10_app_judgement_sound    : forall sc, profile_C10 sc -> C10a.ok (sc, trace (run sc)) = 0
     C10_app_judgement_transfer : forall sc t, profile_C10 sc -> agree_full (sc, t) = true -> C10a.ok (sc, t) = 0

   Ladder: R1 one frame of any registry (section 2: reg_track10, frame_entry) and one operation (section 4:
   op_get_cases) for one (context, entity, action); R2 the world invariant WI (section 5) is established by
   world_init and kept by every step; R3 induction over the steps (section 7: steps_sound). *)
From Coq Require Import ZArith QArith List Bool Lia Lqa.
From BEI Require Import Model.Frame Spec.Events Proofs.StateP Proofs.ActionP Proofs.InstanceP Proofs.RegistryP
  Proofs.TrackDefs Proofs.TrackFrameP Proofs.TrackOpP Proofs.TrackP Check.App.
From BEI Require Import Proofs.JudgeC03P Proofs.JudgeC07P.
From BEI Require Proofs.JudgeC12P Proofs.JudgeDataP.
From BEI Require Import Check.C10a.
Import ListNotations.
Open Scope Z_scope.

(* ================================================================================================ *)
(* 0. helpers                                                                                       *)
(* ================================================================================================ *)
Lemma qeqb_iff x y : qeqb x y = true <-> (x == y)%Q.
Proof. unfold qeqb. apply Qeq_bool_iff. Qed.
Lemma qleb_iff x y : qleb x y = true <-> (x <= y)%Q.
Proof. unfold qleb. apply Qle_bool_iff. Qed.
Lemma state_eqb_eq a b : state_eqb a b = true <-> a = b.
Proof. destruct a, b; cbn; split; intros H; try reflexivity; try discriminate. Qed.

Definition tight (i : inst) : Prop := forall b, lookup b (in_actions i) <> None -> In b (ids i).

(* ================================================================================================ *)
(* 1. the data behind a polled snapshot                                                             *)
(* ================================================================================================ *)
Definition rdata (r : registry) (c : ctx) (e : entity) (a : aid) : option data :=
  match reg_get c e r with Some i => lookup a (in_actions i) | None => None end.
Definition idata (i : inst) (a : aid) : option data := lookup a (in_actions i).
Definition gdata (g : group) (e : entity) (a : aid) : option data :=
  match group_get e g with Some i => idata i a | None => None end.
Definition ldata (insts : list (entity * inst)) (e : entity) (a : aid) : option data :=
  match option_map snd (find (fun ei => Z.eqb (fst ei) e) insts) with Some i => idata i a | None => None end.

Lemma rdata_cons g r c e a : rdata (g :: r) c e a = if Z.eqb (g_ctx g) c then gdata g e a else rdata r c e a.
Proof. unfold rdata, gdata. rewrite tk_reg_get_cons. destruct (Z.eqb (g_ctx g) c); reflexivity. Qed.
Lemma rdata_absent r c e a : ~ In c (map g_ctx r) -> rdata r c e a = None.
Proof. intros H. unfold rdata. rewrite (reg_get_absent c e r H). reflexivity. Qed.
Lemma ldata_cons en i rest e a : ldata ((en, i) :: rest) e a = if Z.eqb en e then idata i a else ldata rest e a.
Proof. unfold ldata. cbn [find fst]. destruct (Z.eqb en e); reflexivity. Qed.
Lemma ldata_absent insts e a : ~ In e (map fst insts) -> ldata insts e a = None.
Proof.
  intros H. unfold ldata.
  destruct (option_map snd (find (fun ei => Z.eqb (fst ei) e) insts)) as [i|] eqn:E; [|reflexivity].
  exfalso. apply H. apply find_fst_in. rewrite E. discriminate.
Qed.
Lemma gdata_excl cx p insts e a : gdata (GExcl cx p insts) e a = ldata insts e a.
Proof. reflexivity. Qed.

(* ================================================================================================ *)
(* 2. R1 for frames: one registry update, followed for one (context, entity, action)                *)
(* ================================================================================================ *)
Section FrameTrack.
  Variables (e : entity) (a : aid) (tm : time) (r : raw).

  (* every event (e, a) receives carries the payload of the data d' *)
  Definition carried (d' : data) (evs : list event) : Prop :=
    forall ev, In ev (ev_of e a evs) -> exists k, ev = mk_event a d' k e.

  Lemma carried_nil d' evs : ev_of e a evs = [] -> carried d' evs.
  Proof. intros H ev Hin. rewrite H in Hin. destruct Hin. Qed.
  Lemma carried_app_l d' ev1 ev2 : carried d' ev1 -> ev_of e a ev2 = [] -> carried d' (ev1 ++ ev2).
  Proof. intros H H2 ev Hin. rewrite TrackFrameP.ev_of_app, H2, app_nil_r in Hin. apply H. exact Hin. Qed.
  Lemma carried_app_r d' ev1 ev2 : ev_of e a ev1 = [] -> carried d' ev2 -> carried d' (ev1 ++ ev2).
  Proof. intros H1 H ev Hin. rewrite TrackFrameP.ev_of_app, H1 in Hin. apply H. exact Hin. Qed.
  Lemma carried_emit d' ks recips : carried d' (flat_map (fun k => map (mk_event a d' k) recips) ks).
  Proof.
    intros ev Hin. unfold ev_of in Hin. apply filter_In in Hin. destruct Hin as [Hin Hf].
    apply in_flat_map in Hin. destruct Hin as (k & _ & Hin). apply in_map_iff in Hin. destruct Hin as (x & <- & _).
    apply andb_true_iff in Hf. destruct Hf as [Hf _]. apply Z.eqb_eq in Hf. rewrite mk_event_target' in Hf. subst x.
    exists k. reflexivity.
  Qed.

  (* the relation between the data before, the data afterwards and the events in between *)
  Definition res10 (old new : option data) (evs : list event) : Prop :=
    match old with
    | None => ev_of e a evs = [] /\ new = None
    | Some d => exists (s1 : state) (v : value),
        let d' := data_update (vdelta tm) d s1 v in new = Some d' /\ carried d' evs
    end.
  Lemma res10_app_l old new ev1 ev2 : res10 old new ev1 -> ev_of e a ev2 = [] -> res10 old new (ev1 ++ ev2).
  Proof.
    unfold res10. intros H H2. destruct old as [d|].
    - destruct H as (s1 & v & Hn & Hc). exists s1, v. split; [exact Hn | apply carried_app_l; assumption].
    - destruct H as [H1 Hn]. rewrite TrackFrameP.ev_of_app, H1, H2. split; [reflexivity | exact Hn].
  Qed.
  Lemma res10_app_r old new ev1 ev2 : ev_of e a ev1 = [] -> res10 old new ev2 -> res10 old new (ev1 ++ ev2).
  Proof.
    unfold res10. intros H1 H. destruct old as [d|].
    - destruct H as (s1 & v & Hn & Hc). exists s1, v. split; [exact Hn | apply carried_app_r; assumption].
    - destruct H as [H2 Hn]. rewrite TrackFrameP.ev_of_app, H1, H2. split; [reflexivity | exact Hn].
  Qed.
  Lemma res10_quiet old new evs : res10 old new evs -> old = None -> ev_of e a evs = [] /\ new = None.
  Proof. intros H ->. exact H. Qed.

  (* --- the bindings of one instance --- *)
  Lemma binds_track10 dev recips bs : forall m c0, NoDup (map ab_id bs) ->
    exists bs' m' c' evs lg,
      binds_update m tm r c0 dev recips bs = (bs', m', c', Some evs, lg) /\
      map ab_id bs' = map ab_id bs /\
      (forall b, lookup b m' <> None -> lookup b m <> None \/ In b (map ab_id bs)) /\
      (forall b, In b (map ab_id bs) -> lookup b m' <> None) /\
      (~ In e recips -> ev_of e a evs = []) /\
      if memz a (map ab_id bs)
      then exists (s1 : state) (v : value),
             let d' := data_update (vdelta tm) (old_data m a) s1 v in lookup a m' = Some d' /\ carried d' evs
      else lookup a m' = lookup a m /\ ev_of e a evs = [].
  Proof.
    induction bs as [|b rest IH]; intros m c0 Hnd.
    - exists [], m, c0, [], []. cbn [binds_update map memz existsb]. split; [reflexivity|]. split; [reflexivity|].
      split; [intros b Hb; left; exact Hb|]. split; [intros b []|]. split; [reflexivity|]. split; reflexivity.
    - cbn [map] in Hnd. inversion Hnd as [|x l Hx Hl]; subst.
      cbn [binds_update]. cbv zeta.
      pose proof (action_update_id m tm r c0 dev recips b) as Hid.
      pose proof (action_update_result m tm r c0 dev recips b) as Hres.
      destruct Hres as (s & v & bl & Hv & Hl1 & Ho & He). cbv zeta in *.
      set (o := action_update m tm r c0 dev recips b) in *.
      destruct (IH (o_actions o) (o_consumed o) Hl) as (rest' & m' & c' & evs2 & lg & Hbu & Hids & Hk1 & Hk2 & Hn2 & Hcase).
      rewrite Hbu, He.
      eexists _, m', c', _, _. split; [reflexivity|].
      split; [cbn [map]; rewrite Hid, Hids; reflexivity|].
      split.
      { intros b0 Hb0. destruct (Hk1 b0 Hb0) as [H|H]; [|right; right; exact H].
        destruct (Z.eq_dec b0 (ab_id b)) as [->|Hne]; [right; left; reflexivity|]. left. rewrite <- (Ho b0 Hne). exact H. }
      split.
      { intros b0 [<-|Hb0]; [|apply Hk2; exact Hb0].
        destruct (memz (ab_id b) (map ab_id rest)) eqn:Em; [apply Hk2, memz_in, Em|].
        assert (Hkeep : forall bs0 m0 c1, ~ In (ab_id b) (map ab_id bs0) ->
                  lookup (ab_id b) (snd (fst (fst (fst (binds_update m0 tm r c1 dev recips bs0))))) = lookup (ab_id b) m0).
        { clear. induction bs0 as [|b1 bs0 IH0]; intros m0 c1 Hn; [reflexivity|]. cbn [binds_update]. cbv zeta.
          destruct (action_update_result m0 tm r c1 dev recips b1) as (s & v & bl & _ & _ & Ho & _).
          specialize (IH0 (o_actions (action_update m0 tm r c1 dev recips b1)) (o_consumed (action_update m0 tm r c1 dev recips b1))).
          destruct (binds_update _ tm r _ dev recips bs0) as [[[[x1 x2] x3] x4] x5]. cbn [fst snd] in *.
          rewrite IH0 by (intros H; apply Hn; right; exact H). apply Ho. intros E. apply Hn. left. symmetry. exact E. }
        specialize (Hkeep rest (o_actions o) (o_consumed o) Hx). rewrite Hbu in Hkeep. cbn [fst snd] in Hkeep.
        rewrite Hkeep, Hl1. discriminate. }
      assert (Hrec : ~ In e recips -> ev_of e a (if bl then [] else
                 flat_map (fun k => map (mk_event (ab_id b) (data_update (vdelta tm) (old_data m (ab_id b)) s v) k) recips)
                          (table (d_state (old_data m (ab_id b))) s)) = []).
      { intros Hne. destruct bl; [reflexivity|]. apply ev_of_flat_notin. exact Hne. }
      split.
      { intros Hne. rewrite TrackFrameP.ev_of_app, (Hrec Hne). apply Hn2. exact Hne. }
      cbn [map]. rewrite memz_cons.
      destruct (Z.eqb a (ab_id b)) eqn:E.
      + apply Z.eqb_eq in E. cbn [orb]. rewrite <- E in *.
        assert (Hm : memz a (map ab_id rest) = false) by (apply memz_false; exact Hx).
        rewrite Hm in Hcase. destruct Hcase as [Hlk Hev2].
        exists s, v. cbv zeta. split; [rewrite Hlk; exact Hl1|].
        apply carried_app_l; [|exact Hev2]. destruct bl; [apply carried_nil; reflexivity | apply carried_emit].
      + apply Z.eqb_neq in E. cbn [orb].
        assert (Hlk : lookup a (o_actions o) = lookup a m) by (apply Ho; exact E).
        rewrite (old_data_eq a _ _ Hlk) in Hcase.
        assert (Hev1 : ev_of e a (if bl then [] else
                   flat_map (fun k => map (mk_event (ab_id b) (data_update (vdelta tm) (old_data m (ab_id b)) s v) k) recips)
                            (table (d_state (old_data m (ab_id b))) s)) = []).
        { destruct bl; [reflexivity|]. apply ev_of_flat_other. intros E2. apply E. symmetry. exact E2. }
        destruct (memz a (map ab_id rest)).
        * destruct Hcase as (s1 & v1 & Hl2 & Hc2). exists s1, v1. cbv zeta. split; [exact Hl2|].
          apply carried_app_r; assumption.
        * destruct Hcase as [Hl2 Hev2]. split; [rewrite Hl2; exact Hlk|]. rewrite TrackFrameP.ev_of_app, Hev1, Hev2. reflexivity.
  Qed.
End FrameTrack.

(* evaluation keeps the bound actions and only stores data for them *)
Lemma binds_update_keys tm r dev recips bs : forall m c,
  let '(bs', m', _, _, _) := binds_update m tm r c dev recips bs in
  map ab_id bs' = map ab_id bs /\ forall b, lookup b m' <> None -> lookup b m <> None \/ In b (map ab_id bs).
Proof.
  induction bs as [|b bs IH]; intros m c; cbn [binds_update].
  - split; [reflexivity | intros b Hb; left; exact Hb].
  - cbv zeta. pose proof (action_update_id m tm r c dev recips b) as Hid.
    destruct (action_update_result m tm r c dev recips b) as (s & v & bl & _ & Hl & Ho & _).
    set (o := action_update m tm r c dev recips b) in *.
    specialize (IH (o_actions o) (o_consumed o)).
    destruct (binds_update (o_actions o) tm r (o_consumed o) dev recips bs) as [[[[bs' m'] c'] ev] lg].
    destruct IH as (I1 & I2). split; [cbn [map]; rewrite Hid, I1; reflexivity|].
    intros b0 Hb0. cbn [map]. destruct (I2 b0 Hb0) as [H|H]; [|right; right; exact H].
    destruct (Z.eq_dec b0 (ab_id b)) as [->|Hne]; [right; left; reflexivity|]. left. rewrite <- (Ho b0 Hne). exact H.
Qed.

Definition irel (i i' : inst) : Prop := ids i' = ids i /\ (tight i -> tight i').
Lemma irel_refl i : irel i i.
Proof. split; [reflexivity | auto]. Qed.
Lemma inst_update_irel tm r c recips i : irel i (io_inst (inst_update tm r c recips i)).
Proof.
  unfold inst_update. pose proof (binds_update_keys tm r (in_pad i) recips (in_binds i) (in_actions i) c) as H.
  destruct (binds_update (in_actions i) tm r c (in_pad i) recips (in_binds i)) as [[[[bs m] c'] ev] lg].
  destruct H as [H1 H2]. cbn [io_inst]. unfold irel, ids, tight. cbn [in_binds in_actions]. split; [exact H1|].
  intros Ht b Hb. unfold ids. cbn [in_binds]. rewrite H1. destruct (H2 b Hb) as [H|H]; [apply Ht; exact H | exact H].
Qed.

Lemma excl_update_find tm r insts : forall c0 e i',
  option_map snd (find (fun ei => Z.eqb (fst ei) e) (fst (fst (fst (excl_update tm r c0 insts))))) = Some i' ->
  exists i, option_map snd (find (fun ei => Z.eqb (fst ei) e) insts) = Some i /\ irel i i'.
Proof.
  induction insts as [|[en i] insts IH]; intros c0 e i'; cbn [excl_update]; [discriminate|]. cbv zeta.
  set (o := inst_update tm r c0 [en] i). specialize (IH (io_consumed o) e i').
  destruct (excl_update tm r (io_consumed o) insts) as [[[rest' c'] ev] lg]. cbn [fst snd find] in *.
  destruct (Z.eqb en e).
  - cbn [option_map snd]. intros [= <-]. exists i. split; [reflexivity | apply inst_update_irel].
  - exact IH.
Qed.

Lemma reg_update_get tm r gs : forall c0 c e i',
  reg_get c e (ro_reg (reg_update tm r c0 gs)) = Some i' -> exists i, reg_get c e gs = Some i /\ irel i i'.
Proof.
  induction gs as [|[cx p insts|cx p ents i] gs IH]; intros c0 c e i'; cbn [reg_update].
  - cbn. discriminate.
  - pose proof (excl_update_find tm r insts c0 e i') as He.
    destruct (excl_update tm r c0 insts) as [[[insts' c'] ev] lg]. cbv zeta. cbn [ro_reg fst] in *.
    rewrite !tk_reg_get_cons. cbn [g_ctx group_get]. destruct (Z.eqb cx c); [exact He | apply IH].
  - cbv zeta. cbn [ro_reg]. rewrite !tk_reg_get_cons. cbn [g_ctx group_get]. destruct (Z.eqb cx c); [|apply IH].
    destruct (existsb (Z.eqb e) ents); [|discriminate]. intros [= <-]. exists i. split; [reflexivity | apply inst_update_irel].
Qed.

(* every instance of a well-formed registry is the answer to some lookup *)
Lemma insts_reachable r g i : reg_wf r -> In g r -> In i (g_insts g) -> exists e, reg_get (g_ctx g) e r = Some i.
Proof.
  intros (_ & Hd & Hok) Hg Hi. rewrite Forall_forall in Hok. destruct (Hok g Hg) as (_ & _ & Hne & Hnd & _).
  destruct (reg_split r g Hd Hg) as (l1 & l2 & -> & Hn1 & _).
  destruct g as [c p insts|c p ents i0]; cbn [g_insts g_ents g_ctx] in *.
  - apply in_map_iff in Hi. destruct Hi as ([e0 i1] & <- & Hin). exists e0.
    rewrite (reg_get_found c e0 l1 (GExcl c p insts) l2 Hn1 eq_refl). cbn [group_get snd]. apply find_fst_nodup; assumption.
  - destruct Hi as [<-|[]]. destruct ents as [|e0 ents]; [congruence|]. exists e0.
    rewrite (reg_get_found c e0 l1 (GShared c p (e0 :: ents) i0) l2 Hn1 eq_refl). cbn [group_get existsb]. rewrite Z.eqb_refl. reflexivity.
Qed.

Section FrameTrack2.
  Variables (e : entity) (a : aid) (tm : time) (r : raw).

  Definition good10 (i : inst) : Prop := NoDup (ids i) /\ tight i /\ inst_wf i.

  Lemma inst_track10 c0 recips i : good10 i ->
    exists evs, io_events (inst_update tm r c0 recips i) = Some evs /\
      (~ In e recips -> ev_of e a evs = []) /\
      res10 e a tm (idata i a) (idata (io_inst (inst_update tm r c0 recips i)) a) evs /\
      (idata i a = None -> ev_of e a evs = [] /\ idata (io_inst (inst_update tm r c0 recips i)) a = None).
  Proof.
    intros (Hnd & Ht & Hwf). unfold inst_update.
    destruct (binds_track10 e a tm r (in_pad i) recips (in_binds i) (in_actions i) c0 Hnd)
      as (bs' & m' & c' & evs & lg & Hbu & Hids & _ & _ & Hn & Hcase).
    rewrite Hbu. cbn [io_events io_inst]. exists evs. split; [reflexivity|]. split; [exact Hn|].
    unfold idata. cbn [in_actions].
    destruct (memz a (map ab_id (in_binds i))) eqn:Em.
    - destruct Hcase as (s1 & v & Hl & Hev). cbv zeta in *.
      assert (Hsome : lookup a (in_actions i) <> None).
      { apply memz_in in Em. apply in_map_iff in Em. destruct Em as (b & Hb & Hin). rewrite <- Hb. apply Hwf. exact Hin. }
      destruct (lookup a (in_actions i)) as [d|] eqn:El; [|congruence].
      assert (Hod : old_data (in_actions i) a = d) by (unfold old_data; rewrite El; reflexivity).
      rewrite Hod in *. split; [|discriminate]. unfold res10. exists s1, v. cbv zeta. split; [exact Hl | exact Hev].
    - destruct Hcase as [Hl Hev].
      assert (Hnone : lookup a (in_actions i) = None).
      { destruct (lookup a (in_actions i)) eqn:El; [|reflexivity]. exfalso. apply memz_false in Em. apply Em. apply Ht. rewrite El. discriminate. }
      rewrite Hl, Hnone. split; [|intros _]; (split; [exact Hev | reflexivity]).
  Qed.

  Lemma excl_track10 insts : forall c0,
    NoDup (map fst insts) -> Forall good10 (map snd insts) ->
    exists insts' c' evs lg,
      excl_update tm r c0 insts = (insts', c', Some evs, lg) /\
      res10 e a tm (ldata insts e a) (ldata insts' e a) evs.
  Proof.
    induction insts as [|[en i] rest IH]; intros c0 Hnd Hg.
    - exists [], c0, [], []. split; [reflexivity|]. unfold res10, ldata. cbn [find option_map]. split; reflexivity.
    - cbn [map fst snd] in Hnd, Hg. inversion Hnd as [|x l Hx Hl]; subst. inversion Hg as [|y l' Hy Hl']; subst.
      cbn [excl_update]. cbv zeta.
      destruct (inst_track10 c0 [en] i Hy) as (evs1 & Hev & Hn & Hin & _).
      set (o := inst_update tm r c0 [en] i) in *.
      destruct (IH (io_consumed o) Hl Hl') as (rest' & c' & evs2 & lg & Hex & Htr).
      rewrite Hex, Hev. cbn [cat_ev]. eexists _, c', _, _. split; [reflexivity|].
      rewrite !ldata_cons. destruct (Z.eqb en e) eqn:E.
      + apply Z.eqb_eq in E. subst en.
        destruct (res10_quiet _ _ _ _ _ _ Htr (ldata_absent rest e a Hx)) as [Hq _].
        apply res10_app_l; [exact Hin | exact Hq].
      + apply Z.eqb_neq in E. apply res10_app_r; [|exact Htr].
        apply Hn. intros [H|[]]. apply E. exact H.
  Qed.

  Lemma shared_track10 c0 cx p ents i : good10 i ->
    exists evs, io_events (inst_update tm r c0 ents i) = Some evs /\
      res10 e a tm (gdata (GShared cx p ents i) e a)
                   (gdata (GShared cx p ents (io_inst (inst_update tm r c0 ents i))) e a) evs.
  Proof.
    intros Hg. destruct (inst_track10 c0 ents i Hg) as (evs & Hev & Hn & Hin & _).
    exists evs. split; [exact Hev|]. unfold gdata. cbn [group_get].
    change (existsb (Z.eqb e) ents) with (memz e ents). destruct (memz e ents) eqn:Em.
    - exact Hin.
    - unfold res10. split; [|reflexivity]. apply Hn. apply memz_false. exact Em.
  Qed.

  Lemma ldata_unbound insts : Forall (fun i => tight i /\ ~ In a (ids i)) (map snd insts) -> ldata insts e a = None.
  Proof.
    induction insts as [|[en i] rest IH]; intros HF; [reflexivity|]. rewrite ldata_cons.
    cbn [map snd] in HF. inversion HF as [|x l [Ht Hx] Hl]; subst. destruct (Z.eqb en e); [|apply IH; exact Hl].
    unfold idata. destruct (lookup a (in_actions i)) eqn:El; [|reflexivity]. exfalso. apply Hx, Ht. rewrite El. discriminate.
  Qed.
  Lemma gdata_unbound g : Forall (fun i => tight i /\ ~ In a (ids i)) (g_insts g) -> gdata g e a = None.
  Proof.
    destruct g as [cx p insts|cx p ents i]; cbn [g_insts]; intros HF.
    - rewrite gdata_excl. apply ldata_unbound. exact HF.
    - unfold gdata. cbn [group_get]. destruct (existsb (Z.eqb e) ents); [|reflexivity].
      inversion HF as [|x l [Ht Hx] Hl]; subst. unfold idata.
      destruct (lookup a (in_actions i)) eqn:El; [|reflexivity]. exfalso. apply Hx, Ht. rewrite El. discriminate.
  Qed.

  Variable c : ctx.
  Definition group_good10 (g : group) : Prop :=
    NoDup (g_ents g) /\ Forall good10 (g_insts g) /\
    (g_ctx g <> c -> Forall (fun i => ~ In a (ids i)) (g_insts g)).

  Lemma reg_track10 gs : forall c0, NoDup (map g_ctx gs) -> Forall group_good10 gs ->
    exists main, ro_events (reg_update tm r c0 gs) = Some main /\
      res10 e a tm (rdata gs c e a) (rdata (ro_reg (reg_update tm r c0 gs)) c e a) main.
  Proof.
    induction gs as [|g gs IH]; intros c0 Hnd Hg.
    - exists []. cbn [reg_update ro_events ro_reg]. split; [reflexivity|]. unfold res10. split; reflexivity.
    - cbn [map] in Hnd. inversion Hnd as [|x l Hx Hl]; subst. inversion Hg as [|y l' Hy Hl']; subst.
      destruct Hy as (Hents & Hgood & Hother).
      assert (Hunb : g_ctx g <> c -> gdata g e a = None).
      { intros Hne. apply gdata_unbound. specialize (Hother Hne). rewrite Forall_forall in *. intros i Hi.
        split; [apply (Hgood i Hi) | apply (Hother i Hi)]. }
      destruct g as [cx p insts|cx p ents i]; cbn [g_ctx g_ents g_insts] in *.
      + destruct (excl_track10 insts c0 Hents Hgood) as (insts' & c' & evs1 & lg & Hex & Htr).
        cbn [reg_update]. rewrite Hex. cbv zeta. cbn [ro_events ro_reg].
        destruct (IH c' Hl Hl') as (main2 & Hev2 & Htr2). rewrite Hev2. cbn [cat_ev].
        exists (evs1 ++ main2). split; [reflexivity|]. rewrite !rdata_cons. cbn [g_ctx]. rewrite !gdata_excl.
        destruct (Z.eqb cx c) eqn:E.
        * apply Z.eqb_eq in E. subst cx.
          destruct (res10_quiet _ _ _ _ _ _ Htr2 (rdata_absent gs c e a Hx)) as [Hq _].
          apply res10_app_l; assumption.
        * apply Z.eqb_neq in E. rewrite gdata_excl in Hunb.
          destruct (res10_quiet _ _ _ _ _ _ Htr (Hunb E)) as [Hq _].
          apply res10_app_r; assumption.
      + inversion Hgood as [|z l0 Hi _]; subst.
        destruct (shared_track10 c0 cx p ents i Hi) as (evs1 & Hev1 & Htr).
        cbn [reg_update]. cbv zeta. cbn [ro_events ro_reg].
        set (io := inst_update tm r c0 ents i) in *.
        destruct (IH (io_consumed io) Hl Hl') as (main2 & Hev2 & Htr2). rewrite Hev1, Hev2. cbn [cat_ev].
        exists (evs1 ++ main2). split; [reflexivity|]. rewrite !rdata_cons. cbn [g_ctx].
        destruct (Z.eqb cx c) eqn:E.
        * apply Z.eqb_eq in E. subst cx.
          destruct (res10_quiet _ _ _ _ _ _ Htr2 (rdata_absent gs c e a Hx)) as [Hq _].
          apply res10_app_l; assumption.
        * apply Z.eqb_neq in E.
          destruct (res10_quiet _ _ _ _ _ _ Htr (Hunb E)) as [Hq _].
          apply res10_app_r; assumption.
  Qed.
End FrameTrack2.

(* ================================================================================================ *)
(* 3. freshly built instances                                                                       *)
(* ================================================================================================ *)
Lemma bind_action_tight i s : tight i -> tight (bind_action i s).
Proof.
  unfold tight, ids, bind_action. intros Ht.
  pose proof (RegistryP.extend_ids s (in_binds i)) as He.
  destruct (extend s (in_binds i)) as [bs'|]; cbn [in_binds in_actions].
  - rewrite (He bs' eq_refl). exact Ht.
  - intros b Hb. rewrite map_app. apply in_or_app. cbn [map ab_id].
    destruct (Z.eq_dec (a_id s) b) as [E|E]; [right; left; exact E|].
    left. apply Ht. rewrite <- (lookup_store_other (a_id s) b (data_new (aid_dim (a_id s))) (in_actions i) E). exact Hb.
Qed.
Lemma instantiate_tight s : tight (instantiate s).
Proof.
  unfold instantiate. assert (H0 : tight (mkInst (i_pad s) [] [])) by (intros b Hb; cbn in Hb; congruence).
  revert H0. generalize (mkInst (i_pad s) [] []). induction (i_actions s) as [|x l IH]; intros i Hi; cbn [fold_left]; [exact Hi|].
  apply IH. apply bind_action_tight. exact Hi.
Qed.
Lemma mk_inst_tight sc c e : tight (mk_inst sc c e).
Proof. apply instantiate_tight. Qed.

Definition at_rest (d : data) : Prop := d_state d = SNone /\ (d_elapsed d == 0)%Q /\ (d_fired d == 0)%Q.
Lemma mk_inst_rest sc c e a d : lookup a (in_actions (mk_inst sc c e)) = Some d -> at_rest d.
Proof.
  intros Hl. destruct (mk_inst_fresh sc c e) as [_ Hf].
  assert (Hin : In a (ids (mk_inst sc c e))) by (apply mk_inst_tight; rewrite Hl; discriminate).
  rewrite (Hf a Hin) in Hl. injection Hl as <-. repeat split; reflexivity.
Qed.

(* ================================================================================================ *)
(* 4. R1 for operations: what a lookup answers after one operation                                  *)
(* ================================================================================================ *)
Lemma apply_op_kind sc w o oo : reg_inv sc w -> apply_op sc w o = Some oo ->
  match o with
  | OSpawn _ _ | OInsert _ _ => grow sc w (oo_world oo) (oo_built oo)
  | ORemove _ _ | ODespawn _ => shrink w (oo_world oo)
  | ORebuild => rebuilt sc (s_menu sc) w (oo_world oo) (oo_built oo)
  end.
Proof.
  intros Hinv Hop. destruct o as [e cs|e c|e c|e|]; cbn [apply_op] in *.
  - destruct (holds_of e (w_holds w)) as [old|] eqn:He.
    + injection Hop as <-. apply grow_refl.
    + injection Hop as <-. pose proof (spawn_world_inv sc w e Hinv He) as Hinv0.
      set (w0 := mkWorld (w_holds w ++ [(e, [])]) (w_reg w) (w_time w)) in *.
      destruct (spawn_fold_grow sc e cs (mkOpOut w0 [] []) Hinv0) as (bl & Hb & _ & G). cbn [oo_built oo_world app] in Hb, G.
      unfold spawn_f in Hb, G. rewrite Hb. apply (grow_from sc w0 w); [|reflexivity|exact G].
      intros c' e'. unfold holds, w0. cbn [w_holds]. rewrite holds_of_snoc. destruct (holds_of e' (w_holds w)) as [x|] eqn:E'; [tauto|].
      split; [|intros (x & H & _); discriminate]. destruct (Z.eqb e e'); intros (x & [= <-] & Hx); discriminate.
  - injection Hop as <-. apply insert_grow. exact Hinv.
  - destruct (remove_shrink sc w e c oo Hinv Hop) as [S _]. exact S.
  - destruct (holds_of e (w_holds w)) as [cs0|] eqn:He.
    2:{ injection Hop as <-. apply shrink_refl. }
    change (match fold_left (despawn_f e) (filter (fun c => memz c cs0) (s_menu sc)) (Some (mkOpOut w [] [])) with
            | Some a => Some (mkOpOut (mkWorld (del_ent e (w_holds (oo_world a))) (w_reg (oo_world a)) (w_time w)) (oo_events a) [])
            | None => None end = Some oo) in Hop.
    destruct (fold_left (despawn_f e) _ _) as [a|] eqn:Ef; [|discriminate]. injection Hop as <-. cbn [oo_world oo_built].
    destruct (despawn_fold_shrink sc e _ (mkOpOut w [] []) a Hinv Ef) as [S Hinv1]. cbn [oo_world] in S.
    eapply shrink_trans; [exact S|]. constructor; cbn [w_holds w_reg].
    + intros c0 e0 (x & H1 & H2). rewrite holds_of_del in H1. destruct (Z.eqb e0 e); [discriminate|]. exists x. split; assumption.
    + reflexivity.
  - change (fold_left (rebuild_f sc) (s_menu sc) (Some (mkOpOut w [] [])) = Some oo) in Hop.
    destruct (rebuild_fold_rebuilt sc (s_menu sc) (mkOpOut w [] []) oo Hinv Hop) as (bl & Hb & _ & R). cbn [oo_built oo_world app] in Hb, R.
    rewrite Hb. exact R.
Qed.

Definition is_join (o : op) : bool := match o with OSpawn _ _ | OInsert _ _ => true | _ => false end.

(* after an operation a lookup answers a freshly built instance, or the instance it answered before, or - an entity
   joining a shared context that others hold - the instance those others had *)
Lemma op_get_cases sc w o oo : reg_inv sc w -> apply_op sc w o = Some oo ->
  forall c e i', reg_get c e (w_reg (oo_world oo)) = Some i' ->
    (exists e0, i' = mk_inst sc c e0) \/
    (is_rebuild o = false /\ reg_get c e (w_reg w) = Some i') \/
    (is_join o = true /\ ctx_shared c = true /\ ~ holds (w_holds w) c e /\ holds (w_holds (oo_world oo)) c e /\
     exists e2, e2 <> e /\ holds (w_holds w) c e2 /\ reg_get c e2 (w_reg w) = Some i').
Proof.
  intros Hinv Hop c e i' Hg.
  destruct (apply_op_inv sc w o Hinv) as (oo' & Hop' & Hinv'). rewrite Hop in Hop'. injection Hop' as <-.
  pose proof (apply_op_kind sc w o oo Hinv Hop) as K.
  pose proof (mirror_some sc (oo_world oo) c e i' Hinv' Hg) as Hh'.
  assert (Grow : grow sc w (oo_world oo) (oo_built oo) -> is_join o = true ->
    (exists e0, i' = mk_inst sc c e0) \/
    (is_rebuild o = false /\ reg_get c e (w_reg w) = Some i') \/
    (is_join o = true /\ ctx_shared c = true /\ ~ holds (w_holds w) c e /\ holds (w_holds (oo_world oo)) c e /\
     exists e2, e2 <> e /\ holds (w_holds w) c e2 /\ reg_get c e2 (w_reg w) = Some i')).
  { intros [G1 G2 G3 G4 G5 G6] Hj.
    destruct (holds_dec w c e) as [Hh|Hh].
    - right. left. split; [destruct o; try discriminate; reflexivity|]. rewrite <- (G2 c e Hh). exact Hg.
    - destruct (ctx_shared c) eqn:Hs.
      + destruct (someone_dec sc w c Hinv) as [(e2 & H2)|Hnone].
        * right. right. split; [exact Hj|]. split; [reflexivity|]. split; [exact Hh|]. split; [exact Hh'|].
          exists e2. split; [intros ->; contradiction|]. split; [exact H2|].
          destruct (inv_shared_common sc (oo_world oo) c Hinv' Hs e e2 Hh' (G1 c e2 H2)) as (i & R1 & R2).
          rewrite <- (G2 c e2 H2), R2, <- R1. exact Hg.
        * left. destruct (G6 c Hs) as (e0 & _ & Q).
          { apply (G4 c Hs). split; [exists e; exact Hh' | exact Hnone]. }
          exists e0. rewrite (Q e Hh') in Hg. injection Hg as <-. reflexivity.
      + left. exists e. rewrite (G5 c e Hs) in Hg; [injection Hg as <-; reflexivity|].
        apply (G3 c e Hs). split; assumption. }
  assert (Shrink : shrink w (oo_world oo) -> is_rebuild o = false -> reg_get c e (w_reg w) = Some i').
  { intros [S1 S2] _. rewrite <- (S2 c e Hh'). exact Hg. }
  destruct o as [e1 cs|e1 c1|e1 c1|e1|].
  - apply Grow; [exact K | reflexivity].
  - apply Grow; [exact K | reflexivity].
  - right. left. split; [reflexivity|]. apply Shrink; [exact K | reflexivity].
  - right. left. split; [reflexivity|]. apply Shrink; [exact K | reflexivity].
  - left. destruct K as [R1 R2 R3 R4 R5 R6 R7].
    assert (Hh : holds (w_holds w) c e) by (apply R1; exact Hh').
    assert (Hc : In c (s_menu sc)).
    { destruct Hh as (cs & H1 & H2). destruct Hinv as (_ & _ & _ & _ & _ & Hcs). apply (Hcs e cs H1). apply memz_in. exact H2. }
    destruct (ctx_shared c) eqn:Hs.
    + destruct (R7 c Hs (R4 c Hs Hc (ex_intro _ e Hh))) as (e0 & _ & Q). exists e0. rewrite (Q e Hh') in Hg. injection Hg as <-. reflexivity.
    + exists e. rewrite (R6 c e Hs (R3 c e Hs Hc Hh)) in Hg. injection Hg as <-. reflexivity.
Qed.

(* ================================================================================================ *)
(* 5. the holders, followed statically; the world invariant (R2)                                    *)
(* ================================================================================================ *)
Definition hmap : Type := list (entity * list ctx).
Definition ins_h (menu : list ctx) (H : hmap) (e : entity) (c : ctx) : hmap :=
  match holds_of e H with
  | None => H
  | Some cs => if memz c cs || negb (memz c menu) then H else set_holds e (cs ++ [c]) H
  end.
Definition rem_h (H : hmap) (e : entity) (c : ctx) : hmap :=
  match holds_of e H with
  | None => H
  | Some cs => if negb (memz c cs) then H else set_holds e (filter (fun x => negb (Z.eqb x c)) cs) H
  end.
(* the holders after an operation: a function of the holders before, the registered types and the operation alone *)
Definition sim_op (menu : list ctx) (H : hmap) (o : op) : hmap :=
  match o with
  | OSpawn e cs => match holds_of e H with
                   | Some _ => H
                   | None => fold_left (fun H c => ins_h menu H e c) cs (H ++ [(e, [])])
                   end
  | OInsert e c => ins_h menu H e c
  | ORemove e c => rem_h H e c
  | ODespawn e => match holds_of e H with
                  | None => H
                  | Some cs0 => del_ent e (fold_left (fun H c => rem_h H e c) (filter (fun c => memz c cs0) menu) H)
                  end
  | ORebuild => H
  end.

Lemma insert_ctx_holds sc w e c : w_holds (oo_world (insert_ctx sc w e c)) = ins_h (s_menu sc) (w_holds w) e c.
Proof.
  unfold insert_ctx, ins_h. destruct (holds_of e (w_holds w)) as [cs|]; [|reflexivity].
  destruct (memz c cs || negb (memz c (s_menu sc))); reflexivity.
Qed.
Lemma remove_ctx_holds w e c o : remove_ctx w e c = Some o -> w_holds (oo_world o) = rem_h (w_holds w) e c.
Proof.
  unfold remove_ctx, rem_h. destruct (holds_of e (w_holds w)) as [cs|]; [|intros [= <-]; reflexivity].
  destruct (negb (memz c cs)); [intros [= <-]; reflexivity|].
  destruct (reg_remove (w_time w) c e (w_reg w)) as [[r' [evs|]]|]; try discriminate. intros [= <-]. reflexivity.
Qed.
Lemma spawn_fold_holds sc e cs : forall acc,
  w_holds (oo_world (fold_left (spawn_f sc e) cs acc)) = fold_left (fun H c => ins_h (s_menu sc) H e c) cs (w_holds (oo_world acc)).
Proof.
  induction cs as [|c cs IH]; intros acc; cbn [fold_left]; [reflexivity|].
  rewrite IH. unfold spawn_f. cbn [oo_world]. rewrite insert_ctx_holds. reflexivity.
Qed.
Lemma despawn_fold_holds e cs : forall a a', fold_left (despawn_f e) cs (Some a) = Some a' ->
  w_holds (oo_world a') = fold_left (fun H c => rem_h H e c) cs (w_holds (oo_world a)).
Proof.
  induction cs as [|c cs IH]; intros a a' H; cbn [fold_left] in *; [injection H as <-; reflexivity|].
  cbn [despawn_f] in H. destruct (remove_ctx (oo_world a) e c) as [o|] eqn:Er; [|rewrite despawn_f_none in H; discriminate].
  rewrite (IH _ a' H). cbn [oo_world]. rewrite (remove_ctx_holds _ _ _ _ Er). reflexivity.
Qed.
Lemma apply_op_holds sc w o oo : apply_op sc w o = Some oo -> w_holds (oo_world oo) = sim_op (s_menu sc) (w_holds w) o.
Proof.
  destruct o as [e cs|e c|e c|e|]; cbn [apply_op sim_op].
  - destruct (holds_of e (w_holds w)) as [old|]; intros [= <-]; [reflexivity|].
    change (w_holds (oo_world (fold_left (spawn_f sc e) cs (mkOpOut (mkWorld (w_holds w ++ [(e, [])]) (w_reg w) (w_time w)) [] []))) =
            fold_left (fun H c => ins_h (s_menu sc) H e c) cs (w_holds w ++ [(e, [])])).
    rewrite spawn_fold_holds. reflexivity.
  - intros [= <-]. apply insert_ctx_holds.
  - apply remove_ctx_holds.
  - destruct (holds_of e (w_holds w)) as [cs0|]; [|intros [= <-]; reflexivity]. intros Hop.
    change (match fold_left (despawn_f e) (filter (fun c => memz c cs0) (s_menu sc)) (Some (mkOpOut w [] [])) with
            | Some a => Some (mkOpOut (mkWorld (del_ent e (w_holds (oo_world a))) (w_reg (oo_world a)) (w_time w)) (oo_events a) [])
            | None => None end = Some oo) in Hop.
    destruct (fold_left (despawn_f e) _ _) as [a|] eqn:Ef; [|discriminate]. injection Hop as <-. cbn [oo_world w_holds].
    rewrite (despawn_fold_holds e _ _ a Ef). reflexivity.
  - intros Hop. change (fold_left (rebuild_f sc) (s_menu sc) (Some (mkOpOut w [] [])) = Some oo) in Hop.
    apply (rebuild_fold_holds sc _ _ _ Hop).
Qed.

(* who joins what *)
Lemma ins_h_holds menu H e0 c0 c e : holds (ins_h menu H e0 c0) c e -> holds H c e \/ (c = c0 /\ e = e0).
Proof.
  unfold ins_h. destruct (holds_of e0 H) as [cs|] eqn:E; [|tauto].
  destruct (memz c0 cs || negb (memz c0 menu)); [tauto|]. apply holds_set_add. exact E.
Qed.
Lemma ins_fold_holds menu e0 cs c e : forall H,
  holds (fold_left (fun H c => ins_h menu H e0 c) cs H) c e -> holds H c e \/ (e = e0 /\ In c cs).
Proof.
  induction cs as [|c1 cs IH]; intros H Hh; cbn [fold_left] in Hh; [left; exact Hh|].
  destruct (IH _ Hh) as [H1|[-> H1]]; [|right; split; [reflexivity | right; exact H1]].
  destruct (ins_h_holds _ _ _ _ _ _ H1) as [H2|[-> ->]]; [left; exact H2 | right; split; [reflexivity | left; reflexivity]].
Qed.
Lemma sim_join menu H o c e : holds (sim_op menu H o) c e -> ~ holds H c e ->
  match o with
  | OInsert e0 c0 => e = e0 /\ c = c0
  | OSpawn e0 cs => e = e0 /\ In c cs
  | _ => True
  end.
Proof.
  intros Hh Hn. destruct o as [e0 cs|e0 c0|e0 c0|e0|]; cbn [sim_op] in *; try exact I.
  - destruct (holds_of e0 H) as [old|] eqn:E; [contradiction|].
    destruct (ins_fold_holds _ _ _ _ _ _ Hh) as [H1|H1]; [|exact H1]. exfalso. apply Hn.
    destruct H1 as (x & H1 & H2). rewrite holds_of_snoc in H1. destruct (holds_of e H) as [y|] eqn:E2.
    + injection H1 as ->. exists x. split; [exact E2 | exact H2].
    + destruct (Z.eqb e0 e); [|discriminate]. injection H1 as <-. discriminate.
  - destruct (ins_h_holds _ _ _ _ _ _ Hh) as [H1|[-> ->]]; [contradiction | split; reflexivity].
Qed.

Definition other_holds (H : hmap) (e : entity) (c : ctx) : bool :=
  existsb (fun p => negb (Z.eqb (fst p) e) && memz c (snd p)) H.
(* an entity joins a shared context that another entity holds *)
Definition late_join (H : hmap) (o : op) : bool :=
  match o with
  | OInsert e c => ctx_shared c && other_holds H e c
  | OSpawn e cs => existsb (fun c => ctx_shared c && other_holds H e c) cs
  | _ => false
  end.
Lemma holds_of_in e (H : hmap) cs : holds_of e H = Some cs -> In (e, cs) H.
Proof.
  induction H as [|[x old] H IH]; cbn [holds_of]; [discriminate|]. destruct (Z.eqb x e) eqn:E.
  - apply Z.eqb_eq in E. subst x. intros [= ->]. left. reflexivity.
  - intros Hh. right. apply IH. exact Hh.
Qed.
Lemma other_holds_intro H e c e2 : holds H c e2 -> e2 <> e -> other_holds H e c = true.
Proof.
  intros (cs & H1 & H2) Hne. unfold other_holds. apply existsb_exists. exists (e2, cs). split; [apply holds_of_in; exact H1|].
  cbn [fst snd]. rewrite H2. apply Z.eqb_neq in Hne. rewrite Hne. reflexivity.
Qed.
Lemma late_join_intro menu H o c e e2 : is_join o = true -> ctx_shared c = true -> ~ holds H c e -> holds (sim_op menu H o) c e ->
  holds H c e2 -> e2 <> e -> late_join H o = true.
Proof.
  intros Hj Hs Hn Hh H2 Hne. pose proof (sim_join menu H o c e Hh Hn) as J.
  destruct o as [e0 cs|e0 c0|e0 c0|e0|]; try discriminate; cbn [late_join]; destruct J as [-> J].
  - apply existsb_exists. exists c. split; [exact J|]. rewrite Hs, (other_holds_intro H e0 c e2 H2 Hne). reflexivity.
  - subst c0. rewrite Hs, (other_holds_intro H e0 c e2 H2 Hne). reflexivity.
Qed.

(* an action belongs to one context type *)
Definition disjz (a b : list Z) : bool := forallb (fun x => negb (memz x b)) a.
Definition cfg_aids (x : ctx * entity * inst_spec) : list Z := map a_id (i_actions (snd x)).
Definition owner_okb (sc : scenario) : bool :=
  forallb (fun x => forallb (fun y => Z.eqb (fst (fst x)) (fst (fst y)) || disjz (cfg_aids x) (cfg_aids y)) (s_cfg sc)) (s_cfg sc).

Lemma mk_inst_ids_cfg sc c e a : In a (ids (mk_inst sc c e)) ->
  exists x, In x (s_cfg sc) /\ fst (fst x) = c /\ In a (cfg_aids x).
Proof.
  unfold mk_inst. rewrite in_ids_instantiate. unfold cfg_lookup.
  destruct (find (fun x : Z * Z * inst_spec => Z.eqb (fst (fst x)) c && Z.eqb (snd (fst x)) e) (s_cfg sc)) as [x|] eqn:E.
  - intros Ha. apply find_some in E. destruct E as [E1 E2]. apply andb_true_iff in E2. destruct E2 as [E2 _]. apply Z.eqb_eq in E2.
    exists x. repeat split; assumption.
  - cbn. intros [].
Qed.
Lemma owner_use sc c e c' e' a : owner_okb sc = true ->
  In a (ids (mk_inst sc c e)) -> In a (ids (mk_inst sc c' e')) -> c = c'.
Proof.
  intros Ho H1 H2. destruct (mk_inst_ids_cfg sc c e a H1) as (x & Hx & <- & Ax). destruct (mk_inst_ids_cfg sc c' e' a H2) as (y & Hy & <- & Ay).
  unfold owner_okb in Ho. rewrite forallb_forall in Ho. specialize (Ho x Hx). rewrite forallb_forall in Ho. specialize (Ho y Hy).
  apply orb_true_iff in Ho. destruct Ho as [Ho|Ho]; [apply Z.eqb_eq; exact Ho|]. exfalso.
  unfold disjz in Ho. rewrite forallb_forall in Ho. specialize (Ho a Ax). apply negb_true_iff in Ho.
  apply RegistryP.memz_false in Ho. contradiction.
Qed.

Record WI (sc : scenario) (w : world) (H : hmap) (rest : bool) : Prop := mkWI {
  wi_inv : reg_inv sc w;
  wi_holds : w_holds w = H;
  wi_inst : forall c e i, reg_get c e (w_reg w) = Some i -> tight i /\ exists e', ids i = ids (mk_inst sc c e');
  wi_rest : rest = true -> forall c e i, reg_get c e (w_reg w) = Some i -> exists e0, i = mk_inst sc c e0 }.

Lemma WI_init sc : WI sc world_init [] true.
Proof. constructor; [apply reg_inv_init | reflexivity | intros c e i H; discriminate | intros _ c e i H; discriminate]. Qed.

Lemma WI_op sc w H rest o oo : WI sc w H rest -> apply_op sc w o = Some oo -> (late_join H o = false \/ rest = true) ->
  WI sc (oo_world oo) (sim_op (s_menu sc) H o) (rest || is_rebuild o).
Proof.
  intros [Hinv Hh Hi Hr] Hop Hlate.
  destruct (apply_op_inv sc w o Hinv) as (oo' & Hop' & Hinv'). rewrite Hop in Hop'. injection Hop' as <-.
  constructor.
  - exact Hinv'.
  - rewrite (apply_op_holds sc w o oo Hop), Hh. reflexivity.
  - intros c e i' Hg. destruct (op_get_cases sc w o oo Hinv Hop c e i' Hg) as [(e0 & ->)|[(_ & Hs)|(_ & _ & _ & _ & e2 & _ & _ & Hs)]].
    + split; [apply mk_inst_tight | exists e0; reflexivity].
    + exact (Hi c e i' Hs).
    + exact (Hi c e2 i' Hs).
  - intros Hrest c e i' Hg.
    destruct (op_get_cases sc w o oo Hinv Hop c e i' Hg) as [(e0 & ->)|[(Hnr & Hs)|(Hj & Hsh & Hn & Hh' & e2 & Hne & H2 & Hs)]].
    + exists e0. reflexivity.
    + rewrite Hnr, orb_false_r in Hrest. exact (Hr Hrest c e i' Hs).
    + assert (Hnr : is_rebuild o = false) by (destruct o; try discriminate; reflexivity).
      rewrite Hnr, orb_false_r in Hrest. destruct (Hr Hrest c e2 i' Hs) as (e0 & ->).
      (* the instance of a shared type belongs to its type, whoever it was built for *)
      exists e0. reflexivity.
Qed.

Lemma frame_quiet sc w f fo : f_ops f = [] -> frame sc w f = Some fo ->
  fo_world fo = mid_world w f /\
  ro_events (reg_update (frame_time f) (f_raw f) (update_state (f_raw f)) (w_reg w)) = Some (fo_main fo).
Proof.
  intros Hops Hfo. destruct (frame_decompose sc w f fo Hfo) as (Hmain & oo & Hrun & Hw & _). cbv zeta in *.
  rewrite Hops, run_ops_nil in Hrun. injection Hrun as <-. split; [exact Hw | exact Hmain].
Qed.

Lemma WI_frame sc w H rest f fo : WI sc w H rest -> f_ops f = [] -> frame sc w f = Some fo -> WI sc (fo_world fo) H false.
Proof.
  intros [Hinv Hh Hi Hr] Hops Hfo. destruct (frame_quiet sc w f fo Hops Hfo) as [-> _]. unfold mid_world. constructor.
  - apply reg_update_inv. exact Hinv.
  - exact Hh.
  - cbn [w_reg]. intros c e i' Hg. destruct (reg_update_get _ _ _ _ _ _ _ Hg) as (i & Hgi & Hids & Ht).
    destruct (Hi c e i Hgi) as [T (e' & E)]. split; [apply Ht; exact T | exists e'; rewrite Hids; exact E].
  - discriminate.
Qed.

(* ================================================================================================ *)
(* 6. the judgement, entry by entry                                                                 *)
(* ================================================================================================ *)
Definition hist_t : Type := option (state * list (state * Q)).

Definition upd_entry (st : step) (before o : out) (xh : (Z * Z * Z) * hist_t) : list (Z * bool) * hist_t :=
        let '((c, e, a), h) := xh in
        match snap_of_entry c e a (x_snaps o) with
        | None => ([], None)
        | Some s =>
            match st, h with
            | SFrame f, Some (last_state, rp) =>
                let rp' := (last_state, vdelta_spec f) :: rp in
                let evs := events_for e a (x_main o) in
                ([ (1, qeqb (sn_elapsed s) (elapsed_spec rp'));
                   (2, qeqb (sn_fired s) (fired_spec rp'));
                   (3, qleb 0 (sn_fired s) && qleb (sn_fired s) (sn_elapsed s));
                   (4, forallb (fun ev => oq_eqb (e_elapsed ev) (if carries_elapsed (e_kind ev) then Some (sn_elapsed s) else None) &&
                                          oq_eqb (e_fired ev) (if carries_fired (e_kind ev) then Some (sn_fired s) else None)) evs) ],
                 Some (sn_state s, rp'))
            | _, _ =>
                let others := existsb (fun m => match m with mi c' e' got _ => Z.eqb c c' && negb (Z.eqb e e') && got end) (x_mirror before) in
                let at_rest := state_eqb (sn_state s) SNone && qeqb (sn_elapsed s) 0 && qeqb (sn_fired s) 0 in
                ((match h, st with None, SOp _ => [(31, at_rest || (ctx_shared c && others))] | _, _ => [] end),
                 if state_eqb (sn_state s) SNone && qeqb (sn_elapsed s) 0 then Some (SNone, []) else
                       match h with Some hh => Some hh | None => None end)
            end
        end.

Lemma judge_steps_cons sc ents hist before st steps o outs :
  judge_steps sc ents hist before (st :: steps) (o :: outs) =
  (8, negb (x_panicked o)) :: (30, match st with SOp _ => ops_leave_others before o | SFrame _ => true end) ::
  concat (map fst (map (upd_entry st before o) (combine ents hist))) ++
  judge_steps sc ents (map snd (map (upd_entry st before o) (combine ents hist))) o steps outs.
Proof. reflexivity. Qed.

Definition listedb (sc : scenario) (c e a : Z) : bool :=
  memz c (s_menu sc) && memz e (s_ents sc) && has_cfg sc c e && memz a (spec_aids (cfg_lookup sc c e)).

Lemma snap_entry sc w c e a :
  snap_of_entry c e a (model_snaps sc w) = if listedb sc c e a then option_map snap_of (rdata (w_reg w) c e a) else None.
Proof.
  destruct (listedb sc c e a) eqn:L.
  - unfold listedb in L. apply andb_true_iff in L. destruct L as [L L4]. apply andb_true_iff in L. destruct L as [L L3].
    apply andb_true_iff in L. destruct L as [L1 L2].
    rewrite (snap_of_entry_model sc w c e a) by (try apply RegistryP.memz_in; assumption).
    unfold snapv, rdata. destruct (reg_get c e (w_reg w)); reflexivity.
  - unfold snap_of_entry. rewrite find_none_all; [reflexivity|]. intros y Hy. apply in_model_snaps in Hy.
    destruct Hy as (c' & e' & a' & Hc & He & Ec & Ha & ->).
    destruct (Z.eqb c c' && Z.eqb e e' && Z.eqb a a') eqn:E; [|reflexivity]. exfalso.
    apply andb_true_iff in E. destruct E as [E E3]. apply andb_true_iff in E. destruct E as [E1 E2].
    apply Z.eqb_eq in E1. apply Z.eqb_eq in E2. apply Z.eqb_eq in E3. subst c' e' a'.
    unfold listedb in L. apply RegistryP.memz_in in Hc, He, Ha. rewrite Hc, He, Ec, Ha in L. discriminate.
Qed.

Lemma listed_ids sc c e a : listedb sc c e a = true -> In a (ids (mk_inst sc c e)).
Proof.
  unfold listedb. intros L. apply andb_true_iff in L. destruct L as [_ L]. apply RegistryP.memz_in in L.
  unfold mk_inst. apply in_ids_instantiate. apply in_spec_aids. exact L.
Qed.

(* what the history of an entry knows about the world *)
Definition EI (sc : scenario) (w : world) (c e a : Z) (h : hist_t) : Prop :=
  match h with
  | None => snap_of_entry c e a (model_snaps sc w) = None
  | Some (ls, rp) =>
      listedb sc c e a = true /\
      exists d, rdata (w_reg w) c e a = Some d /\ d_state d = ls /\
                (d_elapsed d == elapsed_spec rp)%Q /\ (d_fired d == fired_spec rp)%Q /\
                Forall (fun p => 0 <= snd p)%Q rp
  end.
Definition EIx (sc : scenario) (w : world) (x : Z * Z * Z) (h : hist_t) : Prop := EI sc w (fst (fst x)) (snd (fst x)) (snd x) h.

Lemma spec_bounds rp : Forall (fun p => 0 <= snd p)%Q rp -> (0 <= fired_spec rp /\ fired_spec rp <= elapsed_spec rp)%Q.
Proof.
  induction rp as [|[s dt] rp IH]; intros HF.
  - unfold fired_spec, elapsed_spec. cbn [sum_while]. split; apply Qle_refl.
  - inversion HF as [|x l Hx Hl]; subst. cbn [snd] in Hx. destruct (IH Hl) as [I1 I2].
    unfold fired_spec, elapsed_spec in *.
    destruct s; cbn [sum_while is_fired not_none state_eqb state_rank Nat.eqb negb]; lra.
Qed.
Lemma update_closed dt d s v rp : (d_elapsed d == elapsed_spec rp)%Q -> (d_fired d == fired_spec rp)%Q ->
  (d_elapsed (data_update dt d s v) == elapsed_spec ((d_state d, dt) :: rp) /\
   d_fired (data_update dt d s v) == fired_spec ((d_state d, dt) :: rp))%Q.
Proof. intros He Hf. exact (run_data_closed [(s, dt, v)] d rp He Hf). Qed.
Lemma vdelta_spec_eq f : vdelta (frame_time f) = vdelta_spec f.
Proof. reflexivity. Qed.

Lemma rdata_some r c e a d : rdata r c e a = Some d -> exists i, reg_get c e r = Some i /\ lookup a (in_actions i) = Some d.
Proof. unfold rdata. destruct (reg_get c e r) as [i|]; [|discriminate]. intros H. exists i. split; [reflexivity | exact H]. Qed.

(* --- an operation --- *)
Lemma op_data_cases sc w H rest o oo c e a d' : WI sc w H rest -> apply_op sc w o = Some oo ->
  (late_join H o = false \/ rest = true) -> rdata (w_reg (oo_world oo)) c e a = Some d' ->
  at_rest d' \/ rdata (w_reg w) c e a = Some d'.
Proof.
  intros [Hinv Hh Hi Hr] Hop Hlate Rd. destruct (rdata_some _ _ _ _ _ Rd) as (i' & Hg & Hl).
  destruct (op_get_cases sc w o oo Hinv Hop c e i' Hg) as [(e0 & ->)|[(_ & Hs)|(Hj & Hsh & Hn & Hh' & e2 & Hne & H2 & Hs)]].
  - left. apply (mk_inst_rest sc c e0 a d' Hl).
  - right. unfold rdata. rewrite Hs. exact Hl.
  - left. rewrite (apply_op_holds sc w o oo Hop), Hh in Hh'. rewrite Hh in Hn, H2.
    pose proof (late_join_intro (s_menu sc) H o c e e2 Hj Hsh Hn Hh' H2 Hne) as Hlj.
    destruct Hlate as [Hl0|Hrest]; [congruence|]. destruct (Hr Hrest c e2 i' Hs) as (e0 & ->).
    apply (mk_inst_rest sc c e0 a d' Hl).
Qed.

Lemma entry_op sc w H rest o oo before out c e a h :
  WI sc w H rest -> apply_op sc w o = Some oo -> (late_join H o = false \/ rest = true) ->
  x_snaps out = model_snaps sc (oo_world oo) -> EI sc w c e a h ->
  (forall k b, In (k, b) (fst (upd_entry (SOp o) before out ((c, e, a), h))) -> b = true) /\
  EI sc (oo_world oo) c e a (snd (upd_entry (SOp o) before out ((c, e, a), h))).
Proof.
  intros HW Hop Hlate Hsn HE. unfold upd_entry. rewrite Hsn, snap_entry.
  destruct (listedb sc c e a) eqn:L.
  2:{ cbn [fst snd]. split; [intros k b []|]. unfold EI. rewrite snap_entry, L. reflexivity. }
  destruct (rdata (w_reg (oo_world oo)) c e a) as [d'|] eqn:Rd; cbn [option_map].
  2:{ cbn [fst snd]. split; [intros k b []|]. unfold EI. rewrite snap_entry, L, Rd. reflexivity. }
  pose proof (op_data_cases sc w H rest o oo c e a d' HW Hop Hlate Rd) as K.
  cbn [snap_of sn_state sn_elapsed sn_fired].
  destruct h as [[ls rp]|].
  - (* the history goes on, or restarts at rest *)
    destruct HE as (_ & d & Rd0 & Hst & Hel & Hfi & Hnn). cbn [fst snd]. split; [intros k b []|].
    destruct (state_eqb (d_state d') SNone && qeqb (d_elapsed d') 0) eqn:T.
    + apply andb_true_iff in T. destruct T as [T1 T2]. apply state_eqb_eq in T1. apply qeqb_iff in T2.
      unfold EI. split; [exact L|]. exists d'. split; [exact Rd|]. split; [exact T1|]. split; [exact T2|]. split; [|constructor].
      destruct K as [(_ & _ & K3)|K]; [exact K3|]. rewrite Rd0 in K. injection K as E. subst d'.
      destruct (spec_bounds rp Hnn) as [B1 B2]. change (fired_spec []) with 0%Q. rewrite Hfi. rewrite Hel in T2. lra.
    + destruct K as [(K1 & K2 & _)|K].
      * exfalso. rewrite K1 in T. cbn [state_eqb state_rank Nat.eqb andb] in T. apply qeqb_iff in K2. congruence.
      * rewrite Rd0 in K. injection K as E. subst d'. unfold EI. split; [exact L|]. exists d. repeat split; assumption.
  - (* first sight: the instance is at rest *)
    unfold EI in HE. rewrite snap_entry, L in HE.
    assert (R0 : rdata (w_reg w) c e a = None) by (destruct (rdata (w_reg w) c e a); [discriminate | reflexivity]).
    destruct K as [(K1 & K2 & K3)|K]; [|congruence].
    apply qeqb_iff in K2, K3. rewrite K1, K2, K3. cbn [state_eqb state_rank Nat.eqb andb orb fst snd]. split.
    + intros k b [[= <- <-]|[]]. reflexivity.
    + unfold EI. split; [exact L|]. exists d'. apply qeqb_iff in K2, K3. split; [exact Rd|]. split; [exact K1|].
      split; [exact K2|]. split; [exact K3 | constructor].
Qed.

(* --- a frame --- *)
Lemma WI_groups sc w H rest c e a : WI sc w H rest -> owner_okb sc = true -> In a (ids (mk_inst sc c e)) ->
  Forall (group_good10 a c) (w_reg w).
Proof.
  intros [Hinv Hh Hi Hr] Ho Ha. pose proof (proj1 (reg_inv_alt sc w) Hinv) as (Hwf & _ & _).
  pose proof Hwf as (_ & _ & Hok). rewrite Forall_forall in *. intros g Hg.
  destruct (Hok g Hg) as (_ & _ & _ & Hnd & Hgw). unfold ginsts_wf in Hgw. rewrite Forall_forall in Hgw.
  split; [exact Hnd|]. split.
  - rewrite Forall_forall. intros i Hin. destruct (insts_reachable _ g i Hwf Hg Hin) as (e0 & Hget).
    destruct (Hi _ _ _ Hget) as [T (e' & E)]. split; [rewrite E; apply mk_inst_fresh|]. split; [exact T | apply Hgw; exact Hin].
  - intros Hne. rewrite Forall_forall. intros i Hin Hai. destruct (insts_reachable _ g i Hwf Hg Hin) as (e0 & Hget).
    destruct (Hi _ _ _ Hget) as [_ (e' & E)]. rewrite E in Hai. apply Hne. symmetry. exact (owner_use sc c e _ e' a Ho Ha Hai).
Qed.

Lemma entry_frame sc w H rest f fo before out c e a h :
  WI sc w H rest -> owner_okb sc = true -> f_ops f = [] -> (0 <= vdelta_spec f)%Q -> frame sc w f = Some fo ->
  x_snaps out = model_snaps sc (fo_world fo) -> x_main out = fo_main fo -> EI sc w c e a h ->
  (forall k b, In (k, b) (fst (upd_entry (SFrame f) before out ((c, e, a), h))) -> b = true) /\
  EI sc (fo_world fo) c e a (snd (upd_entry (SFrame f) before out ((c, e, a), h))).
Proof.
  intros HW Ho Hops Hdt Hfo Hsn Hmain HE. unfold upd_entry. rewrite Hsn, snap_entry.
  destruct (listedb sc c e a) eqn:L.
  2:{ cbn [fst snd]. split; [intros k b []|]. unfold EI. rewrite snap_entry, L. reflexivity. }
  destruct (frame_quiet sc w f fo Hops Hfo) as [Hw Hev].
  pose proof (WI_groups sc w H rest c e a HW Ho (listed_ids sc c e a L)) as Hgood.
  pose proof (wi_inv _ _ _ _ HW) as Hinv. pose proof (proj1 (reg_inv_alt sc w) Hinv) as ((_ & Hnd & _) & _ & _).
  destruct (reg_track10 e a (frame_time f) (f_raw f) c (w_reg w) (update_state (f_raw f)) Hnd Hgood) as (main & Hev' & Hres).
  rewrite Hev in Hev'. injection Hev' as <-.
  assert (Hreg : w_reg (fo_world fo) = ro_reg (reg_update (frame_time f) (f_raw f) (update_state (f_raw f)) (w_reg w))) by (rewrite Hw; reflexivity).
  rewrite <- Hreg in Hres.
  destruct h as [[ls rp]|].
  - destruct HE as (_ & d & Rd0 & Hst & Hel & Hfi & Hnn). rewrite Rd0 in Hres.
    destruct Hres as (s1 & v & Rd & Hcar). cbv zeta in Rd, Hcar. rewrite vdelta_spec_eq in Rd, Hcar.
    set (d' := data_update (vdelta_spec f) d s1 v) in *. rewrite Rd. cbn [option_map snap_of sn_state sn_elapsed sn_fired fst snd].
    destruct (update_closed (vdelta_spec f) d s1 v rp Hel Hfi) as [C1 C2]. fold d' in C1, C2. rewrite Hst in C1, C2.
    assert (Hnn' : Forall (fun p => 0 <= snd p)%Q ((ls, vdelta_spec f) :: rp)) by (constructor; [exact Hdt | exact Hnn]).
    destruct (spec_bounds _ Hnn') as [B1 B2].
    split.
    + intros k b [[= <- <-]|[[= <- <-]|[[= <- <-]|[[= <- <-]|[]]]]].
      * apply qeqb_iff. exact C1.
      * apply qeqb_iff. exact C2.
      * apply andb_true_iff. split; apply qleb_iff; [rewrite C2; exact B1 | rewrite C1, C2; exact B2].
      * apply forallb_forall. intros ev Hin. rewrite Hmain in Hin.
        destruct (Hcar ev Hin) as (k0 & ->). destruct (mk_event_payload a d' k0 e) as (_ & _ & P3 & _ & _ & P6 & P7). cbv zeta in *.
        rewrite P3, P6, P7. destruct (carries_elapsed k0), (carries_fired k0); cbn [oq_eqb andb]; rewrite ?qeqb_refl; reflexivity.
    + unfold EI. split; [exact L|]. exists d'. split; [exact Rd|]. split; [reflexivity|]. split; [exact C1|]. split; [exact C2 | exact Hnn'].
  - unfold EI in HE. rewrite snap_entry, L in HE.
    assert (R0 : rdata (w_reg w) c e a = None) by (destruct (rdata (w_reg w) c e a); [discriminate | reflexivity]).
    rewrite R0 in Hres. destruct Hres as [_ Rd]. rewrite Rd. cbn [option_map fst snd]. split; [intros k b []|].
    unfold EI. rewrite snap_entry, L, Rd. reflexivity.
Qed.

(* ================================================================================================ *)
(* 7. R3: all steps; the profile; the theorem                                                       *)
(* ================================================================================================ *)
Fixpoint steps_okb (menu : list ctx) (H : hmap) (rest : bool) (steps : list step) : bool :=
  match steps with
  | [] => true
  | SFrame f :: r =>
      match f_ops f with [] => true | _ => false end && qleb 0 (vdelta_spec f) && steps_okb menu H false r
  | SOp o :: r =>
      (negb (late_join H o) || rest) && steps_okb menu (sim_op menu H o) (rest || is_rebuild o) r
  end.

Lemma combine_upd {A B C} (G : A * B -> C) (l : list A) : forall (h : list B), length h = length l ->
  combine l (map G (combine l h)) = map (fun xh => (fst xh, G xh)) (combine l h).
Proof.
  induction l as [|x l IH]; intros h Hlen; [reflexivity|]. destruct h as [|y h]; [discriminate|].
  cbn [combine map fst]. rewrite IH by (cbn in Hlen; lia). reflexivity.
Qed.

Lemma steps_sound sc ents : owner_okb sc = true -> forall steps w H rest before hist,
  WI sc w H rest -> before_ok sc w before -> steps_okb (s_menu sc) H rest steps = true ->
  length hist = length ents -> (forall x h, In (x, h) (combine ents hist) -> EIx sc w x h) ->
  forall k b, In (k, b) (judge_steps sc ents hist before steps (run_steps sc w steps)) -> b = true.
Proof.
  intros Ho. induction steps as [|st steps IH]; intros w H rest before hist HW Hb Hok Hlen HE k b Hin.
  - cbn in Hin. destruct Hin.
  - pose proof (wi_inv _ _ _ _ HW) as Hinv.
    rewrite run_steps_cons in Hin. destruct (step_res_inv sc w st Hinv) as (w' & o & Hs & Hinv' & Hshow). rewrite Hs in Hin.
    rewrite judge_steps_cons in Hin.
    (* what the step does, entry by entry *)
    assert (Hent : exists H' rest', WI sc w' H' rest' /\ steps_okb (s_menu sc) H' rest' steps = true /\
              forall c e a h, EI sc w c e a h ->
                (forall k b, In (k, b) (fst (upd_entry st before o ((c, e, a), h))) -> b = true) /\
                EI sc w' c e a (snd (upd_entry st before o ((c, e, a), h)))).
    { destruct st as [op|f]; cbn [step_res steps_okb] in Hs, Hok.
      - destruct (apply_op sc w op) as [oo|] eqn:Eo; [|discriminate]. injection Hs as <- <-.
        apply andb_true_iff in Hok. destruct Hok as [Hl Hok].
        assert (Hlate : late_join H op = false \/ rest = true).
        { apply orb_true_iff in Hl. destruct Hl as [Hl|Hl]; [left; apply negb_true_iff; exact Hl | right; exact Hl]. }
        exists (sim_op (s_menu sc) H op), (rest || is_rebuild op). split; [apply (WI_op sc w H rest op oo); assumption|]. split; [exact Hok|].
        intros c e a h HEI. apply (entry_op sc w H rest op oo); try assumption. reflexivity.
      - destruct (frame sc w f) as [fo|] eqn:Ef; [|discriminate]. injection Hs as <- <-.
        apply andb_true_iff in Hok. destruct Hok as [Hok Hok3]. apply andb_true_iff in Hok. destruct Hok as [Hok1 Hok2].
        assert (Hops : f_ops f = []) by (destruct (f_ops f); [reflexivity | discriminate]).
        apply qleb_iff in Hok2.
        exists H, false. split; [apply (WI_frame sc w H rest f fo); assumption|]. split; [exact Hok3|].
        intros c e a h HEI. apply (entry_frame sc w H rest f fo); try assumption; reflexivity. }
    destruct Hent as (H' & rest' & HW' & Hok' & Hent).
    destruct Hin as [E|[E|Hin]].
    + injection E as <- <-. destruct Hshow as (_ & _ & ->). reflexivity.
    + injection E as <- <-. destruct st as [op|f]; [|reflexivity].
      destruct (step_res_effect sc w (SOp op) w' o Hinv Hs eq_refl) as (isreb & Heff).
      apply (clause4_ok sc before o w w' isreb); assumption.
    + apply in_app_or in Hin. destruct Hin as [Hin|Hin].
      * apply in_concat in Hin. destruct Hin as (l & Hl & Hin). apply in_map_iff in Hl. destruct Hl as (y & <- & Hy).
        apply in_map_iff in Hy. destruct Hy as ([[[c e] a] h] & <- & Hxh).
        apply (proj1 (Hent c e a h (HE _ _ Hxh)) k b Hin).
      * apply (IH w' H' rest' o (map snd (map (upd_entry st before o) (combine ents hist))) HW' (shows_before_ok sc w' o Hshow) Hok') with (k := k); [| |exact Hin].
        -- rewrite !map_length, combine_length, Hlen. apply Nat.min_id.
        -- intros x h' Hx. rewrite map_map, (combine_upd _ ents hist Hlen) in Hx. apply in_map_iff in Hx.
           destruct Hx as ([[[c e] a] h] & E & Hxh). cbn [fst] in E. injection E as <- <-.
           apply (proj2 (Hent c e a h (HE _ _ Hxh))).
Qed.

Definition profile_C10b (sc : scenario) : bool := owner_okb sc && steps_okb (s_menu sc) [] true (s_steps sc).
Definition profile_C10 (sc : scenario) : Prop := profile_C10b sc = true.

Definition out0 : out := mkOut [] [] [] [] [] [] [] true true false.
Lemma out0_before_ok sc : before_ok sc world_init out0.
Proof.
  split; [|split].
  - intros c e. unfold C07c.has_of, holdsb. cbn. rewrite andb_false_r. reflexivity.
  - intros c e. unfold C07c.got_of, gotb. cbn. rewrite andb_false_r. reflexivity.
  - intros c e a d [].
Qed.

Definition clause_list (sc : scenario) : list (Z * bool) :=
  judge_steps sc (all_entries sc) (map (fun _ => None) (all_entries sc)) out0 (s_steps sc) (run sc).

Theorem C10_app_clauses_sound : forall sc k b, profile_C10 sc -> In (k, b) (clause_list sc) -> b = true.
Proof.
  intros sc k b Hp Hin. unfold profile_C10, profile_C10b in Hp. apply andb_true_iff in Hp. destruct Hp as [Ho Hs].
  unfold clause_list, run in Hin.
  apply (steps_sound sc (all_entries sc) Ho (s_steps sc) world_init [] true out0 (map (fun _ => None) (all_entries sc)) (WI_init sc) (out0_before_ok sc) Hs) with (k := k); [| |exact Hin].
  - apply map_length.
  - intros [[c e] a] h Hx. apply in_combine_r in Hx. apply in_map_iff in Hx. destruct Hx as (? & <- & _).
    unfold EIx, EI. cbn [fst snd]. rewrite snap_entry. destruct (listedb sc c e a); reflexivity.
Qed.

Theorem C10_app_judgement_sound : forall sc, profile_C10 sc -> C10a.ok (sc, trace (run sc)) = 0%Z.
Proof.
  intros sc Hp. unfold C10a.ok. apply first_fail_all_true. intros k b Hin. exact (C10_app_clauses_sound sc k b Hp Hin).
Qed.

(* ================================================================================================ *)
(* 8. the profile is satisfiable; every component of it is needed                                   *)
(* ================================================================================================ *)
(* profile_C10b sc =
     owner_okb sc                       an action id is bound by the configurations of ONE context type only (events carry no
                                        context: the stream of (entity, action) would otherwise merge two instances);
     && steps_okb ... (s_steps sc)      along the steps, with the holders followed statically (sim_op):
          - frames issue no operations through Commands (f_ops = []): the snapshot polled after the frame is the one the
            evaluation left;
          - the virtual delta of every frame, vdelta_spec f, is >= 0 (clause 3);
          - an entity joins a shared context that ANOTHER entity holds (late_join) only while every instance is still at
            rest: no frame since the start or since the last ORebuild (clause 31, see C10_clause31_refuted below). *)
Fixpoint steps_okb_gen (chk_ops chk_dt chk_late : bool) (menu : list ctx) (H : hmap) (rest : bool) (steps : list step) : bool :=
  match steps with
  | [] => true
  | SFrame f :: r =>
      (negb chk_ops || match f_ops f with [] => true | _ => false end) && (negb chk_dt || qleb 0 (vdelta_spec f)) &&
      steps_okb_gen chk_ops chk_dt chk_late menu H false r
  | SOp o :: r =>
      (negb chk_late || negb (late_join H o) || rest) && steps_okb_gen chk_ops chk_dt chk_late menu (sim_op menu H o) (rest || is_rebuild o) r
  end.
Lemma steps_okb_gen_all menu steps : forall H rest, steps_okb menu H rest steps = steps_okb_gen true true true menu H rest steps.
Proof. induction steps as [|[o|f] r IH]; intros H rest; cbn [steps_okb steps_okb_gen negb orb]; [reflexivity| |]; rewrite IH; reflexivity. Qed.

Definition fr10 (real speed : Q) (paused : bool) (ops : list op) : step :=
  SFrame (mkFrame real speed paused 0 raw_empty ops).
Definition act10 (a id : Z) (script : list state) : action_spec := mkAction a [] [(id, c_script KExplicit script)] [].
Definition act10b (a id id2 : Z) (script : list state) (bl : list state) : action_spec :=
  mkAction a [] [(id, c_script KExplicit script); (id2, c_script (KBlocker true) bl)] [].

(* a shared context with three holders and two scripted actions (one with an events-only blocker), speed changes, a pause, a real
   delta beyond the clamp, a holder leaving, a rebuild, everybody leaving and somebody coming back *)
Definition ex_spec : inst_spec := mkSpec None
  [act10b 0 1 2 [SNone; SFired; SFired; SOngoing; SFired; SNone; SNone; SFired; SFired; SFired; SOngoing; SFired]
                [SFired; SFired; SNone; SFired; SFired; SNone; SFired; SFired; SFired; SFired; SFired; SFired];
   act10 20 3 [SOngoing; SOngoing; SFired; SFired; SNone; SFired; SFired; SFired; SFired; SNone; SFired; SFired]].
Definition ex_sc : scenario := mkScenario [1] [0; 1; 2] [((1, 0), ex_spec); ((1, 1), ex_spec); ((1, 2), ex_spec)]
  [SOp (OSpawn 0 [1]); SOp (OSpawn 1 [1]); SOp (OSpawn 2 [1]);
   fr10 (1#64) 1 false []; fr10 (3#8) 2 false []; fr10 (1#8) (1#2) false []; SOp (ODespawn 1);
   fr10 (1#8) 1 true []; fr10 (5#128) 4 false []; SOp ORebuild; fr10 (1#64) 1 false []; fr10 (1#64) 0 false [];
   SOp (ORemove 0 1); SOp (ORemove 2 1); SOp (OInsert 2 1); fr10 (1#64) 1 false []; fr10 (1#32) 1 false []; fr10 (1#32) 1 false []].

Example C10_app_judgement_sound_satisfiable :
  profile_C10 ex_sc /\ C10a.ok (ex_sc, trace (run ex_sc)) = 0 /\
  (* entity 0, action 0, frames 3 to 6: None, Fired, Fired (1/2 s later), Ongoing (paused), then Fired with fired reset *)
  map (fun o => match snap_of_entry 1 0 0 (x_snaps o) with Some d => Some (sn_state d, sn_elapsed d, sn_fired d) | None => None end)
      (firstn 6 (skipn 3 (run ex_sc))) =
    [Some (SNone, 0, 0); Some (SFired, 0, 0); Some (SFired, 1 # 16, 1 # 16); Some (SFired, 1 # 16, 1 # 16);
     Some (SOngoing, 1 # 16, 1 # 16); Some (SFired, 7 # 32, 0)]%Q /\
  map (fun o => length (x_main o)) (run ex_sc) = [0; 0; 0; 6; 9; 3; 2; 4; 4; 2; 4; 6; 2; 2; 0; 2; 3; 1]%nat.
Proof. vm_compute. repeat split. Qed.

(* entity 0 holds two context types that both bind action 0: the events of the second instance carry other durations *)
Definition sc_owner : scenario := mkScenario [0; 2] [0]
  [((0, 0), mkSpec None [act10 0 1 [SFired; SFired; SFired]]); ((2, 0), mkSpec None [act10 0 2 [SNone; SFired; SFired]])]
  [SOp (OSpawn 0 [0; 2]); fr10 (1#64) 1 false []; fr10 (1#64) 1 false []; fr10 (1#64) 1 false []].
Example C10_app_judgement_sound_needs_owner :
  owner_okb sc_owner = false /\ steps_okb (s_menu sc_owner) [] true (s_steps sc_owner) = true /\
  C10a.ok (sc_owner, trace (run sc_owner)) = 4.
Proof. vm_compute. repeat split. Qed.

(* a rebuild issued from inside a frame: the polled durations are those of the new instance *)
Definition sc_fops : scenario := mkScenario [0] [0] [((0, 0), mkSpec None [act10 0 1 [SFired; SFired; SFired]])]
  [SOp (OSpawn 0 [0]); fr10 (1#64) 1 false []; fr10 (1#64) 1 false [ORebuild]; fr10 (1#64) 1 false []].
Example C10_app_judgement_sound_needs_no_frame_ops :
  owner_okb sc_fops = true /\ steps_okb_gen false true true (s_menu sc_fops) [] true (s_steps sc_fops) = true /\
  profile_C10b sc_fops = false /\ C10a.ok (sc_fops, trace (run sc_fops)) = 1.
Proof. vm_compute. repeat split. Qed.

(* a negative relative speed makes the virtual delta negative *)
Definition sc_neg : scenario := mkScenario [0] [0] [((0, 0), mkSpec None [act10 0 1 [SFired; SFired; SFired]])]
  [SOp (OSpawn 0 [0]); fr10 (1#64) 1 false []; fr10 (1#64) (-1) false []; fr10 (1#64) 1 false []].
Example C10_app_judgement_sound_needs_nonneg_delta :
  owner_okb sc_neg = true /\ steps_okb_gen true false true (s_menu sc_neg) [] true (s_steps sc_neg) = true /\
  profile_C10b sc_neg = false /\ C10a.ok (sc_neg, trace (run sc_neg)) = 3.
Proof. vm_compute. repeat split. Qed.

(* FINDING (outside the generator's profile): the judgement rejects the model's own run.  Entity 1 joins a shared context
   whose instance is in mid-episode (entity 0 holds it); clause 31 accepts that only while "others" hold the context according
   to the mirror polled BEFORE the step - but the judgement asks again at every later operation while the history of the
   entry is still unknown, also after the others have left. *)
Definition sp_late : inst_spec := mkSpec None [act10 0 1 [SFired; SFired; SFired; SFired; SFired]].
Definition sc_late : scenario := mkScenario [1] [0; 1; 2] [((1, 0), sp_late); ((1, 1), sp_late)]
  [SOp (OSpawn 0 [1]); fr10 (1#64) 1 false []; fr10 (1#64) 1 false []; SOp (OSpawn 1 [1]); SOp (ODespawn 0); SOp (OSpawn 2 [])].
Example C10_clause31_refuted : C10a.ok (sc_late, trace (run sc_late)) = 31.
Proof. vm_compute. reflexivity. Qed.
Example C10_app_judgement_sound_needs_rest_at_late_join :
  owner_okb sc_late = true /\ steps_okb_gen true true false (s_menu sc_late) [] true (s_steps sc_late) = true /\
  profile_C10b sc_late = false /\ C10a.ok (sc_late, trace (run sc_late)) <> 0.
Proof. vm_compute. repeat split. discriminate. Qed.

(* ================================================================================================ *)
(* 9. (T): the judgement respects agree_full                                                        *)
(* ================================================================================================ *)
Import JudgeDataP.
Open Scope Z_scope.

Lemma snap_eq_sym a b : snap_eq a b -> snap_eq b a.
Proof. unfold snap_eq. intros (H1 & H2 & H3 & H4 & H5). repeat split; try congruence; try (symmetry; assumption). apply veq_sym. exact H3. Qed.
Lemma snap_eq_trans a b c : snap_eq a b -> snap_eq b c -> snap_eq a c.
Proof.
  unfold snap_eq. intros (H1 & H2 & H3 & H4 & H5) (G1 & G2 & G3 & G4 & G5).
  repeat split; try congruence; [eapply veq_trans; eassumption | rewrite H4; exact G4 | rewrite H5; exact G5].
Qed.
Definition osnap_eq (a b : option snap) : Prop :=
  match a, b with Some x, Some y => snap_eq x y | None, None => True | _, _ => False end.

Lemma snap_of_entry_rel10 c e a : forall l l', list_eqb snap_entry_eqb l l' = true ->
  osnap_eq (snap_of_entry c e a l) (snap_of_entry c e a l').
Proof.
  unfold snap_of_entry. induction l as [|x l IH]; intros [|y l'] H; cbn [list_eqb] in H; try discriminate; [exact I|].
  apply andb_true_iff in H. destruct H as [Hxy H]. specialize (IH l' H).
  destruct x as [c1 e1 a1 s1], y as [c2 e2 a2 s2]. cbn [snap_entry_eqb] in Hxy.
  apply andb_true_iff in Hxy. destruct Hxy as [Hxy E4]. apply andb_true_iff in Hxy. destruct Hxy as [Hxy E3].
  apply andb_true_iff in Hxy. destruct Hxy as [E1 E2].
  apply Z.eqb_eq in E1. apply Z.eqb_eq in E2. apply Z.eqb_eq in E3. subst c2 e2 a2. cbn [find].
  destruct (Z.eqb c c1 && Z.eqb e e1 && Z.eqb a a1); [|exact IH].
  destruct s1 as [d1|], s2 as [d2|]; cbn [osnap_eqb] in E4; try discriminate; [|exact I].
  cbn [osnap_eq]. apply snap_eqb_iff. exact E4.
Qed.

Lemma qeqb_cong x x' y : (x == x')%Q -> qeqb x y = qeqb x' y.
Proof. intros H. apply bool_eq_iff. rewrite !qeqb_iff. rewrite H. tauto. Qed.
Lemma qleb_cong_l x x' y : (x == x')%Q -> qleb x y = qleb x' y.
Proof. intros H. apply bool_eq_iff. rewrite !qleb_iff. rewrite H. tauto. Qed.
Lemma qleb_cong_r x y y' : (y == y')%Q -> qleb x y = qleb x y'.
Proof. intros H. apply bool_eq_iff. rewrite !qleb_iff. rewrite H. tauto. Qed.
Lemma oq_eqb_cong a a' b b' : oq_eq a a' -> oq_eq b b' -> oq_eqb a b = oq_eqb a' b'.
Proof.
  intros Ha Hb. apply bool_eq_iff. rewrite !oq_eqb_iff. split; intros H.
  - eapply oq_eq_trans; [apply oq_eq_sym; exact Ha|]. eapply oq_eq_trans; [exact H | exact Hb].
  - eapply oq_eq_trans; [exact Ha|]. eapply oq_eq_trans; [exact H | apply oq_eq_sym; exact Hb].
Qed.
Lemma snap_eqb_cong a a' b b' : snap_eq a a' -> snap_eq b b' -> snap_eqb a b = snap_eqb a' b'.
Proof.
  intros Ha Hb. apply bool_eq_iff. rewrite !snap_eqb_iff. split; intros H.
  - eapply snap_eq_trans; [apply snap_eq_sym; exact Ha|]. eapply snap_eq_trans; [exact H | exact Hb].
  - eapply snap_eq_trans; [exact Ha|]. eapply snap_eq_trans; [exact H | apply snap_eq_sym; exact Hb].
Qed.

Definition payload_ok (s : snap) (ev : event) : bool :=
  oq_eqb (e_elapsed ev) (if carries_elapsed (e_kind ev) then Some (sn_elapsed s) else None) &&
  oq_eqb (e_fired ev) (if carries_fired (e_kind ev) then Some (sn_fired s) else None).
Lemma payload_rel e a s s' l l' : Forall2 event_eq l l' -> snap_eq s s' ->
  forallb (payload_ok s) (events_for e a l) = forallb (payload_ok s') (events_for e a l').
Proof.
  intros HF (_ & _ & _ & S4 & S5). unfold events_for. induction HF as [|x y l l' Hxy HF IH]; [reflexivity|]. cbn [filter].
  destruct Hxy as (H1 & H2 & H3 & _ & _ & H6 & H7). rewrite H1, H2.
  destruct (Z.eqb (e_target y) e && Z.eqb (e_action y) a); [|exact IH]. cbn [forallb]. rewrite IH. f_equal.
  unfold payload_ok. rewrite H3. f_equal.
  - apply oq_eqb_cong; [exact H6|]. destruct (carries_elapsed (e_kind y)); [exact S4 | exact I].
  - apply oq_eqb_cong; [exact H7|]. destruct (carries_fired (e_kind y)); [exact S5 | exact I].
Qed.

Lemma upd_entry_rel st before before' o o' xh :
  x_mirror before = x_mirror before' -> list_eqb snap_entry_eqb (x_snaps o) (x_snaps o') = true ->
  (is_frame st = true -> list_eqb event_eqb (x_main o) (x_main o') = true) ->
  upd_entry st before o xh = upd_entry st before' o' xh.
Proof.
  intros Hm Hs He. destruct xh as [[[c e] a] h]. unfold upd_entry. rewrite <- Hm.
  pose proof (snap_of_entry_rel10 c e a _ _ Hs) as R.
  destruct (snap_of_entry c e a (x_snaps o)) as [s|], (snap_of_entry c e a (x_snaps o')) as [s'|]; cbn [osnap_eq] in R; try contradiction; [|reflexivity].
  pose proof R as (S1 & _ & _ & S4 & S5).
  assert (Hrest : forall (X : hist_t), (if state_eqb (sn_state s) SNone && qeqb (sn_elapsed s) 0 then Some (SNone, []) else X) =
                                       (if state_eqb (sn_state s') SNone && qeqb (sn_elapsed s') 0 then Some (SNone, []) else X)).
  { intros X. rewrite S1, (qeqb_cong _ _ _ S4). reflexivity. }
  assert (H31 : forall (others : bool), (state_eqb (sn_state s) SNone && qeqb (sn_elapsed s) 0 && qeqb (sn_fired s) 0 || (ctx_shared c && others)) =
                                        (state_eqb (sn_state s') SNone && qeqb (sn_elapsed s') 0 && qeqb (sn_fired s') 0 || (ctx_shared c && others))).
  { intros X. rewrite S1, (qeqb_cong _ _ _ S4), (qeqb_cong _ _ _ S5). reflexivity. }
  destruct st as [op|f].
  - destruct h as [hh|]; rewrite Hrest; [reflexivity|]. rewrite H31. reflexivity.
  - destruct h as [[ls rp]|]; [|rewrite Hrest; reflexivity].
    specialize (He eq_refl). apply events_eqb_iff in He.
    change (forallb (fun ev => oq_eqb (e_elapsed ev) (if carries_elapsed (e_kind ev) then Some (sn_elapsed s) else None) &&
                               oq_eqb (e_fired ev) (if carries_fired (e_kind ev) then Some (sn_fired s) else None)) (events_for e a (x_main o)))
      with (forallb (payload_ok s) (events_for e a (x_main o))).
    change (forallb (fun ev => oq_eqb (e_elapsed ev) (if carries_elapsed (e_kind ev) then Some (sn_elapsed s') else None) &&
                               oq_eqb (e_fired ev) (if carries_fired (e_kind ev) then Some (sn_fired s') else None)) (events_for e a (x_main o')))
      with (forallb (payload_ok s') (events_for e a (x_main o'))).
    rewrite (payload_rel e a s s' _ _ He R), S1, (qeqb_cong _ _ _ S4), (qeqb_cong _ _ _ S5), (qleb_cong_r _ _ _ S5),
      (qleb_cong_l _ _ _ S5), (qleb_cong_r _ _ _ S4). reflexivity.
Qed.

Lemma touched_by_rel c e o o' : (forall p, In p (x_built o) <-> In p (x_built o')) -> touched_by c e o = touched_by c e o'.
Proof.
  intros Hb. unfold touched_by. destruct (ctx_shared c); apply bool_eq_iff; rewrite !existsb_exists;
    split; intros (p & Hin & Hp); exists p; (split; [apply Hb; exact Hin | exact Hp]).
Qed.
Lemma olo_rel before before' o o' :
  list_eqb snap_entry_eqb (x_snaps before) (x_snaps before') = true ->
  list_eqb snap_entry_eqb (x_snaps o) (x_snaps o') = true ->
  (forall p, In p (x_built o) <-> In p (x_built o')) ->
  ops_leave_others before o = ops_leave_others before' o'.
Proof.
  intros Hb Hs Hbl. unfold ops_leave_others. revert Hb. generalize (x_snaps before) (x_snaps before').
  induction l as [|x l IH]; intros [|y l'] H; cbn [list_eqb] in H; try discriminate; [reflexivity|].
  apply andb_true_iff in H. destruct H as [Hxy H]. cbn [forallb]. rewrite (IH l' H). f_equal.
  destruct x as [c1 e1 a1 s1], y as [c2 e2 a2 s2]. cbn [snap_entry_eqb] in Hxy.
  apply andb_true_iff in Hxy. destruct Hxy as [Hxy E4]. apply andb_true_iff in Hxy. destruct Hxy as [Hxy E3].
  apply andb_true_iff in Hxy. destruct Hxy as [E1 E2].
  apply Z.eqb_eq in E1. apply Z.eqb_eq in E2. apply Z.eqb_eq in E3. subst c2 e2 a2.
  destruct s1 as [d1|], s2 as [d2|]; cbn [osnap_eqb] in E4; try discriminate; [|reflexivity].
  apply snap_eqb_iff in E4. rewrite (touched_by_rel c1 e1 o o' Hbl). f_equal.
  pose proof (snap_of_entry_rel10 c1 e1 a1 _ _ Hs) as R.
  destruct (snap_of_entry c1 e1 a1 (x_snaps o)) as [s|], (snap_of_entry c1 e1 a1 (x_snaps o')) as [s'|]; cbn [osnap_eq] in R; try contradiction; [|reflexivity].
  apply snap_eqb_cong; assumption.
Qed.

Lemma judge_steps_rel10 sc ents key : forall steps a b hist before before' i,
  0 <= i -> outs_diff key i steps a b = 0 ->
  x_mirror before = x_mirror before' -> list_eqb snap_entry_eqb (x_snaps before) (x_snaps before') = true ->
  judge_steps sc ents hist before steps a = judge_steps sc ents hist before' steps b.
Proof.
  induction steps as [|st steps IH]; intros a b hist before before' i Hi H Hm Hsn.
  - destruct a as [|x r].
    + rewrite (outs_diff_nil_l key i [] b Hi H). reflexivity.
    + destruct b as [|y s]; [discriminate (outs_diff_nil_r key i [] _ Hi H)|]. reflexivity.
  - destruct a as [|x r].
    + rewrite (outs_diff_nil_l key i _ b Hi H). reflexivity.
    + destruct b as [|y s]; [discriminate (outs_diff_nil_r key i _ _ Hi H)|].
      destruct (outs_diff_cons key i (st :: steps) x r y s Hi H) as [E H']. cbn [tl] in H'.
      destruct (out_diff_fields _ _ _ _ E) as (Hmain & _ & Hsnap & Hpan).
      destruct (JudgeC12P.out_diff_agree _ _ _ _ E) as (_ & Hmir & _ & Hbl).
      rewrite !judge_steps_cons.
      assert (Hupd : map (upd_entry st before x) (combine ents hist) = map (upd_entry st before' y) (combine ents hist)).
      { apply map_ext. intros xh. apply upd_entry_rel; assumption. }
      rewrite Hupd, Hpan. f_equal. f_equal; [|f_equal].
      * destruct st as [op|f]; [|reflexivity]. f_equal. apply olo_rel; assumption.
      * apply (IH r s _ x y (i + 1)); [lia | exact H' | exact Hmir | exact Hsnap].
Qed.

(* whatever the judgement says about the model's run, it says about every trace that agrees with it *)
Theorem C10_app_judgement_respects_agree : forall sc t, agree_full (sc, t) = true -> C10a.ok (sc, t) = C10a.ok (sc, trace (run sc)).
Proof.
  intros sc t H. unfold agree_full in H. cbn [fst snd] in H. apply Z.eqb_eq in H.
  destruct t as [outs|]; [|discriminate H]. cbn [trace_diff] in H. unfold C10a.ok. f_equal. symmetry.
  apply (judge_steps_rel10 sc (all_entries sc) (ctx_key sc) (s_steps sc) (run sc) outs _ _ _ 0 (Z.le_refl 0) H); reflexivity.
Qed.

Theorem C10_app_judgement_transfer : forall sc t, profile_C10 sc -> agree_full (sc, t) = true -> C10a.ok (sc, t) = 0%Z.
Proof. intros sc t Hp Ha. rewrite (C10_app_judgement_respects_agree sc t Ha). apply C10_app_judgement_sound. exact Hp. Qed.

(* (T) on a trace that agrees with the model's run without being equal to it: the durations of the snapshots and of the event
   payloads written as unreduced fractions, the built instances reported in the opposite order *)
Definition unred_snap (s : snap) : snap :=
  mkSnap (sn_state s) (sn_events s) (sn_value s) (unreduce_q (sn_elapsed s)) (unreduce_q (sn_fired s)).
Definition unred_ev (ev : event) : event :=
  mkEv (e_target ev) (e_action ev) (e_kind ev) (e_value ev) (e_state ev) (option_map unreduce_q (e_elapsed ev)) (option_map unreduce_q (e_fired ev)).
Definition unred_out (o : out) : out :=
  mkOut (x_pre o) (map unred_ev (x_main o)) (map unred_ev (x_post o)) (x_log o)
        (map (fun x => match x with sn c e a s => sn c e a (option_map unred_snap s) end) (x_snaps o)) (x_mirror o) (rev (x_built o))
        (x_probe o) (x_update o) (x_panicked o).
Example C10_app_judgement_transfer_satisfiable :
  let t := trace (map unred_out (run ex_sc)) in
  profile_C10 ex_sc /\ agree_full (ex_sc, t) = true /\ t <> trace (run ex_sc) /\ C10a.ok (ex_sc, t) = 0.
Proof. vm_compute. repeat split. discriminate. Qed.

Print Assumptions C10_app_clauses_sound.
Print Assumptions C10_app_judgement_sound.
Print Assumptions C10_app_judgement_respects_agree.
Print Assumptions C10_app_judgement_transfer.
