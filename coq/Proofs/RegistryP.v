(* The context registry (Model/Registry.v) inside the world (Model/Frame.v):
   binary search, the registry invariant over all operation histories, evaluation order (C06),
   the mirror between registry and components (C07). *)
From Coq Require Import Sorting.Sorted Sorting.Permutation.
From BEI Require Import Model.Frame Spec.Events Proofs.StateP Proofs.ActionP Proofs.EpisodeP.
Open Scope Z_scope.

(* ================================================================================================ *)
(* 1. lists: insert_at / update_at / remove_at / swap_remove / position                             *)
(* ================================================================================================ *)
Section ListLemmas.
  Context {A : Type}.
  Implicit Types (l : list A) (x : A) (n : nat).

  Lemma insert_at_firstn_skipn n x l : insert_at n x l = firstn n l ++ x :: skipn n l.
  Proof.
    revert l. induction n as [|n IH]; intros [|y l]; cbn; try reflexivity.
    f_equal. apply IH.
  Qed.

  Lemma update_at_app n (f : A -> A) l1 x l2 :
    length l1 = n -> update_at n f (l1 ++ x :: l2) = l1 ++ f x :: l2.
  Proof. intros <-. induction l1 as [|y l1 IH]; cbn; [reflexivity | f_equal; exact IH]. Qed.

  Lemma remove_at_app n l1 x l2 : length l1 = n -> remove_at n (l1 ++ x :: l2) = l1 ++ l2.
  Proof. intros <-. induction l1 as [|y l1 IH]; cbn; [reflexivity | f_equal; exact IH]. Qed.

  Lemma nth_error_mid l1 x l2 : nth_error (l1 ++ x :: l2) (length l1) = Some x.
  Proof. induction l1 as [|y l1 IH]; cbn; [reflexivity | exact IH]. Qed.

  Lemma Forall2_same (R : A -> A -> Prop) l : (forall x, R x x) -> Forall2 R l l.
  Proof. intros HR. induction l; constructor; auto. Qed.

  Lemma NoDup_middle l1 x l2 : NoDup (l1 ++ x :: l2) <-> ~ In x (l1 ++ l2) /\ NoDup (l1 ++ l2).
  Proof.
    split.
    - intros H. apply NoDup_remove in H. tauto.
    - intros [Hn Hd]. apply (Permutation_NoDup (Permutation_middle l1 l2 x)). constructor; assumption.
  Qed.

  Lemma NoDup_snoc l x : NoDup l -> ~ In x l -> NoDup (l ++ [x]).
  Proof. intros Hd Hn. apply NoDup_middle. rewrite app_nil_r. split; assumption. Qed.

  (* Vec::swap_remove removes exactly the element at the index (the order of the rest changes) *)
  Lemma swap_remove_perm n l x : nth_error l n = Some x -> Permutation (x :: swap_remove n l) l.
  Proof.
    intros H. unfold swap_remove. rewrite H.
    destruct (nth_error_split l n H) as (l1 & l2 & -> & Hn).
    destruct l2 as [|y l2].
    - assert (Hr : rev (l1 ++ [x]) = x :: rev l1) by (rewrite rev_app_distr; reflexivity).
      rewrite Hr. rewrite app_length. cbn [length].
      replace (Nat.eqb (S n) (length l1 + 1)) with true by (symmetry; apply Nat.eqb_eq; lia).
      rewrite removelast_last. apply Permutation_cons_append.
    - destruct (@exists_last A (y :: l2)) as (l2' & z & E); [discriminate|]. rewrite E.
      assert (Hr : rev (l1 ++ x :: l2' ++ [z]) = z :: rev (l1 ++ x :: l2'))
        by (rewrite app_comm_cons, app_assoc, rev_app_distr; reflexivity).
      rewrite Hr. rewrite !app_length. cbn [length]. rewrite app_length. cbn [length].
      replace (Nat.eqb (S n) (length l1 + S (length l2' + 1))) with false by (symmetry; apply Nat.eqb_neq; lia).
      rewrite update_at_app by exact Hn.
      rewrite (app_comm_cons l2' [z] z), app_assoc, removelast_last.
      etransitivity; [|apply Permutation_middle].
      constructor. apply Permutation_app_head. apply Permutation_cons_append.
  Qed.

  Lemma swap_remove_nil n l x : nth_error l n = Some x -> swap_remove n l = [] -> l = [x].
  Proof.
    intros H E. pose proof (swap_remove_perm n l x H) as P. rewrite E in P.
    apply Permutation_length_1_inv in P. exact P.
  Qed.

  Lemma position_some (f : A -> bool) l k :
    position f l = Some k -> exists x, nth_error l k = Some x /\ f x = true.
  Proof.
    revert k. induction l as [|y l IH]; intros k; cbn; [discriminate|].
    destruct (f y) eqn:E.
    - intros [= <-]. exists y. split; [reflexivity | exact E].
    - destruct (position f l) as [k'|]; cbn; [|discriminate]. intros [= <-].
      destruct (IH k' eq_refl) as (x & Hx & Hf). exists x. split; assumption.
  Qed.

  Lemma position_found (f : A -> bool) l x : In x l -> f x = true -> exists k, position f l = Some k.
  Proof.
    induction l as [|y l IH]; intros Hin Hf; [destruct Hin|]. cbn.
    destruct (f y) eqn:E; [eexists; reflexivity|].
    destruct Hin as [->|Hin]; [congruence|].
    destruct (IH Hin Hf) as (k & ->). eexists; reflexivity.
  Qed.

  Lemma Forall_firstn_nth (P : A -> Prop) n l :
    (forall i x, (i < n)%nat -> nth_error l i = Some x -> P x) -> Forall P (firstn n l).
  Proof.
    revert l. induction n as [|n IH]; intros l H; cbn; [constructor|].
    destruct l as [|y l]; constructor.
    - apply (H O); [lia | reflexivity].
    - apply IH. intros i x Hi Hx. apply (H (S i)); [lia | exact Hx].
  Qed.

  Lemma Forall_skipn_nth (P : A -> Prop) n l :
    (forall i x, (n <= i)%nat -> nth_error l i = Some x -> P x) -> Forall P (skipn n l).
  Proof.
    revert l. induction n as [|n IH]; intros l H; cbn.
    - apply Forall_forall. intros x Hx. destruct (In_nth_error l x Hx) as (i & Hi). apply (H i); [lia | exact Hi].
    - destruct l as [|y l]; [constructor|]. apply IH. intros i x Hi Hx. apply (H (S i)); [lia | exact Hx].
  Qed.

  (* removing one element of a duplicate-free list *)
  Lemma perm_remove_in x l' l :
    Permutation (x :: l') l -> NoDup l -> NoDup l' /\ forall y, In y l' <-> In y l /\ y <> x.
  Proof.
    intros P Hd. assert (Hd' : NoDup (x :: l')) by (apply (Permutation_NoDup (Permutation_sym P)); exact Hd).
    inversion Hd' as [|? ? Hn Hd'']; subst. split; [exact Hd''|].
    intros y. split.
    - intros Hy. split; [apply (Permutation_in _ P); right; exact Hy | intros ->; contradiction].
    - intros [Hy Hne]. apply (Permutation_in _ (Permutation_sym P)) in Hy. destruct Hy as [->|Hy]; [congruence | exact Hy].
  Qed.
End ListLemmas.

(* ================================================================================================ *)
(* 2. descending order                                                                              *)
(* ================================================================================================ *)
Definition desc (l : list Z) : Prop := StronglySorted Z.ge l.
(* the registry is sorted by descending priority *)
Definition sorted_desc (r : registry) : Prop := desc (map g_prio r).

Lemma desc_app l1 l2 : desc (l1 ++ l2) <-> desc l1 /\ desc l2 /\ (forall a b, In a l1 -> In b l2 -> a >= b).
Proof.
  unfold desc. induction l1 as [|x l1 IH]; cbn [app].
  - split.
    + intros H. split; [constructor|]. split; [exact H|]. intros a b [].
    + intros (_ & H & _). exact H.
  - split.
    + intros H. inversion H as [|? ? Hs Hf]; subst. apply IH in Hs. destruct Hs as (H1 & H2 & H3).
      rewrite Forall_app in Hf. destruct Hf as [Hf1 Hf2]. rewrite Forall_forall in Hf2.
      split; [constructor; assumption|]. split; [assumption|].
      intros a b [<-|Ha] Hb; [apply Hf2; exact Hb | apply H3; assumption].
    + intros (H1 & H2 & H3). inversion H1 as [|? ? Hs Hf]; subst. constructor.
      * apply IH. split; [assumption|]. split; [assumption|]. intros a b Ha Hb. apply H3; [right|]; assumption.
      * apply Forall_app. split; [assumption|]. apply Forall_forall. intros b Hb. apply H3; [left; reflexivity | exact Hb].
Qed.

Lemma desc_cons x l : desc (x :: l) <-> desc l /\ (forall b, In b l -> x >= b).
Proof.
  unfold desc. split.
  - intros H. inversion H as [|? ? Hs Hf]; subst. rewrite Forall_forall in Hf. split; assumption.
  - intros [Hs Hf]. constructor; [exact Hs | apply Forall_forall; exact Hf].
Qed.

Lemma desc_nth l : desc l -> forall i j a b, (i <= j)%nat -> nth_error l i = Some a -> nth_error l j = Some b -> a >= b.
Proof.
  induction l as [|x l IH]; intros Hd i j a b Hij Hi Hj.
  - destruct i; discriminate.
  - apply desc_cons in Hd. destruct Hd as [Hs Hf].
    destruct i as [|i], j as [|j]; cbn in Hi, Hj.
    + injection Hi as <-. injection Hj as <-. lia.
    + injection Hi as <-. apply Hf. eapply nth_error_In; exact Hj.
    + lia.
    + apply (IH Hs i j); [lia | assumption | assumption].
Qed.

Lemma sorted_nth r : sorted_desc r -> forall i j g1 g2,
  (i <= j)%nat -> nth_error r i = Some g1 -> nth_error r j = Some g2 -> g_prio g1 >= g_prio g2.
Proof.
  intros Hs i j g1 g2 Hij H1 H2.
  apply (desc_nth _ Hs i j); [exact Hij | apply map_nth_error; exact H1 | apply map_nth_error; exact H2].
Qed.

(* C06: a group with strictly higher priority sits at a strictly smaller index *)
Lemma sorted_higher_first r : sorted_desc r -> forall i j g1 g2,
  nth_error r i = Some g1 -> nth_error r j = Some g2 -> g_prio g1 > g_prio g2 -> (i < j)%nat.
Proof.
  intros Hs i j g1 g2 H1 H2 Hp.
  destruct (Nat.lt_ge_cases i j) as [Hlt|Hge]; [exact Hlt|].
  pose proof (sorted_nth r Hs j i g2 g1 Hge H2 H1). lia.
Qed.

(* ================================================================================================ *)
(* 3. slice::binary_search_by                                                                       *)
(* ================================================================================================ *)
Lemma div2_bounds n : (2 <= n)%nat -> (1 <= Nat.div2 n /\ 2 * Nat.div2 n <= n <= 2 * Nat.div2 n + 1)%nat.
Proof.
  intros Hn. pose proof (Nat.div2_odd n) as H. destruct (Nat.odd n); cbn [Nat.b2n] in H; lia.
Qed.

Lemma bsearch_loop_inv p r : sorted_desc r -> forall fuel base size,
  (1 <= size <= fuel)%nat -> (base + size <= length r)%nat ->
  (forall i g, (i < base)%nat -> nth_error r i = Some g -> g_prio g >= p) ->
  (forall i g, (base + size <= i)%nat -> nth_error r i = Some g -> g_prio g < p) ->
  let b := bsearch_loop fuel p r base size in
  (b < length r)%nat /\
  (forall i g, (i < b)%nat -> nth_error r i = Some g -> g_prio g >= p) /\
  (forall i g, (b < i)%nat -> nth_error r i = Some g -> g_prio g < p).
Proof.
  intros Hs. induction fuel as [|fuel IH]; intros base size Hsz Hlen Hlo Hhi; [lia|].
  cbn [bsearch_loop]. destruct (Nat.leb size 1) eqn:El.
  - apply Nat.leb_le in El. assert (size = 1%nat) by lia. subst size.
    split; [lia|]. split; [exact Hlo|]. intros i g Hi. apply Hhi. lia.
  - apply Nat.leb_gt in El. cbv zeta.
    destruct (div2_bounds size) as (Hh1 & Hh2 & Hh3); [lia|].
    set (h := Nat.div2 size) in *.
    destruct (nth_error r (base + h)) as [gm|] eqn:Em;
      [|apply nth_error_None in Em; lia].
    unfold rev_cmp. destruct (Z.compare p (g_prio gm)) eqn:Ec.
    + apply Z.compare_eq_iff in Ec.
      apply IH; [lia | lia | | intros i g Hi; apply Hhi; lia].
      intros i g Hi Hg. pose proof (sorted_nth r Hs i (base + h)%nat g gm ltac:(lia) Hg Em). lia.
    + change (p < g_prio gm) in Ec.
      apply (IH (base + h)%nat (size - h)%nat); [lia | lia | | intros i g Hi; apply Hhi; lia].
      intros i g Hi Hg. pose proof (sorted_nth r Hs i (base + h)%nat g gm ltac:(lia) Hg Em). lia.
    + change (p > g_prio gm) in Ec.
      apply (IH base (size - h)%nat); [lia | lia | exact Hlo |].
      intros i g Hi Hg. pose proof (sorted_nth r Hs (base + h)%nat i gm g ltac:(lia) Em Hg). lia.
Qed.

(* the insertion point: everything before it has priority >= p, everything from it on <= p *)
Lemma bsearch_spec p r : sorted_desc r ->
  let n := bsearch p r in
  (n <= length r)%nat /\
  Forall (fun g => g_prio g >= p) (firstn n r) /\
  Forall (fun g => g_prio g <= p) (skipn n r).
Proof.
  intros Hs. unfold bsearch. destruct r as [|g0 r0]; [cbn; repeat split; constructor|].
  set (r := g0 :: r0) in *.
  destruct (bsearch_loop_inv p r Hs (length r) O (length r)) as (Hb & Hlo & Hhi);
    [cbn; lia | lia | intros i g Hi; lia | intros i g Hi Hg; assert (nth_error r i = None) by (apply nth_error_None; lia); congruence|].
  cbv zeta. set (b := bsearch_loop (length r) p r O (length r)) in *.
  destruct (nth_error r b) as [gb|] eqn:Eb; [|apply nth_error_None in Eb; lia].
  unfold rev_cmp. destruct (Z.compare p (g_prio gb)) eqn:Ec.
  - apply Z.compare_eq_iff in Ec. split; [lia|]. split.
    + apply Forall_firstn_nth. exact Hlo.
    + apply Forall_skipn_nth. intros i g Hi Hg. destruct (Nat.eq_dec i b) as [->|Hne].
      * assert (g = gb) by congruence. subst. lia.
      * pose proof (Hhi i g ltac:(lia) Hg). lia.
  - change (p < g_prio gb) in Ec. split; [lia|]. split.
    + apply Forall_firstn_nth. intros i g Hi Hg. destruct (Nat.eq_dec i b) as [->|Hne].
      * assert (g = gb) by congruence. subst. lia.
      * apply (Hlo i g); [lia | exact Hg].
    + apply Forall_skipn_nth. intros i g Hi Hg. pose proof (Hhi i g ltac:(lia) Hg). lia.
  - change (p > g_prio gb) in Ec. split; [lia|]. split.
    + apply Forall_firstn_nth. exact Hlo.
    + apply Forall_skipn_nth. intros i g Hi Hg. destruct (Nat.eq_dec i b) as [->|Hne].
      * assert (g = gb) by congruence. subst. lia.
      * pose proof (Hhi i g ltac:(lia) Hg). lia.
Qed.

(* inserting at the binary-search position keeps the registry sorted *)
Lemma insert_sorted p g r : sorted_desc r -> g_prio g = p -> sorted_desc (insert_at (bsearch p r) g r).
Proof.
  intros Hs Hp. destruct (bsearch_spec p r Hs) as (Hn & Hlo & Hhi).
  set (n := bsearch p r) in *. rewrite insert_at_firstn_skipn.
  unfold sorted_desc in *. rewrite <- (firstn_skipn n r) in Hs. rewrite map_app in Hs.
  apply desc_app in Hs. destruct Hs as (H1 & H2 & H3).
  rewrite map_app. cbn [map]. apply desc_app. split; [exact H1|]. split.
  - apply desc_cons. split; [exact H2|]. intros b Hb. apply in_map_iff in Hb. destruct Hb as (gb & <- & Hgb).
    rewrite Forall_forall in Hhi. specialize (Hhi gb Hgb). cbv beta in Hhi. lia.
  - intros a b Ha [<-|Hb].
    + apply in_map_iff in Ha. destruct Ha as (ga & <- & Hga).
      rewrite Forall_forall in Hlo. specialize (Hlo ga Hga). cbv beta in Hlo. lia.
    + apply H3; assumption.
Qed.

(* ================================================================================================ *)
(* 4. groups and the registry-side invariant                                                        *)
(* ================================================================================================ *)
Definition g_ents (g : group) : list entity :=
  match g with GExcl _ _ insts => map fst insts | GShared _ _ ents _ => ents end.
Definition g_insts (g : group) : list inst :=
  match g with GExcl _ _ insts => map snd insts | GShared _ _ _ i => [i] end.
Definition g_shared (g : group) : bool :=
  match g with GExcl _ _ _ => false | GShared _ _ _ _ => true end.

(* every binding of an instance has its ActionData (ContextInstance::bind stores one per action) *)
Definition inst_wf (i : inst) : Prop := forall b, In b (in_binds i) -> lookup (ab_id b) (in_actions i) <> None.
Definition ginsts_wf (g : group) : Prop := Forall inst_wf (g_insts g).

Definition group_ok (g : group) : Prop :=
  g_prio g = ctx_prio (g_ctx g) /\ g_shared g = ctx_shared (g_ctx g) /\
  g_ents g <> [] /\ NoDup (g_ents g) /\ ginsts_wf g.

Definition reg_wf (r : registry) : Prop :=
  sorted_desc r /\ NoDup (map g_ctx r) /\ Forall group_ok r.

(* entity e is listed in the group of context type c *)
Definition holds_in (c : ctx) (e : entity) (r : registry) : Prop :=
  exists g, In g r /\ g_ctx g = c /\ In e (g_ents g).

Lemma holds_in_nil c e : holds_in c e [] <-> False.
Proof. split; [intros (g & [] & _) | intros []]. Qed.
Lemma holds_in_cons c e g r : holds_in c e (g :: r) <-> (g_ctx g = c /\ In e (g_ents g)) \/ holds_in c e r.
Proof.
  split.
  - intros (g' & [<-|Hin] & Hc & He); [left; split; assumption | right; exists g'; repeat split; assumption].
  - intros [[Hc He]|(g' & Hin & Hc & He)]; [exists g | exists g']; repeat split; try assumption; [left; reflexivity | right; exact Hin].
Qed.
Lemma holds_in_app c e r1 r2 : holds_in c e (r1 ++ r2) <-> holds_in c e r1 \/ holds_in c e r2.
Proof.
  split.
  - intros (g & Hin & Hc & He). apply in_app_or in Hin. destruct Hin as [Hin|Hin]; [left | right]; exists g; repeat split; assumption.
  - intros [(g & Hin & Hc & He)|(g & Hin & Hc & He)]; exists g; (split; [apply in_or_app; tauto | split; assumption]).
Qed.
Lemma holds_in_ctx c e r : holds_in c e r -> In c (map g_ctx r).
Proof. intros (g & Hin & <- & _). apply in_map. exact Hin. Qed.

(* --- index::<C>() --- *)
Lemma index_of_none c r : index_of c r = None <-> ~ In c (map g_ctx r).
Proof.
  induction r as [|g r IH]; cbn; [tauto|].
  destruct (Z.eqb (g_ctx g) c) eqn:E.
  - apply Z.eqb_eq in E. split; [discriminate | intros H; exfalso; apply H; left; exact E].
  - apply Z.eqb_neq in E. destruct (index_of c r); cbn.
    + split; [discriminate|]. intros H. exfalso. destruct IH as [_ IH]. 
      assert (Some n = None); [apply IH; intros Hin; apply H; right; exact Hin | discriminate].
    + split; [|reflexivity]. intros _ [Hc|Hin]; [contradiction|]. destruct IH as [IH _]. exact (IH eq_refl Hin).
Qed.
Lemma index_of_some c r n : index_of c r = Some n ->
  exists l1 g l2, r = l1 ++ g :: l2 /\ length l1 = n /\ g_ctx g = c /\ ~ In c (map g_ctx l1).
Proof.
  revert n. induction r as [|g r IH]; intros n; cbn; [discriminate|].
  destruct (Z.eqb (g_ctx g) c) eqn:E.
  - apply Z.eqb_eq in E. intros [= <-]. exists [], g, r. repeat split; [exact E | intros []].
  - apply Z.eqb_neq in E. destruct (index_of c r) as [k|]; cbn; [|discriminate]. intros [= <-].
    destruct (IH k eq_refl) as (l1 & g' & l2 & -> & Hl & Hc & Hn).
    exists (g :: l1), g', l2. cbn. repeat split; [congruence | exact Hc | intros [H|H]; contradiction].
Qed.
Lemma index_of_found c l1 g l2 : ~ In c (map g_ctx l1) -> g_ctx g = c -> index_of c (l1 ++ g :: l2) = Some (length l1).
Proof.
  intros Hn Hc. induction l1 as [|y l1 IH]; cbn.
  - rewrite Hc, Z.eqb_refl. reflexivity.
  - cbn in Hn. destruct (Z.eqb (g_ctx y) c) eqn:E; [apply Z.eqb_eq in E; tauto|].
    rewrite IH by tauto. reflexivity.
Qed.

(* a duplicate-free registry splits around each of its groups *)
Lemma reg_split r g : NoDup (map g_ctx r) -> In g r ->
  exists l1 l2, r = l1 ++ g :: l2 /\ ~ In (g_ctx g) (map g_ctx l1) /\ ~ In (g_ctx g) (map g_ctx l2).
Proof.
  intros Hd Hin. destruct (in_split g r Hin) as (l1 & l2 & ->). exists l1, l2. split; [reflexivity|].
  rewrite map_app in Hd. cbn [map] in Hd. apply NoDup_middle in Hd. destruct Hd as [Hn _].
  split; intros H; apply Hn; apply in_or_app; tauto.
Qed.

(* --- ContextInstances::get --- *)
Definition group_get (e : entity) (g : group) : option inst :=
  match g with
  | GExcl _ _ insts => option_map snd (find (fun ei => Z.eqb (fst ei) e) insts)
  | GShared _ _ ents i => if existsb (Z.eqb e) ents then Some i else None
  end.
Lemma reg_get_unfold c e r :
  reg_get c e r = match index_of c r with
                  | None => None
                  | Some n => match nth_error r n with Some g => group_get e g | None => None end
                  end.
Proof. unfold reg_get. destruct (index_of c r) as [n|]; [|reflexivity]. destruct (nth_error r n) as [[]|]; reflexivity. Qed.
Lemma reg_get_found c e l1 g l2 : ~ In c (map g_ctx l1) -> g_ctx g = c -> reg_get c e (l1 ++ g :: l2) = group_get e g.
Proof. intros Hn Hc. rewrite reg_get_unfold, (index_of_found c l1 g l2 Hn Hc), nth_error_mid. reflexivity. Qed.
Lemma reg_get_absent c e r : ~ In c (map g_ctx r) -> reg_get c e r = None.
Proof. intros Hn. rewrite reg_get_unfold. apply index_of_none in Hn. rewrite Hn. reflexivity. Qed.

Lemma memz_in x l : memz x l = true <-> In x l.
Proof.
  unfold memz. rewrite existsb_exists. split.
  - intros (y & Hy & E). apply Z.eqb_eq in E. subst. exact Hy.
  - intros H. exists x. split; [exact H | apply Z.eqb_refl].
Qed.
Lemma memz_false x l : memz x l = false <-> ~ In x l.
Proof. rewrite <- memz_in. destruct (memz x l); split; intros; congruence. Qed.

Lemma find_fst_in {B} e (l : list (entity * B)) :
  option_map snd (find (fun ei => Z.eqb (fst ei) e) l) <> None <-> In e (map fst l).
Proof.
  induction l as [|[x b] l IH]; cbn; [tauto|].
  destruct (Z.eqb x e) eqn:E; cbn.
  - apply Z.eqb_eq in E. split; [intros _; left; exact E | discriminate].
  - apply Z.eqb_neq in E. rewrite IH. split; [tauto | intros [H|H]; [contradiction | exact H]].
Qed.
Lemma group_get_in e g : group_get e g <> None <-> In e (g_ents g).
Proof.
  destruct g as [c p insts|c p ents i]; cbn [group_get g_ents].
  - apply find_fst_in.
  - change (existsb (Z.eqb e) ents) with (memz e ents). rewrite <- memz_in.
    destruct (memz e ents); split; intros; congruence.
Qed.

(* looking a pair up succeeds exactly when the entity is listed in the (unique) group of the type *)
Lemma reg_get_iff r : NoDup (map g_ctx r) -> forall c e, reg_get c e r <> None <-> holds_in c e r.
Proof.
  intros Hd c e. split.
  - rewrite reg_get_unfold. destruct (index_of c r) as [n|] eqn:Ei; [|congruence].
    destruct (index_of_some c r n Ei) as (l1 & g & l2 & -> & Hl & Hc & Hn).
    rewrite <- Hl, nth_error_mid. intros H. apply group_get_in in H.
    exists g. split; [apply in_or_app; right; left; reflexivity | split; assumption].
  - intros (g & Hin & Hc & He). destruct (reg_split r g Hd Hin) as (l1 & l2 & -> & Hn1 & _).
    rewrite Hc in Hn1. rewrite (reg_get_found c e l1 g l2 Hn1 Hc). apply group_get_in. exact He.
Qed.

(* --- replacing / removing / inserting one group --- *)
Lemma reg_wf_replace l1 g l2 g' :
  reg_wf (l1 ++ g :: l2) -> g_ctx g' = g_ctx g -> g_prio g' = g_prio g -> group_ok g' -> reg_wf (l1 ++ g' :: l2).
Proof.
  intros (Hs & Hd & Hf) Hc Hp Hok. unfold reg_wf, sorted_desc in *.
  rewrite (map_app g_prio) in Hs |- *. rewrite (map_app g_ctx) in Hd |- *. cbn [map] in *. rewrite Hc, Hp. split; [exact Hs|]. split; [exact Hd|].
  apply Forall_app in Hf. destruct Hf as [Hf1 Hf2]. inversion Hf2; subst.
  apply Forall_app. split; [exact Hf1|]. constructor; assumption.
Qed.
Lemma reg_wf_remove l1 g l2 : reg_wf (l1 ++ g :: l2) -> reg_wf (l1 ++ l2).
Proof.
  intros (Hs & Hd & Hf). unfold reg_wf, sorted_desc in *. rewrite (map_app g_prio) in Hs |- *. rewrite (map_app g_ctx) in Hd |- *. cbn [map] in *.
  split; [|split].
  - apply desc_app in Hs. destruct Hs as (H1 & H2 & H3). apply desc_cons in H2. destruct H2 as [H2 _].
    apply desc_app. split; [exact H1|]. split; [exact H2|]. intros a b Ha Hb. apply H3; [exact Ha | right; exact Hb].
  - apply NoDup_middle in Hd. tauto.
  - apply Forall_app in Hf. destruct Hf as [Hf1 Hf2]. inversion Hf2; subst. apply Forall_app. split; assumption.
Qed.
Lemma reg_wf_group l1 g l2 : reg_wf (l1 ++ g :: l2) -> group_ok g.
Proof. intros (_ & _ & Hf). apply Forall_app in Hf. destruct Hf as [_ Hf]. inversion Hf; assumption. Qed.
Lemma reg_wf_absent l1 g l2 : reg_wf (l1 ++ g :: l2) -> ~ In (g_ctx g) (map g_ctx l1) /\ ~ In (g_ctx g) (map g_ctx l2).
Proof.
  intros (_ & Hd & _). rewrite map_app in Hd. cbn [map] in Hd. apply NoDup_middle in Hd. destruct Hd as [Hn _].
  split; intros H; apply Hn; apply in_or_app; tauto.
Qed.

(* --- trigger_removed never panics on a well-formed instance --- *)
Lemma trigger_removed_some tm recips i : inst_wf i -> exists evs, trigger_removed tm recips i = Some evs.
Proof.
  unfold inst_wf, trigger_removed. generalize (in_binds i) as bs. intros bs.
  generalize (@nil event) as acc. induction bs as [|b bs IH]; intros acc H; cbn [fold_left].
  - eexists; reflexivity.
  - destruct (lookup (ab_id b) (in_actions i)) as [d|] eqn:El; [|exfalso; apply (H b); [left; reflexivity | exact El]].
    destruct (removal_events (ab_id b) d (vdelta tm) recips (vdim_vzero _)) as (He & _). rewrite He.
    apply IH. intros b' Hb'. apply H. right. exact Hb'.
Qed.

(* ================================================================================================ *)
(* 5. ContextInstances::add                                                                         *)
(* ================================================================================================ *)
Definition add_ent (mk : entity -> inst) (e : entity) (g : group) : group :=
  match g with
  | GExcl c p insts => GExcl c p (insts ++ [(e, mk e)])
  | GShared c p ents i => GShared c p (ents ++ [e]) i
  end.

Lemma reg_add_new mk c e r : index_of c r = None ->
  reg_add mk c e r = insert_at (bsearch (ctx_prio c) r) (new_group c e (mk e)) r.
Proof. intros H. unfold reg_add. rewrite H. reflexivity. Qed.
Lemma reg_add_old mk c e l1 g l2 : ~ In c (map g_ctx l1) -> g_ctx g = c ->
  reg_add mk c e (l1 ++ g :: l2) = l1 ++ add_ent mk e g :: l2.
Proof.
  intros Hn Hc. unfold reg_add. rewrite (index_of_found c l1 g l2 Hn Hc).
  change (update_at (length l1) (add_ent mk e) (l1 ++ g :: l2) = l1 ++ add_ent mk e g :: l2).
  apply update_at_app. reflexivity.
Qed.

Lemma new_group_fields c e i :
  let g := new_group c e i in
  g_ctx g = c /\ g_prio g = ctx_prio c /\ g_shared g = ctx_shared c /\ g_ents g = [e] /\ g_insts g = [i].
Proof. unfold new_group. destruct (ctx_shared c); cbn; repeat split. Qed.
Lemma add_ent_fields mk e g :
  let g' := add_ent mk e g in
  g_ctx g' = g_ctx g /\ g_prio g' = g_prio g /\ g_shared g' = g_shared g /\ g_ents g' = g_ents g ++ [e] /\
  incl (g_insts g') (mk e :: g_insts g).
Proof.
  destruct g as [c p insts|c p ents i]; cbn; repeat split.
  - apply map_app.
  - rewrite map_app. cbn. intros x Hx. apply in_app_or in Hx. destruct Hx as [Hx|[<-|[]]]; [right; exact Hx | left; reflexivity].
  - intros x Hx. right. exact Hx.
Qed.

Lemma reg_add_wf mk c e r : reg_wf r -> ~ holds_in c e r -> inst_wf (mk e) -> reg_wf (reg_add mk c e r).
Proof.
  intros Hwf Hnh Hi. destruct (index_of c r) as [n|] eqn:Ei.
  - destruct (index_of_some c r n Ei) as (l1 & g & l2 & -> & Hl & Hc & Hn).
    rewrite (reg_add_old mk c e l1 g l2 Hn Hc).
    destruct (add_ent_fields mk e g) as (F1 & F2 & F3 & F4 & F5).
    pose proof (reg_wf_group _ _ _ Hwf) as (G1 & G2 & G3 & G4 & G5).
    apply (reg_wf_replace l1 g l2); [exact Hwf | exact F1 | exact F2|].
    unfold group_ok. rewrite F1, F2, F3, F4. split; [exact G1|]. split; [exact G2|]. split; [|split].
    + destruct (g_ents g); discriminate.
    + apply NoDup_snoc; [exact G4|]. intros He. apply Hnh. exists g.
      split; [apply in_or_app; right; left; reflexivity | split; assumption].
    + unfold ginsts_wf in *. rewrite Forall_forall in *. intros x Hx. apply F5 in Hx. destruct Hx as [<-|Hx]; [exact Hi | apply G5; exact Hx].
  - rewrite (reg_add_new mk c e r Ei). destruct Hwf as (Hs & Hd & Hf).
    destruct (new_group_fields c e (mk e)) as (F1 & F2 & F3 & F4 & F5).
    split; [apply insert_sorted; [exact Hs | exact F2]|].
    rewrite insert_at_firstn_skipn. set (n := bsearch (ctx_prio c) r).
    apply index_of_none in Ei. rewrite <- (firstn_skipn n r) in Hd, Hf, Ei. split.
    + rewrite map_app in *. cbn [map]. rewrite F1. apply NoDup_middle. split; assumption.
    + apply Forall_app in Hf. destruct Hf as [Hf1 Hf2]. apply Forall_app. split; [exact Hf1|]. constructor; [|exact Hf2].
      unfold group_ok, ginsts_wf. rewrite F1, F2, F3, F4, F5. repeat split; try discriminate.
      * constructor; [intros [] | constructor].
      * constructor; [exact Hi | constructor].
Qed.

Lemma reg_add_holds mk c e r : forall c' e',
  holds_in c' e' (reg_add mk c e r) <-> holds_in c' e' r \/ (c' = c /\ e' = e).
Proof.
  intros c' e'. destruct (index_of c r) as [n|] eqn:Ei.
  - destruct (index_of_some c r n Ei) as (l1 & g & l2 & -> & Hl & Hc & Hn).
    rewrite (reg_add_old mk c e l1 g l2 Hn Hc).
    destruct (add_ent_fields mk e g) as (F1 & _ & _ & F4 & _).
    rewrite !holds_in_app, !holds_in_cons, F1, F4, Hc, in_app_iff. cbn [In]. intuition congruence.
  - rewrite (reg_add_new mk c e r Ei), insert_at_firstn_skipn.
    destruct (new_group_fields c e (mk e)) as (F1 & _ & _ & F4 & _).
    set (n := bsearch (ctx_prio c) r).
    rewrite <- (firstn_skipn n r) at 3. rewrite !holds_in_app, holds_in_cons, F1, F4. cbn [In]. intuition congruence.
Qed.

(* what add does to the instance seen by the new holder *)
Lemma group_get_excl_snoc e i (l : list (entity * inst)) :
  ~ In e (map fst l) -> option_map snd (find (fun ei => Z.eqb (fst ei) e) (l ++ [(e, i)])) = Some i.
Proof.
  induction l as [|[x b] l IH]; cbn; intros Hn.
  - rewrite Z.eqb_refl. reflexivity.
  - destruct (Z.eqb x e) eqn:E; [apply Z.eqb_eq in E; tauto | apply IH; tauto].
Qed.
(* the type has no group: a fresh instance, built for this entity *)
Lemma reg_add_fresh mk c e r : index_of c r = None -> reg_get c e (reg_add mk c e r) = Some (mk e).
Proof.
  intros Ei. rewrite (reg_add_new mk c e r Ei), insert_at_firstn_skipn.
  apply index_of_none in Ei. set (n := bsearch (ctx_prio c) r).
  destruct (new_group_fields c e (mk e)) as (F1 & _).
  rewrite reg_get_found; [| |exact F1].
  - unfold new_group. destruct (ctx_shared c); cbn; rewrite Z.eqb_refl; reflexivity.
  - intros H. apply Ei. rewrite <- (firstn_skipn n r), map_app. apply in_or_app. left. exact H.
Qed.
(* the type has an exclusive group: the new holder gets its own fresh instance, the others keep theirs *)
Lemma reg_add_excl mk c e l1 p insts l2 :
  ~ In c (map g_ctx l1) -> ~ In e (map fst insts) ->
  reg_get c e (reg_add mk c e (l1 ++ GExcl c p insts :: l2)) = Some (mk e) /\
  forall e', e' <> e -> reg_get c e' (reg_add mk c e (l1 ++ GExcl c p insts :: l2)) = reg_get c e' (l1 ++ GExcl c p insts :: l2).
Proof.
  intros Hn He. rewrite (reg_add_old mk c e l1 (GExcl c p insts) l2 Hn eq_refl). cbn [add_ent]. split.
  - rewrite reg_get_found; [|exact Hn|reflexivity]. cbn [group_get]. apply group_get_excl_snoc. exact He.
  - intros e' Hne. rewrite !reg_get_found by (first [exact Hn | reflexivity]). cbn [group_get].
    clear He. induction insts as [|[x b] insts IH]; cbn.
    + destruct (Z.eqb e e') eqn:E; [apply Z.eqb_eq in E; congruence | reflexivity].
    + destruct (Z.eqb x e'); [reflexivity | exact IH].
Qed.
(* the type has a shared group: the new holder sees the common instance, which is not rebuilt *)
Lemma reg_add_shared mk c e l1 p ents i l2 :
  ~ In c (map g_ctx l1) ->
  forall e', reg_get c e' (reg_add mk c e (l1 ++ GShared c p ents i :: l2)) =
             if Z.eqb e' e then Some i else reg_get c e' (l1 ++ GShared c p ents i :: l2).
Proof.
  intros Hn e'. rewrite (reg_add_old mk c e l1 (GShared c p ents i) l2 Hn eq_refl). cbn [add_ent].
  rewrite !reg_get_found by (first [exact Hn | reflexivity]). cbn [group_get]. rewrite existsb_app. cbn [existsb].
  rewrite orb_false_r. destruct (Z.eqb e' e) eqn:E; [rewrite orb_true_r; reflexivity | rewrite orb_false_r; reflexivity].
Qed.

(* ================================================================================================ *)
(* 6. ContextInstances::remove                                                                      *)
(* ================================================================================================ *)
(* none of the three expect()s fails when the pair is registered; the entity leaves its group, the
   group leaves the registry when it becomes empty *)
Lemma reg_remove_form tm c e l1 g l2 :
  ~ In c (map g_ctx l1) -> g_ctx g = c -> In e (g_ents g) -> ginsts_wf g ->
  exists evs r', reg_remove tm c e (l1 ++ g :: l2) = Some (r', Some evs) /\
    ((g_ents g = [e] /\ r' = l1 ++ l2) \/
     (exists g', r' = l1 ++ g' :: l2 /\ g_ctx g' = c /\ g_prio g' = g_prio g /\ g_shared g' = g_shared g /\
                 g_ents g' <> [] /\ Permutation (e :: g_ents g') (g_ents g) /\ incl (g_insts g') (g_insts g))).
Proof.
  intros Hn Hc He Hi. unfold reg_remove. rewrite (index_of_found c l1 g l2 Hn Hc), nth_error_mid.
  destruct g as [c0 p insts|c0 p ents i]; cbn [g_ctx g_ents g_insts g_prio g_shared] in *; unfold entity in *.
  - apply in_map_iff in He. destruct He as ([x i] & Hx & Hin). cbn in Hx. subst x.
    destruct (position_found (fun ei => Z.eqb (fst ei) e) insts (e, i) Hin (Z.eqb_refl e)) as (k & Ek). rewrite Ek.
    destruct (position_some _ _ _ Ek) as ([x i'] & Hk & Hx). cbn in Hx. apply Z.eqb_eq in Hx. subst x. rewrite Hk.
    assert (Hwf : inst_wf i').
    { unfold ginsts_wf in Hi. rewrite Forall_forall in Hi. apply Hi. cbn. apply in_map_iff. exists (e, i'). split; [reflexivity|].
      eapply nth_error_In; exact Hk. }
    destruct (trigger_removed_some tm [e] i' Hwf) as (evs & ->). exists evs.
    pose proof (swap_remove_perm k insts (e, i') Hk) as P.
    destruct (swap_remove k insts) as [|q rest] eqn:Es.
    + eexists. split; [reflexivity|]. left. split; [|apply remove_at_app; reflexivity].
      apply swap_remove_nil with (x := (e, i')) in Es; [|exact Hk]. rewrite Es. reflexivity.
    + eexists. split; [reflexivity|]. right. exists (GExcl c0 p (q :: rest)).
      split; [rewrite update_at_app by reflexivity; reflexivity|]. cbn [g_ctx g_ents g_insts g_prio g_shared].
      split; [exact Hc|]. split; [reflexivity|]. split; [reflexivity|]. split; [discriminate|]. split.
      * apply (Permutation_map fst) in P. exact P.
      * intros y Hy. apply (Permutation_map snd) in P. apply (Permutation_in _ P). right. exact Hy.
  - apply memz_in in He. unfold memz in He.
    assert (Hin : In e ents) by (apply memz_in; exact He).
    destruct (position_found (Z.eqb e) ents e Hin (Z.eqb_refl e)) as (k & Ek). rewrite Ek.
    destruct (position_some _ _ _ Ek) as (x & Hk & Hx). apply Z.eqb_eq in Hx. subst x.
    assert (Hwf : inst_wf i) by (unfold ginsts_wf in Hi; inversion Hi; assumption).
    destruct (trigger_removed_some tm [e] i Hwf) as (evs & ->). exists evs.
    pose proof (swap_remove_perm k ents e Hk) as P.
    destruct (swap_remove k ents) as [|q rest] eqn:Es.
    + eexists. split; [reflexivity|]. left. split; [|apply remove_at_app; reflexivity].
      apply swap_remove_nil with (x := e) in Es; [|exact Hk]. exact Es.
    + eexists. split; [reflexivity|]. right. exists (GShared c0 p (q :: rest) i).
      split; [rewrite update_at_app by reflexivity; reflexivity|]. cbn [g_ctx g_ents g_insts g_prio g_shared].
      split; [exact Hc|]. split; [reflexivity|]. split; [reflexivity|]. split; [discriminate|]. split.
      * exact P.
      * intros y Hy. exact Hy.
Qed.

Lemma reg_remove_spec tm c e r : reg_wf r -> holds_in c e r ->
  exists r' evs, reg_remove tm c e r = Some (r', Some evs) /\ reg_wf r' /\
    forall c' e', holds_in c' e' r' <-> holds_in c' e' r /\ ~ (c' = c /\ e' = e).
Proof.
  intros Hwf (g & Hin & Hc & He). destruct Hwf as (Hs & Hd & Hf).
  destruct (reg_split r g Hd Hin) as (l1 & l2 & -> & Hn1 & Hn2). rewrite Hc in Hn1, Hn2.
  assert (Hwf : reg_wf (l1 ++ g :: l2)) by (split; [|split]; assumption).
  pose proof (reg_wf_group _ _ _ Hwf) as (G1 & G2 & G3 & G4 & G5).
  destruct (reg_remove_form tm c e l1 g l2 Hn1 Hc He G5) as (evs & r' & Er & Hcase).
  exists r', evs. split; [exact Er|].
  assert (Hother : forall l c' e', ~ In c (map g_ctx l) -> holds_in c' e' l -> c' <> c).
  { intros l c' e' Hnl Hh Heq. subst c'. apply Hnl. eapply holds_in_ctx; exact Hh. }
  destruct Hcase as [[Hone ->]|(g' & -> & F1 & F2 & F3 & F4 & F5 & F6)].
  - split; [eapply reg_wf_remove; exact Hwf|]. intros c' e'.
    rewrite !holds_in_app, holds_in_cons, Hone, Hc. cbn [In].
    pose proof (Hother l1 c' e' Hn1) as O1. pose proof (Hother l2 c' e' Hn2) as O2.
    split.
    + intros [Hh|Hh]; (split; [tauto | intros [? ?]; subst; tauto]).
    + intros [[Hh|[[? [?|[]]]|Hh]] Hnot]; [tauto | exfalso; apply Hnot; split; congruence | tauto].
  - destruct (perm_remove_in e (g_ents g') (g_ents g) F5 G4) as (Hd' & Hiff).
    split.
    + apply (reg_wf_replace l1 g l2 g' Hwf); [congruence | exact F2|].
      unfold group_ok. rewrite F1, F2, F3, <- Hc. split; [exact G1|]. split; [exact G2|]. split; [exact F4|]. split; [exact Hd'|].
      unfold ginsts_wf in *. rewrite Forall_forall in *. intros x Hx. apply G5. apply F6. exact Hx.
    + intros c' e'. rewrite !holds_in_app, !holds_in_cons, F1, Hc, Hiff.
      pose proof (Hother l1 c' e' Hn1) as O1. pose proof (Hother l2 c' e' Hn2) as O2.
      split.
      * intros [Hh|[(Hcc & Hi' & Hne)|Hh]]; (split; [tauto | intros [? ?]; subst; first [tauto | congruence]]).
      * intros [[Hh|[[Hcc Hi']|Hh]] Hnot]; [tauto | | tauto].
        right; left. split; [exact Hcc|]. split; [exact Hi'|]. intros ->. apply Hnot. split; congruence.
Qed.

(* ================================================================================================ *)
(* 7. groups of the same shape; rebuild; update                                                     *)
(* ================================================================================================ *)
Definition same_shape (g g' : group) : Prop :=
  g_ctx g' = g_ctx g /\ g_prio g' = g_prio g /\ g_shared g' = g_shared g /\ g_ents g' = g_ents g.

Lemma same_shape_refl g : same_shape g g.
Proof. repeat split. Qed.
Lemma same_shape_ctx r r' : Forall2 same_shape r r' -> map g_ctx r' = map g_ctx r.
Proof. induction 1 as [|g g' r r' (H1 & _) _ IH]; cbn; [reflexivity | rewrite H1, IH; reflexivity]. Qed.
Lemma same_shape_prio r r' : Forall2 same_shape r r' -> map g_prio r' = map g_prio r.
Proof. induction 1 as [|g g' r r' (_ & H2 & _) _ IH]; cbn; [reflexivity | rewrite H2, IH; reflexivity]. Qed.
Lemma same_shape_holds r r' : Forall2 same_shape r r' -> forall c e, holds_in c e r' <-> holds_in c e r.
Proof.
  induction 1 as [|g g' r r' (H1 & _ & _ & H4) _ IH]; intros c e; [tauto|].
  rewrite !holds_in_cons, H1, H4, IH. tauto.
Qed.
Lemma same_shape_wf r r' : Forall2 same_shape r r' -> Forall ginsts_wf r' -> reg_wf r -> reg_wf r'.
Proof.
  intros H2 Hi (Hs & Hd & Hf). unfold reg_wf, sorted_desc.
  rewrite (same_shape_prio r r' H2), (same_shape_ctx r r' H2). split; [exact Hs|]. split; [exact Hd|].
  clear Hs Hd. induction H2 as [|g g' r r' (H1 & H2' & H3 & H4) _ IH]; [constructor|].
  inversion Hi; subst. inversion Hf as [|? ? (G1 & G2 & G3 & G4 & G5)]; subst. constructor; [|apply IH; assumption].
  unfold group_ok. rewrite H1, H2', H3, H4. repeat split; assumption.
Qed.
Lemma same_shape_middle l1 g g' l2 : same_shape g g' -> Forall2 same_shape (l1 ++ g :: l2) (l1 ++ g' :: l2).
Proof.
  intros H. apply Forall2_app; [apply Forall2_same; exact same_shape_refl|].
  constructor; [exact H | apply Forall2_same; exact same_shape_refl].
Qed.

Lemma reg_wf_insts r : reg_wf r -> Forall ginsts_wf r.
Proof. intros (_ & _ & Hf). eapply Forall_impl; [|exact Hf]. intros g (_ & _ & _ & _ & H). exact H. Qed.

Lemma fold_cat_ev_some {B} (f : B -> option (list event)) (l : list B) :
  (forall x, In x l -> f x <> None) -> forall acc, exists evs, fold_left (fun a x => cat_ev a (f x)) l (Some acc) = Some evs.
Proof.
  induction l as [|x l IH]; intros H acc; cbn [fold_left]; [eexists; reflexivity|].
  destruct (f x) as [ex|] eqn:E; [|exfalso; apply (H x); [left; reflexivity | exact E]].
  cbn [cat_ev]. apply IH. intros y Hy. apply H. right. exact Hy.
Qed.

(* ContextInstances::rebuild never panics; it keeps every group's type, priority, mode and entities *)
Lemma reg_rebuild_spec mk tm c r : reg_wf r -> (forall e, inst_wf (mk e)) ->
  exists r' evs, reg_rebuild mk tm c r = Some (r', Some evs) /\ Forall2 same_shape r r' /\ Forall ginsts_wf r'.
Proof.
  intros Hwf Hmk. unfold reg_rebuild. destruct (index_of c r) as [n|] eqn:Ei.
  - destruct (index_of_some c r n Ei) as (l1 & g & l2 & -> & Hl & Hc & Hn). rewrite <- Hl, nth_error_mid.
    pose proof (reg_wf_group _ _ _ Hwf) as (G1 & G2 & G3 & G4 & G5).
    pose proof (reg_wf_insts _ Hwf) as Hall. apply Forall_app in Hall. destruct Hall as [Hall1 Hall2]. inversion Hall2; subst.
    destruct g as [c0 p insts|c0 p ents i]; cbn [g_ctx g_ents g_insts g_prio g_shared] in *.
    + destruct (fold_cat_ev_some (fun ei : entity * inst => trigger_removed tm [fst ei] (snd ei)) insts) with (acc := @nil event) as (evs & Ev).
      { intros [x i] Hx. cbn. unfold ginsts_wf in G5. cbn in G5. rewrite Forall_forall in G5.
        destruct (trigger_removed_some tm [x] i) as (ev & ->); [|discriminate].
        apply G5. apply in_map_iff. exists (x, i). split; [reflexivity | exact Hx]. }
      rewrite Ev. eexists; eexists. split; [reflexivity|]. rewrite update_at_app by reflexivity. split.
      * apply same_shape_middle. repeat split. cbn. rewrite map_map. apply map_ext. reflexivity.
      * apply Forall_app. split; [exact Hall1|]. constructor; [|assumption].
        unfold ginsts_wf. cbn. rewrite map_map. cbn. apply Forall_forall. intros x Hx. apply in_map_iff in Hx.
        destruct Hx as (ei & <- & _). apply Hmk.
    + destruct ents as [|e0 ents]; [congruence|].
      assert (Hwi : inst_wf i) by (unfold ginsts_wf in G5; inversion G5; assumption).
      destruct (trigger_removed_some tm (e0 :: ents) i Hwi) as (evs & ->).
      eexists; eexists. split; [reflexivity|]. rewrite update_at_app by reflexivity. split.
      * apply same_shape_middle. repeat split.
      * apply Forall_app. split; [exact Hall1|]. constructor; [|assumption].
        unfold ginsts_wf. cbn. constructor; [apply Hmk | constructor].
  - eexists; eexists. split; [reflexivity|]. split; [apply Forall2_same; exact same_shape_refl | apply reg_wf_insts; exact Hwf].
Qed.

(* --- the per-frame update: instances stay well-formed, events never panic --- *)
Lemma action_update_id m tm r c dev recips ab : ab_id (o_bind (action_update m tm r c dev recips ab)) = ab_id ab.
Proof.
  unfold action_update.
  destruct (input_loop m tm r c dev (ab_id ab) _ (ab_inputs ab)) as [st inputs'].
  destruct (apply_mods m tm (t_value (l_tracker st)) (ab_mods ab)) as [[ms' v1] lg1].
  destruct (apply_conds m tm (with_value (l_tracker st) v1) (ab_conds ab)) as [[cs' tr] lg2].
  reflexivity.
Qed.

Lemma binds_update_spec tm r dev recips bs : forall m c,
  let '(bs', m', c', ev, lg) := binds_update m tm r c dev recips bs in
  map ab_id bs' = map ab_id bs /\
  (forall a, lookup a m <> None -> lookup a m' <> None) /\
  (forall b, In b bs -> lookup (ab_id b) m' <> None) /\
  ev <> None.
Proof.
  induction bs as [|b bs IH]; intros m c; cbn [binds_update].
  - split; [reflexivity|]. split; [auto|]. split; [intros b []|discriminate].
  - cbv zeta.
    pose proof (action_update_id m tm r c dev recips b) as Hid.
    pose proof (action_update_no_panic m tm r c dev recips b) as Hev.
    destruct (action_update_result m tm r c dev recips b) as (s & v & bl & _ & Hl & Ho & _).
    set (o := action_update m tm r c dev recips b) in *.
    specialize (IH (o_actions o) (o_consumed o)).
    destruct (binds_update (o_actions o) tm r (o_consumed o) dev recips bs) as [[[[bs' m'] c'] ev] lg].
    destruct IH as (I1 & I2 & I3 & I4).
    assert (Hkeep : forall a, lookup a m <> None -> lookup a (o_actions o) <> None).
    { intros a Ha. destruct (Z.eq_dec a (ab_id b)) as [->|Hne]; [rewrite Hl; discriminate | rewrite (Ho a Hne); exact Ha]. }
    split; [cbn [map]; rewrite Hid, I1; reflexivity|]. split; [intros a Ha; apply I2, Hkeep, Ha|]. split.
    + intros b' [<-|Hb']; [apply I2; rewrite Hl; discriminate | apply I3; exact Hb'].
    + destruct (o_events o); [|congruence]. destruct ev; [discriminate | congruence].
Qed.

Lemma inst_update_spec tm r c recips i :
  let o := inst_update tm r c recips i in
  (inst_wf i -> inst_wf (io_inst o)) /\ io_events o <> None.
Proof.
  unfold inst_update. pose proof (binds_update_spec tm r (in_pad i) recips (in_binds i) (in_actions i) c) as H.
  destruct (binds_update (in_actions i) tm r c (in_pad i) recips (in_binds i)) as [[[[bs m] c'] ev] lg].
  destruct H as (H1 & H2 & H3 & H4). cbn [io_inst io_events]. split; [|exact H4].
  intros Hwf b Hb. cbn [in_binds in_actions] in *.
  apply (in_map ab_id) in Hb. rewrite H1 in Hb. apply in_map_iff in Hb. destruct Hb as (b0 & <- & Hb0).
  apply H3. exact Hb0.
Qed.

Lemma excl_update_spec tm r insts : forall c,
  let '(insts', c', ev, lg) := excl_update tm r c insts in
  map fst insts' = map fst insts /\ (Forall inst_wf (map snd insts) -> Forall inst_wf (map snd insts')) /\ ev <> None.
Proof.
  induction insts as [|[e i] insts IH]; intros c; cbn [excl_update].
  - split; [reflexivity|]. split; [auto | discriminate].
  - cbv zeta. destruct (inst_update_spec tm r c [e] i) as (Hw & Hev).
    set (o := inst_update tm r c [e] i) in *. specialize (IH (io_consumed o)).
    destruct (excl_update tm r (io_consumed o) insts) as [[[rest' c'] ev] lg]. destruct IH as (I1 & I2 & I3).
    cbn [map fst snd]. split; [rewrite I1; reflexivity|]. split.
    + intros H. inversion H; subst. constructor; [apply Hw; assumption | apply I2; assumption].
    + destruct (io_events o); [|congruence]. destruct ev; [discriminate | congruence].
Qed.

(* ContextInstances::update only rewrites the instances inside the groups *)
Lemma reg_update_spec tm r gs : forall c,
  let o := reg_update tm r c gs in
  Forall2 same_shape gs (ro_reg o) /\ (Forall ginsts_wf gs -> Forall ginsts_wf (ro_reg o)) /\ ro_events o <> None.
Proof.
  induction gs as [|[cx p insts|cx p ents i] gs IH]; intros c; cbn [reg_update].
  - cbn. split; [constructor|]. split; [auto | discriminate].
  - pose proof (excl_update_spec tm r insts c) as He.
    destruct (excl_update tm r c insts) as [[[insts' c'] ev] lg]. destruct He as (E1 & E2 & E3).
    cbv zeta. destruct (IH c') as (I1 & I2 & I3). cbn [ro_reg ro_events]. split; [|split].
    + constructor; [repeat split; exact E1 | exact I1].
    + intros H. inversion H; subst. constructor; [apply E2; assumption | apply I2; assumption].
    + destruct ev; [|congruence]. destruct (ro_events (reg_update tm r c' gs)); [discriminate | congruence].
  - cbv zeta. destruct (inst_update_spec tm r c ents i) as (Hw & Hev).
    set (io := inst_update tm r c ents i) in *. destruct (IH (io_consumed io)) as (I1 & I2 & I3).
    cbn [ro_reg ro_events]. split; [|split].
    + constructor; [repeat split | exact I1].
    + intros H. inversion H as [|? ? Hg Hr]; subst. constructor; [|apply I2; assumption].
      unfold ginsts_wf in *. cbn in *. inversion Hg; subst. constructor; [apply Hw; assumption | constructor].
    + destruct (io_events io); [|congruence]. destruct (ro_events (reg_update tm r (io_consumed io) gs)); [discriminate | congruence].
Qed.

(* C06: the groups are processed in list order, each from the consumed set left by its predecessors *)
Lemma cat_ev_assoc a b c : cat_ev a (cat_ev b c) = cat_ev (cat_ev a b) c.
Proof. destruct a, b, c; cbn; try reflexivity. rewrite app_assoc. reflexivity. Qed.
Lemma cat_ev_nil_l a : cat_ev (Some []) a = a.
Proof. destruct a; reflexivity. Qed.

Lemma reg_update_app tm r l1 l2 : forall c,
  let o1 := reg_update tm r c l1 in
  let o2 := reg_update tm r (ro_consumed o1) l2 in
  reg_update tm r c (l1 ++ l2) =
  mkRegOut (ro_reg o1 ++ ro_reg o2) (ro_consumed o2) (cat_ev (ro_events o1) (ro_events o2)) (ro_log o1 ++ ro_log o2).
Proof.
  induction l1 as [|[cx p insts|cx p ents i] l1 IH]; intros c; cbn [app reg_update].
  - cbv zeta. cbn [ro_reg ro_consumed ro_events ro_log app]. rewrite cat_ev_nil_l. destruct (reg_update tm r c l2); reflexivity.
  - destruct (excl_update tm r c insts) as [[[insts' c'] ev] lg]. cbv zeta. rewrite (IH c'). cbn.
    rewrite cat_ev_assoc, app_assoc. reflexivity.
  - cbv zeta. rewrite (IH (io_consumed (inst_update tm r c ents i))). cbn.
    rewrite cat_ev_assoc, app_assoc. reflexivity.
Qed.

(* ================================================================================================ *)
(* 8. instances built by context_instance() are well-formed                                         *)
(* ================================================================================================ *)
Lemma extend_ids s bs : forall bs', extend s bs = Some bs' -> map ab_id bs' = map ab_id bs.
Proof.
  induction bs as [|b bs IH]; intros bs'; cbn [extend]; [discriminate|].
  destruct (Z.eqb (ab_id b) (a_id s)).
  - intros [= <-]. reflexivity.
  - destruct (extend s bs) as [x|]; cbn; [|discriminate]. intros [= <-]. cbn. rewrite (IH x eq_refl). reflexivity.
Qed.
Lemma lookup_store_keep a b d m : lookup b m <> None -> lookup b (store a d m) <> None.
Proof.
  intros H. destruct (Z.eq_dec a b) as [->|Hne]; [rewrite lookup_store_same; discriminate | rewrite lookup_store_other; assumption].
Qed.
Lemma bind_action_wf i s : inst_wf i -> inst_wf (bind_action i s).
Proof.
  intros Hwf. unfold bind_action. destruct (extend s (in_binds i)) as [bs|] eqn:E.
  - intros b Hb. cbn [in_binds in_actions] in *. apply (in_map ab_id) in Hb. rewrite (extend_ids _ _ _ E) in Hb.
    apply in_map_iff in Hb. destruct Hb as (b0 & <- & Hb0). apply Hwf. exact Hb0.
  - intros b Hb. cbn [in_binds in_actions] in *. apply in_app_or in Hb. destruct Hb as [Hb|[<-|[]]].
    + apply lookup_store_keep. apply Hwf. exact Hb.
    + cbn [ab_id]. rewrite lookup_store_same. discriminate.
Qed.
Lemma instantiate_wf s : inst_wf (instantiate s).
Proof.
  unfold instantiate. assert (H0 : inst_wf (mkInst (i_pad s) [] [])) by (intros b []).
  revert H0. generalize (mkInst (i_pad s) [] []). induction (i_actions s) as [|a l IH]; intros i Hi; cbn [fold_left]; [exact Hi|].
  apply IH. apply bind_action_wf. exact Hi.
Qed.
Lemma mk_inst_wf sc c e : inst_wf (mk_inst sc c e).
Proof. apply instantiate_wf. Qed.

(* ================================================================================================ *)
(* 9. the world: which live entity holds which context component                                    *)
(* ================================================================================================ *)
Definition holds (h : list (entity * list ctx)) (c : ctx) (e : entity) : Prop :=
  exists cs, holds_of e h = Some cs /\ memz c cs = true.

Definition holds_wf (sc : scenario) (h : list (entity * list ctx)) : Prop :=
  NoDup (map fst h) /\
  forall e cs, holds_of e h = Some cs -> NoDup cs /\ forall c, In c cs -> In c (s_menu sc).

Lemma holds_of_set e cs h e' : holds_of e' (set_holds e cs h) = if Z.eqb e' e then Some cs else holds_of e' h.
Proof.
  induction h as [|[x old] h IH]; cbn [set_holds holds_of].
  - rewrite (Z.eqb_sym e e'). reflexivity.
  - destruct (Z.eqb x e) eqn:E; cbn [holds_of].
    + apply Z.eqb_eq in E. subst x. rewrite (Z.eqb_sym e e'). destruct (Z.eqb e' e); reflexivity.
    + rewrite IH. destruct (Z.eqb x e') eqn:E'; [|reflexivity].
      apply Z.eqb_eq in E'. subst x. rewrite E. reflexivity.
Qed.
Lemma holds_of_del e h e' : holds_of e' (del_ent e h) = if Z.eqb e' e then None else holds_of e' h.
Proof.
  unfold del_ent. induction h as [|[x cs] h IH]; cbn [filter holds_of fst]; [destruct (Z.eqb e' e); reflexivity|].
  destruct (Z.eqb x e) eqn:E; cbn [negb holds_of].
  - rewrite IH. apply Z.eqb_eq in E. subst x. rewrite (Z.eqb_sym e e'). destruct (Z.eqb e' e); reflexivity.
  - rewrite IH. destruct (Z.eqb x e') eqn:E'; [|reflexivity]. apply Z.eqb_eq in E'. subst x. rewrite E. reflexivity.
Qed.
Lemma holds_of_snoc h e cs e' :
  holds_of e' (h ++ [(e, cs)]) = match holds_of e' h with Some x => Some x | None => if Z.eqb e e' then Some cs else None end.
Proof. induction h as [|[x old] h IH]; cbn [app holds_of]; [reflexivity|]. destruct (Z.eqb x e'); [reflexivity | exact IH]. Qed.
Lemma holds_of_none e h : holds_of e h = None <-> ~ In e (map fst h).
Proof.
  induction h as [|[x cs] h IH]; cbn [holds_of map fst In]; [tauto|].
  destruct (Z.eqb x e) eqn:E.
  - apply Z.eqb_eq in E. split; [discriminate | tauto].
  - apply Z.eqb_neq in E. rewrite IH. tauto.
Qed.
Lemma set_holds_fst e cs h : holds_of e h <> None -> map fst (set_holds e cs h) = map fst h.
Proof.
  induction h as [|[x old] h IH]; cbn [holds_of set_holds]; [congruence|].
  destruct (Z.eqb x e); cbn [map fst]; [reflexivity|]. intros H. rewrite IH by exact H. reflexivity.
Qed.
Lemma del_ent_nodup e h : NoDup (map fst h) -> NoDup (map fst (del_ent e h)).
Proof.
  unfold del_ent. induction h as [|[x cs] h IH]; cbn [filter map fst]; [auto|]. intros H. inversion H as [|? ? Hn Hd]; subst.
  destruct (negb (Z.eqb x e)); cbn [map fst]; [|apply IH; exact Hd].
  constructor; [|apply IH; exact Hd]. intros Hin. apply Hn. apply in_map_iff in Hin. destruct Hin as (p & Hp & Hin).
  apply filter_In in Hin. apply in_map_iff. exists p. tauto.
Qed.

Lemma holds_set_add h e cs c : holds_of e h = Some cs ->
  forall c' e', holds (set_holds e (cs ++ [c]) h) c' e' <-> holds h c' e' \/ (c' = c /\ e' = e).
Proof.
  intros He c' e'. unfold holds. rewrite holds_of_set. destruct (Z.eqb e' e) eqn:E.
  - apply Z.eqb_eq in E. subst e'. rewrite He. split.
    + intros (x & [= <-] & Hm). apply memz_in in Hm. apply in_app_or in Hm. destruct Hm as [Hm|[<-|[]]].
      * left. exists cs. split; [reflexivity | apply memz_in; exact Hm].
      * right. split; reflexivity.
    + intros [(x & [= <-] & Hm)|[-> _]]; eexists; (split; [reflexivity|]); apply memz_in; apply in_or_app.
      * left. apply memz_in. exact Hm.
      * right. left. reflexivity.
  - apply Z.eqb_neq in E. split; [intros H; left; exact H | intros [H|[_ H]]; [exact H | contradiction]].
Qed.
Lemma holds_set_del h e cs c : holds_of e h = Some cs ->
  forall c' e', holds (set_holds e (filter (fun x => negb (Z.eqb x c)) cs) h) c' e' <-> holds h c' e' /\ ~ (c' = c /\ e' = e).
Proof.
  intros He c' e'. unfold holds. rewrite holds_of_set. destruct (Z.eqb e' e) eqn:E.
  - apply Z.eqb_eq in E. subst e'. rewrite He. split.
    + intros (x & [= <-] & Hm). apply memz_in in Hm. apply filter_In in Hm. destruct Hm as [Hm Hne].
      apply negb_true_iff, Z.eqb_neq in Hne. split; [|intros [? _]; contradiction].
      exists cs. split; [reflexivity | apply memz_in; exact Hm].
    + intros [(x & [= <-] & Hm) Hn]. eexists. split; [reflexivity|]. apply memz_in. apply filter_In.
      split; [apply memz_in; exact Hm|]. apply negb_true_iff, Z.eqb_neq. intros ->. apply Hn. split; reflexivity.
  - apply Z.eqb_neq in E. split; [intros H; split; [exact H | intros [_ ?]; contradiction] | intros [H _]; exact H].
Qed.

(* ================================================================================================ *)
(* 10. the invariant                                                                                *)
(* ================================================================================================ *)
(* looking up (C, E) succeeds exactly when E currently holds C *)
Definition mirror (w : world) : Prop :=
  forall c e, reg_get c e (w_reg w) <> None <-> (exists cs, holds_of e (w_holds w) = Some cs /\ memz c cs = true).

Definition reg_inv (sc : scenario) (w : world) : Prop :=
  sorted_desc (w_reg w) /\                       (* (a) descending priority *)
  NoDup (map g_ctx (w_reg w)) /\                 (* (b) one group per context type *)
  Forall group_ok (w_reg w) /\                   (* (c) priority and mode of the type, (d) not empty, (e) entities once,
                                                    and every instance has the data of its bindings *)
  mirror w /\                                    (* (f) *)
  holds_wf sc (w_holds w).                       (* entities once, components once and registered *)

Lemma reg_inv_alt sc w :
  reg_inv sc w <-> reg_wf (w_reg w) /\ (forall c e, holds_in c e (w_reg w) <-> holds (w_holds w) c e) /\ holds_wf sc (w_holds w).
Proof.
  unfold reg_inv, reg_wf, mirror. split.
  - intros (Hs & Hd & Hf & Hm & Hh). split; [tauto|]. split; [|exact Hh]. intros c e. rewrite <- (reg_get_iff _ Hd). apply Hm.
  - intros ((Hs & Hd & Hf) & Hm & Hh). split; [exact Hs|]. split; [exact Hd|]. split; [exact Hf|]. split; [|exact Hh].
    intros c e. rewrite (reg_get_iff _ Hd). apply Hm.
Qed.

Lemma reg_inv_init sc : reg_inv sc world_init.
Proof.
  apply reg_inv_alt. cbn. split; [|split].
  - split; [constructor|]. split; constructor.
  - intros c e. rewrite holds_in_nil. split; [intros [] | intros (cs & H & _); discriminate].
  - split; [constructor | intros e cs H; discriminate].
Qed.

(* --- OnAdd --- *)
Lemma insert_ctx_inv sc w e c : reg_inv sc w -> reg_inv sc (oo_world (insert_ctx sc w e c)).
Proof.
  intros Hinv. unfold insert_ctx. destruct (holds_of e (w_holds w)) as [cs|] eqn:He; [|exact Hinv].
  destruct (memz c cs || negb (memz c (s_menu sc))) eqn:Em; [exact Hinv|].
  apply orb_false_iff in Em. destruct Em as [Em1 Em2]. apply negb_false_iff in Em2.
  cbn [oo_world]. apply reg_inv_alt in Hinv. destruct Hinv as (Hwf & Hm & Hd & Hcs). apply reg_inv_alt. cbn [w_reg w_holds].
  assert (Hnh : ~ holds_in c e (w_reg w)).
  { intros H. apply Hm in H. destruct H as (cs' & H1 & H2). congruence. }
  split; [apply reg_add_wf; [exact Hwf | exact Hnh | apply mk_inst_wf]|]. split.
  - intros c' e'. rewrite reg_add_holds, (holds_set_add _ _ _ _ He), Hm. tauto.
  - split.
    + rewrite set_holds_fst; [exact Hd | congruence].
    + intros e' cs'. rewrite holds_of_set. destruct (Z.eqb e' e) eqn:E; [|apply Hcs].
      intros [= <-]. destruct (Hcs e cs He) as [Hnd Hmenu]. split.
      * apply NoDup_snoc; [exact Hnd | apply memz_false; exact Em1].
      * intros x Hx. apply in_app_or in Hx. destruct Hx as [Hx|[<-|[]]]; [apply Hmenu; exact Hx | apply memz_in; exact Em2].
Qed.

Lemma spawn_fold_inv sc e cs : forall acc, reg_inv sc (oo_world acc) ->
  reg_inv sc (oo_world (fold_left (fun acc c => let o := insert_ctx sc (oo_world acc) e c in
                                                mkOpOut (oo_world o) (oo_events acc ++ oo_events o) (oo_built acc ++ oo_built o))
                                  cs acc)).
Proof.
  induction cs as [|c cs IH]; intros acc H; cbn [fold_left]; [exact H|].
  apply IH. cbn [oo_world]. apply insert_ctx_inv. exact H.
Qed.

(* --- OnRemove: none of the expect()s of ContextInstances::remove fails --- *)
Lemma remove_ctx_spec sc w e c : reg_inv sc w ->
  exists o, remove_ctx w e c = Some o /\ reg_inv sc (oo_world o) /\
    forall c' e', holds (w_holds (oo_world o)) c' e' <-> holds (w_holds w) c' e' /\ ~ (c' = c /\ e' = e).
Proof.
  intros Hinv. unfold remove_ctx.
  assert (Hsame : ~ holds (w_holds w) c e -> forall c' e', holds (w_holds w) c' e' <-> holds (w_holds w) c' e' /\ ~ (c' = c /\ e' = e)).
  { intros Hn c' e'. split; [|tauto]. intros H. split; [exact H|]. intros [-> ->]. contradiction. }
  destruct (holds_of e (w_holds w)) as [cs|] eqn:He.
  2:{ eexists. split; [reflexivity|]. split; [exact Hinv|]. apply Hsame. intros (cs & H & _). congruence. }
  destruct (memz c cs) eqn:Em; cbn [negb].
  2:{ eexists. split; [reflexivity|]. split; [exact Hinv|]. apply Hsame. intros (cs' & H1 & H2). congruence. }
  pose proof Hinv as Hinv0. apply reg_inv_alt in Hinv. destruct Hinv as (Hwf & Hm & Hd & Hcs).
  assert (Hh : holds_in c e (w_reg w)) by (apply Hm; exists cs; split; assumption).
  destruct (reg_remove_spec (w_time w) c e (w_reg w) Hwf Hh) as (r' & evs & -> & Hwf' & Hh').
  eexists. split; [reflexivity|]. cbn [oo_world w_holds]. split; [|apply (holds_set_del _ _ _ _ He)].
  apply reg_inv_alt. cbn [w_reg w_holds]. split; [exact Hwf'|]. split.
  - intros c' e'. rewrite Hh', (holds_set_del _ _ _ _ He), Hm. tauto.
  - split.
    + rewrite set_holds_fst; [exact Hd | congruence].
    + intros e' cs'. rewrite holds_of_set. destruct (Z.eqb e' e) eqn:E; [|apply Hcs].
      intros [= <-]. destruct (Hcs e cs He) as [Hnd Hmenu]. split.
      * apply NoDup_filter. exact Hnd.
      * intros x Hx. apply filter_In in Hx. apply Hmenu. tauto.
Qed.

Lemma despawn_fold_inv sc e cs : forall a, reg_inv sc (oo_world a) ->
  exists a', fold_left (fun acc c => match acc with
                                     | Some a => match remove_ctx (oo_world a) e c with
                                                 | Some o => Some (mkOpOut (oo_world o) (oo_events a ++ oo_events o) [])
                                                 | None => None
                                                 end
                                     | None => None
                                     end) cs (Some a) = Some a' /\
    reg_inv sc (oo_world a') /\
    forall c' e', holds (w_holds (oo_world a')) c' e' <-> holds (w_holds (oo_world a)) c' e' /\ ~ (e' = e /\ In c' cs).
Proof.
  induction cs as [|c cs IH]; intros a H; cbn [fold_left].
  - exists a. split; [reflexivity|]. split; [exact H|]. intros c' e'. cbn [In]. tauto.
  - destruct (remove_ctx_spec sc (oo_world a) e c H) as (o & -> & Hinv & Hh).
    destruct (IH (mkOpOut (oo_world o) (oo_events a ++ oo_events o) []) Hinv) as (a' & -> & Hinv' & Hh').
    exists a'. split; [reflexivity|]. split; [exact Hinv'|]. intros c' e'. rewrite Hh'. cbn [oo_world In]. rewrite Hh.
    split.
    + intros [[H1 H2] H3]. split; [exact H1|]. intros [-> [<-|Hin]]; [apply H2; split; reflexivity | apply H3; split; [reflexivity | exact Hin]].
    + intros [H1 H2]. split; [split; [exact H1|]|].
      * intros [-> ->]. apply H2. split; [reflexivity | left; reflexivity].
      * intros [-> Hin]. apply H2. split; [reflexivity | right; exact Hin].
Qed.

(* --- rebuild: neither expect() fails --- *)
Lemma rebuild_fold_inv sc cs : forall a, reg_inv sc (oo_world a) ->
  exists a', fold_left (fun acc c =>
        match acc with
        | None => None
        | Some a =>
            let w1 := oo_world a in
            let built := match index_of c (w_reg w1), nth_error (w_reg w1) (match index_of c (w_reg w1) with Some n => n | None => O end) with
                         | Some _, Some (GExcl _ _ insts) => map (fun ei => (c, fst ei)) insts
                         | Some _, Some (GShared _ _ (e0 :: _) _) => [(c, e0)]
                         | _, _ => []
                         end in
            match reg_rebuild (mk_inst sc c) (w_time w1) c (w_reg w1) with
            | Some (r', Some evs) => Some (mkOpOut (mkWorld (w_holds w1) r' (w_time w1)) (oo_events a ++ evs) (oo_built a ++ built))
            | _ => None
            end
        end) cs (Some a) = Some a' /\ reg_inv sc (oo_world a').
Proof.
  induction cs as [|c cs IH]; intros a H; cbn [fold_left]; [exists a; split; [reflexivity | exact H]|].
  cbv zeta. pose proof H as H0. apply reg_inv_alt in H. destruct H as (Hwf & Hm & Hh).
  destruct (reg_rebuild_spec (mk_inst sc c) (w_time (oo_world a)) c (w_reg (oo_world a)) Hwf (mk_inst_wf sc c))
    as (r' & evs & -> & Hshape & Hins).
  apply IH. cbn [oo_world]. apply reg_inv_alt. cbn [w_reg w_holds].
  split; [eapply same_shape_wf; eassumption|]. split; [|exact Hh].
  intros c' e'. rewrite (same_shape_holds _ _ Hshape). apply Hm.
Qed.

(* --- every operation: no panic, invariant preserved --- *)
Lemma apply_op_inv sc w o : reg_inv sc w -> exists r, apply_op sc w o = Some r /\ reg_inv sc (oo_world r).
Proof.
  intros Hinv. destruct o as [e cs|e c|e c|e|]; cbn [apply_op].
  - destruct (holds_of e (w_holds w)) as [old|] eqn:He; [eexists; split; [reflexivity | exact Hinv]|].
    eexists. split; [reflexivity|]. apply spawn_fold_inv. cbn [oo_world].
    apply reg_inv_alt in Hinv. destruct Hinv as (Hwf & Hm & Hd & Hcs). apply reg_inv_alt. cbn [w_reg w_holds].
    split; [exact Hwf|]. split.
    + intros c' e'. rewrite Hm. unfold holds. rewrite holds_of_snoc. destruct (holds_of e' (w_holds w)) as [x|] eqn:E'; [tauto|].
      split; [intros (x & H & _); discriminate|]. destruct (Z.eqb e e'); intros (x & [= <-] & Hx); discriminate.
    + split.
      * rewrite map_app. cbn. apply NoDup_snoc; [exact Hd | apply holds_of_none; exact He].
      * intros e' cs'. rewrite holds_of_snoc. destruct (holds_of e' (w_holds w)) as [x|] eqn:E'.
        -- intros [= <-]. exact (Hcs e' _ E').
        -- destruct (Z.eqb e e'); [|discriminate]. intros [= <-]. split; [constructor | intros x []].
  - eexists. split; [reflexivity|]. apply insert_ctx_inv. exact Hinv.
  - destruct (remove_ctx_spec sc w e c Hinv) as (o & -> & H & _). exists o. split; [reflexivity | exact H].
  - destruct (holds_of e (w_holds w)) as [cs0|] eqn:He; [|eexists; split; [reflexivity | exact Hinv]].
    destruct (despawn_fold_inv sc e (filter (fun c => memz c cs0) (s_menu sc)) (mkOpOut w [] []) Hinv) as (a' & -> & Hinv' & Hh).
    eexists. split; [reflexivity|]. cbn [oo_world] in *.
    assert (Hgone : forall c', ~ holds (w_holds (oo_world a')) c' e).
    { intros c' H. apply Hh in H. destruct H as [(cs & H1 & H2) H3]. apply H3. split; [reflexivity|].
      assert (cs = cs0) by congruence. subst cs. apply filter_In. split; [|exact H2].
      destruct Hinv as (_ & _ & _ & _ & _ & Hcs). apply (Hcs e cs0 He). apply memz_in. exact H2. }
    apply reg_inv_alt in Hinv'. destruct Hinv' as (Hwf & Hm & Hd & Hcs). apply reg_inv_alt. cbn [w_reg w_holds].
    split; [exact Hwf|]. split.
    + intros c' e'. rewrite Hm. unfold holds. rewrite holds_of_del. destruct (Z.eqb e' e) eqn:E; [|tauto].
      apply Z.eqb_eq in E. subst e'. split; [intros H; exfalso; exact (Hgone c' H) | intros (x & H & _); discriminate].
    + split; [apply del_ent_nodup; exact Hd|]. intros e' cs'. rewrite holds_of_del. destruct (Z.eqb e' e); [discriminate | apply Hcs].
  - destruct (rebuild_fold_inv sc (s_menu sc) (mkOpOut w [] []) Hinv) as (a' & Ha & Hinv'). exists a'. split; assumption.
Qed.

Lemma run_ops_inv sc ops : forall w, reg_inv sc w -> exists a, run_ops sc w ops = Some a /\ reg_inv sc (oo_world a).
Proof.
  unfold run_ops. intros w. generalize (@nil event) as evs. generalize (@nil (ctx * entity)) as bl. revert w.
  induction ops as [|o ops IH]; intros w bl evs Hinv; cbn [fold_left].
  - eexists. split; [reflexivity | exact Hinv].
  - cbn [oo_world]. destruct (apply_op_inv sc w o Hinv) as (r & -> & Hr).
    destruct r as [w' ev' bl']. cbn [oo_world oo_events oo_built] in *. apply IH. exact Hr.
Qed.

(* --- a whole frame: the update keeps the registry's shape, the evaluation never panics --- *)
Lemma reg_update_inv sc w tm raw c :
  reg_inv sc w -> reg_inv sc (mkWorld (w_holds w) (ro_reg (reg_update tm raw c (w_reg w))) tm).
Proof.
  intros H. apply reg_inv_alt in H. destruct H as (Hwf & Hm & Hh). apply reg_inv_alt. cbn [w_reg w_holds].
  destruct (reg_update_spec tm raw (w_reg w) c) as (S1 & S2 & _).
  split; [apply (same_shape_wf _ _ S1); [apply S2, reg_wf_insts, Hwf | exact Hwf]|]. split; [|exact Hh].
  intros c' e'. rewrite (same_shape_holds _ _ S1). apply Hm.
Qed.

Lemma frame_inv sc w f : reg_inv sc w -> exists fo, frame sc w f = Some fo /\ reg_inv sc (fo_world fo).
Proof.
  intros H. unfold frame.
  destruct (reg_update_spec (frame_time f) (f_raw f) (w_reg w) (update_state (f_raw f))) as (_ & _ & Hev).
  destruct (ro_events (reg_update (frame_time f) (f_raw f) (update_state (f_raw f)) (w_reg w))) as [main|]; [|congruence].
  destruct (run_ops_inv sc (f_ops f) _ (reg_update_inv sc w (frame_time f) (f_raw f) (update_state (f_raw f)) H)) as (a & -> & Ha).
  eexists. split; [reflexivity | exact Ha].
Qed.

(* --- any history of operations and frames --- *)
Definition step_world (sc : scenario) (w : world) (s : step) : option world :=
  match s with
  | SOp o => option_map oo_world (apply_op sc w o)
  | SFrame f => option_map fo_world (frame sc w f)
  end.
Fixpoint steps_world (sc : scenario) (w : world) (steps : list step) : option world :=
  match steps with
  | [] => Some w
  | s :: rest => match step_world sc w s with Some w' => steps_world sc w' rest | None => None end
  end.

Lemma steps_world_inv sc steps : forall w, reg_inv sc w -> exists w', steps_world sc w steps = Some w' /\ reg_inv sc w'.
Proof.
  induction steps as [|s steps IH]; intros w H; cbn [steps_world]; [exists w; split; [reflexivity | exact H]|].
  destruct s as [o|f]; cbn [step_world].
  - destruct (apply_op_inv sc w o H) as (r & -> & Hr). cbn [option_map]. apply IH. exact Hr.
  - destruct (frame_inv sc w f H) as (fo & -> & Hr). cbn [option_map]. apply IH. exact Hr.
Qed.
Lemma history_inv sc steps : exists w, steps_world sc world_init steps = Some w /\ reg_inv sc w.
Proof. apply steps_world_inv. apply reg_inv_init. Qed.

Lemma steps_reach_inv sc steps w : steps_world sc world_init steps = Some w -> reg_inv sc w.
Proof. intros H. destruct (history_inv sc steps) as (w' & H' & Hinv). congruence. Qed.

Lemma steps_reach_sorted sc steps w : steps_world sc world_init steps = Some w -> sorted_desc (w_reg w).
Proof. intros H. apply (steps_reach_inv sc steps w) in H. destruct H as (Hs & _). exact Hs. Qed.
Lemma steps_reach_mirror sc steps w : steps_world sc world_init steps = Some w ->
  forall c e, reg_get c e (w_reg w) <> None <-> (exists cs, holds_of e (w_holds w) = Some cs /\ memz c cs = true).
Proof. intros H. apply (steps_reach_inv sc steps w) in H. destruct H as (_ & _ & _ & Hm & _). exact Hm. Qed.
Lemma reg_inv_unfold sc w : reg_inv sc w ->
  sorted_desc (w_reg w) /\
  NoDup (map g_ctx (w_reg w)) /\
  Forall (fun g => g_prio g = ctx_prio (g_ctx g) /\ g_shared g = ctx_shared (g_ctx g) /\
                   g_ents g <> [] /\ NoDup (g_ents g) /\ ginsts_wf g) (w_reg w) /\
  (forall c e, reg_get c e (w_reg w) <> None <-> (exists cs, holds_of e (w_holds w) = Some cs /\ memz c cs = true)) /\
  (NoDup (map fst (w_holds w)) /\
   forall e cs, holds_of e (w_holds w) = Some cs -> NoDup cs /\ forall c, In c cs -> In c (s_menu sc)).
Proof. intros H. exact H. Qed.

(* ================================================================================================ *)
(* 11. C06: evaluation order                                                                        *)
(* ================================================================================================ *)
Lemma index_of_nth c r n : index_of c r = Some n -> exists g, nth_error r n = Some g /\ g_ctx g = c /\ In g r.
Proof.
  intros H. destruct (index_of_some c r n H) as (l1 & g & l2 & -> & Hl & Hc & _). exists g.
  rewrite <- Hl, nth_error_mid. split; [reflexivity|]. split; [exact Hc|]. apply in_or_app. right. left. reflexivity.
Qed.

Lemma inv_higher_first sc w : reg_inv sc w -> forall i j g1 g2,
  nth_error (w_reg w) i = Some g1 -> nth_error (w_reg w) j = Some g2 -> g_prio g1 > g_prio g2 -> (i < j)%nat.
Proof. intros (Hs & _). apply sorted_higher_first. exact Hs. Qed.

Lemma inv_types_order sc w : reg_inv sc w -> forall c1 c2 i j,
  index_of c1 (w_reg w) = Some i -> index_of c2 (w_reg w) = Some j -> ctx_prio c1 > ctx_prio c2 -> (i < j)%nat.
Proof.
  intros (Hs & _ & Hf & _) c1 c2 i j H1 H2 Hp.
  destruct (index_of_nth _ _ _ H1) as (g1 & N1 & C1 & I1). destruct (index_of_nth _ _ _ H2) as (g2 & N2 & C2 & I2).
  rewrite Forall_forall in Hf. destruct (Hf g1 I1) as (P1 & _). destruct (Hf g2 I2) as (P2 & _).
  apply (sorted_higher_first _ Hs i j g1 g2 N1 N2). rewrite P1, P2, C1, C2. exact Hp.
Qed.

Lemma history_types_order sc steps w : steps_world sc world_init steps = Some w -> forall c1 c2 i j,
  index_of c1 (w_reg w) = Some i -> index_of c2 (w_reg w) = Some j -> ctx_prio c1 > ctx_prio c2 -> (i < j)%nat.
Proof. intros H. apply inv_types_order with (sc := sc). eapply steps_reach_inv; exact H. Qed.

(* the registry splits as  ... g1 ... g2 ...  with the higher-priority type first *)
Lemma inv_types_split sc w : reg_inv sc w -> forall c1 c2,
  index_of c1 (w_reg w) <> None -> index_of c2 (w_reg w) <> None -> ctx_prio c1 > ctx_prio c2 ->
  exists l1 g1 l2 g2 l3, w_reg w = l1 ++ g1 :: l2 ++ g2 :: l3 /\ g_ctx g1 = c1 /\ g_ctx g2 = c2.
Proof.
  intros Hinv c1 c2 H1 H2 Hp.
  destruct (index_of c1 (w_reg w)) as [i|] eqn:E1; [|congruence]. destruct (index_of c2 (w_reg w)) as [j|] eqn:E2; [|congruence].
  pose proof (inv_types_order sc w Hinv c1 c2 i j E1 E2 Hp) as Hij.
  destruct (index_of_nth _ _ _ E2) as (g2 & N2 & C2 & _).
  destruct (index_of_some _ _ _ E1) as (l1 & g1 & b & Er & Hl & C1 & _).
  rewrite Er in N2. rewrite nth_error_app2 in N2 by lia.
  destruct (j - length l1)%nat as [|k] eqn:Ek; [lia|]. cbn [nth_error] in N2.
  destruct (nth_error_split b k N2) as (l2 & l3 & -> & _).
  exists l1, g1, l2, g2, l3. split; [exact Er|]. split; assumption.
Qed.

(* the invocation log of a frame is the concatenation of the logs of the groups, in list order *)
Lemma frame_log_split sc w f fo l1 l2 : frame sc w f = Some fo -> w_reg w = l1 ++ l2 ->
  let o1 := reg_update (frame_time f) (f_raw f) (update_state (f_raw f)) l1 in
  fo_log fo = ro_log o1 ++ ro_log (reg_update (frame_time f) (f_raw f) (ro_consumed o1) l2).
Proof.
  intros H Hr. unfold frame in H. rewrite Hr, reg_update_app in H. cbn [ro_events ro_reg ro_log] in H.
  destruct (cat_ev _ _) as [main|]; [|discriminate]. destruct (run_ops _ _ _) as [a|]; [|discriminate].
  injection H as <-. reflexivity.
Qed.

(* ================================================================================================ *)
(* 12. C07: the structure of exclusive and shared groups                                            *)
(* ================================================================================================ *)
Lemma holds_in_unique r g e : NoDup (map g_ctx r) -> In g r -> (holds_in (g_ctx g) e r <-> In e (g_ents g)).
Proof.
  intros Hd Hin. destruct (reg_split r g Hd Hin) as (l1 & l2 & -> & Hn1 & Hn2).
  rewrite holds_in_app, holds_in_cons. split.
  - intros [H|[[_ H]|H]]; [exfalso; apply Hn1; eapply holds_in_ctx; exact H | exact H | exfalso; apply Hn2; eapply holds_in_ctx; exact H].
  - intros H. right. left. split; [reflexivity | exact H].
Qed.

Lemma inv_holds_group sc w g : reg_inv sc w -> In g (w_reg w) -> forall e, In e (g_ents g) <-> holds (w_holds w) (g_ctx g) e.
Proof.
  intros Hinv Hin e. apply reg_inv_alt in Hinv. destruct Hinv as ((_ & Hd & _) & Hm & _).
  rewrite <- Hm. symmetry. apply holds_in_unique; assumption.
Qed.

(* a group exists exactly while at least one entity holds the type *)
Lemma inv_group_exists sc w c : reg_inv sc w -> (index_of c (w_reg w) <> None <-> exists e, holds (w_holds w) c e).
Proof.
  intros Hinv. split.
  - intros H. destruct (index_of c (w_reg w)) as [n|] eqn:E; [|congruence].
    destruct (index_of_nth _ _ _ E) as (g & _ & Hc & Hin).
    assert (Hok : group_ok g) by (destruct Hinv as (_ & _ & Hf & _); rewrite Forall_forall in Hf; apply Hf; exact Hin).
    destruct Hok as (_ & _ & Hne & _). destruct (g_ents g) as [|e0 rest] eqn:Ee; [congruence|].
    exists e0. rewrite <- Hc. apply (inv_holds_group sc w g Hinv Hin). rewrite Ee. left. reflexivity.
  - intros (e & He). apply reg_inv_alt in Hinv. destruct Hinv as (_ & Hm & _). apply Hm in He.
    apply holds_in_ctx in He. intros Hn. apply index_of_none in Hn. contradiction.
Qed.

Lemma find_fst_nodup {B} e (i : B) (l : list (entity * B)) : NoDup (map fst l) ->
  (option_map snd (find (fun ei => Z.eqb (fst ei) e) l) = Some i <-> In (e, i) l).
Proof.
  induction l as [|[x b] l IH]; cbn [map fst find In]; intros Hd; [split; [discriminate | intros []]|].
  inversion Hd as [|? ? Hn Hd']; subst. destruct (Z.eqb x e) eqn:E; cbn [option_map snd].
  - apply Z.eqb_eq in E. subst x. split.
    + intros [= ->]. left. reflexivity.
    + intros [[= ->]|Hin]; [reflexivity|]. exfalso. apply Hn. apply in_map_iff. exists (e, i). split; [reflexivity | exact Hin].
  - apply Z.eqb_neq in E. rewrite (IH Hd'). split; [intros H; right; exact H | intros [[= ? ?]|H]; [contradiction | exact H]].
Qed.

(* exclusive mode: every holder has exactly one entry (entity, instance) of its own *)
Lemma inv_exclusive sc w c g : reg_inv sc w -> In g (w_reg w) -> g_ctx g = c -> ctx_shared c = false ->
  exists insts, g = GExcl c (ctx_prio c) insts /\ NoDup (map fst insts) /\
    (forall e, In e (map fst insts) <-> holds (w_holds w) c e) /\
    (forall e i, reg_get c e (w_reg w) = Some i <-> In (e, i) insts).
Proof.
  intros Hinv Hin Hc Hsh. pose proof (inv_holds_group sc w g Hinv Hin) as Hg.
  destruct Hinv as (_ & Hd & Hf & _). rewrite Forall_forall in Hf. destruct (Hf g Hin) as (G1 & G2 & G3 & G4 & G5).
  rewrite Hc in *. destruct g as [c0 p insts|c0 p ents i]; cbn [g_ctx g_prio g_shared g_ents] in *; [|congruence]. subst c0 p.
  exists insts. split; [reflexivity|]. split; [exact G4|]. split; [exact Hg|].
  intros e i. destruct (reg_split _ _ Hd Hin) as (l1 & l2 & Er & Hn1 & _). rewrite Er.
  cbn [g_ctx] in Hn1. rewrite (reg_get_found c e l1 (GExcl c (ctx_prio c) insts) l2 Hn1 eq_refl). cbn [group_get]. apply find_fst_nodup. exact G4.
Qed.

(* shared mode: one common instance, seen by every holder *)
Lemma inv_shared sc w c g : reg_inv sc w -> In g (w_reg w) -> g_ctx g = c -> ctx_shared c = true ->
  exists ents i, g = GShared c (ctx_prio c) ents i /\ NoDup ents /\ ents <> [] /\
    (forall e, In e ents <-> holds (w_holds w) c e) /\
    (forall e, reg_get c e (w_reg w) = if memz e ents then Some i else None).
Proof.
  intros Hinv Hin Hc Hsh. pose proof (inv_holds_group sc w g Hinv Hin) as Hg.
  destruct Hinv as (_ & Hd & Hf & _). rewrite Forall_forall in Hf. destruct (Hf g Hin) as (G1 & G2 & G3 & G4 & G5).
  rewrite Hc in *. destruct g as [c0 p insts|c0 p ents i]; cbn [g_ctx g_prio g_shared g_ents] in *; [congruence|]. subst c0 p.
  exists ents, i. split; [reflexivity|]. split; [exact G4|]. split; [exact G3|]. split; [exact Hg|].
  intros e. destruct (reg_split _ _ Hd Hin) as (l1 & l2 & Er & Hn1 & _). rewrite Er.
  cbn [g_ctx] in Hn1. rewrite (reg_get_found c e l1 (GShared c (ctx_prio c) ents i) l2 Hn1 eq_refl). reflexivity.
Qed.

(* all holders of a shared type see the same instance *)
Lemma inv_shared_common sc w c : reg_inv sc w -> ctx_shared c = true -> forall e1 e2,
  holds (w_holds w) c e1 -> holds (w_holds w) c e2 ->
  exists i, reg_get c e1 (w_reg w) = Some i /\ reg_get c e2 (w_reg w) = Some i.
Proof.
  intros Hinv Hsh e1 e2 H1 H2.
  assert (He : index_of c (w_reg w) <> None) by (apply (inv_group_exists sc w c Hinv); exists e1; exact H1).
  destruct (index_of c (w_reg w)) as [n|] eqn:E; [|congruence]. destruct (index_of_nth _ _ _ E) as (g & _ & Hc & Hin).
  destruct (inv_shared sc w c g Hinv Hin Hc Hsh) as (ents & i & _ & _ & _ & Hm & Hget).
  exists i. rewrite !Hget. apply Hm, memz_in in H1. apply Hm, memz_in in H2. rewrite H1, H2. split; reflexivity.
Qed.

(* --- arrivals --- *)
Lemma insert_ctx_effective sc w e c cs :
  holds_of e (w_holds w) = Some cs -> memz c cs = false -> memz c (s_menu sc) = true ->
  w_reg (oo_world (insert_ctx sc w e c)) = reg_add (mk_inst sc c) c e (w_reg w).
Proof. intros He H1 H2. unfold insert_ctx. rewrite He, H1, H2. reflexivity. Qed.

(* the first holder of a type (in particular after the last one left): a fresh instance *)
Lemma insert_fresh sc w e c cs :
  holds_of e (w_holds w) = Some cs -> memz c (s_menu sc) = true -> index_of c (w_reg w) = None -> mirror w ->
  reg_get c e (w_reg (oo_world (insert_ctx sc w e c))) = Some (mk_inst sc c e).
Proof.
  intros He Hmenu Hi Hm.
  assert (Hc : memz c cs = false).
  { destruct (memz c cs) eqn:E; [|reflexivity]. exfalso.
    assert (H : reg_get c e (w_reg w) <> None) by (apply Hm; exists cs; split; assumption).
    apply H. apply reg_get_absent. apply index_of_none. exact Hi. }
  rewrite (insert_ctx_effective sc w e c cs He Hc Hmenu). apply reg_add_fresh. exact Hi.
Qed.

(* exclusive type: the new holder gets a fresh instance of its own, the others keep theirs *)
Lemma insert_exclusive sc w e c cs : reg_inv sc w ->
  holds_of e (w_holds w) = Some cs -> memz c cs = false -> memz c (s_menu sc) = true -> ctx_shared c = false ->
  let w' := oo_world (insert_ctx sc w e c) in
  reg_get c e (w_reg w') = Some (mk_inst sc c e) /\
  forall e', e' <> e -> reg_get c e' (w_reg w') = reg_get c e' (w_reg w).
Proof.
  intros Hinv He Hc Hmenu Hsh. cbv zeta. rewrite (insert_ctx_effective sc w e c cs He Hc Hmenu).
  destruct (index_of c (w_reg w)) as [n|] eqn:Ei.
  - destruct (index_of_nth _ _ _ Ei) as (g & _ & Hg & Hin).
    destruct (inv_exclusive sc w c g Hinv Hin Hg Hsh) as (insts & -> & Hnd & Hm & _).
    destruct Hinv as (_ & Hd & _). destruct (reg_split _ _ Hd Hin) as (l1 & l2 & Er & Hn1 & _). cbn [g_ctx] in Hn1.
    rewrite Er. apply reg_add_excl; [exact Hn1|]. intros H. apply Hm in H. destruct H as (cs' & H1 & H2). congruence.
  - split; [apply reg_add_fresh; exact Ei|]. intros e' Hne.
    rewrite (reg_get_absent c e' (w_reg w)) by (apply index_of_none; exact Ei).
    rewrite (reg_add_new _ _ _ _ Ei), insert_at_firstn_skipn. apply index_of_none in Ei.
    rewrite reg_get_found; [| |apply new_group_fields].
    + unfold new_group. rewrite Hsh. cbn. destruct (Z.eqb e e') eqn:E; [apply Z.eqb_eq in E; congruence | reflexivity].
    + intros H. apply Ei. rewrite <- (firstn_skipn (bsearch (ctx_prio c) (w_reg w)) (w_reg w)), map_app. apply in_or_app. left. exact H.
Qed.

(* shared type with holders: the newcomer joins the common instance, which is not rebuilt *)
Lemma insert_shared sc w e c cs : reg_inv sc w ->
  holds_of e (w_holds w) = Some cs -> memz c cs = false -> memz c (s_menu sc) = true -> ctx_shared c = true ->
  index_of c (w_reg w) <> None ->
  exists i, (forall e', holds (w_holds w) c e' -> reg_get c e' (w_reg w) = Some i) /\
            let w' := oo_world (insert_ctx sc w e c) in
            reg_get c e (w_reg w') = Some i /\ forall e', holds (w_holds w) c e' -> reg_get c e' (w_reg w') = Some i.
Proof.
  intros Hinv He Hc Hmenu Hsh Hi. cbv zeta. rewrite (insert_ctx_effective sc w e c cs He Hc Hmenu).
  destruct (index_of c (w_reg w)) as [n|] eqn:Ei; [|congruence].
  destruct (index_of_nth _ _ _ Ei) as (g & _ & Hg & Hin).
  destruct (inv_shared sc w c g Hinv Hin Hg Hsh) as (ents & i & -> & Hnd & Hne & Hm & Hget).
  destruct Hinv as (_ & Hd & _). destruct (reg_split _ _ Hd Hin) as (l1 & l2 & Er & Hn1 & _). cbn [g_ctx] in Hn1.
  exists i. split.
  - intros e' H. rewrite Hget. apply Hm, memz_in in H. rewrite H. reflexivity.
  - rewrite Er. split.
    + rewrite reg_add_shared by exact Hn1. rewrite Z.eqb_refl. reflexivity.
    + intros e' H. rewrite reg_add_shared by exact Hn1. destruct (Z.eqb e' e); [reflexivity|].
      rewrite <- Er, Hget. apply Hm, memz_in in H. rewrite H. reflexivity.
Qed.

(* --- the last holder leaves: the group is gone --- *)
Lemma remove_last sc w e c : reg_inv sc w -> (forall e', holds (w_holds w) c e' -> e' = e) ->
  exists o, remove_ctx w e c = Some o /\ index_of c (w_reg (oo_world o)) = None.
Proof.
  intros Hinv Honly. destruct (remove_ctx_spec sc w e c Hinv) as (o & Ho & Hinv' & Hh). exists o. split; [exact Ho|].
  destruct (index_of c (w_reg (oo_world o))) as [n|] eqn:E; [|reflexivity]. exfalso.
  assert (Hex : exists e', holds (w_holds (oo_world o)) c e') by (apply (inv_group_exists sc _ c Hinv'); congruence).
  destruct Hex as (e' & He'). apply Hh in He'. destruct He' as [H1 H2]. apply H2. split; [reflexivity | apply Honly; exact H1].
Qed.

(* the priorities of the harness' context types are pairwise distinct (not needed by any proof above) *)
Definition prio_distinct (menu : list ctx) : Prop :=
  forall c1 c2, In c1 menu -> In c2 menu -> ctx_prio c1 = ctx_prio c2 -> c1 = c2.
Lemma prio_distinct_harness menu : (forall c, In c menu -> 0 <= c <= 7) -> prio_distinct menu.
Proof.
  intros H c1 c2 H1 H2. apply H in H1. apply H in H2.
  assert (E1 : c1 = 0 \/ c1 = 1 \/ c1 = 2 \/ c1 = 3 \/ c1 = 4 \/ c1 = 5 \/ c1 = 6 \/ c1 = 7) by lia.
  assert (E2 : c2 = 0 \/ c2 = 1 \/ c2 = 2 \/ c2 = 3 \/ c2 = 4 \/ c2 = 5 \/ c2 = 6 \/ c2 = 7) by lia.
  destruct E1 as [->|[->|[->|[->|[->|[->|[->| ->]]]]]]]; destruct E2 as [->|[->|[->|[->|[->|[->|[->| ->]]]]]]]; cbn; intros; congruence.
Qed.
