(* C02, third sentence, at world level WITH reactions: "When the deactivation is requested from inside an
   observer of the same frame's action events the closing event may overtake the rest of that frame's events,
   but every episode is still closed exactly once."

   Counting form, for ONE (context type c, entity e, action a): over any frame with armed reactions
   (Model/React.v frame_r) and any operation issued by the harness with armed reactions (op_r), and over whole
   runs of such steps,
       open before + #Started - #(Canceled or Completed) = open after,
   where "open" (0 or 1) says whether the registry stores a state other than None for (c, e, a).  The order in
   which the events of the frame reach e is exactly what the sentence leaves open; the count does not depend on it.

   Plan of the file
     1. counting: cnt, balance, invariance under permutation
     2. deliver linearised: the reactions that fired, in the order their operations were applied, are a run_ops
        (deliver_linear); the queue itself is delivered in order (deliver_in_order)
     3. one operation keeps the balance (from track_op); lists of operations (run_ops)
     4. a frame's own evaluation keeps the balance (from track_frame)
     5. op_r, ops_r and frame_r linearised; the main theorems frame_r_balance, op_r_balance (and their general
        forms frame_r_balance_gen, op_r_balance_gen)
     6. whole runs from any world satisfying the invariants and from world_init
     7. a run of the model showing that the side condition below cannot be dropped

   The one exception to the equation is inherent in the crate's design and is stated, not hidden: an entity that
   JOINS A LIVE SHARED INSTANCE (ctx_shared c, another holder is in the middle of an episode) is given the data of
   the other holders without any event: open jumps from 0 to 1 with no Started, and the terminal event it gets
   when it leaves has no Started before it (section 7 exhibits such a run).  Sections 3, 5 and 6 therefore give
     - the exact account without any side condition, with joining a live shared instance counted like a Started:
           open before + balance + live_joins = open after
       over the operations actually applied (those of the fired reactions and of the frame, as linearised in 2);
     - hence the inequality  open before + balance <= open after  unconditionally;
     - the equation  open before + balance = open after  under the semantic side condition [ops_join_free] (no
       operation actually applied makes e join a live shared instance), and
     - the equation under the static sufficient condition [no_join_inputs], a scenario-level hypothesis: the
       context type is not shared, or no armed reaction and no operation of the step gives c to e. *)
From Coq Require Import Sorting.Permutation Lia ZArith List QArith.
From BEI Require Import Model.Frame Model.React Spec.Events Spec.Episode Proofs.StateP Proofs.EpisodeP Proofs.RegistryP
  Proofs.TrackDefs Proofs.TrackFrameP Proofs.TrackOpP Proofs.TrackP Proofs.ReactP.
Import ListNotations.
Open Scope Z_scope.

(* ================================================================================================ *)
(* 1. counting                                                                                      *)
(* ================================================================================================ *)
Definition cnt (f : evkind -> bool) (l : list event) : Z := Z.of_nat (length (filter (fun ev => f (e_kind ev)) l)).
Definition is_started (k : evkind) := match k with EStarted => true | _ => false end.
Definition is_terminal (k : evkind) := match k with ECanceled | ECompleted => true | _ => false end.
Definition open_of (d : option data) : Z :=
  match d with Some x => (if state_eqb (d_state x) SNone then 0 else 1) | None => 0 end.
(* the balance of a stream for (e, a): episodes opened minus episodes closed *)
Definition balance (e : entity) (a : aid) (l : list event) : Z :=
  cnt is_started (ev_of e a l) - cnt is_terminal (ev_of e a l).

Lemma open_of_range d : 0 <= open_of d <= 1.
Proof. unfold open_of. destruct d as [x|]; [destruct (state_eqb (d_state x) SNone)|]; lia. Qed.

Lemma cnt_nil f : cnt f [] = 0.
Proof. reflexivity. Qed.
Lemma cnt_cons f ev l : cnt f (ev :: l) = (if f (e_kind ev) then 1 else 0) + cnt f l.
Proof. unfold cnt. cbn [filter]. destruct (f (e_kind ev)); cbn [length]; lia. Qed.
Lemma cnt_app f l1 l2 : cnt f (l1 ++ l2) = cnt f l1 + cnt f l2.
Proof. unfold cnt. rewrite filter_app, app_length. lia. Qed.
Lemma cnt_nonneg f l : 0 <= cnt f l.
Proof. unfold cnt. lia. Qed.
Lemma cnt_perm f l l' : Permutation l l' -> cnt f l = cnt f l'.
Proof.
  intros P. induction P as [|x l l' P IH|x y l|l l' l'' P1 IH1 P2 IH2].
  - reflexivity.
  - rewrite !cnt_cons, IH. reflexivity.
  - rewrite !cnt_cons. lia.
  - congruence.
Qed.

Lemma filter_perm {A} (p : A -> bool) l l' : Permutation l l' -> Permutation (filter p l) (filter p l').
Proof.
  intros P. induction P as [|x l l' P IH|x y l|l l' l'' P1 IH1 P2 IH2].
  - constructor.
  - cbn [filter]. destruct (p x); [constructor|]; exact IH.
  - cbn [filter]. destruct (p x), (p y); try apply Permutation_refl. constructor.
  - eapply Permutation_trans; eassumption.
Qed.
Lemma ev_of_perm e a l l' : Permutation l l' -> Permutation (ev_of e a l) (ev_of e a l').
Proof. unfold ev_of. apply filter_perm. Qed.

Lemma balance_nil e a : balance e a [] = 0.
Proof. reflexivity. Qed.
Lemma balance_app e a l1 l2 : balance e a (l1 ++ l2) = balance e a l1 + balance e a l2.
Proof. unfold balance. rewrite TrackOpP.ev_of_app, !cnt_app. lia. Qed.
(* the order in which the events reach e does not matter *)
Lemma balance_perm e a l l' : Permutation l l' -> balance e a l = balance e a l'.
Proof. intros P. unfold balance. rewrite !(cnt_perm _ _ _ (ev_of_perm e a l l' P)). reflexivity. Qed.
Lemma balance_none e a l : ev_of e a l = [] -> balance e a l = 0.
Proof. intros H. unfold balance. rewrite H. reflexivity. Qed.

(* the balance of a list of kinds *)
Definition kbal (ks : list evkind) : Z :=
  Z.of_nat (length (filter is_started ks)) - Z.of_nat (length (filter is_terminal ks)).
Lemma cnt_kinds f l : cnt f l = Z.of_nat (length (filter f (kinds l))).
Proof.
  unfold cnt, kinds. induction l as [|ev l IH]; cbn [filter map]; [reflexivity|].
  destruct (f (e_kind ev)); cbn [length]; lia.
Qed.
Lemma balance_kinds e a l : balance e a l = kbal (kinds (ev_of e a l)).
Proof. unfold balance, kbal. rewrite !cnt_kinds. reflexivity. Qed.

Definition sopen (s : state) : Z := if state_eqb s SNone then 0 else 1.
Lemma open_of_some d : open_of (Some d) = sopen (d_state d).
Proof. reflexivity. Qed.
(* the documented transition table: one Started iff an episode opens, one terminal event iff one closes *)
Lemma kbal_table s s1 : kbal (table s s1) = sopen s1 - sopen s.
Proof. destruct s, s1; reflexivity. Qed.
(* a closing chunk: exactly one terminal event iff an episode was open *)
Lemma kbal_close s ks : close_chunk (acc_of s) ks = true -> kbal ks = - sopen s.
Proof.
  intros H. destruct s; cbn [acc_of close_chunk] in H.
  - destruct ks; [reflexivity | discriminate].
  - destruct ks as [|k [|k2 ks]]; try discriminate; destruct k; try discriminate; reflexivity.
  - destruct ks as [|k [|k2 ks]]; try discriminate; destruct k; try discriminate; reflexivity.
Qed.
Lemma kinds_mk_events a d e ks : kinds (map (fun k => mk_event a d k e) ks) = ks.
Proof.
  unfold kinds. rewrite map_map. erewrite map_ext; [apply map_id|]. intros k. apply TrackOpP.mk_event_kind.
Qed.
Lemma sopen_data_new dm : sopen (d_state (data_new dm)) = 0.
Proof. reflexivity. Qed.
Lemma open_of_data_new dm : open_of (Some (data_new dm)) = 0.
Proof. reflexivity. Qed.
Lemma sopen_range s : 0 <= sopen s <= 1.
Proof. unfold sopen. destruct (state_eqb s SNone); lia. Qed.

(* ================================================================================================ *)
(* 2. deliver, linearised                                                                           *)
(* ================================================================================================ *)
Lemma take_match_perm ev armed r armed' : take_match ev armed = Some (r, armed') -> Permutation armed (r :: armed').
Proof.
  revert r armed'. induction armed as [|x rest IH]; intros r armed' H; cbn [take_match] in H; [discriminate|].
  destruct (matches x ev).
  - inversion H; subst. apply Permutation_refl.
  - destruct (take_match ev rest) as [[y rest']|] eqn:E; [|discriminate]. inversion H; subst.
    eapply Permutation_trans; [apply perm_skip; apply IH; reflexivity | apply perm_swap].
Qed.
Lemma take_match_matches ev armed r armed' : take_match ev armed = Some (r, armed') -> matches r ev = true.
Proof.
  revert r armed'. induction armed as [|x rest IH]; intros r armed' H; cbn [take_match] in H; [discriminate|].
  destruct (matches x ev) eqn:Em.
  - inversion H; subst. exact Em.
  - destruct (take_match ev rest) as [[y rest']|] eqn:E; [|discriminate]. inversion H; subst. eapply IH. reflexivity.
Qed.

Lemma prefix_out_prefix_out ev bl ev' bl' o :
  prefix_out ev bl (prefix_out ev' bl' o) = prefix_out (ev ++ ev') (bl ++ bl') o.
Proof. unfold prefix_out. cbn [oo_world oo_events oo_built]. rewrite !app_assoc. reflexivity. Qed.
Lemma prefix_out_nil o : prefix_out [] [] o = o.
Proof. destruct o. reflexivity. Qed.

(* run_ops over a concatenation *)
Lemma run_ops_app sc ops1 : forall w ops2,
  run_ops sc w (ops1 ++ ops2) =
  match run_ops sc w ops1 with
  | Some o1 => option_map (prefix_out (oo_events o1) (oo_built o1)) (run_ops sc (oo_world o1) ops2)
  | None => None
  end.
Proof.
  induction ops1 as [|o ops1 IH]; intros w ops2.
  - rewrite run_ops_nil. cbn [app oo_world oo_events oo_built]. destruct (run_ops sc w ops2) as [o2|]; [|reflexivity].
    cbn [option_map]. rewrite prefix_out_nil. reflexivity.
  - cbn [app]. rewrite !run_ops_cons. destruct (apply_op sc w o) as [r|]; [|reflexivity].
    rewrite IH. destruct (run_ops sc (oo_world r) ops1) as [o1|]; [|reflexivity]. cbn [option_map].
    change (oo_world (prefix_out (oo_events r) (oo_built r) o1)) with (oo_world o1).
    destruct (run_ops sc (oo_world o1) ops2) as [o2|]; [|reflexivity]. cbn [option_map].
    rewrite prefix_out_prefix_out. reflexivity.
Qed.
Lemma run_ops_app_some sc w ops1 ops2 o1 o2 :
  run_ops sc w ops1 = Some o1 -> run_ops sc (oo_world o1) ops2 = Some o2 ->
  run_ops sc w (ops1 ++ ops2) = Some (mkOpOut (oo_world o2) (oo_events o1 ++ oo_events o2) (oo_built o1 ++ oo_built o2)).
Proof. intros H1 H2. rewrite run_ops_app, H1, H2. reflexivity. Qed.
Lemma run_ops_cons_some sc w o ops r o2 :
  apply_op sc w o = Some r -> run_ops sc (oo_world r) ops = Some o2 ->
  run_ops sc w (o :: ops) = Some (mkOpOut (oo_world o2) (oo_events r ++ oo_events o2) (oo_built r ++ oo_built o2)).
Proof. intros H1 H2. rewrite run_ops_cons, H1, H2. reflexivity. Qed.

(* the two equations of [deliver] *)
Lemma deliver_nil sc fuel armed w : deliver sc fuel [] armed w = Some (mkDeliv [] armed w []).
Proof. destruct fuel; reflexivity. Qed.
Lemma deliver_cons sc fuel ev rest armed w :
  deliver sc fuel (ev :: rest) armed w =
  match take_match ev armed with
  | None => match deliver sc fuel rest armed w with
            | Some d => Some (mkDeliv (ev :: dv_events d) (dv_armed d) (dv_world d) (dv_built d))
            | None => None
            end
  | Some (r, armed') =>
      match fuel with
      | O => None
      | S fuel' =>
          match apply_op sc w (r_op r) with
          | None => None
          | Some oo =>
              match deliver sc fuel' (oo_events oo) armed' (oo_world oo) with
              | None => None
              | Some d1 =>
                  match deliver sc fuel' rest (dv_armed d1) (dv_world d1) with
                  | None => None
                  | Some d2 => Some (mkDeliv (ev :: dv_events d1 ++ dv_events d2) (dv_armed d2) (dv_world d2)
                                             (oo_built oo ++ dv_built d1 ++ dv_built d2))
                  end
              end
          end
      end
  end.
Proof. destruct fuel; reflexivity. Qed.

(* [deliver] as a run of operations: [fired] are the reactions that fired, in the order their operations were
   applied (depth-first); the armed reactions are those that fired plus those still armed; the world and the
   instances built are those of [run_ops] over the fired operations; the events delivered are the queue plus
   the events of those operations, in the depth-first interleaving - a permutation of the concatenation *)
Theorem deliver_linear sc : forall fuel evs armed w d,
  deliver sc fuel evs armed w = Some d ->
  exists fired oo,
    Permutation armed (fired ++ dv_armed d) /\
    run_ops sc w (map r_op fired) = Some oo /\
    dv_world d = oo_world oo /\ dv_built d = oo_built oo /\
    Permutation (dv_events d) (evs ++ oo_events oo).
Proof.
  assert (Hnil : forall armed w, exists fired oo,
            Permutation armed (fired ++ armed) /\ run_ops sc w (map r_op fired) = Some oo /\
            w = oo_world oo /\ [] = oo_built oo /\ Permutation (@nil event) ([] ++ oo_events oo)).
  { intros armed w. exists [], (mkOpOut w [] []). cbn [app map oo_world oo_built oo_events].
    split; [apply Permutation_refl|]. split; [apply run_ops_nil|]. split; [reflexivity|]. split; [reflexivity | constructor]. }
  assert (Hskip : forall ev rest armed w d0,
            (exists fired oo, Permutation armed (fired ++ dv_armed d0) /\ run_ops sc w (map r_op fired) = Some oo /\
               dv_world d0 = oo_world oo /\ dv_built d0 = oo_built oo /\ Permutation (dv_events d0) (rest ++ oo_events oo)) ->
            exists fired oo, Permutation armed (fired ++ dv_armed d0) /\ run_ops sc w (map r_op fired) = Some oo /\
               dv_world d0 = oo_world oo /\ dv_built d0 = oo_built oo /\
               Permutation (ev :: dv_events d0) ((ev :: rest) ++ oo_events oo)).
  { intros ev rest armed w d0 (fired & oo & H1 & H2 & H3 & H4 & H5). exists fired, oo.
    split; [exact H1|]. split; [exact H2|]. split; [exact H3|]. split; [exact H4|]. cbn [app]. apply perm_skip. exact H5. }
  induction fuel as [|fuel IHf]; induction evs as [|ev rest IHe]; intros armed w d H.
  - rewrite deliver_nil in H. injection H as <-. cbn [dv_armed dv_world dv_built dv_events]. apply Hnil.
  - rewrite deliver_cons in H. destruct (take_match ev armed) as [[r armed']|] eqn:E; [discriminate|].
    destruct (deliver sc 0 rest armed w) as [d0|] eqn:E0; [|discriminate].
    injection H as <-. cbn [dv_armed dv_world dv_built dv_events]. apply Hskip. apply IHe. exact E0.
  - rewrite deliver_nil in H. injection H as <-. cbn [dv_armed dv_world dv_built dv_events]. apply Hnil.
  - rewrite deliver_cons in H. destruct (take_match ev armed) as [[r armed']|] eqn:E.
    + destruct (apply_op sc w (r_op r)) as [oo0|] eqn:Ea; [|discriminate].
      destruct (deliver sc fuel (oo_events oo0) armed' (oo_world oo0)) as [d1|] eqn:E1; [|discriminate].
      destruct (deliver sc fuel rest (dv_armed d1) (dv_world d1)) as [d2|] eqn:E2; [|discriminate].
      injection H as <-. cbn [dv_armed dv_world dv_built dv_events].
      destruct (IHf _ _ _ _ E1) as (f1 & o1 & P1 & R1 & W1 & B1 & V1).
      destruct (IHf _ _ _ _ E2) as (f2 & o2 & P2 & R2 & W2 & B2 & V2).
      rewrite W1 in R2.
      pose proof (run_ops_app_some sc _ _ _ _ _ R1 R2) as R12. rewrite <- map_app in R12.
      pose proof (run_ops_cons_some sc w (r_op r) _ oo0 _ Ea R12) as R. cbn [oo_world oo_events oo_built] in R.
      exists (r :: f1 ++ f2). eexists. split; [|split; [cbn [map]; exact R|]].
      * eapply Permutation_trans; [apply (take_match_perm _ _ _ _ E)|]. cbn [app]. apply perm_skip.
        eapply Permutation_trans; [exact P1|]. rewrite <- app_assoc. apply Permutation_app_head. exact P2.
      * cbn [oo_world oo_events oo_built]. split; [exact W2|]. split; [rewrite B1, B2; reflexivity|].
        cbn [app]. apply perm_skip.
        eapply Permutation_trans; [apply Permutation_app; [exact V1 | exact V2]|].
        rewrite <- !app_assoc. rewrite (app_assoc (oo_events oo0) (oo_events o1)).
        eapply Permutation_trans; [apply Permutation_app_swap_app|]. apply Permutation_app_head.
        rewrite <- !app_assoc. apply Permutation_app_head. apply Permutation_app_head. apply Permutation_refl.
    + destruct (deliver sc (S fuel) rest armed w) as [d0|] eqn:E0; [|discriminate].
      injection H as <-. cbn [dv_armed dv_world dv_built dv_events]. apply Hskip. apply IHe. exact E0.
Qed.

(* the queue itself is delivered in order: what a reaction inserts comes right after the event that fired it,
   the rest of the queue keeps its order *)
Inductive sub {A : Type} : list A -> list A -> Prop :=
| sub_nil l : sub [] l
| sub_skip x a b : sub a b -> sub a (x :: b)
| sub_keep x a b : sub a b -> sub (x :: a) (x :: b).
Lemma sub_app_l {A} (p a b : list A) : sub a b -> sub a (p ++ b).
Proof. intros H. induction p as [|x p IH]; cbn [app]; [exact H | apply sub_skip; exact IH]. Qed.
Lemma sub_refl {A} (l : list A) : sub l l.
Proof. induction l as [|x l IH]; [apply sub_nil | apply sub_keep; exact IH]. Qed.
Lemma sub_app_r {A} (a b q : list A) : sub a b -> sub a (b ++ q).
Proof.
  intros H. induction H as [l|x a b H IH|x a b H IH]; cbn [app]; [apply sub_nil | apply sub_skip; exact IH | apply sub_keep; exact IH].
Qed.

Theorem deliver_in_order sc : forall fuel evs armed w d,
  deliver sc fuel evs armed w = Some d -> sub evs (dv_events d).
Proof.
  induction fuel as [|fuel IHf]; induction evs as [|ev rest IHe]; intros armed w d H.
  - apply sub_nil.
  - rewrite deliver_cons in H. destruct (take_match ev armed) as [[r armed']|] eqn:E; [discriminate|].
    destruct (deliver sc 0 rest armed w) as [d0|] eqn:E0; [|discriminate].
    injection H as <-. cbn [dv_events]. apply sub_keep. eapply IHe. exact E0.
  - apply sub_nil.
  - rewrite deliver_cons in H. destruct (take_match ev armed) as [[r armed']|] eqn:E.
    + destruct (apply_op sc w (r_op r)) as [oo0|] eqn:Ea; [|discriminate].
      destruct (deliver sc fuel (oo_events oo0) armed' (oo_world oo0)) as [d1|] eqn:E1; [|discriminate].
      destruct (deliver sc fuel rest (dv_armed d1) (dv_world d1)) as [d2|] eqn:E2; [|discriminate].
      injection H as <-. cbn [dv_events]. apply sub_keep. apply sub_app_l. eapply IHf. exact E2.
    + destruct (deliver sc (S fuel) rest armed w) as [d0|] eqn:E0; [|discriminate].
      injection H as <-. cbn [dv_events]. apply sub_keep. eapply IHe. exact E0.
Qed.

(* ================================================================================================ *)
(* 3. one operation keeps the balance                                                               *)
(* ================================================================================================ *)
(* operations that give e the component c *)
Definition joins (o : op) (c : ctx) (e : entity) : bool :=
  match o with
  | OInsert e' c' => Z.eqb e e' && Z.eqb c c'
  | OSpawn e' cs => Z.eqb e e' && memz c cs
  | _ => false
  end.

Definition spawn_f (sc : scenario) (e' : entity) := fun (acc : op_out) (c : ctx) =>
  let o := insert_ctx sc (oo_world acc) e' c in
  mkOpOut (oo_world o) (oo_events acc ++ oo_events o) (oo_built acc ++ oo_built o).

(* inserting other component types does not touch the instances of type c *)
Lemma spawn_fold_other sc e' c x cs : ~ In c cs -> forall acc,
  reg_inv sc (oo_world acc) -> cfg_inv sc (w_reg (oo_world acc)) ->
  reg_get c x (w_reg (oo_world (fold_left (spawn_f sc e') cs acc))) = reg_get c x (w_reg (oo_world acc)).
Proof.
  induction cs as [|c1 cs IH]; intros Hn acc Hinv Hcfg; cbn [fold_left]; [reflexivity|].
  destruct (insert_step sc (oo_world acc) e' c1 Hinv Hcfg) as (_ & S2 & S3 & _).
  pose proof (insert_ctx_inv sc (oo_world acc) e' c1 Hinv) as Hinv1.
  rewrite IH.
  - unfold spawn_f at 1. cbn [oo_world]. apply S3. left. intros ->. apply Hn. left. reflexivity.
  - intros H. apply Hn. right. exact H.
  - unfold spawn_f. cbn [oo_world]. exact Hinv1.
  - unfold spawn_f. cbn [oo_world]. exact S2.
Qed.

(* an operation that neither deactivates (c, e) nor gives c to e leaves the instance of (c, e) alone *)
Lemma quiet_op_get sc c e a w o oo :
  reg_inv sc w -> cfg_inv sc (w_reg w) -> owner sc c a -> apply_op sc w o = Some oo ->
  deactivates o c e = false -> joins o c e = false ->
  reg_get c e (w_reg (oo_world oo)) = reg_get c e (w_reg w).
Proof.
  intros Hinv Hcfg Ho H Hd Hj. destruct o as [e' cs|e' c'|e' c'|e'|]; cbn [deactivates joins] in Hd, Hj.
  - cbn [apply_op] in H. destruct (holds_of e' (w_holds w)) as [old|] eqn:He; [injection H as <-; reflexivity|].
    injection H as <-.
    change (reg_get c e (w_reg (oo_world (fold_left (spawn_f sc e') cs
              (mkOpOut (mkWorld (w_holds w ++ [(e', [])]) (w_reg w) (w_time w)) [] [])))) = reg_get c e (w_reg w)).
    assert (Hinv0 : reg_inv sc (mkWorld (w_holds w ++ [(e', [])]) (w_reg w) (w_time w))) by (apply spawn_world_inv; assumption).
    destruct (Z.eqb e e') eqn:E; cbn [andb] in Hj.
    + rewrite spawn_fold_other; [reflexivity | apply memz_false; exact Hj | exact Hinv0 | exact Hcfg].
    + apply Z.eqb_neq in E.
      destruct (spawn_fold_step sc e' cs (mkOpOut (mkWorld (w_holds w ++ [(e', [])]) (w_reg w) (w_time w)) [] []) Hinv0 Hcfg)
        as (_ & _ & S3 & _).
      apply S3. exact E.
  - cbn [apply_op] in H. injection H as <-. destruct (insert_step sc w e' c' Hinv Hcfg) as (_ & _ & S3 & _). apply S3.
    apply andb_false_iff in Hj. destruct Hj as [E|E]; apply Z.eqb_neq in E; [right | left]; congruence.
  - cbn [apply_op] in H. destruct (remove_step sc c e a w e' c' oo Hinv Hcfg Ho H) as (_ & _ & S3 & _). apply S3.
    apply andb_false_iff in Hd. destruct Hd as [E|E]; apply Z.eqb_neq in E; [right | left]; congruence.
  - apply Z.eqb_neq in Hd. cbn [apply_op] in H. destruct (holds_of e' (w_holds w)) as [cs0|] eqn:He; [|injection H as <-; reflexivity].
    change (match fold_left (despawn_f e') (filter (fun c => memz c cs0) (s_menu sc)) (Some (mkOpOut w [] [])) with
            | Some a0 => Some (mkOpOut (mkWorld (del_ent e' (w_holds (oo_world a0))) (w_reg (oo_world a0)) (w_time w)) (oo_events a0) [])
            | None => None
            end = Some oo) in H.
    destruct (fold_left (despawn_f e') (filter (fun c => memz c cs0) (s_menu sc)) (Some (mkOpOut w [] []))) as [acc'|] eqn:Ef; [|discriminate].
    injection H as <-. cbn [oo_world w_reg].
    destruct (despawn_fold_track sc c e a (stored (w_reg w) c e a) e' Ho _ (mkOpOut w [] []) acc' Hinv Hcfg Ef) as (_ & D2 & _).
    cbn [oo_world] in D2. apply D2. exact Hd.
  - discriminate.
Qed.

(* One operation, seen by the balance of (c, e, a).  Either the equation holds, or - the only exception - the
   operation makes e join a shared instance that another holder e2 has in the middle of an episode: e is given
   that data without any event. *)
Lemma op_balance_cases sc c e a w o oo :
  reg_inv sc w -> cfg_inv sc (w_reg w) -> owner sc c a -> apply_op sc w o = Some oo ->
  reg_inv sc (oo_world oo) /\ cfg_inv sc (w_reg (oo_world oo)) /\
  (open_of (stored (w_reg w) c e a) + balance e a (oo_events oo) = open_of (stored (w_reg (oo_world oo)) c e a) \/
   (stored (w_reg w) c e a = None /\ ctx_shared c = true /\ joins o c e = true /\
    balance e a (oo_events oo) = 0 /\ open_of (stored (w_reg (oo_world oo)) c e a) = 1 /\
    exists e2, e2 <> e /\ open_of (stored (w_reg w) c e2 a) = 1)).
Proof.
  intros Hinv Hcfg Ho H.
  destruct (apply_op_inv sc w o Hinv) as (r0 & Hr0 & Hinv1). rewrite H in Hr0. injection Hr0 as <-.
  destruct (track_op sc c e a w o oo Hinv Hcfg Ho H) as [T1 T2]. cbv zeta in T1, T2.
  split; [exact Hinv1|]. split; [exact T1|].
  destruct (stored (w_reg w) c e a) as [d|] eqn:Es.
  - left. destruct (deactivates o c e).
    + destruct T2 as (H3 & _ & H5). rewrite balance_kinds, (kbal_close _ _ H3), open_of_some.
      destruct H5 as [-> | ->]; [change (open_of None) with 0 | rewrite open_of_data_new]; lia.
    + destruct T2 as (H3 & ->). rewrite (balance_none _ _ _ H3). lia.
  - destruct T2 as [H3 H4]. rewrite (balance_none _ _ _ H3).
    destruct (stored (w_reg (oo_world oo)) c e a) as [d'|] eqn:Es'; [|left; reflexivity].
    destruct (H4 d' eq_refl) as [[_ ->]|[Hd [-> |(Hsh & e2 & Hne & He2)]]]; [left; reflexivity | left; reflexivity|].
    destruct (joins o c e) eqn:Ej.
    + rewrite open_of_some. unfold sopen. destruct (state_eqb (d_state d') SNone) eqn:Est; [left; reflexivity|].
      right. split; [reflexivity|]. split; [exact Hsh|]. split; [reflexivity|]. split; [reflexivity|]. split; [reflexivity|].
      exists e2. split; [exact Hne|]. rewrite He2, open_of_some. unfold sopen. rewrite Est. reflexivity.
    + exfalso. pose proof (quiet_op_get sc c e a w o oo Hinv Hcfg Ho H Hd Ej) as Hg.
      rewrite (stored_get_eq _ _ c e a Hg) in Es'. congruence.
Qed.

(* the side condition: this step does not make e join a live shared instance *)
Definition join_free_at (c : ctx) (e : entity) (a : aid) (r r' : registry) : Prop :=
  stored r c e a <> None \/ ctx_shared c = false \/ open_of (stored r' c e a) = 0.

(* GOAL 2, the formulation chosen: the equation under the (semantic) side condition ... *)
Theorem op_balance sc c e a w o oo :
  reg_inv sc w -> cfg_inv sc (w_reg w) -> owner sc c a -> apply_op sc w o = Some oo ->
  join_free_at c e a (w_reg w) (w_reg (oo_world oo)) ->
  open_of (stored (w_reg w) c e a) + balance e a (oo_events oo) = open_of (stored (w_reg (oo_world oo)) c e a).
Proof.
  intros Hinv Hcfg Ho H Hj. destruct (op_balance_cases sc c e a w o oo Hinv Hcfg Ho H) as (_ & _ & [Heq|(J1 & J2 & _ & _ & J5 & _)]); [exact Heq|].
  exfalso. destruct Hj as [Hj|[Hj|Hj]]; [congruence | congruence | lia].
Qed.
(* ... which holds in particular for every operation that does not give c to e, and for every context type
   that is not shared ... *)
Lemma join_free_static sc c e a w o oo :
  reg_inv sc w -> cfg_inv sc (w_reg w) -> owner sc c a -> apply_op sc w o = Some oo ->
  ctx_shared c = false \/ joins o c e = false -> join_free_at c e a (w_reg w) (w_reg (oo_world oo)).
Proof.
  intros Hinv Hcfg Ho H [Hs|Hj]; [right; left; exact Hs|].
  destruct (op_balance_cases sc c e a w o oo Hinv Hcfg Ho H) as (_ & _ & [Heq|(_ & _ & J3 & _)]); [|congruence].
  unfold join_free_at. destruct (stored (w_reg w) c e a) as [d|] eqn:Es; [left; discriminate|]. right. right.
  destruct (track_op sc c e a w o oo Hinv Hcfg Ho H) as [_ T2]. cbv zeta in T2. rewrite Es in T2. destruct T2 as [H3 _].
  rewrite (balance_none _ _ _ H3) in Heq. cbn [open_of] in Heq. lia.
Qed.
(* ... and, unconditionally, the inequality: what is opened is closed or still open *)
Theorem op_balance_le sc c e a w o oo :
  reg_inv sc w -> cfg_inv sc (w_reg w) -> owner sc c a -> apply_op sc w o = Some oo ->
  open_of (stored (w_reg w) c e a) + balance e a (oo_events oo) <= open_of (stored (w_reg (oo_world oo)) c e a).
Proof.
  intros Hinv Hcfg Ho H. destruct (op_balance_cases sc c e a w o oo Hinv Hcfg Ho H) as (_ & _ & [Heq|(J1 & _ & _ & J4 & J5 & _)]); [lia|].
  rewrite J1, J4, J5. cbn [open_of]. lia.
Qed.

(* lists of operations: every operation judged on the registry its predecessors left *)
Fixpoint ops_join_free (sc : scenario) (c : ctx) (e : entity) (a : aid) (w : world) (ops : list op) : Prop :=
  match ops with
  | [] => True
  | o :: rest =>
      match apply_op sc w o with
      | Some r => join_free_at c e a (w_reg w) (w_reg (oo_world r)) /\ ops_join_free sc c e a (oo_world r) rest
      | None => False
      end
  end.

Theorem run_ops_balance sc c e a : forall ops w oo,
  reg_inv sc w -> cfg_inv sc (w_reg w) -> owner sc c a -> run_ops sc w ops = Some oo ->
  reg_inv sc (oo_world oo) /\ cfg_inv sc (w_reg (oo_world oo)) /\
  open_of (stored (w_reg w) c e a) + balance e a (oo_events oo) <= open_of (stored (w_reg (oo_world oo)) c e a) /\
  (ops_join_free sc c e a w ops ->
   open_of (stored (w_reg w) c e a) + balance e a (oo_events oo) = open_of (stored (w_reg (oo_world oo)) c e a)) /\
  (ctx_shared c = false \/ (forall o, In o ops -> joins o c e = false) -> ops_join_free sc c e a w ops).
Proof.
  induction ops as [|o ops IH]; intros w oo Hinv Hcfg Ho H.
  - rewrite run_ops_nil in H. injection H as <-. cbn [oo_world oo_events ops_join_free]. rewrite balance_nil.
    split; [exact Hinv|]. split; [exact Hcfg|]. split; [lia|]. split; [intros _; lia | intros _; exact I].
  - rewrite run_ops_cons in H. cbn [ops_join_free]. destruct (apply_op sc w o) as [r|] eqn:Ea; [|discriminate].
    destruct (op_balance_cases sc c e a w o r Hinv Hcfg Ho Ea) as (Hinv1 & Hcfg1 & _).
    pose proof (op_balance_le sc c e a w o r Hinv Hcfg Ho Ea) as Hle.
    destruct (run_ops sc (oo_world r) ops) as [o2|] eqn:E2; [|discriminate]. cbn [option_map] in H. injection H as <-.
    destruct (IH (oo_world r) o2 Hinv1 Hcfg1 Ho E2) as (I1 & I2 & I3 & I4 & I5).
    unfold prefix_out. cbn [oo_world oo_events]. rewrite balance_app.
    split; [exact I1|]. split; [exact I2|]. split; [lia|]. split.
    + intros [J1 J2]. pose proof (op_balance sc c e a w o r Hinv Hcfg Ho Ea J1) as Heq. specialize (I4 J2). lia.
    + intros Hst. split.
      * apply (join_free_static sc c e a w o r Hinv Hcfg Ho Ea). destruct Hst as [Hs|Hj]; [left; exact Hs | right; apply Hj; left; reflexivity].
      * apply I5. destruct Hst as [Hs|Hj]; [left; exact Hs | right; intros o' Ho'; apply Hj; right; exact Ho'].
Qed.

(* the exact account, without side condition: joining a live shared instance opens an episode for e as a
   Started event would *)
Definition live_join_b (c : ctx) (e : entity) (a : aid) (r r' : registry) : bool :=
  match stored r c e a with
  | None => ctx_shared c && Z.eqb (open_of (stored r' c e a)) 1
  | Some _ => false
  end.
Definition jn (b : bool) : Z := if b then 1 else 0.
Fixpoint live_joins (sc : scenario) (c : ctx) (e : entity) (a : aid) (w : world) (ops : list op) : Z :=
  match ops with
  | [] => 0
  | o :: rest =>
      match apply_op sc w o with
      | Some r => jn (live_join_b c e a (w_reg w) (w_reg (oo_world r))) + live_joins sc c e a (oo_world r) rest
      | None => 0
      end
  end.

Lemma live_join_b_free c e a r r' : join_free_at c e a r r' <-> live_join_b c e a r r' = false.
Proof.
  unfold join_free_at, live_join_b. pose proof (open_of_range (stored r' c e a)) as Hr.
  destruct (stored r c e a) as [d|].
  - split; [reflexivity | intros _; left; discriminate].
  - split.
    + intros [H|[H|H]]; [congruence | rewrite H; reflexivity | rewrite H, andb_false_r; reflexivity].
    + intros H. apply andb_false_iff in H. destruct H as [H|H]; [right; left; exact H|]. right. right. apply Z.eqb_neq in H. lia.
Qed.
Lemma live_joins_nonneg sc c e a : forall ops w, 0 <= live_joins sc c e a w ops.
Proof.
  induction ops as [|o ops IH]; intros w; cbn [live_joins]; [lia|]. destruct (apply_op sc w o) as [r|]; [|lia].
  specialize (IH (oo_world r)). unfold jn. destruct (live_join_b c e a (w_reg w) (w_reg (oo_world r))); lia.
Qed.
Lemma live_joins_free sc c e a : forall ops w, ops_join_free sc c e a w ops -> live_joins sc c e a w ops = 0.
Proof.
  induction ops as [|o ops IH]; intros w H; cbn [live_joins ops_join_free] in *; [reflexivity|].
  destruct (apply_op sc w o) as [r|]; [|reflexivity]. destruct H as [H1 H2].
  apply live_join_b_free in H1. rewrite H1, (IH _ H2). reflexivity.
Qed.

Theorem op_balance_exact sc c e a w o oo :
  reg_inv sc w -> cfg_inv sc (w_reg w) -> owner sc c a -> apply_op sc w o = Some oo ->
  open_of (stored (w_reg w) c e a) + balance e a (oo_events oo) + jn (live_join_b c e a (w_reg w) (w_reg (oo_world oo)))
  = open_of (stored (w_reg (oo_world oo)) c e a).
Proof.
  intros Hinv Hcfg Ho H. destruct (live_join_b c e a (w_reg w) (w_reg (oo_world oo))) eqn:E; cbn [jn].
  - unfold live_join_b in E. destruct (track_op sc c e a w o oo Hinv Hcfg Ho H) as [_ T2]. cbv zeta in T2.
    destruct (stored (w_reg w) c e a) as [d|]; [discriminate|]. destruct T2 as [H3 _].
    apply andb_true_iff in E. destruct E as [_ E]. apply Z.eqb_eq in E.
    rewrite (balance_none _ _ _ H3), E. reflexivity.
  - apply live_join_b_free in E. rewrite (op_balance sc c e a w o oo Hinv Hcfg Ho H E). lia.
Qed.
Theorem run_ops_balance_exact sc c e a : forall ops w oo,
  reg_inv sc w -> cfg_inv sc (w_reg w) -> owner sc c a -> run_ops sc w ops = Some oo ->
  open_of (stored (w_reg w) c e a) + balance e a (oo_events oo) + live_joins sc c e a w ops
  = open_of (stored (w_reg (oo_world oo)) c e a).
Proof.
  induction ops as [|o ops IH]; intros w oo Hinv Hcfg Ho H.
  - rewrite run_ops_nil in H. injection H as <-. cbn [oo_world oo_events live_joins]. rewrite balance_nil. lia.
  - rewrite run_ops_cons in H. cbn [live_joins]. destruct (apply_op sc w o) as [r|] eqn:Ea; [|discriminate].
    destruct (op_balance_cases sc c e a w o r Hinv Hcfg Ho Ea) as (Hinv1 & Hcfg1 & _).
    pose proof (op_balance_exact sc c e a w o r Hinv Hcfg Ho Ea) as Hex.
    destruct (run_ops sc (oo_world r) ops) as [o2|] eqn:E2; [|discriminate]. cbn [option_map] in H. injection H as <-.
    pose proof (IH (oo_world r) o2 Hinv1 Hcfg1 Ho E2) as I.
    unfold prefix_out. cbn [oo_world oo_events]. rewrite balance_app. lia.
Qed.

(* ================================================================================================ *)
(* 4. a frame's own evaluation keeps the balance                                                    *)
(* ================================================================================================ *)
Theorem frame_balance sc c e a tm r c0 gs main :
  reg_wf gs -> cfg_inv sc gs -> owner sc c a -> ev_free sc c a ->
  let o := reg_update tm r c0 gs in
  ro_events o = Some main ->
  open_of (stored gs c e a) + balance e a main = open_of (stored (ro_reg o) c e a) /\ cfg_inv sc (ro_reg o).
Proof.
  intros Hwf Hcfg Ho Hf o Hm.
  destruct (track_frame sc c e a tm r c0 gs Hwf Hcfg Ho Hf) as (main' & Hm' & Hcfg1 & Hres). cbv zeta in Hm', Hcfg1, Hres.
  fold o in Hm', Hcfg1, Hres. rewrite Hm in Hm'. injection Hm' as <-. split; [|exact Hcfg1].
  destruct (stored gs c e a) as [d|].
  - destruct Hres as (s1 & v & _ & Hst & Hev). cbv zeta in Hst, Hev.
    rewrite Hst, balance_kinds, Hev, kinds_mk_events, kbal_table, !open_of_some.
    destruct (data_update_fields (vdelta tm) d s1 v) as (Hs & _). cbv zeta in Hs. rewrite Hs. lia.
  - destruct Hres as [H1 H2]. rewrite H2, (balance_none _ _ _ H1). reflexivity.
Qed.

(* ================================================================================================ *)
(* 5. operations and frames with reactions                                                          *)
(* ================================================================================================ *)
(* an operation issued by the harness, its events delivered to armed reactions: the operation itself, then
   the operations of the reactions that fired *)
Lemma op_r_linear sc armed w o d : op_r sc armed w o = Some d ->
  exists fired oo,
    Permutation armed (fired ++ dv_armed d) /\
    run_ops sc w (o :: map r_op fired) = Some oo /\
    dv_world d = oo_world oo /\ dv_built d = oo_built oo /\
    Permutation (dv_events d) (oo_events oo).
Proof.
  unfold op_r. intros H. destruct (apply_op sc w o) as [oo0|] eqn:Ea; [|discriminate].
  destruct (deliver sc (length armed) (oo_events oo0) armed (oo_world oo0)) as [d0|] eqn:Ed; [|discriminate].
  injection H as <-. cbn [dv_armed dv_world dv_built dv_events].
  destruct (deliver_linear sc _ _ _ _ _ Ed) as (fired & oo1 & P & R & W & B & V).
  exists fired. eexists. split; [exact P|]. split; [apply (run_ops_cons_some sc w o _ oo0 oo1 Ea R)|].
  cbn [oo_world oo_events oo_built]. split; [exact W|]. split; [rewrite B; reflexivity | exact V].
Qed.

(* the operations of a frame, each followed by the reactions it fires: [all] is the list of operations in the
   order they were applied - the frame's own in their order, those of the fired reactions interleaved *)
Lemma ops_r_linear sc : forall ops armed w d, ops_r sc armed w ops = Some d ->
  exists fired all oo,
    Permutation armed (fired ++ dv_armed d) /\
    Permutation all (ops ++ map r_op fired) /\
    run_ops sc w all = Some oo /\
    dv_world d = oo_world oo /\ dv_built d = oo_built oo /\
    Permutation (dv_events d) (oo_events oo).
Proof.
  induction ops as [|o rest IH]; intros armed w d H; cbn [ops_r] in H.
  - injection H as <-. exists [], [], (mkOpOut w [] []). cbn [app map dv_armed dv_world dv_built dv_events oo_world oo_built oo_events].
    split; [apply Permutation_refl|]. split; [constructor|]. split; [apply run_ops_nil|]. repeat split. constructor.
  - destruct (op_r sc armed w o) as [d1|] eqn:E1; [|discriminate].
    destruct (ops_r sc (dv_armed d1) (dv_world d1) rest) as [d2|] eqn:E2; [|discriminate].
    injection H as <-. cbn [dv_armed dv_world dv_built dv_events].
    destruct (op_r_linear sc _ _ _ _ E1) as (f1 & o1 & P1 & R1 & W1 & B1 & V1).
    destruct (IH _ _ _ E2) as (f2 & all2 & o2 & P2 & A2 & R2 & W2 & B2 & V2).
    rewrite W1 in R2. pose proof (run_ops_app_some sc _ _ _ _ _ R1 R2) as R.
    exists (f1 ++ f2), ((o :: map r_op f1) ++ all2). eexists.
    split; [|split; [|split; [exact R|]]].
    + eapply Permutation_trans; [exact P1|]. rewrite <- app_assoc. apply Permutation_app_head. exact P2.
    + cbn [app]. apply perm_skip. rewrite map_app.
      eapply Permutation_trans; [apply Permutation_app_head; exact A2|]. apply Permutation_app_swap_app.
    + cbn [oo_world oo_events oo_built]. split; [exact W2|]. split; [rewrite B1, B2; reflexivity|].
      apply Permutation_app; assumption.
Qed.

(* A whole frame with reactions, linearised: from the world in the middle of the frame (registry updated, main
   events [main] computed) the operations [all] are applied one after the other - those of the reactions fired
   by the frame's events, then the frame's own operations, each followed by the reactions it fires.  The events
   delivered in the frame are a permutation of [main] followed by the events of these operations. *)
Theorem frame_r_linear sc armed w f fo : frame_r sc armed w f = Some fo ->
  exists main fired all oo,
    ro_events (reg_update (frame_time f) (f_raw f) (update_state (f_raw f)) (w_reg w)) = Some main /\
    Permutation armed (fired ++ fr_armed fo) /\
    Permutation all (f_ops f ++ map r_op fired) /\
    run_ops sc (mid_world w f) all = Some oo /\
    fr_world fo = oo_world oo /\ fr_built fo = oo_built oo /\
    Permutation (fr_main fo ++ fr_post fo) (main ++ oo_events oo).
Proof.
  unfold frame_r. cbv zeta. intros H.
  destruct (ro_events (reg_update (frame_time f) (f_raw f) (update_state (f_raw f)) (w_reg w))) as [main|] eqn:Em; [|discriminate].
  change (mkWorld (w_holds w) (ro_reg (reg_update (frame_time f) (f_raw f) (update_state (f_raw f)) (w_reg w))) (frame_time f))
    with (mid_world w f) in H.
  destruct (deliver sc (length armed) main armed (mid_world w f)) as [d1|] eqn:E1; [|discriminate].
  destruct (ops_r sc (dv_armed d1) (dv_world d1) (f_ops f)) as [d2|] eqn:E2; [|discriminate].
  injection H as <-. cbn [fr_world fr_main fr_post fr_built fr_armed].
  destruct (deliver_linear sc _ _ _ _ _ E1) as (f1 & o1 & P1 & R1 & W1 & B1 & V1).
  destruct (ops_r_linear sc _ _ _ _ E2) as (f2 & all2 & o2 & P2 & A2 & R2 & W2 & B2 & V2).
  rewrite W1 in R2. pose proof (run_ops_app_some sc _ _ _ _ _ R1 R2) as R.
  exists main, (f1 ++ f2), (map r_op f1 ++ all2). eexists. split; [reflexivity|].
  split; [|split; [|split; [exact R|]]].
  - eapply Permutation_trans; [exact P1|]. rewrite <- app_assoc. apply Permutation_app_head. exact P2.
  - rewrite map_app. eapply Permutation_trans; [apply Permutation_app_head; exact A2|]. apply Permutation_app_swap_app.
  - cbn [oo_world oo_events oo_built]. split; [exact W2|]. split; [rewrite B1, B2; reflexivity|].
    rewrite app_assoc. apply Permutation_app; assumption.
Qed.

(* the frame's own events reach the observers in their original order *)
Lemma frame_r_main_in_order sc armed w f fo main : frame_r sc armed w f = Some fo ->
  ro_events (reg_update (frame_time f) (f_raw f) (update_state (f_raw f)) (w_reg w)) = Some main ->
  sub main (fr_main fo).
Proof.
  unfold frame_r. cbv zeta. intros H Hm. rewrite Hm in H.
  destruct (deliver sc (length armed) main armed _) as [d1|] eqn:E1; [|discriminate].
  destruct (ops_r sc (dv_armed d1) (dv_world d1) (f_ops f)) as [d2|] eqn:E2; [|discriminate].
  injection H as <-. cbn [fr_main]. eapply deliver_in_order. exact E1.
Qed.

(* the static sufficient condition: the context type is not shared, or nothing that may be applied - no armed
   reaction, none of the listed operations - gives c to e *)
Definition no_join_inputs (c : ctx) (e : entity) (armed : list reaction) (ops : list op) : Prop :=
  ctx_shared c = false \/
  ((forall r, In r armed -> joins (r_op r) c e = false) /\ (forall o, In o ops -> joins o c e = false)).

Lemma no_join_inputs_all c e armed ops fired rest all :
  no_join_inputs c e armed ops -> Permutation armed (fired ++ rest) -> Permutation all (ops ++ map r_op fired) ->
  ctx_shared c = false \/ (forall o, In o all -> joins o c e = false).
Proof.
  intros [Hs|[Ha Hop]] P A; [left; exact Hs|]. right. intros o Hin.
  apply (Permutation_in _ A) in Hin. apply in_app_or in Hin. destruct Hin as [Hin|Hin]; [apply Hop; exact Hin|].
  apply in_map_iff in Hin. destruct Hin as (r & <- & Hr). apply Ha.
  apply (Permutation_in _ (Permutation_sym P)). apply in_or_app. left. exact Hr.
Qed.
Lemma no_join_inputs_later c e armed ops fired rest ops' :
  no_join_inputs c e armed ops -> Permutation armed (fired ++ rest) -> (forall o, In o ops' -> In o ops) ->
  no_join_inputs c e rest ops'.
Proof.
  intros [Hs|[Ha Hop]] P Hsub; [left; exact Hs|]. right. split.
  - intros r Hr. apply Ha. apply (Permutation_in _ (Permutation_sym P)). apply in_or_app. right. exact Hr.
  - intros o Hin. apply Hop, Hsub, Hin.
Qed.

(* GOAL 4, general form.  A frame with reactions, whatever the observers request and in whatever order the
   events of the frame reach e:
     - the invariants are kept;
     - open before + #Started - #terminal <= open after: no episode of (e, a) is left unclosed or closed twice;
     - with [all] the operations actually applied in the frame (frame_r_linear): if none of them makes e join a
       live shared instance, every episode that is opened is closed exactly once:
           open before + #Started - #terminal = open after. *)
Theorem frame_r_balance_gen sc c e a armed w f fo :
  reg_inv sc w -> cfg_inv sc (w_reg w) -> owner sc c a -> ev_free sc c a ->
  frame_r sc armed w f = Some fo ->
  reg_inv sc (fr_world fo) /\ cfg_inv sc (w_reg (fr_world fo)) /\
  open_of (stored (w_reg w) c e a) + balance e a (fr_main fo ++ fr_post fo) <= open_of (stored (w_reg (fr_world fo)) c e a) /\
  exists fired all,
    Permutation armed (fired ++ fr_armed fo) /\ Permutation all (f_ops f ++ map r_op fired) /\
    option_map oo_world (run_ops sc (mid_world w f) all) = Some (fr_world fo) /\
    open_of (stored (w_reg w) c e a) + balance e a (fr_main fo ++ fr_post fo) + live_joins sc c e a (mid_world w f) all
      = open_of (stored (w_reg (fr_world fo)) c e a) /\
    (ops_join_free sc c e a (mid_world w f) all ->
     open_of (stored (w_reg w) c e a) + balance e a (fr_main fo ++ fr_post fo) = open_of (stored (w_reg (fr_world fo)) c e a)) /\
    (no_join_inputs c e armed (f_ops f) -> ops_join_free sc c e a (mid_world w f) all).
Proof.
  intros Hinv Hcfg Ho Hf H.
  destruct (frame_r_linear sc armed w f fo H) as (main & fired & all & oo & Hm & P & A & R & W & _ & V).
  pose proof (proj1 (reg_inv_alt sc w) Hinv) as (Hwf & _ & _).
  destruct (frame_balance sc c e a (frame_time f) (f_raw f) (update_state (f_raw f)) (w_reg w) main Hwf Hcfg Ho Hf Hm) as [Hb Hcfg1].
  assert (Hinv1 : reg_inv sc (mid_world w f)) by (apply reg_update_inv; exact Hinv).
  destruct (run_ops_balance sc c e a all (mid_world w f) oo Hinv1 Hcfg1 Ho R) as (I1 & I2 & I3 & I4 & I5).
  pose proof (run_ops_balance_exact sc c e a all (mid_world w f) oo Hinv1 Hcfg1 Ho R) as I6.
  change (w_reg (mid_world w f)) with (ro_reg (reg_update (frame_time f) (f_raw f) (update_state (f_raw f)) (w_reg w))) in I3, I4, I6.
  rewrite (balance_perm e a _ _ V), balance_app, W.
  split; [exact I1|]. split; [exact I2|]. split; [lia|].
  exists fired, all. split; [exact P|]. split; [exact A|]. split; [rewrite R; reflexivity|]. split; [lia|]. split.
  - intros J. specialize (I4 J). lia.
  - intros J. apply I5. exact (no_join_inputs_all c e armed (f_ops f) fired (fr_armed fo) all J P A).
Qed.

(* GOAL 4, MAIN THEOREM.  Side condition (the one chosen in goal 2, in its static form): the context type is
   not shared, or no armed reaction and no operation of the frame gives c to e.  Needed because an entity that
   joins a live shared instance is handed the other holders' open episode without a Started event (see
   op_balance_cases); frame_r_balance_gen above has the semantic condition and the unconditional inequality. *)
Theorem frame_r_balance sc c e a armed w f fo :
  reg_inv sc w -> cfg_inv sc (w_reg w) -> owner sc c a -> ev_free sc c a ->
  no_join_inputs c e armed (f_ops f) ->
  frame_r sc armed w f = Some fo ->
  open_of (stored (w_reg w) c e a) + balance e a (fr_main fo ++ fr_post fo) = open_of (stored (w_reg (fr_world fo)) c e a)
  /\ reg_inv sc (fr_world fo) /\ cfg_inv sc (w_reg (fr_world fo)).
Proof.
  intros Hinv Hcfg Ho Hf Hj H.
  destruct (frame_r_balance_gen sc c e a armed w f fo Hinv Hcfg Ho Hf H) as (I1 & I2 & _ & fired & all & _ & _ & _ & _ & I4 & I5).
  split; [exact (I4 (I5 Hj))|]. split; assumption.
Qed.

(* the same for an operation issued by the harness (between frames) with armed reactions *)
Theorem op_r_balance_gen sc c e a armed w o d :
  reg_inv sc w -> cfg_inv sc (w_reg w) -> owner sc c a ->
  op_r sc armed w o = Some d ->
  reg_inv sc (dv_world d) /\ cfg_inv sc (w_reg (dv_world d)) /\
  open_of (stored (w_reg w) c e a) + balance e a (dv_events d) <= open_of (stored (w_reg (dv_world d)) c e a) /\
  exists fired,
    Permutation armed (fired ++ dv_armed d) /\
    option_map oo_world (run_ops sc w (o :: map r_op fired)) = Some (dv_world d) /\
    open_of (stored (w_reg w) c e a) + balance e a (dv_events d) + live_joins sc c e a w (o :: map r_op fired)
      = open_of (stored (w_reg (dv_world d)) c e a) /\
    (ops_join_free sc c e a w (o :: map r_op fired) ->
     open_of (stored (w_reg w) c e a) + balance e a (dv_events d) = open_of (stored (w_reg (dv_world d)) c e a)) /\
    (no_join_inputs c e armed [o] -> ops_join_free sc c e a w (o :: map r_op fired)).
Proof.
  intros Hinv Hcfg Ho H.
  destruct (op_r_linear sc armed w o d H) as (fired & oo & P & R & W & _ & V).
  destruct (run_ops_balance sc c e a _ w oo Hinv Hcfg Ho R) as (I1 & I2 & I3 & I4 & I5).
  pose proof (run_ops_balance_exact sc c e a _ w oo Hinv Hcfg Ho R) as I6.
  rewrite (balance_perm e a _ _ V), W.
  split; [exact I1|]. split; [exact I2|]. split; [exact I3|].
  exists fired. split; [exact P|]. split; [rewrite R; reflexivity|]. split; [exact I6|]. split; [exact I4|].
  intros J. apply I5. apply (no_join_inputs_all c e armed [o] fired (dv_armed d) _ J P). apply Permutation_refl.
Qed.
Theorem op_r_balance sc c e a armed w o d :
  reg_inv sc w -> cfg_inv sc (w_reg w) -> owner sc c a ->
  no_join_inputs c e armed [o] ->
  op_r sc armed w o = Some d ->
  open_of (stored (w_reg w) c e a) + balance e a (dv_events d) = open_of (stored (w_reg (dv_world d)) c e a)
  /\ reg_inv sc (dv_world d) /\ cfg_inv sc (w_reg (dv_world d)).
Proof.
  intros Hinv Hcfg Ho Hj H.
  destruct (op_r_balance_gen sc c e a armed w o d Hinv Hcfg Ho H) as (I1 & I2 & _ & fired & _ & _ & _ & I4 & I5).
  split; [exact (I4 (I5 Hj))|]. split; assumption.
Qed.

(* ================================================================================================ *)
(* 6. whole runs with reactions                                                                     *)
(* ================================================================================================ *)
(* a run of steps (operations issued by the harness and frames), threading the armed reactions; the events
   are collected in delivery order (within a frame: main, then post) *)
Record run_out := mkRunOut { ru_events : list event; ru_armed : list reaction; ru_world : world }.

Definition step_r (sc : scenario) (armed : list reaction) (w : world) (s : step) : option run_out :=
  match s with
  | SOp o => match op_r sc armed w o with Some d => Some (mkRunOut (dv_events d) (dv_armed d) (dv_world d)) | None => None end
  | SFrame f => match frame_r sc armed w f with
                | Some fo => Some (mkRunOut (fr_main fo ++ fr_post fo) (fr_armed fo) (fr_world fo))
                | None => None
                end
  end.
Fixpoint run_r (sc : scenario) (armed : list reaction) (w : world) (steps : list step) : option run_out :=
  match steps with
  | [] => Some (mkRunOut [] armed w)
  | s :: rest =>
      match step_r sc armed w s with
      | None => None
      | Some r1 => match run_r sc (ru_armed r1) (ru_world r1) rest with
                   | Some r2 => Some (mkRunOut (ru_events r1 ++ ru_events r2) (ru_armed r2) (ru_world r2))
                   | None => None
                   end
      end
  end.
Definition step_ops (s : step) : list op := match s with SOp o => [o] | SFrame f => f_ops f end.

Lemma run_r_app sc steps1 : forall armed w steps2,
  run_r sc armed w (steps1 ++ steps2) =
  match run_r sc armed w steps1 with
  | Some r1 => match run_r sc (ru_armed r1) (ru_world r1) steps2 with
               | Some r2 => Some (mkRunOut (ru_events r1 ++ ru_events r2) (ru_armed r2) (ru_world r2))
               | None => None
               end
  | None => None
  end.
Proof.
  induction steps1 as [|s steps1 IH]; intros armed w steps2; cbn [app run_r].
  - cbn [ru_armed ru_world ru_events app]. destruct (run_r sc armed w steps2) as [[ev2 a2 w2]|]; reflexivity.
  - destruct (step_r sc armed w s) as [r1|]; [|reflexivity]. rewrite IH.
    destruct (run_r sc (ru_armed r1) (ru_world r1) steps1) as [r2|]; [|reflexivity]. cbn [ru_armed ru_world ru_events].
    destruct (run_r sc (ru_armed r2) (ru_world r2) steps2) as [r3|]; [|reflexivity]. cbn [ru_armed ru_world ru_events].
    rewrite app_assoc. reflexivity.
Qed.

(* one step: the general form (invariants, inequality, reactions only consumed) and the equation under the
   static side condition *)
Lemma step_r_balance sc c e a armed w s r :
  reg_inv sc w -> cfg_inv sc (w_reg w) -> owner sc c a -> ev_free sc c a ->
  step_r sc armed w s = Some r ->
  reg_inv sc (ru_world r) /\ cfg_inv sc (w_reg (ru_world r)) /\
  (exists fired, Permutation armed (fired ++ ru_armed r)) /\
  open_of (stored (w_reg w) c e a) + balance e a (ru_events r) <= open_of (stored (w_reg (ru_world r)) c e a) /\
  (no_join_inputs c e armed (step_ops s) ->
   open_of (stored (w_reg w) c e a) + balance e a (ru_events r) = open_of (stored (w_reg (ru_world r)) c e a)).
Proof.
  intros Hinv Hcfg Ho Hf H. destruct s as [o|f]; cbn [step_r step_ops] in *.
  - destruct (op_r sc armed w o) as [d|] eqn:E; [|discriminate]. injection H as <-. cbn [ru_events ru_armed ru_world].
    destruct (op_r_balance_gen sc c e a armed w o d Hinv Hcfg Ho E) as (I1 & I2 & I3 & fired & P & _ & _ & I4 & I5).
    split; [exact I1|]. split; [exact I2|]. split; [exists fired; exact P|]. split; [exact I3|]. intros J. exact (I4 (I5 J)).
  - destruct (frame_r sc armed w f) as [fo|] eqn:E; [|discriminate]. injection H as <-. cbn [ru_events ru_armed ru_world].
    destruct (frame_r_balance_gen sc c e a armed w f fo Hinv Hcfg Ho Hf E) as (I1 & I2 & I3 & fired & all & P & _ & _ & _ & I4 & I5).
    split; [exact I1|]. split; [exact I2|]. split; [exists fired; exact P|]. split; [exact I3|]. intros J. exact (I4 (I5 J)).
Qed.

(* GOAL 5: any run from any world satisfying the invariants *)
Theorem run_r_balance sc c e a : forall steps armed w r,
  reg_inv sc w -> cfg_inv sc (w_reg w) -> owner sc c a -> ev_free sc c a ->
  run_r sc armed w steps = Some r ->
  reg_inv sc (ru_world r) /\ cfg_inv sc (w_reg (ru_world r)) /\
  open_of (stored (w_reg w) c e a) + balance e a (ru_events r) <= open_of (stored (w_reg (ru_world r)) c e a) /\
  (no_join_inputs c e armed (flat_map step_ops steps) ->
   open_of (stored (w_reg w) c e a) + balance e a (ru_events r) = open_of (stored (w_reg (ru_world r)) c e a)).
Proof.
  induction steps as [|s rest IH]; intros armed w r Hinv Hcfg Ho Hf H; cbn [run_r] in H.
  - injection H as <-. cbn [ru_events ru_world]. rewrite balance_nil.
    split; [exact Hinv|]. split; [exact Hcfg|]. split; [lia | intros _; lia].
  - destruct (step_r sc armed w s) as [r1|] eqn:E1; [|discriminate].
    destruct (run_r sc (ru_armed r1) (ru_world r1) rest) as [r2|] eqn:E2; [|discriminate].
    injection H as <-. cbn [ru_events ru_world].
    destruct (step_r_balance sc c e a armed w s r1 Hinv Hcfg Ho Hf E1) as (S1 & S2 & (fired & P) & S3 & S4).
    destruct (IH _ _ _ S1 S2 Ho Hf E2) as (I1 & I2 & I3 & I4).
    rewrite balance_app. split; [exact I1|]. split; [exact I2|]. split; [lia|].
    intros J. cbn [flat_map] in J.
    assert (J1 : no_join_inputs c e armed (step_ops s)).
    { apply (no_join_inputs_later c e armed _ [] armed _ J); [apply Permutation_refl|]. intros o Hin. apply in_or_app. left. exact Hin. }
    assert (J2 : no_join_inputs c e (ru_armed r1) (flat_map step_ops rest)).
    { apply (no_join_inputs_later c e armed _ fired _ _ J P). intros o Hin. apply in_or_app. right. exact Hin. }
    specialize (S4 J1). specialize (I4 J2). lia.
Qed.

(* runs never get stuck *)
Lemma step_r_total sc armed w s : reg_inv sc w -> exists r, step_r sc armed w s = Some r /\ reg_inv sc (ru_world r).
Proof.
  intros Hinv. destruct s as [o|f]; cbn [step_r].
  - destruct (ops_r_total sc [o] armed w Hinv) as (d & Hd & _). cbn [ops_r] in Hd.
    destruct (op_r sc armed w o) as [d1|] eqn:E; [|discriminate].
    eexists. split; [reflexivity|]. cbn [ru_world].
    unfold op_r in E. destruct (apply_op_inv sc w o Hinv) as (oo & Hoo & Hinv1). rewrite Hoo in E.
    destruct (deliver_total sc (length armed) (oo_events oo) armed (oo_world oo) Hinv1 ltac:(lia)) as (d0 & Hd0 & Hinv2 & _).
    rewrite Hd0 in E. injection E as <-. exact Hinv2.
  - destruct (frame_r_total sc armed w f Hinv) as (fo & -> & Hfo). eexists. split; [reflexivity | exact Hfo].
Qed.
Lemma run_r_total sc : forall steps armed w, reg_inv sc w -> exists r, run_r sc armed w steps = Some r /\ reg_inv sc (ru_world r).
Proof.
  induction steps as [|s rest IH]; intros armed w Hinv; cbn [run_r].
  - eexists. split; [reflexivity | exact Hinv].
  - destruct (step_r_total sc armed w s Hinv) as (r1 & -> & Hinv1).
    destruct (IH (ru_armed r1) (ru_world r1) Hinv1) as (r2 & -> & Hinv2). eexists. split; [reflexivity | exact Hinv2].
Qed.

Lemma stored_init c e a : stored (w_reg world_init) c e a = None.
Proof. reflexivity. Qed.

(* From the empty world: over the whole run, and at every point of it (after every prefix of the steps),
   #Started - #terminal of what (e, a) has received is 0 or 1 and says whether an episode is open in the registry.
   Side condition as in the main theorem; without it, run_history_le. *)
Theorem run_history_balance sc c e a armed steps1 steps2 r :
  owner sc c a -> ev_free sc c a ->
  no_join_inputs c e armed (flat_map step_ops (steps1 ++ steps2)) ->
  run_r sc armed world_init (steps1 ++ steps2) = Some r ->
  exists r1, run_r sc armed world_init steps1 = Some r1 /\
    balance e a (ru_events r1) = open_of (stored (w_reg (ru_world r1)) c e a) /\
    0 <= balance e a (ru_events r1) <= 1 /\
    balance e a (ru_events r) = open_of (stored (w_reg (ru_world r)) c e a) /\
    0 <= balance e a (ru_events r) <= 1.
Proof.
  intros Ho Hf J H.
  pose proof (run_r_balance sc c e a (steps1 ++ steps2) armed world_init r (reg_inv_init sc) (cfg_inv_nil sc) Ho Hf H) as (_ & _ & _ & I4).
  specialize (I4 J). rewrite stored_init in I4. cbn [open_of] in I4.
  rewrite run_r_app in H. destruct (run_r sc armed world_init steps1) as [r1|] eqn:E1; [|discriminate].
  exists r1. split; [reflexivity|].
  pose proof (run_r_balance sc c e a steps1 armed world_init r1 (reg_inv_init sc) (cfg_inv_nil sc) Ho Hf E1) as (_ & _ & _ & I5).
  assert (J1 : no_join_inputs c e armed (flat_map step_ops steps1)).
  { apply (no_join_inputs_later c e armed _ [] armed _ J); [apply Permutation_refl|]. intros o Hin.
    rewrite flat_map_app. apply in_or_app. left. exact Hin. }
  specialize (I5 J1). rewrite stored_init in I5. cbn [open_of] in I5.
  pose proof (open_of_range (stored (w_reg (ru_world r1)) c e a)). pose proof (open_of_range (stored (w_reg (ru_world r)) c e a)).
  split; [lia|]. split; [lia|]. split; [lia | lia].
Qed.
(* unconditionally: never more terminal events missing than one open episode accounts for *)
Theorem run_history_le sc c e a armed steps r :
  owner sc c a -> ev_free sc c a ->
  run_r sc armed world_init steps = Some r ->
  balance e a (ru_events r) <= open_of (stored (w_reg (ru_world r)) c e a) <= 1.
Proof.
  intros Ho Hf H.
  pose proof (run_r_balance sc c e a steps armed world_init r (reg_inv_init sc) (cfg_inv_nil sc) Ho Hf H) as (_ & _ & I3 & _).
  rewrite stored_init in I3. cbn [open_of] in I3. pose proof (open_of_range (stored (w_reg (ru_world r)) c e a)). lia.
Qed.

(* ================================================================================================ *)
(* 7. the side condition cannot be dropped                                                          *)
(* ================================================================================================ *)
(* A run of the model, no reactions needed: entity 10 holds the shared context type 1 and fires action 7;
   entity 11 joins the live shared instance and is given the open episode without a Started event; when 11 leaves
   it receives Completed.  For (1, 11, 7) the stream is [Completed]: balance -1 with nothing open before and
   after. *)
Definition wit_spec : inst_spec := mkSpec None [mkAction 7 [] [] [mkBind (IKey 10 0) [] []]].
Definition wit_sc : scenario := mkScenario [1] [10; 11] [((1, 10), wit_spec); ((1, 11), wit_spec)] [].
Definition wit_steps : list step :=
  [SOp (OSpawn 10 [1]);
   SFrame (mkFrame (1#60) 1 false 0 raw_empty []);
   SFrame (mkFrame (1#60) 1 false 0 (mkRaw [10] [] (0%Q, 0%Q) (0%Q, 0%Q) [] []) []);
   SOp (OSpawn 11 [1]);
   SOp (ORemove 11 1)].

Lemma wit_lookup_other c' e' : c' <> 1 -> cfg_lookup wit_sc c' e' = mkSpec None [].
Proof.
  intros H. unfold cfg_lookup, wit_sc. cbn [s_cfg find fst snd].
  replace (Z.eqb 1 c') with false by (symmetry; apply Z.eqb_neq; congruence). reflexivity.
Qed.
Lemma wit_lookup e' : cfg_lookup wit_sc 1 e' = wit_spec \/ cfg_lookup wit_sc 1 e' = mkSpec None [].
Proof.
  unfold cfg_lookup, wit_sc. cbn [s_cfg find fst snd]. rewrite Z.eqb_refl. cbn [andb].
  destruct (Z.eqb 10 e'); [left; reflexivity|]. destruct (Z.eqb 11 e'); [left | right]; reflexivity.
Qed.
Lemma wit_owner : owner wit_sc 1 7.
Proof. intros c' e' Hne. unfold mk_inst. rewrite (wit_lookup_other c' e' Hne). intros []. Qed.
Lemma wit_ev_free : ev_free wit_sc 1 7.
Proof.
  intros e' b Hin _. unfold mk_inst in Hin. destruct (wit_lookup e') as [E|E]; rewrite E in Hin.
  - vm_compute in Hin. destruct Hin as [<-|[]]. split; [intros [] | constructor; [intros [] | constructor]].
  - destruct Hin.
Qed.

Theorem join_side_condition_needed :
  exists sc c e a steps r,
    owner sc c a /\ ev_free sc c a /\ run_r sc [] world_init steps = Some r /\
    kinds (ev_of e a (ru_events r)) = [ECompleted] /\
    balance e a (ru_events r) = -1 /\ open_of (stored (w_reg (ru_world r)) c e a) = 0.
Proof.
  destruct (run_r wit_sc [] world_init wit_steps) as [r|] eqn:E; [|vm_compute in E; discriminate].
  exists wit_sc, 1, 11, 7, wit_steps, r. split; [exact wit_owner|]. split; [exact wit_ev_free|]. split; [exact E|].
  vm_compute in E. injection E as <-. vm_compute. repeat split.
Qed.

Print Assumptions deliver_linear.
Print Assumptions deliver_in_order.
Print Assumptions op_balance.
Print Assumptions op_balance_le.
Print Assumptions run_ops_balance.
Print Assumptions run_ops_balance_exact.
Print Assumptions frame_balance.
Print Assumptions frame_r_linear.
Print Assumptions frame_r_balance_gen.
Print Assumptions frame_r_balance.
Print Assumptions op_r_balance_gen.
Print Assumptions op_r_balance.
Print Assumptions run_r_balance.
Print Assumptions run_history_balance.
Print Assumptions run_history_le.
Print Assumptions join_side_condition_needed.
