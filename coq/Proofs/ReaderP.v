From BEI Require Import Model.Reader Spec.ReadSpec.
Open Scope Z_scope.

Lemma mod_keys_pressed_nomods r c mods :
  Z.land (c_mods c) mods = 0 -> mod_keys_pressed r c mods = mods_down (r_keys r) mods.
Proof.
  intros H. unfold mod_keys_pressed, mods_down, mod_bits. rewrite H. cbn [Z.eqb negb forallb].
  destruct (Z.testbit mods 0), (Z.testbit mods 1), (Z.testbit mods 2), (Z.testbit mods 3); reflexivity.
Qed.
Lemma mod_keys_pressed_blocked r c mods :
  Z.land (c_mods c) mods <> 0 -> mod_keys_pressed r c mods = false.
Proof.
  intros H. unfold mod_keys_pressed. destruct (Z.eqb (Z.land (c_mods c) mods) 0) eqn:E; [apply Z.eqb_eq in E; contradiction|reflexivity].
Qed.

Lemma find_axis_go a ps :
  (fix go (ps : list pad) : Q :=
     match ps with
     | [] => 0%Q
     | p :: rest => match match find (fun kv => Z.eqb (fst kv) a) (pad_axes p) with Some kv => Some (snd kv) | None => None end with
                    | Some x => if qnz x then x else go rest
                    | None => go rest
                    end
     end) ps =
  match find (fun p => match axis_on p a with Some x => qnz x | None => false end) ps with
  | Some p => match axis_on p a with Some x => x | None => 0%Q end
  | None => 0%Q
  end.
Proof.
  induction ps as [|p rest IH]; [reflexivity|]. cbn [find]. unfold axis_on at 1 2 3.
  destruct (find (fun kv => Z.eqb (fst kv) a) (pad_axes p)) as [kv|] eqn:E.
  - destruct (qnz (snd kv)) eqn:Q.
    + unfold axis_on. rewrite E. reflexivity.
    + exact IH.
  - exact IH.
Qed.

(* ---- C15 / C16: the read at the start of a frame's evaluation (nothing consumed yet) ---- *)
Lemma read_fresh r dev i : reader_value r (update_state r) dev i = spec_read r (ui_any r) dev i.
Proof.
  unfold update_state. fold (ui_any r).
  destruct i as [k m|b m|m|m|b|a];
    cbn [reader_value spec_read c_ui_mouse c_keys c_mbuttons c_motion c_wheel c_pbuttons c_paxes memz existsb memdz];
    rewrite ?mod_keys_pressed_nomods by reflexivity.
  - unfold bval. rewrite andb_true_r. reflexivity.
  - unfold bval. rewrite andb_true_r. reflexivity.
  - rewrite orb_false_r. destruct (ui_any r), (mods_down (r_keys r) m); reflexivity.
  - rewrite orb_false_r. destruct (ui_any r), (mods_down (r_keys r) m); reflexivity.
  - destruct dev as [id|]; reflexivity.
  - destruct dev as [id|].
    + unfold pad_by_id. destruct (find (fun p => Z.eqb (pad_id p) id) (r_pads r)); reflexivity.
    + f_equal. apply find_axis_go.
Qed.

(* keys that are neither the bound key nor one of the modifier keys of the mask do not matter *)
Lemma memz_cons x y l : memz x (y :: l) = Z.eqb x y || memz x l.
Proof. reflexivity. Qed.
Definition mod_key_of (mods k : Z) : bool :=
  existsb (fun i => Z.testbit mods i && (Z.eqb k (100 + 2 * i) || Z.eqb k (101 + 2 * i))) [0; 1; 2; 3].
Lemma mods_down_irrelevant keys mods x :
  mod_key_of mods x = false -> mods_down (x :: keys) mods = mods_down keys mods.
Proof.
  unfold mod_key_of, mods_down. cbn [existsb forallb]. rewrite !orb_false_r.
  intros H. rewrite !memz_cons.
  repeat match goal with |- context [Z.testbit mods ?i] => destruct (Z.testbit mods i) eqn:? end;
    cbn [andb implb orb] in *;
    repeat match goal with
           | H : _ || _ = false |- _ => apply orb_false_iff in H; destruct H
           end;
    repeat match goal with
           | H : Z.eqb ?a ?b = false |- _ => rewrite (Z.eqb_sym b a), H || rewrite H
           end; cbn [orb]; reflexivity.
Qed.

Lemma key_irrelevant r ui dev k mods x :
  x <> k -> mod_key_of mods x = false ->
  spec_read (mkRaw (x :: r_keys r) (r_mbuttons r) (r_motion r) (r_wheel r) (r_pads r) (r_ui r)) ui dev (IKey k mods) =
  spec_read r ui dev (IKey k mods).
Proof.
  intros Hx Hm. cbn [spec_read r_keys]. rewrite mods_down_irrelevant by exact Hm. rewrite memz_cons.
  destruct (Z.eqb k x) eqn:E; [apply Z.eqb_eq in E; congruence|]. reflexivity.
Qed.
Lemma key_irrelevant_mouse r ui dev i x :
  is_mouse i = true -> mod_key_of (mods_of i) x = false ->
  spec_read (mkRaw (x :: r_keys r) (r_mbuttons r) (r_motion r) (r_wheel r) (r_pads r) (r_ui r)) ui dev i = spec_read r ui dev i.
Proof.
  intros Hi Hm. destruct i; try discriminate; cbn [spec_read r_keys r_mbuttons r_motion r_wheel mods_of] in *;
    rewrite mods_down_irrelevant by exact Hm; reflexivity.
Qed.
Lemma no_mask_ignores_modifiers keys : mods_down keys 0 = true.
Proof. reflexivity. Qed.

(* one gamepad: an unrestricted context and one tied to that gamepad read the same *)
Lemma one_pad_any_single r ui p i :
  r_pads r = [p] -> (forall a x, axis_on p a = Some x -> qnz x = false -> x = 0%Q) ->
  spec_read r ui None i = spec_read r ui (Some (pad_id p)) i.
Proof.
  intros Hp Hz. destruct i; try reflexivity; cbn [spec_read]; unfold pad_by_id; rewrite Hp; cbn [existsb find]; rewrite Z.eqb_refl.
  - now rewrite orb_false_r.
  - destruct (axis_on p a) as [x|] eqn:E; [|rewrite ?E; reflexivity]. destruct (qnz x) eqn:Q; rewrite ?E; [reflexivity|].
    rewrite (Hz a x E Q). reflexivity.
Qed.
Lemma single_gone r ui id i :
  pad_by_id r id = None -> match i with IPadButton _ | IPadAxis _ => spec_read r ui (Some id) i = zero_of i | _ => True end.
Proof. intros H. destruct i; try exact I; cbn [spec_read zero_of]; rewrite H; reflexivity. Qed.

(* ---- C16 ---- *)
Lemma ui_masks_mouse r dev i : is_mouse i = true -> spec_read r true dev i = zero_of i.
Proof. destruct i; try discriminate; reflexivity. Qed.
Lemma ui_leaves_rest r ui dev i : is_mouse i = false -> spec_read r ui dev i = spec_read r false dev i.
Proof. destruct i; try discriminate; reflexivity. Qed.
Lemma ui_flag_fresh r : c_ui_mouse (update_state r) = ui_any r.
Proof. reflexivity. Qed.

(* ---- C05 (a), (b): what consuming one input does to later reads ---- *)
Lemma lor_land_zero a b c : Z.land (Z.lor a b) c = 0 <-> Z.land a c = 0 /\ Z.land b c = 0.
Proof. rewrite Z.land_lor_distr_l. apply Z.lor_eq_0_iff. Qed.

Lemma zero_read_cases r c dev j :
  (takes_mods j = true -> mod_keys_pressed r c (mods_of j) = false -> reader_value r c dev j = zero_of j).
Proof.
  intros Ht Hm. destruct j; try discriminate; cbn [reader_value mods_of zero_of] in *; rewrite Hm.
  - unfold bval. now rewrite andb_false_r.
  - unfold bval. now rewrite andb_false_r.
  - cbn [negb]. now rewrite orb_true_r.
  - cbn [negb]. now rewrite orb_true_r.
Qed.

Lemma consume_mods c di i : c_mods (consume c di i) = Z.lor (c_mods c) (mods_of i).
Proof. destruct i; cbn [consume c_mods mods_of]; try reflexivity; now rewrite Z.lor_0_r. Qed.

Lemma mkp_consume r c di i mj :
  Z.land (mods_of i) mj = 0 -> mod_keys_pressed r (consume c di i) mj = mod_keys_pressed r c mj.
Proof.
  intros H. unfold mod_keys_pressed. rewrite consume_mods.
  rewrite Z.land_lor_distr_l, H, Z.lor_0_r. reflexivity.
Qed.
Lemma mkp_consume_blocked r c di i mj :
  Z.land (mods_of i) mj <> 0 -> mod_keys_pressed r (consume c di i) mj = false.
Proof.
  intros H. apply mod_keys_pressed_blocked. rewrite consume_mods, Z.land_lor_distr_l.
  intros E. apply Z.lor_eq_0_iff in E. tauto.
Qed.

Lemma device_eqb_refl d : device_eqb d d = true.
Proof. destruct d; simpl; [apply Z.eqb_refl | reflexivity]. Qed.

(* (a) every input related to a consumed one reads as inactive afterwards *)
Lemma consume_hides r c di dj i j :
  related di dj i j = true -> reader_value r (consume c di i) dj j = zero_of j.
Proof.
  unfold related. intros H. apply orb_true_iff in H. destruct H as [H|H].
  - apply andb_true_iff in H. destruct H as [Ht Hm]. apply negb_true_iff in Hm.
    apply zero_read_cases; [exact Ht|]. apply mkp_consume_blocked. intros E. rewrite E in Hm. discriminate.
  - destruct i, j; try discriminate; cbn [reader_value consume zero_of c_ui_mouse c_keys c_mbuttons c_motion c_wheel c_pbuttons c_paxes].
    + apply Z.eqb_eq in H. subst. rewrite memz_cons, Z.eqb_refl. unfold bval. cbn [orb negb]. now rewrite andb_false_r.
    + apply Z.eqb_eq in H. subst. rewrite memz_cons, Z.eqb_refl. unfold bval. cbn [orb negb]. now rewrite !andb_false_r.
    + now rewrite !orb_true_r.
    + now rewrite !orb_true_r.
    + apply andb_true_iff in H. destruct H as [Hb Hd]. apply Z.eqb_eq in Hb. subst.
      unfold memdz. cbn [existsb fst snd]. rewrite Hd, Z.eqb_refl. reflexivity.
    + apply andb_true_iff in H. destruct H as [Hb Hd]. apply Z.eqb_eq in Hb. subst.
      unfold memdz. cbn [existsb fst snd]. rewrite Hd, Z.eqb_refl. reflexivity.
Qed.

(* (b) and nothing else changes *)
Lemma consume_frame r c di dj i j :
  related di dj i j = false -> reader_value r (consume c di i) dj j = reader_value r c dj j.
Proof.
  unfold related. intros H. apply orb_false_iff in H. destruct H as [Hm Hk].
  assert (Hmods : takes_mods j = true -> mod_keys_pressed r (consume c di i) (mods_of j) = mod_keys_pressed r c (mods_of j)).
  { intros Ht. rewrite Ht in Hm. cbn [andb] in Hm. apply negb_false_iff in Hm. apply Z.eqb_eq in Hm. apply mkp_consume. exact Hm. }
  destruct j as [k m|b m|m|m|b|a]; cbn [reader_value mods_of takes_mods] in *; rewrite ?(Hmods eq_refl).
  - destruct i; cbn [consume c_keys c_ui_mouse]; try reflexivity. rewrite memz_cons. cbn in Hk. rewrite (Z.eqb_sym k0 k) in Hk. rewrite Hk. reflexivity.
  - destruct i; cbn [consume c_mbuttons c_ui_mouse]; try reflexivity. rewrite memz_cons. cbn in Hk. rewrite (Z.eqb_sym b0 b) in Hk. rewrite Hk. reflexivity.
  - destruct i; cbn [consume c_motion c_ui_mouse]; try reflexivity. discriminate.
  - destruct i; cbn [consume c_wheel c_ui_mouse]; try reflexivity. discriminate.
  - destruct i; cbn [consume c_pbuttons]; try reflexivity. unfold memdz. cbn [existsb fst snd].
    cbn in Hk. rewrite (Z.eqb_sym b0 b) in Hk. rewrite andb_comm in Hk. rewrite Hk. reflexivity.
  - destruct i; cbn [consume c_paxes]; try reflexivity. unfold memdz. cbn [existsb fst snd].
    cbn in Hk. rewrite (Z.eqb_sym a0 a) in Hk. rewrite andb_comm in Hk. rewrite Hk. reflexivity.
Qed.

(* the raw read used for the held-input suppression: nothing consumed, no UI flag *)
Lemma read_raw r dev i : reader_value r consumed_reset dev i = spec_read r false dev i.
Proof.
  unfold consumed_reset.
  destruct i as [k m|b m|m|m|b|a];
    cbn [reader_value spec_read c_ui_mouse c_keys c_mbuttons c_motion c_wheel c_pbuttons c_paxes memz existsb memdz];
    rewrite ?mod_keys_pressed_nomods by reflexivity.
  - unfold bval. rewrite andb_true_r. reflexivity.
  - unfold bval. rewrite andb_true_r. reflexivity.
  - rewrite orb_false_r. destruct (mods_down (r_keys r) m); reflexivity.
  - rewrite orb_false_r. destruct (mods_down (r_keys r) m); reflexivity.
  - destruct dev as [id|]; reflexivity.
  - destruct dev as [id|].
    + unfold pad_by_id. destruct (find (fun p => Z.eqb (pad_id p) id) (r_pads r)); reflexivity.
    + f_equal. apply find_axis_go.
Qed.
