From BEI Require Import Model.Value.

Lemma qnz_0 : qnz 0 = false. Proof. reflexivity. Qed.
Lemma qnz_b2q b : qnz (b2q b) = b. Proof. destruct b; reflexivity. Qed.
Lemma qnz_false_iff x : qnz x = false <-> x == 0.
Proof. unfold qnz. rewrite negb_false_iff. apply Qeq_bool_iff. Qed.
Lemma qnz_true_iff x : qnz x = true <-> ~ x == 0.
Proof.
  unfold qnz. rewrite negb_true_iff. split.
  - intros H E. apply Qeq_bool_iff in E. congruence.
  - intros H. destruct (Qeq_bool x 0) eqn:E; [|reflexivity]. apply Qeq_bool_iff in E. tauto.
Qed.

Lemma veq_refl v : veq v v.
Proof. destruct v; simpl; repeat split; reflexivity. Qed.
Lemma veqb_veq a b : veqb a b = true <-> veq a b.
Proof.
  destruct a, b; simpl; try (split; [discriminate|tauto]).
  - apply Bool.eqb_true_iff.
  - apply Qeq_bool_iff.
  - rewrite andb_true_iff. unfold qeqb. rewrite !Qeq_bool_iff. tauto.
  - rewrite !andb_true_iff. unfold qeqb. rewrite !Qeq_bool_iff. tauto.
Qed.

(* --- C20 --- *)
Lemma convert_dim d v : vdim (convert d v) = d.
Proof. destruct d, v; reflexivity. Qed.

Lemma convert_same v : convert (vdim v) v = v.
Proof. destruct v; reflexivity. Qed.

Lemma widen_narrow d v : dim_leb (vdim v) d = true -> convert (vdim v) (convert d v) = v.
Proof. destruct d, v; simpl; try discriminate; intros _; rewrite ?qnz_b2q, ?qnz_0, ?orb_false_r; reflexivity. Qed.

(* narrowing to a numeric dimension keeps the leading axes, in order *)
Lemma narrow_axes d v :
  d <> DBool -> dim_leb d (vdim v) = true -> axes (convert d v) = firstn (ndim d) (axes v).
Proof. destruct d, v; simpl; try discriminate; try congruence; reflexivity. Qed.

(* widening to a numeric dimension appends zeros, nothing else *)
Lemma widen_axes d v :
  d <> DBool -> dim_leb (vdim v) d = true ->
  axes (convert d v) = axes v ++ repeat 0 (ndim d - length (axes v)).
Proof. destruct d, v; simpl; try discriminate; try congruence; reflexivity. Qed.

(* narrowing to bool is truthiness *)
Lemma narrow_bool v : convert DBool v = VB (as_bool v).
Proof. reflexivity. Qed.

Lemma as_bool_axes v : as_bool v = existsb qnz (axes v).
Proof.
  destruct v; simpl; rewrite ?orb_false_r; try reflexivity.
  - now rewrite qnz_b2q.
  - now rewrite orb_assoc.
Qed.

Lemma as_bool_widen d v : dim_leb (vdim v) d = true -> as_bool (convert d v) = as_bool v.
Proof.
  destruct d, v; simpl; try discriminate; intros _;
    rewrite ?qnz_b2q, ?qnz_0, ?orb_false_r; reflexivity.
Qed.

Lemma len2_axes v : v3len2 (as3 v) == qsum (map (fun x => x * x) (axes v)).
Proof. destruct v; simpl; ring. Qed.

Lemma qabs_sq t : qabs t * qabs t == t * t.
Proof. unfold qabs. destruct (Qle_bool 0 t); ring. Qed.

Lemma is_actuated_iff v t :
  is_actuated v t = true <-> qabs t * qabs t <= qsum (map (fun x => x * x) (axes v)).
Proof.
  unfold is_actuated, qleb. rewrite Qle_bool_iff, len2_axes, qabs_sq. tauto.
Qed.

Lemma qabs_nonneg t : 0 <= qabs t.
Proof.
  unfold qabs. destruct (Qle_bool 0 t) eqn:E.
  - now apply Qle_bool_iff.
  - assert (~ 0 <= t) by (intro H; apply Qle_bool_iff in H; congruence). lra.
Qed.

Lemma convert_zero d d' : convert d (vzero d') = vzero d.
Proof. destruct d, d'; reflexivity. Qed.
Lemma as_bool_zero d : as_bool (vzero d) = false.
Proof. destruct d; reflexivity. Qed.
