(* Vocabulary for following ONE (context, entity, action) through frames and operations of a world:
   the stream of events that entity receives for that action, the data the registry stores for it, and
   the scenario-level hypotheses under which that stream is well defined.  Used by TrackFrameP (frames),
   TrackOpP (operations) and TrackP (whole runs; C02, C10, C01 at world level). *)
From BEI Require Import Model.Frame Spec.Events Spec.Episode Proofs.RegistryP.
Open Scope Z_scope.

(* what entity e receives for action a *)
Definition ev_of (e : entity) (a : aid) (l : list event) : list event :=
  filter (fun ev => Z.eqb (e_target ev) e && Z.eqb (e_action ev) a) l.
Definition kinds (l : list event) : list evkind := map e_kind l.

(* the ActionData the registry holds for action a in the instance entity e has for context type c,
   if e holds c and that instance binds a *)
Definition stored (r : registry) (c : ctx) (e : entity) (a : aid) : option data :=
  match reg_get c e r with
  | Some i => if memz a (map ab_id (in_binds i)) then lookup a (in_actions i) else None
  | None => None
  end.
Inductive est := Absent | Live (s : state).
Definition track (r : registry) (c : ctx) (e : entity) (a : aid) : est :=
  match stored r c e a with Some d => Live (d_state d) | None => Absent end.

(* the static shape of an instance: which actions it binds, in which order, and the kinds of the
   conditions at both levels.  Evaluation changes the hidden state of conditions and modifiers, never this. *)
Definition conds_kinds (cs : list (Z * cond)) : list ckind := map (fun p => cond_kind (snd p)) cs.
Definition bind_shape (b : abind) : aid * list ckind * list (list ckind) :=
  (ab_id b, conds_kinds (ab_conds b), map (fun ib => conds_kinds (ib_conds ib)) (ab_inputs b)).
Definition inst_shape (i : inst) : list (aid * list ckind * list (list ckind)) := map bind_shape (in_binds i).
(* every instance in the registry was built by context_instance() of its own context type *)
Definition from_cfg (sc : scenario) (c : ctx) (i : inst) : Prop := exists e', inst_shape i = inst_shape (mk_inst sc c e').
Definition cfg_inv (sc : scenario) (r : registry) : Prop :=
  forall g, In g r -> Forall (from_cfg sc (g_ctx g)) (g_insts g).

(* scenario-level hypotheses: action a belongs to context type c alone (events carry no context, so the
   stream of (e, a) is otherwise a merge of several instances), and - "absent events-only blocking" in the
   statement of C02 - no binding of a carries an events-only blocker *)
Definition owner (sc : scenario) (c : ctx) (a : aid) : Prop :=
  forall c' e', c' <> c -> ~ In a (map ab_id (in_binds (mk_inst sc c' e'))).
Definition no_ev_blocker (b : abind) : Prop :=
  ~ In (KBlocker true) (conds_kinds (ab_conds b)) /\
  Forall (fun ib => ~ In (KBlocker true) (conds_kinds (ib_conds ib))) (ab_inputs b).
Definition ev_free (sc : scenario) (c : ctx) (a : aid) : Prop :=
  forall e' b, In b (in_binds (mk_inst sc c e')) -> ab_id b = a -> no_ev_blocker b.

(* operations that deactivate the instance (c, e) *)
Definition deactivates (o : op) (c : ctx) (e : entity) : bool :=
  match o with
  | ORemove e' c' => Z.eqb e e' && Z.eqb c c'
  | ODespawn e' => Z.eqb e e'
  | ORebuild => true
  | _ => false
  end.
(* the payload of a closing event: zero of the action's type, state None *)
Definition closing_ok (a : aid) (l : list event) : bool :=
  forallb (fun ev => veqb (e_value ev) (vzero (aid_dim a)) && state_eqb (e_state ev) SNone) l.
