(* Check/C02r.v (stage "reactions" of C02, as repaired - see Proofs/JudgeC02rP.v): soundness of the judgement on the model's
   own runs and transfer along its agreement for EVERY case of the shape react_cases generates: reactions may give and
   take contexts freely (no give-and-take restriction any more); the frames carry no operations of their own. *)
From Coq Require Import ZArith QArith List Bool Lia Permutation.
From BEI Require Import Model.Frame Model.React Spec.Events Spec.Episode Proofs.RegistryP Proofs.ReactP
  Proofs.TrackDefs Proofs.TrackFrameP Proofs.TrackOpP Proofs.TrackP Proofs.TrackReactP Proofs.JudgeC07P Proofs.JudgeC02P Proofs.JudgeC02rP Check.App.
From BEI Require Check.C02r.
Import ListNotations.
Open Scope Z_scope.

Definition leavesb (o : op) (c : ctx) (e : entity) : bool :=
  match o with
  | ORemove e' c' => Z.eqb e e' && Z.eqb c c'
  | ODespawn e' => Z.eqb e e'
  | _ => false
  end.
Lemma deactivates_split o c e : deactivates o c e = leavesb o c e || is_rebuild o.
Proof. destruct o; cbn; rewrite ?orb_false_r; reflexivity. Qed.

Lemma close_no_started ac ks : close_chunk ac ks = true -> filter is_started ks = [].
Proof.
  destruct ac as [|s]; cbn [close_chunk]; [destruct ks; [reflexivity | discriminate]|].
  destruct s; try discriminate; destruct ks as [|k [|k2 ks]]; try discriminate; destruct k; try discriminate; reflexivity.
Qed.

Section OneOp.
Variables (sc : scenario) (c : ctx) (e : entity) (a : aid) (w : world) (o : op) (oo : op_out).
Hypotheses (Hinv : reg_inv sc w) (Hcfg : cfg_inv sc (w_reg w)) (Ho : owner sc c a) (Hop : apply_op sc w o = Some oo).

Lemma inv_after : reg_inv sc (oo_world oo).
Proof. destruct (apply_op_inv sc w o Hinv) as (r0 & Hr0 & Hinv'). rewrite Hop in Hr0. injection Hr0 as <-. exact Hinv'. Qed.

Lemma rebuild_keeps_holds : is_rebuild o = true -> w_holds (oo_world oo) = w_holds w.
Proof.
  intros Hr. destruct o; cbn in Hr; try discriminate.
  change (fold_left (rebuild_f sc) (s_menu sc) (Some (mkOpOut w [] [])) = Some oo) in Hop. exact (rebuild_fold_holds sc _ _ _ Hop).
Qed.

(* an operation that does not give c to e: absent stays absent and receives nothing *)
Lemma g_absent : joins o c e = false -> reg_get c e (w_reg w) = None ->
  ev_of e a (oo_events oo) = [] /\ reg_get c e (w_reg (oo_world oo)) = None.
Proof.
  intros Hj Hg. destruct (track_op sc c e a w o oo Hinv Hcfg Ho Hop) as [_ T]. cbv zeta in T. rewrite (stored_get_none _ _ _ _ Hg) in T.
  split; [exact (proj1 T)|]. destruct (deactivates o c e) eqn:Ed.
  - destruct (is_rebuild o) eqn:Er; [|exact (deact_gone sc w o oo c e Hinv Hop Ed Er)].
    apply (mirror_none sc _ c e inv_after). rewrite (rebuild_keeps_holds Er). intros Hx.
    destruct Hinv as (_ & _ & _ & Hm & _). apply Hm in Hx. congruence.
  - rewrite (quiet_op_get sc c e a w o oo Hinv Hcfg Ho Hop Ed Hj). exact Hg.
Qed.
(* ... and an episode at rest stays at rest *)
Lemma g_idle : joins o c e = false -> open_of (stored (w_reg w) c e a) = 0 -> open_of (stored (w_reg (oo_world oo)) c e a) = 0.
Proof.
  intros Hj H0. destruct (track_op sc c e a w o oo Hinv Hcfg Ho Hop) as [_ T]. cbv zeta in T.
  destruct (stored (w_reg w) c e a) as [d|] eqn:Es.
  - destruct (deactivates o c e).
    + destruct T as (_ & _ & [-> | ->]); [reflexivity | apply open_of_data_new].
    + destruct T as [_ ->]. exact H0.
  - destruct T as [_ T]. destruct (stored (w_reg (oo_world oo)) c e a) as [d'|] eqn:Es'; [|reflexivity].
    destruct (T d' eq_refl) as [[_ ->]|[Hde [-> |_]]]; [apply open_of_data_new | apply open_of_data_new|].
    exfalso. pose proof (quiet_op_get sc c e a w o oo Hinv Hcfg Ho Hop Hde Hj) as Hg.
    rewrite (stored_get_eq _ _ c e a Hg) in Es'. congruence.
Qed.
(* a rebuild leaves every episode at rest *)
Lemma g_reb : is_rebuild o = true -> open_of (stored (w_reg (oo_world oo)) c e a) = 0.
Proof.
  intros Hr. destruct (track_op sc c e a w o oo Hinv Hcfg Ho Hop) as [_ T]. cbv zeta in T.
  assert (Hd : deactivates o c e = true) by (rewrite deactivates_split, Hr; apply orb_true_r).
  destruct (stored (w_reg w) c e a) as [d|].
  - rewrite Hd in T. destruct T as (_ & _ & [-> | ->]); [reflexivity | apply open_of_data_new].
  - destruct T as [_ T]. destruct (stored (w_reg (oo_world oo)) c e a) as [d'|] eqn:Es'; [|reflexivity].
    destruct (T d' eq_refl) as [[_ ->]|[Hde _]]; [apply open_of_data_new | congruence].
Qed.
(* the instance of a holder is only built anew by a rebuild *)
Lemma g_touch : reg_get c e (w_reg w) <> None -> touched (oo_built oo) c e -> is_rebuild o = true.
Proof.
  intros Hg Ht. destruct (is_rebuild o) eqn:Er; [reflexivity|]. exfalso. exact (held_not_touched sc w o oo c e Hinv Hop Er Hg Ht).
Qed.
(* a holder stays a holder unless its component is removed or it is despawned *)
Lemma g_stay : leavesb o c e = false -> reg_get c e (w_reg w) <> None -> reg_get c e (w_reg (oo_world oo)) <> None.
Proof.
  intros Hl Hg. destruct (reg_get c e (w_reg w)) as [i|] eqn:Eg; [clear Hg|congruence].
  pose proof (mirror_some sc w c e i Hinv Eg) as Hh.
  assert (Hh' : holds (w_holds (oo_world oo)) c e -> reg_get c e (w_reg (oo_world oo)) <> None).
  { intros H. destruct inv_after as (_ & _ & _ & Hm & _). apply Hm. exact H. }
  destruct (is_rebuild o) eqn:Er; [apply Hh'; rewrite (rebuild_keeps_holds Er); exact Hh|].
  assert (Hd : deactivates o c e = false) by (rewrite deactivates_split, Hl, Er; reflexivity).
  destruct (joins o c e) eqn:Ej; [|rewrite (quiet_op_get sc c e a w o oo Hinv Hcfg Ho Hop Hd Ej), Eg; discriminate].
  apply Hh'. clear Hh'. destruct o as [e' cs|e' c'|e' c'|e'|]; cbn [joins] in Ej; try discriminate.
  - apply andb_true_iff in Ej. destruct Ej as [E1 _]. apply Z.eqb_eq in E1. subst e'. cbn [apply_op] in Hop.
    destruct Hh as (cs0 & A & B). rewrite A in Hop. injection Hop as <-. exists cs0. split; assumption.
  - cbn [apply_op] in Hop. injection Hop as <-. destruct (insert_grow sc w e' c' Hinv) as [G1 _ _ _ _ _]. apply G1. exact Hh.
Qed.
(* operations never deliver Started *)
Lemma g_nostart : cnt is_started (ev_of e a (oo_events oo)) = 0.
Proof.
  destruct (track_op sc c e a w o oo Hinv Hcfg Ho Hop) as [_ T]. cbv zeta in T. rewrite cnt_kinds.
  destruct (stored (w_reg w) c e a) as [d|].
  - destruct (deactivates o c e).
    + destruct T as (T1 & _). rewrite (close_no_started _ _ T1). reflexivity.
    + destruct T as [-> _]. reflexivity.
  - destruct T as [-> _]. reflexivity.
Qed.
End OneOp.

(* ---- runs of operations ---- *)
Section Runs.
Variables (sc : scenario) (c : ctx) (e : entity) (a : aid).
Hypothesis Ho : owner sc c a.

Lemma run_step ops o w oo : reg_inv sc w -> cfg_inv sc (w_reg w) -> run_ops sc w (o :: ops) = Some oo ->
  exists r o2, apply_op sc w o = Some r /\ run_ops sc (oo_world r) ops = Some o2 /\ reg_inv sc (oo_world r) /\ cfg_inv sc (w_reg (oo_world r)) /\
    oo_world oo = oo_world o2 /\ oo_events oo = oo_events r ++ oo_events o2 /\ oo_built oo = oo_built r ++ oo_built o2.
Proof.
  intros Hinv Hcfg Hr. rewrite run_ops_cons in Hr. destruct (apply_op sc w o) as [r|] eqn:Ea; [|discriminate].
  destruct (run_ops sc (oo_world r) ops) as [o2|] eqn:E2; [|discriminate]. cbn [option_map] in Hr. injection Hr as <-.
  exists r, o2. split; [reflexivity|]. split; [exact E2|]. split; [exact (inv_after sc w o r Hinv Ea)|].
  split; [exact (proj1 (track_op sc c e a w o r Hinv Hcfg Ho Ea))|]. unfold prefix_out. cbn [oo_world oo_events oo_built]. repeat split.
Qed.

Lemma runs_nostart : forall ops w oo, reg_inv sc w -> cfg_inv sc (w_reg w) -> run_ops sc w ops = Some oo ->
  cnt is_started (ev_of e a (oo_events oo)) = 0.
Proof.
  induction ops as [|o ops IH]; intros w oo Hinv Hcfg Hr.
  - rewrite run_ops_nil in Hr. injection Hr as <-. reflexivity.
  - destruct (run_step ops o w oo Hinv Hcfg Hr) as (r & o2 & Ea & E2 & Hinv1 & Hcfg1 & _ & -> & _).
    rewrite TrackOpP.ev_of_app, cnt_app, (g_nostart sc c e a w o r Hinv Hcfg Ho Ea), (IH _ _ Hinv1 Hcfg1 E2). reflexivity.
Qed.

(* no operation of the run gives c to e *)
Lemma runs_nojoin : forall ops w oo, reg_inv sc w -> cfg_inv sc (w_reg w) ->
  forallb (fun o => negb (joins o c e)) ops = true -> run_ops sc w ops = Some oo ->
  (reg_get c e (w_reg w) = None -> ev_of e a (oo_events oo) = [] /\ reg_get c e (w_reg (oo_world oo)) = None) /\
  (open_of (stored (w_reg w) c e a) = 0 -> open_of (stored (w_reg (oo_world oo)) c e a) = 0) /\
  (reg_get c e (w_reg (oo_world oo)) <> None -> touched (oo_built oo) c e -> open_of (stored (w_reg (oo_world oo)) c e a) = 0) /\
  open_of (stored (w_reg w) c e a) + balance e a (oo_events oo) = open_of (stored (w_reg (oo_world oo)) c e a).
Proof.
  induction ops as [|o ops IH]; intros w oo Hinv Hcfg Hd Hr.
  - rewrite run_ops_nil in Hr. injection Hr as <-. cbn [oo_world oo_events oo_built]. rewrite balance_nil.
    split; [intros H; split; [reflexivity | exact H]|]. split; [trivial|]. split; [|lia].
    intros _ Ht. exfalso. exact (touched_nonempty _ _ _ Ht eq_refl).
  - cbn [forallb] in Hd. apply andb_true_iff in Hd. destruct Hd as [Hd1 Hd]. apply negb_true_iff in Hd1.
    destruct (run_step ops o w oo Hinv Hcfg Hr) as (r & o2 & Ea & E2 & Hinv1 & Hcfg1 & -> & -> & ->).
    destruct (IH (oo_world r) o2 Hinv1 Hcfg1 Hd E2) as (I1 & I2 & I3 & I4).
    split; [|split; [|split]].
    + intros Hg. destruct (g_absent sc c e a w o r Hinv Hcfg Ho Ea Hd1 Hg) as [A1 A2]. destruct (I1 A2) as [B1 B2].
      split; [rewrite TrackOpP.ev_of_app, A1, B1; reflexivity | exact B2].
    + intros H0. apply I2. exact (g_idle sc c e a w o r Hinv Hcfg Ho Ea Hd1 H0).
    + intros Hg' Ht. apply touched_app in Ht. destruct Ht as [Ht|Ht]; [|exact (I3 Hg' Ht)].
      apply I2.
      assert (Hg1 : reg_get c e (w_reg (oo_world r)) <> None) by (intros H; apply Hg'; exact (proj2 (I1 H))).
      assert (Hg0 : reg_get c e (w_reg w) <> None) by (intros H; apply Hg1; exact (proj2 (g_absent sc c e a w o r Hinv Hcfg Ho Ea Hd1 H))).
      apply (g_reb sc c e a w o r Hinv Hcfg Ho Ea). exact (g_touch sc c e w o r Hinv Ea Hg0 Ht).
    + rewrite balance_app.
      assert (Hj : join_free_at c e a (w_reg w) (w_reg (oo_world r))).
      { apply (join_free_static sc c e a w o r Hinv Hcfg Ho Ea). right. exact Hd1. }
      pose proof (op_balance sc c e a w o r Hinv Hcfg Ho Ea Hj) as Hb. lia.
Qed.

(* no operation of the run takes c away from e *)
Lemma runs_noleave : forall ops w oo, reg_inv sc w -> cfg_inv sc (w_reg w) ->
  forallb (fun o => negb (leavesb o c e)) ops = true -> run_ops sc w ops = Some oo ->
  (reg_get c e (w_reg w) <> None -> reg_get c e (w_reg (oo_world oo)) <> None) /\
  (reg_get c e (w_reg w) = None -> reg_get c e (w_reg (oo_world oo)) = None -> ev_of e a (oo_events oo) = []).
Proof.
  induction ops as [|o ops IH]; intros w oo Hinv Hcfg Hd Hr.
  - rewrite run_ops_nil in Hr. injection Hr as <-. cbn [oo_world oo_events]. split; [trivial | reflexivity].
  - cbn [forallb] in Hd. apply andb_true_iff in Hd. destruct Hd as [Hd1 Hd]. apply negb_true_iff in Hd1.
    destruct (run_step ops o w oo Hinv Hcfg Hr) as (r & o2 & Ea & E2 & Hinv1 & Hcfg1 & -> & -> & _).
    destruct (IH (oo_world r) o2 Hinv1 Hcfg1 Hd E2) as (I1 & I2). split.
    + intros Hg. apply I1. exact (g_stay sc c e a w o r Hinv Hcfg Ho Ea Hd1 Hg).
    + intros Hg Hg'. rewrite TrackOpP.ev_of_app.
      destruct (track_op sc c e a w o r Hinv Hcfg Ho Ea) as [_ T]. cbv zeta in T. rewrite (stored_get_none _ _ _ _ Hg) in T. destruct T as [-> _].
      destruct (reg_get c e (w_reg (oo_world r))) as [i1|] eqn:Eg1.
      * exfalso. apply I1; [discriminate | exact Hg'].
      * rewrite (I2 eq_refl Hg'). reflexivity.
Qed.
End Runs.

(* ---- what one step does to one entry ---- *)
Record gsum (rj rt : bool) (c e a : Z) (r r' : registry) (E : list event) (bl : list (ctx * entity)) : Prop := mkGsum {
  gs_nostart : reg_get c e r = None -> cnt is_started (ev_of e a E) = 0;
  gs_none : rj && rt = false -> reg_get c e r = None -> reg_get c e r' = None -> ~ touched bl c e -> ev_of e a E = [];
  gs_bal : rj = false -> reg_get c e r <> None -> open_of (stored r c e a) + balance e a E = open_of (stored r' c e a);
  gs_touch : rj = false -> reg_get c e r <> None -> reg_get c e r' <> None -> touched bl c e -> open_of (stored r' c e a) = 0 }.

Lemma judge_g_ok rejoin retake before o c e a r r' st :
  obs c e a r' o -> gsum (rejoin c e) (retake c e) c e a r r' (x_pre o ++ x_main o ++ x_post o) (x_built o) -> rinv r c e a st ->
  fst (C02r.judge_entry rejoin retake before o (c, e, a) st) = 0 /\
  rinv r' c e a (snd (C02r.judge_entry rejoin retake before o (c, e, a) st)).
Proof.
  intros Hobs [S0 S1 S2 S3] Hst. pose proof (fin_state c e a r' o Hobs) as Hfin. destruct Hobs as [O1 O2 O3].
  unfold C02r.judge_entry. cbv beta iota zeta.
  change (C02r.present c e o) with (C02c.present c e o).
  change (if ctx_shared c then C02r.built_ctx c o else C02r.built_has c e o) with (rebuilt_of c e o).
  change (events_for e a (x_pre o ++ x_main o ++ x_post o)) with (ev_of e a (x_pre o ++ x_main o ++ x_post o)).
  change (match snap_of_entry c e a (x_snaps o) with Some s => if state_eqb (sn_state s) SNone then 0 else 1 | None => 0 end) with (open_snap c e a o).
  destruct st as [op|]; cbn [rinv] in Hst.
  - destruct Hst as [Hg ->]. destruct (rejoin c e) eqn:Erj; [cbn [fst snd]; split; [reflexivity | exact Hfin]|].
    assert (Hb : open_of (stored r c e a) + C02r.count C02r.is_started (ev_of e a (x_pre o ++ x_main o ++ x_post o))
                 - C02r.count C02r.is_terminal (ev_of e a (x_pre o ++ x_main o ++ x_post o)) = open_of (stored r' c e a)).
    { pose proof (S2 eq_refl Hg) as H. unfold balance in H.
      change (C02r.count C02r.is_started (ev_of e a (x_pre o ++ x_main o ++ x_post o))) with (cnt is_started (ev_of e a (x_pre o ++ x_main o ++ x_post o))).
      change (C02r.count C02r.is_terminal (ev_of e a (x_pre o ++ x_main o ++ x_post o))) with (cnt is_terminal (ev_of e a (x_pre o ++ x_main o ++ x_post o))). lia. }
    rewrite Hb. pose proof (open_of_range (stored r' c e a)) as Hr.
    assert (H01 : negb (Z.eqb (open_of (stored r' c e a)) 0 || Z.eqb (open_of (stored r' c e a)) 1) = false).
    { destruct (Z.eqb_spec (open_of (stored r' c e a)) 0); [reflexivity|]. destruct (Z.eqb_spec (open_of (stored r' c e a)) 1); [reflexivity | lia]. }
    rewrite H01.
    assert (H4 : (negb (C02c.present c e o) || rebuilt_of c e o) && negb (Z.eqb (open_of (stored r' c e a)) 0) = false).
    { rewrite O1. destruct (reg_get c e r') as [i'|] eqn:Eg'.
      - cbn [negb orb]. destruct (rebuilt_of c e o) eqn:Er; [|reflexivity]. rewrite (S3 eq_refl Hg ltac:(discriminate) (proj1 O3 eq_refl)). reflexivity.
      - rewrite (stored_get_none _ _ _ _ Eg'). reflexivity. }
    rewrite H4. cbn [fst snd]. split; [reflexivity | exact Hfin].
  - assert (Hc0 : C02r.count C02r.is_started (ev_of e a (x_pre o ++ x_main o ++ x_post o)) = 0) by (exact (S0 Hst)).
    rewrite Hc0. cbn [Z.eqb].
    destruct (C02c.present c e o) eqn:Ep; cbn [orb fst snd]; [split; [reflexivity | exact Hfin]|].
    destruct (rebuilt_of c e o) eqn:Er; cbn [orb fst snd]; [split; [reflexivity | exact Hfin]|].
    destruct (rejoin c e && retake c e) eqn:Egt; cbn [fst snd]; [split; [reflexivity | exact Hfin]|].
    assert (Hg' : reg_get c e r' = None) by (destruct (reg_get c e r'); [discriminate | reflexivity]).
    assert (Hnt : ~ touched (x_built o) c e) by (intros Ht; apply O3 in Ht; congruence).
    rewrite (S1 eq_refl Hst Hg' Hnt). cbn [fst snd rinv]. split; [reflexivity | exact Hg'].
Qed.

Definition rejoinb (rs : list reaction) (c e : Z) : bool := existsb (fun r => joins (r_op r) c e) rs.
Definition leavesrb (rs : list reaction) (c e : Z) : bool := existsb (fun r => leavesb (r_op r) c e) rs.

Lemma existsb_false_in {A} (f : A -> bool) l x : existsb f l = false -> In x l -> f x = false.
Proof. intros H Hin. destruct (f x) eqn:E; [|reflexivity]. assert (X : existsb f l = true) by (apply existsb_exists; exists x; split; assumption). congruence. Qed.
Lemma fired_forall (P : op -> bool) rs armed fired rest : incl armed rs -> Permutation armed (fired ++ rest) ->
  (forall r, In r rs -> P (r_op r) = true) -> forallb P (map r_op fired) = true /\ incl rest rs.
Proof.
  intros Hi Pm H. split.
  - apply forallb_forall. intros o Ho. apply in_map_iff in Ho. destruct Ho as (r & <- & Hr). apply H, Hi.
    apply (Permutation_in _ (Permutation_sym Pm)). apply in_or_app. left. exact Hr.
  - intros r Hr. apply Hi. apply (Permutation_in _ (Permutation_sym Pm)). apply in_or_app. right. exact Hr.
Qed.

Theorem step_g_sum sc rs armed w st w' o armed' c e a :
  winv sc w -> incl armed rs -> (forall r, In r rs -> op_okb sc (r_op r) = true) ->
  owner sc c a -> ev_free sc c a -> step_okb sc st = true -> no_frame_ops st = true ->
  step_res_r sc armed w st = Some (w', o, armed') ->
  gsum (rejoinb rs c e) (leavesrb rs c e) c e a (w_reg w) (w_reg w') (x_pre o ++ x_main o ++ x_post o) (x_built o) /\ winv sc w' /\ incl armed' rs.
Proof.
  intros Hw Hinc Hrok Ho Hf Hok Hnf Hs.
  assert (Hnj : rejoinb rs c e = false -> forall r, In r rs -> negb (joins (r_op r) c e) = true).
  { intros H r Hr. apply negb_true_iff. exact (existsb_false_in _ rs r H Hr). }
  assert (Hnl : leavesrb rs c e = false -> forall r, In r rs -> negb (leavesb (r_op r) c e) = true).
  { intros H r Hr. apply negb_true_iff. exact (existsb_false_in _ rs r H Hr). }
  destruct st as [o1|f]; cbn [step_res_r step_okb no_frame_ops] in *.
  - destruct (op_r sc armed w o1) as [d|] eqn:Eop; [|discriminate]. injection Hs as <- <- <-. cbn [x_pre x_main x_post x_built app]. rewrite app_nil_r.
    destruct (dopb o1) eqn:Ed.
    + destruct (op_r_linear sc armed w o1 d Eop) as (fired & oo & P & R & W & B & V).
      destruct (fired_forall (op_okb sc) rs armed fired (dv_armed d) Hinc P Hrok) as [Hfok Hrest].
      rewrite W, B. split; [|split; [|exact Hrest]].
      2:{ apply (run_ops_winv sc (o1 :: map r_op fired) w oo Hw); [|exact R]. cbn [forallb]. rewrite Hok. exact Hfok. }
      pose proof (wi_reg _ _ Hw) as Hinv. pose proof (wi_cfg _ _ Hw c a Ho) as Hcfg.
      assert (Hj1 : joins o1 c e = false) by (apply dop_no_join; exact Ed).
      assert (Hnjall : rejoinb rs c e = false -> forallb (fun o => negb (joins o c e)) (o1 :: map r_op fired) = true).
      { intros H. cbn [forallb]. rewrite Hj1. cbn [negb andb]. exact (proj1 (fired_forall (fun o => negb (joins o c e)) rs armed fired (dv_armed d) Hinc P (Hnj H))). }
      constructor.
      * intros _. rewrite (cnt_perm _ _ _ (ev_of_perm e a _ _ V)). exact (runs_nostart sc c e a Ho _ w oo Hinv Hcfg R).
      * intros Hrt Hg Hg' _. apply (ev_of_perm_nil e a _ _ V). destruct (rejoinb rs c e) eqn:Erj.
        -- cbn [andb] in Hrt. pose proof Hrt as Hc.
           destruct (run_step sc c e a Ho _ o1 w oo Hinv Hcfg R) as (r1 & o2 & Ea & E2 & Hinv1 & Hcfg1 & Hw2 & -> & _).
           destruct (g_absent sc c e a w o1 r1 Hinv Hcfg Ho Ea Hj1 Hg) as [A1 A2]. rewrite TrackOpP.ev_of_app, A1. cbn [app].
           rewrite Hw2 in Hg'.
           exact (proj2 (runs_noleave sc c e a Ho _ (oo_world r1) o2 Hinv1 Hcfg1
                          (proj1 (fired_forall (fun o => negb (leavesb o c e)) rs armed fired (dv_armed d) Hinc P (Hnl Hc))) E2) A2 Hg').
        -- exact (proj1 (proj1 (runs_nojoin sc c e a Ho _ w oo Hinv Hcfg (Hnjall eq_refl) R) Hg)).
      * intros Hrj _. rewrite (balance_perm e a _ _ V). exact (proj2 (proj2 (proj2 (runs_nojoin sc c e a Ho _ w oo Hinv Hcfg (Hnjall Hrj) R)))).
      * intros Hrj _ Hg' Ht. exact (proj1 (proj2 (proj2 (runs_nojoin sc c e a Ho _ w oo Hinv Hcfg (Hnjall Hrj) R))) Hg' Ht).
    + unfold op_r in Eop. destruct (apply_op sc w o1) as [oo0|] eqn:Ea; [|discriminate].
      pose proof (join_no_events sc w o1 oo0 Ea Ed) as Hev. rewrite Hev, deliver_nil in Eop. injection Eop as <-.
      cbn [dv_world dv_events dv_built dv_armed]. rewrite app_nil_r. split; [|split; [exact (winv_op sc w o1 oo0 Hw Hok Ea) | exact Hinc]].
      assert (Hr : is_rebuild o1 = false) by (destruct o1; cbn in Ed |- *; congruence).
      pose proof (op_sum_one sc c e a w o1 oo0 (wi_reg _ _ Hw) (wi_cfg _ _ Hw c a Ho) Ho Ea) as Hsum. rewrite Hev in Hsum.
      change (ev_of e a []) with (@nil event) in Hsum. unfold op_sum in Hsum.
      constructor.
      * intros _. reflexivity.
      * intros _ _ _ _. reflexivity.
      * intros _ Hg. pose proof (held_not_touched sc w o1 oo0 c e (wi_reg _ _ Hw) Ea Hr Hg) as Hnt.
        rewrite balance_nil, Z.add_0_r, !open_of_acc. destruct (reg_get c e (w_reg w)) as [i|]; [|congruence].
        destruct Hsum as (SA & _ & SC). destruct (reg_get c e (w_reg (oo_world oo0))) as [i'|] eqn:Eg'.
        -- destruct (SC ltac:(discriminate) Hnt) as [_ ->]. reflexivity.
        -- destruct (SA eq_refl) as [H1 _]. rewrite (acc_at_none _ _ _ _ (stored_get_none _ _ _ _ Eg')).
           destruct (acc_at (w_reg w) c e a) as [|s0]; [reflexivity|]. destruct s0; discriminate.
      * intros _ Hg _ Ht. exfalso. exact (held_not_touched sc w o1 oo0 c e (wi_reg _ _ Hw) Ea Hr Hg Ht).
  - destruct (frame_r sc armed w f) as [fo|] eqn:Efr; [|discriminate]. injection Hs as <- <- <-. cbn [x_pre x_main x_post x_built app].
    destruct (f_ops f) as [|? ?] eqn:Eops; [|discriminate].
    destruct (frame_r_linear sc armed w f fo Efr) as (main & fired & all & oo & Hm & P & A & R & W & B & V).
    rewrite Eops in A. cbn [app] in A.
    destruct (fired_forall (op_okb sc) rs armed fired (fr_armed fo) Hinc P Hrok) as [Hfok Hrest].
    pose proof (winv_mid sc w f Hw) as Hwm. pose proof (wi_reg _ _ Hwm) as Hinvm. pose proof (wi_cfg _ _ Hwm c a Ho) as Hcfgm.
    pose proof (proj1 (reg_inv_alt sc w) (wi_reg _ _ Hw)) as (Hwf & _ & _).
    destruct (frame_balance sc c e a (frame_time f) (f_raw f) (update_state (f_raw f)) (w_reg w) main Hwf (wi_cfg _ _ Hw c a Ho) Ho Hf Hm) as [Hb _].
    change (ro_reg (reg_update (frame_time f) (f_raw f) (update_state (f_raw f)) (w_reg w))) with (w_reg (mid_world w f)) in Hb.
    assert (Hmain0 : reg_get c e (w_reg w) = None -> ev_of e a main = [] /\ reg_get c e (w_reg (mid_world w f)) = None).
    { intros Hg. destruct (track_frame sc c e a (frame_time f) (f_raw f) (update_state (f_raw f)) (w_reg w) Hwf (wi_cfg _ _ Hw c a Ho) Ho Hf) as (main' & Hm' & _ & Hres).
      cbv zeta in Hm', Hres. rewrite Hm in Hm'. injection Hm' as <-. rewrite (stored_get_none _ _ _ _ Hg) in Hres. destruct Hres as [-> _]. split; [reflexivity|].
      destruct (reg_get c e (w_reg (mid_world w f))) eqn:E; [|reflexivity]. exfalso. apply (proj1 (reg_get_mid sc w f c e (wi_reg _ _ Hw))); congruence. }
    assert (Hnjall : rejoinb rs c e = false -> forallb (fun o => negb (joins o c e)) all = true).
    { intros H. exact (forallb_perm _ _ _ A (proj1 (fired_forall (fun o => negb (joins o c e)) rs armed fired (fr_armed fo) Hinc P (Hnj H)))). }
    rewrite W, B. split; [|split; [|exact Hrest]].
    2:{ apply (run_ops_winv sc all (mid_world w f) oo Hwm); [|exact R]. exact (forallb_perm _ _ _ A Hfok). }
    constructor.
    + intros Hg. destruct (Hmain0 Hg) as [M1 M2].
      rewrite (cnt_perm _ _ _ (ev_of_perm e a _ _ V)), TrackOpP.ev_of_app, M1. cbn [app]. exact (runs_nostart sc c e a Ho _ _ oo Hinvm Hcfgm R).
    + intros Hrt Hg Hg' _. destruct (Hmain0 Hg) as [M1 M2]. apply (ev_of_perm_nil e a _ _ V). rewrite TrackOpP.ev_of_app, M1. cbn [app].
      destruct (rejoinb rs c e) eqn:Erj.
      * cbn [andb] in Hrt. pose proof Hrt as Hc.
        exact (proj2 (runs_noleave sc c e a Ho _ _ oo Hinvm Hcfgm
                       (forallb_perm _ _ _ A (proj1 (fired_forall (fun o => negb (leavesb o c e)) rs armed fired (fr_armed fo) Hinc P (Hnl Hc)))) R) M2 Hg').
      * exact (proj1 (proj1 (runs_nojoin sc c e a Ho _ _ oo Hinvm Hcfgm (Hnjall eq_refl) R) M2)).
    + intros Hrj _. rewrite (balance_perm e a _ _ V), balance_app.
      pose proof (proj2 (proj2 (proj2 (runs_nojoin sc c e a Ho _ _ oo Hinvm Hcfgm (Hnjall Hrj) R)))) as I4. lia.
    + intros Hrj _ Hg' Ht. exact (proj1 (proj2 (proj2 (runs_nojoin sc c e a Ho _ _ oo Hinvm Hcfgm (Hnjall Hrj) R))) Hg' Ht).
Qed.

(* ---- induction over the steps ---- *)
Theorem judge_steps_g_sound sc rs ents :
  (forall x, In x ents -> entry_ok' sc x) -> (forall r, In r rs -> op_okb sc (r_op r) = true) ->
  forall steps armed w before sts, winv sc w -> incl armed rs -> Forall2 (rinv' (w_reg w)) ents sts ->
  forallb (step_okb sc) steps = true -> forallb no_frame_ops steps = true ->
  C02r.judge_steps (rejoinb rs) (leavesrb rs) ents sts before steps (C02r.run_steps_r sc armed w steps) = 0.
Proof.
  intros Hents Hrok. induction steps as [|st steps IH]; intros armed w before sts Hw Hinc Hsts Hok Hnf; [reflexivity|].
  cbn [forallb] in Hok, Hnf. apply andb_true_iff in Hok. destruct Hok as [Hok1 Hok]. apply andb_true_iff in Hnf. destruct Hnf as [Hnf1 Hnf].
  rewrite run_steps_r_cons. destruct (step_res_r_total sc armed w st (wi_reg _ _ Hw)) as (w' & o & armed' & Hres & Hshows). rewrite Hres.
  cbn [C02r.judge_steps]. destruct Hshows as (Hm & Hsn & Hp). rewrite Hp.
  assert (Hw' : winv sc w' /\ incl armed' rs).
  { destruct ents as [|[[c e] a] ents'].
    - destruct st as [o1|f]; cbn [step_res_r step_okb no_frame_ops] in *.
      + destruct (op_r sc armed w o1) as [d|] eqn:Eop; [|discriminate]. injection Hres as <- <- <-.
        destruct (op_r_linear sc armed w o1 d Eop) as (fired & oo & P & R & W & B & V).
        destruct (fired_forall (op_okb sc) rs armed fired (dv_armed d) Hinc P Hrok) as [Hfok Hrest].
        split; [|exact Hrest]. rewrite W. apply (run_ops_winv sc (o1 :: map r_op fired) w oo Hw); [|exact R]. cbn [forallb]. rewrite Hok1. exact Hfok.
      + destruct (frame_r sc armed w f) as [fo|] eqn:Efr; [|discriminate]. injection Hres as <- <- <-.
        destruct (f_ops f) as [|? ?] eqn:Eops; [|discriminate].
        destruct (frame_r_linear sc armed w f fo Efr) as (main & fired & all & oo & _ & P & A & R & W & _ & _). rewrite Eops in A. cbn [app] in A.
        destruct (fired_forall (op_okb sc) rs armed fired (fr_armed fo) Hinc P Hrok) as [Hfok Hrest]. split; [|exact Hrest]. rewrite W.
        apply (run_ops_winv sc all (mid_world w f) oo (winv_mid sc w f Hw)); [|exact R]. exact (forallb_perm _ _ _ A Hfok).
    - assert (Hx : owner sc c a /\ ev_free sc c a).
      { destruct (Hents (c, e, a) (or_introl eq_refl)) as [X|X]; cbn [fst snd] in X; [destruct X; split; assumption | destruct X; split; assumption]. }
      destruct Hx as [Ho Hf].
      destruct (step_g_sum sc rs armed w st w' o armed' c e a Hw Hinc Hrok Ho Hf Hok1 Hnf1 Hres) as (_ & A & B). split; assumption. }
  destruct Hw' as [Hw' Hinc'].
  destruct (entries_step (rinv' (w_reg w)) (rinv' (w_reg w')) (C02r.judge_entry (rejoinb rs) (leavesrb rs) before o) ents sts Hsts) as [E1 E2].
  { intros [[c e] a] s Hin Hs. unfold rinv' in *. cbn [fst snd] in *.
    pose proof (Hents _ Hin) as Hx. unfold entry_ok' in Hx. cbn [fst snd] in Hx.
    assert (Hof : owner sc c a /\ ev_free sc c a) by (destruct Hx as [X|X]; destruct X; split; assumption). destruct Hof as [Ho Hf].
    destruct (step_g_sum sc rs armed w st w' o armed' c e a Hw Hinc Hrok Ho Hf Hok1 Hnf1 Hres) as (Hsum & _ & _).
    apply (judge_g_ok (rejoinb rs) (leavesrb rs) before o c e a (w_reg w) (w_reg w')); [|exact Hsum | exact Hs].
    apply (obs_any sc w' o c e a); [repeat split; assumption | exact Hw' | exact Hx]. }
  rewrite E1. apply (IH armed' w' o); assumption.
Qed.

(* ---- the profile and the theorem ---- *)
Definition profile_C02r_wideb (p : C02r.rcase) : bool :=
  match p with
  | C02r.reacting rs sc =>
      p_lookup sc && p_owner sc && p_evfree sc && spawns_declared sc &&
      forallb no_frame_ops (s_steps sc) && forallb (fun r => op_okb sc (r_op r)) rs
  end.
Definition profile_C02r_wide (p : C02r.rcase) : Prop := profile_C02r_wideb p = true.

Theorem C02r_app_judgement_sound_wide : forall p, profile_C02r_wide p -> C02r.ok (p, model_r p) = 0.
Proof.
  intros [rs sc] Hp. unfold profile_C02r_wide, profile_C02r_wideb in Hp. repeat (apply andb_true_iff in Hp; destruct Hp as [Hp ?]).
  rename Hp into Hlook, H into Hrok, H0 into Hnf, H1 into Hspawn, H2 into Hfree, H3 into Hown.
  assert (Hprof : profile_C02 sc).
  { unfold profile_C02, profile_C02b, p_single. rewrite Hlook, Hown, Hfree, Hspawn, (no_frame_ops_single _ Hnf). reflexivity. }
  pose proof (profile_entries sc Hprof) as Hents.
  unfold model_r, C02r.ok. cbv zeta.
  change (C02r.all_entries sc) with (C02c.all_entries sc).
  change (fun c e : Z => existsb (fun r : reaction => match r_op r with
                                                       | OInsert e' c' => Z.eqb e e' && Z.eqb c c'
                                                       | OSpawn e2 cs => Z.eqb e e2 && memz c cs
                                                       | _ => false end) rs) with (rejoinb rs).
  change (fun c e : Z => existsb (fun r : reaction => match r_op r with
                                                       | ORemove e' c' => Z.eqb e e' && Z.eqb c c'
                                                       | ODespawn e2 => Z.eqb e e2
                                                       | _ => false end) rs) with (leavesrb rs).
  apply (judge_steps_g_sound sc rs (C02c.all_entries sc) Hents).
  - intros r Hr. rewrite forallb_forall in Hrok. apply Hrok, Hr.
  - apply winv_init.
  - apply incl_refl.
  - clear Hents. induction (C02c.all_entries sc) as [|x l IH]; cbn [map]; [constructor|]. constructor; [reflexivity | exact IH].
  - exact Hspawn.
  - exact Hnf.
Qed.

(* the class of JudgeC02rP (no giving reaction) is included *)
Lemma profile_sub_wide p : profile_C02r p -> profile_C02r_wide p.
Proof.
  destruct p as [rs sc]. unfold profile_C02r, profile_C02rb, profile_C02r_wide, profile_C02r_wideb. intros Hp.
  repeat (apply andb_true_iff in Hp; destruct Hp as [Hp ?]). rewrite Hp, H0, H1, H2, H3. cbn [andb].
  rewrite forallb_forall in H. apply forallb_forall. intros r Hr. apply dop_ok. apply H, Hr.
Qed.

(* a case with giving and taking reactions (for different entities): entity 1, not spawned at the start, is spawned by a
   reaction in the middle of a frame and joins the live shared instance (56 in the middle of an episode, which it continues
   without a Started); entity 0 is removed by another reaction in the same frame; a third reaction rebuilds *)
Definition wd_sc : scenario := mkScenario [3] [0; 1] [((3, 0), rf_spec); ((3, 1), rf_spec)]
  [SOp (OSpawn 0 [3]); rf_frame (1#8); rf_frame (1#128); rf_frame 0; rf_frame (1#8); rf_frame (1#256); rf_frame (1#64)].
Definition rs_wide : list reaction :=
  [mkReact 56 EOngoing 0 (OSpawn 1 [3]); mkReact 4 ECanceled (-1) (ORemove 0 3); mkReact 56 EFired 1 ORebuild].
Example C02r_app_judgement_sound_wide_nonvacuous :
  profile_C02r_wide (C02r.reacting rs_wide wd_sc) /\ profile_C02rb (C02r.reacting rs_wide wd_sc) = false /\
  C02r.ok (C02r.reacting rs_wide wd_sc, model_r (C02r.reacting rs_wide wd_sc)) = 0 /\
  match model_r (C02r.reacting rs_wide wd_sc) with
  | trace outs => map (fun o => ev_view (x_main o)) (firstn 2 (skipn 2 outs))
  | panic => []
  end = [[(0, 56, EOngoing); (0, 4, ECanceled); (0, 56, ECanceled)]; [(1, 56, EOngoing); (1, 4, EStarted); (1, 4, EFired)]].
Proof. split; [vm_compute; reflexivity|]. split; [vm_compute; reflexivity|]. split; vm_compute; reflexivity. Qed.
(* the case on which the first version of the judgement failed (giving and taking reactions for the SAME entity) is inside *)
Example C02r_app_judgement_sound_wide_covers_rf :
  profile_C02r_wide rf_case /\ C02r.ok (rf_case, model_r rf_case) = 0.
Proof. assert (H : profile_C02r_wide rf_case) by (vm_compute; reflexivity). split; [exact H | exact (C02r_app_judgement_sound_wide _ H)]. Qed.

Theorem C02r_app_judgement_transfer_wide : forall p t, profile_C02r_wide p -> C02r.agree (p, t) = true -> C02r.ok (p, t) = 0.
Proof. intros p t Hp H. rewrite (C02r_app_judgement_respects_agree p t H). apply C02r_app_judgement_sound_wide. exact Hp. Qed.

Print Assumptions C02r_app_judgement_sound_wide.
Print Assumptions C02r_app_judgement_transfer_wide.
