(* Soundness (S) and transfer (T) of the executable judgement Check/C04c.v (with Check/Merge.v):
     C04_app_judgement_sound    : forall sc, profile_C04 sc -> C04c.ok (sc, trace (run sc)) = 0
     C04_app_judgement_transfer : forall sc t, profile_C04 sc -> agree_full (sc, t) = true -> C04c.ok (sc, t) = 0
   Ladder: R1 one action evaluation (judge_action_model), every action of one instance update (inst_update_judged4);
   R2 the invariant (signature of the bindings; no held-input suppression left after an idle frame) is kept by every
   evaluation; R3 induction over the steps (frames_judged4).  Builds on Proofs/MergeP.v (the fold over the inputs is the
   specification pair on regular frames) and reuses the log / world lemmas of Proofs/JudgeC03P.v. *)
From BEI Require Import Model.Frame Spec.Law Spec.Events.
From BEI Require Import Proofs.ValueP Proofs.StateP Proofs.TrackerP Proofs.ActionP Proofs.MergeP Proofs.InstanceP Proofs.JudgeC03P.
From BEI Require Import Check.C04c.
Open Scope Z_scope.

Definition all_true (l : list (Z * bool)) : Prop := forall k b, In (k, b) l -> b = true.
Lemma all_true_app a b : all_true a -> all_true b -> all_true (a ++ b).
Proof. intros Ha Hb k x H. apply in_app_or in H. destruct H; [now apply (Ha k)|now apply (Hb k)]. Qed.
Lemma all_true_cons k x l : x = true -> all_true l -> all_true ((k, x) :: l).
Proof. intros Hx Hl k' x' [H|H]; [inversion H; now subst|now apply (Hl k')]. Qed.
Lemma all_true_nil : all_true []. Proof. intros k b []. Qed.
Lemma all_true_flat_map {A} (f : A -> list (Z * bool)) l : (forall x, In x l -> all_true (f x)) -> all_true (flat_map f l).
Proof. intros H k b Hin. apply in_flat_map in Hin. destruct Hin as (x & Hx & Hin). exact (H x Hx k b Hin). Qed.

(* the two helpers of Check/Merge.v are those of Check/C03c.v *)
Lemma results_of_same : results_of = C03c.results_of. Proof. reflexivity. Qed.
Lemma last_mod_out_same : last_mod_out = C03c.last_mod_out. Proof. reflexivity. Qed.

(* ================================================================================================ *)
(* 1. values up to Qeq                                                                              *)
(* ================================================================================================ *)

Lemma veq_sym a b : veq a b -> veq b a.
Proof.
  destruct a, b; cbn [veq]; try tauto.
  - intros H. now symmetry.
  - intros H. now symmetry.
  - intros [H1 H2]. split; now symmetry.
  - intros (H1 & H2 & H3). repeat split; now symmetry.
Qed.
Lemma veq_trans a b c : veq a b -> veq b c -> veq a c.
Proof.
  destruct a, b, c; cbn [veq]; try tauto; intros H1 H2.
  - congruence.
  - now rewrite H1.
  - destruct H1 as [A1 A2], H2 as [B1 B2]. split; [now rewrite A1|now rewrite A2].
  - destruct H1 as (A1 & A2 & A3), H2 as (B1 & B2 & B3). repeat split; [now rewrite A1|now rewrite A2|now rewrite A3].
Qed.
Lemma veqb_refl v : veqb v v = true.
Proof. apply veqb_veq. apply veq_refl. Qed.
Lemma veq_dim a b : veq a b -> vdim a = vdim b.
Proof. destruct a, b; cbn [veq]; try tauto; reflexivity. Qed.

Lemma as_bool_veq v v' : veq v v' -> as_bool v = as_bool v'.
Proof. intros H. apply as_bool_veqb. now apply veqb_veq. Qed.

Lemma as3_veq v v' : veq v v' ->
  fst (fst (as3 v)) == fst (fst (as3 v')) /\ snd (fst (as3 v)) == snd (fst (as3 v')) /\ snd (as3 v) == snd (as3 v').
Proof.
  destruct v, v'; cbn [veq as3 fst snd]; try contradiction; intros H;
    repeat match goal with H0 : _ /\ _ |- _ => destruct H0 end; subst;
    (split; [|split]); first [assumption | reflexivity].
Qed.

Lemma convert_v3_veq d x y z x' y' z' : x == x' -> y == y' -> z == z' -> veq (convert d (V3 x y z)) (convert d (V3 x' y' z')).
Proof.
  intros Hx Hy Hz. destruct d; cbn [convert as_bool as1 as2 as3 veq].
  - now rewrite (qnz_compat _ _ Hx), (qnz_compat _ _ Hy), (qnz_compat _ _ Hz).
  - exact Hx.
  - split; assumption.
  - repeat split; assumption.
Qed.

Lemma qabs_compat x y : x == y -> qabs x == qabs y.
Proof. intros H. unfold qabs. rewrite (Qleb_comp 0%Q 0%Q (Qeq_refl 0%Q) x y H). destruct (Qle_bool 0 y); [exact H|now rewrite H]. Qed.
Lemma pick_compat x x' y y' : x == x' -> y == y' ->
  (if qltb (qabs x) (qabs y) then y else x) == (if qltb (qabs x') (qabs y') then y' else x').
Proof.
  intros Hx Hy. unfold qltb. rewrite (Qleb_comp _ _ (qabs_compat _ _ Hy) _ _ (qabs_compat _ _ Hx)).
  destruct (Qle_bool (qabs y') (qabs x')); cbn [negb]; assumption.
Qed.

(* the accumulation of the judgement against that of the model (Qred, own dimension) *)
Lemma acc_step_combine d mode a a' v v' : vdim a' = d -> veq a a' -> veq v v' ->
  veq (acc_step d mode a v) (combine_value mode a' v').
Proof.
  intros Hd Ha Hv. unfold acc_step, combine_value. rewrite Hd.
  destruct (as3_veq _ _ Ha) as (A1 & A2 & A3). destruct (as3_veq _ _ Hv) as (B1 & B2 & B3).
  destruct (as3 a) as [[ax ay] az], (as3 a') as [[ax' ay'] az'], (as3 v) as [[bx by_] bz], (as3 v') as [[bx' by_'] bz'].
  cbn [fst snd] in *. destruct mode; cbn [v3add v3maxabs of3].
  - apply convert_v3_veq; rewrite Qred_correct; [now rewrite A1, B1|now rewrite A2, B2|now rewrite A3, B3].
  - apply convert_v3_veq; apply pick_compat; assumption.
Qed.

(* ================================================================================================ *)
(* 2. the rows of the judgement against the (results, value) pairs of Proofs/MergeP.v               *)
(* ================================================================================================ *)

Definition tri : Type := (input * value * pair)%type.
Definition pr (x : tri) : pair := snd x.
Definition mkrow (x : tri) : row :=
  mkRow (fst (fst x)) (snd (fst x)) (snd (pr x)) (fst (pr x)) (lawp (pr x)) (condless (fst (pr x))).
Definition actt (x : tri) : bool := nonnone (lawp (pr x)).
Definition csel (l : list tri) : list tri :=
  if state_eqb (max_own (map pr l)) SNone then [] else filter (fun x => state_eqb (lawp (pr x)) (max_own (map pr l))) l.

Lemma max_state_model l : forall acc,
  fold_left (fun acc r => state_max acc (rw_own r)) (map mkrow l) acc = MergeP.state_max acc (max_own (map pr l)).
Proof.
  induction l as [|x l IH]; intros acc; cbn [map fold_left max_own fold_right].
  - now rewrite state_max_none_r.
  - rewrite IH. cbn [mkrow rw_own]. rewrite state_max_same, <- state_max_assoc. reflexivity.
Qed.
Lemma max_state_rows l : max_state (map mkrow l) = max_own (map pr l).
Proof. unfold max_state. rewrite max_state_model. apply state_max_none_l. Qed.

Lemma filter_map_comm {A B} (f : A -> B) (p : B -> bool) l : filter p (map f l) = map f (filter (fun x => p (f x)) l).
Proof. induction l as [|x l IH]; cbn [map filter]; [reflexivity|]. rewrite IH. destruct (p (f x)); reflexivity. Qed.

Lemma contributing_rows l : contributing (map mkrow l) = map mkrow (csel l).
Proof.
  unfold contributing, csel. rewrite max_state_rows. destruct (state_eqb (max_own (map pr l)) SNone); [reflexivity|].
  apply filter_map_comm.
Qed.
Lemma contrib_rows l : contrib (map pr l) = map pr (csel l).
Proof.
  unfold contrib, csel. destruct (state_eqb (max_own (map pr l)) SNone); [reflexivity|]. apply filter_map_comm.
Qed.

Lemma merged_value_rows d mode l : veq (merged_value d mode (map mkrow l)) (MergeP.merged_value mode d (map pr l)).
Proof.
  destruct l as [|x l]; cbn [map merged_value MergeP.merged_value]; [apply veq_refl|].
  cbn [mkrow rw_value].
  assert (G : forall a a', vdim a' = d -> veq a a' ->
            veq (fold_left (fun acc x0 => acc_step d mode acc (rw_value x0)) (map mkrow l) a)
                (fold_left (fun a0 x0 => combine_value mode a0 (snd x0)) (map pr l) a')).
  { induction l as [|y l IH]; intros a a' Hd Ha; cbn [map fold_left]; [exact Ha|].
    apply IH; [rewrite combine_value_dim; exact Hd|]. cbn [mkrow rw_value]. apply acc_step_combine; [exact Hd|exact Ha|apply veq_refl]. }
  apply G; [apply convert_dim|apply veq_refl].
Qed.

Lemma flat_res_rows l : flat_map rw_res (map mkrow l) = concat (map fst (map pr l)).
Proof. induction l as [|x l IH]; [reflexivity|]. cbn [map]. cbn [flat_map concat]. rewrite IH. reflexivity. Qed.
Lemma forallb_condless_rows l : forallb rw_condless (map mkrow l) = forallb (fun p => condless (fst p)) (map pr l).
Proof. induction l as [|x l IH]; cbn [map forallb]; [reflexivity|]. now rewrite IH. Qed.

(* inputs whose own state is None do not matter *)
Lemma max_own_active l : max_own (map pr (filter actt l)) = max_own (map pr l).
Proof.
  induction l as [|x l IH]; cbn [filter map max_own fold_right]; [reflexivity|].
  unfold actt at 1, nonnone. destruct (state_eqb (lawp (pr x)) SNone) eqn:E; cbn [negb].
  - apply state_eqb_eq in E. fold (max_own (map pr l)). rewrite E, state_max_none_l. exact IH.
  - cbn [map max_own fold_right]. fold (max_own (map pr (filter actt l))). fold (max_own (map pr l)). now rewrite IH.
Qed.
Lemma max_own_idle l : filter actt l = [] -> max_own (map pr l) = SNone.
Proof. intros H. rewrite <- max_own_active, H. reflexivity. Qed.

Lemma filter_filter_imp {A} (f g : A -> bool) l : (forall x, f x = true -> g x = true) -> filter f (filter g l) = filter f l.
Proof.
  intros H. induction l as [|x l IH]; cbn [filter]; [reflexivity|].
  destruct (g x) eqn:Eg; cbn [filter]; rewrite IH; [reflexivity|].
  destruct (f x) eqn:Ef; [rewrite (H x Ef) in Eg; discriminate|reflexivity].
Qed.
Lemma csel_active l : csel (filter actt l) = csel l.
Proof.
  unfold csel. rewrite max_own_active. destruct (state_eqb (max_own (map pr l)) SNone) eqn:E; [reflexivity|].
  apply filter_filter_imp. intros x Hx. apply state_eqb_eq in Hx. unfold actt, nonnone. now rewrite Hx, E.
Qed.

Lemma filter_act_rows l : filter (fun r => negb (state_eqb (rw_own r) SNone)) (map mkrow l) = map mkrow (filter actt l).
Proof. rewrite filter_map_comm. reflexivity. Qed.

Lemma prefixes_spec d mode : forall rest seen,
  prefixes_ok d mode (map mkrow (filter actt seen)) (map mkrow (filter actt rest)) = true ->
  regular_spec mode d (map pr seen) (map pr rest) = true.
Proof.
  induction rest as [|cur more IH]; intros seen H; cbn [map regular_spec]; [reflexivity|].
  assert (Hsnoc : map pr seen ++ [pr cur] = map pr (seen ++ [cur])) by (rewrite map_app; reflexivity).
  rewrite Hsnoc. cbn [filter] in H. destruct (actt cur) eqn:Ea.
  - cbn [map prefixes_ok] in H. apply andb_true_iff in H. destruct H as [Hh Hr].
    apply andb_true_iff. split.
    + destruct (filter actt seen) as [|y ys] eqn:Es.
      * rewrite (max_own_idle seen Es). cbn [nonnone state_eqb state_rank Nat.eqb negb]. rewrite andb_false_r. reflexivity.
      * rewrite <- Es in Hh. cbn [map] in Hh.
        assert (Hh' : negb (forallb rw_condless (contributing (map mkrow (filter actt seen))) &&
                            negb (as_bool (merged_value d mode (contributing (map mkrow (filter actt seen)))))) = true).
        { rewrite Es in *. exact Hh. }
        clear Hh. rewrite contributing_rows, csel_active, forallb_condless_rows in Hh'.
        rewrite (as_bool_veq _ _ (merged_value_rows d mode (csel seen))) in Hh'.
        rewrite contrib_rows.
        set (A := forallb (fun p : list res * value => condless (fst p)) (map pr (csel seen))) in *.
        set (B := as_bool (MergeP.merged_value mode d (map pr (csel seen)))) in *.
        destruct A, B; cbn [negb andb] in Hh'; try discriminate Hh'; rewrite ?andb_false_r, ?orb_true_r; reflexivity.
    + apply IH. rewrite filter_app. cbn [filter]. rewrite Ea, map_app. exact Hr.
  - apply andb_true_iff. split.
    + unfold actt in Ea. rewrite Ea. reflexivity.
    + apply IH. rewrite filter_app. cbn [filter]. rewrite Ea, app_nil_r. exact H.
Qed.

Lemma regular_rows d mode l : regular d mode (map mkrow l) = true -> MergeP.regular mode d (map pr l) = true.
Proof.
  intros H. rewrite regular_is_spec. apply (prefixes_spec d mode l []). unfold regular in H. rewrite filter_act_rows in H. exact H.
Qed.

(* on a frame the judgement calls regular, the fold of the model is what the judgement computes from the rows *)
Lemma rows_spec d mode l : regular d mode (map mkrow l) = true ->
  let fin := fold_left (merge mode) (map pr l) ([], vzero d) in
  fst fin = flat_map rw_res (contributing (map mkrow l)) /\
  veq (snd fin) (merged_value d mode (contributing (map mkrow l))).
Proof.
  intros H. cbv zeta. destruct (most_significant_win mode d (map pr l) (regular_rows d mode l H)) as (H1 & H2 & _).
  rewrite H1, H2, contributing_rows, contrib_rows, flat_res_rows. split; [reflexivity|].
  apply veq_sym. apply merged_value_rows.
Qed.

(* ================================================================================================ *)
(* 3. reading the invocation log of one action evaluation                                           *)
(* ================================================================================================ *)

Lemma apply_mods_first m tm v id x r :
  In (LMod id v (snd (modif_apply (look_of m) tm v x)) (seen_of m)) (snd (apply_mods m tm v ((id, x) :: r))).
Proof.
  cbn [apply_mods]. destruct (modif_apply (look_of m) tm v x) as [x' v']. destruct (apply_mods m tm v' r) as [[r' v''] lg].
  left. reflexivity.
Qed.
Lemma mods_first_found LG m tm v ms :
  NoDup (map log_id LG) -> incl (snd (apply_mods m tm v ms)) LG -> ms <> [] -> first_mod_in ms LG = Some v.
Proof.
  intros Hd Hi Hne. destruct ms as [|[id x] r]; [congruence|]. unfold first_mod_in.
  rewrite (find_mod_in LG Hd id v _ _ (Hi _ (apply_mods_first m tm v id x r))). reflexivity.
Qed.
Lemma first_mod_notfound LG (ms : list (Z * modif)) :
  (forall id, In id (ids_of ms) -> ~ In id (map log_id LG)) -> first_mod_in ms LG = None.
Proof.
  destruct ms as [|[id x] r]; [reflexivity|]. intros H. unfold first_mod_in.
  rewrite find_mod_notin; [reflexivity|]. apply H. now left.
Qed.

Lemma condless_kinds look tm v cs :
  condless (cond_results look tm v cs) = forallb (fun ic : Z * cond => match cond_kind (snd ic) with KBlocker _ => true | _ => false end) cs.
Proof.
  unfold condless. induction cs as [|[id c] r IH]; [reflexivity|].
  cbn [cond_results map existsb forallb snd]. fold (cond_results look tm v r). rewrite <- IH.
  unfold is_expl at 1, is_impl at 1. cbn [fst]. destruct (cond_kind c) as [| |eo]; cbn [orb negb andb]; [reflexivity| |reflexivity].
  apply andb_false_r.
Qed.

Definition tri_of (m : actions) (tm : time) (r : raw) (c : consumed) (dev : device) (ib : ibind) : tri :=
  (ib_input ib, reader_value r c dev (ib_input ib), own_pair m tm r c dev ib).

Lemma tri_pairs m tm r c dev ibs : map pr (map (tri_of m tm r c dev) (evaluated r c dev ibs)) = own_pairs m tm r c dev ibs.
Proof. rewrite map_map. reflexivity. Qed.

(* the rows the judgement reconstructs from the log are those of the evaluated inputs *)
Lemma rows_of_model LG m tm r c dev : NoDup (map log_id LG) -> forall ibs,
  (forall ib, In ib ibs -> ib_mods ib <> []) ->
  (forall ib, In ib ibs -> skipped r c dev ib = false -> incl (input_log m tm r c dev ib) LG) ->
  (forall ib, In ib ibs -> skipped r c dev ib = true -> forall id, In id (ids_of (ib_mods ib)) -> ~ In id (map log_id LG)) ->
  flat_map (fun ib =>
    match first_mod_in (ib_mods ib) LG, last_mod_out (ib_mods ib) LG, results_of (ib_conds ib) LG with
    | Some rd, Some v, Some rs => [mkRow (ib_input ib) rd v rs (law rs v)
                                (forallb (fun ic => match cond_kind (snd ic) with KBlocker _ => true | _ => false end) (ib_conds ib))]
    | _, _, _ => []
    end) ibs
  = map mkrow (map (tri_of m tm r c dev) (evaluated r c dev ibs)).
Proof.
  intros Hd. induction ibs as [|ib rest IH]; intros Hne Hev Hsk; [reflexivity|].
  cbn [flat_map]. unfold evaluated. cbn [filter].
  rewrite IH; [|intros x Hx; apply Hne; now right|intros x Hx; apply Hev; now right|intros x Hx; apply Hsk; now right].
  destruct (skipped r c dev ib) eqn:Hs; cbn [negb].
  - rewrite (first_mod_notfound LG (ib_mods ib) (Hsk ib (or_introl eq_refl) Hs)). reflexivity.
  - pose proof (Hev ib (or_introl eq_refl) Hs) as Hi. unfold input_log in Hi.
    rewrite results_of_same, last_mod_out_same.
    rewrite (conds_found LG m tm (tracker_new (snd (own_pair m tm r c dev ib))) (ib_conds ib) Hd)
      by (intros x Hx; apply Hi; apply in_or_app; now right).
    rewrite (mods_found LG m tm (reader_value r c dev (ib_input ib)) (ib_mods ib) Hd)
      by (try (apply Hne; now left); intros x Hx; apply Hi; apply in_or_app; now left).
    rewrite (mods_first_found LG m tm (reader_value r c dev (ib_input ib)) (ib_mods ib) Hd)
      by (try (apply Hne; now left); intros x Hx; apply Hi; apply in_or_app; now left).
    cbn [map app tracker_new t_value]. f_equal. unfold mkrow, tri_of, pr, lawp, own_pair. cbn [fst snd].
    rewrite condless_kinds. reflexivity.
Qed.

Lemma dim_eqb_refl d : dim_eqb d d = true. Proof. destruct d; reflexivity. Qed.
Lemma state_eqb_refl s : state_eqb s s = true. Proof. destruct s; reflexivity. Qed.

(* ================================================================================================ *)
(* 4. R1: one action evaluation.  Given the log and snapshot that action_update produces, every     *)
(*    clause of judge_action is true                                                                *)
(* ================================================================================================ *)

Lemma judge_action_model settled c e b out m tm r cs dev :
  let o := action_update m tm r cs dev [e] b in
  let a := ab_id b in
  NoDup (map log_id (x_log out)) ->
  incl (o_log o) (x_log out) ->
  (forall ib, In ib (ab_inputs b) -> skipped r cs dev ib = true ->
              forall id, In id (ids_of (ib_mods ib)) -> ~ In id (map log_id (x_log out))) ->
  ab_mods b <> [] -> (forall ib, In ib (ab_inputs b) -> ib_mods ib <> []) ->
  (settled = true -> forall ib, In ib (ab_inputs b) -> skipped r cs dev ib = false) ->
  snap_of_entry c e a (x_snaps out) = option_map snap_of (lookup a (o_actions o)) ->
  all_true (judge_action settled c e b out).
Proof.
  cbv zeta. intros Hd Hincl Hsk Hne Hnei Hset Hsnap.
  pose proof (action_update_merged m tm r cs dev [e] b) as Hmerged. cbv zeta in Hmerged.
  pose proof (action_update_log m tm r cs dev [e] b) as Hlog. cbv zeta in Hlog.
  unfold merged_pair in *.
  set (ins := own_pairs m tm r cs dev (ab_inputs b)) in *.
  set (fin := fold_left (merge (aid_accum (ab_id b))) ins ([], vzero (aid_dim (ab_id b)))) in *.
  set (v1 := fold_mods (look_of m) tm (snd fin) (ab_mods b)) in *.
  rewrite Hlog in Hincl.
  assert (Hi1 : forall ib, In ib (ab_inputs b) -> skipped r cs dev ib = false -> incl (input_log m tm r cs dev ib) (x_log out)).
  { intros ib Hib Hs x Hx. apply Hincl. apply in_or_app. left. apply in_flat_map. exists ib. split; [|exact Hx].
    unfold evaluated. apply filter_In. split; [exact Hib|]. now rewrite Hs. }
  assert (Hi2 : incl (snd (apply_mods m tm (snd fin) (ab_mods b))) (x_log out)).
  { intros x Hx. apply Hincl. apply in_or_app. right. apply in_or_app. now left. }
  assert (Hi3 : incl (snd (apply_conds m tm (tr_of (fst fin) v1) (ab_conds b))) (x_log out)).
  { intros x Hx. apply Hincl. apply in_or_app. right. apply in_or_app. now right. }
  destruct Hmerged as [Hlook _].
  set (rs := fst fin ++ cond_results (look_of m) tm v1 (ab_conds b)) in *.
  destruct (data_update_fields (vdelta tm) (old_data m (ab_id b)) (law rs v1) (convert (aid_dim (ab_id b)) v1)) as (Hst & Hval & _).
  unfold judge_action. rewrite Hsnap, Hlook. cbn [option_map].
  unfold rows_of. rewrite (rows_of_model (x_log out) m tm r cs dev Hd (ab_inputs b) Hnei Hi1 Hsk).
  set (L := map (tri_of m tm r cs dev) (evaluated r cs dev (ab_inputs b))).
  assert (HL : map pr L = ins) by apply tri_pairs.
  rewrite (mods_first_found _ m tm (snd fin) (ab_mods b) Hd Hi2 Hne).
  rewrite results_of_same, last_mod_out_same.
  rewrite (conds_found _ m tm (tr_of (fst fin) v1) (ab_conds b) Hd Hi3), tr_of_value.
  rewrite (mods_found _ m tm (snd fin) (ab_mods b) Hd Hi2 Hne). fold v1.
  cbn [snap_of sn_value sn_state]. rewrite Hst, Hval.
  apply all_true_cons; [rewrite convert_dim; apply dim_eqb_refl|].
  apply all_true_cons.
  { destruct settled; [|reflexivity]. cbn [implb]. apply forallb_forall. intros ib Hib.
    destruct (ib_mods ib) as [|[id x] r'] eqn:Em; [reflexivity|].
    pose proof (Hi1 ib Hib (Hset eq_refl ib Hib)) as Hi. unfold input_log in Hi. rewrite Em in Hi.
    rewrite (find_mod_in _ Hd id _ _ _ (Hi _ (in_or_app _ _ _ (or_introl (apply_mods_first m tm _ id x r'))))). reflexivity. }
  apply all_true_cons.
  { apply andb_true_iff. split.
    - apply forallb_forall. intros ib Hib. destruct (skipped r cs dev ib) eqn:Hs.
      + rewrite (mods_notfound _ (ib_mods ib) (Hsk ib Hib Hs)). reflexivity.
      + pose proof (Hi1 ib Hib Hs) as Hi. unfold input_log in Hi.
        rewrite (mods_found _ m tm (reader_value r cs dev (ib_input ib)) (ib_mods ib) Hd)
          by (try (apply Hnei; exact Hib); intros x Hx; apply Hi; apply in_or_app; now left).
        apply forallb_forall. intros [id cnd] Hic. cbn [fst].
        assert (Hin : In (LCond id (snd (own_pair m tm r cs dev ib))
                                (snd (cond_eval (look_of m) tm (snd (own_pair m tm r cs dev ib)) cnd)) (seen_of m)) (x_log out)).
        { apply Hi. apply in_or_app. right. rewrite apply_conds_log. apply in_map_iff. exists (id, cnd). split; [reflexivity|exact Hic]. }
        rewrite (find_cond_in _ Hd _ _ _ _ Hin). apply veqb_refl.
    - apply forallb_forall. intros [id cnd] Hic. cbn [fst].
      assert (Hin : In (LCond id v1 (snd (cond_eval (look_of m) tm v1 cnd)) (seen_of m)) (x_log out)).
      { apply Hi3. rewrite apply_conds_log, tr_of_value. apply in_map_iff. exists (id, cnd). split; [reflexivity|exact Hic]. }
      rewrite (find_cond_in _ Hd _ _ _ _ Hin). apply veqb_refl. }
  apply all_true_cons; [apply veqb_refl|].
  destruct (regular (aid_dim (ab_id b)) (aid_accum (ab_id b)) (map mkrow L)) eqn:Hreg; [|apply all_true_nil].
  destruct (rows_spec _ _ L Hreg) as [Hfst Hsnd]. rewrite HL in Hfst, Hsnd. fold fin in Hfst, Hsnd.
  apply all_true_cons; [apply veqb_veq; exact Hsnd|].
  apply all_true_cons; [|apply all_true_nil].
  rewrite <- Hfst. apply state_eqb_refl.
Qed.

(* ================================================================================================ *)
(* 5. the judgement reads only the signature of a binding: ids, kinds, inputs, shape                *)
(* ================================================================================================ *)

Definition isig4 (ib : ibind) := (isig ib, ib_input ib).
Definition sig4 (b : abind) := (sig b, map ib_input (ab_inputs b)).

Definition kinds_condless (cs : list (Z * cond)) : bool :=
  forallb (fun ic : Z * cond => match cond_kind (snd ic) with KBlocker _ => true | _ => false end) cs.
Definition row_of_input (lg : list logitem) (ib : ibind) : list row :=
  match first_mod_in (ib_mods ib) lg, last_mod_out (ib_mods ib) lg, results_of (ib_conds ib) lg with
  | Some rd, Some v, Some rs => [mkRow (ib_input ib) rd v rs (law rs v) (kinds_condless (ib_conds ib))]
  | _, _, _ => []
  end.
Definition conds_see (lg : list logitem) (v : value) (cs : list (Z * cond)) : bool :=
  forallb (fun ic : Z * cond => match find_cond (fst ic) lg with Some (vin, _, _) => veqb vin v | None => true end) cs.
Definition c5_input (lg : list logitem) (ib : ibind) : bool :=
  match ib_mods ib with
  | (id, _) :: _ => match find_mod id lg with Some _ => true | None => false end
  | [] => true end.
Definition c6_input (lg : list logitem) (ib : ibind) : bool :=
  match last_mod_out (ib_mods ib) lg with Some v => conds_see lg v (ib_conds ib) | None => true end.

Lemma rows_of_unfold b lg : rows_of b lg = flat_map (row_of_input lg) (ab_inputs b).
Proof. reflexivity. Qed.

Lemma judge_action_unfold settled c e b o :
  judge_action settled c e b o =
  let a := ab_id b in let d := aid_dim a in let lg := x_log o in
  let rows := flat_map (row_of_input lg) (ab_inputs b) in
  let contrib := contributing rows in
  match snap_of_entry c e a (x_snaps o) with
  | None => []
  | Some s =>
      (3, dim_eqb (vdim (sn_value s)) d) ::
      (5, implb settled (forallb (c5_input lg) (ab_inputs b))) ::
      (6, forallb (c6_input lg) (ab_inputs b) &&
          match last_mod_out (ab_mods b) lg with Some v => conds_see lg v (ab_conds b) | None => true end) ::
      match first_mod_in (ab_mods b) lg, last_mod_out (ab_mods b) lg, results_of (ab_conds b) lg with
      | Some merged, Some vfinal, Some ars =>
          (2, veqb (sn_value s) (convert d vfinal)) ::
          (if regular d (aid_accum a) rows then
             [ (1, veqb merged (merged_value d (aid_accum a) contrib));
               (4, state_eqb (sn_state s) (law (flat_map rw_res contrib ++ ars) vfinal)) ]
           else [])
      | _, _, _ => [(9, false)]
      end
  end.
Proof. reflexivity. Qed.

Lemma first_mod_in_sig lg (ms ms' : list (Z * modif)) : ids_of ms = ids_of ms' -> first_mod_in ms lg = first_mod_in ms' lg.
Proof.
  destruct ms as [|[id x] r], ms' as [|[id' x'] r']; cbn [ids_of map fst]; intros H; try discriminate; [reflexivity|].
  inversion H; subst. reflexivity.
Qed.
Lemma kinds_condless_sig cs cs' : ck_of cs = ck_of cs' -> kinds_condless cs = kinds_condless cs'.
Proof.
  unfold kinds_condless. revert cs'. induction cs as [|[id x] r IH]; intros [|[id' x'] r'] H; try discriminate; [reflexivity|].
  cbn [ck_of map fst snd] in H. inversion H as [[H1 H2 H3]]. cbn [forallb snd]. now rewrite H2, (IH r' H3).
Qed.
Lemma conds_see_sig lg v cs cs' : ck_of cs = ck_of cs' -> conds_see lg v cs = conds_see lg v cs'.
Proof.
  unfold conds_see. revert cs'. induction cs as [|[id x] r IH]; intros [|[id' x'] r'] H; try discriminate; [reflexivity|].
  cbn [ck_of map fst snd] in H. inversion H as [[H1 H2 H3]]. cbn [forallb fst]. now rewrite (IH r' H3).
Qed.
Lemma last_mod_out_sig4 lg (ms ms' : list (Z * modif)) : ids_of ms = ids_of ms' -> last_mod_out ms lg = last_mod_out ms' lg.
Proof. rewrite last_mod_out_same. apply last_mod_out_sig. Qed.
Lemma results_of_sig4 lg cs cs' : ck_of cs = ck_of cs' -> results_of cs lg = results_of cs' lg.
Proof. rewrite results_of_same. apply results_of_sig. Qed.

Lemma row_of_input_sig lg ib ib' : isig4 ib = isig4 ib' -> row_of_input lg ib = row_of_input lg ib'.
Proof.
  unfold isig4, isig. intros H. inversion H as [[H1 H2 H3]]. unfold row_of_input.
  now rewrite (first_mod_in_sig lg _ _ H1), (last_mod_out_sig4 lg _ _ H1), (results_of_sig4 lg _ _ H2), (kinds_condless_sig _ _ H2), H3.
Qed.
Lemma c5_input_sig lg ib ib' : isig4 ib = isig4 ib' -> c5_input lg ib = c5_input lg ib'.
Proof.
  unfold isig4, isig. intros H. inversion H as [[H1 H2 H3]]. unfold c5_input.
  destruct (ib_mods ib) as [|[id x] r], (ib_mods ib') as [|[id' x'] r']; cbn [ids_of map fst] in H1; try discriminate; [reflexivity|].
  inversion H1; subst. reflexivity.
Qed.
Lemma c6_input_sig lg ib ib' : isig4 ib = isig4 ib' -> c6_input lg ib = c6_input lg ib'.
Proof.
  unfold isig4, isig. intros H. inversion H as [[H1 H2 H3]]. unfold c6_input.
  rewrite (last_mod_out_sig4 lg _ _ H1). destruct (last_mod_out (ib_mods ib') lg); [|reflexivity]. apply conds_see_sig. exact H2.
Qed.

Lemma map_pair_eq {A B C} (f : A -> B) (g : A -> C) : forall l l',
  map f l = map f l' -> map g l = map g l' -> map (fun x => (f x, g x)) l = map (fun x => (f x, g x)) l'.
Proof.
  induction l as [|x l IH]; intros [|y l'] H1 H2; try discriminate; [reflexivity|].
  cbn [map] in *. inversion H1 as [[A1 A2]]. inversion H2 as [[B1 B2]]. rewrite A1, B1, (IH l' A2 B2). reflexivity.
Qed.
Lemma forallb_via {A S} (s : A -> S) (f : A -> bool) : (forall x y, s x = s y -> f x = f y) ->
  forall l l', map s l = map s l' -> forallb f l = forallb f l'.
Proof.
  intros H. induction l as [|x l IH]; intros [|y l'] E; try discriminate; [reflexivity|].
  cbn [map] in E. inversion E as [[E1 E2]]. cbn [forallb]. now rewrite (H x y E1), (IH l' E2).
Qed.
Lemma flat_map_via {A S B} (s : A -> S) (f : A -> list B) : (forall x y, s x = s y -> f x = f y) ->
  forall l l', map s l = map s l' -> flat_map f l = flat_map f l'.
Proof.
  intros H. induction l as [|x l IH]; intros [|y l'] E; try discriminate; [reflexivity|].
  cbn [map] in E. inversion E as [[E1 E2]]. cbn [flat_map]. now rewrite (H x y E1), (IH l' E2).
Qed.

Lemma judge_action_sig4 settled c e b b' o : sig4 b = sig4 b' -> judge_action settled c e b o = judge_action settled c e b' o.
Proof.
  unfold sig4, sig. intros H. inversion H as [[H1 H2 H3 H4 H5]].
  pose proof (map_pair_eq isig ib_input _ _ H4 H5) as H6. change (fun x => (isig x, ib_input x)) with isig4 in H6.
  rewrite !judge_action_unfold. cbv zeta.
  rewrite (flat_map_via isig4 _ (row_of_input_sig (x_log o)) _ _ H6).
  rewrite (forallb_via isig4 _ (c5_input_sig (x_log o)) _ _ H6).
  rewrite (forallb_via isig4 _ (c6_input_sig (x_log o)) _ _ H6).
  rewrite (first_mod_in_sig _ _ _ H2), (last_mod_out_sig4 _ _ _ H2), (results_of_sig4 _ _ _ H3), H1.
  destruct (last_mod_out (ab_mods b') (x_log o)) as [v|]; [rewrite (conds_see_sig _ v _ _ H3)|]; reflexivity.
Qed.

(* ================================================================================================ *)
(* 6. evaluation keeps the inputs of a binding and lifts the held-input suppression (R2)            *)
(* ================================================================================================ *)

Definition noign_bs (bs : list abind) : Prop := forall b, In b bs -> forall ib, In ib (ab_inputs b) -> ib_ignored ib = false.
Definition allns (r : raw) (dev : device) (bs : list abind) : Prop :=
  forall b, In b bs -> forall ib, In ib (ab_inputs b) -> skipped r consumed_reset dev ib = false.

Lemma skipped_any r c c' dev ib : skipped r c dev ib = skipped r c' dev ib.
Proof. reflexivity. Qed.

Lemma noign_allns r dev bs : noign_bs bs -> allns r dev bs.
Proof. intros H b Hb ib Hib. unfold skipped. now rewrite (H b Hb ib Hib). Qed.

Lemma input_step_flags m tm r c dev a st ib :
  let ib' := snd (input_step m tm r c dev a st ib) in
  ib_input ib' = ib_input ib /\ (skipped r c dev ib = false -> ib_ignored ib' = false).
Proof.
  cbv zeta. unfold input_step, skipped. destruct (ib_ignored ib && as_bool _); [split; [reflexivity|discriminate]|].
  destruct (apply_mods m tm (reader_value r c dev (ib_input ib)) (ib_mods ib)) as [[ms' v'] lg1].
  destruct (apply_conds m tm (tracker_new v') (ib_conds ib)) as [[cs' cur] lg2].
  destruct (state_eqb (tracker_state cur) SNone); [split; reflexivity|].
  destruct (state_cmp (tracker_state cur) (tracker_state (l_tracker st))); split; reflexivity.
Qed.

Lemma input_loop_flags m tm r c dev a ibs : forall st,
  let ibs' := snd (input_loop m tm r c dev a st ibs) in
  map ib_input ibs' = map ib_input ibs /\
  ((forall ib, In ib ibs -> skipped r c dev ib = false) -> forall ib', In ib' ibs' -> ib_ignored ib' = false).
Proof.
  induction ibs as [|ib rest IH]; intros st; cbn [input_loop]; [split; [reflexivity|intros _ ib' []]|].
  pose proof (input_step_flags m tm r c dev a st ib) as Hs. cbv zeta in Hs.
  destruct (input_step m tm r c dev a st ib) as [st1 ib1]. cbn [snd] in Hs. destruct Hs as [Hs1 Hs2].
  specialize (IH st1). cbv zeta in IH. destruct (input_loop m tm r c dev a st1 rest) as [st2 rest']. cbn [snd] in *.
  destruct IH as [IH1 IH2]. cbn [map]. rewrite Hs1, IH1. split; [reflexivity|].
  intros H ib' [<-|Hin]; [apply Hs2; apply H; now left|]. apply IH2; [|exact Hin]. intros x Hx. apply H. now right.
Qed.

Lemma action_update_flags m tm r c dev recips ab :
  let o := action_update m tm r c dev recips ab in
  map ib_input (ab_inputs (o_bind o)) = map ib_input (ab_inputs ab) /\
  ((forall ib, In ib (ab_inputs ab) -> skipped r c dev ib = false) -> forall ib', In ib' (ab_inputs (o_bind o)) -> ib_ignored ib' = false).
Proof.
  cbv zeta. unfold action_update.
  pose proof (input_loop_flags m tm r c dev (ab_id ab) (ab_inputs ab) (mkLoop (tracker_new (vzero (aid_dim (ab_id ab)))) [] [])) as Hl.
  cbv zeta in Hl. destruct (input_loop m tm r c dev (ab_id ab) _ (ab_inputs ab)) as [st inputs']. cbn [snd] in Hl.
  destruct (apply_mods m tm (t_value (l_tracker st)) (ab_mods ab)) as [[ms' v1] lg1].
  destruct (apply_conds m tm (with_value (l_tracker st) v1) (ab_conds ab)) as [[cs' tr] lg2].
  cbn [o_bind ab_inputs]. exact Hl.
Qed.

Lemma binds_update_flags tm r dev recips bs : forall m c,
  let '(bs', _, _, _, _) := binds_update m tm r c dev recips bs in
  map (fun b => map ib_input (ab_inputs b)) bs' = map (fun b => map ib_input (ab_inputs b)) bs /\
  (allns r dev bs -> noign_bs bs').
Proof.
  induction bs as [|b rest IH]; intros m c; cbn [binds_update].
  - split; [reflexivity|intros _ b []].
  - pose proof (action_update_flags m tm r c dev recips b) as Ha. cbv zeta in Ha.
    set (o := action_update m tm r c dev recips b) in *.
    specialize (IH (o_actions o) (o_consumed o)).
    destruct (binds_update (o_actions o) tm r (o_consumed o) dev recips rest) as [[[[rest' m'] c'] ev] lg].
    destruct IH as [IH1 IH2]. destruct Ha as [Ha1 Ha2]. cbn [map]. rewrite Ha1, IH1. split; [reflexivity|].
    intros H b' [<-|Hb'].
    + apply Ha2. intros ib Hib. rewrite (skipped_any r c consumed_reset). apply (H b (or_introl eq_refl) ib Hib).
    + apply IH2; [|exact Hb']. intros x Hx. apply H. now right.
Qed.

(* ================================================================================================ *)
(* 7. one update of the instance (R1 for every action of a frame; R2 at instance level)             *)
(* ================================================================================================ *)

Definition inst_inv4 (bs0 : list abind) (i : inst) : Prop := map sig4 (in_binds i) = map sig4 bs0.

Lemma sig4_sig l l' : map sig4 l = map sig4 l' -> map sig l = map sig l'.
Proof. intros H. apply (f_equal (map fst)) in H. rewrite !map_map in H. exact H. Qed.
Lemma sig4_find {bs bs0 : list abind} b0 : map sig4 bs = map sig4 bs0 -> In b0 bs0 -> exists b, In b bs /\ sig4 b = sig4 b0.
Proof.
  intros H Hb. apply (in_map sig4) in Hb. rewrite <- H in Hb. apply in_map_iff in Hb. destruct Hb as (b & E & Hb). exists b. tauto.
Qed.

Lemma inst_update_judged4 settled c e bs0 i tm r cs :
  inst_inv4 bs0 i -> NoDup (map ab_id bs0) -> NoDup (all_ids bs0) -> forallb mods_ok bs0 = true ->
  (settled = true -> allns r (in_pad i) (in_binds i)) ->
  let io := inst_update tm r cs [e] i in
  inst_inv4 bs0 (io_inst io) /\ in_pad (io_inst io) = in_pad i /\
  (allns r (in_pad i) (in_binds i) -> noign_bs (in_binds (io_inst io))) /\
  exists evs, io_events io = Some evs /\
    forall out, x_log out = io_log io ->
      (forall a, In a (map ab_id bs0) ->
                 snap_of_entry c e a (x_snaps out) = option_map snap_of (lookup a (in_actions (io_inst io)))) ->
      forall b0, In b0 bs0 -> all_true (judge_action settled c e b0 out).
Proof.
  intros Hsig4 Hda Hdi Hok Hset. cbv zeta. unfold inst_update.
  pose proof (sig4_sig _ _ Hsig4) as Hsig.
  assert (Hda' : NoDup (map ab_id (in_binds i))).
  { rewrite (map_via sig ab_id (fun x y (E : sig x = sig y) => f_equal (fun s => fst (fst (fst s))) E) _ _ Hsig). exact Hda. }
  pose proof (binds_update_spec e tm r (in_pad i) (in_binds i) (in_actions i) cs Hda') as H.
  pose proof (binds_update_flags tm r (in_pad i) [e] (in_binds i) (in_actions i) cs) as HF.
  destruct (binds_update (in_actions i) tm r cs (in_pad i) [e] (in_binds i)) as [[[[bs' m'] c'] ev] lg].
  destruct H as (I1 & _ & I3 & I4 & evs & -> & I5 & I6). destruct HF as [F1 F2].
  unfold inst_inv4. cbn [io_inst io_events io_log in_binds in_actions in_pad].
  split.
  { rewrite <- Hsig4. unfold sig4. apply (map_pair_eq sig (fun b => map ib_input (ab_inputs b))); assumption. }
  split; [reflexivity|]. split; [exact F2|].
  exists evs. split; [reflexivity|]. intros out Hlog Hsnaps b0 Hb0.
  destruct (sig4_find b0 Hsig4 Hb0) as (b & Hb & Hsb4).
  assert (Hsb : sig b = sig b0) by (apply (f_equal fst) in Hsb4; exact Hsb4).
  rewrite (judge_action_sig4 settled c e b0 b out (eq_sym Hsb4)).
  assert (Hid : ab_id b0 = ab_id b) by (apply (f_equal (fun s => fst (fst (fst s)))) in Hsb; symmetry; exact Hsb).
  destruct (I6 b Hb) as (mb & cb & J1 & J2 & J3 & J4).
  destruct (mods_ok_sig b b0 Hsb (proj1 (forallb_forall _ _) Hok b0 Hb0)) as [Hm1 Hm2].
  assert (Hdi' : NoDup (all_ids (in_binds i))) by (rewrite (all_ids_sig _ _ Hsig); exact Hdi).
  apply (judge_action_model settled c e b out mb tm r cb (in_pad i)).
  - rewrite Hlog, I3. apply (frame_ids_thin r consumed_reset (in_pad i) (in_binds i)). exact Hdi'.
  - rewrite Hlog. exact J1.
  - intros ib Hib Hs id Hidm. rewrite Hlog, I3.
    apply (skipped_ids_absent r consumed_reset (in_pad i) (in_binds i) b ib id Hdi' Hb Hib Hs).
    unfold ib_ids. apply in_or_app. now left.
  - exact Hm1.
  - exact Hm2.
  - intros Hs ib Hib. rewrite (skipped_any r cb consumed_reset). apply (Hset Hs b Hb ib Hib).
  - rewrite <- Hid. rewrite Hsnaps by (now apply in_map). rewrite Hid. now rewrite J3.
Qed.

(* ================================================================================================ *)
(* 8. the world of the profile: one group holding one instance; what the mirror shows               *)
(* ================================================================================================ *)

Lemma reg_get_single_other c e i c' e' : c' <> c \/ e' <> e -> reg_get c' e' [new_group c e i] = None.
Proof.
  intros H. unfold reg_get, new_group.
  destruct (Z.eqb c c') eqn:Ec.
  - apply Z.eqb_eq in Ec. subst c'. destruct H as [H|H]; [congruence|].
    assert (Ee : Z.eqb e e' = false) by (apply Z.eqb_neq; congruence).
    assert (Ee' : Z.eqb e' e = false) by (apply Z.eqb_neq; congruence).
    destruct (ctx_shared c); cbn [index_of g_ctx]; rewrite Z.eqb_refl; cbn [nth_error].
    + cbn [existsb]. rewrite Ee'. reflexivity.
    + cbn [find fst]. rewrite Ee. reflexivity.
  - destruct (ctx_shared c); cbn [index_of g_ctx]; rewrite Ec; reflexivity.
Qed.

Lemma got_of_model sc w c e out : x_mirror out = model_mirror sc w ->
  got_of c e out = true -> In c (s_menu sc) /\ In e (s_ents sc) /\ reg_get c e (w_reg w) <> None.
Proof.
  intros Hm H. unfold got_of in H. rewrite Hm in H. apply existsb_exists in H. destruct H as (x & Hx & Hp).
  unfold model_mirror in Hx. apply in_flat_map in Hx. destruct Hx as (c' & Hc' & Hx). apply in_map_iff in Hx. destruct Hx as (e' & <- & He').
  apply andb_true_iff in Hp. destruct Hp as [Hp Hg]. apply andb_true_iff in Hp. destruct Hp as [Hc He].
  apply Z.eqb_eq in Hc. apply Z.eqb_eq in He. subst c' e'. split; [exact Hc'|]. split; [exact He'|].
  destruct (reg_get c e (w_reg w)); [discriminate|discriminate Hg].
Qed.
(* when the context type is registered and the entity declared, the instance is judged (the judgement is not vacuous) *)
Lemma got_of_single sc w c e i out : x_mirror out = model_mirror sc w -> w_reg w = [new_group c e i] ->
  memz c (s_menu sc) = true -> memz e (s_ents sc) = true -> got_of c e out = true.
Proof.
  intros Hm Hreg Hc He. unfold got_of. rewrite Hm. apply existsb_exists.
  exists (mi c e (match reg_get c e (w_reg w) with Some _ => true | None => false end)
             (match holds_of e (w_holds w) with Some cs => memz c cs | None => false end)).
  split.
  - unfold model_mirror. apply in_flat_map. exists c. split; [now apply memz_in|]. apply in_map_iff. exists e. split; [reflexivity|now apply memz_in].
  - rewrite Hreg, reg_get_single, !Z.eqb_refl. reflexivity.
Qed.

(* ================================================================================================ *)
(* 9. the profile, R3: induction over the steps, the main theorem                                   *)
(* ================================================================================================ *)

Definition other_key (c e : Z) (x : ctx * entity * inst_spec) : bool := negb (Z.eqb (fst (fst x)) c && Z.eqb (snd (fst x)) e).
Definition idle_for (spec : inst_spec) (r : raw) : bool :=
  forallb (fun b => forallb (fun ib => negb (as_bool (reader_value r consumed_reset (i_pad spec) (ib_input ib)))) (ab_inputs b))
          (merged_actions spec).
Definition first_idle (spec : inst_spec) (steps : list step) : bool :=
  match steps with SFrame f :: _ => idle_for spec (f_raw f) | _ => true end.

(* The scenarios of gen/C04.py: no configuration entry after the first one, (c, e, spec), speaks about the same (c, e)
   (whether c is registered and e declared does not matter: if not, nothing is judged); the steps are "spawn e with c", then frames that issue no
   commands, the first of which is idle (every bound input reads as not actuated: the held-input suppression of a fresh
   instance ends there); in the merged bindings of spec
   - all log ids (conditions and modifiers, both levels) are pairwise distinct,
   - every modifier chain is non-empty (the generator starts / ends them with identity probes).
   Conditions and modifiers may be of any type, actions may consume, any dimension and accumulation, any number of inputs
   (which frames are "regular" is decided by the judgement itself, from the log). *)
Definition profile_C04b (sc : scenario) : bool :=
  match s_cfg sc, s_steps sc with
  | (c, e, spec) :: rest_cfg, SOp (OSpawn e' [c']) :: rest =>
      let bs := merged_actions spec in
      Z.eqb c' c && Z.eqb e' e &&
      forallb (other_key c e) rest_cfg &&
      forallb quiet_frame rest && first_idle spec rest &&
      nodupb (all_ids bs) && forallb mods_ok bs
  | _, _ => false
  end.
Definition profile_C04 (sc : scenario) : Prop := profile_C04b sc = true.

Lemma idle_allns spec r : idle_for spec r = true -> allns r (i_pad spec) (merged_actions spec).
Proof.
  unfold idle_for. intros H b Hb ib Hib. rewrite forallb_forall in H. specialize (H b Hb). rewrite forallb_forall in H.
  specialize (H ib Hib). apply negb_true_iff in H. unfold skipped. rewrite H. apply andb_false_r.
Qed.

Section Frames4.
  Variables (sc : scenario) (c e : Z) (spec : inst_spec) (rest_cfg : list (ctx * entity * inst_spec)).
  Hypothesis Hcfg : s_cfg sc = (c, e, spec) :: rest_cfg.
  Hypothesis Hother : forallb (other_key c e) rest_cfg = true.
  Let bs0 := merged_actions spec.
  Hypothesis Hids : NoDup (all_ids bs0).
  Hypothesis Hmods : forallb mods_ok bs0 = true.

  (* only the instance of (c, e) can exist: it is the only one judged, and only if the mirror shows it *)
  Lemma cfg_judged settled w before o : x_mirror before = model_mirror sc w ->
    (forall c0 e0, c0 <> c \/ e0 <> e -> reg_get c0 e0 (w_reg w) = None) ->
    (In c (s_menu sc) -> In e (s_ents sc) -> all_true (flat_map (fun b => judge_action settled c e b o) bs0)) ->
    all_true (flat_map (fun x : Z * Z * inst_spec =>
                let '(c0, e0, spec0) := x in
                if got_of c0 e0 before then flat_map (fun b => judge_action settled c0 e0 b o) (merged_actions spec0) else [])
             (s_cfg sc)).
  Proof.
    intros Hm Hreg Hall. rewrite Hcfg. cbn [flat_map]. apply all_true_app.
    - destruct (got_of c e before) eqn:Hg; [|apply all_true_nil].
      destruct (got_of_model sc w c e before Hm Hg) as (Hc & He & _). exact (Hall Hc He).
    - apply all_true_flat_map. intros [[c0 e0] spec0] Hx.
      destruct (got_of c0 e0 before) eqn:Hg; [|apply all_true_nil]. exfalso.
      destruct (got_of_model sc w c0 e0 before Hm Hg) as (_ & _ & Hn). apply Hn. apply Hreg.
      rewrite forallb_forall in Hother. specialize (Hother _ Hx). unfold other_key in Hother. cbn [fst snd] in Hother.
      apply negb_true_iff in Hother. apply andb_false_iff in Hother. destruct Hother as [H|H]; apply Z.eqb_neq in H; tauto.
  Qed.

  Lemma inst_update_judged4' settled i tm r cs io :
    io = inst_update tm r cs [e] i ->
    inst_inv4 bs0 i -> (settled = true -> allns r (in_pad i) (in_binds i)) ->
    inst_inv4 bs0 (io_inst io) /\ in_pad (io_inst io) = in_pad i /\
    (allns r (in_pad i) (in_binds i) -> noign_bs (in_binds (io_inst io))) /\
    exists evs, io_events io = Some evs /\
      forall out, x_log out = io_log io ->
        (forall a, In a (map ab_id bs0) ->
                   snap_of_entry c e a (x_snaps out) = option_map snap_of (lookup a (in_actions (io_inst io)))) ->
        forall b0, In b0 bs0 -> all_true (judge_action settled c e b0 out).
  Proof. intros -> Hinv Hset. apply inst_update_judged4; [exact Hinv|apply merged_ids_nodup|exact Hids|exact Hmods|exact Hset]. Qed.

  (* R3: all frames after the spawn; the next frame, if any, finds no input suppressed *)
  Lemma frames_judged4 : forall steps w i n before,
    forallb quiet_frame steps = true -> w_reg w = [new_group c e i] -> inst_inv4 bs0 i ->
    match steps with SFrame f :: _ => allns (f_raw f) (in_pad i) (in_binds i) | _ => True end ->
    x_mirror before = model_mirror sc w ->
    all_true (judge_steps sc n before steps (run_steps sc w steps)).
  Proof.
    induction steps as [|s steps IH]; intros w i n before Hq Hreg Hinv Hns Hmir.
    - cbn [run_steps judge_steps]. apply all_true_nil.
    - cbn [forallb] in Hq. apply andb_true_iff in Hq. destruct Hq as [Hs Hq].
      destruct s as [o|f]; [discriminate Hs|]. cbn [quiet_frame] in Hs.
      assert (Hops : f_ops f = []) by (destruct (f_ops f); [reflexivity|discriminate Hs]).
      assert (Hio : exists io, io = inst_update (frame_time f) (f_raw f) (update_state (f_raw f)) [e] i) by (eexists; reflexivity).
      destruct Hio as (io & Eio).
      pose proof (inst_update_judged4' (Nat.leb 1 n) i (frame_time f) (f_raw f) (update_state (f_raw f)) io Eio Hinv (fun _ => Hns)) as HJ.
      destruct HJ as (Hinv' & Hpad' & Hnoign & evs & Hev & HJ).
      cbn [run_steps]. rewrite (frame_single' sc w f c e i evs io Eio Hreg Hops Hev).
      cbn [fo_world fo_main fo_post fo_log fo_built].
      set (w' := mkWorld (w_holds w) [new_group c e (io_inst io)] (frame_time f)).
      assert (Hreg' : w_reg w' = [new_group c e (io_inst io)]) by reflexivity.
      set (out := mkOut [] evs [] (io_log io) (model_snaps sc w') (model_mirror sc w') [] true true false).
      cbn [judge_steps]. apply all_true_cons; [reflexivity|]. apply all_true_app.
      + apply (cfg_judged (Nat.leb 1 n) w before out Hmir).
        { intros c0 e0 Hne. rewrite Hreg. now apply reg_get_single_other. }
        intros Hmenu Hents. apply all_true_flat_map. intros b0 Hb0.
        apply HJ; [reflexivity| |exact Hb0].
        intros a Ha. apply (snaps_single sc c e spec rest_cfg w' (io_inst io) a Hcfg (proj2 (memz_in _ _) Hmenu) (proj2 (memz_in _ _) Hents) Hreg' Ha).
      + apply (IH w' (io_inst io) (S n) out Hq Hreg' Hinv'); [|reflexivity].
        destruct steps as [|[o2|f2] steps2]; [exact I|exact I|]. apply noign_allns. apply Hnoign. exact Hns.
  Qed.
End Frames4.

Lemma in_pad_fold l : forall i, in_pad (fold_left bind_action l i) = in_pad i.
Proof.
  induction l as [|s l IH]; intros i; cbn [fold_left]; [reflexivity|]. rewrite IH. unfold bind_action.
  destruct (extend s (in_binds i)); reflexivity.
Qed.
Lemma in_pad_inst s : in_pad (instantiate s) = i_pad s.
Proof. unfold instantiate. rewrite in_pad_fold. reflexivity. Qed.

(* an unregistered context type: nothing is ever built, nothing is judged *)
Lemma frames_empty sc : forall steps w n before,
  forallb quiet_frame steps = true -> w_reg w = [] -> x_mirror before = model_mirror sc w ->
  all_true (judge_steps sc n before steps (run_steps sc w steps)).
Proof.
  induction steps as [|s steps IH]; intros w n before Hq Hreg Hmir.
  - cbn [run_steps judge_steps]. apply all_true_nil.
  - cbn [forallb] in Hq. apply andb_true_iff in Hq. destruct Hq as [Hs Hq].
    destruct s as [o|f]; [discriminate Hs|]. cbn [quiet_frame] in Hs.
    assert (Hops : f_ops f = []) by (destruct (f_ops f); [reflexivity|discriminate Hs]).
    cbn [run_steps]. unfold frame. rewrite Hreg, Hops. cbn [reg_update ro_events ro_reg ro_log run_ops fold_left oo_world oo_events oo_built
      fo_world fo_main fo_post fo_log fo_built].
    cbn [judge_steps]. apply all_true_cons; [reflexivity|]. apply all_true_app.
    + apply all_true_flat_map. intros [[c0 e0] spec0] _. destruct (got_of c0 e0 before) eqn:Hg; [|apply all_true_nil]. exfalso.
      destruct (got_of_model sc w c0 e0 before Hmir Hg) as (_ & _ & Hn). apply Hn. rewrite Hreg. reflexivity.
    + apply IH; [exact Hq|reflexivity|reflexivity].
Qed.

Lemma spawn_unregistered sc c e : memz c (s_menu sc) = false ->
  exists oo, apply_op sc world_init (OSpawn e [c]) = Some oo /\ w_reg (oo_world oo) = [].
Proof.
  intros Hc. cbn [apply_op world_init w_holds holds_of]. eexists. split; [reflexivity|].
  cbn [fold_left oo_world]. unfold insert_ctx. cbn [w_holds app holds_of]. rewrite Z.eqb_refl.
  rewrite Hc. change (memz c []) with false. cbn [negb orb w_reg oo_world]. reflexivity.
Qed.

Theorem C04_app_judgement_sound : forall sc, profile_C04 sc -> C04c.ok (sc, trace (run sc)) = 0%Z.
Proof.
  intros sc Hp. unfold profile_C04, profile_C04b in Hp. unfold ok, run.
  destruct (s_cfg sc) as [|[[c e] spec] rest_cfg] eqn:Hcfg; [discriminate|].
  destruct (s_steps sc) as [|[[e' cs| | | |]|] steps] eqn:Hsteps; try discriminate.
  destruct cs as [|c' [|]]; try discriminate. cbv zeta in Hp.
  repeat (apply andb_true_iff in Hp; let H := fresh "P" in destruct Hp as [Hp H]).
  apply Z.eqb_eq in Hp. apply Z.eqb_eq in P4. subst c' e'.
  apply first_fail_zero. cbn [run_steps].
  destruct (memz c (s_menu sc)) eqn:Hmenu.
  - destruct (spawn_single sc c e Hmenu) as (oo & Hop & Hreg).
    match goal with |- context [apply_op ?a ?b ?o] => replace (apply_op a b o) with (Some oo) by (symmetry; exact Hop) end.
    assert (Hi0 : mk_inst sc c e = instantiate spec).
    { unfold mk_inst, cfg_lookup. rewrite Hcfg. cbn [find fst snd]. rewrite !Z.eqb_refl. reflexivity. }
    rewrite Hi0 in Hreg.
    cbn [judge_steps]. apply all_true_cons; [reflexivity|].
    apply (frames_judged4 sc c e spec rest_cfg Hcfg P3 (nodupb_spec _ P0) P steps (oo_world oo) (instantiate spec) O _ P2 Hreg eq_refl);
      [|reflexivity].
    destruct steps as [|[o2|f2] steps2]; [exact I|exact I|].
    rewrite in_pad_inst. cbn [first_idle] in P1. apply idle_allns. exact P1.
  - destruct (spawn_unregistered sc c e Hmenu) as (oo & Hop & Hreg).
    match goal with |- context [apply_op ?a ?b ?o] => replace (apply_op a b o) with (Some oo) by (symmetry; exact Hop) end.
    cbn [judge_steps]. apply all_true_cons; [reflexivity|].
    apply (frames_empty sc steps (oo_world oo) O _ P2 Hreg). reflexivity.
Qed.

(* ================================================================================================ *)
(* 10. (T) transfer: the judgement respects the equalities [agree_full] uses                        *)
(* ================================================================================================ *)

Lemma veqb_cong a a' b b' : veq a a' -> veq b b' -> veqb a b = veqb a' b'.
Proof.
  intros Ha Hb. destruct (veqb a b) eqn:E.
  - symmetry. apply veqb_veq. apply veqb_veq in E. exact (veq_trans _ _ _ (veq_sym _ _ Ha) (veq_trans _ _ _ E Hb)).
  - destruct (veqb a' b') eqn:E'; [|reflexivity]. apply veqb_veq in E'.
    assert (H : veq a b) by exact (veq_trans _ _ _ Ha (veq_trans _ _ _ E' (veq_sym _ _ Hb))).
    apply veqb_veq in H. congruence.
Qed.

Lemma as1_as3 v : as1 v = fst (fst (as3 v)). Proof. destruct v; reflexivity. Qed.
Lemma as2_as3 v : as2 v = (fst (fst (as3 v)), snd (fst (as3 v))). Proof. destruct v; reflexivity. Qed.
Lemma convert_veq d v v' : veq v v' -> veq (convert d v) (convert d v').
Proof.
  intros H. destruct (as3_veq _ _ H) as (A1 & A2 & A3). destruct d; cbn [convert].
  - cbn [veq]. now apply as_bool_veq.
  - cbn [veq]. rewrite !as1_as3. exact A1.
  - rewrite !as2_as3. cbn [veq]. split; assumption.
  - destruct (as3 v) as [[x y] z], (as3 v') as [[x' y'] z']. cbn [fst snd] in *. cbn [veq]. repeat split; assumption.
Qed.

Lemma acc_step_cong d mode a a' v v' : veq a a' -> veq v v' -> veq (acc_step d mode a v) (acc_step d mode a' v').
Proof.
  intros Ha Hv. unfold acc_step.
  destruct (as3_veq _ _ Ha) as (A1 & A2 & A3). destruct (as3_veq _ _ Hv) as (B1 & B2 & B3).
  destruct (as3 a) as [[ax ay] az], (as3 a') as [[ax' ay'] az'], (as3 v) as [[bx by_] bz], (as3 v') as [[bx' by_'] bz'].
  cbn [fst snd] in *. destruct mode.
  - apply convert_v3_veq; [now rewrite A1, B1|now rewrite A2, B2|now rewrite A3, B3].
  - apply convert_v3_veq; apply pick_compat; assumption.
Qed.

(* rows up to the equalities of the comparison; the input and the raw read are not used by this judgement *)
Definition row_rel (r r' : row) : Prop :=
  veq (rw_value r) (rw_value r') /\ rw_res r = rw_res r' /\ rw_own r = rw_own r' /\ rw_condless r = rw_condless r'.

Lemma max_state_rel l l' : Forall2 row_rel l l' -> max_state l = max_state l'.
Proof.
  unfold max_state. generalize SNone. intros acc H. revert acc. induction H as [|r r' l l' Hr _ IH]; intros acc; cbn [fold_left]; [reflexivity|].
  destruct Hr as (_ & _ & Ho & _). rewrite Ho. apply IH.
Qed.
Lemma filter_rel (p : row -> bool) l l' : (forall r r', row_rel r r' -> p r = p r') ->
  Forall2 row_rel l l' -> Forall2 row_rel (filter p l) (filter p l').
Proof.
  intros Hp H. induction H as [|r r' l l' Hr _ IH]; cbn [filter]; [constructor|].
  rewrite (Hp r r' Hr). destruct (p r'); [constructor; assumption|exact IH].
Qed.
Lemma contributing_rel l l' : Forall2 row_rel l l' -> Forall2 row_rel (contributing l) (contributing l').
Proof.
  intros H. unfold contributing. rewrite (max_state_rel l l' H). destruct (state_eqb (max_state l') SNone); [constructor|].
  apply filter_rel; [|exact H]. intros r r' (_ & _ & Ho & _). now rewrite Ho.
Qed.
Lemma merged_value_rel d mode l l' : Forall2 row_rel l l' -> veq (merged_value d mode l) (merged_value d mode l').
Proof.
  intros H. destruct H as [|r r' l l' Hr H]; cbn [merged_value]; [apply veq_refl|].
  assert (G : forall a a', veq a a' ->
            veq (fold_left (fun acc x => acc_step d mode acc (rw_value x)) l a) (fold_left (fun acc x => acc_step d mode acc (rw_value x)) l' a')).
  { induction H as [|x x' l l' Hx _ IH]; intros a a' Ha; cbn [fold_left]; [exact Ha|].
    apply IH. apply acc_step_cong; [exact Ha|apply Hx]. }
  apply G. apply convert_veq. apply Hr.
Qed.
Lemma flat_res_rel l l' : Forall2 row_rel l l' -> flat_map rw_res l = flat_map rw_res l'.
Proof. intros H. induction H as [|r r' l l' Hr _ IH]; cbn [flat_map]; [reflexivity|]. destruct Hr as (_ & Hs & _). now rewrite Hs, IH. Qed.
Lemma forallb_condless_rel l l' : Forall2 row_rel l l' -> forallb rw_condless l = forallb rw_condless l'.
Proof. intros H. induction H as [|r r' l l' Hr _ IH]; cbn [forallb]; [reflexivity|]. destruct Hr as (_ & _ & _ & Hc). now rewrite Hc, IH. Qed.

Lemma prefixes_ok_rel d mode : forall rest rest' seen seen',
  Forall2 row_rel seen seen' -> Forall2 row_rel rest rest' -> prefixes_ok d mode seen rest = prefixes_ok d mode seen' rest'.
Proof.
  intros rest rest' seen seen' Hs Hr. revert seen seen' Hs. induction Hr as [|x x' rest rest' Hx _ IH]; intros seen seen' Hs; cbn [prefixes_ok]; [reflexivity|].
  rewrite (IH (seen ++ [x]) (seen' ++ [x'])) by (apply Forall2_app; [exact Hs|constructor; [exact Hx|constructor]]).
  f_equal. destruct Hs as [|y y' seen seen' Hy Hs]; [reflexivity|].
  pose proof (contributing_rel _ _ (Forall2_cons _ _ Hy Hs)) as Hc.
  now rewrite (forallb_condless_rel _ _ Hc), (as_bool_veq _ _ (merged_value_rel d mode _ _ Hc)).
Qed.
Lemma regular_rel d mode l l' : Forall2 row_rel l l' -> regular d mode l = regular d mode l'.
Proof.
  intros H. unfold regular. apply prefixes_ok_rel; [constructor|].
  apply filter_rel; [|exact H]. intros r r' (_ & _ & Ho & _). now rewrite Ho.
Qed.

(* ---- the log ---- *)
Lemma find_cond_rel4 id : forall lg lg', list_eqb logitem_eqb lg lg' = true ->
  match find_cond id lg, find_cond id lg' with
  | Some (v, s, _), Some (v', s', _) => veq v v' /\ s = s'
  | None, None => True
  | _, _ => False
  end.
Proof.
  induction lg as [|x lg IH]; intros [|y lg'] H; cbn [list_eqb] in H; try discriminate; [exact I|].
  apply andb_true_iff in H. destruct H as [Hxy H]. specialize (IH lg' H).
  destruct x as [i1 v1 r1 s1|i1 v1 o1 s1], y as [i2 v2 r2 s2|i2 v2 o2 s2]; cbn [logitem_eqb] in Hxy; try discriminate; cbn [find_cond].
  - repeat (apply andb_true_iff in Hxy; let H' := fresh "E" in destruct Hxy as [Hxy H']).
    apply Z.eqb_eq in Hxy. subst i2. destruct (Z.eqb i1 id); [|exact IH]. split; [now apply veqb_veq|now apply state_eqb_eq].
  - exact IH.
Qed.
Lemma find_mod_rel4 id : forall lg lg', list_eqb logitem_eqb lg lg' = true ->
  match find_mod id lg, find_mod id lg' with
  | Some (v, o, _), Some (v', o', _) => veq v v' /\ veq o o'
  | None, None => True
  | _, _ => False
  end.
Proof.
  induction lg as [|x lg IH]; intros [|y lg'] H; cbn [list_eqb] in H; try discriminate; [exact I|].
  apply andb_true_iff in H. destruct H as [Hxy H]. specialize (IH lg' H).
  destruct x as [i1 v1 r1 s1|i1 v1 o1 s1], y as [i2 v2 r2 s2|i2 v2 o2 s2]; cbn [logitem_eqb] in Hxy; try discriminate; cbn [find_mod].
  - exact IH.
  - repeat (apply andb_true_iff in Hxy; let H' := fresh "E" in destruct Hxy as [Hxy H']).
    apply Z.eqb_eq in Hxy. subst i2. destruct (Z.eqb i1 id); [|exact IH]. split; now apply veqb_veq.
Qed.

Definition vrel (a b : option value) : Prop :=
  match a, b with Some v, Some v' => veq v v' | None, None => True | _, _ => False end.

Lemma first_mod_in_rel lg lg' (ms : list (Z * modif)) : list_eqb logitem_eqb lg lg' = true -> vrel (first_mod_in ms lg) (first_mod_in ms lg').
Proof.
  intros H. unfold first_mod_in. destruct ms as [|[id x] r]; [exact I|]. pose proof (find_mod_rel4 id lg lg' H) as Hf.
  destruct (find_mod id lg) as [[[v o] s]|], (find_mod id lg') as [[[v' o'] s']|]; try contradiction; [|exact I]. apply Hf.
Qed.
Lemma last_mod_out_rel4 lg lg' (ms : list (Z * modif)) : list_eqb logitem_eqb lg lg' = true -> vrel (last_mod_out ms lg) (last_mod_out ms lg').
Proof.
  intros H. unfold last_mod_out. destruct (rev ms) as [|[id x] r]; [exact I|]. pose proof (find_mod_rel4 id lg lg' H) as Hf.
  destruct (find_mod id lg) as [[[v o] s]|], (find_mod id lg') as [[[v' o'] s']|]; try contradiction; [|exact I]. apply Hf.
Qed.
Lemma results_of_rel4 lg lg' : list_eqb logitem_eqb lg lg' = true -> forall cs, results_of cs lg = results_of cs lg'.
Proof. rewrite results_of_same. apply results_of_rel. Qed.

Lemma row_of_input_rel lg lg' ib : list_eqb logitem_eqb lg lg' = true -> Forall2 row_rel (row_of_input lg ib) (row_of_input lg' ib).
Proof.
  intros H. unfold row_of_input. rewrite (results_of_rel4 lg lg' H).
  pose proof (first_mod_in_rel lg lg' (ib_mods ib) H) as H1. pose proof (last_mod_out_rel4 lg lg' (ib_mods ib) H) as H2.
  destruct (first_mod_in (ib_mods ib) lg), (first_mod_in (ib_mods ib) lg'); cbn [vrel] in H1; try contradiction; [|constructor].
  destruct (last_mod_out (ib_mods ib) lg), (last_mod_out (ib_mods ib) lg'); cbn [vrel] in H2; try contradiction; [|constructor].
  destruct (results_of (ib_conds ib) lg'); [|constructor].
  constructor; [|constructor]. unfold row_rel. cbn [rw_value rw_res rw_own rw_condless].
  split; [exact H2|]. split; [reflexivity|]. split; [|reflexivity]. apply law_veqb. now apply veqb_veq.
Qed.
Lemma rows_rel lg lg' ibs : list_eqb logitem_eqb lg lg' = true ->
  Forall2 row_rel (flat_map (row_of_input lg) ibs) (flat_map (row_of_input lg') ibs).
Proof. intros H. induction ibs as [|ib r IH]; cbn [flat_map]; [constructor|]. apply Forall2_app; [now apply row_of_input_rel|exact IH]. Qed.

Lemma c5_input_rel lg lg' ib : list_eqb logitem_eqb lg lg' = true -> c5_input lg ib = c5_input lg' ib.
Proof.
  intros H. unfold c5_input. destruct (ib_mods ib) as [|[id x] r]; [reflexivity|]. pose proof (find_mod_rel4 id lg lg' H) as Hf.
  destruct (find_mod id lg) as [[[v o] s]|], (find_mod id lg') as [[[v' o'] s']|]; try contradiction; reflexivity.
Qed.
Lemma conds_see_rel lg lg' v v' cs : list_eqb logitem_eqb lg lg' = true -> veq v v' -> conds_see lg v cs = conds_see lg' v' cs.
Proof.
  intros H Hv. unfold conds_see. induction cs as [|[id c] r IH]; cbn [forallb fst]; [reflexivity|]. rewrite IH. f_equal.
  pose proof (find_cond_rel4 id lg lg' H) as Hf.
  destruct (find_cond id lg) as [[[v1 s1] n1]|], (find_cond id lg') as [[[v2 s2] n2]|]; try contradiction; [|reflexivity].
  apply veqb_cong; [apply Hf|exact Hv].
Qed.
Lemma c6_input_rel lg lg' ib : list_eqb logitem_eqb lg lg' = true -> c6_input lg ib = c6_input lg' ib.
Proof.
  intros H. unfold c6_input. pose proof (last_mod_out_rel4 lg lg' (ib_mods ib) H) as H2.
  destruct (last_mod_out (ib_mods ib) lg), (last_mod_out (ib_mods ib) lg'); cbn [vrel] in H2; try contradiction; [|reflexivity].
  now apply conds_see_rel.
Qed.
Lemma forallb_ext_all {A} (f g : A -> bool) l : (forall x, f x = g x) -> forallb f l = forallb g l.
Proof. intros H. induction l as [|x l IH]; cbn [forallb]; [reflexivity|]. now rewrite H, IH. Qed.

(* ---- snapshots and the mirror ---- *)
Lemma snap_of_entry_rel4 c e a : forall l l', list_eqb snap_entry_eqb l l' = true ->
  osnap_eqb (snap_of_entry c e a l) (snap_of_entry c e a l') = true.
Proof.
  unfold snap_of_entry. induction l as [|x l IH]; intros [|y l'] H; cbn [list_eqb] in H; try discriminate; [reflexivity|].
  apply andb_true_iff in H. destruct H as [Hxy H]. specialize (IH l' H).
  destruct x as [c1 e1 a1 s1], y as [c2 e2 a2 s2]. cbn [snap_entry_eqb] in Hxy.
  repeat (apply andb_true_iff in Hxy; let H' := fresh "E" in destruct Hxy as [Hxy H']).
  apply Z.eqb_eq in Hxy. apply Z.eqb_eq in E1. apply Z.eqb_eq in E0. subst c2 e2 a2. cbn [find].
  destruct (Z.eqb c c1 && Z.eqb e e1 && Z.eqb a a1); [exact E|exact IH].
Qed.
Lemma got_of_rel c e o o' : list_eqb mirror_eqb (x_mirror o) (x_mirror o') = true -> got_of c e o = got_of c e o'.
Proof.
  unfold got_of. generalize (x_mirror o) (x_mirror o'). induction l as [|x l IH]; intros [|y l'] H; cbn [list_eqb] in H; try discriminate; [reflexivity|].
  apply andb_true_iff in H. destruct H as [Hxy H]. cbn [existsb]. rewrite (IH l' H). f_equal.
  destruct x as [c1 e1 g1 h1], y as [c2 e2 g2 h2]. cbn [mirror_eqb] in Hxy.
  repeat (apply andb_true_iff in Hxy; let H' := fresh "E" in destruct Hxy as [Hxy H']).
  apply Z.eqb_eq in Hxy. apply Z.eqb_eq in E1. apply eqb_prop in E0. now subst.
Qed.

(* ---- one action ---- *)
Lemma judge_action_rel settled c e b o o' :
  list_eqb logitem_eqb (x_log o) (x_log o') = true ->
  list_eqb snap_entry_eqb (x_snaps o) (x_snaps o') = true ->
  judge_action settled c e b o = judge_action settled c e b o'.
Proof.
  intros Hl Hs. rewrite !judge_action_unfold. cbv zeta.
  pose proof (snap_of_entry_rel4 c e (ab_id b) _ _ Hs) as Hsn.
  destruct (snap_of_entry c e (ab_id b) (x_snaps o)) as [s|], (snap_of_entry c e (ab_id b) (x_snaps o')) as [s'|];
    cbn [osnap_eqb] in Hsn; try discriminate; [|reflexivity].
  unfold snap_eqb in Hsn. repeat (apply andb_true_iff in Hsn; let H' := fresh "F" in destruct Hsn as [Hsn H']).
  apply state_eqb_eq in Hsn. apply veqb_veq in F1.
  pose proof (rows_rel _ _ (ab_inputs b) Hl) as Hrows.
  pose proof (contributing_rel _ _ Hrows) as Hcon.
  rewrite (forallb_ext_all _ _ (ab_inputs b) (fun ib => c5_input_rel _ _ ib Hl)).
  rewrite (forallb_ext_all _ _ (ab_inputs b) (fun ib => c6_input_rel _ _ ib Hl)).
  rewrite (veq_dim _ _ F1), (results_of_rel4 _ _ Hl), (regular_rel _ _ _ _ Hrows), (flat_res_rel _ _ Hcon), Hsn.
  pose proof (first_mod_in_rel _ _ (ab_mods b) Hl) as H1. pose proof (last_mod_out_rel4 _ _ (ab_mods b) Hl) as H2.
  pose proof (merged_value_rel (aid_dim (ab_id b)) (aid_accum (ab_id b)) _ _ Hcon) as Hmv.
  destruct (last_mod_out (ab_mods b) (x_log o)) as [vf|], (last_mod_out (ab_mods b) (x_log o')) as [vf'|]; cbn [vrel] in H2; try contradiction.
  - rewrite (conds_see_rel _ _ vf vf' (ab_conds b) Hl H2).
    destruct (first_mod_in (ab_mods b) (x_log o)) as [mg|], (first_mod_in (ab_mods b) (x_log o')) as [mg'|]; cbn [vrel] in H1; try contradiction; [|reflexivity].
    destruct (results_of (ab_conds b) (x_log o')) as [ars|]; [|reflexivity].
    rewrite (veqb_cong _ _ _ _ F1 (convert_veq (aid_dim (ab_id b)) _ _ H2)).
    rewrite (veqb_cong _ _ _ _ H1 Hmv).
    rewrite (law_veqb _ vf vf') by (now apply veqb_veq). reflexivity.
  - destruct (first_mod_in (ab_mods b) (x_log o)) as [mg|], (first_mod_in (ab_mods b) (x_log o')) as [mg'|]; cbn [vrel] in H1; try contradiction; reflexivity.
Qed.

Lemma out_diff_fields4 key fr a b : out_diff_k key fr a b = 0 ->
  list_eqb logitem_eqb (x_log a) (x_log b) = true /\
  list_eqb snap_entry_eqb (x_snaps a) (x_snaps b) = true /\
  list_eqb mirror_eqb (x_mirror a) (x_mirror b) = true /\
  x_panicked a = x_panicked b.
Proof.
  intros H. destruct (out_diff_fields key fr a b H) as (_ & H1 & H2 & H3). split; [exact H1|]. split; [exact H2|]. split; [|exact H3].
  unfold out_diff_k in H.
  match type of H with first_fail ?l = 0 => assert (Hk : forall k b0, In (k, b0) l -> k <> 0) end.
  { intros k b0 Hin. cbn [In] in Hin. repeat (destruct Hin as [Hin|Hin]; [inversion Hin; discriminate|]). destruct Hin. }
  pose proof (first_fail_zero_inv _ Hk H) as Hall. apply (Hall 6). cbn [In]. tauto.
Qed.

Lemma flat_map_ext_all {A B} (f g : A -> list B) l : (forall x, f x = g x) -> flat_map f l = flat_map g l.
Proof. intros H. induction l as [|x l IH]; cbn [flat_map]; [reflexivity|]. now rewrite H, IH. Qed.

Lemma judge_steps_rel4 sc key : forall steps a b n before before' i,
  0 <= i -> outs_diff key i steps a b = 0 -> list_eqb mirror_eqb (x_mirror before) (x_mirror before') = true ->
  judge_steps sc n before steps a = judge_steps sc n before' steps b.
Proof.
  induction steps as [|st steps IH]; intros a b n before before' i Hi H Hm.
  - destruct a as [|x r].
    + now rewrite (outs_diff_nil_l key i [] b Hi H).
    + destruct b as [|y s]; [discriminate (outs_diff_nil_r key i [] _ Hi H)|]. reflexivity.
  - destruct a as [|x r].
    + rewrite (outs_diff_nil_l key i _ b Hi H). destruct st; reflexivity.
    + destruct b as [|y s]; [discriminate (outs_diff_nil_r key i _ _ Hi H)|].
      destruct (outs_diff_cons key i (st :: steps) x r y s Hi H) as [E H']. cbn [tl] in H'.
      destruct (out_diff_fields4 _ _ _ _ E) as (Hlog & Hsnap & Hmir & Hpan).
      assert (Hi' : 0 <= i + 1) by lia.
      destruct st as [op|f]; cbn [judge_steps]; rewrite Hpan.
      * f_equal. apply (IH r s O x y (i + 1) Hi' H' Hmir).
      * f_equal. rewrite (IH r s (S n) x y (i + 1) Hi' H' Hmir). f_equal.
        apply flat_map_ext_all. intros [[c0 e0] spec0]. rewrite (got_of_rel c0 e0 before before' Hm).
        destruct (got_of c0 e0 before'); [|reflexivity]. apply flat_map_ext_all. intros b0. apply judge_action_rel; assumption.
Qed.

(* whatever the judgement says about the model's run, it says about every trace that agrees with it *)
Theorem C04_judgement_respects_agree : forall sc t, agree_full (sc, t) = true -> C04c.ok (sc, t) = C04c.ok (sc, trace (run sc)).
Proof.
  intros sc t H. unfold agree_full in H. cbn [fst snd] in H. apply Z.eqb_eq in H.
  destruct t as [outs|]; [|discriminate H]. cbn [trace_diff] in H. unfold ok.
  set (b0 := mkOut [] [] [] [] [] [] [] true true false).
  rewrite (judge_steps_rel4 sc (ctx_key sc) (s_steps sc) (run sc) outs O b0 b0 0 (Z.le_refl 0) H eq_refl). reflexivity.
Qed.

(* (T) *)
Theorem C04_app_judgement_transfer : forall sc t, profile_C04 sc -> agree_full (sc, t) = true -> C04c.ok (sc, t) = 0%Z.
Proof. intros sc t Hp Ha. rewrite (C04_judgement_respects_agree sc t Ha). apply C04_app_judgement_sound. exact Hp. Qed.

(* ================================================================================================ *)
(* 11. the profile is satisfiable; every hypothesis is needed                                       *)
(* ================================================================================================ *)

(* a 1-dimensional cumulative action (id 16) with an action-level Scale between two probes and an action-level explicit
   condition; four inputs: a key read through a Negate, a plain key, a key with a scripted value and an explicit condition, and
   a gamepad axis; six frames after the idle one.  On frame 4 the two condition-less keys cancel before the third key is merged:
   the judgement declares it irregular and says nothing about which inputs contribute there; all other frames are regular *)
Definition sc4_example : scenario := one_ctx [0] [0]
  [mkAction 16 [(1, m_script []); (2, m_scale (1 # 2) 1 1); (3, m_script [])]
     [(4, c_script KExplicit [SNone; SFired; SFired; SOngoing; SFired; SOngoing; SNone])]
     [mkBind (IKey 1 0) [(5, m_negate true true true); (6, m_script [])] [];
      mkBind (IKey 2 0) [(7, m_script [])] [];
      mkBind (IKey 0 0) [(8, m_script [MPass; MSet (V1 (3 # 2)); MSet (V2 (-1) 7); MPass; MPass; MPass; MPass]); (9, m_script [])]
             [(10, c_script KExplicit [SNone; SFired; SOngoing; SFired; SNone; SFired; SNone])];
      mkBind (IPadAxis 0) [(11, m_script [])] []]]
  [SOp (OSpawn 0 [0]); fr []; fr [0; 1]; fr [0]; fr [0; 1; 2];
   fr_ops [1; 2] [mkPad 0 [] [(0, 1 # 4)]] []; fr_ops [0] [mkPad 0 [] [(0, - 1 # 4)]] []; fr []].
Definition binds4 (sc : scenario) : list abind := match s_cfg sc with (_, _, spec) :: _ => merged_actions spec | [] => [] end.

Example C04_profile_satisfiable :
  profile_C04 sc4_example /\ ok (sc4_example, trace (run sc4_example)) = 0 /\
  map (fun o => map (fun s => match s with sn _ _ _ (Some d) => Some (sn_state d) | _ => None end) (x_snaps o)) (run sc4_example) =
    [[Some SNone]; [Some SNone]; [Some SFired]; [Some SFired]; [Some SFired]; [Some SFired]; [Some SFired]; [Some SNone]] /\
  map (fun o => match binds4 sc4_example with b :: _ => regular D1 Cumulative (rows_of b (x_log o)) | [] => false end) (run sc4_example) =
    [true; true; true; true; false; false; true; true].
Proof. vm_compute. repeat split. Qed.

(* (a) the first frame after the spawn must be idle: a key held from the start stays suppressed on the second frame *)
Definition act4_ok : action_spec :=
  mkAction 0 [(1, m_script [])] [(2, c_script KExplicit [SNone; SFired; SFired])] [mkBind (IKey 0 0) [(3, m_script [])] []].
Definition sc4_held : scenario := one_ctx [0] [0] [act4_ok] [SOp (OSpawn 0 [0]); fr [0]; fr [0]].
Example C04_app_judgement_sound_needs_idle_first_frame :
  match s_steps sc4_held with _ :: rest => forallb quiet_frame rest = true /\ first_idle (mkSpec None [act4_ok]) rest = false | [] => False end /\
  nodupb (all_ids (binds4 sc4_held)) = true /\ forallb mods_ok (binds4 sc4_held) = true /\
  ok (sc4_held, trace (run sc4_held)) = 5.
Proof. vm_compute. repeat split. Qed.

(* (b) unique log ids: two action-level modifiers logging under the same id are read as one *)
Definition sc4_dupid : scenario := one_ctx [0] [0]
  [mkAction 16 [(1, m_script []); (1, m_scale 2 1 1)] [] [mkBind (IKey 0 0) [(3, m_script [])] []]]
  [SOp (OSpawn 0 [0]); fr []; fr [0]].
Example C04_app_judgement_sound_needs_unique_ids :
  nodupb (all_ids (binds4 sc4_dupid)) = false /\ forallb mods_ok (binds4 sc4_dupid) = true /\
  ok (sc4_dupid, trace (run sc4_dupid)) = 2.
Proof. vm_compute. repeat split. Qed.

(* (c) a modifier in every chain: without one at action level the judgement cannot read the merged value (clause 9); without
   one on an input the judgement does not see that input (clause 1) *)
Definition sc4_noprobe : scenario := one_ctx [0] [0]
  [mkAction 0 [] [(2, c_script KExplicit [SNone; SFired])] [mkBind (IKey 0 0) [(3, m_script [])] []]]
  [SOp (OSpawn 0 [0]); fr []; fr [0]].
Definition sc4_noprobe_input : scenario := one_ctx [0] [0]
  [mkAction 0 [(1, m_script [])] [] [mkBind (IKey 0 0) [] []]]
  [SOp (OSpawn 0 [0]); fr []; fr [0]].
Example C04_app_judgement_sound_needs_probe :
  (nodupb (all_ids (binds4 sc4_noprobe)) = true /\ forallb mods_ok (binds4 sc4_noprobe) = false /\
   ok (sc4_noprobe, trace (run sc4_noprobe)) = 9) /\
  (nodupb (all_ids (binds4 sc4_noprobe_input)) = true /\ forallb mods_ok (binds4 sc4_noprobe_input) = false /\
   ok (sc4_noprobe_input, trace (run sc4_noprobe_input)) = 1).
Proof. vm_compute. repeat split. Qed.

(* (d) frames issue no commands and no operation follows the spawn: after a rebuild issued from a system inside a frame the
   polled data is that of the fresh instance, not of the evaluation the log describes (clause 2); a rebuild between frames while
   a key is held suppresses that key again beyond the first frame after it (clause 5) *)
Definition sc4_cmd : scenario := one_ctx [0] [0] [act4_ok] [SOp (OSpawn 0 [0]); fr []; fr_ops [0] [] [ORebuild]; fr [0]].
Definition sc4_op : scenario := one_ctx [0] [0] [act4_ok] [SOp (OSpawn 0 [0]); fr []; fr [0]; SOp ORebuild; fr [0]; fr [0]].
Example C04_app_judgement_sound_needs_quiet_frames :
  (profile_C04b sc4_cmd = false /\ ok (sc4_cmd, trace (run sc4_cmd)) = 2) /\
  (profile_C04b sc4_op = false /\ ok (sc4_op, trace (run sc4_op)) = 5).
Proof. vm_compute. repeat split. Qed.

(* (e) no second configuration entry for the same (context, entity): the instance is built from the first one *)
Definition act4_other : action_spec :=
  mkAction 0 [(11, m_script [])] [] [mkBind (IKey 0 0) [(13, m_script [])] []].
Definition sc4_twice : scenario :=
  mkScenario [0] [0] [((0, 0), mkSpec None [act4_ok]); ((0, 0), mkSpec None [act4_other])] [SOp (OSpawn 0 [0]); fr []; fr [0]].
Example C04_app_judgement_sound_needs_other_keys :
  forallb (other_key 0 0) (tl (s_cfg sc4_twice)) = false /\
  nodupb (all_ids (binds4 sc4_twice)) = true /\ forallb mods_ok (binds4 sc4_twice) = true /\
  ok (sc4_twice, trace (run sc4_twice)) = 9.
Proof. vm_compute. repeat split. Qed.

(* (f) the spawn is that of the first configuration entry: otherwise the conditions on the bindings speak about the wrong
   instance (here the instance of entity 1 is configured with a duplicate id) *)
Definition act4_dup : action_spec :=
  mkAction 16 [(1, m_script []); (1, m_scale 2 1 1)] [] [mkBind (IKey 0 0) [(3, m_script [])] []].
Definition sc4_wrong_spawn : scenario :=
  mkScenario [0] [0; 1] [((0, 0), mkSpec None [act4_ok]); ((0, 1), mkSpec None [act4_dup])] [SOp (OSpawn 1 [0]); fr []; fr [0]].
Example C04_app_judgement_sound_needs_spawn_of_first_entry :
  profile_C04b sc4_wrong_spawn = false /\
  nodupb (all_ids (binds4 sc4_wrong_spawn)) = true /\ forallb mods_ok (binds4 sc4_wrong_spawn) = true /\
  ok (sc4_wrong_spawn, trace (run sc4_wrong_spawn)) = 2.
Proof. vm_compute. repeat split. Qed.

(* whether the context type is registered and the entity declared does not matter *)
Example C04_profile_unregistered_undeclared :
  let unregistered := one_ctx [] [0] [act4_ok] [SOp (OSpawn 0 [0]); fr []; fr [0]] in
  let undeclared := one_ctx [0] [] [act4_ok] [SOp (OSpawn 0 [0]); fr []; fr [0]] in
  (profile_C04b unregistered = true /\ ok (unregistered, trace (run unregistered)) = 0) /\
  (profile_C04b undeclared = true /\ ok (undeclared, trace (run undeclared)) = 0).
Proof. vm_compute. repeat split. Qed.

(* (T) on a trace that agrees with the model's run without being equal to it: the logged values written as unreduced fractions *)
Example C04_transfer_satisfiable :
  let t := trace (map unreduce_out (run sc4_example)) in
  profile_C04 sc4_example /\ agree_full (sc4_example, t) = true /\ t <> trace (run sc4_example) /\ ok (sc4_example, t) = 0.
Proof. vm_compute. repeat split. discriminate. Qed.

Print Assumptions C04_app_judgement_sound.
Print Assumptions C04_judgement_respects_agree.
Print Assumptions C04_app_judgement_transfer.
