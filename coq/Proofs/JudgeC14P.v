(* Soundness (and transfer along agree_full) of the executable judgement Check/C14c.v on the model's own run. *)
From Coq Require Import ZArith QArith List Bool Lia Permutation Sorted.
From BEI Require Import Model.Frame Spec.Events Spec.ReadSpec Proofs.StateP Proofs.ActionP Proofs.InstanceP Proofs.ReaderP
  Proofs.FanoutP Proofs.FrameLiftP Proofs.RegistryP Proofs.TrackDefs Proofs.TrackFrameP Proofs.TrackOpP Proofs.TrackP Proofs.ValueP
  Proofs.JudgeC07P Check.C14c.
From BEI Require Proofs.JudgeC03P Proofs.JudgeC12P.
Import ListNotations.
Open Scope Z_scope.

(* ================================================================================================ *)
(* 0. helpers                                                                                       *)
(* ================================================================================================ *)
Definition all_true (l : list (Z * bool)) : Prop := forall k b, In (k, b) l -> b = true.
Lemma all_true_nil : all_true [].
Proof. intros k b []. Qed.
Lemma all_true_app l1 l2 : all_true l1 -> all_true l2 -> all_true (l1 ++ l2).
Proof. intros H1 H2 k b Hin. apply in_app_or in Hin. destruct Hin as [Hin|Hin]; [exact (H1 k b Hin) | exact (H2 k b Hin)]. Qed.
Lemma all_true_cons k b l : b = true -> all_true l -> all_true ((k, b) :: l).
Proof. intros Hb Hl k' b' [[= <- <-]|Hin]; [exact Hb | exact (Hl k' b' Hin)]. Qed.
Lemma all_true_concat (ls : list (list (Z * bool))) : (forall l, In l ls -> all_true l) -> all_true (concat ls).
Proof. intros H k b Hin. apply in_concat in Hin. destruct Hin as (l & Hl & Hin). exact (H l Hl k b Hin). Qed.
Lemma all_true_flat_map {A} (f : A -> list (Z * bool)) l : (forall x, In x l -> all_true (f x)) -> all_true (flat_map f l).
Proof. intros H k b Hin. apply in_flat_map in Hin. destruct Hin as (x & Hx & Hin). exact (H x Hx k b Hin). Qed.

(* the C14 judgement restates some definitions of C07c / FanoutP *)
Lemma got_of_eq c e o : C14c.got_of c e o = C07c.got_of c e o.
Proof. reflexivity. Qed.
Lemma has_of_eq c e o : C14c.has_of c e o = C07c.has_of c e o.
Proof. reflexivity. Qed.
Lemma retarget_eq ev : C14c.retarget ev = FanoutP.retarget ev.
Proof. reflexivity. Qed.

Definition disjz (a b : list Z) : bool := forallb (fun x => negb (memz x b)) a.
Lemma disjz_spec a b x : disjz a b = true -> In x a -> ~ In x b.
Proof.
  unfold disjz. rewrite forallb_forall. intros H Hin. apply memz_false. apply negb_true_iff. apply H. exact Hin.
Qed.

Lemma evkind_eqb_refl k : evkind_eqb k k = true.
Proof. destruct k; reflexivity. Qed.
Lemma oq_eqb_refl x : oq_eqb x x = true.
Proof. destruct x as [q|]; cbn [oq_eqb]; [apply qeqb_refl | reflexivity]. Qed.
Lemma event_eqb_refl ev : event_eqb ev ev = true.
Proof. unfold event_eqb. rewrite !Z.eqb_refl, evkind_eqb_refl, veqb_refl, state_eqb_refl, !oq_eqb_refl. reflexivity. Qed.
Lemma list_eqb_refl {A} (f : A -> A -> bool) l : (forall x, f x x = true) -> list_eqb f l l = true.
Proof. intros H. induction l as [|x l IH]; cbn [list_eqb]; [reflexivity|]. rewrite H, IH. reflexivity. Qed.

(* ================================================================================================ *)
(* 1. what the judgement knows about the world before a step                                        *)
(* ================================================================================================ *)
Definition out0 : out := mkOut [] [] [] [] [] [] [] true true false.

Definition bok (sc : scenario) (w : world) (before : out) : Prop :=
  (forall c e, has_of c e before = memz c (s_menu sc) && memz e (s_ents sc) && holdsb w c e) /\
  (forall c e, got_of c e before = memz c (s_menu sc) && memz e (s_ents sc) && gotb w c e) /\
  (forall c e a, snap_of_entry c e a (x_snaps before) = snap_of_entry c e a (model_snaps sc w)).

Lemma shows_bok sc w o : shows sc w o -> bok sc w o.
Proof.
  intros Hs. split; [intros c e; rewrite has_of_eq; apply has_of_shows; exact Hs|].
  split; [intros c e; rewrite got_of_eq; apply got_of_shows; exact Hs|].
  intros c e a. destruct Hs as (_ & -> & _). reflexivity.
Qed.

Lemma snap_found sc w c e a s : snap_of_entry c e a (model_snaps sc w) = Some s ->
  In c (s_menu sc) /\ In e (s_ents sc) /\ has_cfg sc c e = true /\ In a (spec_aids (cfg_lookup sc c e)) /\ snapv w c e a = Some s.
Proof.
  unfold snap_of_entry.
  destruct (find (fun x => match x with sn c' e' a' _ => Z.eqb c c' && Z.eqb e e' && Z.eqb a a' end) (model_snaps sc w))
    as [[c' e' a' s']|] eqn:Ef; [|discriminate].
  intros ->. apply find_some in Ef. destruct Ef as [Hin Hp]. apply in_model_snaps in Hin.
  destruct Hin as (c2 & e2 & a2 & Hc & He & Ec & Ha & [= -> -> -> Hs]).
  apply andb_true_iff in Hp. destruct Hp as [Hp H3]. apply andb_true_iff in Hp. destruct Hp as [H1 H2].
  apply Z.eqb_eq in H1. apply Z.eqb_eq in H2. apply Z.eqb_eq in H3. subst c2 e2 a2. repeat (split; [assumption|]). symmetry. exact Hs.
Qed.

Lemma init_bok sc : bok sc world_init out0.
Proof.
  split; [|split].
  - intros c e. replace (holdsb world_init c e) with false by reflexivity. rewrite andb_false_r. reflexivity.
  - intros c e. replace (gotb world_init c e) with false by reflexivity. rewrite andb_false_r. reflexivity.
  - intros c e a. cbn [out0 x_snaps]. destruct (snap_of_entry c e a (model_snaps sc world_init)) as [s|] eqn:Es; [|reflexivity].
    apply snap_found in Es. destruct Es as (_ & _ & _ & _ & Hs). discriminate.
Qed.

(* ================================================================================================ *)
(* 2. the configuration: which actions belong to which context type                                 *)
(* ================================================================================================ *)
Lemma cfg_lookup_key sc c e :
  cfg_lookup sc c e = mkSpec None [] \/
  exists x, In x (s_cfg sc) /\ fst (fst x) = c /\ snd (fst x) = e /\ cfg_lookup sc c e = snd x.
Proof.
  unfold cfg_lookup. destruct (find (fun x => Z.eqb (fst (fst x)) c && Z.eqb (snd (fst x)) e) (s_cfg sc)) as [x|] eqn:Ef; [|left; reflexivity].
  right. exists x. apply find_some in Ef. destruct Ef as [Hin Hp]. apply andb_true_iff in Hp. destruct Hp as [H1 H2].
  apply Z.eqb_eq in H1. apply Z.eqb_eq in H2. repeat split; assumption.
Qed.

Lemma in_acts sc c a : In a (actions_of_ctx sc c) <->
  exists x, In x (s_cfg sc) /\ fst (fst x) = c /\ In a (map a_id (i_actions (snd x))).
Proof.
  unfold actions_of_ctx. rewrite JudgeC07P.in_dedup, in_flat_map. split.
  - intros (x & Hx & Hin). cbv beta in Hin. destruct (Z.eqb (fst (fst x)) c) eqn:E; [|destruct Hin]. apply Z.eqb_eq in E. exists x. repeat split; assumption.
  - intros (x & Hx & Hc & Hin). exists x. split; [exact Hx|]. cbv beta. subst c. rewrite Z.eqb_refl. exact Hin.
Qed.

Lemma mk_inst_ids_acts sc c e a : In a (ids (mk_inst sc c e)) -> In a (actions_of_ctx sc c).
Proof.
  unfold mk_inst. rewrite in_ids_instantiate. destruct (cfg_lookup_key sc c e) as [->|(x & Hx & Hc & _ & ->)]; [intros []|].
  intros Hin. apply in_acts. exists x. repeat split; assumption.
Qed.

(* profile: an action id is used by one context type only *)
Definition p_acts (sc : scenario) : bool :=
  forallb (fun x => forallb (fun y => Z.eqb (fst (fst x)) (fst (fst y)) ||
                                      disjz (map a_id (i_actions (snd x))) (map a_id (i_actions (snd y)))) (s_cfg sc)) (s_cfg sc).

Lemma p_acts_unique sc c c' a : p_acts sc = true -> In a (actions_of_ctx sc c) -> In a (actions_of_ctx sc c') -> c = c'.
Proof.
  intros Hp H1 H2. apply in_acts in H1. apply in_acts in H2. destruct H1 as (x & Hx & <- & Hax). destruct H2 as (y & Hy & <- & Hay).
  unfold p_acts in Hp. rewrite forallb_forall in Hp. specialize (Hp x Hx). rewrite forallb_forall in Hp. specialize (Hp y Hy).
  apply orb_true_iff in Hp. destruct Hp as [Hp|Hp]; [apply Z.eqb_eq; exact Hp|]. exfalso. exact (disjz_spec _ _ a Hp Hax Hay).
Qed.
Lemma p_acts_owner sc c a : p_acts sc = true -> In a (actions_of_ctx sc c) -> owner sc c a.
Proof.
  intros Hp Ha c' e' Hne Hin. apply Hne. apply mk_inst_ids_acts in Hin. exact (p_acts_unique sc c' c a Hp Hin Ha).
Qed.

(* profile: no events-only blocker in the configuration of an exclusive context type *)
Definition is_evb (k : ckind) : bool := match k with KBlocker true => true | _ => false end.
Definition conds_free (cs : list (Z * cond)) : bool := forallb (fun p => negb (is_evb (cond_kind (snd p)))) cs.
Definition p_noevb (sc : scenario) : bool :=
  forallb (fun x => ctx_shared (fst (fst x)) ||
                    forallb (fun s => conds_free (a_conds s) && forallb (fun b => conds_free (b_conds b)) (a_binds s))
                            (i_actions (snd x))) (s_cfg sc).

Lemma conds_free_spec cs : conds_free cs = true <-> ~ In (KBlocker true) (conds_kinds cs).
Proof.
  unfold conds_free, conds_kinds. rewrite forallb_forall, in_map_iff. split.
  - intros H (p & Hk & Hp). specialize (H p Hp). rewrite Hk in H. discriminate.
  - intros H p Hp. destruct (cond_kind (snd p)) as [| |[|]] eqn:E; try reflexivity. exfalso. apply H. exists p. split; assumption.
Qed.
Lemma conds_free_app a b : conds_free (a ++ b) = conds_free a && conds_free b.
Proof. unfold conds_free. apply forallb_app. Qed.

Definition abind_free (b : abind) : bool :=
  conds_free (ab_conds b) && forallb (fun ib => conds_free (ib_conds ib)) (ab_inputs b).
Lemma abind_free_spec b : abind_free b = true -> no_ev_blocker b.
Proof.
  unfold abind_free, no_ev_blocker. intros H. apply andb_true_iff in H. destruct H as [H1 H2]. split; [apply conds_free_spec; exact H1|].
  apply Forall_forall. intros ib Hib. apply conds_free_spec. rewrite forallb_forall in H2. apply H2. exact Hib.
Qed.
Definition action_free (s : action_spec) : bool :=
  conds_free (a_conds s) && forallb (fun b => conds_free (b_conds b)) (a_binds s).

Lemma extend_free s : action_free s = true -> forall bs bs', forallb abind_free bs = true -> extend s bs = Some bs' -> forallb abind_free bs' = true.
Proof.
  intros Hs. induction bs as [|b bs IH]; intros bs' Hbs; cbn [extend]; [discriminate|].
  cbn [forallb] in Hbs. apply andb_true_iff in Hbs. destruct Hbs as [Hb Hbs]. destruct (Z.eqb (ab_id b) (a_id s)).
  - intros [= <-]. cbn [forallb]. rewrite Hbs, andb_true_r. unfold abind_free in *. cbn [ab_conds ab_inputs].
    apply andb_true_iff in Hb. destruct Hb as [B1 B2]. unfold action_free in Hs. apply andb_true_iff in Hs. destruct Hs as [S1 S2].
    rewrite conds_free_app, B1, S1, forallb_app, B2. cbn [andb]. rewrite forallb_forall in *. intros ib Hib.
    apply in_map_iff in Hib. destruct Hib as (bb & <- & Hbb). cbn [ibind_of ib_conds]. apply S2. exact Hbb.
  - destruct (extend s bs) as [r|]; [|discriminate]. intros [= <-]. cbn [forallb]. rewrite Hb. apply (IH r Hbs eq_refl).
Qed.
Lemma bind_action_free i s : action_free s = true -> forallb abind_free (in_binds i) = true -> forallb abind_free (in_binds (bind_action i s)) = true.
Proof.
  intros Hs Hi. unfold bind_action. destruct (extend s (in_binds i)) as [bs|] eqn:Ee; cbn [in_binds].
  - exact (extend_free s Hs _ _ Hi Ee).
  - rewrite forallb_app, Hi. cbn [forallb]. rewrite andb_true_r. unfold abind_free. cbn [ab_conds ab_inputs].
    unfold action_free in Hs. apply andb_true_iff in Hs. destruct Hs as [S1 S2]. rewrite S1. cbn [andb]. rewrite forallb_forall in *.
    intros ib Hib. apply in_map_iff in Hib. destruct Hib as (bb & <- & Hbb). cbn [ibind_of ib_conds]. apply S2. exact Hbb.
Qed.
Lemma instantiate_free spec : forallb action_free (i_actions spec) = true -> forallb abind_free (in_binds (instantiate spec)) = true.
Proof.
  unfold instantiate. assert (H0 : forallb abind_free (in_binds (mkInst (i_pad spec) [] [])) = true) by reflexivity. revert H0.
  generalize (mkInst (i_pad spec) [] []). induction (i_actions spec) as [|s l IH]; intros i Hi Hl; cbn [fold_left]; [exact Hi|].
  cbn [forallb] in Hl. apply andb_true_iff in Hl. destruct Hl as [Hs Hl]. apply IH; [|exact Hl]. apply bind_action_free; assumption.
Qed.
Lemma p_noevb_free sc c a : p_noevb sc = true -> ctx_shared c = false -> ev_free sc c a.
Proof.
  intros Hp Hx0 e' b Hb _. apply abind_free_spec. unfold mk_inst in Hb.
  assert (H : forallb abind_free (in_binds (instantiate (cfg_lookup sc c e'))) = true).
  { apply instantiate_free. destruct (cfg_lookup_key sc c e') as [->|(x & Hx & Hc & _ & ->)]; [reflexivity|].
    unfold p_noevb in Hp. rewrite forallb_forall in Hp. specialize (Hp x Hx). rewrite Hc, Hx0 in Hp. exact Hp. }
  rewrite forallb_forall in H. apply H. exact Hb.
Qed.

(* ================================================================================================ *)
(* 3. cfg_inv along a run (TrackP states it together with one tracked action: track an unused one)   *)
(* ================================================================================================ *)
Definition all_aids (sc : scenario) : list Z := flat_map (fun x => map a_id (i_actions (snd x))) (s_cfg sc).
Definition unused (sc : scenario) : Z := fold_right Z.max 0 (all_aids sc) + 1.
Lemma le_max_list a l : In a l -> a <= fold_right Z.max 0 l.
Proof. induction l as [|x l IH]; intros Hin; [destruct Hin|]. cbn [fold_right]. destruct Hin as [->|Hin]; [lia|]. specialize (IH Hin). lia. Qed.
Lemma unused_not_bound sc c e : ~ In (unused sc) (ids (mk_inst sc c e)).
Proof.
  intros Hin. apply mk_inst_ids_acts, in_acts in Hin. destruct Hin as (x & Hx & _ & Ha).
  assert (H : In (unused sc) (all_aids sc)) by (unfold all_aids; apply in_flat_map; exists x; split; assumption).
  apply le_max_list in H. unfold unused in H. lia.
Qed.
Lemma unused_owner sc : owner sc 0 (unused sc).
Proof. intros c' e' _. apply unused_not_bound. Qed.
Lemma unused_free sc : ev_free sc 0 (unused sc).
Proof.
  intros e' b Hb Hid. exfalso. apply (unused_not_bound sc 0 e'). rewrite <- Hid. unfold ids. apply in_map. exact Hb.
Qed.

Lemma step_res_world sc w st : step_world sc w st = option_map fst (step_res sc w st).
Proof. destruct st as [o|f]; cbn [step_world step_res]; [destruct (apply_op sc w o) | destruct (frame sc w f)]; reflexivity. Qed.
Lemma step_res_cfg sc w st w' o : reg_inv sc w -> cfg_inv sc (w_reg w) -> step_res sc w st = Some (w', o) -> cfg_inv sc (w_reg w').
Proof.
  intros Hinv Hcfg Hs. destruct (step_track sc 0 0 (unused sc) w st Hinv Hcfg (unused_owner sc) (unused_free sc)) as (_ & w2 & Hw & _ & H).
  rewrite step_res_world, Hs in Hw. injection Hw as <-. exact H.
Qed.

(* ================================================================================================ *)
(* 4. exclusive instances through operations and through the registry update                        *)
(* ================================================================================================ *)
(* an exclusive instance found after some operations was either built by them for its own entity, or is the one that
   was there before *)
Definition xeff (sc : scenario) (w w' : world) (bl : list (ctx * entity)) : Prop :=
  forall c e i', ctx_shared c = false -> reg_get c e (w_reg w') = Some i' ->
    (In (c, e) bl /\ i' = mk_inst sc c e) \/ (~ In (c, e) bl /\ reg_get c e (w_reg w) = Some i').

Lemma pair_dec (p q : Z * Z) : {p = q} + {p <> q}.
Proof. decide equality; apply Z.eq_dec. Qed.

Lemma effect_xeff sc isreb w w' bl : reg_inv sc w -> reg_inv sc w' -> effect sc isreb w w' bl -> xeff sc w w' bl.
Proof.
  intros Hinv Hinv' [Ebx _ Efx _ Eu] c e i' Hx Hg.
  destruct (in_dec pair_dec (c, e) bl) as [Hin|Hnin].
  - left. split; [exact Hin|]. rewrite (Efx c e Hx Hin) in Hg. congruence.
  - right. split; [exact Hnin|].
    pose proof (mirror_some sc w' c e i' Hinv' Hg) as Hh'.
    assert (Hh : holds (w_holds w) c e).
    { destruct (holds_dec w c e) as [H|H]; [exact H|]. exfalso. apply Hnin. apply (Ebx c e Hx). split; [exact Hh' | left; exact H]. }
    destruct (Eu c e Hh) as [E|E].
    + unfold touched. rewrite Hx. exact Hnin.
    + congruence.
    + rewrite <- E. exact Hg.
Qed.
Lemma xeff_refl sc w : xeff sc w w [].
Proof. intros c e i' _ Hg. right. split; [intros [] | exact Hg]. Qed.
Lemma xeff_trans sc w w1 w2 b1 b2 : xeff sc w w1 b1 -> xeff sc w1 w2 b2 -> xeff sc w w2 (b1 ++ b2).
Proof.
  intros H1 H2 c e i' Hx Hg. destruct (H2 c e i' Hx Hg) as [[Hin ->]|[Hnin Hg1]].
  - left. split; [apply in_or_app; right; exact Hin | reflexivity].
  - destruct (H1 c e i' Hx Hg1) as [[Hin ->]|[Hnin1 Hg0]].
    + left. split; [apply in_or_app; left; exact Hin | reflexivity].
    + right. split; [|exact Hg0]. intros Hin. apply in_app_or in Hin. tauto.
Qed.
Lemma apply_op_xeff sc w o r : reg_inv sc w -> apply_op sc w o = Some r -> xeff sc w (oo_world r) (oo_built r).
Proof.
  intros Hinv Eo. destruct (apply_op_inv sc w o Hinv) as (r' & Hr' & Hinv'). rewrite Eo in Hr'. injection Hr' as <-.
  apply (effect_xeff sc (is_rebuild o)); [exact Hinv | exact Hinv' | apply apply_op_effect; assumption].
Qed.
Lemma run_ops_xeff sc ops : forall w a, reg_inv sc w -> run_ops sc w ops = Some a -> xeff sc w (oo_world a) (oo_built a).
Proof.
  induction ops as [|o ops IH]; intros w a Hinv Hr.
  - rewrite run_ops_nil in Hr. injection Hr as <-. apply xeff_refl.
  - rewrite run_ops_cons in Hr. destruct (apply_op sc w o) as [r|] eqn:Eo; [|discriminate].
    destruct (run_ops sc (oo_world r) ops) as [a2|] eqn:E2; [|discriminate]. injection Hr as <-.
    destruct (apply_op_inv sc w o Hinv) as (r' & Hr' & Hinv'). rewrite Eo in Hr'. injection Hr' as <-.
    unfold prefix_out. cbn [oo_world oo_built]. apply (xeff_trans sc w (oo_world r)); [exact (apply_op_xeff sc w o r Hinv Eo) | exact (IH _ _ Hinv' E2)].
Qed.

(* the registry update keeps every lookup, and evaluates the instance found once *)
Lemma excl_update_find tm r e cx p insts : forall c0,
  let '(insts', _, _, _) := excl_update tm r c0 insts in
  match group_get e (GExcl cx p insts) with
  | None => group_get e (GExcl cx p insts') = None
  | Some i => exists c1 x, group_get e (GExcl cx p insts') = Some (io_inst (inst_update tm r c1 [x] i))
  end.
Proof.
  induction insts as [|[x i] rest IH]; intros c0; cbn [excl_update]; [reflexivity|]. cbv zeta.
  set (o := inst_update tm r c0 [x] i). specialize (IH (io_consumed o)).
  destruct (excl_update tm r (io_consumed o) rest) as [[[rest' c'] ev] lg]. cbn [group_get find fst] in *.
  destruct (Z.eqb x e); [exists c0, x; reflexivity | exact IH].
Qed.
Lemma reg_update_get tm r c e gs : forall c0,
  match reg_get c e gs with
  | None => reg_get c e (ro_reg (reg_update tm r c0 gs)) = None
  | Some i => exists c1 recips, reg_get c e (ro_reg (reg_update tm r c0 gs)) = Some (io_inst (inst_update tm r c1 recips i))
  end.
Proof.
  induction gs as [|g gs IH]; intros c0; [reflexivity|]. rewrite tk_reg_get_cons. destruct g as [cx p insts|cx p ents i]; cbn [reg_update].
  - pose proof (excl_update_find tm r e cx p insts c0) as Hf. destruct (excl_update tm r c0 insts) as [[[insts' c'] ev] lg]. cbv zeta. cbn [ro_reg].
    rewrite tk_reg_get_cons. cbn [g_ctx]. destruct (Z.eqb cx c); [|apply IH].
    destruct (group_get e (GExcl cx p insts)) as [i|].
    + destruct Hf as (c1 & x & ->). exists c1, [x]. reflexivity.
    + exact Hf.
  - cbv zeta. cbn [ro_reg]. rewrite tk_reg_get_cons. cbn [g_ctx]. destruct (Z.eqb cx c); [|apply IH]. cbn [group_get].
    destruct (existsb (Z.eqb e) ents); [exists c0, ents; reflexivity | reflexivity].
Qed.

(* every exclusive instance binds the actions its own entity's configuration names *)
Definition own_inv (sc : scenario) (w : world) : Prop :=
  forall c e i, ctx_shared c = false -> reg_get c e (w_reg w) = Some i -> ids i = ids (mk_inst sc c e).

Lemma own_inv_update sc w tm r c0 : own_inv sc w -> own_inv sc (mkWorld (w_holds w) (ro_reg (reg_update tm r c0 (w_reg w))) tm).
Proof.
  intros H c e i' Hx Hg. cbn [w_reg] in Hg. pose proof (reg_update_get tm r c e (w_reg w) c0) as Hu.
  destruct (reg_get c e (w_reg w)) as [i|] eqn:Eg; [|congruence]. destruct Hu as (c1 & rc & Hu). rewrite Hu in Hg. injection Hg as <-.
  unfold ids. rewrite (proj2 (inst_update_sites tm r c1 rc i)). apply (H c e i Hx Eg).
Qed.
Lemma own_inv_xeff sc w w' bl : xeff sc w w' bl -> own_inv sc w -> own_inv sc w'.
Proof. intros Hx H c e i' Hc Hg. destruct (Hx c e i' Hc Hg) as [[_ ->]|[_ Hg0]]; [reflexivity | exact (H c e i' Hc Hg0)]. Qed.

Lemma frame_parts sc w f fo : frame sc w f = Some fo ->
  let o := reg_update (frame_time f) (f_raw f) (update_state (f_raw f)) (w_reg w) in
  ro_events o = Some (fo_main fo) /\ fo_log fo = ro_log o /\
  exists a, run_ops sc (mid_world w f) (f_ops f) = Some a /\ fo_world fo = oo_world a /\ fo_post fo = oo_events a /\ fo_built fo = oo_built a.
Proof.
  unfold frame, mid_world. cbv zeta.
  destruct (ro_events (reg_update (frame_time f) (f_raw f) (update_state (f_raw f)) (w_reg w))) as [main|]; [|discriminate].
  destruct (run_ops sc _ (f_ops f)) as [a|] eqn:Er; [|discriminate]. intros [= <-]. cbn [fo_main fo_log fo_world fo_post fo_built].
  split; [reflexivity|]. split; [reflexivity|]. exists a. repeat split.
Qed.
Lemma mid_world_inv sc w f : reg_inv sc w -> reg_inv sc (mid_world w f).
Proof. apply reg_update_inv. Qed.

Lemma step_res_own sc w st w' o : reg_inv sc w -> step_res sc w st = Some (w', o) -> own_inv sc w -> own_inv sc w'.
Proof.
  intros Hinv Hs Hown. destruct st as [op|f]; cbn [step_res] in Hs.
  - destruct (apply_op sc w op) as [oo|] eqn:Eo; [|discriminate]. injection Hs as <- _.
    eapply own_inv_xeff; [|exact Hown]. apply (apply_op_xeff sc w op oo Hinv Eo).
  - destruct (frame sc w f) as [fo|] eqn:Ef; [|discriminate]. injection Hs as <- _.
    destruct (frame_parts sc w f fo Ef) as (_ & _ & a & Hr & -> & _).
    eapply own_inv_xeff; [apply (run_ops_xeff sc (f_ops f) (mid_world w f) a (mid_world_inv sc w f Hinv) Hr)|].
    apply own_inv_update. exact Hown.
Qed.

(* ---- the invariants of a run, together ---- *)
Record inv (sc : scenario) (w : world) : Prop := mkInv {
  i_reg : reg_inv sc w; i_cfg : cfg_inv sc (w_reg w); i_ents : ents_inv sc w; i_own : own_inv sc w }.

Lemma inv_init sc : inv sc world_init.
Proof.
  constructor; [apply reg_inv_init | apply cfg_inv_nil | apply ents_inv_init|]. intros c e i _ H. discriminate.
Qed.
Lemma step_res_inv' sc w st : step_okb sc st = true -> inv sc w ->
  exists w' o, step_res sc w st = Some (w', o) /\ inv sc w' /\ shows sc w' o.
Proof.
  intros Hok [I1 I2 I3 I4]. destruct (step_res_inv sc w st I1) as (w' & o & Hs & Hinv' & Hsh). exists w', o. split; [exact Hs|].
  split; [|exact Hsh]. constructor; [exact Hinv' | exact (step_res_cfg sc w st w' o I1 I2 Hs) | exact (step_res_ents sc w st w' o Hok Hs I3) |
                                    exact (step_res_own sc w st w' o I1 Hs I4)].
Qed.

(* ================================================================================================ *)
(* 5. the events of a frame, record by record (clauses 1 and 2)                                     *)
(* ================================================================================================ *)
Lemma burst_in b d ks recips ev : In ev (burst b d ks recips) -> e_action ev = b /\ In (e_target ev) recips.
Proof.
  unfold burst. intros Hin. apply in_flat_map in Hin. destruct Hin as (k & _ & Hin). apply in_map_iff in Hin. destruct Hin as (x & <- & Hx).
  rewrite mk_event_action, mk_event_target. split; [reflexivity | exact Hx].
Qed.
Lemma rec_events_burst tm e : rec_result tm e -> exists d ks, rec_events e = burst (ab_id (er_bind e)) d ks (er_recipients e).
Proof.
  intros H. unfold rec_result in H. cbv zeta in H. destruct H as (s & v & bl & _ & _ & _ & He). destruct bl.
  - exists (data_new DBool), []. exact He.
  - eexists _, _. exact He.
Qed.
Lemma rec_source_acts sc r g e : cfg_inv sc r -> In g r -> rec_source g e -> In (ab_id (er_bind e)) (actions_of_ctx sc (g_ctx g)).
Proof.
  intros Hcfg Hg Hs. destruct (rec_source_inst g e Hs) as (i & Hi & _ & Hb).
  specialize (Hcfg g Hg). rewrite Forall_forall in Hcfg. destruct (from_cfg_ids sc (g_ctx g) i (Hcfg i Hi)) as (e' & Hids).
  apply (mk_inst_ids_acts sc (g_ctx g) e'). rewrite <- Hids. unfold ids. apply in_map. exact Hb.
Qed.
Lemma rec_source_recips g e : rec_source g e -> incl (er_recipients e) (g_ents g) /\ (g_shared g = true -> er_recipients e = g_ents g).
Proof.
  intros [_ H]. destruct g as [cx p insts|cx p ents i]; cbn [g_ents g_shared].
  - destruct H as (en & i & Hin & -> & _). split; [|discriminate]. intros x [<-|[]]. apply in_map_iff. exists (en, i). split; [reflexivity | exact Hin].
  - destruct H as (-> & _). split; [apply incl_refl | reflexivity].
Qed.

(* the selection the judgement makes for one entity, and "two entities receive the same, up to the target" *)
Definition selq (acts : list Z) (e : Z) (ev : event) : bool := Z.eqb (e_target ev) e && memz (e_action ev) acts.
Definition feq (acts : list Z) (e1 e2 : Z) (l : list event) : Prop :=
  map C14c.retarget (filter (selq acts e1) l) = map C14c.retarget (filter (selq acts e2) l).
Lemma feq_nil acts e1 e2 : feq acts e1 e2 [].
Proof. reflexivity. Qed.
Lemma feq_app acts e1 e2 l1 l2 : feq acts e1 e2 l1 -> feq acts e1 e2 l2 -> feq acts e1 e2 (l1 ++ l2).
Proof. unfold feq. intros H1 H2. rewrite !filter_app, !map_app, H1, H2. reflexivity. Qed.
Lemma feq_flat_map {A} acts e1 e2 (f : A -> list event) l : (forall x, In x l -> feq acts e1 e2 (f x)) -> feq acts e1 e2 (flat_map f l).
Proof.
  induction l as [|y l IH]; intros H; cbn [flat_map]; [apply feq_nil|].
  apply feq_app; [apply H; left; reflexivity | apply IH; intros x Hx; apply H; right; exact Hx].
Qed.
Lemma filter_none {A} (p : A -> bool) l : (forall x, In x l -> p x = false) -> filter p l = [].
Proof.
  induction l as [|x l IH]; intros H; cbn [filter]; [reflexivity|]. rewrite (H x (or_introl eq_refl)). apply IH. intros y Hy. apply H. right. exact Hy.
Qed.
Lemma feq_burst acts e1 e2 a d ks recips :
  (memz a acts = true -> NoDup recips /\ In e1 recips /\ In e2 recips) -> feq acts e1 e2 (burst a d ks recips).
Proof.
  intros H. unfold feq. destruct (memz a acts) eqn:Em.
  - destruct (H eq_refl) as (Hnd & H1 & H2).
    assert (Hf : forall e, filter (selq acts e) (burst a d ks recips) = to e (burst a d ks recips)).
    { intros e. unfold to. apply filter_ext_in. intros ev Hev. apply burst_in in Hev. destruct Hev as [Hev _]. unfold selq. rewrite Hev, Em, andb_true_r. reflexivity. }
    rewrite !Hf. unfold burst. rewrite (to_flat a d ks e1 recips Hnd H1), (to_flat a d ks e2 recips Hnd H2), !map_map.
    apply map_ext. intros k. rewrite !retarget_eq. apply retarget_mk.
  - rewrite !filter_none; [reflexivity| |]; intros ev Hev; apply burst_in in Hev; destruct Hev as [Hev _]; unfold selq; rewrite Hev, Em; apply andb_false_r.
Qed.
Lemma feq_other acts e1 e2 l : (forall ev, In ev l -> ~ In (e_action ev) acts) -> feq acts e1 e2 l.
Proof.
  intros H. unfold feq. rewrite !filter_none; [reflexivity| |]; intros ev Hev; unfold selq; apply H, memz_false in Hev; rewrite Hev; apply andb_false_r.
Qed.

Lemma inv_group_ok sc w g : reg_inv sc w -> In g (w_reg w) -> group_ok g.
Proof. intros (_ & _ & Hok & _) Hg. rewrite Forall_forall in Hok. exact (Hok g Hg). Qed.

Lemma frame_feq sc w f c e1 e2 : reg_inv sc w -> cfg_inv sc (w_reg w) -> p_acts sc = true -> ctx_shared c = true ->
  holds (w_holds w) c e1 -> holds (w_holds w) c e2 -> feq (actions_of_ctx sc c) e1 e2 (flat_map rec_events (frame_evals w f)).
Proof.
  intros I1 I2 Hp Hsh H1 H2. apply feq_flat_map. intros r Hr. unfold frame_evals in Hr.
  pose proof (evaluations_result (frame_time f) (f_raw f) (update_state (f_raw f)) (w_reg w)) as Hres. rewrite Forall_forall in Hres.
  destruct (rec_events_burst _ r (Hres r Hr)) as (d & ks & ->).
  destruct (evaluations_source _ _ _ _ r Hr) as (g & Hg & Hs).
  apply feq_burst. intros Hm. apply memz_in in Hm.
  pose proof (rec_source_acts sc _ g r I2 Hg Hs) as Ha.
  pose proof (p_acts_unique sc c (g_ctx g) _ Hp Hm Ha) as Hc.
  destruct (inv_group_ok sc w g I1 Hg) as (_ & Hshared & _ & Hnd & _). rewrite <- Hc, Hsh in Hshared.
  destruct (rec_source_recips g r Hs) as [_ Hrec]. rewrite (Hrec Hshared). split; [exact Hnd|].
  split; apply (inv_holds_group sc w g I1 Hg); rewrite <- Hc; assumption.
Qed.

Lemma frame_targets sc w f c ev : reg_inv sc w -> cfg_inv sc (w_reg w) -> p_acts sc = true ->
  In ev (flat_map rec_events (frame_evals w f)) -> In (e_action ev) (actions_of_ctx sc c) -> holds (w_holds w) c (e_target ev).
Proof.
  intros I1 I2 Hp Hin Hm. apply in_flat_map in Hin. destruct Hin as (r & Hr & Hev). unfold frame_evals in Hr.
  pose proof (evaluations_result (frame_time f) (f_raw f) (update_state (f_raw f)) (w_reg w)) as Hres. rewrite Forall_forall in Hres.
  destruct (rec_events_burst _ r (Hres r Hr)) as (d & ks & E). rewrite E in Hev. apply burst_in in Hev. destruct Hev as [Ea Ht].
  destruct (evaluations_source _ _ _ _ r Hr) as (g & Hg & Hs).
  pose proof (rec_source_acts sc _ g r I2 Hg Hs) as Ha. rewrite <- Ea in Ha.
  pose proof (p_acts_unique sc c (g_ctx g) _ Hp Hm Ha) as Hc. rewrite Hc.
  apply (inv_holds_group sc w g I1 Hg). apply (proj1 (rec_source_recips g r Hs)). exact Ht.
Qed.

(* ================================================================================================ *)
(* 6. clause 3: an exclusive owner receives the transition table of its own instance                 *)
(* ================================================================================================ *)
Lemma frame_own_table sc w f fo c e a s : inv sc w -> p_acts sc = true -> p_noevb sc = true ->
  frame sc w f = Some fo -> f_ops f = [] -> ctx_shared c = false -> In a (actions_of_ctx sc c) ->
  snap_of_entry c e a (model_snaps sc (fo_world fo)) = Some s ->
  map e_kind (filter (fun ev => Z.eqb (e_target ev) e && Z.eqb (e_action ev) a) (fo_main fo)) =
  table (match snap_of_entry c e a (model_snaps sc w) with Some p => sn_state p | None => SNone end) (sn_state s).
Proof.
  intros [I1 I2 I3 I4] Hp Hn Hf Hops Hx Ha Hs.
  destruct (frame_parts sc w f fo Hf) as (Hmain & _ & a0 & Hr & Hw & _). cbv zeta in Hmain. rewrite Hops, run_ops_nil in Hr. injection Hr as <-.
  cbn [oo_world] in Hw. rewrite Hw in Hs. apply snap_found in Hs. destruct Hs as (Hc & He & Ecfg & Haid & Hs).
  rewrite (snap_of_entry_model sc w c e a Hc He Ecfg Haid).
  unfold snapv in Hs. destruct (reg_get c e (w_reg (mid_world w f))) as [i'|] eqn:Eg; [|discriminate].
  destruct (lookup a (in_actions i')) as [d'|] eqn:El; [|discriminate]. injection Hs as <-.
  pose proof (own_inv_update sc w (frame_time f) (f_raw f) (update_state (f_raw f)) I4 c e i' Hx Eg) as Hids.
  assert (Hai : In a (ids i')) by (rewrite Hids; unfold mk_inst; apply in_ids_instantiate, in_spec_aids; exact Haid).
  assert (Hst : stored (w_reg (mid_world w f)) c e a = Some d') by (apply stored_some; exists i'; repeat split; assumption).
  pose proof (proj1 (reg_inv_alt sc w) I1) as (Hwf & _).
  destruct (track_frame sc c e a (frame_time f) (f_raw f) (update_state (f_raw f)) (w_reg w) Hwf I2 (p_acts_owner sc c a Hp Ha) (p_noevb_free sc c a Hn Hx))
    as (main & Hm & _ & Hres). cbv zeta in Hm, Hres. rewrite Hmain in Hm. injection Hm as <-.
  cbn [mid_world w_reg] in Hst. destruct (stored (w_reg w) c e a) as [d|] eqn:Es0.
  - destruct Hres as (s1 & v & _ & Hst' & Hev). rewrite Hst in Hst'. injection Hst' as ->.
    apply stored_some in Es0. destruct Es0 as (i & Eg0 & _ & El0). unfold snapv. rewrite Eg0, El0. cbn [option_map snap_of sn_state].
    rewrite (proj1 (data_update_fields _ d s1 v)).
    change (filter (fun ev => Z.eqb (e_target ev) e && Z.eqb (e_action ev) a) (fo_main fo)) with (ev_of e a (fo_main fo)). rewrite Hev, map_map.
    erewrite map_ext; [apply map_id|]. intros k. apply mk_event_kind.
  - destruct Hres as [_ Hnone]. congruence.
Qed.

(* ================================================================================================ *)
(* 7. judge_frame (clauses 1, 2, 3) on a frame without operations                                   *)
(* ================================================================================================ *)
Lemma holder_has sc w before c e : bok sc w before -> ents_inv sc w -> In c (s_menu sc) -> holds (w_holds w) c e ->
  In e (filter (fun e => has_of c e before) (s_ents sc)).
Proof.
  intros (Hh & _) Hents Hc Hhold. assert (He : In e (s_ents sc)) by (apply Hents; eapply holds_live; exact Hhold).
  apply filter_In. split; [exact He|]. rewrite Hh. apply memz_in in Hc. apply memz_in in He. rewrite Hc, He. apply holdsb_iff. exact Hhold.
Qed.
Lemma has_holder sc w before c e : bok sc w before -> In e (filter (fun e => has_of c e before) (s_ents sc)) -> holds (w_holds w) c e.
Proof.
  intros (Hh & _) Hin. apply filter_In in Hin. destruct Hin as [_ H]. rewrite Hh in H. apply andb_true_iff in H. apply holdsb_iff. tauto.
Qed.

Lemma judge_frame_sound sc w f fo before o : inv sc w -> bok sc w before -> p_acts sc = true -> p_noevb sc = true ->
  frame sc w f = Some fo -> f_ops f = [] -> x_main o = fo_main fo -> x_snaps o = model_snaps sc (fo_world fo) ->
  all_true (judge_frame sc before o).
Proof.
  intros Hinv Hb Hp Hn Hf Hops Hmain Hsn. pose proof Hinv as [I1 I2 I3 I4].
  destruct (frame_records sc w f fo Hf) as (Hrec & _). rewrite Hrec in Hmain.
  unfold judge_frame. apply all_true_concat. intros l Hl. apply in_map_iff in Hl. destruct Hl as (c & <- & Hc). cbv zeta.
  apply all_true_cons.
  - apply forallb_forall. intros ev Hev. destruct (memz (e_action ev) (actions_of_ctx sc c)) eqn:Em; [|reflexivity]. cbn [implb].
    apply memz_in. apply (holder_has sc w before c _ Hb I3 Hc). rewrite Hmain in Hev. apply memz_in in Em.
    exact (frame_targets sc w f c ev I1 I2 Hp Hev Em).
  - destruct (ctx_shared c) eqn:Hsh.
    + destruct (filter (fun e => has_of c e before) (s_ents sc)) as [|h0 rest] eqn:Ehs; [apply all_true_nil|].
      apply all_true_cons; [|apply all_true_nil]. apply forallb_forall. intros e He.
      assert (H0 : holds (w_holds w) c h0) by (apply (has_holder sc w before c h0 Hb); rewrite Ehs; left; reflexivity).
      assert (H1 : holds (w_holds w) c e) by (apply (has_holder sc w before c e Hb); rewrite Ehs; right; exact He).
      pose proof (frame_feq sc w f c e h0 I1 I2 Hp Hsh H1 H0) as F. unfold feq, selq in F. rewrite Hmain, F.
      apply list_eqb_refl, event_eqb_refl.
    + intros k b Hin. apply in_map_iff in Hin. destruct Hin as (e & [= <- <-] & He). apply forallb_forall. intros a Ha.
      destruct (snap_of_entry c e a (x_snaps o)) as [s|] eqn:Es; [|reflexivity]. rewrite Hsn in Es.
      destruct Hb as (_ & _ & Hb3). rewrite (Hb3 c e a). rewrite Hmain, <- Hrec.
      rewrite (frame_own_table sc w f fo c e a s Hinv Hp Hn Hf Hops Hsh Ha Es).
      apply list_eqb_refl, evkind_eqb_refl.
Qed.

(* ================================================================================================ *)
(* 8. judge_reads (clause 4): every probed binding of an exclusive instance reads its own device     *)
(* ================================================================================================ *)
Lemma site_dec (a b : site) : {a = b} + {a <> b}.
Proof. unfold site, device. repeat decide equality. Defined.
Definition p_sites (sc : scenario) : bool :=
  consuming_profile sc ||
  forallb (fun p => forallb (fun q => negb (Z.eqb (fst p) (fst q)) || (if site_dec (snd p) (snd q) then true else false))
                            (cfg_sites sc)) (cfg_sites sc).
Lemma p_sites_fun sc id s s' : consuming_profile sc = false -> p_sites sc = true ->
  In (id, s) (cfg_sites sc) -> In (id, s') (cfg_sites sc) -> s = s'.
Proof.
  unfold p_sites. intros -> H H1 H2. cbn [orb] in H. rewrite forallb_forall in H. specialize (H _ H1). rewrite forallb_forall in H. specialize (H _ H2).
  cbn [fst snd] in H. rewrite Z.eqb_refl in H. cbn [negb orb] in H. destruct (site_dec s s'); [assumption | discriminate].
Qed.
Lemma nonconsuming_of sc : consuming_profile sc = false -> nonconsumingb sc = true.
Proof.
  unfold consuming_profile, nonconsumingb. intros H. apply forallb_forall. intros x Hx. apply forallb_forall. intros s Hs. apply negb_true_iff.
  destruct (aid_consume (a_id s)) eqn:E; [|reflexivity]. exfalso.
  assert (X : existsb (fun x => existsb (fun a => aid_consume (a_id a)) (i_actions (snd x))) (s_cfg sc) = true).
  { apply existsb_exists. exists x. split; [exact Hx|]. apply existsb_exists. exists s. split; assumption. }
  congruence.
Qed.

Lemma judge_reads_sound sc w f fo before o : p_sites sc = true -> (consuming_profile sc = false -> insts_ok sc w) ->
  frame sc w f = Some fo -> x_log o = fo_log fo -> all_true (judge_reads sc f before o).
Proof.
  intros Hdist Hok0 Hf Hlog k b Hin. unfold judge_reads in Hin. destruct (consuming_profile sc) eqn:Hcp; [destruct Hin|]. specialize (Hok0 eq_refl).
  assert (Hl : x_log o = ro_log (reg_update (frame_time f) (f_raw f) (update_state (f_raw f)) (w_reg w))).
  { rewrite Hlog. destruct (frame_parts sc w f fo Hf) as (_ & H & _). exact H. }
  apply in_flat_map in Hin. destruct Hin as ([[c e] spec] & Hcfg & Hin).
  destruct (negb (ctx_shared c) && got_of c e before); [|destruct Hin].
  apply in_flat_map in Hin. destruct Hin as (ab & Hab & Hin). apply in_flat_map in Hin. destruct Hin as (ib & Hib & Hin).
  destruct (ib_mods ib) as [|[id m] rest] eqn:Em; [destruct Hin|]. destruct m; try (destruct Hin).
  destruct outs; [|destruct Hin]. destruct (find_mod id (x_log o)) as [[[vin vo] sn]|] eqn:Efm; [|destruct Hin].
  destruct Hin as [[= <- <-]|[]].
  apply find_mod_in in Efm. rewrite Hl in Efm.
  assert (Hnc : Forall nonconsuming (all_insts (w_reg w))) by (eapply Forall_impl; [|exact Hok0]; intros i [_ H]; exact H).
  destruct (frame_log_sites _ _ _ _ _ Hnc Efm) as (i & Hi & s & Hs & Hread).
  unfold insts_ok in Hok0. rewrite Forall_forall in Hok0. destruct (Hok0 i Hi) as [(c' & e' & Hsites) _].
  assert (Hspec : In (id, Some (i_pad spec, ib_input ib)) (cfg_sites sc)).
  { unfold cfg_sites. apply in_flat_map. exists (c, e, spec). split; [exact Hcfg|]. cbn [snd]. unfold inst_sites.
    apply in_flat_map. exists ab. split; [exact Hab|]. rewrite in_pad_instantiate. unfold ab_sites. apply in_or_app. left.
    apply in_flat_map. exists ib. split; [exact Hib|]. unfold ib_sites, ids_of. rewrite Em. left. reflexivity. }
  assert (Hreg : In (id, s) (cfg_sites sc)).
  { rewrite Hsites in Hs. unfold mk_inst in Hs. destruct (JudgeC07P.cfg_lookup_cases sc c' e') as [E|(x & Hx & E)]; rewrite E in Hs.
    - destruct Hs.
    - unfold cfg_sites. apply in_flat_map. exists x. split; assumption. }
  pose proof (p_sites_fun sc id _ _ Hcp Hdist Hreg Hspec) as ->.
  rewrite (Hread _ _ eq_refl), read_fresh. apply veqb_refl.
Qed.

(* ================================================================================================ *)
(* 9. scripted actions of exclusive instances (clause 5)                                            *)
(* ================================================================================================ *)
Definition scripted_bind (a : aid) (id : Z) (rs : list state) : abind := mkAbind a [] [(id, CScript KExplicit rs)] [].

Lemma action_update_scripted m tm r c dev recips a id rs :
  let o := action_update m tm r c dev recips (scripted_bind a id rs) in
  o_bind o = scripted_bind a id (tl rs) /\ exists d', o_actions o = store a d' m /\ d_state d' = hd SNone rs.
Proof.
  unfold action_update, scripted_bind.
  cbn [ab_id ab_inputs ab_mods ab_conds input_loop apply_mods apply_conds cond_eval cond_kind l_tracker l_buffer l_log t_value].
  cbn [o_bind o_actions]. split; [reflexivity|]. eexists. split; [reflexivity|].
  rewrite (proj1 (data_update_fields _ _ _ _)). destruct rs as [|[| |] rs']; reflexivity.
Qed.

Lemma binds_update_scripted tm r dev recips bs : forall m c, NoDup (map ab_id bs) ->
  forall a id rs, In (scripted_bind a id rs) bs ->
  let '(bs', m', _, _, _) := binds_update m tm r c dev recips bs in
  In (scripted_bind a id (tl rs)) bs' /\ option_map d_state (lookup a m') = Some (hd SNone rs).
Proof.
  induction bs as [|b bs IH]; intros m c Hnd a id rs Hin; [destruct Hin|].
  cbn [binds_update]. cbv zeta. cbn [map] in Hnd. inversion Hnd as [|? ? Hx Hnd']; subst.
  set (o := action_update m tm r c dev recips b).
  pose proof (final_other bs (o_actions o) tm r (o_consumed o) dev recips) as Hfo. unfold final_actions in Hfo.
  specialize (IH (o_actions o) (o_consumed o) Hnd').
  destruct (binds_update (o_actions o) tm r (o_consumed o) dev recips bs) as [[[[rest' m'] c'] ev] lg].
  destruct Hin as [Hb|Hin].
  - subst b. destruct (action_update_scripted m tm r c dev recips a id rs) as (Hb & d' & Hm & Hd). fold o in Hb, Hm.
    split; [left; exact Hb|]. rewrite (Hfo a Hx), Hm, lookup_store_same. cbn [option_map]. rewrite Hd. reflexivity.
  - destruct (IH a id rs Hin) as [I1 I2]. split; [right; exact I1 | exact I2].
Qed.

Definition is_scripted (s : action_spec) (id : Z) (rs : list state) : Prop :=
  a_mods s = [] /\ a_conds s = [(id, CScript KExplicit rs)] /\ a_binds s = [].
(* instance i is its specification evaluated n times, as far as the scripted actions go *)
Definition scripted_at (spec : inst_spec) (n : nat) (i : inst) : Prop :=
  forall s id rs, In s (i_actions spec) -> is_scripted s id rs -> In (scripted_bind (a_id s) id (skipn n rs)) (in_binds i).

Lemma tl_skipn {A} n : forall l : list A, tl (skipn n l) = skipn (S n) l.
Proof.
  induction n as [|n IH]; intros l.
  - destruct l; reflexivity.
  - destruct l as [|x l]; [reflexivity|]. change (skipn (S n) (x :: l)) with (skipn n l). rewrite IH. reflexivity.
Qed.
Lemma hd_skipn {A} (d : A) n : forall l : list A, hd d (skipn n l) = nth n l d.
Proof. induction n as [|n IH]; intros [|x l]; cbn [skipn hd nth]; try reflexivity. apply IH. Qed.

Lemma inst_update_scripted spec n i tm r c recips : NoDup (ids i) -> scripted_at spec n i ->
  let i' := io_inst (inst_update tm r c recips i) in
  scripted_at spec (S n) i' /\
  forall s id rs, In s (i_actions spec) -> is_scripted s id rs ->
    option_map d_state (lookup (a_id s) (in_actions i')) = Some (nth n rs SNone).
Proof.
  intros Hnd Hsc. unfold inst_update.
  pose proof (binds_update_scripted tm r (in_pad i) recips (in_binds i) (in_actions i) c Hnd) as H.
  destruct (binds_update (in_actions i) tm r c (in_pad i) recips (in_binds i)) as [[[[bs m] c'] ev] lg]. cbv zeta. cbn [io_inst in_binds in_actions].
  split; intros s id rs Hs Hk; destruct (H _ _ _ (Hsc s id rs Hs Hk)) as [A B].
  - rewrite <- tl_skipn. exact A.
  - rewrite <- hd_skipn. exact B.
Qed.

(* a freshly built instance: an action named once in the specification is bound exactly as specified *)
Definition once (s : action_spec) (l : list action_spec) : bool := Nat.eqb (length (filter (fun b => Z.eqb (a_id b) (a_id s)) l)) 1.
Lemma filter_nil_none {A} (p : A -> bool) l : filter p l = [] -> forall x, In x l -> p x = false.
Proof.
  induction l as [|y l IH]; intros H x Hx; [destruct Hx|]. cbn [filter] in H. destruct (p y) eqn:E; [discriminate|].
  destruct Hx as [<-|Hx]; [exact E | exact (IH H x Hx)].
Qed.
Lemma extend_keeps s b : forall bs bs', extend s bs = Some bs' -> In b bs -> ab_id b <> a_id s -> In b bs'.
Proof.
  induction bs as [|x bs IH]; intros bs' He Hin Hne; [destruct Hin|]. cbn [extend] in He. destruct (Z.eqb (ab_id x) (a_id s)) eqn:E.
  - injection He as <-. destruct Hin as [->|Hin]; [apply Z.eqb_eq in E; contradiction | right; exact Hin].
  - destruct (extend s bs) as [r|]; [|discriminate]. injection He as <-. destruct Hin as [->|Hin]; [left; reflexivity | right; exact (IH r eq_refl Hin Hne)].
Qed.
Lemma bind_action_keeps i s b : In b (in_binds i) -> ab_id b <> a_id s -> In b (in_binds (bind_action i s)).
Proof.
  intros Hin Hne. unfold bind_action. destruct (extend s (in_binds i)) as [bs|] eqn:Ee; cbn [in_binds].
  - exact (extend_keeps s b _ _ Ee Hin Hne).
  - apply in_or_app. left. exact Hin.
Qed.
Lemma fold_bind_keeps l : forall i b, In b (in_binds i) -> ~ In (ab_id b) (map a_id l) -> In b (in_binds (fold_left bind_action l i)).
Proof.
  induction l as [|s l IH]; intros i b Hin Hn; cbn [fold_left]; [exact Hin|]. cbn [map In] in Hn.
  apply IH; [apply bind_action_keeps; [exact Hin | intros E; apply Hn; left; symmetry; exact E] | tauto].
Qed.
Lemma instantiate_once spec s : In s (i_actions spec) -> once s (i_actions spec) = true ->
  In (mkAbind (a_id s) (a_mods s) (a_conds s) (map ibind_of (a_binds s))) (in_binds (instantiate spec)).
Proof.
  intros Hin Ho. apply in_split in Hin. destruct Hin as (l1 & l2 & E). unfold instantiate. rewrite E in *. clear E.
  unfold once in Ho. rewrite filter_app, app_length in Ho. cbn [filter] in Ho. rewrite Z.eqb_refl in Ho. cbn [length] in Ho.
  apply Nat.eqb_eq in Ho.
  assert (H1 : filter (fun b => Z.eqb (a_id b) (a_id s)) l1 = []) by (apply length_zero_iff_nil; lia).
  assert (H2 : filter (fun b => Z.eqb (a_id b) (a_id s)) l2 = []) by (apply length_zero_iff_nil; lia).
  assert (N1 : ~ In (a_id s) (map a_id l1)).
  { intros H. apply in_map_iff in H. destruct H as (b & Hb & Hbin). pose proof (filter_nil_none _ _ H1 b Hbin) as F. cbv beta in F. rewrite Hb, Z.eqb_refl in F. discriminate. }
  assert (N2 : ~ In (a_id s) (map a_id l2)).
  { intros H. apply in_map_iff in H. destruct H as (b & Hb & Hbin). pose proof (filter_nil_none _ _ H2 b Hbin) as F. cbv beta in F. rewrite Hb, Z.eqb_refl in F. discriminate. }
  rewrite fold_left_app. cbn [fold_left]. set (i1 := fold_left bind_action l1 (mkInst (i_pad spec) [] [])).
  apply fold_bind_keeps; [|exact N2].
  assert (Hids : ~ In (a_id s) (map ab_id (in_binds i1))).
  { unfold i1. rewrite instantiate_order_gen. cbn [in_binds map]. change (~ In (a_id s) (first_occ (map a_id l1))). rewrite in_first_occ. exact N1. }
  unfold bind_action. pose proof (InstanceP.extend_ids s (in_binds i1)) as He. destruct (extend s (in_binds i1)) as [bs|].
  - destruct He as [_ He]. apply memz_in in He. contradiction.
  - cbn [in_binds]. apply in_or_app. right. left. reflexivity.
Qed.

(* ---- the two profile conditions of clause 5 ---- *)
Definition scriptedb (s : action_spec) : bool :=
  match a_mods s, a_conds s, a_binds s with [], [(_, CScript KExplicit _)], [] => true | _, _, _ => false end.
(* a scripted action of an exclusive instance is named once in its specification *)
Definition p_once (sc : scenario) : bool :=
  forallb (fun x => ctx_shared (fst (fst x)) ||
                    forallb (fun s => negb (scriptedb s) || once s (i_actions (snd x))) (i_actions (snd x))) (s_cfg sc).
(* an exclusive (context type, entity) slot is configured once *)
Definition p_keys (sc : scenario) : bool :=
  forallb (fun x => ctx_shared (fst (fst x)) ||
                    Nat.eqb (length (filter (fun y => Z.eqb (fst (fst y)) (fst (fst x)) && Z.eqb (snd (fst y)) (snd (fst x))) (s_cfg sc))) 1)
          (s_cfg sc).

Lemma find_skip {A} (p : A -> bool) l1 x l2 : (forall y, In y l1 -> p y = false) -> p x = true -> find p (l1 ++ x :: l2) = Some x.
Proof.
  induction l1 as [|y l1 IH]; intros H Hx; cbn [app find]; [rewrite Hx; reflexivity|].
  rewrite (H y (or_introl eq_refl)). apply IH; [intros z Hz; apply H; right; exact Hz | exact Hx].
Qed.
Lemma p_keys_lookup sc c e spec : p_keys sc = true -> In (c, e, spec) (s_cfg sc) -> ctx_shared c = false -> cfg_lookup sc c e = spec.
Proof.
  intros Hp Hin Hx. unfold p_keys in Hp. rewrite forallb_forall in Hp. pose proof (Hp _ Hin) as H. cbn [fst snd] in H. rewrite Hx in H. cbn [orb] in H.
  apply Nat.eqb_eq in H. apply in_split in Hin. destruct Hin as (l1 & l2 & E). unfold cfg_lookup. rewrite E in *.
  rewrite filter_app, app_length in H. cbn [filter fst snd] in H. rewrite !Z.eqb_refl in H. cbn [andb length] in H.
  match type of H with (length ?A + _)%nat = _ => assert (H1 : A = []) by (apply length_zero_iff_nil; lia) end.
  rewrite (find_skip _ l1 (c, e, spec) l2); [reflexivity | exact (filter_nil_none _ _ H1) | cbn [fst snd]; rewrite !Z.eqb_refl; reflexivity].
Qed.

Lemma mk_inst_scripted sc c e spec : p_keys sc = true -> p_once sc = true -> In (c, e, spec) (s_cfg sc) -> ctx_shared c = false ->
  scripted_at spec 0 (mk_inst sc c e).
Proof.
  intros Hk Ho Hin Hx. unfold mk_inst. rewrite (p_keys_lookup sc c e spec Hk Hin Hx). intros s id rs Hs (H1 & H2 & H3).
  unfold p_once in Ho. rewrite forallb_forall in Ho. specialize (Ho _ Hin). cbn [fst snd] in Ho. rewrite Hx in Ho. cbn [orb] in Ho.
  rewrite forallb_forall in Ho. specialize (Ho s Hs). assert (Hb : scriptedb s = true) by (unfold scriptedb; rewrite H1, H2, H3; reflexivity).
  rewrite Hb in Ho. cbn [negb orb] in Ho. pose proof (instantiate_once spec s Hs Ho) as H. rewrite H1, H2, H3 in H. exact H.
Qed.

(* ---- judge_own_script, one configuration entry at a time ---- *)
Definition jos_entry (sc : scenario) (is_fr : bool) (before o : out) (xa : ctx * entity * inst_spec * Z) : list (Z * bool) * Z :=
  let '((c, e, spec), age) := xa in
  if ctx_shared c then ([], age) else
  let evaluated := is_fr && got_of c e before in
  let chk := if evaluated then
               flat_map (fun a => match a_mods a, a_conds a, a_binds a with
                                  | [], [(_, CScript KExplicit rs)], [] =>
                                      match snap_of_entry c e (a_id a) (x_snaps o) with
                                      | Some s => if built_here c e o then [] else [(5, state_eqb (sn_state s) (nth (Z.to_nat age) rs SNone))]
                                      | None => []
                                      end
                                  | _, _, _ => []
                                  end) (i_actions spec)
             else [] in
  (chk, if built_here c e o then 0 else if evaluated then age + 1 else age).
Lemma judge_own_script_eq sc is_fr ages before o :
  judge_own_script sc is_fr ages before o =
  (flat_map fst (map (jos_entry sc is_fr before o) (combine (s_cfg sc) ages)), map snd (map (jos_entry sc is_fr before o) (combine (s_cfg sc) ages))).
Proof. reflexivity. Qed.

Lemma map_combine_forall2 {A B C} (R : A -> B -> Prop) (R' : A -> C -> Prop) (F : A * B -> list (Z * bool) * C) l : forall bs,
  Forall2 R l bs -> (forall x b, In x l -> R x b -> all_true (fst (F (x, b))) /\ R' x (snd (F (x, b)))) ->
  all_true (flat_map fst (map F (combine l bs))) /\ Forall2 R' l (map snd (map F (combine l bs))).
Proof.
  induction l as [|x l IH]; intros bs H2 H; inversion H2 as [|? b ? bs' Hxb Hrest]; subst; cbn [combine map flat_map].
  - split; [apply all_true_nil | constructor].
  - destruct (H x b (or_introl eq_refl) Hxb) as [A1 A2].
    destruct (IH bs' Hrest) as [B1 B2]; [intros y c Hy; apply H; right; exact Hy|].
    split; [apply all_true_app; assumption | constructor; assumption].
Qed.

Lemma scripted_case (s : action_spec) (B : list state -> list (Z * bool)) :
  (forall id rs, is_scripted s id rs -> all_true (B rs)) ->
  all_true (match a_mods s, a_conds s, a_binds s with [], [(_, CScript KExplicit rs)], [] => B rs | _, _, _ => [] end).
Proof.
  intros H. destruct (a_mods s) eqn:E1; [|apply all_true_nil]. destruct (a_conds s) as [|[id cd] rest] eqn:E2; [apply all_true_nil|].
  destruct cd; try (apply all_true_nil); try (destruct rest; apply all_true_nil).
  destruct k as [| |?]; try (apply all_true_nil); try (destruct rest; apply all_true_nil).
  destruct rest as [|? ?]; [|apply all_true_nil]. destruct (a_binds s) eqn:E3; [|apply all_true_nil].
  apply (H id results). repeat split; assumption.
Qed.

Definition age_ok (sc : scenario) (w : world) (x : ctx * entity * inst_spec) (age : Z) : Prop :=
  0 <= age /\
  (ctx_shared (fst (fst x)) = false -> forall i, reg_get (fst (fst x)) (snd (fst x)) (w_reg w) = Some i -> scripted_at (snd x) (Z.to_nat age) i).

Lemma built_here_iff c e o : built_here c e o = true <-> In (c, e) (x_built o).
Proof. exact (built_has_iff c e o). Qed.

Lemma jos_op sc w w' before o x age : p_keys sc = true -> p_once sc = true -> xeff sc w w' (x_built o) ->
  In x (s_cfg sc) -> age_ok sc w x age ->
  fst (jos_entry sc false before o (x, age)) = [] /\ age_ok sc w' x (snd (jos_entry sc false before o (x, age))).
Proof.
  intros Hk Ho Hxe Hin [H0 Hsc]. destruct x as [[c e] spec]. cbn [fst snd] in Hsc. unfold jos_entry, age_ok. cbn [fst snd].
  destruct (ctx_shared c) eqn:Hx; cbn [fst snd]; [split; [reflexivity|]; split; [exact H0 | discriminate]|].
  cbn [andb]. split; [reflexivity|]. destruct (built_here c e o) eqn:Eb.
  - split; [lia|]. intros _ i Hg. cbn [Z.to_nat]. destruct (Hxe c e i Hx Hg) as [[_ ->]|[Hn _]].
    + apply (mk_inst_scripted sc c e spec Hk Ho Hin Hx).
    + exfalso. apply Hn. apply built_here_iff. exact Eb.
  - split; [exact H0|]. intros _ i Hg. destruct (Hxe c e i Hx Hg) as [[Hb _]|[_ Hg0]].
    + apply built_here_iff in Hb. congruence.
    + exact (Hsc eq_refl i Hg0).
Qed.

Lemma got_of_bok sc w before c e : bok sc w before -> inv sc w ->
  got_of c e before = match reg_get c e (w_reg w) with Some _ => true | None => false end.
Proof.
  intros (_ & Hg & _) [I1 _ I3 _]. rewrite Hg. unfold gotb. destruct (reg_get c e (w_reg w)) as [i|] eqn:Eg; [|apply andb_false_r].
  pose proof (mirror_some sc w c e i I1 Eg) as Hh. assert (He : In e (s_ents sc)) by (apply I3; eapply holds_live; exact Hh).
  assert (Hc : In c (s_menu sc)).
  { destruct Hh as (cs & H1 & H2). destruct I1 as (_ & _ & _ & _ & _ & Hcs). apply (Hcs e cs H1). apply memz_in. exact H2. }
  apply memz_in in He. apply memz_in in Hc. rewrite He, Hc. reflexivity.
Qed.

Lemma jos_frame sc w f fo before o x age : p_keys sc = true -> p_once sc = true -> inv sc w -> bok sc w before ->
  frame sc w f = Some fo -> x_snaps o = model_snaps sc (fo_world fo) -> x_built o = fo_built fo ->
  In x (s_cfg sc) -> age_ok sc w x age ->
  all_true (fst (jos_entry sc true before o (x, age))) /\ age_ok sc (fo_world fo) x (snd (jos_entry sc true before o (x, age))).
Proof.
  intros Hk Ho Hinv Hb Hf Hsn Hbl Hin [H0 Hsc]. pose proof Hinv as [I1 I2 I3 I4].
  destruct x as [[c e] spec]. cbn [fst snd] in Hsc. unfold jos_entry, age_ok. cbn [fst snd].
  destruct (ctx_shared c) eqn:Hx; cbn [fst snd]; [split; [apply all_true_nil|]; split; [exact H0 | discriminate]|].
  specialize (Hsc eq_refl). cbn [andb]. rewrite (got_of_bok sc w before c e Hb Hinv).
  destruct (frame_parts sc w f fo Hf) as (_ & _ & a & Hr & Hw & _ & Hbu).
  pose proof (run_ops_xeff sc (f_ops f) (mid_world w f) a (mid_world_inv sc w f I1) Hr) as Hxe. rewrite <- Hw, <- Hbu, <- Hbl in Hxe.
  pose proof (reg_update_get (frame_time f) (f_raw f) c e (w_reg w) (update_state (f_raw f))) as Hu.
  destruct (reg_get c e (w_reg w)) as [i|] eqn:Eg.
  - destruct Hu as (c1 & rc & Hu).
    assert (Hnd : NoDup (ids i)) by (eapply TrackOpP.from_cfg_nodup; eapply cfg_inv_get; eassumption).
    destruct (inst_update_scripted spec (Z.to_nat age) i (frame_time f) (f_raw f) c1 rc Hnd (Hsc i eq_refl)) as [Sc St]. cbv zeta in Sc, St.
    set (im := io_inst (inst_update (frame_time f) (f_raw f) c1 rc i)) in *.
    split.
    + apply all_true_flat_map. intros s Hs. apply scripted_case. intros id rs Hk'.
      destruct (snap_of_entry c e (a_id s) (x_snaps o)) as [sn|] eqn:Es; [|apply all_true_nil].
      destruct (built_here c e o) eqn:Eb; [apply all_true_nil|]. apply all_true_cons; [|apply all_true_nil].
      rewrite Hsn in Es. apply snap_found in Es. destruct Es as (_ & _ & _ & _ & Es). unfold snapv in Es.
      destruct (reg_get c e (w_reg (fo_world fo))) as [i'|] eqn:Eg'; [|discriminate].
      destruct (Hxe c e i' Hx Eg') as [[Hbi _]|[_ Hg0]]; [apply built_here_iff in Hbi; congruence|].
      cbn [mid_world w_reg] in Hg0. rewrite Hu in Hg0. injection Hg0 as <-.
      pose proof (St s id rs Hs Hk') as Hst. destruct (lookup (a_id s) (in_actions im)) as [d|]; [|discriminate].
      injection Es as <-. injection Hst as Hst. cbn [snap_of sn_state]. rewrite Hst. apply state_eqb_refl.
    + destruct (built_here c e o) eqn:Eb.
      * split; [lia|]. intros _ i' Hg. cbn [Z.to_nat]. destruct (Hxe c e i' Hx Hg) as [[_ ->]|[Hn _]].
        -- apply (mk_inst_scripted sc c e spec Hk Ho Hin Hx).
        -- exfalso. apply Hn. apply built_here_iff. exact Eb.
      * split; [lia|]. intros _ i' Hg. destruct (Hxe c e i' Hx Hg) as [[Hbi _]|[_ Hg0]]; [apply built_here_iff in Hbi; congruence|].
        cbn [mid_world w_reg] in Hg0. rewrite Hu in Hg0. injection Hg0 as <-.
        replace (Z.to_nat (age + 1)) with (S (Z.to_nat age)) by lia. exact Sc.
  - split; [apply all_true_nil|]. destruct (built_here c e o) eqn:Eb.
    + split; [lia|]. intros _ i' Hg. cbn [Z.to_nat]. destruct (Hxe c e i' Hx Hg) as [[_ ->]|[Hn _]].
      * apply (mk_inst_scripted sc c e spec Hk Ho Hin Hx).
      * exfalso. apply Hn. apply built_here_iff. exact Eb.
    + split; [exact H0|]. intros _ i' Hg. destruct (Hxe c e i' Hx Hg) as [[Hbi _]|[_ Hg0]]; [apply built_here_iff in Hbi; congruence|].
      cbn [mid_world w_reg] in Hg0. rewrite Hu in Hg0. discriminate.
Qed.

(* ================================================================================================ *)
(* 10. judge_rebuild (clause 2 on the closing events of a rebuild)                                  *)
(* ================================================================================================ *)
Lemma trigger_removed_actions tm recips i evs ev : trigger_removed tm recips i = Some evs -> In ev evs -> In (e_action ev) (ids i).
Proof.
  intros H Hin. rewrite (trigger_removed_chunks tm recips i evs H) in Hin. apply in_flat_map in Hin. destruct Hin as (b & Hb & Hin).
  unfold removal_chunk in Hin. destruct (lookup (ab_id b) (in_actions i)); [|destruct Hin]. apply burst_in in Hin. destruct Hin as [-> _].
  unfold ids. apply in_map. exact Hb.
Qed.
Lemma fold_cat_ev_in {B} (f : B -> option (list event)) l : forall acc evs,
  fold_left (fun a x => cat_ev a (f x)) l (Some acc) = Some evs ->
  forall ev, In ev evs -> In ev acc \/ exists x l', In x l /\ f x = Some l' /\ In ev l'.
Proof.
  induction l as [|x l IH]; intros acc evs H ev Hin; cbn [fold_left] in H; [injection H as <-; left; exact Hin|].
  destruct (f x) as [lx|] eqn:Ef; cbn [cat_ev] in H; [|rewrite fold_cat_ev_none in H; discriminate].
  destruct (IH _ _ H ev Hin) as [Ha|(y & l' & Hy & Hf & Hl)].
  - apply in_app_or in Ha. destruct Ha as [Ha|Ha]; [left; exact Ha|]. right. exists x, lx. repeat split; [left; reflexivity | exact Ef | exact Ha].
  - right. exists y, l'. repeat split; [right; exact Hy | exact Hf | exact Hl].
Qed.
Lemma regroup_events_actions tm g evs ev : regroup_events tm g = Some evs -> In ev evs -> exists i, In i (g_insts g) /\ In (e_action ev) (ids i).
Proof.
  destruct g as [cx p insts|cx p ents i]; cbn [regroup_events g_insts]; intros H Hin.
  - destruct (fold_cat_ev_in (fun ei : entity * inst => trigger_removed tm [fst ei] (snd ei)) insts [] evs H ev Hin) as [[]|(ei & l' & Hei & Hf & Hl)].
    exists (snd ei). split; [apply in_map; exact Hei | exact (trigger_removed_actions tm _ _ l' ev Hf Hl)].
  - exists i. split; [left; reflexivity | exact (trigger_removed_actions tm ents i evs ev H Hin)].
Qed.

Lemma rebuild_events_feq sc c e1 e2 w c1 tm r1 evs : reg_inv sc w -> cfg_inv sc (w_reg w) -> p_acts sc = true -> ctx_shared c = true ->
  holds (w_holds w) c e1 -> holds (w_holds w) c e2 ->
  reg_rebuild (mk_inst sc c1) tm c1 (w_reg w) = Some (r1, Some evs) -> feq (actions_of_ctx sc c) e1 e2 evs.
Proof.
  intros I1 I2 Hp Hsh H1 H2 Hrb. destruct (index_of c1 (w_reg w)) as [n|] eqn:Ei.
  2:{ rewrite (reg_rebuild_absent _ _ _ _ Ei) in Hrb. injection Hrb as _ <-. apply feq_nil. }
  destruct (index_of_some c1 (w_reg w) n Ei) as (l1 & g & l2 & Er & Hl & Hc & Hn).
  assert (Hg : In g (w_reg w)) by (rewrite Er; apply in_or_app; right; left; reflexivity).
  destruct (inv_group_ok sc w g I1 Hg) as (_ & Hshared & Hne & Hnd & _).
  rewrite Er in Hrb. destruct (reg_rebuild_form _ _ _ _ _ _ _ _ Hn Hc Hne Hrb) as (_ & Hev). symmetry in Hev.
  destruct (Z.eq_dec c1 c) as [->|Hcne].
  - rewrite Hc, Hsh in Hshared. destruct g as [cx p insts|cx p ents i]; cbn [g_shared] in Hshared; [discriminate|].
    cbn [regroup_events] in Hev. rewrite (trigger_removed_chunks _ _ _ _ Hev). apply feq_flat_map. intros b _. unfold removal_chunk.
    destruct (lookup (ab_id b) (in_actions i)); [|apply feq_nil]. apply feq_burst. intros _. cbn [g_ents] in Hnd. split; [exact Hnd|].
    cbn [g_ctx] in Hc. subst cx. split; apply (inv_holds_group sc w _ I1 Hg); assumption.
  - apply feq_other. intros ev Hev' Hin. destruct (regroup_events_actions tm g evs ev Hev Hev') as (i & Hi & Ha).
    specialize (I2 g Hg). rewrite Forall_forall in I2. destruct (from_cfg_ids sc (g_ctx g) i (I2 i Hi)) as (e' & Hids). rewrite Hids in Ha.
    apply mk_inst_ids_acts in Ha. rewrite Hc in Ha. apply Hcne. exact (p_acts_unique sc c1 c _ Hp Ha Hin).
Qed.

Lemma rebuild_fold_feq sc c e1 e2 : p_acts sc = true -> ctx_shared c = true -> forall cs acc acc',
  reg_inv sc (oo_world acc) -> cfg_inv sc (w_reg (oo_world acc)) ->
  holds (w_holds (oo_world acc)) c e1 -> holds (w_holds (oo_world acc)) c e2 ->
  fold_left (rebuild_f sc) cs (Some acc) = Some acc' ->
  feq (actions_of_ctx sc c) e1 e2 (oo_events acc) -> feq (actions_of_ctx sc c) e1 e2 (oo_events acc').
Proof.
  intros Hp Hsh. induction cs as [|c1 cs IH]; intros acc acc' Hinv Hcfg H1 H2 Hf F; cbn [fold_left] in Hf; [injection Hf as <-; exact F|].
  destruct (rebuild_fold_inv sc [c1] acc Hinv) as (a1 & Ha1 & Hinv1). change (fold_left (rebuild_f sc) [c1] (Some acc) = Some a1) in Ha1.
  cbn [fold_left] in Ha1. rewrite Ha1 in Hf. cbn [rebuild_f] in Ha1. cbv zeta in Ha1.
  destruct (reg_rebuild (mk_inst sc c1) (w_time (oo_world acc)) c1 (w_reg (oo_world acc))) as [[r1 [evs|]]|] eqn:Er; try discriminate.
  pose proof (proj1 (reg_inv_alt sc _) Hinv) as (Hwf & _).
  destruct (rebuild_step sc 0 0 (unused sc) _ c1 _ r1 evs Hwf Hcfg (unused_owner sc) Er) as (S1 & _).
  pose proof (rebuild_events_feq sc c e1 e2 _ c1 _ r1 evs Hinv Hcfg Hp Hsh H1 H2 Er) as Fe.
  injection Ha1 as <-.
  match type of Hf with fold_left _ _ (Some ?x) = _ => set (acc1 := x) in * end.
  apply (IH acc1 acc'); [exact Hinv1 | exact S1 | exact H1 | exact H2 | exact Hf|]. unfold acc1. cbn [oo_events]. apply feq_app; assumption.
Qed.

Lemma got_holder sc w before c e : bok sc w before -> reg_inv sc w -> got_of c e before = true -> holds (w_holds w) c e.
Proof.
  intros (_ & Hg & _) I1 H. rewrite Hg in H. apply andb_true_iff in H. destruct H as [_ H]. rewrite (gotb_holdsb sc w c e I1) in H.
  apply holdsb_iff. exact H.
Qed.

Lemma judge_rebuild_sound sc w oo before o : inv sc w -> bok sc w before -> p_acts sc = true ->
  apply_op sc w ORebuild = Some oo -> x_main o = oo_events oo -> all_true (judge_rebuild sc before o).
Proof.
  intros [I1 I2 _ _] Hb Hp Hop Hmain. unfold judge_rebuild. apply all_true_flat_map. intros c Hc. destruct (ctx_shared c) eqn:Hsh; [|apply all_true_nil].
  cbv zeta. destruct (filter (fun e => got_of c e before && got_of c e o) (s_ents sc)) as [|h0 rest] eqn:Ehs; [apply all_true_nil|].
  apply all_true_cons; [|apply all_true_nil]. apply forallb_forall. intros e He.
  assert (Hh : forall x, In x (h0 :: rest) -> holds (w_holds w) c x).
  { intros x Hx. rewrite <- Ehs in Hx. apply filter_In in Hx. destruct Hx as [_ Hx]. apply andb_true_iff in Hx. exact (got_holder sc w before c x Hb I1 (proj1 Hx)). }
  change (fold_left (rebuild_f sc) (s_menu sc) (Some (mkOpOut w [] [])) = Some oo) in Hop.
  pose proof (rebuild_fold_feq sc c e h0 Hp Hsh (s_menu sc) (mkOpOut w [] []) oo I1 I2 (Hh e (or_intror He)) (Hh h0 (or_introl eq_refl)) Hop
                (feq_nil _ _ _)) as F.
  unfold feq, selq in F. rewrite Hmain, F. apply list_eqb_refl, event_eqb_refl.
Qed.

(* ================================================================================================ *)
(* 11. all steps                                                                                    *)
(* ================================================================================================ *)
Record prof (sc : scenario) : Prop := mkProf {
  pf_acts : p_acts sc = true; pf_noevb : p_noevb sc = true; pf_keys : p_keys sc = true; pf_once : p_once sc = true;
  pf_sites : p_sites sc = true }.

Definition ages_ok (sc : scenario) (w : world) (ages : list Z) : Prop := Forall2 (age_ok sc w) (s_cfg sc) ages.

Lemma judge_steps_sound sc : prof sc -> forall steps w before ages,
  forallb (step_okb sc) steps = true -> inv sc w -> (consuming_profile sc = false -> insts_ok sc w) -> bok sc w before -> ages_ok sc w ages ->
  all_true (judge_steps sc ages before steps (run_steps sc w steps)).
Proof.
  intros [Pa Pn Pk Po Ps]. induction steps as [|st steps IH]; intros w before ages Hok Hinv Hio Hb Hag; [apply all_true_nil|].
  cbn [forallb] in Hok. apply andb_true_iff in Hok. destruct Hok as [Hok1 Hok].
  rewrite run_steps_cons. destruct (step_res_inv' sc w st Hok1 Hinv) as (w' & o & Hs & Hinv' & Hsh). rewrite Hs.
  pose proof Hinv as [I1 I2 I3 I4].
  assert (Hio' : consuming_profile sc = false -> insts_ok sc w').
  { intros Hcp. exact (step_res_insts sc (mk_inst_from_spec sc (nonconsuming_of sc Hcp)) w st w' o I1 Hs (Hio Hcp)). }
  pose proof (shows_bok sc w' o Hsh) as Hb'. destruct st as [op|f]; cbn [judge_steps]; rewrite judge_own_script_eq.
  - cbn [step_res] in Hs. destruct (apply_op sc w op) as [oo|] eqn:Eo; [|discriminate]. injection Hs as Ew Eo'.
    destruct (map_combine_forall2 (age_ok sc w) (age_ok sc w') (jos_entry sc false before o) (s_cfg sc) ages Hag) as [_ Hag'].
    { intros x age Hx Hxa. destruct (jos_op sc w w' before o x age Pk Po) as [E1 E2]; [|exact Hx | exact Hxa|].
      - rewrite <- Ew, <- Eo'. cbn [x_built]. exact (apply_op_xeff sc w op oo I1 Eo).
      - rewrite E1. split; [apply all_true_nil | exact E2]. }
    apply all_true_cons; [destruct Hsh as (_ & _ & ->); reflexivity|]. apply IH; assumption.
  - cbn [step_res] in Hs. destruct (frame sc w f) as [fo|] eqn:Ef; [|discriminate]. injection Hs as Ew Eo'.
    assert (Eo2 : x_main o = fo_main fo /\ x_log o = fo_log fo /\ x_snaps o = model_snaps sc (fo_world fo) /\ x_built o = fo_built fo)
      by (rewrite <- Eo'; repeat split).
    destruct Eo2 as (Em & El & Esn & Ebl).
    destruct (map_combine_forall2 (age_ok sc w) (age_ok sc w') (jos_entry sc true before o) (s_cfg sc) ages Hag) as [Hchk Hag'].
    { intros x age Hx Hxa. rewrite <- Ew. exact (jos_frame sc w f fo before o x age Pk Po Hinv Hb Ef Esn Ebl Hx Hxa). }
    apply all_true_cons; [destruct Hsh as (_ & _ & ->); reflexivity|]. apply all_true_app; [|apply all_true_app; [|apply all_true_app]].
    + destruct (f_ops f) eqn:Eops; [|apply all_true_nil]. exact (judge_frame_sound sc w f fo before o Hinv Hb Pa Pn Ef Eops Em Esn).
    + exact (judge_reads_sound sc w f fo before o Ps Hio Ef El).
    + exact Hchk.
    + apply IH; assumption.
Qed.

Lemma judge_ops_sound sc : p_acts sc = true -> forall steps w before,
  forallb (step_okb sc) steps = true -> inv sc w -> bok sc w before ->
  all_true (judge_ops sc before steps (run_steps sc w steps)).
Proof.
  intros Pa. induction steps as [|st steps IH]; intros w before Hok Hinv Hb; [apply all_true_nil|].
  cbn [forallb] in Hok. apply andb_true_iff in Hok. destruct Hok as [Hok1 Hok].
  rewrite run_steps_cons. destruct (step_res_inv' sc w st Hok1 Hinv) as (w' & o & Hs & Hinv' & Hsh). rewrite Hs.
  pose proof (shows_bok sc w' o Hsh) as Hb'.
  assert (Hrest : all_true (judge_ops sc o steps (run_steps sc w' steps))) by (apply IH; assumption).
  destruct st as [[e cs|e c|e c|e|]|f]; cbn [judge_ops]; try exact Hrest.
  apply all_true_app; [|exact Hrest]. cbn [step_res] in Hs. destruct (apply_op sc w ORebuild) as [oo|] eqn:Eo; [|discriminate].
  injection Hs as Ew Eo'. apply (judge_rebuild_sound sc w oo before o Hinv Hb Pa Eo). rewrite <- Eo'. reflexivity.
Qed.

(* ================================================================================================ *)
(* 12. the profile and the theorems                                                                 *)
(* ================================================================================================ *)
(* the class of scenarios C14.py generates, as far as clauses 1-5, 8, 9 need it: spawned entities are declared slots; an
   action id belongs to one context type; no events-only blockers in exclusive types; an exclusive slot is configured once and names each of its
   scripted actions once; (if nothing consumes) a modifier's log id determines which device and input its binding reads *)
Definition profile_C14_upto5b (sc : scenario) : bool :=
  spawns_declared sc && p_acts sc && p_noevb sc && p_keys sc && p_once sc && p_sites sc.
Definition profile_C14_upto5 (sc : scenario) : Prop := profile_C14_upto5b sc = true.
(* clause 6 hands the consuming scenarios to the judgement of C05: the full statement is for the others *)
Definition profile_C14b (sc : scenario) : bool := profile_C14_upto5b sc && negb (consuming_profile sc).
Definition profile_C14 (sc : scenario) : Prop := profile_C14b sc = true.

Definition clause_list (sc : scenario) : list (Z * bool) :=
  judge_steps sc (map (fun _ => 0) (s_cfg sc)) out0 (s_steps sc) (run sc) ++ judge_ops sc out0 (s_steps sc) (run sc).

Lemma profile_upto5_parts sc : profile_C14_upto5 sc -> spawns_declared sc = true /\ prof sc.
Proof.
  unfold profile_C14_upto5, profile_C14_upto5b. intros H. repeat (apply andb_true_iff in H; destruct H as [H ?]). split; [exact H|]. constructor; assumption.
Qed.

(* every clause of the two passes holds on the model's own run *)
Theorem C14_app_clauses_sound : forall sc, profile_C14_upto5 sc -> all_true (clause_list sc).
Proof.
  intros sc Hp. destruct (profile_upto5_parts sc Hp) as [Hsp Hpf]. unfold clause_list, run. apply all_true_app.
  - apply (judge_steps_sound sc Hpf (s_steps sc) world_init out0 _ Hsp (inv_init sc)); [intros _; apply insts_ok_init | apply init_bok|].
    unfold ages_ok. induction (s_cfg sc) as [|x l IHl]; cbn [map]; constructor; [|exact IHl].
    split; [lia|]. intros _ i H. discriminate.
  - apply (judge_ops_sound sc (pf_acts sc Hpf) (s_steps sc) world_init out0 Hsp (inv_init sc) (init_bok sc)).
Qed.

Lemma ok_unfold sc outs : ok (sc, trace outs) =
  let r := first_fail (judge_steps sc (map (fun _ => 0) (s_cfg sc)) out0 (s_steps sc) outs ++ judge_ops sc out0 (s_steps sc) outs) in
  if negb (Z.eqb r 0) then r else if consuming_profile sc then (if Z.eqb (Check.C05c.ok5 (sc, trace outs)) 0 then 0 else 6) else 0.
Proof. reflexivity. Qed.

(* modulo the judgement of C05 on consuming scenarios *)
Theorem C14_app_judgement_sound_mod_C05 : forall sc, profile_C14_upto5 sc ->
  (consuming_profile sc = true -> Check.C05c.ok5 (sc, trace (run sc)) = 0) -> ok (sc, trace (run sc)) = 0.
Proof.
  intros sc Hp H5. rewrite ok_unfold. cbv zeta. fold (clause_list sc).
  rewrite (first_fail_all_true _ (C14_app_clauses_sound sc Hp)). cbn [Z.eqb negb].
  destruct (consuming_profile sc); [rewrite (H5 eq_refl); reflexivity | reflexivity].
Qed.

Theorem C14_app_judgement_sound : forall sc, profile_C14 sc -> ok (sc, trace (run sc)) = 0.
Proof.
  intros sc H. unfold profile_C14, profile_C14b in H. apply andb_true_iff in H. destruct H as [H1 H2]. apply negb_true_iff in H2.
  apply (C14_app_judgement_sound_mod_C05 sc H1). rewrite H2. discriminate.
Qed.

(* ================================================================================================ *)
(* 13. the profile is satisfiable; each of its conditions is needed                                 *)
(* ================================================================================================ *)
Definition ex_fr (r : raw) (ops : list op) : step := SFrame (mkFrame (1#64) 1 false 0 r ops).
Definition ex_rw (pads : list pad) : raw := mkRaw [] [] (0%Q, 0%Q) (0%Q, 0%Q) pads [].
Definition ex_scr (id : Z) (rs : list state) : list (Z * cond) := [(id, c_script KExplicit rs)].
(* an exclusive type (0): per entity a scripted action and a probed gamepad button on the entity's own gamepad;
   a shared type (1) with one scripted action; joins, a rebuild, removals through Commands, despawn and respawn in one frame *)
Definition ex_xspec (e : Z) (rs : list state) : inst_spec :=
  mkSpec (Some e) [mkAction 0 [] (ex_scr (10 * e + 1) rs) []; mkAction 4 [] [] [mkBind (IPadButton 0) [(10 * e + 2, MScript [])] []]].
Definition ex_sspec : inst_spec := mkSpec None [mkAction 16 [] (ex_scr 7 [SFired; SNone; SOngoing; SFired; SFired; SNone; SOngoing; SNone]) []].
Definition ex_sc : scenario := mkScenario [0; 1] [0; 1; 2]
  [((0, 0), ex_xspec 0 [SNone; SOngoing; SFired; SFired; SNone; SFired; SNone; SNone]);
   ((0, 1), ex_xspec 1 [SFired; SFired; SNone; SOngoing; SOngoing; SNone; SFired; SNone]);
   ((0, 2), ex_xspec 2 [SOngoing; SNone; SNone; SFired; SNone; SOngoing; SFired; SNone]);
   ((1, 0), ex_sspec); ((1, 1), ex_sspec); ((1, 2), ex_sspec)]
  [SOp (OSpawn 0 [0; 1]); SOp (OSpawn 1 [1]); SOp (OSpawn 2 [0; 1]);
   ex_fr (ex_rw [mkPad 0 [] []; mkPad 1 [] []; mkPad 2 [] []]) [];
   ex_fr (ex_rw [mkPad 0 [0] []; mkPad 1 [] []; mkPad 2 [] []]) [];
   SOp (OInsert 1 0);
   ex_fr (ex_rw [mkPad 0 [] []; mkPad 1 [0] []; mkPad 2 [0] []]) [];
   SOp ORebuild;
   ex_fr (ex_rw [mkPad 0 [0] []; mkPad 1 [] []; mkPad 2 [] []]) [ORemove 0 1];
   ex_fr (ex_rw [mkPad 0 [] []; mkPad 1 [] []; mkPad 2 [0] []]) [];
   SOp (ODespawn 2);
   ex_fr (ex_rw [mkPad 0 [] []; mkPad 1 [0] []; mkPad 2 [] []]) [ODespawn 1; OSpawn 1 [0]];
   ex_fr (ex_rw [mkPad 0 [] []; mkPad 1 [0] []; mkPad 2 [] []]) []].

(* in the profile; accepted; an event Fired reaches the third entity; the clauses 1, 2, 3, 4, 5, 8 are all exercised *)
Example C14_app_judgement_sound_satisfiable :
  profile_C14 ex_sc /\ ok (ex_sc, trace (run ex_sc)) = 0 /\
  existsb (fun o => existsb (fun ev => match e_kind ev with EFired => Z.eqb (e_target ev) 2 | _ => false end) (x_main o)) (run ex_sc) = true /\
  forallb (fun k => memz k (map fst (clause_list ex_sc))) [1; 2; 3; 4; 5; 8] = true.
Proof. vm_compute. repeat split. Qed.

(* each line: (spawns_declared, p_acts, p_noevb, p_keys, p_once, p_sites, no consuming action) and the verdict on the model's own run *)
Definition ex_parts (sc : scenario) :=
  (spawns_declared sc, p_acts sc, p_noevb sc, p_keys sc, p_once sc, p_sites sc, negb (consuming_profile sc)).
(* an entity outside the declared slots joins a shared context: it receives events, the polled holders do not list it *)
Example C14_app_judgement_sound_needs_spawns_declared :
  let sc := mkScenario [1] [0] [((1, 0), mkSpec None [mkAction 0 [] (ex_scr 1 [SFired]) []])]
              [SOp (OSpawn 0 [1]); SOp (OSpawn 5 [1]); ex_fr (ex_rw []) []] in
  ex_parts sc = (false, true, true, true, true, true, true) /\ ok (sc, trace (run sc)) = 1.
Proof. vm_compute. split; reflexivity. Qed.
(* one action id in two context types: the events of the other type go to entities that do not hold this one *)
Example C14_app_judgement_sound_needs_p_acts :
  let sc := mkScenario [0; 1] [0; 1]
              [((0, 0), mkSpec None [mkAction 0 [] (ex_scr 1 [SNone]) []]); ((1, 1), mkSpec None [mkAction 0 [] (ex_scr 2 [SFired]) []])]
              [SOp (OSpawn 0 [0]); SOp (OSpawn 1 [1]); ex_fr (ex_rw []) []] in
  ex_parts sc = (true, false, true, true, true, true, true) /\ ok (sc, trace (run sc)) = 1.
Proof. vm_compute. split; reflexivity. Qed.
(* an events-only blocker: the state moves, the events of the transition are withheld *)
Example C14_app_judgement_sound_needs_p_noevb :
  let sc := mkScenario [0] [0]
              [((0, 0), mkSpec None [mkAction 0 [] [(1, c_script KExplicit [SFired]); (2, c_script (KBlocker true) [SNone])] []])]
              [SOp (OSpawn 0 [0]); ex_fr (ex_rw []) []] in
  ex_parts sc = (true, true, false, true, true, true, true) /\ ok (sc, trace (run sc)) = 3.
Proof. vm_compute. split; reflexivity. Qed.
(* an exclusive slot configured twice: the instance is built from the first entry, clause 5 also reads the second *)
Example C14_app_judgement_sound_needs_p_keys :
  let sc := mkScenario [0] [0]
              [((0, 0), mkSpec None [mkAction 0 [] (ex_scr 1 [SNone; SNone]) []]); ((0, 0), mkSpec None [mkAction 0 [] (ex_scr 1 [SFired; SFired]) []])]
              [SOp (OSpawn 0 [0]); ex_fr (ex_rw []) []] in
  ex_parts sc = (true, true, true, false, true, true, true) /\ ok (sc, trace (run sc)) = 5.
Proof. vm_compute. split; reflexivity. Qed.
(* a scripted action named twice: the two scripts are merged into one binding, neither is followed alone *)
Example C14_app_judgement_sound_needs_p_once :
  let sc := mkScenario [0] [0]
              [((0, 0), mkSpec None [mkAction 0 [] (ex_scr 1 [SFired]) []; mkAction 0 [] (ex_scr 2 [SNone]) []])]
              [SOp (OSpawn 0 [0]); ex_fr (ex_rw []) []] in
  ex_parts sc = (true, true, true, true, false, true, true) /\ ok (sc, trace (run sc)) = 5.
Proof. vm_compute. split; reflexivity. Qed.
(* two probes with one log id on different gamepads: the judgement finds the first one for both entities *)
Example C14_app_judgement_sound_needs_p_sites :
  let sc := mkScenario [0] [0; 1]
              [((0, 0), mkSpec (Some 0) [mkAction 0 [] [] [mkBind (IPadButton 0) [(1, MScript [])] []]]);
               ((0, 1), mkSpec (Some 1) [mkAction 0 [] [] [mkBind (IPadButton 0) [(1, MScript [])] []]])]
              [SOp (OSpawn 0 [0]); SOp (OSpawn 1 [0]); ex_fr (ex_rw [mkPad 0 [] []; mkPad 1 [] []]) []; ex_fr (ex_rw [mkPad 0 [0] []; mkPad 1 [] []]) []] in
  ex_parts sc = (true, true, true, true, true, false, true) /\ ok (sc, trace (run sc)) = 4.
Proof. vm_compute. split; reflexivity. Qed.
(* a consuming scenario is outside profile_C14 (clause 6 is the judgement of C05) but inside profile_C14_upto5 *)
Example C14_consuming_example :
  let sc := mkScenario [0] [0; 1]
              [((0, 0), mkSpec (Some 0) [mkAction 2 [] [] [mkBind (IPadButton 0) [(1, MScript [])] []]]);
               ((0, 1), mkSpec (Some 1) [mkAction 2 [] [] [mkBind (IPadButton 0) [(2, MScript [])] []]])]
              [SOp (OSpawn 0 [0]); SOp (OSpawn 1 [0]); ex_fr (ex_rw [mkPad 0 [] []; mkPad 1 [] []]) []; ex_fr (ex_rw [mkPad 0 [0] []; mkPad 1 [0] []]) []] in
  ex_parts sc = (true, true, true, true, true, true, false) /\ profile_C14_upto5b sc = true /\ ok (sc, trace (run sc)) = 0.
Proof. vm_compute. repeat split. Qed.

(* why profile_C14 excludes consuming scenarios (and the _mod_C05 statements carry the premise on ok5): clause 6 is the
   judgement of C05, which takes the holders of an exclusive type to be evaluated in slot order; here entity 1 is spawned
   before entity 0, both read any gamepad and consume the same button - the model's own run is rejected by clause 6.
   (C14.py's consuming family spawns in slot order and ties every instance to its own gamepad.) *)
Example C14_app_judgement_sound_needs_nonconsuming :
  let spec := fun id => mkSpec None [mkAction 2 [] [] [mkBind (IPadButton 0) [(id, MScript [])] []]] in
  let sc := mkScenario [2] [0; 1] [((2, 0), spec 1); ((2, 1), spec 2)]
              [SOp (OSpawn 1 [2]); SOp (OSpawn 0 [2]); ex_fr (ex_rw [mkPad 0 [] []]) []; ex_fr (ex_rw [mkPad 0 [0] []]) []] in
  ex_parts sc = (true, true, true, true, true, true, false) /\ profile_C14_upto5b sc = true /\
  Check.C05c.ok5 (sc, trace (run sc)) = 2 /\ ok (sc, trace (run sc)) = 6.
Proof. vm_compute. repeat split. Qed.

(* ================================================================================================ *)
(* 14. (T) transfer: the judgement respects the equalities agree_full uses                          *)
(* ================================================================================================ *)
(* ---- the comparisons are equivalences ---- *)
Lemma veq_sym a b : veq a b -> veq b a.
Proof. destruct a, b; cbn [veq]; try tauto; intuition (symmetry; assumption). Qed.
Lemma veq_trans a b c : veq a b -> veq b c -> veq a c.
Proof.
  destruct a, b, c; cbn [veq]; try tauto.
  - congruence.
  - intros H1 H2. rewrite H1. exact H2.
  - intros [A1 A2] [B1 B2]. split; [rewrite A1; exact B1 | rewrite A2; exact B2].
  - intros (A1 & A2 & A3) (B1 & B2 & B3). repeat split; [rewrite A1; exact B1 | rewrite A2; exact B2 | rewrite A3; exact B3].
Qed.
Lemma veqb_sym a b : veqb a b = true -> veqb b a = true.
Proof. rewrite !veqb_veq. apply veq_sym. Qed.
Lemma veqb_trans a b c : veqb a b = true -> veqb b c = true -> veqb a c = true.
Proof. rewrite !veqb_veq. apply veq_trans. Qed.
Lemma qeqb_sym a b : qeqb a b = true -> qeqb b a = true.
Proof. unfold qeqb. rewrite !Qeq_bool_iff. intros H. symmetry. exact H. Qed.
Lemma qeqb_trans a b c : qeqb a b = true -> qeqb b c = true -> qeqb a c = true.
Proof. unfold qeqb. rewrite !Qeq_bool_iff. intros H1 H2. rewrite H1. exact H2. Qed.
Lemma oq_eqb_sym a b : oq_eqb a b = true -> oq_eqb b a = true.
Proof. destruct a, b; cbn [oq_eqb]; try discriminate; [apply qeqb_sym | reflexivity]. Qed.
Lemma oq_eqb_trans a b c : oq_eqb a b = true -> oq_eqb b c = true -> oq_eqb a c = true.
Proof. destruct a, b, c; cbn [oq_eqb]; try discriminate; [apply qeqb_trans | reflexivity]. Qed.
Lemma state_eqb_true a b : state_eqb a b = true -> a = b.
Proof. destruct a, b; cbn; congruence. Qed.
Lemma evkind_eqb_true a b : evkind_eqb a b = true -> a = b.
Proof. destruct a, b; cbn; congruence. Qed.

Lemma event_eqb_fields a b : event_eqb a b = true ->
  e_target a = e_target b /\ e_action a = e_action b /\ e_kind a = e_kind b /\ veqb (e_value a) (e_value b) = true /\
  e_state a = e_state b /\ oq_eqb (e_elapsed a) (e_elapsed b) = true /\ oq_eqb (e_fired a) (e_fired b) = true.
Proof.
  unfold event_eqb. intros H. repeat (apply andb_true_iff in H; let H' := fresh "E" in destruct H as [H H']).
  apply Z.eqb_eq in H. apply Z.eqb_eq in E4. apply evkind_eqb_true in E3. apply state_eqb_true in E1. repeat split; assumption.
Qed.
Lemma event_eqb_of a b : e_target a = e_target b -> e_action a = e_action b -> e_kind a = e_kind b -> veqb (e_value a) (e_value b) = true ->
  e_state a = e_state b -> oq_eqb (e_elapsed a) (e_elapsed b) = true -> oq_eqb (e_fired a) (e_fired b) = true -> event_eqb a b = true.
Proof.
  intros H1 H2 H3 H4 H5 H6 H7. unfold event_eqb. rewrite H1, H2, H3, H4, H5, H6, H7, !Z.eqb_refl, evkind_eqb_refl, state_eqb_refl. reflexivity.
Qed.
Lemma event_eqb_sym a b : event_eqb a b = true -> event_eqb b a = true.
Proof.
  intros H. apply event_eqb_fields in H. destruct H as (H1 & H2 & H3 & H4 & H5 & H6 & H7).
  apply event_eqb_of; try (symmetry; assumption); [apply veqb_sym | apply oq_eqb_sym | apply oq_eqb_sym]; assumption.
Qed.
Lemma event_eqb_trans a b c : event_eqb a b = true -> event_eqb b c = true -> event_eqb a c = true.
Proof.
  intros H G. apply event_eqb_fields in H. apply event_eqb_fields in G.
  destruct H as (H1 & H2 & H3 & H4 & H5 & H6 & H7). destruct G as (G1 & G2 & G3 & G4 & G5 & G6 & G7).
  apply event_eqb_of; try congruence; [eapply veqb_trans | eapply oq_eqb_trans | eapply oq_eqb_trans]; eassumption.
Qed.

(* ---- lists compared elementwise ---- *)
Section ListRel.
  Context {A : Type} (R : A -> A -> bool).
  Hypothesis Rsym : forall a b, R a b = true -> R b a = true.
  Hypothesis Rtrans : forall a b c, R a b = true -> R b c = true -> R a c = true.

  Lemma list_eqb_sym : forall l l', list_eqb R l l' = true -> list_eqb R l' l = true.
  Proof.
    induction l as [|x l IH]; intros [|y l'] H; cbn [list_eqb] in *; try discriminate; [reflexivity|].
    apply andb_true_iff in H. destruct H as [H1 H2]. rewrite (Rsym _ _ H1), (IH _ H2). reflexivity.
  Qed.
  Lemma list_eqb_trans : forall l1 l2 l3, list_eqb R l1 l2 = true -> list_eqb R l2 l3 = true -> list_eqb R l1 l3 = true.
  Proof.
    induction l1 as [|x l1 IH]; intros [|y l2] [|z l3] H G; cbn [list_eqb] in *; try discriminate; [reflexivity|].
    apply andb_true_iff in H. apply andb_true_iff in G. destruct H as [H1 H2]. destruct G as [G1 G2].
    rewrite (Rtrans _ _ _ H1 G1), (IH _ _ H2 G2). reflexivity.
  Qed.
  Lemma list_eqb_equiv a a' b b' : list_eqb R a a' = true -> list_eqb R b b' = true -> list_eqb R a b = list_eqb R a' b'.
  Proof.
    intros Ha Hb. destruct (list_eqb R a b) eqn:E1; destruct (list_eqb R a' b') eqn:E2; try reflexivity.
    - rewrite (list_eqb_trans _ _ _ (list_eqb_trans _ _ _ (list_eqb_sym _ _ Ha) E1) Hb) in E2. discriminate.
    - rewrite (list_eqb_trans _ _ _ (list_eqb_trans _ _ _ Ha E2) (list_eqb_sym _ _ Hb)) in E1. discriminate.
  Qed.
  Lemma filter_rel (p : A -> bool) : (forall a b, R a b = true -> p a = p b) ->
    forall l l', list_eqb R l l' = true -> list_eqb R (filter p l) (filter p l') = true.
  Proof.
    intros Hp. induction l as [|x l IH]; intros [|y l'] H; cbn [list_eqb] in H; try discriminate; [reflexivity|].
    apply andb_true_iff in H. destruct H as [H1 H2]. cbn [filter]. rewrite (Hp _ _ H1). destruct (p y); [cbn [list_eqb]; rewrite H1|]; apply IH; exact H2.
  Qed.
  Lemma forallb_rel (p : A -> bool) : (forall a b, R a b = true -> p a = p b) ->
    forall l l', list_eqb R l l' = true -> forallb p l = forallb p l'.
  Proof.
    intros Hp. induction l as [|x l IH]; intros [|y l'] H; cbn [list_eqb] in H; try discriminate; [reflexivity|].
    apply andb_true_iff in H. destruct H as [H1 H2]. cbn [forallb]. rewrite (Hp _ _ H1), (IH _ H2). reflexivity.
  Qed.
  Lemma map_rel_eq {B} (f : A -> B) : (forall a b, R a b = true -> f a = f b) ->
    forall l l', list_eqb R l l' = true -> map f l = map f l'.
  Proof.
    intros Hf. induction l as [|x l IH]; intros [|y l'] H; cbn [list_eqb] in H; try discriminate; [reflexivity|].
    apply andb_true_iff in H. destruct H as [H1 H2]. cbn [map]. rewrite (Hf _ _ H1), (IH _ H2). reflexivity.
  Qed.
  Lemma map_rel (f : A -> A) : (forall a b, R a b = true -> R (f a) (f b) = true) ->
    forall l l', list_eqb R l l' = true -> list_eqb R (map f l) (map f l') = true.
  Proof.
    intros Hf. induction l as [|x l IH]; intros [|y l'] H; cbn [list_eqb] in H; try discriminate; [reflexivity|].
    apply andb_true_iff in H. destruct H as [H1 H2]. cbn [map list_eqb]. rewrite (Hf _ _ H1), (IH _ H2). reflexivity.
  Qed.
End ListRel.

(* ---- the insertion sort of Check.App is stable: a selection whose members share one key is untouched ---- *)
Section Stable.
  Context {A : Type} (key : A -> Z) (p : A -> bool) (K : Z).
  Hypothesis HK : forall y, p y = true -> key y = K.
  Definition sortedk (l : list A) : Prop := StronglySorted (fun a b => key a <= key b) l.

  Lemma insert_by_sortedk x l : sortedk l -> sortedk (insert_by key x l).
  Proof.
    induction l as [|y l IH]; intros Hs; cbn [insert_by]; [constructor; constructor|].
    inversion Hs as [|? ? Hl Hy]; subst. destruct (Z.ltb (key x) (key y)) eqn:E.
    - apply Z.ltb_lt in E. constructor; [exact Hs|]. constructor; [lia|]. rewrite Forall_forall in *. intros z Hz. specialize (Hy z Hz). lia.
    - apply Z.ltb_ge in E. constructor; [apply IH; exact Hl|]. rewrite Forall_forall in *. intros z Hz. apply JudgeC12P.insert_by_in in Hz.
      destruct Hz as [->|Hz]; [exact E | exact (Hy z Hz)].
  Qed.
  Lemma insert_by_filter x l : sortedk l -> filter p (insert_by key x l) = if p x then filter p l ++ [x] else filter p l.
  Proof.
    induction l as [|y l IH]; intros Hs; cbn [insert_by]; [cbn [filter]; destruct (p x); reflexivity|].
    inversion Hs as [|? ? Hl Hy]; subst. destruct (Z.ltb (key x) (key y)) eqn:E.
    - apply Z.ltb_lt in E. cbn [filter]. destruct (p x) eqn:Px; [|reflexivity].
      assert (Hnone : filter p (y :: l) = []).
      { apply filter_none. intros z Hz. destruct (p z) eqn:Pz; [|reflexivity]. exfalso. pose proof (HK x Px). pose proof (HK z Pz).
        destruct Hz as [->|Hz]; [lia|]. rewrite Forall_forall in Hy. specialize (Hy z Hz). lia. }
      cbn [filter] in Hnone. rewrite Hnone. reflexivity.
    - cbn [filter]. rewrite (IH Hl). destruct (p y), (p x); reflexivity.
  Qed.
  Lemma sort_by_filter l : filter p (sort_by key l) = filter p l.
  Proof.
    unfold sort_by.
    assert (G : forall l acc, sortedk acc -> filter p (fold_left (fun acc x => insert_by key x acc) l acc) = filter p acc ++ filter p l).
    { clear l. induction l as [|x l IH]; intros acc Hs; cbn [fold_left filter]; [rewrite app_nil_r; reflexivity|].
      rewrite (IH _ (insert_by_sortedk x acc Hs)), (insert_by_filter x acc Hs). destruct (p x); [rewrite <- app_assoc|]; reflexivity. }
    rewrite (G l []); [reflexivity | constructor].
  Qed.
End Stable.

(* ---- agreement of two outputs of one step, as out_diff_k tests it ---- *)
Definition oagree (key : event -> Z) (isf : bool) (a b : out) : Prop :=
  (if isf then list_eqb event_eqb (x_main a) (x_main b) = true
   else list_eqb event_eqb (sort_by key (x_main a)) (sort_by key (x_main b)) = true) /\
  list_eqb logitem_eqb (x_log a) (x_log b) = true /\ list_eqb snap_entry_eqb (x_snaps a) (x_snaps b) = true /\
  x_mirror a = x_mirror b /\ x_panicked a = x_panicked b /\ (forall p, In p (x_built a) <-> In p (x_built b)).
Definition bagree (a b : out) : Prop := x_mirror a = x_mirror b /\ list_eqb snap_entry_eqb (x_snaps a) (x_snaps b) = true.

Lemma out_diff_oagree key isf a b : out_diff_k key isf a b = 0 -> oagree key isf a b.
Proof.
  intros H. destruct (JudgeC12P.out_diff_agree key isf a b H) as (_ & Hm & Hp & Hb).
  unfold out_diff_k, first_fail in H.
  destruct (list_eqb event_eqb (x_pre a) (x_pre b)); [|discriminate].
  match type of H with (if ?c then _ else _) = _ => destruct c eqn:E2; [|discriminate] end.
  match type of H with (if ?c then _ else _) = _ => destruct c; [|discriminate] end.
  destruct (list_eqb logitem_eqb (x_log a) (x_log b)) eqn:E4; [|discriminate].
  destruct (list_eqb snap_entry_eqb (x_snaps a) (x_snaps b)) eqn:E5; [|discriminate].
  split; [destruct isf; exact E2|]. split; [exact E4|]. split; [exact E5|]. split; [exact Hm|]. split; [exact Hp | exact Hb].
Qed.
Lemma oagree_bagree key isf a b : oagree key isf a b -> bagree a b.
Proof. intros (_ & _ & H3 & H4 & _). split; assumption. Qed.

Lemma forallb_ext' {A} (f g : A -> bool) l : (forall x, f x = g x) -> forallb f l = forallb g l.
Proof. intros H. induction l as [|x l IH]; cbn [forallb]; [reflexivity|]. rewrite H, IH. reflexivity. Qed.

Lemma got_of_agree c e a b : x_mirror a = x_mirror b -> got_of c e a = got_of c e b.
Proof. unfold got_of. intros ->. reflexivity. Qed.
Lemma has_of_agree c e a b : x_mirror a = x_mirror b -> has_of c e a = has_of c e b.
Proof. unfold has_of. intros ->. reflexivity. Qed.
Lemma built_here_agree c e a b : (forall p, In p (x_built a) <-> In p (x_built b)) -> built_here c e a = built_here c e b.
Proof. intros H. apply TrackOpP.bool_eq_iff. rewrite !built_here_iff. apply H. Qed.
Lemma snap_state_agree c e a l l' : list_eqb snap_entry_eqb l l' = true ->
  option_map sn_state (snap_of_entry c e a l) = option_map sn_state (snap_of_entry c e a l').
Proof. exact (JudgeC03P.snap_of_entry_rel c e a l l'). Qed.

Lemma retarget_rel a b : event_eqb a b = true -> event_eqb (C14c.retarget a) (C14c.retarget b) = true.
Proof.
  intros H. apply event_eqb_fields in H. destruct H as (H1 & H2 & H3 & H4 & H5 & H6 & H7).
  apply event_eqb_of; cbn [C14c.retarget e_target e_action e_kind e_value e_state e_elapsed e_fired]; try assumption. reflexivity.
Qed.
Lemma selq_rel acts e a b : event_eqb a b = true -> selq acts e a = selq acts e b.
Proof. intros H. apply event_eqb_fields in H. destruct H as (H1 & H2 & _). unfold selq. rewrite H1, H2. reflexivity. Qed.
Lemma evs_rel acts e l l' : list_eqb event_eqb l l' = true ->
  list_eqb event_eqb (map C14c.retarget (filter (selq acts e) l)) (map C14c.retarget (filter (selq acts e) l')) = true.
Proof.
  intros H. apply (map_rel event_eqb C14c.retarget retarget_rel). apply (filter_rel event_eqb (selq acts e) (selq_rel acts e)). exact H.
Qed.

Lemma judge_frame_agree sc before before' o o' : bagree before before' ->
  list_eqb event_eqb (x_main o) (x_main o') = true -> list_eqb snap_entry_eqb (x_snaps o) (x_snaps o') = true ->
  judge_frame sc before o = judge_frame sc before' o'.
Proof.
  intros [Hm Hs] Hmain Hsn. unfold judge_frame. f_equal. apply map_ext. intros c. cbv zeta.
  assert (Hhs : filter (fun e => has_of c e before) (s_ents sc) = filter (fun e => has_of c e before') (s_ents sc))
    by (apply filter_ext; intros e; apply has_of_agree; exact Hm).
  rewrite Hhs. set (hs := filter (fun e => has_of c e before') (s_ents sc)). f_equal.
  - f_equal. apply (forallb_rel event_eqb); [|exact Hmain]. intros a b H. apply event_eqb_fields in H. destruct H as (H1 & H2 & _). rewrite H1, H2. reflexivity.
  - destruct (ctx_shared c).
    + destruct hs as [|h0 rest]; [reflexivity|]. f_equal. f_equal. apply forallb_ext'. intros e.
      apply (list_eqb_equiv event_eqb event_eqb_sym event_eqb_trans); apply (evs_rel (actions_of_ctx sc c)); exact Hmain.
    + apply map_ext. intros e. f_equal. apply forallb_ext'. intros a.
      pose proof (snap_state_agree c e a _ _ Hsn) as S1. pose proof (snap_state_agree c e a _ _ Hs) as S2.
      assert (Hk : map e_kind (filter (fun ev => Z.eqb (e_target ev) e && Z.eqb (e_action ev) a) (x_main o)) =
                   map e_kind (filter (fun ev => Z.eqb (e_target ev) e && Z.eqb (e_action ev) a) (x_main o'))).
      { apply (map_rel_eq event_eqb e_kind); [intros x y H; apply event_eqb_fields in H; tauto|].
        apply (filter_rel event_eqb); [|exact Hmain]. intros x y H. apply event_eqb_fields in H. destruct H as (H1 & H2 & _). rewrite H1, H2. reflexivity. }
      rewrite Hk.
      destruct (snap_of_entry c e a (x_snaps o)) as [s|], (snap_of_entry c e a (x_snaps o')) as [s'|]; cbn [option_map] in S1; try discriminate; [|reflexivity].
      injection S1 as ->.
      destruct (snap_of_entry c e a (x_snaps before)) as [p|], (snap_of_entry c e a (x_snaps before')) as [p'|]; cbn [option_map] in S2; try discriminate;
        [injection S2 as ->|]; reflexivity.
Qed.

Lemma find_mod_in_rel id : forall lg lg', list_eqb logitem_eqb lg lg' = true ->
  match find_mod id lg, find_mod id lg' with
  | Some (v, _, _), Some (v', _, _) => veqb v v' = true
  | None, None => True
  | _, _ => False
  end.
Proof.
  induction lg as [|x lg IH]; intros [|y lg'] H; cbn [list_eqb] in H; try discriminate; [exact I|].
  apply andb_true_iff in H. destruct H as [Hxy H]. specialize (IH lg' H).
  destruct x as [i1 v1 r1 s1|i1 v1 o1 s1], y as [i2 v2 r2 s2|i2 v2 o2 s2]; cbn [logitem_eqb] in Hxy; try discriminate; cbn [find_mod].
  - exact IH.
  - repeat (apply andb_true_iff in Hxy; let H' := fresh "E" in destruct Hxy as [Hxy H']).
    apply Z.eqb_eq in Hxy. subst i2. destruct (Z.eqb i1 id); [exact E1|exact IH].
Qed.
Lemma veqb_cong_l v v' x : veqb v v' = true -> veqb v x = veqb v' x.
Proof.
  intros H. destruct (veqb v x) eqn:E1; destruct (veqb v' x) eqn:E2; try reflexivity.
  - rewrite (veqb_trans _ _ _ (veqb_sym _ _ H) E1) in E2. discriminate.
  - rewrite (veqb_trans _ _ _ H E2) in E1. discriminate.
Qed.

Lemma judge_reads_agree sc f before before' o o' : x_mirror before = x_mirror before' ->
  list_eqb logitem_eqb (x_log o) (x_log o') = true -> judge_reads sc f before o = judge_reads sc f before' o'.
Proof.
  intros Hm Hl. unfold judge_reads. destruct (consuming_profile sc); [reflexivity|]. apply flat_map_ext. intros [[c e] spec].
  rewrite (got_of_agree c e before before' Hm). destruct (negb (ctx_shared c) && got_of c e before'); [|reflexivity].
  apply flat_map_ext. intros ab. apply flat_map_ext. intros ib. destruct (ib_mods ib) as [|[id m] r]; [reflexivity|].
  destruct m; try reflexivity. destruct outs; [|reflexivity]. pose proof (find_mod_in_rel id _ _ Hl) as Hf.
  destruct (find_mod id (x_log o)) as [[[v ?] ?]|], (find_mod id (x_log o')) as [[[v' ?] ?]|]; try contradiction; [|reflexivity].
  rewrite (veqb_cong_l v v' _ Hf). reflexivity.
Qed.

Lemma jos_entry_agree sc isf before before' o o' xa : x_mirror before = x_mirror before' ->
  list_eqb snap_entry_eqb (x_snaps o) (x_snaps o') = true -> (forall p, In p (x_built o) <-> In p (x_built o')) ->
  jos_entry sc isf before o xa = jos_entry sc isf before' o' xa.
Proof.
  intros Hm Hs Hb. destruct xa as [[[c e] spec] age]. unfold jos_entry. destruct (ctx_shared c); [reflexivity|].
  rewrite (got_of_agree c e before before' Hm), (built_here_agree c e o o' Hb). f_equal.
  destruct (isf && got_of c e before'); [|reflexivity]. apply flat_map_ext. intros s.
  destruct (a_mods s); [|reflexivity]. destruct (a_conds s) as [|[id cd] rest]; [reflexivity|]. destruct cd; try reflexivity.
  destruct k as [| |?]; try reflexivity. destruct rest; [|reflexivity]. destruct (a_binds s); [|reflexivity].
  pose proof (snap_state_agree c e (a_id s) _ _ Hs) as S.
  destruct (snap_of_entry c e (a_id s) (x_snaps o)) as [x|], (snap_of_entry c e (a_id s) (x_snaps o')) as [x'|]; cbn [option_map] in S; try discriminate;
    [injection S as ->|]; reflexivity.
Qed.
Lemma judge_own_script_agree sc isf ages before before' o o' : x_mirror before = x_mirror before' ->
  list_eqb snap_entry_eqb (x_snaps o) (x_snaps o') = true -> (forall p, In p (x_built o) <-> In p (x_built o')) ->
  judge_own_script sc isf ages before o = judge_own_script sc isf ages before' o'.
Proof.
  intros Hm Hs Hb. rewrite !judge_own_script_eq.
  rewrite (map_ext _ _ (fun xa => jos_entry_agree sc isf before before' o o' xa Hm Hs Hb)). reflexivity.
Qed.

(* ---- the closing events of a rebuild are compared up to the order across context types ---- *)
Lemma dedup_const c l : l <> [] -> (forall x, In x l -> x = c) -> dedup l = [c].
Proof.
  induction l as [|x l IH]; intros Hne H; [congruence|]. cbn [dedup]. pose proof (H x (or_introl eq_refl)) as ->.
  destruct (memz c l) eqn:E.
  - apply IH; [intros ->; discriminate | intros y Hy; apply H; right; exact Hy].
  - destruct l as [|y l]; [reflexivity|]. exfalso. apply memz_false in E. apply E. left. apply H. right. left. reflexivity.
Qed.
Lemma ctx_key_acts sc c ev : p_acts sc = true -> In (e_action ev) (actions_of_ctx sc c) -> ctx_key sc ev = c.
Proof.
  intros Hp Ha. unfold ctx_key, ctxs_of_action. rewrite (dedup_const c); [reflexivity| |].
  - apply in_acts in Ha. destruct Ha as (x & Hx & Hc & Hin). intros E.
    assert (X : In c (flat_map (fun x => if existsb (fun s => Z.eqb (a_id s) (e_action ev)) (i_actions (snd x)) then [fst (fst x)] else []) (s_cfg sc))).
    { apply in_flat_map. exists x. split; [exact Hx|]. apply in_map_iff in Hin. destruct Hin as (s & Hs & Hsin).
      assert (Y : existsb (fun s => Z.eqb (a_id s) (e_action ev)) (i_actions (snd x)) = true) by (apply existsb_exists; exists s; split; [exact Hsin | apply Z.eqb_eq; exact Hs]).
      rewrite Y. left. exact Hc. }
    rewrite E in X. destruct X.
  - intros c' Hc'. apply in_flat_map in Hc'. destruct Hc' as (x & Hx & Hin).
    destruct (existsb (fun s => Z.eqb (a_id s) (e_action ev)) (i_actions (snd x))) eqn:Y; [|destruct Hin]. destruct Hin as [<-|[]].
    apply existsb_exists in Y. destruct Y as (s & Hs & Hid). apply Z.eqb_eq in Hid.
    apply (p_acts_unique sc (fst (fst x)) c (e_action ev) Hp); [|exact Ha]. apply in_acts. exists x. split; [exact Hx|]. split; [reflexivity|].
    apply in_map_iff. exists s. split; assumption.
Qed.

Lemma judge_rebuild_agree sc before before' o o' : p_acts sc = true -> x_mirror before = x_mirror before' -> x_mirror o = x_mirror o' ->
  list_eqb event_eqb (sort_by (ctx_key sc) (x_main o)) (sort_by (ctx_key sc) (x_main o')) = true ->
  judge_rebuild sc before o = judge_rebuild sc before' o'.
Proof.
  intros Hp Hm Hm' Hmain. unfold judge_rebuild. apply flat_map_ext. intros c. destruct (ctx_shared c); [|reflexivity]. cbv zeta.
  assert (Hhs : filter (fun e => got_of c e before && got_of c e o) (s_ents sc) = filter (fun e => got_of c e before' && got_of c e o') (s_ents sc))
    by (apply filter_ext; intros e; rewrite (got_of_agree c e before before' Hm), (got_of_agree c e o o' Hm'); reflexivity).
  rewrite Hhs. destruct (filter (fun e => got_of c e before' && got_of c e o') (s_ents sc)) as [|h0 rest]; [reflexivity|].
  f_equal. f_equal. apply forallb_ext'. intros e.
  assert (Hev : forall x, list_eqb event_eqb (map C14c.retarget (filter (selq (actions_of_ctx sc c) x) (x_main o)))
                                             (map C14c.retarget (filter (selq (actions_of_ctx sc c) x) (x_main o'))) = true).
  { intros x.
    assert (HK : forall y, selq (actions_of_ctx sc c) x y = true -> ctx_key sc y = c).
    { intros y Hy. unfold selq in Hy. apply andb_true_iff in Hy. destruct Hy as [_ Hy]. apply memz_in in Hy. exact (ctx_key_acts sc c y Hp Hy). }
    rewrite <- (sort_by_filter (ctx_key sc) _ c HK (x_main o)), <- (sort_by_filter (ctx_key sc) _ c HK (x_main o')).
    apply evs_rel. exact Hmain. }
  exact (list_eqb_equiv event_eqb event_eqb_sym event_eqb_trans _ _ _ _ (Hev e) (Hev h0)).
Qed.

(* ---- all steps ---- *)
Lemma judge_steps_agree sc key : forall steps outs outs' ages before before' i, 0 <= i ->
  outs_diff key i steps outs outs' = 0 -> bagree before before' ->
  judge_steps sc ages before steps outs = judge_steps sc ages before' steps outs'.
Proof.
  induction steps as [|st steps IH]; intros outs outs' ages before before' i Hi H Hb.
  - destruct outs as [|x r].
    + rewrite (JudgeC03P.outs_diff_nil_l key i [] outs' Hi H). reflexivity.
    + destruct outs' as [|y s]; [discriminate (JudgeC03P.outs_diff_nil_r key i [] _ Hi H)|]. reflexivity.
  - destruct outs as [|x r].
    + rewrite (JudgeC03P.outs_diff_nil_l key i _ outs' Hi H). destruct st; reflexivity.
    + destruct outs' as [|y s]; [discriminate (JudgeC03P.outs_diff_nil_r key i _ _ Hi H)|].
      destruct (JudgeC03P.outs_diff_cons key i (st :: steps) x r y s Hi H) as [E H']. cbn [tl] in H'.
      apply out_diff_oagree in E. destruct E as (Em & El & Es & Emi & Ep & Eb). destruct Hb as [Hm Hs].
      assert (Hi' : 0 <= i + 1) by lia.
      pose proof (fun ages' => IH r s ages' x y (i + 1) Hi' H' (conj Emi Es)) as IH1.
      destruct st as [op|f]; cbn [judge_steps is_frame] in *.
      * rewrite (judge_own_script_agree sc false ages before before' x y Hm Es Eb).
        destruct (judge_own_script sc false ages before' y) as [chk ages']. rewrite Ep, IH1. reflexivity.
      * rewrite (judge_own_script_agree sc true ages before before' x y Hm Es Eb).
        destruct (judge_own_script sc true ages before' y) as [chk ages']. rewrite Ep, IH1, (judge_reads_agree sc f before before' x y Hm El).
        f_equal. f_equal. destruct (f_ops f); [|reflexivity]. apply judge_frame_agree; [split|..]; assumption.
Qed.

Lemma judge_ops_agree sc : p_acts sc = true -> forall steps outs outs' before before' i, 0 <= i ->
  outs_diff (ctx_key sc) i steps outs outs' = 0 -> x_mirror before = x_mirror before' ->
  judge_ops sc before steps outs = judge_ops sc before' steps outs'.
Proof.
  intros Hp. induction steps as [|st steps IH]; intros outs outs' before before' i Hi H Hm.
  - destruct outs as [|x r].
    + rewrite (JudgeC03P.outs_diff_nil_l _ i [] outs' Hi H). reflexivity.
    + destruct outs' as [|y s]; [discriminate (JudgeC03P.outs_diff_nil_r _ i [] _ Hi H)|]. reflexivity.
  - destruct outs as [|x r].
    + rewrite (JudgeC03P.outs_diff_nil_l _ i _ outs' Hi H). destruct st as [[| | | |]|]; reflexivity.
    + destruct outs' as [|y s]; [discriminate (JudgeC03P.outs_diff_nil_r _ i _ _ Hi H)|].
      destruct (JudgeC03P.outs_diff_cons _ i (st :: steps) x r y s Hi H) as [E H']. cbn [tl] in H'.
      apply out_diff_oagree in E. destruct E as (Em & El & Es & Emi & Ep & Eb).
      assert (Hi' : 0 <= i + 1) by lia. pose proof (IH r s x y (i + 1) Hi' H' Emi) as IH1.
      destruct st as [[e cs|e c|e c|e|]|f]; cbn [judge_ops is_frame] in *; try exact IH1.
      rewrite IH1, (judge_rebuild_agree sc before before' x y Hp Hm Emi Em). reflexivity.
Qed.

(* whatever the two passes say about the model's run, they say about every trace that agrees with it *)
Theorem C14_clauses_respect_agree : forall sc outs, p_acts sc = true -> agree_full (sc, trace outs) = true ->
  judge_steps sc (map (fun _ => 0) (s_cfg sc)) out0 (s_steps sc) outs ++ judge_ops sc out0 (s_steps sc) outs = clause_list sc.
Proof.
  intros sc outs Hp H. unfold agree_full in H. cbn [fst snd trace_diff] in H. apply Z.eqb_eq in H. unfold clause_list.
  rewrite (judge_steps_agree sc (ctx_key sc) (s_steps sc) (run sc) outs _ out0 out0 0 (Z.le_refl 0) H (conj eq_refl eq_refl)).
  rewrite (judge_ops_agree sc Hp (s_steps sc) (run sc) outs out0 out0 0 (Z.le_refl 0) H eq_refl). reflexivity.
Qed.

(* (T), modulo the judgement of C05 on consuming scenarios *)
Theorem C14_app_judgement_transfer_mod_C05 : forall sc t, profile_C14_upto5 sc -> agree_full (sc, t) = true ->
  (consuming_profile sc = true -> Check.C05c.ok5 (sc, t) = 0) -> ok (sc, t) = 0.
Proof.
  intros sc t Hp Ha H5. destruct t as [outs|]; [|discriminate Ha]. rewrite ok_unfold. cbv zeta.
  destruct (profile_upto5_parts sc Hp) as [_ Hpf].
  rewrite (C14_clauses_respect_agree sc outs (pf_acts sc Hpf) Ha), (first_fail_all_true _ (C14_app_clauses_sound sc Hp)). cbn [Z.eqb negb].
  destruct (consuming_profile sc); [rewrite (H5 eq_refl); reflexivity | reflexivity].
Qed.

(* (T) *)
Theorem C14_app_judgement_transfer : forall sc t, profile_C14 sc -> agree_full (sc, t) = true -> ok (sc, t) = 0.
Proof.
  intros sc t H Ha. unfold profile_C14, profile_C14b in H. apply andb_true_iff in H. destruct H as [H1 H2]. apply negb_true_iff in H2.
  apply (C14_app_judgement_transfer_mod_C05 sc t H1 Ha). rewrite H2. discriminate.
Qed.

(* (T) on a trace that agrees with the model's run without being equal to it: in the steps between frames the closing events of
   the shared type come first and the list of built instances is reversed; all rationals are written as unreduced fractions *)
Definition ex_unq (x : Q) : Q := Qmake (2 * Qnum x) (2 * Qden x).
Definition ex_unv (v : value) : value :=
  match v with VB b => VB b | V1 x => V1 (ex_unq x) | V2 x y => V2 (ex_unq x) (ex_unq y) | V3 x y z => V3 (ex_unq x) (ex_unq y) (ex_unq z) end.
Definition ex_unev (ev : event) : event :=
  mkEv (e_target ev) (e_action ev) (e_kind ev) (ex_unv (e_value ev)) (e_state ev) (option_map ex_unq (e_elapsed ev)) (option_map ex_unq (e_fired ev)).
Definition ex_alt (so : step * out) : out :=
  let '(st, o) := so in
  let main := map ex_unev (x_main o) in
  if is_frame st then mkOut (x_pre o) main (x_post o) (x_log o) (x_snaps o) (x_mirror o) (x_built o) (x_probe o) (x_update o) (x_panicked o)
  else mkOut (x_pre o) (filter (fun ev => Z.eqb (e_action ev) 16) main ++ filter (fun ev => negb (Z.eqb (e_action ev) 16)) main)
             (x_post o) (x_log o) (x_snaps o) (x_mirror o) (rev (x_built o)) (x_probe o) (x_update o) (x_panicked o).
Definition ex_outs : list out := map ex_alt (combine (s_steps ex_sc) (run ex_sc)).
Example C14_app_judgement_transfer_satisfiable :
  profile_C14 ex_sc /\ agree_full (ex_sc, trace ex_outs) = true /\ ok (ex_sc, trace ex_outs) = 0 /\
  map (fun o => map e_action (x_main o)) ex_outs <> map (fun o => map e_action (x_main o)) (run ex_sc).
Proof. split; [vm_compute; reflexivity|]. split; [vm_compute; reflexivity|]. split; [vm_compute; reflexivity|]. vm_compute. discriminate. Qed.

Print Assumptions C14_app_clauses_sound.
Print Assumptions C14_app_judgement_sound_mod_C05.
Print Assumptions C14_app_judgement_sound.
Print Assumptions C14_clauses_respect_agree.
Print Assumptions C14_app_judgement_transfer_mod_C05.
Print Assumptions C14_app_judgement_transfer.
